(* C16 -- Declarations the engine cannot execute are rejected at build time.
   Model: Pure/Validate.v over the traversal of Pure/Builder.v. What Python introspection decides about one class
   (is it a class, its bases, its process method and annotations) is abstracted into defect flags per node; the
   theorems quantify over every declaration set, every assignment of flags and every position of the defect. *)
From MLPE Require Import Pure.Validate Proofs.ValidateProofs Proofs.TraversalProofs.

(* every node reachable from the output through declared marks (or the implicit input link) is examined *)
Theorem C16_reachable_is_examined :
  forall ds inp out, in_range ds inp out -> inp <> out ->
                     forall i, reach ds inp out i -> examined ds inp out i.
Proof. exact traversal_complete. Qed.
Print Assumptions C16_reachable_is_examined.

(* sound and complete: accepted iff nothing examined is defective *)
Theorem C16_accepts_iff_clean :
  forall ds flags inp out, validate ds flags inp out = None <-> clean ds flags inp out.
Proof. exact validate_accepts_iff_clean. Qed.
Print Assumptions C16_accepts_iff_clean.

(* hence: a defect at any reachable node is rejected -- no DAG is returned *)
Theorem C16_reachable_defect_rejected :
  forall ds flags inp out i e,
    in_range ds inp out -> inp <> out -> reach ds inp out i -> node_error (flags i) = Some e ->
    validate ds flags inp out <> None.
Proof.
  intros ds flags inp out i e R Hne Hr He Hv. apply validate_accepts_iff_clean in Hv. destruct Hv as [H _].
  rewrite (H i (traversal_complete ds inp out R Hne i Hr)) in He. discriminate.
Qed.
Print Assumptions C16_reachable_defect_rejected.

(* specific: exactly one defective class -> exactly its error (in the engine's order of checks, node_error);
   a recurrent destination without the protocol / a recurrent start without additional_data likewise *)
Theorem C16_specific_error :
  forall ds flags inp out n e,
    in_range ds inp out -> inp <> out -> reach ds inp out n -> node_error (flags n) = Some e ->
    (forall i, examined ds inp out i -> i <> n -> node_error (flags i) = None) ->
    validate ds flags inp out = Some e.
Proof.
  intros ds flags inp out n e R Hne Hr He Ho. apply (validate_specific_node ds flags inp out n e); try assumption.
  apply traversal_complete; assumption.
Qed.
Print Assumptions C16_specific_error.

Theorem C16_specific_recurrent_dest :
  forall ds flags inp out d,
    (forall i, examined ds inp out i -> node_error (flags i) = None) ->
    rec_dest ds inp out d -> df_no_rec_protocol (flags d) = true ->
    validate ds flags inp out = Some EIncorrectRecurrentMixin.
Proof. exact validate_specific_rec_dest. Qed.
Print Assumptions C16_specific_recurrent_dest.

Theorem C16_specific_recurrent_start :
  forall ds flags inp out s,
    (forall i, examined ds inp out i -> node_error (flags i) = None) ->
    (forall d, rec_dest ds inp out d -> df_no_rec_protocol (flags d) = false) ->
    rec_start ds inp out s -> df_no_additional_data (flags s) = true ->
    validate ds flags inp out = Some EIncorrectParamsRecurrentNode.
Proof. exact validate_specific_rec_start. Qed.
Print Assumptions C16_specific_recurrent_start.

(* the precedence of the per-class checks is the engine's *)
Theorem C16_check_order :
  forall d, node_error d =
            if df_not_class d then Some EIncorrectTypeClass
            else if df_no_base d then Some EIncorrectBaseClass
            else if df_no_process d then Some ERunMethodExpected
            else if df_no_annotations d then Some EUndefinedAnnotation
            else if df_unannotated_param d then Some EUndefinedParamAnnotation
            else if df_generic d then Some ENonRedefinedGeneric else None.
Proof. reflexivity. Qed.
Print Assumptions C16_check_order.

(* non-vacuity: a three-node program  out(a: Input(mid)), mid(x: Input(in)), in()  with a defect at `mid` *)
Example C16_example :
  let nd ps := {| ns_params := ps; ns_mode := MGated; ns_attempts := None; ns_delay := None; ns_excs := None;
                  ns_default := false |} in
  let ds := [nd []; nd [(1, MIn 0)]; nd [(1, MIn 1)]] in
  let flags := fun i => if Nat.eqb i 1 then {| df_not_class := false; df_no_base := true; df_no_process := false;
                                                df_no_annotations := false; df_unannotated_param := true; df_generic := false;
                                                df_no_rec_protocol := false; df_no_additional_data := false |}
                        else no_defects in
  validate ds flags 0 2 = Some EIncorrectBaseClass /\ validate ds (fun _ => no_defects) 0 2 = None.
Proof. vm_compute. split; reflexivity. Qed.
