(* C03 -- A node starts only after its inputs are final and gets exactly their values.

   Full statement: every body invocation of node i receives keyword arguments equal to what the reference semantics passes to i
   in some execution of i (one keyword per declared parameter, final values of the declared inputs, never a failure object, a
   Recurrent marker or a placeholder; the reference never produces those as arguments).
   Proved here, kind E, for every program of the clean catalogue and every schedule (incl. cancellation): the arguments held by
   every frame of the retry loop of every task (FRetry / FRetryAfterBody / FRetryAfterEmit / FRetryAfterSleep -- the arguments a
   body is, was or will again be invoked with) are arguments of the reference for that node; and no body is invoked more often
   than the reference invokes it. Limitation: a body that does not suspend (inline / immediate mode) is invoked and finished
   inside one loop step, so its arguments never rest in a frame between steps; for those the statement is decided by the
   oracle on the implementation and by the correspondence of traces only. FALSE in general (known findings D9, D11, D12, D13, D17). *)
From MLPE Require Import Engine.Run Spec.Dataflow Proofs.ExecLemmas Explore.StateEq Explore.Erase Explore.Explorer Explore.Safe
     Catalogue.Programs Catalogue.Certified Proofs.CertLemmas.

Definition C03_statement_on_frames (P : prog) : Prop :=
  forall st, reachable P st -> safe_kwargs P st = true.

Theorem C03_catalogue : forall P, In P catalogue_clean -> C03_statement_on_frames P.
Proof. intros P HP st Hr. destruct (certified_facts P st (in_clean_certified P HP) Hr) as (_ & _ & _ & _ & H & _). exact H. Qed.
Print Assumptions C03_catalogue.

(* spelled out for one frame: a task about to invoke / having invoked the body of node i with kw *)
Theorem C03_arguments_are_reference_arguments :
  forall P, In P catalogue_clean ->
    forall st x k sg i force kw att, reachable P st -> In x (st_tasks st) -> t_state x = TReady k sg \/ (exists w, t_state x = TWait w k) ->
      In (FRetry i force kw att) k \/ In (FRetryAfterBody i kw att) k ->
      exists e, In e (ref_log P) /\ x_node e = i /\ x_kw e = kw.
Proof.
  intros P HP st x k sg i force kw att Hr Hx Hs Hf. pose proof (C03_catalogue P HP st Hr) as H.
  unfold safe_kwargs in H. rewrite forallb_forall in H. specialize (H x Hx).
  assert (Hk : forallb (frame_kwargs_ok P) k = true).
  { destruct Hs as [E|[w E]]; rewrite E in H; exact H. }
  rewrite forallb_forall in Hk.
  assert (Hok : ref_kwargs_ok P i kw = true).
  { destruct Hf as [Hf|Hf]; specialize (Hk _ Hf); exact Hk. }
  unfold ref_kwargs_ok in Hok. apply existsb_exists in Hok. destruct Hok as [e [He Hm]].
  apply andb_true_iff in Hm. destruct Hm as [H1 H2]. apply Nat.eqb_eq in H1.
  apply (list_eqb_sound _ (prod_eqb_sound _ _ nat_eqb_sound value_seqb_sound)) in H2. exists e. auto.
Qed.
Print Assumptions C03_arguments_are_reference_arguments.
