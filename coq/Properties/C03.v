(* C03 -- A node starts only after its inputs are final and gets exactly their values.

   Full statement: every body invocation of node i receives keyword arguments equal to what the reference semantics passes to i
   in some execution of i (one keyword per declared parameter, final values of the declared inputs, never a failure object, a
   Recurrent marker or a placeholder; the reference never produces those as arguments).
   Proved here, kind E, for every program of the clean catalogue and every schedule (incl. cancellation): the arguments held by
   every frame of the retry loop of every task (FRetry / FRetryAfterBody / FRetryAfterEmit / FRetryAfterSleep -- the arguments a
   body is, was or will again be invoked with) are arguments of the reference for that node; and no body is invoked more often
   than the reference invokes it. Limitation: a body that does not suspend (inline / immediate mode) is invoked and finished
   inside one loop step, so its arguments never rest in a frame between steps; for those the statement is decided by the
   oracle on the implementation and by the correspondence of traces only. FALSE in general (known findings D9, D11, D12, D13, D17).
   Kind G (ALL programs, EVERY schedule incl. cancellation; Proofs/ArgsAll.v; on the history, so inline bodies are included):
   C03_arguments_come_from_the_declared_inputs / C03_default_arguments_come_from_the_declared_inputs -- the keyword arguments of
   every body invocation and of every get_default call are what _get_node_kwargs builds from the node's declared dependencies
   (one entry per incoming edge that names a parameter, the caller's input_kwargs for the input node, additional_data for a start
   node), and every value in them was stored before the call as the result of the declared source (for a switch parameter: of
   the case recorded for the switch) or is None. Not said there: that the value is the source's FINAL value (false in general:
   D9) and that it is not a failure object (false in general: D11). *)
From MLPE Require Import Engine.Run Spec.Dataflow Proofs.ExecLemmas Explore.StateEq Explore.Erase Explore.Explorer Explore.Safe
     Catalogue.Programs Catalogue.Certified Proofs.CertLemmas.

Definition C03_statement_on_frames (P : prog) : Prop :=
  forall st, reachable P st -> safe_kwargs P st = true.

Theorem C03_catalogue : forall P, In P catalogue_clean -> C03_statement_on_frames P.
Proof. intros P HP st Hr. destruct (certified_facts P st (in_clean_certified P HP) Hr) as (_ & _ & _ & _ & H & _). exact H. Qed.
Print Assumptions C03_catalogue.

(* spelled out for one frame: a task about to invoke / having invoked the body of node i with kw *)
Theorem C03_arguments_are_reference_arguments :
  forall P, In P catalogue_clean ->
    forall st x k sg i force kw att, reachable P st -> In x (st_tasks st) -> t_state x = TReady k sg \/ (exists w, t_state x = TWait w k) ->
      In (FRetry i force kw att) k \/ In (FRetryAfterBody i kw att) k ->
      exists e, In e (ref_log P) /\ x_node e = i /\ x_kw e = kw.
Proof.
  intros P HP st x k sg i force kw att Hr Hx Hs Hf. pose proof (C03_catalogue P HP st Hr) as H.
  unfold safe_kwargs in H. rewrite forallb_forall in H. specialize (H x Hx).
  assert (Hk : forallb (frame_kwargs_ok P) k = true).
  { destruct Hs as [E|[w E]]; rewrite E in H; exact H. }
  rewrite forallb_forall in Hk.
  assert (Hok : ref_kwargs_ok P i kw = true).
  { destruct Hf as [Hf|Hf]; specialize (Hk _ Hf); exact Hk. }
  unfold ref_kwargs_ok in Hok. apply existsb_exists in Hok. destruct Hok as [e [He Hm]].
  apply andb_true_iff in Hm. destruct Hm as [H1 H2]. apply Nat.eqb_eq in H1.
  apply (list_eqb_sound _ (prod_eqb_sound _ _ nat_eqb_sound value_seqb_sound)) in H2. exists e. auto.
Qed.
Print Assumptions C03_arguments_are_reference_arguments.

(* ---- kind F: ALL plain programs (no switch, no one-of, no body asking for another iteration; any size and shape, any retry /
   default settings, execution modes, event managers, stores and collaborator faults), ALL schedules incl. cancellation ----
   no body and no get_default is ever invoked with a failure object or a Recurrent marker as an argument (one clause of C03;
   the other clauses -- one keyword per parameter, final values, input node gets input_kwargs -- are kind E above). *)
From MLPE Require Import Proofs.PlainWorld Proofs.PlainLive.

Theorem C03_on_plain_programs_no_failure_object_or_marker_as_argument :
  forall P, plain_prog P ->
    forall st i k kw p v, reachable P st -> In (OStart i k kw) (st_trace st) \/ In (ODefault i kw) (st_trace st) -> In (p, v) kw ->
      is_rec v = false /\ is_exn v = false.
Proof.
  intros P HP st i k kw p v Hr Hin Hv.
  assert (H : kw_clean kw = true).
  { destruct Hin as [Hin|Hin]; exact (plain_prog_values_in_flight P st _ HP Hr Hin). }
  unfold kw_clean in H. rewrite forallb_forall in H. specialize (H _ Hv). cbn [snd] in H.
  split; [apply clean_not_rec|apply clean_not_exn]; exact H.
Qed.
Print Assumptions C03_on_plain_programs_no_failure_object_or_marker_as_argument.

Example C03_plain_not_vacuous :
  plain_prog cat_rhombus /\
  existsb (fun o => match o with OStart 3 _ (_ :: _ :: _) => true | _ => false end) (st_trace (auto_run cat_rhombus 40 init_state)) = true /\
  reachable cat_rhombus (auto_run cat_rhombus 40 init_state).
Proof.
  split; [|split; [vm_compute; reflexivity|apply auto_run_reachable, reach_init]].
  split; [vm_compute; reflexivity|]. split; [|vm_compute; reflexivity].
  apply dsl_body_clean. vm_compute. reflexivity.
Qed.

(* ---- kind F, the main clause: ALL plain programs, ALL schedules, at every point while manager.run is pending ----
   every body invocation logged so far, and every argument list held by the retry loop of a node task (what a body is, was or
   will again be invoked with), is exactly the keyword-argument list computed from the stored results of the node's declared
   inputs; a node has a task only when all its declared inputs have a result; and a stored result is never replaced (it is
   final: lemma F1 inside Proofs/PlainArgs.v, which is what keeps `node_kwargs` stable from the invocation on). *)
From MLPE Require Import Proofs.PlainCore Proofs.PlainArgs.

Theorem C03_on_plain_programs_arguments_are_the_final_values_of_the_inputs :
  forall P, plain_prog P -> NoDup (p_order P (maind P)) ->
    forall st, reachable P st -> over st = false -> main_done st = false ->
      (forall i k kw, In (OStart i k kw) (st_trace st) ->
         exists m, real_index m = i /\ node_kwargs P st m = Some kw /\
                   forall p, In p (preds (b_graph (build (p_decls P) (p_inp P) (p_out P))) m) -> exists_result p (st_store st) = true) /\
      (forall x m f j kw, In x (st_tasks st) -> t_name x = TNNode m -> In f (estack (t_state x)) -> retry_kw f = Some (j, kw) ->
         j = real_index m /\ node_kwargs P st m = Some kw) /\
      (forall x m p, In x (st_tasks st) -> t_name x = TNNode m -> In p (preds (b_graph (build (p_decls P) (p_inp P) (p_out P))) m) ->
         exists_result p (st_store st) = true).
Proof. exact plain_arguments_are_final_values. Qed.
Print Assumptions C03_on_plain_programs_arguments_are_the_final_values_of_the_inputs.

(* a state in the middle of a run of the rhombus: the last node's body has been invoked with two arguments, the run is pending *)
Example C03_plain_arguments_not_vacuous :
  let st := auto_run cat_rhombus 4 init_state in
  over st = false /\ main_done st = false /\
  existsb (fun o => match o with OStart 3 _ (_ :: _ :: _) => true | _ => false end) (st_trace st) = true.
Proof. vm_compute. repeat split; reflexivity. Qed.

(* ---- kind G: all programs, all schedules ------------------------------------------------------------------------------------ *)
From MLPE Require Import Proofs.Micro Proofs.SwitchAll Proofs.ArgsAll.

Theorem C03_arguments_come_from_the_declared_inputs :
  forall P st, reachable P st ->
    forall a b i k kw, st_trace st = a ++ OStart i k kw :: b ->
      exists n val ad, real_index n = i /\ gen_kwargs P n val ad = Some kw /\ (forall p v, val p = Some v -> prov P b p v) /\ ad_ok P b n ad.
Proof. exact arguments_come_from_the_declared_inputs_all_programs. Qed.
Print Assumptions C03_arguments_come_from_the_declared_inputs.

Theorem C03_default_arguments_come_from_the_declared_inputs :
  forall P st, reachable P st ->
    forall a b i kw, st_trace st = a ++ ODefault i kw :: b ->
      exists n val ad, real_index n = i /\ gen_kwargs P n val ad = Some kw /\ (forall p v, val p = Some v -> prov P b p v) /\ ad_ok P b n ad.
Proof. exact default_arguments_come_from_the_declared_inputs_all_programs. Qed.
Print Assumptions C03_default_arguments_come_from_the_declared_inputs.
