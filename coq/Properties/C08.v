(* C08 -- Overlapping runs of one chart do not interfere.

   Model: Engine/Multi.v -- k runs of one chart on one loop are the free interleaving of k single-run machines over the
   same immutable program (the repaired engine keeps every piece of run-time state in the per-run manager).
   Theorems, for EVERY program, every number of runs and every interleaving (multi-schedule) of unbounded length:
   (1) run #j in the crowd is exactly the single run of a fresh chart under the schedule induced on it;
   (2) two interleavings that induce the same schedule on run #j (e.g. they differ in another run failing, being cancelled,
       being faster or slower) leave run #j in the same state: same outcome, same stored results, same trace;
   (3) hence everything proved for single runs (C13, C02/C01/... on the catalogue) holds for each overlapping run.
   What the model assumes -- that the real engine shares nothing mutable between runs (graph attributes, node map, node
   classes, the caller's input dict; the pool registries are process-wide and only hold the executors) -- is NOT a theorem: it is
   examined on every run by the correspondence check with 2-3 overlapping chart.run tasks on one virtual loop (each compared
   with the single-run model under its induced schedule and with the reference) and by deep snapshots. *)
From MLPE Require Import Engine.Multi Proofs.MultiProofs Explore.Erase Explore.Safe Catalogue.Programs Catalogue.Certified Proofs.CertLemmas.

Theorem C08_projection :
  forall P k sched j, j < k -> nth j (mrun P k sched) (init_state) = run_sched P (induced j sched).
Proof. exact run_projection. Qed.
Print Assumptions C08_projection.

Theorem C08_non_interference :
  forall P k s1 s2 j, j < k -> induced j s1 = induced j s2 ->
    nth j (mrun P k s1) (init_state) = nth j (mrun P k s2) (init_state).
Proof. intros P k s1 s2 j Hj E. rewrite !run_projection by exact Hj. rewrite E. reflexivity. Qed.
Print Assumptions C08_non_interference.

(* for catalogue programs: each overlapping run that is not itself cancelled ends with the reference's outcome, whatever the
   other runs do *)
Theorem C08_each_run_gets_its_solo_outcome :
  forall P, In P catalogue_clean ->
    forall k sched j r, j < k -> forallb (act_ok false) (induced j sched) = true ->
      main_state (nth j (mrun P k sched) (init_state)) = Some (TDone r) -> outcome_ok P false r = true.
Proof.
  intros P HP k sched j r Hj Hs Hm. rewrite run_projection in Hm by exact Hj.
  exact (certified_outcome_without_cancel P _ r (in_clean_certified P HP) Hs Hm).
Qed.
Print Assumptions C08_each_run_gets_its_solo_outcome.

Example C08_premises_satisfiable :
  (* two overlapping runs of the rhombus; run 1 is cancelled in the middle, run 0 finishes with its value *)
  let sched := [(0, AQuiesce); (1, AQuiesce); (0, AGate (GBody 0 0)); (1, AGate (GBody 0 0)); (0, AQuiesce); (1, ACancel); (1, AQuiesce);
                (0, AGate (GBody 1 0)); (0, AGate (GBody 2 0)); (0, AQuiesce); (0, AGate (GBody 3 0)); (0, AQuiesce)] in
  exists v, main_state (nth 0 (mrun cat_rhombus 2 sched) (init_state)) = Some (TDone (SVal v))
            /\ main_state (nth 1 (mrun cat_rhombus 2 sched) (init_state)) = Some (TDone (SThrow XCancelled)).
Proof. eexists. vm_compute. split; reflexivity. Qed.
