(* C06 -- Independent nodes of equal depth run concurrently.

   Statement on a state (safe_c06, Explore/Safe.v): at a quiescent point (ready queue empty) of a run that is still undecided
   (the chart task waits inside manager.run, no helper task has failed), let dmin be the smallest dependency depth (longest
   path from the input node) of a node that has not completed
   (result stored and its node task through its `finally`: artifact saved, successors notified); then every node of depth <= dmin has been started (its execution
   is marked processed: its node task passed the check-then-mark of _execute_node and is at its body / gate or beyond).
   I.e. once all nodes of smaller depth have completed, every node of the next depth is in flight without waiting for any
   sibling, whatever the execution modes; in particular two nodes with the same dependencies are in flight together.
   Kind E: proved for every plain-DAG program of the clean catalogue (chain, rhombus with and without (gated) event managers,
   stores, failures, three siblings, inline / thread / process / immediate mixes, None values, retries) and EVERY schedule,
   with the generation order that networkx's topological_sort produces (the default order oracle of the model; the harness
   checks on every run that the order recorded from the real run is generation-sorted). The property is FALSE for an
   arbitrary valid topological order (a chain placed before a sibling): it depends on that library choice.
   Kind F (C06_on_plain_programs, below): proved for ALL plain programs and ALL schedules, given library orders that are valid
   and sorted by depth (decidable: valid_orders_b, c06_orders_b) -- Proofs/PlainC06.v. On the real engine the statement is
   decided on generated programs by withholding every completion of depth d and checking that all depth-d bodies have started. Not exhibited: a real pool with fewer workers than
   siblings queues work items ("started" then means "submitted"). *)
From MLPE Require Import Engine.Run Spec.Dataflow Spec.Fragments Proofs.ExecLemmas Explore.StateEq Explore.Erase Explore.Explorer Explore.Safe
     Catalogue.Programs Catalogue.Certified Proofs.CertLemmas.

Definition C06_statement (P : prog) : Prop := forall st, reachable P st -> safe_c06 P st = true.

Theorem C06_catalogue : forall P, In P catalogue_clean -> frag_Plain (p_decls P) = true -> C06_statement P.
Proof.
  intros P HP Hpl st Hr. destruct (certified_facts P st (in_clean_certified P HP) Hr) as (_ & _ & _ & _ & _ & _ & _ & _ & H). exact (H Hpl).
Qed.
Print Assumptions C06_catalogue.


(* ---- kind F: ALL plain programs, ALL schedules -------------------------------------------------------------------------------- *)
From MLPE Require Import Proofs.PlainWorld Proofs.PlainLive Proofs.PlainDeadlock Proofs.PlainC06.

(* for every plain program (any size and shape, retry / default settings, execution modes, gated or raising event managers and
   stores) and every schedule, given library orders that are valid and sorted by depth (decidable; c06_orders_b): the C06
   statement holds in every reachable state. *)
Theorem C06_on_plain_programs :
  forall P, plain_prog P -> valid_orders P -> c06_orders_b P = true -> C06_statement P.
Proof. exact plain_programs_launch_by_depth. Qed.
Print Assumptions C06_on_plain_programs.

(* the hypotheses hold on catalogue programs with the networkx-exact default order oracle: three siblings, and a mix of modes *)
Example C06_plain_hypotheses_hold :
  (plain_prog cat_three_siblings /\ valid_orders cat_three_siblings /\ c06_orders_b cat_three_siblings = true) /\
  (plain_prog cat_inline_mix /\ valid_orders cat_inline_mix /\ c06_orders_b cat_inline_mix = true).
Proof.
  assert (Hp : forall P bs, p_body P = dsl_body bs -> forallb (fun nb => beh_plain (nb_beh nb)) bs = true ->
                            graph_plain (b_graph (build (p_decls P) (p_inp P) (p_out P))) = true -> kw_clean (p_input P) = true -> plain_prog P).
  { intros P bs Eb Hb Hg Hi. split; [exact Hg|]. split; [rewrite Eb; apply dsl_body_clean; exact Hb|exact Hi]. }
  split; (split; [eapply Hp; [reflexivity|vm_compute; reflexivity|vm_compute; reflexivity|vm_compute; reflexivity]
                 |split; [apply valid_orders_b_sound; vm_compute; reflexivity|vm_compute; reflexivity]]).
Qed.
