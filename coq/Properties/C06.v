(* C06 -- Independent nodes of equal depth run concurrently.

   Statement on a state (safe_c06, Explore/Safe.v): at a quiescent point (ready queue empty) of a run that is still undecided
   (the chart task waits inside manager.run, no helper task has failed), let dmin be the smallest dependency depth (longest
   path from the input node) of a node that has not completed
   (result stored and its node task through its `finally`: artifact saved, successors notified); then every node of depth <= dmin has been started (its execution
   is marked processed: its node task passed the check-then-mark of _execute_node and is at its body / gate or beyond).
   I.e. once all nodes of smaller depth have completed, every node of the next depth is in flight without waiting for any
   sibling, whatever the execution modes; in particular two nodes with the same dependencies are in flight together.
   Kind E: proved for every plain-DAG program of the clean catalogue (chain, rhombus with and without (gated) event managers,
   stores, failures, three siblings, inline / thread / process / immediate mixes, None values, retries) and EVERY schedule,
   with the generation order that networkx's topological_sort produces (the default order oracle of the model; the harness
   checks on every run that the order recorded from the real run is generation-sorted). The property is FALSE for an
   arbitrary valid topological order (a chain placed before a sibling): it depends on that library choice.
   Not proved for all plain DAGs (DESIGN 4, C06): decided on generated programs by withholding every completion of depth d on
   the real engine and checking that all depth-d bodies have started. Not exhibited: a real pool with fewer workers than
   siblings queues work items ("started" then means "submitted"). *)
From MLPE Require Import Engine.Run Spec.Dataflow Spec.Fragments Proofs.ExecLemmas Explore.StateEq Explore.Erase Explore.Explorer Explore.Safe
     Catalogue.Programs Catalogue.Certified Proofs.CertLemmas.

Definition C06_statement (P : prog) : Prop := forall st, reachable P st -> safe_c06 P st = true.

Theorem C06_catalogue : forall P, In P catalogue_clean -> frag_Plain (p_decls P) = true -> C06_statement P.
Proof.
  intros P HP Hpl st Hr. destruct (certified_facts P st (in_clean_certified P HP) Hr) as (_ & _ & _ & _ & _ & _ & _ & _ & H). exact (H Hpl).
Qed.
Print Assumptions C06_catalogue.

