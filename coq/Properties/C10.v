(* C10 -- One-of yields the first successful candidate, lazily, and contains failures.

   Kind E, for the one-of programs of the clean catalogue (first / last candidate wins, all fail, None value, failure three hops
   above a candidate, a candidate with two parallel dependencies one of which fails while the other is in flight, nested
   one-of, a node shared between candidates) and every schedule incl. cancellation: executions never exceed the reference's
   (later candidates and the nodes only they need are never executed; a candidate is tried only after the earlier ones
   failed: the reference tries them in order), arguments are the reference's (never a failure object), the outcome is the
   reference's (a contained failure does not fail the run; all candidates failing gives OneOfDoesNotHaveResultError), no deadlock.
   Kind G (ALL programs -- any constructs around and inside the candidates, any bodies, collaborators and order oracles --, EVERY
   schedule incl. cancellation; theorems about the history [st_trace], Proofs/OneOfAll.v):
     - C10_result_is_the_first_successful_candidate: whenever a result is stored for a one-of, it is either the value stored
       for one of its candidates, all candidates declared before that one having failed (a node of their sub-pipeline stored
       a failure) -- or the documented OneOfDoesNotHaveResultError, every candidate having failed;
     - C10_candidates_are_tried_in_declared_order: the sub-pipeline of a candidate is launched only after every candidate
       declared before it has failed (so later candidates are not even looked at while an earlier one is undecided);
     - C10_one_position_at_a_time: every one-of in flight is at one position of its declared candidate list.
   What these do NOT say: that the winning value is the reference semantics' value, and that nodes shared with other scopes are
   not executed (both kind E / correspondence). FALSE in general: the full statement (known findings D11, D17). *)
From MLPE Require Import Engine.Run Spec.Dataflow Proofs.ExecLemmas Explore.StateEq Explore.Erase Explore.Explorer Explore.Safe
     Catalogue.Programs Catalogue.Certified Proofs.CertLemmas.

Definition C10_statement (P : prog) : Prop :=
  forall st, reachable P st ->
    (forall i, ctr_get (CBody i) st <= ref_invocations P i) /\ safe_kwargs P st = true /\ deadlocked st = false
    /\ (forall r, main_state st = Some (TDone r) -> outcome_ok P true r = true).

Theorem C10_catalogue : forall P, In P catalogue_clean -> C10_statement P.
Proof.
  intros P HP st Hr. destruct (certified_facts P st (in_clean_certified P HP) Hr) as (Hd & _ & Ho & Hc & Hk & _).
  split; [intros i; apply safe_counts_bound; exact Hc|]. split; [exact Hk|]. split; [exact Hd|].
  intros r Hm. unfold safe_outcome in Ho. rewrite Hm in Ho. exact Ho.
Qed.
Print Assumptions C10_catalogue.

(* laziness: when the first candidate succeeds the second is never executed, under any schedule *)
Theorem C10_later_candidate_never_runs :
  forall st, reachable cat_oneof_first st -> ctr_get (CBody 2) st = 0.
Proof.
  intros st Hr. assert (HP : In cat_oneof_first catalogue_clean) by in_catalogue.
  destruct (C10_catalogue _ HP st Hr) as [H _]. specialize (H 2).
  replace (ref_invocations cat_oneof_first 2) with 0 in H by (vm_compute; reflexivity). lia.
Qed.
Print Assumptions C10_later_candidate_never_runs.

(* a failure three hops above the first candidate: its descendants are never executed and the run still succeeds *)
Theorem C10_failure_is_contained :
  forall sched r, forallb (act_ok false) sched = true -> main_state (run_sched cat_oneof_deep_failure sched) = Some (TDone r) ->
    exists v, r = SVal v /\ ref_res cat_oneof_deep_failure = ROk v.
Proof.
  intros sched r Hs Hm. assert (HP : In cat_oneof_deep_failure catalogue_clean) by in_catalogue.
  pose proof (certified_outcome_without_cancel _ sched r (in_clean_certified _ HP) Hs Hm) as H.
  assert (Hok : exists v, ref_res cat_oneof_deep_failure = ROk v) by (eexists; vm_compute; reflexivity).
  destruct Hok as [v0 E]. unfold outcome_ok in H. rewrite E in H.
  destruct r as [|v| |e|e]; try discriminate.
  - apply value_seqb_sound in H. subst. eauto.
  - destruct e; discriminate.
Qed.
Print Assumptions C10_failure_is_contained.

(* all candidates fail: the documented error, under every schedule *)
Theorem C10_all_candidates_fail :
  forall sched r, forallb (act_ok false) sched = true -> main_state (run_sched cat_oneof_all_fail sched) = Some (TDone r) ->
    exists k, r = SResErr (XEng EOneOfNoResult k).
Proof.
  intros sched r Hs Hm. assert (HP : In cat_oneof_all_fail catalogue_clean) by in_catalogue.
  pose proof (certified_outcome_without_cancel _ sched r (in_clean_certified _ HP) Hs Hm) as H.
  unfold outcome_ok in H. replace (ref_res cat_oneof_all_fail) with (RFail [COneOf 3 0]) in H by (vm_compute; reflexivity).
  destruct r as [|v| |e|e]; try discriminate.
  - exfalso. destruct e as [c i a|ee k|k|k|]; cbn in H; try discriminate. destruct ee; discriminate.
  - destruct e as [c i a|ee k|k|k|]; cbn in H.
    + discriminate.
    + destruct ee; try discriminate; eauto.
    + discriminate.
    + discriminate.
    + discriminate.
Qed.
Print Assumptions C10_all_candidates_fail.

(* ---- kind G: all programs, all schedules ------------------------------------------------------------------------------------ *)
From MLPE Require Import Proofs.Micro Proofs.PlainCore Proofs.OneOfAll.

(* [cands P h]: candidates of the one-of h in declared order; [all_failed P b l]: for every candidate in l some node of its
   sub-pipeline has stored a failure in the history b; [noresult h] = the stored OneOfDoesNotHaveResultError of h.
   The history is newest first: in [a ++ o :: b], b is what happened before o. *)
Theorem C10_result_is_the_first_successful_candidate :
  forall P st, reachable P st ->
    forall a b h v, st_trace st = a ++ OSetResult h v :: b ->
      is_head (b_graph (build (p_decls P) (p_inp P) (p_out P))) h = true ->
      is_switch (b_graph (build (p_decls P) (p_inp P) (p_out P))) h = false ->
      (v = noresult h /\ all_failed P b (cands P h)) \/
      (exists pre c rest, cands P h = pre ++ c :: rest /\ In (OSetResult c v) b /\ all_failed P b pre).
Proof. exact oneof_result_is_the_first_successful_candidate_all_programs. Qed.
Print Assumptions C10_result_is_the_first_successful_candidate.

(* [OSpawn t (TNDag s c)]: the launch of the sub-pipeline of candidate c (the only tasks of that name) *)
Theorem C10_candidates_are_tried_in_declared_order :
  forall P st, reachable P st ->
    forall a b t s c, st_trace st = a ++ OSpawn t (TNDag s c) :: b ->
      exists h pre rest, is_head (b_graph (build (p_decls P) (p_inp P) (p_out P))) h = true /\
                         cands P h = pre ++ c :: rest /\ all_failed P b pre.
Proof. exact oneof_candidates_are_tried_in_order_all_programs. Qed.
Print Assumptions C10_candidates_are_tried_in_declared_order.

(* [oo P tr f]: if f is a position of the one-of loop (about to try the candidates l / waiting for candidate c with rest to go),
   the declared list is pre ++ l (pre ++ c :: rest) and everything in pre has failed *)
Theorem C10_one_position_at_a_time :
  forall P st x f, reachable P st -> In x (st_tasks st) -> In f (estack (t_state x)) -> oo P (st_trace st) f.
Proof. exact oneof_position_all_programs. Qed.
Print Assumptions C10_one_position_at_a_time.

(* the conclusions are about events that do occur: a complete run of the catalogue program whose first candidate fails stores a
   result for the one-of (KOo 3 0), a one-of head that is not a switch with candidates [1; 2], and launches candidate 2 *)
Example C10_events_occur :
  let P := cat_oneof_last in
  let st := run_sched P [AQuiesce; AGate (GBody 0 0); AQuiesce; AGate (GBody 1 0); AQuiesce; AGate (GBody 2 0); AQuiesce; AGate (GBody 3 0); AQuiesce] in
  is_head (b_graph (build (p_decls P) (p_inp P) (p_out P))) (KOo 3 0) = true /\
  is_switch (b_graph (build (p_decls P) (p_inp P) (p_out P))) (KOo 3 0) = false /\
  cands P (KOo 3 0) = [KN 1; KN 2] /\
  existsb (fun o => match o with OSetResult (KOo 3 0) (VNode 2 _) => true | _ => false end) (st_trace st) = true /\
  existsb (fun o => match o with OSpawn _ (TNDag _ (KN 2)) => true | _ => false end) (st_trace st) = true /\
  existsb (fun o => match o with OSetResult (KN 1) (VExn _) => true | _ => false end) (st_trace st) = true.
Proof. vm_compute. repeat split; reflexivity. Qed.
