(* C10 -- One-of yields the first successful candidate, lazily, and contains failures.

   Kind E, for the one-of programs of the clean catalogue (first / last candidate wins, all fail, None value, failure three hops
   above a candidate, a candidate with two parallel dependencies one of which fails while the other is in flight, nested
   one-of, a node shared between candidates) and every schedule incl. cancellation: executions never exceed the reference's
   (later candidates and the nodes only they need are never executed; a candidate is tried only after the earlier ones
   failed: the reference tries them in order), arguments are the reference's (never a failure object), the outcome is the
   reference's (a contained failure does not fail the run; all candidates failing gives OneOfDoesNotHaveResultError), no deadlock.
   FALSE in general (known findings D11, D17). The fragment theorem over OneOfX is not proved. *)
From MLPE Require Import Engine.Run Spec.Dataflow Proofs.ExecLemmas Explore.StateEq Explore.Erase Explore.Explorer Explore.Safe
     Catalogue.Programs Catalogue.Certified Proofs.CertLemmas.

Definition C10_statement (P : prog) : Prop :=
  forall st, reachable P st ->
    (forall i, ctr_get (CBody i) st <= ref_invocations P i) /\ safe_kwargs P st = true /\ deadlocked st = false
    /\ (forall r, main_state st = Some (TDone r) -> outcome_ok P true r = true).

Theorem C10_catalogue : forall P, In P catalogue_clean -> C10_statement P.
Proof.
  intros P HP st Hr. destruct (certified_facts P st (in_clean_certified P HP) Hr) as (Hd & _ & Ho & Hc & Hk & _).
  split; [intros i; apply safe_counts_bound; exact Hc|]. split; [exact Hk|]. split; [exact Hd|].
  intros r Hm. unfold safe_outcome in Ho. rewrite Hm in Ho. exact Ho.
Qed.
Print Assumptions C10_catalogue.

(* laziness: when the first candidate succeeds the second is never executed, under any schedule *)
Theorem C10_later_candidate_never_runs :
  forall st, reachable cat_oneof_first st -> ctr_get (CBody 2) st = 0.
Proof.
  intros st Hr. assert (HP : In cat_oneof_first catalogue_clean) by in_catalogue.
  destruct (C10_catalogue _ HP st Hr) as [H _]. specialize (H 2).
  replace (ref_invocations cat_oneof_first 2) with 0 in H by (vm_compute; reflexivity). lia.
Qed.
Print Assumptions C10_later_candidate_never_runs.

(* a failure three hops above the first candidate: its descendants are never executed and the run still succeeds *)
Theorem C10_failure_is_contained :
  forall sched r, forallb (act_ok false) sched = true -> main_state (run_sched cat_oneof_deep_failure sched) = Some (TDone r) ->
    exists v, r = SVal v /\ ref_res cat_oneof_deep_failure = ROk v.
Proof.
  intros sched r Hs Hm. assert (HP : In cat_oneof_deep_failure catalogue_clean) by in_catalogue.
  pose proof (certified_outcome_without_cancel _ sched r (in_clean_certified _ HP) Hs Hm) as H.
  assert (Hok : exists v, ref_res cat_oneof_deep_failure = ROk v) by (eexists; vm_compute; reflexivity).
  destruct Hok as [v0 E]. unfold outcome_ok in H. rewrite E in H.
  destruct r as [|v| |e|e]; try discriminate.
  - apply value_seqb_sound in H. subst. eauto.
  - destruct e; discriminate.
Qed.
Print Assumptions C10_failure_is_contained.

(* all candidates fail: the documented error, under every schedule *)
Theorem C10_all_candidates_fail :
  forall sched r, forallb (act_ok false) sched = true -> main_state (run_sched cat_oneof_all_fail sched) = Some (TDone r) ->
    exists k, r = SResErr (XEng EOneOfNoResult k).
Proof.
  intros sched r Hs Hm. assert (HP : In cat_oneof_all_fail catalogue_clean) by in_catalogue.
  pose proof (certified_outcome_without_cancel _ sched r (in_clean_certified _ HP) Hs Hm) as H.
  unfold outcome_ok in H. replace (ref_res cat_oneof_all_fail) with (RFail [COneOf 3 0]) in H by (vm_compute; reflexivity).
  destruct r as [|v| |e|e]; try discriminate.
  - exfalso. destruct e as [c i a|ee k|k|k|]; cbn in H; try discriminate. destruct ee; discriminate.
  - destruct e as [c i a|ee k|k|k|]; cbn in H.
    + discriminate.
    + destruct ee; try discriminate; eauto.
    + discriminate.
    + discriminate.
    + discriminate.
Qed.
Print Assumptions C10_all_candidates_fail.
