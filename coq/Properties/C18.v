(* C18 -- Filesystem artifact store is a write-once map keyed exactly by node id.
   Model: Pure/FsStore.v (the repaired FileSystemArtifactStore over a finite map of files); spec: the abstract
   map [astep]. Quantified over every operation sequence, arbitrary node ids (any character codes: dots, glob
   metacharacters, ids that are prefixes of one another), both formats, any number of contexts in one directory,
   values a format can or cannot serialise. *)
From MLPE Require Import Base.Util Pure.FsStore Proofs.FsStoreProofs.

(* (1) refinement: from the empty directory every operation returns what the write-once map returns, and the
       directory stays an exact image of the map (so a failed save leaves the key unsaved) *)
Theorem C18_refines_write_once_map :
  forall ops, snd (run_ops step [] ops) = snd (run_ops astep [] ops)
              /\ Rel (fst (run_ops step [] ops)) (fst (run_ops astep [] ops)).
Proof. intros ops. apply fsstore_refines_map. apply rel_empty. Qed.
Print Assumptions C18_refines_write_once_map.

(* (2) distinct keys never alias: the file name determines node id and format *)
Theorem C18_keys_do_not_alias :
  forall i f i' f', fname i f = fname i' f' -> i = i' /\ f = f'.
Proof. exact fname_inj. Qed.
Print Assumptions C18_keys_do_not_alias.

(* (3) what the abstract map guarantees, spelled out: load after save returns the saved value; a second save is
       refused and keeps the value; a key never saved does not exist; a failed save does not make the key appear *)
Theorem C18_map_laws :
  forall m ctx i f v,
    alookup path_eqb (ctx, i) m = None ->
    (forall c, dump f v = Some c ->
               snd (astep (fst (astep m (OpSave ctx i f v))) (OpLoad ctx i)) = RLoaded v
               /\ (forall f' v', astep (fst (astep m (OpSave ctx i f v))) (OpSave ctx i f' v')
                                 = (fst (astep m (OpSave ctx i f v)), RAlreadyExists)))
    /\ (dump f v = None -> astep m (OpSave ctx i f v) = (m, RDumpFailed))
    /\ snd (astep m (OpLoad ctx i)) = RDoesNotExist.
Proof.
  intros m ctx i f v Hm. repeat split.
  - simpl. rewrite Hm, H. simpl. rewrite (Proofs.AssocLemmas.alookup_aset_same path_eqb path_eqb_spec). reflexivity.
  - intros f' v'. simpl. rewrite Hm, H. simpl.
    rewrite (Proofs.AssocLemmas.alookup_aset_same path_eqb path_eqb_spec). reflexivity.
  - intros H. simpl. rewrite Hm, H. reflexivity.
  - simpl. rewrite Hm. reflexivity.
Qed.
Print Assumptions C18_map_laws.

(* non-vacuity / the D14 witnesses now behave: 'x.y' then 'x'; 'a[1]' twice; a JSON save of a JSON value;
   a failed dump followed by a good save.  Character codes: x=120 y=121 a=97 [=91 1=49 ]=93 j=106 k=107 *)
Example C18_witnesses :
  snd (run_ops step [] [OpSave 0 [120;46;121] FPickle (AGood 1); OpLoad 0 [120]; OpSave 0 [120] FPickle (AGood 2);
                        OpSave 0 [97;91;49;93] FPickle (AGood 3); OpSave 0 [97;91;49;93] FPickle (AGood 4);
                        OpLoad 0 [97;91;49;93];
                        OpSave 0 [106] FJson (AGood 5); OpLoad 0 [106];
                        OpSave 0 [107] FJson (APickleOnly 6); OpLoad 0 [107]; OpSave 0 [107] FPickle (APickleOnly 6);
                        OpLoad 0 [107]; OpLoad 1 [107]])
  = [RSaved; RDoesNotExist; RSaved; RSaved; RAlreadyExists; RLoaded (AGood 3); RSaved; RLoaded (AGood 5);
     RDumpFailed; RDoesNotExist; RSaved; RLoaded (APickleOnly 6); RDoesNotExist].
Proof. vm_compute. reflexivity. Qed.
