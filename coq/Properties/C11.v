(* C11 -- Recurrent subgraph: bounded re-execution; consumers see only the final result.

   Kind E, for the recurrent programs of the clean catalogue (simple, exhausted without / with default, error inside, two
   consumers of the destination, retry inside, nested subgraphs) and every schedule incl. cancellation: the nodes on the
   start->destination paths are executed at most as often as the reference re-iterates them (at most max_iterations
   re-iterations), nodes outside the subgraph are executed at most once, consumers are invoked with the reference's arguments
   (the first non-Recurrent result, or get_default after exhaustion) and never with a Recurrent marker, exhaustion without a
   default ends the run with RecurrentSubgraphDoesNotHaveResultError, no deadlock.
   Kind G (ALL programs -- recurrent subgraphs anywhere, nested, inside candidates, with switches inside; any bodies, collaborators,
   order oracles --, EVERY schedule incl. cancellation; Proofs/RecAll.v, Proofs/ArgsAll.v):
     - C11_iterations_are_bounded: the remaining-iterations counter of every loop in flight is at most max_iterations of its
       destination, and while an iteration is running it is strictly below it (each iteration takes one off a counter that starts
       at max_iterations: at most max_iterations iterations per entry into the loop);
     - C11_loops_are_driven_by_stored_markers: a loop exists, and goes round again, only on a Recurrent marker that the
       destination node stored as its result in this run;
     - C11_additional_data_is_a_marker_payload / C11_start_node_receives_the_marker_payload: the additional_data kept for a start
       node, and the additional_data argument of every body invocation, is the payload of a Recurrent marker stored by the
       destination of a recurrent subgraph starting at that node.
   What these do NOT say: that exactly the nodes on start->destination paths are re-executed and that consumers outside see only
   the final result (false in general: known findings D9, D12; kind E / correspondence elsewhere).
   FALSE in general: the full statement (known findings D9, D12). *)
From MLPE Require Import Engine.Run Spec.Dataflow Proofs.ExecLemmas Explore.StateEq Explore.Erase Explore.Explorer Explore.Safe
     Catalogue.Programs Catalogue.Certified Proofs.CertLemmas.

Definition C11_statement (P : prog) : Prop :=
  forall st, reachable P st ->
    (forall i, ctr_get (CBody i) st <= ref_invocations P i) /\ safe_kwargs P st = true /\ deadlocked st = false
    /\ (forall r, main_state st = Some (TDone r) -> outcome_ok P true r = true).

Theorem C11_catalogue : forall P, In P catalogue_clean -> C11_statement P.
Proof.
  intros P HP st Hr. destruct (certified_facts P st (in_clean_certified P HP) Hr) as (Hd & _ & Ho & Hc & Hk & _).
  split; [intros i; apply safe_counts_bound; exact Hc|]. split; [exact Hk|]. split; [exact Hd|].
  intros r Hm. unfold safe_outcome in Ho. rewrite Hm in Ho. exact Ho.
Qed.
Print Assumptions C11_catalogue.

(* rec_simple: max_iterations = 3, the destination asks twice: the two inner nodes run at most 3 times, the input node and the
   consumer at most once, under every schedule *)
Theorem C11_bounded_reexecution :
  forall st, reachable cat_rec_simple st ->
    ctr_get (CBody 0) st <= 1 /\ ctr_get (CBody 1) st <= 3 /\ ctr_get (CBody 2) st <= 3 /\ ctr_get (CBody 3) st <= 1.
Proof.
  intros st Hr. assert (HP : In cat_rec_simple catalogue_clean) by in_catalogue.
  destruct (C11_catalogue _ HP st Hr) as [H _].
  pose proof (H 0) as H0. pose proof (H 1) as H1. pose proof (H 2) as H2. pose proof (H 3) as H3.
  replace (ref_invocations cat_rec_simple 0) with 1 in H0 by (vm_compute; reflexivity).
  replace (ref_invocations cat_rec_simple 1) with 3 in H1 by (vm_compute; reflexivity).
  replace (ref_invocations cat_rec_simple 2) with 3 in H2 by (vm_compute; reflexivity).
  replace (ref_invocations cat_rec_simple 3) with 1 in H3 by (vm_compute; reflexivity). auto.
Qed.
Print Assumptions C11_bounded_reexecution.

(* exhaustion without a default: the consumer is never invoked and the run ends with the documented error *)
Theorem C11_exhaustion_fails_the_run :
  (forall st, reachable cat_rec_exhausted st -> ctr_get (CBody 3) st = 0) /\
  (forall sched r, forallb (act_ok false) sched = true -> main_state (run_sched cat_rec_exhausted sched) = Some (TDone r) ->
    exists k, r = SResErr (XEng ERecNoResult k)).
Proof.
  assert (HP : In cat_rec_exhausted catalogue_clean) by in_catalogue. split.
  - intros st Hr. destruct (C11_catalogue _ HP st Hr) as [H _]. specialize (H 3).
    replace (ref_invocations cat_rec_exhausted 3) with 0 in H by (vm_compute; reflexivity). lia.
  - intros sched r Hs Hm. pose proof (certified_outcome_without_cancel _ sched r (in_clean_certified _ HP) Hs Hm) as H.
    unfold outcome_ok in H. replace (ref_res cat_rec_exhausted) with (RFail [CRec 2]) in H by (vm_compute; reflexivity).
    destruct r as [|v| |e|e]; try discriminate.
    + exfalso. destruct e as [c i a|ee k|k|k|]; cbn in H; try discriminate. destruct ee; discriminate.
    + destruct e as [c i a|ee k|k|k|]; cbn in H; try discriminate. destruct ee; try discriminate; eauto.
Qed.
Print Assumptions C11_exhaustion_fails_the_run.

(* ---- kind G: all programs, all schedules ------------------------------------------------------------------------------------ *)
From MLPE Require Import Proofs.Micro Proofs.PlainCore Proofs.SwitchAll Proofs.RecAll Proofs.ArgsAll Proofs.AssocLemmas.

(* FRecLoop _ n _ _ r _: the loop of destination n with r iterations left; FRecAfterIter _ n _ _ r: an iteration of it running *)
Theorem C11_iterations_are_bounded :
  forall P st x f, reachable P st -> In x (st_tasks st) -> In f (estack (t_state x)) ->
    match f with
    | FRecLoop _ n _ _ r _ => r <= maxit P n
    | FRecAfterIter _ n _ _ r => S r <= maxit P n
    | _ => True
    end.
Proof. exact recurrent_loops_are_bounded_all_programs. Qed.
Print Assumptions C11_iterations_are_bounded.

Theorem C11_loops_are_driven_by_stored_markers :
  forall P st x f, reachable P st -> In x (st_tasks st) -> In f (estack (t_state x)) ->
    match f with
    | FRecStart _ n res | FRecLoop _ n _ _ _ res => is_rec res = true /\ In (OSetResult n res) (st_trace st)
    | _ => True
    end.
Proof. exact recurrent_loops_are_driven_by_stored_markers_all_programs. Qed.
Print Assumptions C11_loops_are_driven_by_stored_markers.

Theorem C11_additional_data_is_a_marker_payload :
  forall P st, reachable P st ->
    forall s v, alookup key_eqb s (st_adddata st) = Some v ->
      exists n res, na_start (nattr_of (b_graph (build (p_decls P) (p_inp P) (p_out P))) n) = Some s /\
                    is_rec res = true /\ In (OSetResult n res) (st_trace st) /\ v = rec_data res.
Proof. exact additional_data_is_the_payload_of_a_stored_marker_all_programs. Qed.
Print Assumptions C11_additional_data_is_a_marker_payload.

(* [ad_ok P b n ad]: the additional_data entry of the arguments, if there is one, is the payload of a Recurrent marker that the
   destination of a recurrent subgraph starting at n stored in the history b before the invocation *)
Theorem C11_start_node_receives_the_marker_payload :
  forall P st, reachable P st ->
    forall a b i k kw, st_trace st = a ++ OStart i k kw :: b ->
      exists n val ad, real_index n = i /\ gen_kwargs P n val ad = Some kw /\ (forall p v, val p = Some v -> prov P b p v) /\ ad_ok P b n ad.
Proof. exact arguments_come_from_the_declared_inputs_all_programs. Qed.
Print Assumptions C11_start_node_receives_the_marker_payload.

(* the premises occur: a complete run of the catalogue loop (max_iterations 3, the destination asks twice) stores two markers for
   the destination 2, keeps the payload of the second as additional_data of the start node 1, and invokes node 1 three times *)
Example C11_events_occur :
  let P := cat_rec_simple in
  let st := run_sched P [AQuiesce; AGate (GBody 0 0); AQuiesce; AGate (GBody 1 0); AQuiesce; AGate (GBody 2 0); AQuiesce; AGate (GBody 1 1); AQuiesce;
                         AGate (GBody 2 1); AQuiesce; AGate (GBody 1 2); AQuiesce; AGate (GBody 2 2); AQuiesce; AGate (GBody 3 0); AQuiesce] in
  st_adddata st = [(KN 1, VInt 2)] /\ maxit P (KN 2) = 3 /\
  na_start (nattr_of (b_graph (build (p_decls P) (p_inp P) (p_out P))) (KN 2)) = Some (KN 1) /\
  In (OSetResult (KN 2) (VRec (VInt 2))) (st_trace st) /\ In (OSetResult (KN 2) (VRec (VInt 1))) (st_trace st) /\
  ctr_get (CBody 1) st = 3.
Proof. vm_compute. repeat split; auto 40. Qed.
