(* C11 -- Recurrent subgraph: bounded re-execution; consumers see only the final result.

   Kind E, for the recurrent programs of the clean catalogue (simple, exhausted without / with default, error inside, two
   consumers of the destination, retry inside, nested subgraphs) and every schedule incl. cancellation: the nodes on the
   start->destination paths are executed at most as often as the reference re-iterates them (at most max_iterations
   re-iterations), nodes outside the subgraph are executed at most once, consumers are invoked with the reference's arguments
   (the first non-Recurrent result, or get_default after exhaustion) and never with a Recurrent marker, exhaustion without a
   default ends the run with RecurrentSubgraphDoesNotHaveResultError, no deadlock.
   FALSE in general (known findings D9, D12). The fragment theorem over RecWN is not proved. *)
From MLPE Require Import Engine.Run Spec.Dataflow Proofs.ExecLemmas Explore.StateEq Explore.Erase Explore.Explorer Explore.Safe
     Catalogue.Programs Catalogue.Certified Proofs.CertLemmas.

Definition C11_statement (P : prog) : Prop :=
  forall st, reachable P st ->
    (forall i, ctr_get (CBody i) st <= ref_invocations P i) /\ safe_kwargs P st = true /\ deadlocked st = false
    /\ (forall r, main_state st = Some (TDone r) -> outcome_ok P true r = true).

Theorem C11_catalogue : forall P, In P catalogue_clean -> C11_statement P.
Proof.
  intros P HP st Hr. destruct (certified_facts P st (in_clean_certified P HP) Hr) as (Hd & _ & Ho & Hc & Hk & _).
  split; [intros i; apply safe_counts_bound; exact Hc|]. split; [exact Hk|]. split; [exact Hd|].
  intros r Hm. unfold safe_outcome in Ho. rewrite Hm in Ho. exact Ho.
Qed.
Print Assumptions C11_catalogue.

(* rec_simple: max_iterations = 3, the destination asks twice: the two inner nodes run at most 3 times, the input node and the
   consumer at most once, under every schedule *)
Theorem C11_bounded_reexecution :
  forall st, reachable cat_rec_simple st ->
    ctr_get (CBody 0) st <= 1 /\ ctr_get (CBody 1) st <= 3 /\ ctr_get (CBody 2) st <= 3 /\ ctr_get (CBody 3) st <= 1.
Proof.
  intros st Hr. assert (HP : In cat_rec_simple catalogue_clean) by in_catalogue.
  destruct (C11_catalogue _ HP st Hr) as [H _].
  pose proof (H 0) as H0. pose proof (H 1) as H1. pose proof (H 2) as H2. pose proof (H 3) as H3.
  replace (ref_invocations cat_rec_simple 0) with 1 in H0 by (vm_compute; reflexivity).
  replace (ref_invocations cat_rec_simple 1) with 3 in H1 by (vm_compute; reflexivity).
  replace (ref_invocations cat_rec_simple 2) with 3 in H2 by (vm_compute; reflexivity).
  replace (ref_invocations cat_rec_simple 3) with 1 in H3 by (vm_compute; reflexivity). auto.
Qed.
Print Assumptions C11_bounded_reexecution.

(* exhaustion without a default: the consumer is never invoked and the run ends with the documented error *)
Theorem C11_exhaustion_fails_the_run :
  (forall st, reachable cat_rec_exhausted st -> ctr_get (CBody 3) st = 0) /\
  (forall sched r, forallb (act_ok false) sched = true -> main_state (run_sched cat_rec_exhausted sched) = Some (TDone r) ->
    exists k, r = SResErr (XEng ERecNoResult k)).
Proof.
  assert (HP : In cat_rec_exhausted catalogue_clean) by in_catalogue. split.
  - intros st Hr. destruct (C11_catalogue _ HP st Hr) as [H _]. specialize (H 3).
    replace (ref_invocations cat_rec_exhausted 3) with 0 in H by (vm_compute; reflexivity). lia.
  - intros sched r Hs Hm. pose proof (certified_outcome_without_cancel _ sched r (in_clean_certified _ HP) Hs Hm) as H.
    unfold outcome_ok in H. replace (ref_res cat_rec_exhausted) with (RFail [CRec 2]) in H by (vm_compute; reflexivity).
    destruct r as [|v| |e|e]; try discriminate.
    + exfalso. destruct e as [c i a|ee k|k|k|]; cbn in H; try discriminate. destruct ee; discriminate.
    + destruct e as [c i a|ee k|k|k|]; cbn in H; try discriminate. destruct ee; try discriminate; eauto.
Qed.
Print Assumptions C11_exhaustion_fails_the_run.
