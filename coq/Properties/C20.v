(* C20 -- The viewer graph description is a faithful projection of the DAG.
   Model: Pure/Viewer.v (GraphConfigImpl.generate). Quantified over every graph, node_map and per-node
   declaration info (so in particular over every DAG the builder model produces). *)
From Coq Require Import String.
From MLPE Require Import Base.Graph Pure.FsStore Pure.Viewer Proofs.ViewerProofs.

Theorem C20_one_entry_per_node :
  forall g node_map info, map vn_id (vc_nodes (generate g node_map info)) = node_keys g.
Proof. exact one_entry_per_node. Qed.
Print Assumptions C20_one_entry_per_node.

Theorem C20_entries_describe_nodes :
  forall g node_map info n, In n (vc_nodes (generate g node_map info)) ->
    match vn_id n with
    | KN i => if mem Nat.eqb i node_map
              then vn_virtual n = false
                   /\ vn_data n = Some (ni_name (info i), ni_verbose (info i), ni_doc (info i))
                   /\ vn_type n = match ni_type (info i) with Some t => VTDeclared t | None => VTNone end
              else vn_virtual n = true
    | KSw _ _ => vn_virtual n = true /\ vn_type n = VTSwitch /\ vn_data n = None
    | KOo _ _ => vn_virtual n = true /\ vn_type n = VTOneOf /\ vn_data n = None
    end.
Proof. exact entries_describe_nodes. Qed.
Print Assumptions C20_entries_describe_nodes.

(* synthetic ids are typed by their prefix: no earlier NodeType member (in the table regenerated from /repo)
   is a prefix of such an id, whatever follows the prefix *)
Theorem C20_by_prefix :
  (forall s, by_prefix (switch_prefix ++ s) = Some (codes "switch"%string))
  /\ (forall s, by_prefix (oneof_prefix ++ s) = Some (codes "input_one_of"%string)).
Proof. split; [exact by_prefix_switch|exact by_prefix_oneof]. Qed.
Print Assumptions C20_by_prefix.

Theorem C20_one_edge_per_dependency :
  forall g node_map info,
    map (fun e => (ve_source e, ve_target e)) (vc_edges (generate g node_map info)) = map fst (g_edges g).
Proof. exact one_edge_per_dependency. Qed.
Print Assumptions C20_one_edge_per_dependency.

Theorem C20_edge_endpoints_exist :
  forall g node_map info,
    (forall e, In e (g_edges g) -> has_node g (fst (fst e)) = true /\ has_node g (snd (fst e)) = true) ->
    forall e, In e (vc_edges (generate g node_map info)) ->
              In (ve_source e) (map vn_id (vc_nodes (generate g node_map info)))
              /\ In (ve_target e) (map vn_id (vc_nodes (generate g node_map info))).
Proof. exact edge_endpoints_exist. Qed.
Print Assumptions C20_edge_endpoints_exist.

Theorem C20_type_table_covers :
  forall g node_map info n, In n (vc_nodes (generate g node_map info)) -> vn_type n <> VTNone ->
                            In (vn_type n) (vc_types (generate g node_map info)).
Proof. exact type_table_covers. Qed.
Print Assumptions C20_type_table_covers.
