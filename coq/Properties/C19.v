(* C19 -- A configured artifact store receives each node's final value exactly once.

   Kind E, for the programs of the clean catalogue (those with a store configured are the interesting ones: a rhombus, a
   switch whose selected case is shared with another consumer, a one-of with a failing candidate -- with a write-once, gated
   store) and every schedule incl. cancellation: no node id is saved twice, what is handed to the store is never a Recurrent
   marker or a contained failure, and a write-once store never makes the run fail (the outcome is the reference's).
   FALSE in general: known finding D15d (a node inside a recurrent subgraph is saved once per iteration) and D9s.
   Kind G (ALL programs, all schedules): what is handed to the store is never a Recurrent marker or a contained failure
   (C19_no_marker_or_failure_is_saved), and it is the value that was stored as the node's result just before
   (C19_saved_value_is_the_stored_result).  That consumers receive that stored result is C03 (kind F on plain programs), and
   otherwise decided on the implementation by the oracle. *)
From MLPE Require Import Engine.Run Spec.Dataflow Proofs.ExecLemmas Explore.StateEq Explore.Erase Explore.Explorer Explore.Safe
     Catalogue.Programs Catalogue.Certified Proofs.CertLemmas.

Definition C19_statement (P : prog) : Prop :=
  forall st, reachable P st ->
    safe_saves st = true /\ (forall r, main_state st = Some (TDone r) -> outcome_ok P true r = true).

Theorem C19_catalogue : forall P, In P catalogue_clean -> C19_statement P.
Proof.
  intros P HP st Hr. destruct (certified_facts P st (in_clean_certified P HP) Hr) as (_ & _ & Ho & _ & _ & Hs & _).
  split; [exact Hs|]. intros r Hm. unfold safe_outcome in Ho. rewrite Hm in Ho. exact Ho.
Qed.
Print Assumptions C19_catalogue.

Theorem C19_saved_at_most_once :
  forall P, In P catalogue_clean -> forall st n, reachable P st -> ctr_get (CSave n) st <= 1.
Proof.
  intros P HP st n Hr. destruct (C19_catalogue P HP st Hr) as [H _]. unfold safe_saves in H. apply andb_true_iff in H. destruct H as [H _].
  unfold ctr_get. destruct (alookup ctr_eqb (CSave n) (st_ctrs st)) as [k|] eqn:E; [|lia].
  destruct (alookup_found _ _ _ _ E) as [c [Hin He]]. rewrite forallb_forall in H. specialize (H _ Hin). cbn in H.
  destruct c; try discriminate He. apply Nat.leb_le. exact H.
Qed.
Print Assumptions C19_saved_at_most_once.

(* ---- kind G: ALL programs (every construct, any bodies, any retry settings, any event managers, any store, gated or not, any
   collaborator faults), ALL schedules incl. cancellation ---- *)
From MLPE Require Import Proofs.PlainWorld Proofs.PlainLive Proofs.SavesAll.

Theorem C19_no_marker_or_failure_is_saved :
  forall P st n v, reachable P st -> In (OSave n v) (st_trace st) -> is_rec v = false /\ is_exn v = false.
Proof. intros P st n v Hr. exact (no_marker_or_failure_is_saved_all_programs P st Hr n v). Qed.
Print Assumptions C19_no_marker_or_failure_is_saved.

(* the history is newest first: in [a ++ OSave n v :: b], b is what happened before the save *)
Theorem C19_saved_value_is_the_stored_result :
  forall P st, reachable P st -> forall a b n v, st_trace st = a ++ OSave n v :: b -> In (OSetResult n v) b.
Proof. exact saved_value_was_stored_all_programs. Qed.
Print Assumptions C19_saved_value_is_the_stored_result.

(* the hypothesis is met by catalogue programs, and saves do happen *)
Example C19_plain_not_vacuous :
  plain_prog cat_rhombus_store /\
  existsb (fun o => match o with OSave _ _ => true | _ => false end) (st_trace (auto_run cat_rhombus_store 40 init_state)) = true /\
  reachable cat_rhombus_store (auto_run cat_rhombus_store 40 init_state).
Proof.
  split; [|split; [vm_compute; reflexivity|apply auto_run_reachable, reach_init]].
  split; [vm_compute; reflexivity|]. split; [|vm_compute; reflexivity].
  apply dsl_body_clean. vm_compute. reflexivity.
Qed.

(* ---- kind F, the main clauses: ALL plain programs, ALL schedules, at every point while manager.run is pending ----
   a node is handed to the store at most once; what is handed over is the node's stored result (which is final, and is what its
   consumers receive through _get_node_kwargs: see C03_on_plain_programs_arguments_are_the_final_values_of_the_inputs); and, when a
   store is configured, every node that has a result has been handed to it exactly once (the call happens in the same loop step
   in which the result is stored). Together with the theorem above: a write-once store can never make a plain pipeline fail. *)
From MLPE Require Import Proofs.PlainCore Proofs.PlainSaves.

Theorem C19_on_plain_programs_each_result_is_saved_exactly_once :
  forall P, plain_prog P -> NoDup (p_order P (maind P)) ->
    forall st, reachable P st -> over st = false -> main_done st = false ->
      (forall m, count_saves m (st_trace st) <= 1) /\
      (forall n v, In (OSave n v) (st_trace st) -> exists_result n (st_store st) = true /\ get_result n true (st_store st) = v) /\
      (p_store P <> StNone -> forall m, exists_result m (st_store st) = true -> count_saves m (st_trace st) = 1).
Proof. exact plain_saves. Qed.
Print Assumptions C19_on_plain_programs_each_result_is_saved_exactly_once.

Example C19_plain_saves_not_vacuous :
  let st := auto_run cat_rhombus_store 7 init_state in
  over st = false /\ main_done st = false /\ count_saves (KN 1) (st_trace st) = 1 /\ count_saves (KN 2) (st_trace st) = 1.
Proof. vm_compute. repeat split; reflexivity. Qed.
