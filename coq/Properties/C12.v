(* C12 -- Retry and default policy is applied exactly as configured.
   Model: Pure/Retry.v ([retry_decide] is the very function the engine model's frame FRetryAfterBody calls;
   [retry_run] is the `while True` loop of __execute_node). Quantified over every policy
   (attempts, delay, exceptions, use_default) with attempts >= 1 after defaulting, and every sequence of
   per-attempt outcomes o : nat -> outcome. *)
From MLPE Require Import Pure.Retry Spec.Dataflow Proofs.RetryProofs Proofs.TablesOk.

(* (1) the loop equals its closed form: body at attempts 1..j, j = first attempt that returns or raises a
       non-retryable exception, or `attempts`; one failure report and one sleep(delay) between consecutive
       attempts and nowhere else; result = value | default | last exception; it needs no more fuel than `attempts` *)
Theorem C12_closed_form :
  forall (nd : nspec) (o : nat -> outcome),
    (1 <= pol_attempts nd)%Z ->
    let a := Z.to_nat (pol_attempts nd) in
    let j := stop_at (a - 1) nd o 1 in
    retry_run a nd o 1 = (closed_log nd o j, Some (final_result nd (o j) j)).
Proof. exact retry_closed_form. Qed.
Print Assumptions C12_closed_form.

(* (2) the body is invoked exactly at attempts 1..j with 1 <= j <= attempts, every attempt before j raised an
       exception matching `exceptions`, and exactly j-1 sleeps of `delay` happen *)
Theorem C12_invocations :
  forall (nd : nspec) (o : nat -> outcome),
    (1 <= pol_attempts nd)%Z ->
    let j := stop_at (Z.to_nat (pol_attempts nd) - 1) nd o 1 in
    bodies (closed_log nd o j) = seq 1 j
    /\ sleeps (closed_log nd o j) = repeat (pol_delay nd) (j - 1)
    /\ 1 <= j /\ (Z.of_nat j <= pol_attempts nd)%Z
    /\ (forall a, 1 <= a < j -> retryable nd (o a) = true)
    /\ ((Z.of_nat j < pol_attempts nd)%Z -> retryable nd (o j) = false).
Proof.
  intros nd o H j. pose proof (stop_bounds nd o H) as [H1 H2]. fold j in H1, H2.
  repeat split; try assumption.
  - apply bodies_closed. exact H1.
  - apply sleeps_closed.
  - intros a Ha. apply (stop_at_before nd o (Z.to_nat (pol_attempts nd) - 1) 1). exact Ha.
  - intros Hlt. apply stop_at_stops. fold j. lia.
Qed.
Print Assumptions C12_invocations.

(* (3) classification of the result: a BaseException outside Exception that does not match `exceptions` is neither
       retried nor defaulted; an Exception is defaulted iff use_default; a value is returned as is *)
Theorem C12_result :
  forall (nd : nspec) (oc : outcome) (att : nat),
    match oc with
    | OVal v => final_result nd oc att = RRVal v
    | ORaise c =>
      (exc_matches c (pol_excs nd) = false -> issub c EExc = false -> final_result nd oc att = RRRaise c att)
      /\ (exc_matches c (pol_excs nd) = true \/ issub c EExc = true ->
          final_result nd oc att = if ns_default nd then RRDefault else RRRaise c att)
    end.
Proof.
  intros nd [v|c] att; [reflexivity|]. unfold final_result. split.
  - intros -> ->. reflexivity.
  - intros [-> | ->]; rewrite ?orb_true_r; reflexivity.
Qed.
Print Assumptions C12_result.

(* (4) the engine's loop computes exactly what the reference semantics prescribes for a node execution
       (result, number of invocations, use of the default) *)
Theorem C12_refines_reference :
  forall (ds : decls) (body : nat -> kwargs -> nat -> outcome) (i : nat) (kw : kwargs),
    let nd := spec_of ds i in
    let o := fun a => body i kw (Nat.pred a) in
    (1 <= pol_attempts nd)%Z ->
    let a := Z.to_nat (pol_attempts nd) in
    let j := stop_at (a - 1) nd o 1 in
    retry_run a nd o 1 = (closed_log nd o j, Some (final_result nd (o j) j))
    /\ retry_eval ds body a i kw 0 =
       (fst (res_of i kw (final_result nd (o j) j)), j, snd (res_of i kw (final_result nd (o j) j))).
Proof. intros. apply engine_retry_refines_reference. assumption. Qed.
Print Assumptions C12_refines_reference.

(* (5) the defaults of NodeRetryPolicy used by the model are the ones in /repo's node/retrying.py (regenerated) *)
Theorem C12_defaults_from_source :
  pol_attempts (nspec_with None None None) = gen.Tables.retry_default_attempts
  /\ pol_delay (nspec_with None None None) = gen.Tables.retry_default_delay
  /\ pol_excs (nspec_with None None None) = gen.Tables.retry_default_exceptions.
Proof. repeat split; reflexivity. Qed.
Print Assumptions C12_defaults_from_source.

(* outside the domain: negative attempts never terminate (recorded, not claimed) *)
Theorem C12_negative_attempts_diverge :
  forall nd fuel, (pol_attempts nd < 0)%Z -> exc_matches EA (pol_excs nd) = true ->
                  snd (retry_run fuel nd (fun _ => ORaise EA) 1) = None.
Proof. exact negative_attempts_diverge. Qed.
Print Assumptions C12_negative_attempts_diverge.

(* non-vacuity: a policy with 3 attempts, failing twice with a retryable class, then succeeding *)
Example C12_example :
  let nd := {| ns_params := []; ns_mode := MGated; ns_attempts := Some 3%Z; ns_delay := Some 3;
               ns_excs := Some [EA]; ns_default := false |} in
  let o := fun a => if Nat.ltb a 3 then ORaise EB else OVal (VInt 7) in
  retry_run 3 nd o 1 =
  ([RBody 1; REmitFail 1 EB; RSleep 3; RBody 2; REmitFail 2 EB; RSleep 3; RBody 3], Some (RRVal (VInt 7))).
Proof. reflexivity. Qed.

(* ---- kind F: all plain programs, all schedules ------------------------------------------------------------------------------ *)
From MLPE Require Import Engine.Run Pure.Retry Proofs.PlainWorld Proofs.PlainLive Proofs.PlainCore Proofs.PlainValues.

(* (7) inside a pipeline: for EVERY plain program and EVERY schedule, the result stored for a node is what the retry loop of (1)-(3)
       yields for the node's body applied to the keyword arguments assembled from the final results of its inputs: the value the
       loop returns, or get_default of those arguments when the loop ends in the default; a node whose loop ends in an exception has
       no stored result.  (Kind F; the frames FRetry* of the engine model are related to [retry_run] by Proofs/PlainValues.v.) *)
Theorem C12_on_plain_programs_results_follow_the_retry_policy :
  forall P, plain_prog P -> NoDup (p_order P (maind P)) ->
  forall st m, reachable P st -> over st = false -> main_done st = false -> exists_result m (st_store st) = true ->
    exists kw, node_kwargs P st m = Some kw /\
      forall fuel r, snd (retry_run fuel (nspec_of P (real_index m)) (fun a => p_body P (real_index m) kw (Nat.pred a)) 1) = Some r ->
        (r = RRVal (get_result m true (st_store st))) \/
        (r = RRDefault /\ get_result m true (st_store st) = VDef (real_index m) kw).
Proof.
  intros P HP Hnd st m Hr Ho Hm Hres.
  destruct (plain_results_are_prescribed P HP Hnd st m Hr (conj Ho Hm) Hres) as [[kw [Hk Hok]] _].
  exists kw. split; [exact Hk|]. intros fuel r Hrun. pose proof (retry_run_rr _ _ _ _ _ Hrun) as Hrr.
  destruct Hok as [H|[H E]].
  - left. exact (rr_functional _ _ _ _ Hrr _ H).
  - right. split; [exact (rr_functional _ _ _ _ Hrr _ H)|exact E].
Qed.
Print Assumptions C12_on_plain_programs_results_follow_the_retry_policy.


(* ---- kind G: ALL programs, all schedules ------------------------------------------------------------------------------------- *)
From MLPE Require Import Proofs.PlainCore Proofs.RetryAll.

(* (8) inside a pipeline, whatever the program: the retry loop of every task is at an attempt number between 1 and `attempts`
       ([retry_at] reads (node, attempt) off a frame of the loop; policies with attempts >= 1 after defaulting) *)
Theorem C12_attempt_numbers_stay_within_the_configured_attempts :
  forall P, (forall i, (1 <= pol_attempts (nspec_of P i))%Z) ->
  forall st x f i a, reachable P st -> In x (st_tasks st) -> In f (estack (t_state x)) -> retry_at f = Some (i, a) ->
    1 <= a /\ (Z.of_nat a <= pol_attempts (nspec_of P i))%Z.
Proof. exact attempt_numbers_are_bounded_all_programs. Qed.
Print Assumptions C12_attempt_numbers_stay_within_the_configured_attempts.

(* (9) kind F: for EVERY plain program and EVERY schedule, while manager.run is pending, the body of a node has been invoked at most
       `attempts` times in total ([starts i] counts the body invocations of node i in the history; the order contains only real
       nodes: a decidable side condition, true of every plain declaration set) *)
From MLPE Require Import Proofs.PlainWorld Proofs.PlainLive Proofs.PlainCounts.

Theorem C12_on_plain_programs_at_most_attempts_invocations :
  forall P, plain_prog P -> NoDup (p_order P (maind P)) ->
  (forall i, (1 <= pol_attempts (nspec_of P i))%Z) ->
  (forall n, In n (p_order P (maind P)) -> n = KN (real_index n)) ->
  forall st, reachable P st -> over st = false -> main_done st = false ->
    forall i, starts i (st_trace st) <= Z.to_nat (pol_attempts (nspec_of P i)).
Proof. exact plain_bodies_are_invoked_at_most_attempts_times. Qed.
Print Assumptions C12_on_plain_programs_at_most_attempts_invocations.

(* (10) kind G: whatever the program and the schedule, get_default is called -- after exhausted attempts, after a non-retryable
        exception, or forced by an exhausted recurrent subgraph -- only for a node declared with use_default=True *)
From MLPE Require Import Proofs.DefaultAll.
Theorem C12_get_default_only_for_nodes_with_a_default :
  forall P st, reachable P st -> forall i kw, In (ODefault i kw) (st_trace st) -> ns_default (nspec_of P i) = true.
Proof. exact get_default_only_for_nodes_with_a_default_all_programs. Qed.
Print Assumptions C12_get_default_only_for_nodes_with_a_default.
