(* C15 -- build_dag is a faithful translation of the declared dependencies.
   Model: Pure/Builder.v (the work-list traversal of AnnotationDAGBuilder with networkx's add_node / add_edge
   attribute-merge semantics). Quantified over every declaration set (indices in range) -- every mark kind, shared
   and nested constructs -- and every node the output needs.

   FULL STATEMENT (kept visible):  build ds inp out  is, as a set of attributed nodes and edges, exactly the
   declared relation restricted to what the output needs, and does not depend on declaration / traversal order.
   PROVED HERE (names ending _partial where the statement is a part of the full one):
     (1) the traversal translates every node the output needs (nothing reachable is skipped);
     (2) every parameter declared with Input(..) or RecurrentSubGraph(..) of such a node has, in the final graph,
         its own dependency edge source -> node carrying exactly that parameter name -- nothing the builder does
         later drops, re-targets or merges it -- provided no two parameters of that node are bound to the same source
         (the D13 finding is exactly the failure of this hypothesis: C15_refuted_duplicate_source).
   NOT PROVED (checked on every run by the correspondence with the real build_dag and by the order-free declared
   relation of harness/special_builder.py): the synthetic switch / one-of sub-structures, node attributes, the
   converse inclusion (no extra nodes or edges) and order independence. *)
From MLPE Require Import Pure.Builder Proofs.TraversalProofs Proofs.BuilderProofs.

Theorem C15_reachable_is_translated_partial :
  forall ds inp out, in_range ds inp out -> inp <> out ->
                     forall i, reach ds inp out i -> In i (b_pop (build ds inp out)).
Proof. exact traversal_complete. Qed.
Print Assumptions C15_reachable_is_translated_partial.

Local Opaque build_loop.

Theorem C15_direct_parameters_delivered_partial :
  forall ds inp out i p mk src,
    in_range ds inp out -> inp <> out -> reach ds inp out i ->
    distinct_sources (params_of ds i) -> In (p, mk) (params_of ds i) -> direct_source mk = Some src ->
    exists a, edge_attr (b_graph (build ds inp out)) (KN src) (KN i) = Some a /\ ea_kwarg a = Some p.
Proof.
  intros ds inp out i p mk src R Hne Hr Hd Hin Hs.
  pose proof (traversal_complete ds inp out R Hne i Hr) as Hp.
  unfold build in *. destruct (Nat.eqb_spec inp out) as [E|_]; [contradiction|]. simpl in *.
  apply (loop_delivers ds inp i p mk src Hd Hin Hs); simpl.
  - constructor; [intros []|constructor].
  - tauto.
  - intros [].
  - exact Hp.
Qed.
Print Assumptions C15_direct_parameters_delivered_partial.

Local Transparent build_loop.

(* D13 (known finding): two parameters bound to the same source collapse into one edge: the first one is dropped.
     n1.process(p: Input(n0), q: Input(n0))   -- parameter names interned as 1 and 2 *)
Theorem C15_refuted_duplicate_source :
  exists ds inp out i p src,
    in_range ds inp out /\ inp <> out /\ reach ds inp out i /\ In (p, MIn src) (params_of ds i)
    /\ forall a, edge_attr (b_graph (build ds inp out)) (KN src) (KN i) = Some a -> ea_kwarg a <> Some p.
Proof.
  set (nd := fun ps => {| ns_params := ps; ns_mode := MGated; ns_attempts := None; ns_delay := None; ns_excs := None;
                          ns_default := false |}).
  exists [nd []; nd [(1, MIn 0); (2, MIn 0)]], 0, 1, 1, 1, 0.
  split.
  { split; [simpl; lia|]. split; [simpl; lia|]. intros i m Hi Hm. simpl in Hi.
    assert (Hi' : i = 0 \/ i = 1) by lia. destruct Hi' as [-> | ->]; vm_compute in Hm.
    - destruct Hm.
    - simpl. destruct Hm as [<-|[<-|[]]]; lia. }
  split; [discriminate|]. split; [constructor|]. split; [left; reflexivity|].
  intros a Ha. vm_compute in Ha. inversion Ha. subst. simpl. discriminate.
Qed.
Print Assumptions C15_refuted_duplicate_source.

(* non-vacuity: the README rhombus  out(a: Input(A), b: Input(B)), A(x: Input(In)), B(x: Input(In)), In() *)
Example C15_rhombus :
  let nd ps := {| ns_params := ps; ns_mode := MGated; ns_attempts := None; ns_delay := None; ns_excs := None;
                  ns_default := false |} in
  let ds := [nd []; nd [(3, MIn 0)]; nd [(3, MIn 0)]; nd [(1, MIn 1); (2, MIn 2)]] in
  map fst (g_edges (b_graph (build ds 0 3))) = [(KN 1, KN 3); (KN 2, KN 3); (KN 0, KN 2); (KN 0, KN 1)]
  /\ b_pop (build ds 0 3) = [3; 2; 0; 1].
Proof. vm_compute. split; reflexivity. Qed.
