(* C13 -- Nothing is left running after a run ends or is cancelled.
   Model: Engine/Manager.v (every coroutine of dag/manager.py, chart.py, events.py as frames) under Engine/Run.v
   (arbitrary schedules of loop steps, completions of executor work / timers / callbacks / saves, and caller
   cancellation). All theorems quantify over EVERY program (all constructs, any bodies, any collaborator fault
   plan, any order oracles) and EVERY schedule of unbounded length; nothing is bounded or sampled. *)
From MLPE Require Import Engine.Run Proofs.ExecLemmas Proofs.Evolve Proofs.StackInv Proofs.CancelProofs Proofs.ReadyInv
     Proofs.CancelSurface.

(* (1) when PipelineChart.run has returned or raised -- normally, with an error, or because the caller cancelled it at any
       point -- every helper task of the engine is finished or has a CancelledError pending (run()'s `finally`) *)
Theorem C13_all_helpers_cancelled :
  forall P st, reachable P st -> main_done st = true -> all_cancelled st.
Proof. exact after_done_all_cancelled. Qed.
Print Assumptions C13_all_helpers_cancelled.

(* (2) and from that moment on, whatever the event loop does (further steps, late completions of executor work, timers,
       callbacks, saves, further cancel calls), no node body, get_default, event callback, artifact save or timer is started
       and no task is created: the visible part of the trace and the task counter never change again *)
Theorem C13_nothing_starts_after_run :
  forall P st sched, reachable P st -> main_done st = true ->
    let st' := fold_left (fun s a => apply_action P a s) sched st in
    vis st' = vis st /\ st_next st' = st_next st /\ main_done st' = true.
Proof.
  intros P st sched Hr Hd st'. destruct (silent_after_run P sched st Hr Hd) as [[Hv Hn] Hd']. auto.
Qed.
Print Assumptions C13_nothing_starts_after_run.

(* (3) a CancelledError delivered to ANY task with a call-discipline-respecting stack (all reachable stacks are, by
       reachable_stacks_ok) ends that task within the very same loop step, silently: no suspension, nothing visible, no new
       task. This is why every cancelled helper finishes in one step each, without further action by the caller. *)
Theorem C13_cancelled_task_finishes_in_one_step :
  forall P fuel t k st, chainb k = true -> all_cancelled st ->
    let st' := exec P fuel t k (SThrow XCancelled) st in
    all_cancelled st' /\ vis st' = vis st /\ st_next st' = st_next st /\ is_done_t t st'.
Proof.
  intros P fuel t k st Hc Ha st'. destruct (unwind_exec P fuel t k st Hc Ha) as [A [[B1 B2] C]]. auto.
Qed.
Print Assumptions C13_cancelled_task_finishes_in_one_step.

Theorem C13_reachable_stacks_respect_call_discipline :
  forall P st, reachable P st -> stacks_ok st.
Proof. exact reachable_stacks_ok. Qed.
Print Assumptions C13_reachable_stacks_respect_call_discipline.

(* (4) a task that is Ready is in the ready queue (it will get its step): cancelled helpers are never lost *)
Theorem C13_ready_tasks_are_queued :
  forall P st, reachable P st -> rcx None st.
Proof. exact reachable_ready_consistent. Qed.
Print Assumptions C13_ready_tasks_are_queued.

(* (5) cancelling a run that has not ended never hangs and surfaces to the canceller as CancelledError only: whatever the
       schedule does afterwards, the chart task is runnable with the CancelledError pending (and then the loop is not idle) or
       has ended with CancelledError. The second disjunct of the Done case is the model interpreter giving up (fuel), which the
       correspondence check reports and which never occurs on a compared case. *)
Theorem C13_cancel_surfaces_as_CancelledError :
  forall P st sched, reachable P st -> main_done st = false ->
    let st' := fold_left (fun s a => apply_action P a s) sched (cancel_task main_tid st) in
    match main_state st' with
    | Some (TReady _ sg) => sg = SThrow XCancelled /\ deadlocked st' = false
    | Some (TDone r) => r = SThrow XCancelled \/ exists k, r = SThrow (XEng EOutOfFuel k)
    | _ => False
    end.
Proof. exact cancel_surfaces_as_cancelled. Qed.
Print Assumptions C13_cancel_surfaces_as_CancelledError.

(* Non-vacuity: a concrete program (rhombus of gated nodes) reaches a state in which run has ended after a caller
   cancellation in the middle of the run, with helper tasks that were pending at that moment. *)
Definition c13_decls : decls :=
  [ {| ns_params := []; ns_mode := MGated; ns_attempts := None; ns_delay := None; ns_excs := None; ns_default := false |};
    {| ns_params := [(1, MIn 0)]; ns_mode := MGated; ns_attempts := None; ns_delay := None; ns_excs := None; ns_default := false |};
    {| ns_params := [(1, MIn 0)]; ns_mode := MGated; ns_attempts := None; ns_delay := None; ns_excs := None; ns_default := false |};
    {| ns_params := [(1, MIn 1); (2, MIn 2)]; ns_mode := MGated; ns_attempts := None; ns_delay := None; ns_excs := None; ns_default := false |} ].
Definition c13_prog : prog := mk_prog c13_decls [] [] 1 false [] StNone false [] [] [] true true.
Definition c13_sched : list action := [AQuiesce; AGate (GBody 0 0); AQuiesce; ACancel; AQuiesce].
Example C13_premises_satisfiable :
  let st := run_sched c13_prog c13_sched in
  main_done st = true /\ main_state st = Some (TDone (SThrow XCancelled)) /\ 4 <= length (st_tasks st)
  /\ count_occ_b visible (st_trace st) = 8.
Proof. vm_compute. repeat split; lia. Qed.
