(* C14 -- Lifecycle events form a well-formed history consistent with the run.

   Event callbacks are counted per (manager, event kind, node) in the state ([ctr_get (CEmit m ev n)]); [safe_events]
   (Explore/Safe.v) states, for non-raising managers:
     - on_pipeline_start is called at most once per manager, and as soon as ANY callback, body, save or timer has happened
       manager 0 has seen on_pipeline_start exactly once (it is the first thing that happens);
     - on_pipeline_complete is called at most once per manager and, from the moment it has been called, every helper task is
       finished or has a CancelledError pending -- by C13 (all programs) such tasks end silently, so nothing but the remaining
       on_pipeline_complete callbacks can follow it;
     - a node sees at most one on_node_start per execution and at most one on_node_complete per attempt of the reference
       semantics (no event for a node the reference never runs, none for synthetic nodes).
   Kind E: proved for every program of the clean catalogue (with 0 / 1 managers, also gated ones whose callbacks interleave with
   everything else) and EVERY schedule incl. cancellation. Kind G (all programs, all schedules): the chart task only ever holds
   chart frames, manager.run and the emission of the two pipeline events (C14_pipeline_events_come_from_the_chart_task), and
   after the run has ended nothing is emitted at all (C13_nothing_starts_after_run).
   Decided on the implementation only (oracle on the merged event / body trace, every run): that on_pipeline_complete carries
   the very PipelineResult object run returns, the exact order start -> (complete(err))* -> final complete within one
   execution, and that a node's value reaches a consumer only after its successful on_node_complete. *)
From MLPE Require Import Engine.Run Spec.Dataflow Proofs.ExecLemmas Proofs.Evolve Proofs.StackInv Proofs.CancelProofs
     Explore.StateEq Explore.Erase Explore.Explorer Explore.Safe Catalogue.Programs Catalogue.Certified Proofs.CertLemmas.

Definition C14_statement_on_counters (P : prog) : Prop := forall st, reachable P st -> safe_events P st = true.

Theorem C14_catalogue : forall P, In P catalogue_clean -> C14_statement_on_counters P.
Proof.
  intros P HP st Hr. destruct (certified_facts P st (in_clean_certified P HP) Hr) as (_ & _ & _ & _ & _ & _ & _ & H & _). exact H.
Qed.
Print Assumptions C14_catalogue.

(* all programs, all schedules: the task running PipelineChart.run holds nothing but chart frames, manager.run and the
   emission of on_pipeline_start / on_pipeline_complete (so node events are never emitted by it, and pipeline events by nobody else
   is the call discipline: FEmit frames sit above the frames that created them) *)
Theorem C14_pipeline_events_come_from_the_chart_task :
  forall P st x k, reachable P st -> In x (st_tasks st) -> t_id x = main_tid ->
    (exists sg, t_state x = TReady k sg) \/ (exists w, t_state x = TWait w k) -> main_stack k = true.
Proof.
  intros P st x k Hr Hin Hid Hs. pose proof (reachable_stacks_ok P st Hr) as H.
  destruct (stacks_of st x H Hin) as [_ Hx]. destruct Hs as [[sg E]|[w E]]; rewrite E in Hx.
  - destruct Hx as [[_ [_ Hm]] _]. exact (Hm Hid).
  - destruct Hx as [_ [_ Hm]]. exact (Hm Hid).
Qed.
Print Assumptions C14_pipeline_events_come_from_the_chart_task.

(* the counters of one concrete run of a catalogue program with one manager: one pipeline_start, one pipeline_complete, one
   node_start and one node_complete per node *)
Example C14_premises_satisfiable :
  let st := run_sched cat_rhombus_events [AQuiesce; AGate (GBody 0 0); AQuiesce; AGate (GBody 1 0); AGate (GBody 2 0); AQuiesce; AGate (GBody 3 0); AQuiesce] in
  main_done st = true /\ ctr_get (CEmit 0 EvPipelineStart None) st = 1 /\ ctr_get (CEmit 0 EvPipelineComplete None) st = 1
  /\ ctr_get (CEmit 0 EvNodeStart (Some (KN 2))) st = 1 /\ ctr_get (CEmit 0 EvNodeComplete (Some (KN 2))) st = 1.
Proof. vm_compute. repeat split; reflexivity. Qed.
