(* C14 -- Lifecycle events form a well-formed history consistent with the run.

   Event callbacks are counted per (manager, event kind, node) in the state ([ctr_get (CEmit m ev n)]); [safe_events]
   (Explore/Safe.v) states, for non-raising managers:
     - on_pipeline_start is called at most once per manager, and as soon as ANY callback, body, save or timer has happened
       manager 0 has seen on_pipeline_start exactly once (it is the first thing that happens);
     - on_pipeline_complete is called at most once per manager and, from the moment it has been called, every helper task is
       finished or has a CancelledError pending -- by C13 (all programs) such tasks end silently, so nothing but the remaining
       on_pipeline_complete callbacks can follow it;
     - a node sees at most one on_node_start per execution and at most one on_node_complete per attempt of the reference
       semantics (no event for a node the reference never runs, none for synthetic nodes).
   Kind E: proved for every program of the clean catalogue (with 0 / 1 managers, also gated ones whose callbacks interleave with
   everything else) and EVERY schedule incl. cancellation. Kind G (all programs, all schedules): the chart task only ever holds
   chart frames, manager.run and the emission of the two pipeline events (C14_pipeline_events_come_from_the_chart_task), and
   after the run has ended nothing is emitted at all (C13_nothing_starts_after_run).
   Kind G (ALL programs -- every construct, any bodies, any artifact store, any order oracles --, any number of event managers that
   do not raise, suspending ones included, EVERY schedule incl. cancellation; theorems about the history [st_trace], below):
     - on_pipeline_start: at most once per manager, never with a node id, and BEFORE ANYTHING ELSE: every entry of the history
       other than the creation of the chart task and on_pipeline_start callbacks is preceded by the on_pipeline_start of every
       manager (C14_pipeline_start_comes_first);
     - on_pipeline_complete: at most once per manager; when run returns a PipelineResult, every manager has seen
       on_pipeline_start and on_pipeline_complete exactly once and every on_pipeline_complete carried exactly that value /
       error (C14_pipeline_events); AFTER EVERYTHING ELSE: from the first on_pipeline_complete on, the history grows by
       on_pipeline_complete callbacks only (C14_pipeline_complete_comes_last);
     - on_node_start comes first for each node: every body invocation -- first attempt or retry, in any iteration of a recurrent
       subgraph -- comes after every manager's on_node_start for that node (C14_node_start_comes_before_the_body), and so does every
       on_node_complete of the node -- the final one as well as the one reporting a failed attempt that is going to be retried
       (C14_node_complete_follows_node_start);
     - a node's value is stored -- hence can reach a consumer, the artifact store or the caller -- only after every manager
       has been told on_node_complete(node, error=None) (C14_values_are_stored_after_node_complete; "value": not a contained
       failure, which inside a one-of scope is stored as a result and was reported with on_node_complete(error); "node": not the
       synthetic head of a one-of, whose result is the winning candidate's).
   Kind F (all PLAIN programs, same managers and schedules):
     - a body is invoked only after every manager has seen the successful on_node_complete of each of its inputs
       (C14_on_plain_programs_values_follow_node_complete).
   Decided on the implementation only (oracle on the merged event / body trace, every run): the identity of the PipelineResult
   object, the exact number of on_node_complete callbacks per attempt within one execution, and body-after-input-complete on
   programs that are not plain. *)
From MLPE Require Import Engine.Run Spec.Dataflow Proofs.ExecLemmas Proofs.Evolve Proofs.StackInv Proofs.CancelProofs
     Explore.StateEq Explore.Erase Explore.Explorer Explore.Safe Catalogue.Programs Catalogue.Certified Proofs.CertLemmas.

Definition C14_statement_on_counters (P : prog) : Prop := forall st, reachable P st -> safe_events P st = true.

Theorem C14_catalogue : forall P, In P catalogue_clean -> C14_statement_on_counters P.
Proof.
  intros P HP st Hr. destruct (certified_facts P st (in_clean_certified P HP) Hr) as (_ & _ & _ & _ & _ & _ & _ & H & _). exact H.
Qed.
Print Assumptions C14_catalogue.

(* all programs, all schedules: the task running PipelineChart.run holds nothing but chart frames, manager.run and the
   emission of on_pipeline_start / on_pipeline_complete (so node events are never emitted by it, and pipeline events by nobody else
   is the call discipline: FEmit frames sit above the frames that created them) *)
Theorem C14_pipeline_events_come_from_the_chart_task :
  forall P st x k, reachable P st -> In x (st_tasks st) -> t_id x = main_tid ->
    (exists sg, t_state x = TReady k sg) \/ (exists w, t_state x = TWait w k) -> main_stack k = true.
Proof.
  intros P st x k Hr Hin Hid Hs. pose proof (reachable_stacks_ok P st Hr) as H.
  destruct (stacks_of st x H Hin) as [_ Hx]. destruct Hs as [[sg E]|[w E]]; rewrite E in Hx.
  - destruct Hx as [[_ [_ Hm]] _]. exact (Hm Hid).
  - destruct Hx as [_ [_ Hm]]. exact (Hm Hid).
Qed.
Print Assumptions C14_pipeline_events_come_from_the_chart_task.

(* the counters of one concrete run of a catalogue program with one manager: one pipeline_start, one pipeline_complete, one
   node_start and one node_complete per node *)
Example C14_premises_satisfiable :
  let st := run_sched cat_rhombus_events [AQuiesce; AGate (GBody 0 0); AQuiesce; AGate (GBody 1 0); AGate (GBody 2 0); AQuiesce; AGate (GBody 3 0); AQuiesce] in
  main_done st = true /\ ctr_get (CEmit 0 EvPipelineStart None) st = 1 /\ ctr_get (CEmit 0 EvPipelineComplete None) st = 1
  /\ ctr_get (CEmit 0 EvNodeStart (Some (KN 2))) st = 1 /\ ctr_get (CEmit 0 EvNodeComplete (Some (KN 2))) st = 1.
Proof. vm_compute. repeat split; reflexivity. Qed.


(* ---- kind G (all programs) and kind F (all plain programs), all schedules, non-raising managers ---------------------------- *)
From MLPE Require Import Proofs.PlainWorld Proofs.PlainLive Proofs.PlainCore Proofs.PlainDeadlock Proofs.PlainEvents Proofs.PlainNodeStart Proofs.PlainPipe Proofs.PlainQuiet
     Proofs.PipeAll Proofs.QuietAll Proofs.NodeStartAll Proofs.ValuesAll.

Definition managers_do_not_raise (P : prog) : Prop := forall m ev n k, p_mgr_fault P m ev n k = false.

(* [done_ev m n] = on_node_complete(n, error=None) seen by manager m; the history is newest first: in [a ++ o :: b], b is what
   happened before o *)
Theorem C14_on_plain_programs_values_follow_node_complete :
  forall P, plain_prog P -> NoDup (p_order P (maind P)) -> managers_do_not_raise P ->
  forall st, reachable P st ->
    (forall n, exists_result n (st_store st) = true -> forall m, m < p_mgrs P -> In (done_ev m n) (st_trace st)) /\
    (over st = false -> main_done st = false ->
     forall a b i k kw, st_trace st = a ++ OStart i k kw :: b ->
       exists nd, real_index nd = i /\
                  forall p, In p (preds (b_graph (build (p_decls P) (p_inp P) (p_out P))) nd) ->
                            forall m, m < p_mgrs P -> In (done_ev m p) b).
Proof.
  intros P HP Hnd Hnf st Hr. split.
  - exact (plain_values_after_announcement P HP Hnf st Hr).
  - intros Ho Hm. exact (plain_bodies_start_after_announcement P HP Hnd Hnf st Hr Ho Hm).
Qed.
Print Assumptions C14_on_plain_programs_values_follow_node_complete.

(* [start_ev m n] = on_node_start(n) seen by manager m: every body invocation of a node -- first attempt or retry -- comes after
   every manager's on_node_start for that node *)
Theorem C14_node_start_comes_before_the_body :
  forall P, managers_do_not_raise P ->
  forall st, reachable P st ->
    forall a b i k kw, st_trace st = a ++ OStart i k kw :: b ->
      exists nd, real_index nd = i /\ forall m, m < p_mgrs P -> In (start_ev m nd) b.
Proof. exact bodies_start_after_node_start_all_programs. Qed.
Print Assumptions C14_node_start_comes_before_the_body.

(* the storing of a value (not a contained failure) as the result of a node (not a one-of head) comes after every manager's
   on_node_complete(node, error=None) *)
Theorem C14_values_are_stored_after_node_complete :
  forall P, managers_do_not_raise P ->
  forall st, reachable P st ->
    forall a b n v, st_trace st = a ++ OSetResult n v :: b -> is_exn v = false ->
      is_head (b_graph (build (p_decls P) (p_inp P) (p_out P))) n = false ->
      forall m, m < p_mgrs P -> In (done_ev m n) b.
Proof. exact values_are_stored_after_node_complete_all_programs. Qed.
Print Assumptions C14_values_are_stored_after_node_complete.

(* [cnt (is_ps m)] / [cnt (is_pc m)] count the on_pipeline_start / on_pipeline_complete callbacks of manager m in the history *)
Theorem C14_pipeline_events :
  forall P, managers_do_not_raise P ->
  forall st, reachable P st ->
    (forall m, cnt (is_ps m) (st_trace st) <= 1) /\ (forall m, cnt (is_pc m) (st_trace st) <= 1) /\
    (forall m n e r, In (OEmit m EvPipelineStart n e r) (st_trace st) -> n = None /\ e = None /\ r = None) /\
    (forall m n e r, In (OEmit m EvPipelineComplete n e r) (st_trace st) -> n = None) /\
    (forall v, main_state st = Some (TDone (SVal v)) ->
       (forall m, m < p_mgrs P -> cnt (is_ps m) (st_trace st) = 1 /\ cnt (is_pc m) (st_trace st) = 1) /\
       (forall m n e r, In (OEmit m EvPipelineComplete n e r) (st_trace st) -> e = None /\ r = Some v)) /\
    (forall x, main_state st = Some (TDone (SResErr x)) ->
       (forall m, m < p_mgrs P -> cnt (is_ps m) (st_trace st) = 1 /\ cnt (is_pc m) (st_trace st) = 1) /\
       (forall m n e r, In (OEmit m EvPipelineComplete n e r) (st_trace st) -> e = Some x /\ r = None)).
Proof. exact pipeline_events_all_programs. Qed.
Print Assumptions C14_pipeline_events.

(* [early o]: o is the creation of the chart task or an on_pipeline_start callback *)
Theorem C14_pipeline_start_comes_first :
  forall P, managers_do_not_raise P ->
  forall st, reachable P st ->
    forall a o b, st_trace st = a ++ o :: b -> early o = false -> forall m, m < p_mgrs P -> cnt (is_ps m) b = 1.
Proof. exact pipeline_start_comes_first_all_programs. Qed.
Print Assumptions C14_pipeline_start_comes_first.

(* [is_pc_any o]: o is an on_pipeline_complete callback; a is what happened after o *)
Theorem C14_pipeline_complete_comes_last :
  forall P, managers_do_not_raise P ->
  forall st, reachable P st ->
    forall a o b, st_trace st = a ++ o :: b -> is_pc_any o = true -> forallb is_pc_any a = true.
Proof. exact pipeline_complete_comes_last_all_programs. Qed.
Print Assumptions C14_pipeline_complete_comes_last.

(* the hypotheses are met by the rhombus with a suspending event manager, and a complete run of it shows every event in the
   history (so the conclusions above are about non-empty histories) *)
Example C14_plain_hypotheses_hold :
  plain_prog cat_rhombus_gated_events /\ NoDup (p_order cat_rhombus_gated_events (maind cat_rhombus_gated_events)) /\
  managers_do_not_raise cat_rhombus_gated_events /\ p_mgrs cat_rhombus_gated_events = 1.
Proof.
  split; [|split; [|split]].
  - assert (Hp : forall P bs, p_body P = dsl_body bs -> forallb (fun nb => beh_plain (nb_beh nb)) bs = true ->
                              graph_plain (b_graph (build (p_decls P) (p_inp P) (p_out P))) = true -> kw_clean (p_input P) = true -> plain_prog P).
    { intros P bs Eb Hb Hg Hi. split; [exact Hg|]. split; [rewrite Eb; apply dsl_body_clean; exact Hb|exact Hi]. }
    eapply Hp; [reflexivity|vm_compute; reflexivity|vm_compute; reflexivity|vm_compute; reflexivity].
  - apply nodupb_sound. vm_compute. reflexivity.
  - intros m ev n k. reflexivity.
  - reflexivity.
Qed.

(* every on_node_complete(n, ...) seen by any manager comes after every manager's on_node_start for a node with the same body
   (the retry loop reports failed attempts under the node's own id; the id is read off the body index) *)
From MLPE Require Import Proofs.CompleteAll.
Theorem C14_node_complete_follows_node_start :
  forall P, managers_do_not_raise P ->
  forall st, reachable P st ->
    forall a b m n e r, st_trace st = a ++ OEmit m EvNodeComplete (Some n) e r :: b ->
      exists nd, real_index nd = real_index n /\ forall m', m' < p_mgrs P -> In (start_ev m' nd) b.
Proof. exact node_complete_follows_node_start_all_programs. Qed.
Print Assumptions C14_node_complete_follows_node_start.
