(* C05 -- Failures are reported faithfully: right verdict, real root-cause error.

   [outcome_ok P c r]: r = SVal v only if the reference evaluates to v; r = SResErr e (PipelineResult(error=e)) only if the
   reference fails and e is a root cause of that failure (an exception raised by a required node of this run as its final
   failure, or the documented one-of / recurrent / switch error), and e is an Exception;
   r = SThrow e (run raises) only for a BaseException outside Exception that is a root cause, or the caller's own cancellation.
   Engine-internal artefacts (EInternal = KeyError & co, a helper task's CancelledError) are never a root cause of the reference,
   hence never the outcome. Kind E: clean catalogue, every schedule. FALSE in general (known findings D9, D11, D12, D17).
   Kind G (ALL programs, all schedules incl. cancellation, event managers that do not raise): run never raises an Exception
   subclass -- what it raises is a BaseException outside Exception -- and what it reports as PipelineResult.error is an Exception
   (C05_run_never_raises_an_exception_subclass) that was the error of a finished, not cancelled helper task at the moment run()
   looked, or the pool-registry error (C05_reported_error_is_a_task_error): never a CancelledError of its own helpers. *)
From MLPE Require Import Engine.Run Spec.Dataflow Proofs.ExecLemmas Explore.StateEq Explore.Erase Explore.Explorer Explore.Safe
     Catalogue.Programs Catalogue.Certified Proofs.CertLemmas.

Definition C05_statement (P : prog) : Prop :=
  forall st r, reachable P st -> main_state st = Some (TDone r) -> outcome_ok P true r = true.

Theorem C05_catalogue : forall P, In P catalogue_clean -> C05_statement P.
Proof.
  intros P HP st r Hr Hm. destruct (certified_facts P st (in_clean_certified P HP) Hr) as (_ & _ & H & _).
  unfold safe_outcome in H. rewrite Hm in H. exact H.
Qed.
Print Assumptions C05_catalogue.

(* run never raises an Exception subclass, never reports an internal artefact, never returns a value when the reference fails *)
Theorem C05_never_an_artefact :
  forall P, In P catalogue_clean -> forall st r, reachable P st -> main_state st = Some (TDone r) ->
    match r with
    | SThrow e => is_Exception e = false
    | SResErr e => is_Exception e = true /\ (forall k, e <> XEng EInternal k) /\ e <> XCancelled
    | SVal v => ref_res P = ROk v
    | _ => False
    end.
Proof.
  intros P HP st r Hr Hm. pose proof (C05_catalogue P HP st r Hr Hm) as H. unfold outcome_ok in H.
  destruct r as [|v| |e|e]; try discriminate.
  - destruct (ref_res P) as [v'|cs]; [|discriminate]. apply value_seqb_sound in H. subst. reflexivity.
  - destruct e as [c i a|ee k|k|k|]; try reflexivity; destruct (ref_res P) as [v'|cs]; try discriminate;
      apply andb_true_iff in H; destruct H as [_ H]; apply negb_true_iff in H; exact H.
  - destruct (ref_res P) as [v'|cs]; [discriminate|]. apply andb_true_iff in H. destruct H as [H1 H2]. split; [exact H2|]. split.
    + intros k ->. apply existsb_exists in H1. destruct H1 as [c [_ Hc]]. destruct c; discriminate Hc.
    + intros ->. discriminate H2.
Qed.
Print Assumptions C05_never_an_artefact.

(* ---- kind G: ALL programs, ALL schedules incl. caller cancellation, event managers that do not raise ---- *)
From MLPE Require Import Proofs.ErrAll.

(* (the second disjunct of the first clause is the interpreter giving up -- fuel --, which never occurs on a compared run) *)
Theorem C05_run_never_raises_an_exception_subclass :
  forall P, (forall m ev n k, p_mgr_fault P m ev n k = false) ->
  forall st, reachable P st ->
    (forall e, main_state st = Some (TDone (SThrow e)) -> is_Exception e = false \/ exists k, e = XEng EOutOfFuel k) /\
    (forall e, main_state st = Some (TDone (SResErr e)) -> is_Exception e = true).
Proof. exact run_never_raises_an_exception_subclass_all_programs. Qed.
Print Assumptions C05_run_never_raises_an_exception_subclass.

(* [ORunDone alts] in the history: run() looked at its helper tasks and found the errors alts of the finished, not cancelled ones *)
Theorem C05_reported_error_is_a_task_error :
  forall P, (forall m ev n k, p_mgr_fault P m ev n k = false) ->
  forall st e, reachable P st -> main_state st = Some (TDone (SResErr e)) ->
    (exists alts, In (ORunDone alts) (st_trace st) /\ In e alts) \/ exists k, e = XEng EPoolNotReady k.
Proof. exact reported_error_is_a_task_error_all_programs. Qed.
Print Assumptions C05_reported_error_is_a_task_error.

(* ---- kind F: ALL plain programs, ALL schedules incl. caller cancellation ----------------------------------------------------------
   what run reports as PipelineResult.error was raised by a node body of this program at the attempt it names (with some argument
   list), by an event manager or by the artifact store, or is the pool-not-ready error -- and it is an Exception; what run raises
   is such an exception or the caller's CancelledError. Never a CancelledError of its own helper tasks, an internal lookup error or
   the engine's "no result" errors. (The interpreter's out-of-fuel artefact is the one model-only alternative in the second clause:
   excluded on the catalogue by the certificates; the driver reports it on every compared run.) Proofs/PlainErrors.v proves more:
   every exception in flight anywhere -- thrown into a frame, held by a frame, the result of any task -- has such an origin. *)
From MLPE Require Import Proofs.PlainWorld Proofs.PlainLive Proofs.PlainErrors.

Theorem C05_on_plain_programs_reported_errors_are_genuine :
  forall P, plain_prog P -> forall st, reachable P st ->
    (forall e, main_state st = Some (TDone (SResErr e)) -> raised P e /\ is_Exception e = true) /\
    (forall e, main_state st = Some (TDone (SThrow e)) ->
               e = XCancelled \/ raised P e \/ e = XEng EOutOfFuel (b_input (build (p_decls P) (p_inp P) (p_out P)))).
Proof. exact plain_errors_are_genuine. Qed.
Print Assumptions C05_on_plain_programs_reported_errors_are_genuine.

Example C05_plain_not_vacuous :
  match main_state (auto_run cat_rhombus_fail 40 init_state) with Some (TDone (SResErr (XNode _ _ _))) => True | _ => False end.
Proof. vm_compute. exact I. Qed.
