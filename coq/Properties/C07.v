(* C07 -- A chart is reusable: every run behaves like the first run of a fresh chart.

   Model: a chart is the immutable [prog]; a run is a fresh [mstate] (Engine/Multi.v). A history of runs one after the other is
   the special interleaving in which run #j+1 starts when run #j has ended. Theorems, for EVERY program and history:
   each run of the history is the run of a fresh chart under its own schedule (C07_each_run_is_a_fresh_run), and the chart
   handed to run #j+1 is literally the one handed to run #0 (it is a parameter of the transition function, never a result).
   That the REAL engine writes nothing into the DAG, its graph attributes, the node classes or the caller's input_kwargs is not
   a theorem but the content of the correspondence check: histories of 2-5 runs with different inputs and failures on one
   chart, deep snapshots of graph / node map / class attributes / input dict before and after every run, every run compared
   with the single-run model and the reference (defects D6, D7, D8, D18 were found and repaired this way). *)
From MLPE Require Import Engine.Multi Proofs.MultiProofs Explore.Erase Explore.Safe Catalogue.Programs Catalogue.Certified Proofs.CertLemmas.

Theorem C07_each_run_is_a_fresh_run :
  forall P k sched j, j < k -> nth j (mrun P k sched) (init_state) = run_sched P (induced j sched).
Proof. exact run_projection. Qed.
Print Assumptions C07_each_run_is_a_fresh_run.

(* the k-th run of a history on a catalogue program yields the outcome the reference gives, like the first run of a fresh chart *)
Theorem C07_history_outcomes :
  forall P, In P catalogue_clean ->
    forall k sched j r, j < k -> forallb (act_ok false) (induced j sched) = true ->
      main_state (nth j (mrun P k sched) (init_state)) = Some (TDone r) -> outcome_ok P false r = true.
Proof.
  intros P HP k sched j r Hj Hs Hm. rewrite run_projection in Hm by exact Hj.
  exact (certified_outcome_without_cancel P _ r (in_clean_certified P HP) Hs Hm).
Qed.
Print Assumptions C07_history_outcomes.
