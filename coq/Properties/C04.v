(* C04 -- Each node executes at most once per run and iteration, whoever requests it.

   Kind E (clean catalogue, every schedule): the number of body invocations of node i never exceeds the number of invocations
   in the reference evaluation, which executes a node once per (re-)iteration it belongs to, plus its retry attempts.
   Kind G (EVERY program, EVERY schedule): an execution of a node begins (ghost event OProcessed, emitted where _execute_node marks
   the node processed, in the same atomic segment as the test of that mark) only if no execution of it has begun since its last
   invalidation; so any two executions of one node are separated by an invalidation of the earlier one (OHide: a recurrent
   re-iteration hiding the subgraph, or the forced default after exhaustion), whoever requests the node and however the requests
   interleave; and the processed mark in the storage is exactly that fact. (The seeded change C04-1 -- an await between the test and
   the mark -- is precisely what this theorem's proof would not survive in the model; on the implementation it is caught by the
   oracle and the correspondence.) Also kind G: every body invocation belongs to an execution that has begun -- in the history it is
   preceded by the marking of its node (C04_every_body_invocation_belongs_to_a_begun_execution) -- and the retry loop of an
   execution never goes beyond the configured attempts (C12_attempt_numbers_stay_within_the_configured_attempts); kind F: on plain
   programs at most one execution per node and at most `attempts` body invocations in total
   (C12_on_plain_programs_at_most_attempts_invocations). The kind-E counts are FALSE only on known findings D9, D12, D17. *)
From MLPE Require Import Engine.Run Spec.Dataflow Proofs.ExecLemmas Explore.StateEq Explore.Erase Explore.Explorer Explore.Safe
     Catalogue.Programs Catalogue.Certified Proofs.CertLemmas Proofs.ProcessedInv.

Definition C04_statement (P : prog) : Prop :=
  forall st i, reachable P st -> ctr_get (CBody i) st <= ref_invocations P i.

Theorem C04_catalogue : forall P, In P catalogue_clean -> C04_statement P.
Proof.
  intros P HP st i Hr. destruct (certified_facts P st (in_clean_certified P HP) Hr) as (_ & _ & _ & H & _).
  apply safe_counts_bound. exact H.
Qed.
Print Assumptions C04_catalogue.

Theorem C04_an_execution_begins_only_when_unmarked :
  forall P st, reachable P st ->
    (forall n, exists_processed n (st_store st) = last_proc n (st_trace st)) /\ wf_proc (st_trace st).
Proof. exact reachable_proc_ok. Qed.
Print Assumptions C04_an_execution_begins_only_when_unmarked.

Theorem C04_two_executions_are_separated_by_an_invalidation :
  forall P st n l1 l2 l3, reachable P st -> st_trace st = l1 ++ OProcessed n :: l2 ++ OProcessed n :: l3 -> In (OHide n) l2.
Proof.
  intros P st n l1 l2 l3 Hr E. destruct (reachable_proc_ok P st Hr) as [_ H]. rewrite E in H.
  exact (two_executions_are_separated n l1 l2 l3 H).
Qed.
Print Assumptions C04_two_executions_are_separated_by_an_invalidation.

(* kind G: in the history (newest first), a body invocation of node i is preceded by the marking of a node with that index *)
From MLPE Require Import Proofs.ProcAll.
Theorem C04_every_body_invocation_belongs_to_a_begun_execution :
  forall P st, reachable P st ->
    forall a b i k kw, st_trace st = a ++ OStart i k kw :: b -> exists n, real_index n = i /\ In (OProcessed n) b.
Proof. exact every_body_invocation_belongs_to_a_begun_execution. Qed.
Print Assumptions C04_every_body_invocation_belongs_to_a_begun_execution.

(* a node shared by the main DAG, a switch branch and the output is executed exactly as often as the reference does: once *)
Example C04_shared_node_once :
  In cat_switch_shared_case catalogue_clean /\ ref_invocations cat_switch_shared_case 2 = 1.
Proof. split; [in_catalogue|vm_compute; reflexivity]. Qed.

(* ---- kind F: ALL plain programs (no switch, no one-of, no body asking for another iteration; any size, shape, settings and
   collaborators), ALL schedules: a node is executed at most once in a run -- nothing is ever invalidated in a plain run, so by
   the theorem above two executions of one node cannot both occur. *)
From MLPE Require Import Proofs.PlainWorld Proofs.PlainLive.

Theorem C04_on_plain_programs_at_most_one_execution_per_node :
  forall P, plain_prog P ->
    forall st n l1 l2 l3, reachable P st -> st_trace st <> l1 ++ OProcessed n :: l2 ++ OProcessed n :: l3.
Proof.
  intros P HP st n l1 l2 l3 Hr E.
  pose proof (C04_two_executions_are_separated_by_an_invalidation P st n l1 l2 l3 Hr E) as Hh.
  assert (Hin : In (OHide n) (st_trace st)) by (rewrite E; apply in_or_app; right; right; apply in_or_app; left; exact Hh).
  pose proof (plain_prog_values_in_flight P st _ HP Hr Hin) as H. discriminate H.
Qed.
Print Assumptions C04_on_plain_programs_at_most_one_execution_per_node.
