(* C04 -- Each node executes at most once per run and iteration, whoever requests it.

   Kind E (clean catalogue, every schedule): the number of body invocations of node i never exceeds the number of invocations
   in the reference evaluation, which executes a node once per (re-)iteration it belongs to, plus its retry attempts.
   Kind G (all programs, all schedules) is not proved (the check-then-mark of _execute_node being atomic is what the seeded
   mutant C04-1 breaks; it is caught by the oracle on the implementation and by the correspondence). FALSE in general for the
   counts of known findings D9, D12, D17 only. *)
From MLPE Require Import Engine.Run Spec.Dataflow Proofs.ExecLemmas Explore.StateEq Explore.Erase Explore.Explorer Explore.Safe
     Catalogue.Programs Catalogue.Certified Proofs.CertLemmas.

Definition C04_statement (P : prog) : Prop :=
  forall st i, reachable P st -> ctr_get (CBody i) st <= ref_invocations P i.

Theorem C04_catalogue : forall P, In P catalogue_clean -> C04_statement P.
Proof.
  intros P HP st i Hr. destruct (certified_facts P st (in_clean_certified P HP) Hr) as (_ & _ & _ & H & _).
  apply safe_counts_bound. exact H.
Qed.
Print Assumptions C04_catalogue.

(* a node shared by the main DAG, a switch branch and the output is executed exactly as often as the reference does: once *)
Example C04_shared_node_once :
  In cat_switch_shared_case catalogue_clean /\ ref_invocations cat_switch_shared_case 2 = 1.
Proof. split; [in_catalogue|vm_compute; reflexivity]. Qed.
