(* C02 -- Every run terminates: no deadlock or lost wake-up under any schedule.

   Full statement (for a program P):
     C02_statement P := forall st, reachable P st ->
         deadlocked st = false                          (never: loop idle, nothing outstanding, run pending)
      /\ aborted st = false                             (the model interpreter never gives up inside one atomic segment)
      /\ st_ready (quiesce P B st) = []                 (at most B consecutive loop steps without an external completion)
   It is FALSE for some programs (known findings D11, D12, D17: see DESIGN 3.6); it is proved here
   (a) kind E: for every program of the catalogue (about 40 concrete programs: every DAG shape of the repository's test suite,
       the witnesses of the repaired hangs D1-D4b, D22, nested / shared / failing variants, collaborator faults), for EVERY
       schedule of unbounded length including caller cancellation at any point, by certified exhaustive exploration;
   (b) kind G, all programs and schedules: a Ready task is always queued (no lost wake-up at the loop level), cancellation never
       hangs (C13), and a CancelledError ends a task in one step.
   (c) kind F, ALL plain programs (built graph without switch node and one-of head, bodies that never ask for another iteration;
       any number of nodes, any shape, retry / default settings, execution modes, any event managers and artifact store -- gated or
       not, raising or not) and ALL schedules incl. caller cancellation: no reachable state is deadlocked
       (C02_on_plain_programs_no_deadlock, proved in Proofs/PlainDeadlock.v by invariants over configuration-level reachability).
       Its two hypotheses on the library orders (the launch order is duplicate-free, lists the output and every dependency of a
       node before it; the notified successors include every consumer) are decidable (valid_orders_b) and are what the model side
       checks of every order recorded from networkx. The bound on consecutive loop steps (third conjunct) is kind E only.
   For switch / one-of / recurrent programs outside the catalogue the property is decided by the correspondence check and the
   deadlock oracle on the implementation only. *)
From MLPE Require Import Engine.Run Proofs.ExecLemmas Proofs.Evolve Proofs.ReadyInv Explore.StateEq Explore.Erase Explore.Explorer Explore.Safe
     Catalogue.Programs Catalogue.Certified Proofs.CertLemmas.

Definition C02_statement (P : prog) : Prop :=
  forall st, reachable P st ->
             deadlocked st = false /\ aborted st = false /\ st_ready (quiesce P quiesce_bound st) = [].

Theorem C02_holds_on_certified_programs :
  forall P, certified_full P \/ certified_term P -> C02_statement P.
Proof.
  intros P [[fuel [H _]]|[fuel H]] st Hr.
  - destruct (full_parts P true st (cert_full_reachable P fuel st H Hr)) as (A & B & _ & _ & _ & _ & C & _). auto.
  - exact (cert_term_reachable P fuel st H Hr).
Qed.
Print Assumptions C02_holds_on_certified_programs.

Theorem C02_catalogue : forall P, In P catalogue_clean \/ In P catalogue_faulty -> C02_statement P.
Proof.
  intros P [H|H]; apply C02_holds_on_certified_programs.
  - left. pose proof catalogue_clean_certified as F. rewrite Forall_forall in F. apply F. exact H.
  - right. pose proof catalogue_faulty_certified as F. rewrite Forall_forall in F. apply F. exact H.
Qed.
Print Assumptions C02_catalogue.

(* all programs: a task that is Ready is in the ready queue, hence a state with a runnable task is never "idle" *)
Theorem C02_no_lost_wakeup_at_loop_level_partial :
  forall P st t x k sg, reachable P st -> find_task t (st_tasks st) = Some x -> t_state x = TReady k sg -> deadlocked st = false.
Proof. exact ready_task_not_deadlocked. Qed.
Print Assumptions C02_no_lost_wakeup_at_loop_level_partial.

(* the catalogue is not trivial: sizes of the explored state sets of three of its programs *)
Example C02_catalogue_nontrivial :
  length catalogue_clean >= 33 /\ length catalogue_faulty = 2.
Proof. split; [cbn; lia|reflexivity]. Qed.


(* ---- kind F: all plain programs, all schedules --------------------------------------------------------------------------- *)
From MLPE Require Import Proofs.PlainWorld Proofs.PlainLive Proofs.PlainDeadlock.

Theorem C02_on_plain_programs_no_deadlock :
  forall P, plain_prog P -> valid_orders P -> forall st, reachable P st -> deadlocked st = false.
Proof. exact plain_programs_never_deadlock. Qed.
Print Assumptions C02_on_plain_programs_no_deadlock.

(* the hypotheses are met: the rhombus with gated event managers, a retry node with a default, and a five-node DAG with a
   gated write-once store and a failing node *)
Example C02_plain_hypotheses_hold :
  (plain_prog cat_rhombus_gated_events /\ valid_orders cat_rhombus_gated_events) /\
  (plain_prog cat_retry_exhausted_default /\ valid_orders cat_retry_exhausted_default) /\
  (plain_prog cat_rhombus_fail /\ valid_orders cat_rhombus_fail).
Proof.
  assert (Hp : forall P bs, p_body P = dsl_body bs -> forallb (fun nb => beh_plain (nb_beh nb)) bs = true ->
                            graph_plain (b_graph (build (p_decls P) (p_inp P) (p_out P))) = true -> kw_clean (p_input P) = true -> plain_prog P).
  { intros P bs Eb Hb Hg Hi. split; [exact Hg|]. split; [rewrite Eb; apply dsl_body_clean; exact Hb|exact Hi]. }
  split; [|split]; (split; [eapply Hp; [reflexivity|vm_compute; reflexivity|vm_compute; reflexivity|vm_compute; reflexivity]
                           |apply valid_orders_b_sound; vm_compute; reflexivity]).
Qed.
