(* C17 -- Execution mode is transparent; a missing pool fails fast.

   (1) Fail fast, kind G (EVERY program, EVERY schedule): if a mode in use needs a pool that is not registered or has been shut
       down (pool_blocked: what _is_executor_needed computes vs. the registry state), no task is ever created and nothing
       about any node is ever observed: no body, no get_default, no node event, no save, no timer -- only the two pipeline
       events. Kind E for the outcome (two catalogue programs, every schedule): the run ends with the pool error result
       (RuntimeError of the registry) or, if the caller cancels, CancelledError; never a hang, never a partial run.
   (2) Transparency, kind E: the reference semantics does not look at execution modes; three mode assignments of the same
       rhombus (all coroutines / immediate+thread+process+inline / inline+inline+thread+process) are in the catalogue and end, under
       EVERY schedule, with one and the same value. In general (all programs) transparency is not proved: it is decided by
       running the real engine on generated programs under random mode assignments on the virtual loop against the reference, and
       on a sample with real thread and fork-process pools on a real event loop.
   Not exhibited by the model: real pool timing, pickling of process-pool arguments, worker saturation. *)
From MLPE Require Import Engine.Run Spec.Dataflow Proofs.ExecLemmas Proofs.ModesProofs Explore.StateEq Explore.Erase Explore.Explorer Explore.Safe
     Catalogue.Programs Catalogue.Certified Proofs.CertLemmas.

Theorem C17_missing_pool_nothing_runs :
  forall P, pool_blocked P = true ->
    forall st, reachable P st -> st_next st = 1 /\ forallb node_free (st_trace st) = true.
Proof. exact blocked_run_is_calm. Qed.
Print Assumptions C17_missing_pool_nothing_runs.

Theorem C17_missing_pool_outcome :
  forall P, In P catalogue_nopool ->
    pool_blocked P = true /\
    forall st r, reachable P st -> deadlocked st = false /\
      (main_state st = Some (TDone r) -> (exists k, r = SResErr (XEng EPoolNotReady k)) \/ r = SThrow XCancelled).
Proof.
  intros P HP. split.
  - unfold catalogue_nopool in HP. cbn [In] in HP. repeat (destruct HP as [<-|HP]; [vm_compute; reflexivity|]). contradiction.
  - intros st r Hr. pose proof catalogue_nopool_certified as F. rewrite Forall_forall in F. destruct (F P HP) as [fuel Hc].
    pose proof (certify_sound P true fuel _ Hc st (reachable_by_true P st Hr)) as H.
    unfold safe_nopool in H. change (safe_live (erase st)) with (safe_live st) in H. change (main_state (erase st)) with (main_state st) in H.
    apply andb_true_iff in H. destruct H as [H _]. apply andb_true_iff in H. destruct H as [Hl Ho].
    unfold safe_live in Hl. apply andb_true_iff in Hl. destruct Hl as [Hd _]. apply negb_true_iff in Hd. split; [exact Hd|].
    intros Hm. rewrite Hm in Ho. destruct r as [|v| |e|e]; try discriminate.
    + destruct e; try discriminate. right. reflexivity.
    + destruct e as [c i a|ee k|k|k|]; try discriminate. destruct ee; try discriminate. left. eauto.
Qed.
Print Assumptions C17_missing_pool_outcome.

(* the same declarations under three assignments of execution modes: one value, every schedule *)
Theorem C17_mode_transparent_on_the_rhombus :
  forall P, In P [cat_rhombus; cat_rhombus_modes_a; cat_rhombus_modes_b] ->
    forall sched r, forallb (act_ok false) sched = true -> main_state (run_sched P sched) = Some (TDone r) ->
      r = SVal (VNode 3 [(1, VNode 1 [(1, VNode 0 [(3, VInt 1)])]); (2, VNode 2 [(1, VNode 0 [(3, VInt 1)])])]).
Proof.
  intros P HP sched r Hs Hm.
  assert (HC : In P catalogue_clean) by (cbn [In] in HP; destruct HP as [<-|[<-|[<-|[]]]]; in_catalogue).
  pose proof (certified_outcome_without_cancel P sched r (in_clean_certified P HC) Hs Hm) as H.
  assert (E : ref_res P = ROk (VNode 3 [(1, VNode 1 [(1, VNode 0 [(3, VInt 1)])]); (2, VNode 2 [(1, VNode 0 [(3, VInt 1)])])])).
  { cbn [In] in HP. destruct HP as [<-|[<-|[<-|[]]]]; vm_compute; reflexivity. }
  unfold outcome_ok in H. rewrite E in H. destruct r as [|v| |e|e]; try discriminate.
  - apply value_seqb_sound in H. subst. reflexivity.
  - destruct e; discriminate.
Qed.
Print Assumptions C17_mode_transparent_on_the_rhombus.
