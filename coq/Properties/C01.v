(* C01 -- Run outcome equals the dataflow semantics and is schedule-independent.

   Reference semantics: Spec/Dataflow.v ([eval_output]: the declared graph evaluated as a pure dataflow program with the
   switch / one-of / recurrent / retry-default rules), independent of the engine model. [outcome_ok P c r] (Explore/Safe.v) says
   that the signal r with which PipelineChart.run ends is what the reference prescribes: the same value; or an error result
   whose exception is a root cause of the reference's failure; or a propagated BaseException
   that is a root cause; or, only when c = true, the caller's own CancelledError.

   Full statement:  C01_statement P := for every schedule without caller cancellation that ends the run with r, outcome_ok P false r.
   It is FALSE for some programs (known findings D9, D11, D12, D13, D17); proved here, kind E, for every program of the clean
   catalogue and EVERY schedule of unbounded length (certified exhaustive exploration); with caller cancellation allowed the
   only additional outcome is CancelledError. The fragment theorem (all plain DAGs) is not proved: outside the catalogue the
   property is decided on the implementation by the oracle against the extracted reference and by the correspondence check. *)
From MLPE Require Import Engine.Run Spec.Dataflow Proofs.ExecLemmas Explore.StateEq Explore.Erase Explore.Explorer Explore.Safe
     Catalogue.Programs Catalogue.Certified Proofs.CertLemmas.

Definition C01_statement (P : prog) : Prop :=
  forall sched r, forallb (act_ok false) sched = true -> main_state (run_sched P sched) = Some (TDone r) ->
                  outcome_ok P false r = true.

Theorem C01_catalogue : forall P, In P catalogue_clean -> C01_statement P.
Proof. intros P HP sched r Hs Hm. exact (certified_outcome_without_cancel P sched r (in_clean_certified P HP) Hs Hm). Qed.
Print Assumptions C01_catalogue.

(* schedule independence of the value: any two schedules that end the run with values end it with the reference's value *)
Theorem C01_value_is_schedule_independent :
  forall P, In P catalogue_clean ->
    forall s1 s2 v1 v2, forallb (act_ok false) s1 = true -> forallb (act_ok false) s2 = true ->
      main_state (run_sched P s1) = Some (TDone (SVal v1)) -> main_state (run_sched P s2) = Some (TDone (SVal v2)) ->
      v1 = v2 /\ ref_res P = ROk v1.
Proof.
  intros P HP s1 s2 v1 v2 H1 H2 M1 M2.
  pose proof (outcome_value P false v1 (C01_catalogue P HP s1 _ H1 M1)) as E1.
  pose proof (outcome_value P false v2 (C01_catalogue P HP s2 _ H2 M2)) as E2.
  rewrite E1 in E2. inversion E2. subst. split; [reflexivity|exact E1].
Qed.
Print Assumptions C01_value_is_schedule_independent.

(* a run that the reference evaluates to a value never ends with an error result or an exception, and vice versa *)
Theorem C01_verdict_is_schedule_independent :
  forall P, In P catalogue_clean ->
    forall sched r, forallb (act_ok false) sched = true -> main_state (run_sched P sched) = Some (TDone r) ->
      match ref_res P with
      | ROk v => r = SVal v
      | RFail _ => match r with SResErr _ | SThrow _ => True | _ => False end
      end.
Proof.
  intros P HP sched r Hs Hm. pose proof (C01_catalogue P HP sched r Hs Hm) as H. unfold outcome_ok in H.
  destruct (ref_res P) as [v|cs]; destruct r as [|v'| |e|e]; try discriminate; try exact I.
  - apply value_seqb_sound in H. subst. reflexivity.
  - destruct e; discriminate.
Qed.
Print Assumptions C01_verdict_is_schedule_independent.

(* with caller cancellation at any point of the schedule the only further outcome is the caller's CancelledError *)
Theorem C01_with_cancellation :
  forall P, In P catalogue_clean -> forall st r, reachable P st -> main_state st = Some (TDone r) -> outcome_ok P true r = true.
Proof.
  intros P HP st r Hr Hm. destruct (certified_facts P st (in_clean_certified P HP) Hr) as (_ & _ & H & _).
  unfold safe_outcome in H. rewrite Hm in H. exact H.
Qed.
Print Assumptions C01_with_cancellation.

(* non-vacuity: a concrete schedule of a catalogue program ends the run with the reference's value *)
Example C01_premises_satisfiable :
  In cat_rhombus catalogue_clean /\
  exists v, main_state (run_sched cat_rhombus [AQuiesce; AGate (GBody 0 0); AQuiesce; AGate (GBody 2 0); AGate (GBody 1 0); AQuiesce;
                                             AGate (GBody 3 0); AQuiesce]) = Some (TDone (SVal v)).
Proof. split; [in_catalogue|]. eexists. vm_compute. reflexivity. Qed.
