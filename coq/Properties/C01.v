(* C01 -- Run outcome equals the dataflow semantics and is schedule-independent.

   Reference semantics: Spec/Dataflow.v ([eval_output]: the declared graph evaluated as a pure dataflow program with the
   switch / one-of / recurrent / retry-default rules), independent of the engine model. [outcome_ok P c r] (Explore/Safe.v) says
   that the signal r with which PipelineChart.run ends is what the reference prescribes: the same value; or an error result
   whose exception is a root cause of the reference's failure; or a propagated BaseException
   that is a root cause; or, only when c = true, the caller's own CancelledError.

   Full statement:  C01_statement P := for every schedule without caller cancellation that ends the run with r, outcome_ok P false r.
   It is FALSE for some programs (known findings D9, D11, D12, D13, D17); proved here, kind E, for every program of the clean
   catalogue and EVERY schedule of unbounded length (certified exhaustive exploration); with caller cancellation allowed the
   only additional outcome is CancelledError.
   Kind F (below; Proofs/PlainValues.v, PlainOutcome.v): for ALL plain programs and ALL schedules (caller cancellation included)
   a value returned by run is the result stored for the output node while manager.run was pending; every stored result is the value
   the node's retry / default policy prescribes (the relation rr, whose closed form is C12's) for its body applied to the
   keyword arguments computed from the final results of its declared inputs; hence two schedules return the same value and store
   the same results. What kind F does NOT give: the identification of that prescribed value with Spec/Dataflow.eval_output (it
   needs the builder's correctness, C15), and the error outcomes (C05).
   Kind G (ALL programs, all schedules, event managers that do not raise; Proofs/StoreAll.v): run returns nothing that no node
   produced -- a value returned by run was stored as the output node's result (C01_returned_value_was_stored_for_the_output_node),
   every result in the storage was put there by a logged store operation.  Outside plain programs and the catalogue the rest of
   the property is decided on the implementation by the oracle against the extracted reference and by the correspondence check. *)
From MLPE Require Import Engine.Run Spec.Dataflow Proofs.ExecLemmas Explore.StateEq Explore.Erase Explore.Explorer Explore.Safe
     Catalogue.Programs Catalogue.Certified Proofs.CertLemmas.

Definition C01_statement (P : prog) : Prop :=
  forall sched r, forallb (act_ok false) sched = true -> main_state (run_sched P sched) = Some (TDone r) ->
                  outcome_ok P false r = true.

Theorem C01_catalogue : forall P, In P catalogue_clean -> C01_statement P.
Proof. intros P HP sched r Hs Hm. exact (certified_outcome_without_cancel P sched r (in_clean_certified P HP) Hs Hm). Qed.
Print Assumptions C01_catalogue.

(* schedule independence of the value: any two schedules that end the run with values end it with the reference's value *)
Theorem C01_value_is_schedule_independent :
  forall P, In P catalogue_clean ->
    forall s1 s2 v1 v2, forallb (act_ok false) s1 = true -> forallb (act_ok false) s2 = true ->
      main_state (run_sched P s1) = Some (TDone (SVal v1)) -> main_state (run_sched P s2) = Some (TDone (SVal v2)) ->
      v1 = v2 /\ ref_res P = ROk v1.
Proof.
  intros P HP s1 s2 v1 v2 H1 H2 M1 M2.
  pose proof (outcome_value P false v1 (C01_catalogue P HP s1 _ H1 M1)) as E1.
  pose proof (outcome_value P false v2 (C01_catalogue P HP s2 _ H2 M2)) as E2.
  rewrite E1 in E2. inversion E2. subst. split; [reflexivity|exact E1].
Qed.
Print Assumptions C01_value_is_schedule_independent.

(* a run that the reference evaluates to a value never ends with an error result or an exception, and vice versa *)
Theorem C01_verdict_is_schedule_independent :
  forall P, In P catalogue_clean ->
    forall sched r, forallb (act_ok false) sched = true -> main_state (run_sched P sched) = Some (TDone r) ->
      match ref_res P with
      | ROk v => r = SVal v
      | RFail _ => match r with SResErr _ | SThrow _ => True | _ => False end
      end.
Proof.
  intros P HP sched r Hs Hm. pose proof (C01_catalogue P HP sched r Hs Hm) as H. unfold outcome_ok in H.
  destruct (ref_res P) as [v|cs]; destruct r as [|v'| |e|e]; try discriminate; try exact I.
  - apply value_seqb_sound in H. subst. reflexivity.
  - destruct e; discriminate.
Qed.
Print Assumptions C01_verdict_is_schedule_independent.

(* with caller cancellation at any point of the schedule the only further outcome is the caller's CancelledError *)
Theorem C01_with_cancellation :
  forall P, In P catalogue_clean -> forall st r, reachable P st -> main_state st = Some (TDone r) -> outcome_ok P true r = true.
Proof.
  intros P HP st r Hr Hm. destruct (certified_facts P st (in_clean_certified P HP) Hr) as (_ & _ & H & _).
  unfold safe_outcome in H. rewrite Hm in H. exact H.
Qed.
Print Assumptions C01_with_cancellation.

(* non-vacuity: a concrete schedule of a catalogue program ends the run with the reference's value *)
Example C01_premises_satisfiable :
  In cat_rhombus catalogue_clean /\
  exists v, main_state (run_sched cat_rhombus [AQuiesce; AGate (GBody 0 0); AQuiesce; AGate (GBody 2 0); AGate (GBody 1 0); AQuiesce;
                                             AGate (GBody 3 0); AQuiesce]) = Some (TDone (SVal v)).
Proof. split; [in_catalogue|]. eexists. vm_compute. reflexivity. Qed.


(* ---- kind G: ALL programs, ALL schedules, event managers that do not raise ---------------------------------------------------- *)
From MLPE Require Import Proofs.StoreAll.

Theorem C01_returned_value_was_stored_for_the_output_node :
  forall P, (forall m ev n k, p_mgr_fault P m ev n k = false) ->
  forall st v, reachable P st -> main_state st = Some (TDone (SVal v)) ->
    In (OSetResult (b_output (build (p_decls P) (p_inp P) (p_out P))) v) (st_trace st).
Proof. exact returned_value_is_the_stored_result_of_the_output_all_programs. Qed.
Print Assumptions C01_returned_value_was_stored_for_the_output_node.

(* ---- kind F: ALL plain programs, ALL schedules ---------------------------------------------------------------------------------- *)
From MLPE Require Import Proofs.PlainWorld Proofs.PlainLive Proofs.PlainCore Proofs.PlainDeadlock Proofs.PlainArgs Proofs.PlainValues Proofs.PlainOutcome Proofs.Micro.

Theorem C01_on_plain_programs_the_value_is_schedule_independent :
  forall P, plain_prog P -> valid_orders P ->
    forall st1 st2 v1 v2, reachable P st1 -> main_state st1 = Some (TDone (SVal v1)) ->
                          reachable P st2 -> main_state st2 = Some (TDone (SVal v2)) -> v1 = v2.
Proof. intros P HP (V1 & _ & V3 & _). exact (plain_returned_value_is_schedule_independent P HP V1 V3). Qed.
Print Assumptions C01_on_plain_programs_the_value_is_schedule_independent.

Theorem C01_on_plain_programs_the_value_is_the_prescribed_one :
  forall P, plain_prog P -> valid_orders P ->
    forall st v, reachable P st -> main_state st = Some (TDone (SVal v)) ->
      exists st0 c0, creach P st0 c0 /\ pending st0 /\ okv P st0 (b_output (build (p_decls P) (p_inp P) (p_out P))) v /\
                     forall p, In p (preds (b_graph (build (p_decls P) (p_inp P) (p_out P))) (b_output (build (p_decls P) (p_inp P) (p_out P)))) ->
                               exists_result p (st_store st0) = true.
Proof. intros P HP (V1 & _ & V3 & _). exact (plain_returned_value_is_prescribed P HP V1). Qed.
Print Assumptions C01_on_plain_programs_the_value_is_the_prescribed_one.

Theorem C01_on_plain_programs_stored_results_are_schedule_independent :
  forall P, plain_prog P -> valid_orders P ->
    forall st1 st2, reachable P st1 -> pending st1 -> reachable P st2 -> pending st2 ->
      forall m, exists_result m (st_store st1) = true -> exists_result m (st_store st2) = true ->
                get_result m true (st_store st1) = get_result m true (st_store st2).
Proof. intros P HP (V1 & _ & V3 & _). exact (plain_results_are_schedule_independent P HP V1 V3). Qed.
Print Assumptions C01_on_plain_programs_stored_results_are_schedule_independent.

(* a run of the rhombus that ends with a value (so the theorems are not vacuous), under the first-gate-first schedule *)
Example C01_plain_not_vacuous :
  match main_state (auto_run cat_rhombus 40 init_state) with Some (TDone (SVal _)) => True | _ => False end.
Proof. vm_compute. exact I. Qed.
