(* C09 -- Switch-case runs exactly the selected branch and routes its value.

   Kind E, for the switch programs of the clean catalogue (plain switch, unknown label, shared selected case, failing selected
   case, nested switches) and every schedule incl. cancellation:
   - no node is executed more often than the reference executes it; the reference executes a case node only when its label is
     the value of the switch node (or when another consumer needs it), so nodes needed only by non-selected cases are NEVER
     executed, and a selected case shared with another consumer is executed ONCE;
   - the consumer's arguments are the reference's (the selected case's value) -- C03 on frames;
   - the outcome is the reference's: a label without a case ends the run with SwitchCaseDoesNotHaveBranchError, and the run never
     deadlocks (C02).
   Kind G (ALL programs -- switches anywhere, nested, inside candidates or recurrent subgraphs; any bodies, collaborators, order
   oracles --, EVERY schedule incl. cancellation; Proofs/SwitchAll.v, Proofs/ArgsAll.v):
     - C09_recorded_case_follows_the_label: whenever a case is recorded for a switch, it is the case the table of the switch
       gives for the recorded label (so: a label of a declared case; with duplicate labels the last declared, as the engine's
       dict), and that label is a value the decision node of the switch stored as its result in this run;
     - C09_consumer_receives_the_recorded_case: every body invocation gets, for a parameter bound to a switch, a value that was
       stored as the result of the case recorded for that switch (or None when that case has no result) -- and for every other
       parameter a value stored for the declared source.
   What these do NOT say: that the label is the decision node's value of the CURRENT iteration, and that non-selected cases are
   not executed on re-iteration (both false in general: known finding D12; kind E / correspondence elsewhere).
   FALSE in general: the full statement (known findings D11, D12). *)
From MLPE Require Import Engine.Run Spec.Dataflow Proofs.ExecLemmas Explore.StateEq Explore.Erase Explore.Explorer Explore.Safe
     Catalogue.Programs Catalogue.Certified Proofs.CertLemmas.

Definition C09_statement (P : prog) : Prop :=
  forall st, reachable P st ->
    (forall i, ctr_get (CBody i) st <= ref_invocations P i) /\ safe_kwargs P st = true /\ deadlocked st = false
    /\ (forall r, main_state st = Some (TDone r) -> outcome_ok P true r = true).

Theorem C09_catalogue : forall P, In P catalogue_clean -> C09_statement P.
Proof.
  intros P HP st Hr. destruct (certified_facts P st (in_clean_certified P HP) Hr) as (Hd & _ & Ho & Hc & Hk & _).
  split; [intros i; apply safe_counts_bound; exact Hc|]. split; [exact Hk|]. split; [exact Hd|].
  intros r Hm. unfold safe_outcome in Ho. rewrite Hm in Ho. exact Ho.
Qed.
Print Assumptions C09_catalogue.

(* the non-selected case of the plain switch is never executed, under any schedule *)
Theorem C09_non_selected_case_never_runs :
  forall st, reachable cat_switch st -> ctr_get (CBody 3) st = 0.
Proof.
  intros st Hr. assert (HP : In cat_switch catalogue_clean) by in_catalogue.
  destruct (C09_catalogue _ HP st Hr) as [H _]. specialize (H 3).
  replace (ref_invocations cat_switch 3) with 0 in H by (vm_compute; reflexivity). lia.
Qed.
Print Assumptions C09_non_selected_case_never_runs.

(* a label that matches no case: no case runs, and the run ends with the documented error under every schedule *)
Theorem C09_unknown_label_fails_the_run :
  forall sched r, forallb (act_ok false) sched = true -> main_state (run_sched cat_switch_unknown_label sched) = Some (TDone r) ->
    exists k, r = SResErr (XEng ESwitchNoBranch k).
Proof.
  intros sched r Hs Hm. assert (HP : In cat_switch_unknown_label catalogue_clean) by in_catalogue.
  pose proof (certified_outcome_without_cancel _ sched r (in_clean_certified _ HP) Hs Hm) as H.
  unfold outcome_ok in H. replace (ref_res cat_switch_unknown_label) with (RFail [CSwitch 4 0]) in H by (vm_compute; reflexivity).
  destruct r as [|v| |e|e]; try discriminate.
  - exfalso. destruct e as [c i a|ee k|k|k|]; cbn in H; try discriminate. destruct ee; discriminate.
  - destruct e as [c i a|ee k|k|k|]; cbn in H; try discriminate. destruct ee; try discriminate. eauto.
Qed.
Print Assumptions C09_unknown_label_fails_the_run.

(* ---- kind G: all programs, all schedules ------------------------------------------------------------------------------------ *)
From MLPE Require Import Proofs.Micro Proofs.SwitchAll Proofs.ArgsAll.

(* [get_switch n s]: the (label, case) the engine has recorded for switch n (_add_case_result); [switch_case_for P n lbl]: the case
   declared with label lbl; [switch_decider P n]: the decision node of n *)
Theorem C09_recorded_case_follows_the_label :
  forall P st, reachable P st ->
    forall n lbl c, get_switch n (st_store st) = Some (lbl, c) ->
      switch_case_for P n lbl = Some c /\ exists dn, switch_decider P n = Some dn /\ In (OSetResult dn lbl) (st_trace st).
Proof. exact switch_selection_follows_the_case_table_all_programs. Qed.
Print Assumptions C09_recorded_case_follows_the_label.

(* [gen_kwargs P n val ad]: the keyword arguments built for node n from the values [val p] of its declared sources p;
   [prov P b p v]: in the history b (what happened before the invocation) v was stored as the result of p or, when p is a switch,
   as the result of the case c recorded for p with a label lbl such that (p, lbl, c) is as in the theorem above *)
Theorem C09_consumer_receives_the_recorded_case :
  forall P st, reachable P st ->
    forall a b i k kw, st_trace st = a ++ OStart i k kw :: b ->
      exists n val ad, real_index n = i /\ gen_kwargs P n val ad = Some kw /\ (forall p v, val p = Some v -> prov P b p v) /\ ad_ok P b n ad.
Proof. exact arguments_come_from_the_declared_inputs_all_programs. Qed.
Print Assumptions C09_consumer_receives_the_recorded_case.

(* the premises occur: a complete run of the catalogue switch records the case labelled 2 = the decision node's value, and the
   consumer (node 4) is invoked with that case's value *)
Example C09_events_occur :
  let P := cat_switch in
  let st := run_sched P [AQuiesce; AGate (GBody 0 0); AQuiesce; AGate (GBody 1 0); AQuiesce; AGate (GBody 2 0); AQuiesce; AGate (GBody 4 0); AQuiesce] in
  get_switch (KSw 4 0) (st_store st) = Some (VStr 2, KN 2) /\
  switch_decider P (KSw 4 0) = Some (KN 1) /\
  existsb (fun o => match o with OStart 4 _ _ => true | _ => false end) (st_trace st) = true /\
  is_switch (b_graph (build (p_decls P) (p_inp P) (p_out P))) (KSw 4 0) = true.
Proof. vm_compute. repeat split; reflexivity. Qed.
