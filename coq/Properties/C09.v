(* C09 -- Switch-case runs exactly the selected branch and routes its value.

   Kind E, for the switch programs of the clean catalogue (plain switch, unknown label, shared selected case, failing selected
   case, nested switches) and every schedule incl. cancellation:
   - no node is executed more often than the reference executes it; the reference executes a case node only when its label is
     the value of the switch node (or when another consumer needs it), so nodes needed only by non-selected cases are NEVER
     executed, and a selected case shared with another consumer is executed ONCE;
   - the consumer's arguments are the reference's (the selected case's value) -- C03 on frames;
   - the outcome is the reference's: a label without a case ends the run with SwitchCaseDoesNotHaveBranchError, and the run never
     deadlocks (C02).
   FALSE in general (known findings D11, D12). The fragment theorem over all switch programs is not proved. *)
From MLPE Require Import Engine.Run Spec.Dataflow Proofs.ExecLemmas Explore.StateEq Explore.Erase Explore.Explorer Explore.Safe
     Catalogue.Programs Catalogue.Certified Proofs.CertLemmas.

Definition C09_statement (P : prog) : Prop :=
  forall st, reachable P st ->
    (forall i, ctr_get (CBody i) st <= ref_invocations P i) /\ safe_kwargs P st = true /\ deadlocked st = false
    /\ (forall r, main_state st = Some (TDone r) -> outcome_ok P true r = true).

Theorem C09_catalogue : forall P, In P catalogue_clean -> C09_statement P.
Proof.
  intros P HP st Hr. destruct (certified_facts P st (in_clean_certified P HP) Hr) as (Hd & _ & Ho & Hc & Hk & _).
  split; [intros i; apply safe_counts_bound; exact Hc|]. split; [exact Hk|]. split; [exact Hd|].
  intros r Hm. unfold safe_outcome in Ho. rewrite Hm in Ho. exact Ho.
Qed.
Print Assumptions C09_catalogue.

(* the non-selected case of the plain switch is never executed, under any schedule *)
Theorem C09_non_selected_case_never_runs :
  forall st, reachable cat_switch st -> ctr_get (CBody 3) st = 0.
Proof.
  intros st Hr. assert (HP : In cat_switch catalogue_clean) by in_catalogue.
  destruct (C09_catalogue _ HP st Hr) as [H _]. specialize (H 3).
  replace (ref_invocations cat_switch 3) with 0 in H by (vm_compute; reflexivity). lia.
Qed.
Print Assumptions C09_non_selected_case_never_runs.

(* a label that matches no case: no case runs, and the run ends with the documented error under every schedule *)
Theorem C09_unknown_label_fails_the_run :
  forall sched r, forallb (act_ok false) sched = true -> main_state (run_sched cat_switch_unknown_label sched) = Some (TDone r) ->
    exists k, r = SResErr (XEng ESwitchNoBranch k).
Proof.
  intros sched r Hs Hm. assert (HP : In cat_switch_unknown_label catalogue_clean) by in_catalogue.
  pose proof (certified_outcome_without_cancel _ sched r (in_clean_certified _ HP) Hs Hm) as H.
  unfold outcome_ok in H. replace (ref_res cat_switch_unknown_label) with (RFail [CSwitch 4 0]) in H by (vm_compute; reflexivity).
  destruct r as [|v| |e|e]; try discriminate.
  - exfalso. destruct e as [c i a|ee k|k|k|]; cbn in H; try discriminate. destruct ee; discriminate.
  - destruct e as [c i a|ee k|k|k|]; cbn in H; try discriminate. destruct ee; try discriminate. eauto.
Qed.
Print Assumptions C09_unknown_label_fails_the_run.
