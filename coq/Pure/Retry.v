(* The retry / default policy of __execute_node (dag/manager.py) and NodeRetryPolicy (node/retrying.py).
   [retry_decide] is the decision taken after one body invocation; Engine/Manager.v uses this very function in
   the frame FRetryAfterBody, so what is proved here about the loop is about the engine model by construction. *)
From MLPE Require Export Pure.Builder.

(* NodeRetryPolicy: attempts or 1, delay or 0, exceptions or (Exception,)  -- Python's `or` takes the default for
   None and for a falsy value (0, empty tuple). The defaults are re-derived from the source into gen/Tables.v
   and compared in Proofs/TablesOk.v. *)
Definition pol_attempts (nd : nspec) : Z :=
  match ns_attempts nd with Some a => if Z.eqb a 0 then 1%Z else a | None => 1%Z end.
Definition pol_delay (nd : nspec) : nat := match ns_delay nd with Some d => d | None => 0 end.
Definition pol_excs (nd : nspec) : list exc_cls :=
  match ns_excs nd with Some [] => [EExc] | Some l => l | None => [EExc] end.
Definition exc_matches (c : exc_cls) (l : list exc_cls) : bool := existsb (issub c) l.

Inductive rdecision :=
| RDReturn (v : value)            (* the body returned: that is the node's value *)
| RDFinal (c : exc_cls)           (* no (more) retry: get_default if use_default, else raise *)
| RDRetry (c : exc_cls)           (* emit on_node_complete(error), sleep(delay), invoke again *)
| RDPropagate (c : exc_cls).      (* neither `except exceptions` nor `except Exception` matches *)

(* att = n_attempts, counted from 1 *)
Definition retry_decide (nd : nspec) (oc : outcome) (att : nat) : rdecision :=
  match oc with
  | OVal v => RDReturn v
  | ORaise c =>
    if exc_matches c (pol_excs nd) then
      if Z.eqb (Z.of_nat att) (pol_attempts nd) then RDFinal c else RDRetry c
    else if issub c EExc then RDFinal c
         else RDPropagate c
  end.

(* What the loop does, as the sequence of things it invokes. *)
Inductive revent :=
| RBody (att : nat)                    (* run_node with the kwargs, attempt att *)
| REmitFail (att : nat) (c : exc_cls)  (* emit_on_node_complete(error) of a failed, non-final attempt *)
| RSleep (d : nat)                     (* asyncio.sleep(delay) *)
| RDefault.                            (* run_node_default with the kwargs *)

Inductive rresult :=
| RRVal (v : value)
| RRDefault
| RRRaise (c : exc_cls) (att : nat).

(* The loop `while True` of __execute_node for one execution, bodies given by their outcome per attempt
   (o a = outcome of attempt a, 1-based). Fuel only makes the definition structural; [retry_run_terminates]
   shows [Z.to_nat attempts] is enough whenever attempts >= 1. None = out of fuel. *)
Fixpoint retry_run (fuel : nat) (nd : nspec) (o : nat -> outcome) (att : nat) : list revent * option rresult :=
  match fuel with
  | O => ([], None)
  | S f =>
    match retry_decide nd (o att) att with
    | RDReturn v => ([RBody att], Some (RRVal v))
    | RDFinal c => if ns_default nd then ([RBody att; RDefault], Some RRDefault)
                   else ([RBody att], Some (RRRaise c att))
    | RDPropagate c => ([RBody att], Some (RRRaise c att))
    | RDRetry c =>
      let '(log, r) := retry_run f nd o (S att) in
      (RBody att :: REmitFail att c :: RSleep (pol_delay nd) :: log, r)
    end
  end.

(* ---- the closed form the property states -------------------------------------------------- *)
(* an attempt is "retryable" if it raises a class matching the configured exceptions *)
Definition retryable (nd : nspec) (oc : outcome) : bool :=
  match oc with ORaise c => exc_matches c (pol_excs nd) | OVal _ => false end.

(* stopping attempt: the least j in [from, a] whose outcome is not retryable, else a *)
Fixpoint stop_at (n : nat) (nd : nspec) (o : nat -> outcome) (from : nat) : nat :=
  match n with
  | O => from
  | S m => if retryable nd (o from) then stop_at m nd o (S from) else from
  end.

Definition final_result (nd : nspec) (oc : outcome) (att : nat) : rresult :=
  match oc with
  | OVal v => RRVal v
  | ORaise c => if exc_matches c (pol_excs nd) || issub c EExc
                then (if ns_default nd then RRDefault else RRRaise c att)
                else RRRaise c att
  end.

Definition exc_of (oc : outcome) : exc_cls := match oc with ORaise c => c | OVal _ => EExc end.

Definition closed_log (nd : nspec) (o : nat -> outcome) (j : nat) : list revent :=
  flat_map (fun a => [RBody a; REmitFail a (exc_of (o a)); RSleep (pol_delay nd)]) (seq 1 (j - 1))
  ++ [RBody j]
  ++ match final_result nd (o j) j with RRDefault => [RDefault] | _ => [] end.
