(* Model of ml_pipeline_viewer/visualization/dag.py : GraphConfigImpl.generate (after the D16 repair). *)
From Coq Require Import String Ascii.
From MLPE Require Import Base.Graph gen.Tables Pure.FsStore.
Local Open Scope list_scope.

(* ---- NodeType.by_prefix over the regenerated member table ---------------------------------------------- *)
Fixpoint prefixb (p s : str) : bool :=
  match p, s with
  | [], _ => true
  | x :: p', y :: s' => Nat.eqb x y && prefixb p' s'
  | _ :: _, [] => false
  end.

Definition node_type_values : list str := map (fun p => codes (snd p)) node_type_members.

(* for item in cls: if value.startswith(item): return item *)
Definition by_prefix (id : str) : option str := find (fun m => prefixb m id) node_type_values.

Definition switch_prefix : str := codes "switch__"%string.
Definition oneof_prefix : str := codes "input_one_of__"%string.

(* ---- the description ----------------------------------------------------------------------------------- *)
Inductive vtype := VTSwitch | VTOneOf | VTDeclared (t : nat) | VTNone.   (* declared: interned type string *)

Record ninfo := { ni_name : nat; ni_verbose : nat; ni_type : option nat; ni_doc : option nat; ni_generic : bool }.

Record vnode := { vn_id : key; vn_virtual : bool; vn_generic : bool; vn_type : vtype;
                  vn_data : option (nat * nat * option nat) }.      (* name, verbose_name, doc *)
Record vedge := { ve_source : key; ve_target : key }.

Definition synthetic_type (k : key) : vtype := match k with KSw _ _ => VTSwitch | KOo _ _ => VTOneOf | KN _ => VTNone end.

Definition gen_node (node_map : list nat) (info : nat -> ninfo) (k : key) : vnode :=
  match k with
  | KN i =>
    if mem Nat.eqb i node_map then
      let d := info i in
      {| vn_id := k; vn_virtual := false; vn_generic := ni_generic d;
         vn_type := match ni_type d with Some t => VTDeclared t | None => VTNone end;
         vn_data := Some (ni_name d, ni_verbose d, ni_doc d) |}
    else {| vn_id := k; vn_virtual := true; vn_generic := false; vn_type := synthetic_type k; vn_data := None |}
  | _ => {| vn_id := k; vn_virtual := true; vn_generic := false; vn_type := synthetic_type k; vn_data := None |}
  end.

Definition vtype_eqb (a b : vtype) : bool :=
  match a, b with
  | VTSwitch, VTSwitch | VTOneOf, VTOneOf | VTNone, VTNone => true
  | VTDeclared x, VTDeclared y => Nat.eqb x y
  | _, _ => false
  end.

Record vconfig := { vc_nodes : list vnode; vc_edges : list vedge; vc_types : list vtype }.

Definition generate (g : graph) (node_map : list nat) (info : nat -> ninfo) : vconfig :=
  let ns := map (gen_node node_map info) (node_keys g) in
  {| vc_nodes := ns;
     vc_edges := map (fun e => {| ve_source := fst (fst e); ve_target := snd (fst e) |}) (g_edges g);
     (* _generate_node_types: first occurrence of every type that is not None *)
     vc_types := fold_left (fun acc n => match vn_type n with
                                         | VTNone => acc
                                         | t => if mem vtype_eqb t acc then acc else acc ++ [t]
                                         end) ns [] |}.
