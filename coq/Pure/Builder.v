(* Model of dag_builders/annotation/builder.py : AnnotationDAGBuilder.build *)
From MLPE Require Export Base.Graph.

Inductive mark :=
| MIn (m : nat)
| MSw (d : nat) (cases : list (nat * nat))     (* decider, [(label id, case node)] *)
| MOneOf (cs : list nat)
| MRec (s d : nat) (maxit : nat).

Inductive mode := MGated | MImmediate | MInline | MThread | MProcess.

Record nspec := {
  ns_params : list (pname * mark);
  ns_mode : mode;
  ns_attempts : option Z;
  ns_delay : option nat;            (* tenths of a second *)
  ns_excs : option (list exc_cls);
  ns_default : bool                 (* use_default *)
}.

Definition decls := list nspec.

Record built := {
  b_graph : graph;
  b_map : list nat;                 (* node_map: real node indices *)
  b_recs : list (key * key);        (* (start, dest) pairs *)
  b_synth : list key;
  b_input : key;
  b_output : key;
  b_pop : list nat                  (* traversal (validation) order *)
}.

Definition visit (m : nat) (st : list nat * list nat) : list nat * list nat :=
  let '(stack, visited) := st in
  if mem Nat.eqb m visited then st else (m :: stack, visited ++ [m]).

Definition map_add (m : nat) (l : list nat) : list nat := add_set Nat.eqb m l.

Record bstate := { bs_g : graph; bs_map : list nat; bs_recs : list (key * key); bs_synth : list key;
                   bs_sv : list nat * list nat;      (* (stack, visited) *)
                   bs_pop : list nat }.               (* nodes in the order they were popped and validated *)

Definition set_kw (p : pname) (a : eattr) : eattr :=
  {| ea_kwarg := Some p; ea_is_switch := ea_is_switch a; ea_case := ea_case a |}.
Definition set_issw (a : eattr) : eattr :=
  {| ea_kwarg := ea_kwarg a; ea_is_switch := true; ea_case := ea_case a |}.
Definition set_case (l : nat) (a : eattr) : eattr :=
  {| ea_kwarg := ea_kwarg a; ea_is_switch := ea_is_switch a; ea_case := Some l |}.

Definition apply_mark (inp cur : nat) (idx : nat) (p : pname) (mk : mark) (b : bstate) : bstate :=
  match mk with
  | MRec s d mx =>
    let g1 := add_node (KN d) (fun a => {| na_switch := na_switch a; na_head := na_head a; na_child := na_child a;
                                           na_cands := na_cands a; na_start := Some (KN s); na_maxit := Some mx |}) (bs_g b) in
    let g2 := add_edge (KN d) (KN cur) (set_kw p) g1 in
    {| bs_g := g2; bs_map := map_add d (bs_map b); bs_recs := bs_recs b ++ [(KN s, KN d)];
       bs_synth := bs_synth b; bs_sv := visit d (bs_sv b); bs_pop := bs_pop b |}
  | MOneOf cs =>
    let h := KOo cur idx in
    let g1 := add_node h (fun a => {| na_switch := na_switch a; na_head := true; na_child := na_child a;
                                      na_cands := map KN cs; na_start := na_start a; na_maxit := na_maxit a |}) (bs_g b) in
    let g2 := add_edge (KN inp) h (fun a => a) g1 in
    let step (acc : graph * list nat * (list nat * list nat)) (c : nat) :=
        let '(g, mp, sv) := acc in
        let g' := add_node (KN c) (fun a => {| na_switch := na_switch a; na_head := na_head a; na_child := true;
                                               na_cands := na_cands a; na_start := na_start a; na_maxit := na_maxit a |}) g in
        (add_edge (KN c) h (fun a => a) g', map_add c mp, visit c sv) in
    let '(g3, mp3, sv3) := fold_left step cs (g2, bs_map b, bs_sv b) in
    let g4 := add_edge h (KN cur) (set_kw p) g3 in
    {| bs_g := g4; bs_map := mp3; bs_recs := bs_recs b; bs_synth := bs_synth b ++ [h]; bs_sv := sv3; bs_pop := bs_pop b |}
  | MIn m =>
    {| bs_g := add_edge (KN m) (KN cur) (set_kw p) (bs_g b); bs_map := map_add m (bs_map b);
       bs_recs := bs_recs b; bs_synth := bs_synth b; bs_sv := visit m (bs_sv b); bs_pop := bs_pop b |}
  | MSw d cases =>
    let sw := KSw cur idx in
    let g1 := add_node sw (fun a => {| na_switch := true; na_head := na_head a; na_child := na_child a;
                                       na_cands := na_cands a; na_start := na_start a; na_maxit := na_maxit a |}) (bs_g b) in
    let g2 := add_edge (KN d) sw set_issw g1 in
    let step (acc : graph * list nat * (list nat * list nat)) (lc : nat * nat) :=
        let '(g, mp, sv) := acc in
        (add_edge (KN (snd lc)) sw (set_case (fst lc)) g, map_add (snd lc) mp, visit (snd lc) sv) in
    let '(g3, mp3, sv3) := fold_left step cases (g2, map_add d (bs_map b), visit d (bs_sv b)) in
    let g4 := add_edge sw (KN cur) (set_kw p) g3 in
    {| bs_g := g4; bs_map := mp3; bs_recs := bs_recs b; bs_synth := bs_synth b ++ [sw]; bs_sv := sv3; bs_pop := bs_pop b |}
  end.

Fixpoint apply_marks (inp cur idx : nat) (ps : list (pname * mark)) (b : bstate) : bstate :=
  match ps with
  | [] => b
  | (p, mk) :: r => apply_marks inp cur (S idx) r (apply_mark inp cur idx p mk b)
  end.

Definition visit_node (ds : decls) (inp cur : nat) (b : bstate) : bstate :=
  let params := match nth_opt ds cur with Some nd => ns_params nd | None => [] end in
  let b1 := {| bs_g := bs_g b; bs_map := map_add cur (bs_map b); bs_recs := bs_recs b; bs_synth := bs_synth b;
               bs_sv := bs_sv b; bs_pop := bs_pop b |} in
  let b2 := match params with
            | [] => if Nat.eqb inp cur then b1
                    else {| bs_g := add_edge (KN inp) (KN cur) (fun a => a) (bs_g b1); bs_map := bs_map b1;
                            bs_recs := bs_recs b1; bs_synth := bs_synth b1; bs_sv := visit inp (bs_sv b1);
                            bs_pop := bs_pop b1 |}
            | _ => b1
            end in
  apply_marks inp cur 0 params b2.

(* the while-stack loop; every node is pushed at most once, so [length ds + 1] rounds suffice *)
Fixpoint build_loop (fuel : nat) (ds : decls) (inp : nat) (b : bstate) : bstate :=
  match fuel with
  | O => b
  | S f =>
    match fst (bs_sv b) with
    | [] => b
    | cur :: rest =>
      let b' := {| bs_g := bs_g b; bs_map := bs_map b; bs_recs := bs_recs b; bs_synth := bs_synth b;
                   bs_sv := (rest, snd (bs_sv b)); bs_pop := bs_pop b ++ [cur] |} in
      build_loop f ds inp (visit_node ds inp cur b')
    end
  end.

Definition build (ds : decls) (inp out : nat) : built :=
  let b0 := {| bs_g := graph0; bs_map := [inp]; bs_recs := []; bs_synth := []; bs_sv := ([out], [out]); bs_pop := [] |} in
  let b := if Nat.eqb inp out
           then {| bs_g := touch_node (KN inp) graph0; bs_map := [inp]; bs_recs := []; bs_synth := [];
                   bs_sv := ([], []); bs_pop := [] |}
           else build_loop (S (length ds)) ds inp b0 in
  {| b_graph := bs_g b; b_map := bs_map b; b_recs := bs_recs b; b_synth := bs_synth b;
     b_input := KN inp; b_output := KN out; b_pop := bs_pop b |}.
