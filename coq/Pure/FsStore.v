(* Model of artifact_store/store/filesystem.py (FileSystemArtifactStore) after the D14 repair:
   a directory tree as a finite map from (context, file name) to file content, and the abstract
   write-once map it refines. Node ids are arbitrary strings (lists of character codes). *)
From Coq Require Import String Ascii.
From MLPE Require Import Base.Util gen.Tables.
Local Open Scope list_scope.

Definition str := list nat.                     (* character codes *)
Fixpoint codes (s : string) : str :=
  match s with EmptyString => [] | String c r => nat_of_ascii c :: codes r end.

Definition dot : nat := 46.

Inductive fmt := FPickle | FJson.
Definition fmt_eqb (a b : fmt) : bool := match a, b with FPickle, FPickle | FJson, FJson => true | _, _ => false end.

(* the extensions are the values of DataFormat in /repo's artifact_store/enums.py (regenerated table) *)
Definition ext_of_table (name : string) : str :=
  match find (fun p => String.eqb (fst p) name) data_format_members with
  | Some p => codes (snd p)
  | None => []
  end.
Definition ext (f : fmt) : str := match f with FPickle => ext_of_table "PICKLE"%string | FJson => ext_of_table "JSON"%string end.
Definition all_fmts : list fmt := [FPickle; FJson].       (* iteration order of `for fmt in DataFormat` *)

Fixpoint str_eqb (a b : str) : bool :=
  match a, b with
  | [], [] => true
  | x :: a', y :: b' => Nat.eqb x y && str_eqb a' b'
  | _, _ => false
  end.

Definition fname (i : str) (f : fmt) : str := i ++ dot :: ext f.

(* pathlib's suffix: what follows the last dot of the name *)
Fixpoint after_last_dot (s : str) (acc : option str) : option str :=
  match s with
  | [] => acc
  | c :: r => if Nat.eqb c dot then after_last_dot r (Some r) else after_last_dot r acc
  end.
Definition fmt_of_ext (e : str) : option fmt := find (fun f => str_eqb (ext f) e) all_fmts.

(* values and serialisers: which values a format can represent is all that matters *)
Inductive aval := AGood (n : nat) | APickleOnly (n : nat) | AUnserialisable (n : nat).
Definition content := (fmt * aval)%type.         (* what dump wrote: loading with the same serialiser returns the value *)
Definition dump (f : fmt) (v : aval) : option content :=
  match v, f with
  | AGood _, _ => Some (f, v)
  | APickleOnly _, FPickle => Some (f, v)
  | _, _ => None
  end.
Definition undump (f : fmt) (c : content) : option aval := if fmt_eqb f (fst c) then Some (snd c) else None.

Definition path := (nat * str)%type.             (* (context directory, file name) *)
Definition path_eqb (a b : path) : bool := Nat.eqb (fst a) (fst b) && str_eqb (snd a) (snd b).
Definition fs := list (path * content).

Inductive op := OpSave (ctx : nat) (i : str) (f : fmt) (v : aval) | OpLoad (ctx : nat) (i : str).
Inductive opres := RSaved | RAlreadyExists | RDumpFailed | RLoaded (v : aval) | RDoesNotExist | RLoadBroken.

(* _get_glob after the repair: the exact candidate names that exist, in DataFormat order *)
Definition candidates (d : fs) (ctx : nat) (i : str) : list path :=
  filter (fun p => match alookup path_eqb p d with Some _ => true | None => false end)
         (map (fun f => (ctx, fname i f)) all_fmts).

Definition step (d : fs) (o : op) : fs * opres :=
  match o with
  | OpSave ctx i f v =>
    match candidates d ctx i with
    | _ :: _ => (d, RAlreadyExists)
    | [] =>
      (* the file is opened (created) and dump is called; on failure the file is removed again *)
      match dump f v with
      | Some c => (aset path_eqb (ctx, fname i f) c d, RSaved)
      | None => (aremove path_eqb (ctx, fname i f) d, RDumpFailed)
      end
    end
  | OpLoad ctx i =>
    match candidates d ctx i with
    | [] => (d, RDoesNotExist)
    | p :: _ =>
      match alookup path_eqb p d, after_last_dot (snd p) None with
      | Some c, Some e =>
        match fmt_of_ext e with
        | Some f => match undump f c with Some v => (d, RLoaded v) | None => (d, RLoadBroken) end
        | None => (d, RLoadBroken)
        end
      | _, _ => (d, RLoadBroken)
      end
    end
  end.

(* ---- the abstract write-once map --------------------------------------------------------------- *)
Definition akey := (nat * str)%type.             (* (context = (model name, pipeline id), node id) *)
Definition amap := list (akey * aval).

Definition astep (m : amap) (o : op) : amap * opres :=
  match o with
  | OpSave ctx i f v =>
    match alookup path_eqb (ctx, i) m with
    | Some _ => (m, RAlreadyExists)
    | None => match dump f v with
              | Some _ => (aset path_eqb (ctx, i) v m, RSaved)
              | None => (m, RDumpFailed)
              end
    end
  | OpLoad ctx i =>
    match alookup path_eqb (ctx, i) m with
    | Some v => (m, RLoaded v)
    | None => (m, RDoesNotExist)
    end
  end.

Fixpoint run_ops {S} (f : S -> op -> S * opres) (s : S) (ops : list op) : S * list opres :=
  match ops with
  | [] => (s, [])
  | o :: r => let '(s1, x) := f s o in let '(s2, xs) := run_ops f s1 r in (s2, x :: xs)
  end.
