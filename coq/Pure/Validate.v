(* Model of the build-time validation in dag_builders/annotation/builder.py (validate_node, _get_input_marks_map,
   _validate_graph). What Python introspection decides about a class is abstracted into per-node defect flags;
   the order in which nodes are examined is the traversal order of the builder model (b_pop). *)
From MLPE Require Export Pure.Builder.

Inductive berr :=
| EIncorrectTypeClass | EIncorrectBaseClass | ERunMethodExpected
| EUndefinedAnnotation | EUndefinedParamAnnotation | ENonRedefinedGeneric
| EIncorrectRecurrentMixin | EIncorrectParamsRecurrentNode.

Record defects := {
  df_not_class : bool;            (* the "node" is not a class *)
  df_no_base : bool;              (* NodeBase is not among its bases *)
  df_no_process : bool;           (* no callable process *)
  df_no_annotations : bool;       (* process has parameters but no annotations at all *)
  df_unannotated_param : bool;    (* some parameter without annotation (and no default) *)
  df_generic : bool;              (* a parameter is still an InputGeneric mark *)
  df_no_rec_protocol : bool;      (* (as a recurrent destination) RecurrentProtocol is not among its bases *)
  df_no_additional_data : bool    (* (as a recurrent start) process has no additional_data parameter *)
}.
Definition no_defects : defects :=
  {| df_not_class := false; df_no_base := false; df_no_process := false; df_no_annotations := false;
     df_unannotated_param := false; df_generic := false; df_no_rec_protocol := false; df_no_additional_data := false |}.

(* validate_node + _get_input_marks_map for one class, in the engine's order of checks *)
Definition node_error (d : defects) : option berr :=
  if df_not_class d then Some EIncorrectTypeClass
  else if df_no_base d then Some EIncorrectBaseClass
  else if df_no_process d then Some ERunMethodExpected
  else if df_no_annotations d then Some EUndefinedAnnotation
  else if df_unannotated_param d then Some EUndefinedParamAnnotation
  else if df_generic d then Some ENonRedefinedGeneric
  else None.

Definition real_of (k : key) : option nat := match k with KN i => Some i | _ => None end.

Section Validate.
  Variable ds : decls.
  Variable flags : nat -> defects.
  Variable inp out : nat.

  Definition first_some {A B} (f : A -> option B) (l : list A) : option B :=
    fold_right (fun x acc => match f x with Some e => Some e | None => acc end) None l.

  Definition validate : option berr :=
    let B := build ds inp out in
    match first_some (fun i => node_error (flags i)) (b_pop B) with
    | Some e => Some e
    | None =>
      match first_some (fun sd => match real_of (snd sd) with
                                  | Some d => if df_no_rec_protocol (flags d) then Some EIncorrectRecurrentMixin else None
                                  | None => None
                                  end) (b_recs B) with
      | Some e => Some e
      | None =>
        first_some (fun sd => match real_of (fst sd) with
                              | Some s => if df_no_additional_data (flags s) then Some EIncorrectParamsRecurrentNode else None
                              | None => None
                              end) (b_recs B)
      end
    end.
End Validate.
