(* C15: every declared parameter of every node the output needs gets its own dependency delivering to that
   parameter name, and nothing the builder does later drops, re-targets or merges it. *)
From MLPE Require Import Pure.Builder Proofs.AssocLemmas Proofs.TraversalProofs.

Lemma edge_eqb_spec a b : edge_eqb a b = true <-> a = b.
Proof.
  destruct a as [u v], b as [u' v']. unfold edge_eqb. simpl.
  rewrite andb_true_iff, !key_eqb_spec. split; [intros [-> ->]; reflexivity|intros H; inversion H; auto].
Qed.

Definition edge_attr (g : graph) (u v : key) : option eattr := alookup edge_eqb (u, v) (g_edges g).

Lemma add_node_edges k f g : g_edges (add_node k f g) = g_edges g.
Proof. reflexivity. Qed.

Lemma add_edge_same u v f g :
  edge_attr (add_edge u v f g) u v = Some (f (match edge_attr g u v with Some a => a | None => eattr0 end)).
Proof. unfold edge_attr, add_edge. simpl. apply (alookup_aset_same edge_eqb edge_eqb_spec). Qed.

Lemma add_edge_other u v f g u' v' : (u', v') <> (u, v) -> edge_attr (add_edge u v f g) u' v' = edge_attr g u' v'.
Proof. intros H. unfold edge_attr, add_edge. simpl. apply (alookup_aset_other edge_eqb edge_eqb_spec). exact H. Qed.

(* the keys that only the translation of node [cur] writes edges into *)
Definition own (cur : nat) (k : key) : Prop :=
  match k with KN i => i = cur | KSw i _ => i = cur | KOo i _ => i = cur end.

(* ---- frame: translating node cur only touches edges into keys owned by cur ---------------------------- *)
Lemma apply_mark_frame inp cur idx p mk b u v :
  ~ own cur v -> edge_attr (bs_g (apply_mark inp cur idx p mk b)) u v = edge_attr (bs_g b) u v.
Proof.
  intros Hv. destruct mk as [m | d cases | cs | s d mx]; simpl.
  - apply add_edge_other. intros E. inversion E; subst. apply Hv. reflexivity.
  - set (sw := KSw cur idx).
    set (step := fun (acc : graph * list nat * (list nat * list nat)) (lc : nat * nat) =>
                   let '(g, mp, sv) := acc in
                   (add_edge (KN (snd lc)) sw (set_case (fst lc)) g, map_add (snd lc) mp, visit (snd lc) sv)).
    assert (H : forall cases g mp sv, edge_attr (fst (fst (fold_left step cases (g, mp, sv)))) u v = edge_attr g u v).
    { induction cases0 as [|[l c] r IH]; intros g mp sv; simpl; [reflexivity|]. rewrite IH.
      apply add_edge_other. intros E. inversion E; subst. apply Hv. reflexivity. }
    match goal with |- context [fold_left ?f cases ?a] => change f with step; destruct (fold_left step cases a) as [[g3 mp3] sv3] eqn:E end.
    simpl. rewrite add_edge_other by (intros E'; inversion E'; subst; apply Hv; reflexivity).
    match type of E with fold_left step cases (?g, ?mp, ?sv) = _ => specialize (H cases g mp sv) end.
    rewrite E in H. simpl in H. rewrite H.
    rewrite add_edge_other by (intros E'; inversion E'; subst; apply Hv; reflexivity). reflexivity.
  - set (h := KOo cur idx).
    set (step := fun (acc : graph * list nat * (list nat * list nat)) (c : nat) =>
                   let '(g, mp, sv) := acc in
                   let g' := add_node (KN c) (fun a => {| na_switch := na_switch a; na_head := na_head a; na_child := true;
                                                          na_cands := na_cands a; na_start := na_start a; na_maxit := na_maxit a |}) g in
                   (add_edge (KN c) h (fun a => a) g', map_add c mp, visit c sv)).
    assert (H : forall cs g mp sv, edge_attr (fst (fst (fold_left step cs (g, mp, sv)))) u v = edge_attr g u v).
    { induction cs0 as [|c r IH]; intros g mp sv; simpl; [reflexivity|]. rewrite IH.
      rewrite add_edge_other by (intros E; inversion E; subst; apply Hv; reflexivity). reflexivity. }
    match goal with |- context [fold_left ?f cs ?a] => change f with step; destruct (fold_left step cs a) as [[g3 mp3] sv3] eqn:E end.
    simpl. rewrite add_edge_other by (intros E'; inversion E'; subst; apply Hv; reflexivity).
    match type of E with fold_left step cs (?g, ?mp, ?sv) = _ => specialize (H cs g mp sv) end.
    rewrite E in H. simpl in H. rewrite H.
    rewrite add_edge_other by (intros E'; inversion E'; subst; apply Hv; reflexivity). reflexivity.
  - rewrite add_edge_other by (intros E; inversion E; subst; apply Hv; reflexivity). reflexivity.
Qed.

Lemma apply_marks_frame inp cur ps u v : forall idx b,
  ~ own cur v -> edge_attr (bs_g (apply_marks inp cur idx ps b)) u v = edge_attr (bs_g b) u v.
Proof.
  induction ps as [|[p mk] r IH]; intros idx b Hv; simpl; [reflexivity|].
  rewrite IH by exact Hv. apply apply_mark_frame. exact Hv.
Qed.

Lemma visit_node_frame ds inp cur b u v :
  ~ own cur v -> edge_attr (bs_g (visit_node ds inp cur b)) u v = edge_attr (bs_g b) u v.
Proof.
  intros Hv. unfold visit_node. rewrite apply_marks_frame by exact Hv.
  destruct (match nth_opt ds cur with Some nd => ns_params nd | None => [] end); simpl; [|reflexivity].
  destruct (Nat.eqb inp cur); simpl; [reflexivity|].
  apply add_edge_other. intros E. inversion E; subst. apply Hv. reflexivity.
Qed.

(* ---- what translating node cur establishes for its own plain / recurrent parameters ----------------------- *)
(* the real source node of a parameter, when the dependency comes straight from a real node *)
Definition direct_source (mk : mark) : option nat :=
  match mk with MIn m => Some m | MRec _ d _ => Some d | _ => None end.

Lemma apply_mark_other_source inp cur idx p mk b src :
  direct_source mk <> Some src ->
  edge_attr (bs_g (apply_mark inp cur idx p mk b)) (KN src) (KN cur) = edge_attr (bs_g b) (KN src) (KN cur).
Proof.
  intros Hs. destruct mk as [m | d cases | cs | s d mx]; simpl.
  - apply add_edge_other. intros E. inversion E; subst. apply Hs. reflexivity.
  - set (sw := KSw cur idx).
    set (step := fun (acc : graph * list nat * (list nat * list nat)) (lc : nat * nat) =>
                   let '(g, mp, sv) := acc in
                   (add_edge (KN (snd lc)) sw (set_case (fst lc)) g, map_add (snd lc) mp, visit (snd lc) sv)).
    assert (H : forall cases g mp sv, edge_attr (fst (fst (fold_left step cases (g, mp, sv)))) (KN src) (KN cur)
                                      = edge_attr g (KN src) (KN cur)).
    { induction cases0 as [|[l c] r IH]; intros g mp sv; simpl; [reflexivity|]. rewrite IH.
      apply add_edge_other. intros E. inversion E. }
    match goal with |- context [fold_left ?f cases ?a] => change f with step; destruct (fold_left step cases a) as [[g3 mp3] sv3] eqn:E end.
    simpl. rewrite add_edge_other by (intros E'; inversion E').
    match type of E with fold_left step cases (?g, ?mp, ?sv) = _ => specialize (H cases g mp sv) end.
    rewrite E in H. simpl in H. rewrite H. rewrite add_edge_other by (intros E'; inversion E'). reflexivity.
  - set (h := KOo cur idx).
    set (step := fun (acc : graph * list nat * (list nat * list nat)) (c : nat) =>
                   let '(g, mp, sv) := acc in
                   let g' := add_node (KN c) (fun a => {| na_switch := na_switch a; na_head := na_head a; na_child := true;
                                                          na_cands := na_cands a; na_start := na_start a; na_maxit := na_maxit a |}) g in
                   (add_edge (KN c) h (fun a => a) g', map_add c mp, visit c sv)).
    assert (H : forall cs g mp sv, edge_attr (fst (fst (fold_left step cs (g, mp, sv)))) (KN src) (KN cur)
                                   = edge_attr g (KN src) (KN cur)).
    { induction cs0 as [|c r IH]; intros g mp sv; simpl; [reflexivity|]. rewrite IH.
      rewrite add_edge_other by (intros E; inversion E). reflexivity. }
    match goal with |- context [fold_left ?f cs ?a] => change f with step; destruct (fold_left step cs a) as [[g3 mp3] sv3] eqn:E end.
    simpl. rewrite add_edge_other by (intros E'; inversion E').
    match type of E with fold_left step cs (?g, ?mp, ?sv) = _ => specialize (H cs g mp sv) end.
    rewrite E in H. simpl in H. rewrite H. rewrite add_edge_other by (intros E'; inversion E'). reflexivity.
  - rewrite add_edge_other by (intros E; inversion E; subst; apply Hs; reflexivity). reflexivity.
Qed.

Lemma apply_mark_direct inp cur idx p mk b src :
  direct_source mk = Some src ->
  exists a, edge_attr (bs_g (apply_mark inp cur idx p mk b)) (KN src) (KN cur) = Some a /\ ea_kwarg a = Some p.
Proof.
  intros Hs. destruct mk as [m | d cases | cs | s d mx]; simpl in Hs; inversion Hs; subst; simpl.
  - rewrite add_edge_same. eexists. split; [reflexivity|reflexivity].
  - rewrite add_edge_same. eexists. split; [reflexivity|reflexivity].
Qed.

(* no two parameters of the node take their value straight from the same node *)
Definition distinct_sources (ps : list (pname * mark)) : Prop :=
  NoDup (flat_map (fun pm => match direct_source (snd pm) with Some s => [s] | None => [] end) ps).

Lemma apply_marks_keeps inp cur ps src : forall idx b a,
  ~ In src (flat_map (fun pm => match direct_source (snd pm) with Some s => [s] | None => [] end) ps) ->
  edge_attr (bs_g b) (KN src) (KN cur) = Some a ->
  edge_attr (bs_g (apply_marks inp cur idx ps b)) (KN src) (KN cur) = Some a.
Proof.
  induction ps as [|[p mk] r IH]; intros idx b a Hn He; simpl; [exact He|].
  simpl in Hn. apply IH.
  - intros Hin. apply Hn. apply in_or_app. right. exact Hin.
  - rewrite (apply_mark_other_source inp cur idx p mk b src); [exact He|].
    intros Hd. apply Hn. apply in_or_app. left. rewrite Hd. left. reflexivity.
Qed.

Lemma apply_marks_delivers inp cur ps : forall idx b p mk src,
  distinct_sources ps -> In (p, mk) ps -> direct_source mk = Some src ->
  exists a, edge_attr (bs_g (apply_marks inp cur idx ps b)) (KN src) (KN cur) = Some a /\ ea_kwarg a = Some p.
Proof.
  induction ps as [|[p0 mk0] r IH]; intros idx b p mk src Hd Hin Hs; [destruct Hin|].
  simpl. unfold distinct_sources in Hd. simpl in Hd. destruct Hin as [E|Hin].
  - inversion E; subst p0 mk0. rewrite Hs in Hd. simpl in Hd. inversion Hd as [|? ? Hnin Hnd]; subst.
    destruct (apply_mark_direct inp cur idx p mk b src Hs) as [a [Ha Hk]].
    exists a. split; [|exact Hk]. apply apply_marks_keeps; assumption.
  - apply (IH (S idx) _ p mk src); [|exact Hin|exact Hs].
    unfold distinct_sources. destruct (direct_source mk0); simpl in Hd; [inversion Hd; assumption|exact Hd].
Qed.

Lemma visit_node_delivers ds inp cur b p mk src :
  distinct_sources (params_of ds cur) -> In (p, mk) (params_of ds cur) -> direct_source mk = Some src ->
  exists a, edge_attr (bs_g (visit_node ds inp cur b)) (KN src) (KN cur) = Some a /\ ea_kwarg a = Some p.
Proof.
  intros Hd Hin Hs. unfold visit_node. unfold params_of in *.
  destruct (nth_opt ds cur) as [nd|]; [|destruct Hin].
  destruct (ns_params nd) as [|pm r] eqn:Ep; [destruct Hin|].
  apply (apply_marks_delivers inp cur (pm :: r) 0 _ p mk src); assumption.
Qed.

(* ---- through the loop: once node i has been translated, its deliveries stay ------------------------------ *)
Lemma loop_keeps ds inp i src a : forall fuel b,
  ~ In i (fst (bs_sv b)) ->
  (forall x, In x (fst (bs_sv b)) -> In x (snd (bs_sv b))) -> In i (snd (bs_sv b)) ->
  edge_attr (bs_g b) (KN src) (KN i) = Some a ->
  edge_attr (bs_g (build_loop fuel ds inp b)) (KN src) (KN i) = Some a.
Proof.
  Local Transparent build_loop.
  induction fuel as [|f IH]; intros b Hns Hsv Hiv He; simpl; [exact He|].
  destruct (bs_sv b) as [st vis] eqn:Esv. simpl in *. destruct st as [|cur rest]; [exact He|].
  set (b1 := {| bs_g := bs_g b; bs_map := bs_map b; bs_recs := bs_recs b; bs_synth := bs_synth b;
                bs_sv := (rest, vis); bs_pop := bs_pop b ++ [cur] |}).
  destruct (visit_node_sv ds inp cur b1) as [V1 _]. simpl in V1.
  assert (Hne : cur <> i) by (intros ->; apply Hns; left; reflexivity).
  apply IH.
  - rewrite V1. intros Hin.
    (* i is already visited, so it is never pushed again *)
    assert (G : forall l st vis, In i vis -> ~ In i st -> ~ In i (fst (visits l (st, vis)))).
    { induction l as [|m r IHl]; intros st0 vis0 Hv Hs0; [exact Hs0|].
      change (visits (m :: r) (st0, vis0)) with (visits r (visit m (st0, vis0))).
      destruct (in_dec Nat.eq_dec m vis0) as [Hm|Hm].
      - rewrite (visit_in m st0 vis0 Hm). apply IHl; assumption.
      - rewrite (visit_notin m st0 vis0 Hm). apply IHl; [apply in_or_app; left; exact Hv|].
        intros [->|Hx]; [contradiction|contradiction]. }
    apply (G (deps_v ds inp cur) rest vis Hiv); [|exact Hin]. intros Hr. apply Hns. right. exact Hr.
  - rewrite V1. intros x Hx.
    assert (G : forall l st vis, (forall y, In y st -> In y vis) ->
                                 forall y, In y (fst (visits l (st, vis))) -> In y (snd (visits l (st, vis)))).
    { induction l as [|m r IHl]; intros st0 vis0 H0 y Hy; [apply H0; exact Hy|].
      change (visits (m :: r) (st0, vis0)) with (visits r (visit m (st0, vis0))) in *.
      destruct (in_dec Nat.eq_dec m vis0) as [Hm|Hm].
      - rewrite (visit_in m st0 vis0 Hm) in *. apply IHl; assumption.
      - rewrite (visit_notin m st0 vis0 Hm) in *. apply (IHl (m :: st0) (vis0 ++ [m])); [|exact Hy].
        intros z [->|Hz]; apply in_or_app; [right; left; reflexivity|left; apply H0; exact Hz]. }
    apply (G (deps_v ds inp cur) rest vis); [|exact Hx]. intros y Hy. apply Hsv. right. exact Hy.
  - rewrite V1.
    assert (G : forall l st vis, In i vis -> In i (snd (visits l (st, vis)))).
    { induction l as [|m r IHl]; intros st0 vis0 Hv; [exact Hv|].
      change (visits (m :: r) (st0, vis0)) with (visits r (visit m (st0, vis0))).
      destruct (in_dec Nat.eq_dec m vis0) as [Hm|Hm].
      - rewrite (visit_in m st0 vis0 Hm). apply IHl; assumption.
      - rewrite (visit_notin m st0 vis0 Hm). apply IHl. apply in_or_app. left. exact Hv. }
    apply G. exact Hiv.
  - rewrite visit_node_frame; [exact He|]. simpl. exact (fun E => Hne (eq_sym E)).
Qed.

(* every popped node has its deliveries in the final graph *)
Lemma loop_delivers ds inp i p mk src :
  distinct_sources (params_of ds i) -> In (p, mk) (params_of ds i) -> direct_source mk = Some src ->
  forall fuel b,
    NoDup (fst (bs_sv b)) -> (forall x, In x (fst (bs_sv b)) -> In x (snd (bs_sv b))) ->
    ~ In i (bs_pop b) -> In i (bs_pop (build_loop fuel ds inp b)) ->
    exists a, edge_attr (bs_g (build_loop fuel ds inp b)) (KN src) (KN i) = Some a /\ ea_kwarg a = Some p.
Proof.
  intros Hd Hin Hs. induction fuel as [|f IH]; intros b Hnd Hsv Hnp Hp; simpl in *; [contradiction|].
  destruct (bs_sv b) as [st vis] eqn:Esv. simpl in *. destruct st as [|cur rest]; [contradiction|].
  set (b1 := {| bs_g := bs_g b; bs_map := bs_map b; bs_recs := bs_recs b; bs_synth := bs_synth b;
                bs_sv := (rest, vis); bs_pop := bs_pop b ++ [cur] |}) in *.
  destruct (visit_node_sv ds inp cur b1) as [V1 V2]. simpl in V1, V2.
  inversion Hnd as [|? ? Hcr Hndr]; subst.
  assert (Gsub : forall l st vis, (forall y, In y st -> In y vis) ->
                                  forall y, In y (fst (visits l (st, vis))) -> In y (snd (visits l (st, vis)))).
  { induction l as [|m r IHl]; intros st0 vis0 H0 y Hy; [apply H0; exact Hy|].
    change (visits (m :: r) (st0, vis0)) with (visits r (visit m (st0, vis0))) in *.
    destruct (in_dec Nat.eq_dec m vis0) as [Hm|Hm].
    - rewrite (visit_in m st0 vis0 Hm) in *. apply IHl; assumption.
    - rewrite (visit_notin m st0 vis0 Hm) in *. apply (IHl (m :: st0) (vis0 ++ [m])); [|exact Hy].
      intros z [->|Hz]; apply in_or_app; [right; left; reflexivity|left; apply H0; exact Hz]. }
  assert (Gnd : forall l st vis, NoDup st -> (forall y, In y st -> In y vis) -> NoDup (fst (visits l (st, vis)))).
  { induction l as [|m r IHl]; intros st0 vis0 N0 H0; [exact N0|].
    change (visits (m :: r) (st0, vis0)) with (visits r (visit m (st0, vis0))).
    destruct (in_dec Nat.eq_dec m vis0) as [Hm|Hm].
    - rewrite (visit_in m st0 vis0 Hm). apply IHl; assumption.
    - rewrite (visit_notin m st0 vis0 Hm). apply IHl.
      + constructor; [|exact N0]. intros Hx. apply Hm. apply H0. exact Hx.
      + intros z [->|Hz]; apply in_or_app; [right; left; reflexivity|left; apply H0; exact Hz]. }
  assert (Hsv1 : forall y, In y rest -> In y vis) by (intros y Hy; apply Hsv; right; exact Hy).
  destruct (Nat.eq_dec cur i) as [->|Hne].
  - (* node i is translated now; afterwards nothing touches its incoming edges *)
    destruct (visit_node_delivers ds inp i b1 p mk src Hd Hin Hs) as [a [Ha Hk]].
    exists a. split; [|exact Hk]. apply loop_keeps.
    + rewrite V1. intros Hx.
      assert (G : forall l st vis, In i vis -> ~ In i st -> ~ In i (fst (visits l (st, vis)))).
      { induction l as [|m r IHl]; intros st0 vis0 Hv Hs0; [exact Hs0|].
        change (visits (m :: r) (st0, vis0)) with (visits r (visit m (st0, vis0))).
        destruct (in_dec Nat.eq_dec m vis0) as [Hm|Hm].
        - rewrite (visit_in m st0 vis0 Hm). apply IHl; assumption.
        - rewrite (visit_notin m st0 vis0 Hm). apply IHl; [apply in_or_app; left; exact Hv|].
          intros [->|Hx']; contradiction. }
      apply (G (deps_v ds inp i) rest vis); [apply Hsv; left; reflexivity|exact Hcr|exact Hx].
    + rewrite V1. apply Gsub. exact Hsv1.
    + rewrite V1.
      assert (G : forall l st vis, In i vis -> In i (snd (visits l (st, vis)))).
      { induction l as [|m r IHl]; intros st0 vis0 Hv; [exact Hv|].
        change (visits (m :: r) (st0, vis0)) with (visits r (visit m (st0, vis0))).
        destruct (in_dec Nat.eq_dec m vis0) as [Hm|Hm].
        - rewrite (visit_in m st0 vis0 Hm). apply IHl; assumption.
        - rewrite (visit_notin m st0 vis0 Hm). apply IHl. apply in_or_app. left. exact Hv. }
      apply G. apply Hsv. left. reflexivity.
    + exact Ha.
  - apply IH.
    + rewrite V1. apply Gnd; assumption.
    + rewrite V1. apply Gsub. exact Hsv1.
    + rewrite V2. intros Hx. apply in_app_iff in Hx. destruct Hx as [Hx|[Hx|[]]]; [contradiction|contradiction].
    + exact Hp.
Qed.
