(* ALL programs, every schedule: get_default is called only for a node declared with use_default=True (C12) -- also when the
   call is forced by an exhausted recurrent subgraph. *)
From MLPE Require Import Engine.Run Proofs.ExecLemmas Proofs.Evolve Proofs.StackInv Proofs.Micro Proofs.PlainLive Proofs.PlainCore Proofs.PlainInv
     Proofs.PlainExec Proofs.PlainEvents Proofs.PipeAll Proofs.ValuesAll.
Require Import Lia.

Section DefaultAll.
  Variable P : prog.
  Notation G := (b_graph (build (p_decls P) (p_inp P) (p_out P))).

  Definition has_default (i : nat) : bool := ns_default (nspec_of P i).
  (* a forced execution (force=True: skip the body, call get_default) is only ever requested for a node with a default *)
  Definition df (f : frame) : bool :=
    match f with
    | FNodeStart _ n true | FExecStart _ n true | FExecAfterStart _ n true => has_default (real_index n)
    | FRetry i true _ _ => has_default i
    | _ => true
    end.
  Definition df_TP (x : task frame) : Prop := forallb df (estack (t_state x)) = true.
  Lemma df_wake x w k : t_state x = TWait w k -> df_TP x -> df_TP (with_ts x (TReady k SGo)).
  Proof. unfold df_TP. intros E H. rewrite E in H. exact H. Qed.
  Lemma df_cancel_ready x k sg : t_state x = TReady k sg -> df_TP x -> df_TP (with_ts x (TReady k (SThrow XCancelled))).
  Proof. unfold df_TP. intros E H. rewrite E in H. exact H. Qed.
  Lemma df_cancel_wait x w k : t_state x = TWait w k -> df_TP x -> df_TP (with_ts x (TReady k (SThrow XCancelled))).
  Proof. unfold df_TP. intros E H. rewrite E in H. exact H. Qed.

  Ltac df_prims :=
    repeat first
           [ assumption
           | apply (ok_notify df_TP df_wake) | apply (ok_notify_keys df_TP df_wake) | apply (ok_set_event df_TP df_wake)
           | apply (ok_cancel_tasks df_TP df_cancel_ready df_cancel_wait) | apply (ok_cancel_task df_TP df_cancel_ready df_cancel_wait)
           | apply (ok_finally_a df_TP df_wake) | apply (ok_finally_b df_TP df_wake)
           | apply ok_emit_obs | apply ok_with_store | apply ok_bump | apply ok_set_adddata | apply ok_push_ready | apply ok_fold_hide
           | apply (ok_wake_all df_TP df_wake) ].

  Lemma step_df_tasks t fr sg st : tasks_ok df_TP st -> tasks_ok df_TP (fst (step_frame P t fr sg st)).
  Proof.
    intros H. destruct fr; destruct sg; cbn [step_frame]; unfold default_or_raise, reduced;
      repeat break_match; spawn_norm; cbn [fst];
      repeat match goal with
             | |- tasks_ok _ (fst (spawn _ _ _ _)) => apply ok_spawn; [|reflexivity]
             | _ => progress df_prims
             end.
  Qed.

  Lemma step_df_frames t fr sg st : df fr = true -> forallb df (dir_frames (snd (step_frame P t fr sg st))) = true.
  Proof.
    intros Hf. destruct fr; destruct sg; cbn [step_frame]; unfold default_or_raise, reduced; repeat break_match;
      unfold emit_frames; cbn [snd dir_frames forallb df andb] in *; rewrite ?andb_true_r; try reflexivity; try exact Hf.
    all: try (destruct force; [exact Hf|reflexivity]).
    all: match goal with Hq : (_ && _)%bool = true |- _ => apply andb_true_iff in Hq; exact (proj2 Hq) end.
  Qed.

  Definition is_default (o : obs) : bool := match o with ODefault _ _ => true | _ => false end.
  Notation bad := is_default.
  Lemma dq_spawn t nm : bad (OSpawn t nm) = false. Proof. reflexivity. Qed.
  Lemma dq_hide k : bad (OHide k) = false. Proof. reflexivity. Qed.
  Ltac dq_prims :=
    repeat first
           [ apply nq_refl
           | apply nq_notify | apply nq_notify_keys | apply nq_set_event | apply nq_cancel_tasks | apply nq_cancel_task
           | apply nq_finally_a | apply nq_finally_b | apply nq_wake_all | (apply nq_fold_hide; [exact dq_hide|])
           | (eapply nq_trans; [|apply nq_with_store]) | (eapply nq_trans; [|apply nq_bump])
           | (eapply nq_trans; [|apply nq_set_adddata]) | (eapply nq_trans; [|apply nq_push_ready])
           | (eapply nq_trans; [|apply nq_spawn; exact dq_spawn])
           | (eapply nq_trans; [|apply nq_emit; reflexivity]) ].

  Lemma step_defaults t fr sg st :
    df fr = true ->
    (exists i kw, has_default i = true /\ st_trace (fst (step_frame P t fr sg st)) = ODefault i kw :: st_trace st) \/
    nq bad st (fst (step_frame P t fr sg st)).
  Proof.
    intros Hf.
    destruct fr; destruct sg; cbn [step_frame]; unfold default_or_raise, reduced; repeat break_match; spawn_norm; cbn [fst];
      first [ right; dq_prims; fail
            | left; do 2 eexists; split; [|cbn [st_trace emit_obs]; reflexivity]; first [exact Hf | assumption] ].
  Qed.

  Definition defaults_ok (tr : list obs) : Prop := forall i kw, In (ODefault i kw) tr -> has_default i = true.

  Theorem creach_defaults : forall st c, creach P st c ->
    tasks_ok df_TP st /\ (match c with Some (_, k, _) => forallb df k = true | None => True end) /\ defaults_ok (st_trace st).
  Proof.
    intros st c H.
    induction H as [|st t rest x k sg H IH Hq Hf Ht|st t rest H IH Hq|st t fr rest sg H IH|st t sg H IH|st c H IH|st g H IH|st H IH].
    - split; [|split; [exact I|]].
      + unfold tasks_ok, init_state. cbn. constructor; [|constructor]. reflexivity.
      + intros i kw Hin. cbn in Hin. destruct Hin as [Hin|[]]. discriminate Hin.
    - destruct IH as (A & _ & Hh). split; [apply ok_dequeue; exact A|split; [|exact Hh]].
      destruct (find_task_in _ _ _ Hf) as [Hin _]. unfold tasks_ok in A. rewrite Forall_forall in A. specialize (A x Hin). unfold df_TP in A. rewrite Ht in A. exact A.
    - destruct IH as (A & _ & Hh). split; [apply ok_dequeue; exact A|split; [exact I|exact Hh]].
    - destruct IH as (A & B & Hh).
      cbn [forallb] in B. apply andb_true_iff in B. destruct B as [Bf Br].
      pose proof (step_df_tasks t fr sg st A) as A1.
      pose proof (step_df_frames t fr sg st Bf) as F1.
      assert (Hkk : forallb df (dir_frames (snd (step_frame P t fr sg st)) ++ rest) = true) by (rewrite forallb_app, F1, Br; reflexivity).
      assert (Hh1 : defaults_ok (st_trace (fst (step_frame P t fr sg st)))).
      { destruct (step_defaults t fr sg st Bf) as [[i [kw [Hd E]]]|[nw [E Hnw]]].
        - rewrite E. intros i' kw' [Hin|Hin]; [inversion Hin; subst; exact Hd|exact (Hh i' kw' Hin)].
        - rewrite E. intros i' kw' Hin. apply in_app_or in Hin. destruct Hin as [Hin|Hin]; [|exact (Hh i' kw' Hin)].
          rewrite forallb_forall in Hnw. specialize (Hnw _ Hin). discriminate Hnw. }
      rewrite !trace_after_step'.
      destruct (step_frame P t fr sg st) as [st1 [w k'|k'|k' sg'|sg']]; cbn [after_step fst snd dir_frames] in *.
      + split; [|split; [exact I|exact Hh1]]. apply ok_suspend; [exact A1|]. intros y _ _. unfold df_TP. cbn. exact Hkk.
      + split; [|split; [exact I|exact Hh1]]. apply ok_push_ready. apply ok_set_tstate; [exact A1|]. intros y _ _. unfold df_TP. cbn. exact Hkk.
      + split; [exact A1|split; [exact Hkk|exact Hh1]].
      + split; [exact A1|split; [exact Br|exact Hh1]].
    - destruct IH as (A & _ & Hh). split; [|split; [exact I|exact Hh]]. apply ok_set_tstate; [exact A|]. intros y _ _. reflexivity.
    - destruct IH as (A & _ & Hh). split; [|split; [exact I|exact Hh]]. apply ok_abort; [|exact A]. intros y k0 _. reflexivity.
    - destruct IH as (A & _ & Hh). unfold complete_gate. rewrite trace_wake_all. split; [|split; [exact I|exact Hh]].
      apply (complete_gate_tasks_ok df_TP df_wake). exact A.
    - destruct IH as (A & _ & Hh). rewrite trace_cancel_task. split; [|split; [exact I|exact Hh]].
      apply (ok_cancel_task df_TP df_cancel_ready df_cancel_wait). exact A.
  Qed.
End DefaultAll.

Theorem get_default_only_for_nodes_with_a_default_all_programs P :
  forall st, reachable P st -> forall i kw, In (ODefault i kw) (st_trace st) -> ns_default (nspec_of P i) = true.
Proof. intros st Hr. destruct (creach_defaults P st None (reachable_creach P st Hr)) as (_ & _ & H). exact H. Qed.
