(* Generic facts about association lists with a boolean equality. *)
From MLPE Require Import Base.Util.

Section Assoc.
  Context {K V : Type} (eqb : K -> K -> bool).
  Hypothesis eqb_spec : forall a b, eqb a b = true <-> a = b.

  Lemma eqb_refl k : eqb k k = true. Proof. apply eqb_spec. reflexivity. Qed.
  Lemma eqb_neq a b : a <> b -> eqb a b = false.
  Proof. intros H. destruct (eqb a b) eqn:E; [|reflexivity]. apply eqb_spec in E. contradiction. Qed.

  Lemma alookup_aset_same k (v : V) l : alookup eqb k (aset eqb k v l) = Some v.
  Proof.
    induction l as [|[k' v'] r IH]; simpl.
    - rewrite eqb_refl. reflexivity.
    - destruct (eqb k k') eqn:E; simpl; [rewrite eqb_refl; reflexivity|]. rewrite E. exact IH.
  Qed.

  Lemma alookup_aset_other k k' (v : V) l : k' <> k -> alookup eqb k' (aset eqb k v l) = alookup eqb k' l.
  Proof.
    intros Hne. induction l as [|[k2 v2] r IH]; simpl.
    - rewrite (eqb_neq k' k Hne). reflexivity.
    - destruct (eqb k k2) eqn:E; simpl.
      + apply eqb_spec in E. subst k2. rewrite (eqb_neq k' k Hne). reflexivity.
      + destruct (eqb k' k2); [reflexivity|exact IH].
  Qed.

  Lemma alookup_aremove_same k (l : list (K * V)) : alookup eqb k (aremove eqb k l) = None.
  Proof.
    induction l as [|[k' v'] r IH]; simpl; [reflexivity|].
    destruct (eqb k k') eqn:E; simpl; [exact IH|]. rewrite E. exact IH.
  Qed.

  Lemma alookup_aremove_other k k' (l : list (K * V)) : k' <> k -> alookup eqb k' (aremove eqb k l) = alookup eqb k' l.
  Proof.
    intros Hne. induction l as [|[k2 v2] r IH]; simpl; [reflexivity|].
    destruct (eqb k k2) eqn:E; simpl.
    - apply eqb_spec in E. subst k2. rewrite (eqb_neq k' k Hne). exact IH.
    - destruct (eqb k' k2); [reflexivity|exact IH].
  Qed.
End Assoc.
