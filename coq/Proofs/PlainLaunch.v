(* Plain DAGs: who creates which task. The chart task creates the launcher of the main DAG once; the launcher walks the
   topological order and creates exactly one node task per node, in that order; nobody else creates anything. *)
From MLPE Require Import Engine.Run Proofs.ExecLemmas Proofs.Evolve Explore.StateEq Proofs.ProcessedInv Proofs.PlainWorld.

Definition names (st : mstate) : list tname := map (@t_name frame) (st_tasks st).

Definition same_names (st st' : mstate) : Prop := names st' = names st.
Lemma sn_refl st : same_names st st. Proof. reflexivity. Qed.
Lemma sn_trans a b c : same_names a b -> same_names b c -> same_names a c.
Proof. unfold same_names. congruence. Qed.
Lemma sn_same st st' : st_tasks st' = st_tasks st -> same_names st st'.
Proof. unfold same_names, names. intros ->. reflexivity. Qed.
Lemma sn_push_ready t st : same_names st (push_ready t st). Proof. apply sn_same; reflexivity. Qed.
Lemma sn_set_waiters w st : same_names st (set_waiters w st). Proof. apply sn_same; reflexivity. Qed.
Lemma sn_add_event n st : same_names st (add_event n st). Proof. apply sn_same; reflexivity. Qed.
Lemma sn_emit o st : same_names st (emit_obs o st). Proof. apply sn_same; reflexivity. Qed.
Lemma sn_with_store f st : same_names st (with_store f st). Proof. apply sn_same; reflexivity. Qed.
Lemma sn_bump c st : same_names st (bump c st). Proof. apply sn_same; reflexivity. Qed.
Lemma sn_set_adddata k v st : same_names st (set_adddata k v st). Proof. apply sn_same; reflexivity. Qed.
Lemma sn_dequeue st : same_names st (dequeue st). Proof. apply sn_same; reflexivity. Qed.
Lemma sn_set_tstate t ts st : same_names st (set_tstate t ts st).
Proof.
  unfold same_names, names, set_tstate. cbn [st_tasks]. induction (st_tasks st) as [|y r IH]; cbn [upd_task map]; [reflexivity|].
  destruct (Nat.eqb (t_id y) t); cbn [map t_name]; [reflexivity|]. rewrite IH. reflexivity.
Qed.
Lemma sn_abort P st : same_names st (abort P st).
Proof. unfold same_names, names, abort. cbn [st_tasks]. rewrite map_map. reflexivity. Qed.

Definition sn_notify := R_notify same_names sn_trans sn_push_ready sn_set_waiters sn_set_tstate.
Definition sn_wake_all := R_wake_all same_names sn_trans sn_push_ready sn_set_waiters sn_set_tstate.
Definition sn_notify_keys := R_notify_keys same_names sn_trans sn_push_ready sn_set_waiters sn_set_tstate.
Definition sn_set_event := R_set_event same_names sn_trans sn_push_ready sn_set_waiters sn_set_tstate sn_add_event.
Definition sn_cancel_task := R_cancel_task same_names sn_trans sn_push_ready sn_set_waiters sn_set_tstate.
Definition sn_cancel_tasks := R_cancel_tasks same_names sn_trans sn_push_ready sn_set_waiters sn_set_tstate.
Definition sn_finally_a := R_finally_a same_names sn_trans sn_push_ready sn_set_waiters sn_set_tstate sn_add_event.
Definition sn_finally_b P := R_finally_b P same_names sn_trans sn_push_ready sn_set_waiters sn_set_tstate sn_add_event.
Definition sn_suspend := R_suspend same_names sn_trans sn_set_waiters sn_set_tstate.

Ltac sn_prims :=
  repeat first
         [ apply sn_refl
         | apply sn_notify | apply sn_notify_keys | apply sn_set_event | apply sn_cancel_tasks | apply sn_cancel_task
         | apply sn_finally_a | apply sn_finally_b | apply sn_wake_all
         | (eapply sn_trans; [|apply sn_emit]) | (eapply sn_trans; [|apply sn_with_store]) | (eapply sn_trans; [|apply sn_bump])
         | (eapply sn_trans; [|apply sn_set_adddata]) | (eapply sn_trans; [|apply sn_push_ready]) ].

Section Launch.
  Variable P : prog.
  Notation G := (b_graph (build (p_decls P) (p_inp P) (p_out P))).
  Hypothesis Hsw : forall n, is_switch G n = false.
  Hypothesis Hhd : forall n, is_head G n = false.
  Hypothesis Hbody : forall i kw a v, p_body P i kw a = OVal v -> clean v = true.

  (* which task a plain frame creates, if any *)
  Definition creates (fr : frame) (sg : signal) (st : mstate) : list tname :=
    match fr, sg with
    | FChartAfterStart, SVal _ =>
      if (needs_thread P && negb (p_thread_ready P)) || (needs_process P && negb (p_process_ready P)) then [] else [TNRun]
    | FDagLoop d (n :: _) _, SGo => if is_ready P (st_store st) d n then [TNNode n] else []
    | _, _ => []
    end.

  Lemma names_spawn nm h k (st : mstate) : names (fst (spawn nm h k st)) = names st ++ [nm].
  Proof. unfold names, spawn. cbn [fst st_tasks]. rewrite map_app. reflexivity. Qed.

  Lemma plain_step_names t fr sg st :
    plain_frame P fr = true -> clean_sig sg -> PS st ->
    names (fst (step_frame P t fr sg st)) = names st ++ creates fr sg st.
  Proof.
    intros Hf Hs Hst. pose proof Hst as Hst'. unfold PS in Hst'.
    assert (E : forall s', same_names st s' -> names s' = names st ++ []) by (intros s' H; rewrite app_nil_r; exact H).
    destruct fr; try discriminate Hf; cbn [plain_frame] in Hf;
      repeat match goal with
             | H : (_ && _)%bool = true |- _ => apply andb_true_iff in H; destruct H
             | H : is_main P ?d = true |- _ => apply is_main_eq in H; subst d
             | H : negb ?f = true |- _ => apply negb_true_iff in H; subst f
             | H : ?u = true |- _ => is_var u; subst u
             end;
      destruct sg; cbn [clean_sig] in Hs;
      try match goal with H : clean ?v = true |- _ => pose proof (clean_not_rec v H) as Hnr; pose proof (clean_not_exn v H) as Hne end;
      cbn [step_frame creates]; rewrite ?Hnr, ?Hne, ?Hsw, ?Hhd, ?(plain_dep_error P _ _ _ Hst'), ?(plain_no_subgraph_error _ _ Hst');
      unfold default_or_raise, reduced; cbn [d_oneof d_rec maind andb];
      repeat break_match; spawn_norm; cbn [fst];
      try match goal with H : is_switch _ _ = true |- _ => rewrite Hsw in H; discriminate H end;
      try match goal with H : is_head _ _ = true |- _ => rewrite Hhd in H; discriminate H end;
      try match goal with H : dep_error _ _ _ _ = Some _ |- _ => rewrite (plain_dep_error P _ _ _ Hst') in H; discriminate H end;
      try (apply E; sn_prims; fail);
      try (rewrite names_spawn; reflexivity).
  Qed.
End Launch.

(* ---- a plain frame that creates no task only applies primitives other than spawn ------------------------------ *)
Section NoSpawn.
  Variable P : prog.
  Notation G := (b_graph (build (p_decls P) (p_inp P) (p_out P))).
  Hypothesis Hsw : forall n, is_switch G n = false.
  Hypothesis Hhd : forall n, is_head G n = false.
  Hypothesis Hbody : forall i kw a v, p_body P i kw a = OVal v -> clean v = true.

  Variable Rel : mstate -> mstate -> Prop.
  Hypothesis Rel_refl : forall st, Rel st st.
  Hypothesis Rel_trans : forall a b c, Rel a b -> Rel b c -> Rel a c.
  Hypothesis R_emit_obs : forall o st, Rel st (emit_obs o st).
  Hypothesis R_with_store : forall f st, Rel st (with_store f st).
  Hypothesis R_bump : forall c st, Rel st (bump c st).
  Hypothesis R_set_adddata : forall k v st, Rel st (set_adddata k v st).
  Hypothesis R_push_ready : forall t st, Rel st (push_ready t st).
  Hypothesis R_set_waiters : forall w st, Rel st (set_waiters w st).
  Hypothesis R_set_tstate : forall t ts st, Rel st (set_tstate t ts st).
  Hypothesis R_add_event : forall n st, Rel st (add_event n st).

  Ltac rel_prims :=
    repeat first
           [ apply Rel_refl
           | apply (R_notify Rel Rel_trans R_push_ready R_set_waiters R_set_tstate)
           | apply (R_notify_keys Rel Rel_trans R_push_ready R_set_waiters R_set_tstate)
           | apply (R_set_event Rel Rel_trans R_push_ready R_set_waiters R_set_tstate R_add_event)
           | apply (R_cancel_tasks Rel Rel_trans R_push_ready R_set_waiters R_set_tstate)
           | apply (R_finally_a Rel Rel_trans R_push_ready R_set_waiters R_set_tstate R_add_event)
           | apply (R_finally_b P Rel Rel_trans R_push_ready R_set_waiters R_set_tstate R_add_event)
           | (eapply Rel_trans; [|apply R_emit_obs]) | (eapply Rel_trans; [|apply R_with_store])
           | (eapply Rel_trans; [|apply R_bump]) | (eapply Rel_trans; [|apply R_set_adddata])
           | (eapply Rel_trans; [|apply R_push_ready]) ].

  Lemma plain_step_rel t fr sg st :
    plain_frame P fr = true -> clean_sig sg -> PS st -> creates P fr sg st = [] -> Rel st (fst (step_frame P t fr sg st)).
  Proof.
    intros Hf Hs Hst Hc. pose proof Hst as Hst'. unfold PS in Hst'.
    destruct fr; try discriminate Hf; cbn [plain_frame] in Hf;
      repeat match goal with
             | H : (_ && _)%bool = true |- _ => apply andb_true_iff in H; destruct H
             | H : is_main P ?d = true |- _ => apply is_main_eq in H; subst d
             | H : negb ?f = true |- _ => apply negb_true_iff in H; subst f
             | H : ?u = true |- _ => is_var u; subst u
             end;
      destruct sg; cbn [clean_sig] in Hs;
      try match goal with H : clean ?v = true |- _ => pose proof (clean_not_rec v H) as Hnr; pose proof (clean_not_exn v H) as Hne end;
      cbn [step_frame creates] in *; rewrite ?Hnr, ?Hne, ?Hsw, ?Hhd, ?(plain_dep_error P _ _ _ Hst'), ?(plain_no_subgraph_error _ _ Hst');
      unfold default_or_raise, reduced; cbn [d_oneof d_rec maind andb];
      repeat break_match; spawn_norm; cbn [fst];
      try match goal with H : is_switch _ _ = true |- _ => rewrite Hsw in H; discriminate H end;
      try match goal with H : is_head _ _ = true |- _ => rewrite Hhd in H; discriminate H end;
      try match goal with H : dep_error _ _ _ _ = Some _ |- _ => rewrite (plain_dep_error P _ _ _ Hst') in H; discriminate H end;
      try discriminate Hc;
      try (rel_prims; fail).
  Qed.
End NoSpawn.

Section NoSpawnTasks.
  Variable P : prog.
  Notation G := (b_graph (build (p_decls P) (p_inp P) (p_out P))).
  Hypothesis Hsw : forall n, is_switch G n = false.
  Hypothesis Hhd : forall n, is_head G n = false.
  Hypothesis Hbody : forall i kw a v, p_body P i kw a = OVal v -> clean v = true.

  Variable TP : task frame -> Prop.
  Hypothesis TP_wake : forall x w k, t_state x = TWait w k -> TP x -> TP (with_ts x (TReady k SGo)).
  Hypothesis TP_cancel_ready : forall x k sg, t_state x = TReady k sg -> TP x -> TP (with_ts x (TReady k (SThrow XCancelled))).
  Hypothesis TP_cancel_wait : forall x w k, t_state x = TWait w k -> TP x -> TP (with_ts x (TReady k (SThrow XCancelled))).

  Ltac tp_prims :=
    repeat first
           [ assumption
           | apply (ok_notify TP TP_wake) | apply (ok_notify_keys TP TP_wake) | apply (ok_set_event TP TP_wake)
           | apply (ok_cancel_tasks TP TP_cancel_ready TP_cancel_wait) | apply (ok_cancel_task TP TP_cancel_ready TP_cancel_wait)
           | apply (ok_finally_a TP TP_wake) | apply (ok_finally_b TP TP_wake)
           | apply ok_emit_obs | apply ok_with_store | apply ok_bump | apply ok_set_adddata | apply ok_push_ready
           | apply (ok_wake_all TP TP_wake) ].

  Lemma plain_step_tasks_nospawn t fr sg st :
    plain_frame P fr = true -> clean_sig sg -> PS st -> creates P fr sg st = [] ->
    tasks_ok TP st -> tasks_ok TP (fst (step_frame P t fr sg st)).
  Proof.
    intros Hf Hs Hst Hc Ht. pose proof Hst as Hst'. unfold PS in Hst'.
    destruct fr; try discriminate Hf; cbn [plain_frame] in Hf;
      repeat match goal with
             | H : (_ && _)%bool = true |- _ => apply andb_true_iff in H; destruct H
             | H : is_main P ?d = true |- _ => apply is_main_eq in H; subst d
             | H : negb ?f = true |- _ => apply negb_true_iff in H; subst f
             | H : ?u = true |- _ => is_var u; subst u
             end;
      destruct sg; cbn [clean_sig] in Hs;
      try match goal with H : clean ?v = true |- _ => pose proof (clean_not_rec v H) as Hnr; pose proof (clean_not_exn v H) as Hne end;
      cbn [step_frame creates] in *; rewrite ?Hnr, ?Hne, ?Hsw, ?Hhd, ?(plain_dep_error P _ _ _ Hst'), ?(plain_no_subgraph_error _ _ Hst');
      unfold default_or_raise, reduced; cbn [d_oneof d_rec maind andb];
      repeat break_match; spawn_norm; cbn [fst];
      try match goal with H : is_switch _ _ = true |- _ => rewrite Hsw in H; discriminate H end;
      try match goal with H : is_head _ _ = true |- _ => rewrite Hhd in H; discriminate H end;
      try match goal with H : dep_error _ _ _ _ = Some _ |- _ => rewrite (plain_dep_error P _ _ _ Hst') in H; discriminate H end;
      try discriminate Hc;
      try (tp_prims; fail).
  Qed.
End NoSpawnTasks.

Section GenTasks.
  Variable P : prog.
  Notation G := (b_graph (build (p_decls P) (p_inp P) (p_out P))).
  Hypothesis Hsw : forall n, is_switch G n = false.
  Hypothesis Hhd : forall n, is_head G n = false.
  Hypothesis Hbody : forall i kw a v, p_body P i kw a = OVal v -> clean v = true.

  Variable TP : task frame -> Prop.
  Hypothesis TP_wake : forall x w k, t_state x = TWait w k -> TP x -> TP (with_ts x (TReady k SGo)).
  Hypothesis TP_cancel_ready : forall x k sg, t_state x = TReady k sg -> TP x -> TP (with_ts x (TReady k (SThrow XCancelled))).
  Hypothesis TP_cancel_wait : forall x w k, t_state x = TWait w k -> TP x -> TP (with_ts x (TReady k (SThrow XCancelled))).
  Hypothesis TP_launcher : forall i, TP {| t_id := i; t_name := TNRun; t_state := TReady [FDagStart (maind P)] SGo; t_helper := true |}.
  Hypothesis TP_node : forall i n, TP {| t_id := i; t_name := TNNode n; t_state := TReady [FNodeStart (maind P) n false] SGo; t_helper := true |}.

  Ltac tpg_prims :=
    repeat first
           [ assumption
           | apply (ok_notify TP TP_wake) | apply (ok_notify_keys TP TP_wake) | apply (ok_set_event TP TP_wake)
           | apply (ok_cancel_tasks TP TP_cancel_ready TP_cancel_wait) | apply (ok_cancel_task TP TP_cancel_ready TP_cancel_wait)
           | apply (ok_finally_a TP TP_wake) | apply (ok_finally_b TP TP_wake)
           | apply ok_emit_obs | apply ok_with_store | apply ok_bump | apply ok_set_adddata | apply ok_push_ready
           | apply (ok_wake_all TP TP_wake)
           | (apply ok_spawn; [|first [apply TP_launcher|apply TP_node]]) ].

  (* every task other than the running one keeps a predicate that is stable under wake / cancel and holds of the two kinds of
     task a plain program creates *)
  Lemma plain_step_tasks_gen t fr sg st :
    plain_frame P fr = true -> clean_sig sg -> PS st -> tasks_ok TP st -> tasks_ok TP (fst (step_frame P t fr sg st)).
  Proof.
    intros Hf Hs Hst Ht. pose proof Hst as Hst'. unfold PS in Hst'.
    destruct fr; try discriminate Hf; cbn [plain_frame] in Hf;
      repeat match goal with
             | H : (_ && _)%bool = true |- _ => apply andb_true_iff in H; destruct H
             | H : is_main P ?d = true |- _ => apply is_main_eq in H; subst d
             | H : negb ?f = true |- _ => apply negb_true_iff in H; subst f
             | H : ?u = true |- _ => is_var u; subst u
             end;
      destruct sg; cbn [clean_sig] in Hs;
      try match goal with H : clean ?v = true |- _ => pose proof (clean_not_rec v H) as Hnr; pose proof (clean_not_exn v H) as Hne end;
      cbn [step_frame]; rewrite ?Hnr, ?Hne, ?Hsw, ?Hhd, ?(plain_dep_error P _ _ _ Hst'), ?(plain_no_subgraph_error _ _ Hst');
      unfold default_or_raise, reduced; cbn [d_oneof d_rec maind andb];
      repeat break_match; spawn_norm; cbn [fst];
      try match goal with H : is_switch _ _ = true |- _ => rewrite Hsw in H; discriminate H end;
      try match goal with H : is_head _ _ = true |- _ => rewrite Hhd in H; discriminate H end;
      fold (maind P); tpg_prims.
  Qed.
End GenTasks.

Section SpawnSteps.
  Variable P : prog.
  Notation G := (b_graph (build (p_decls P) (p_inp P) (p_out P))).
  Hypothesis Hsw : forall n, is_switch G n = false.
  Hypothesis Hhd : forall n, is_head G n = false.

  Lemma step_launch t v st :
    (needs_thread P && negb (p_thread_ready P)) || (needs_process P && negb (p_process_ready P)) = false ->
    step_frame P t FChartAfterStart (SVal v) st
    = (fst (spawn TNRun true [FDagStart (maind P)] st), DCont [FRunWait; FChartAfterRun] SGo).
  Proof. intros H. cbn [step_frame]. rewrite H. reflexivity. Qed.

  Lemma step_spawn_node t n rest locals st :
    PS st -> is_ready P (st_store st) (maind P) n = true ->
    step_frame P t (FDagLoop (maind P) (n :: rest) locals) SGo st
    = (fst (spawn (TNNode n) true [FNodeStart (maind P) n false] st), DCont [FDagLoop (maind P) rest (locals ++ [st_next st])] SGo).
  Proof.
    intros Hst Hr. unfold PS in Hst. cbn [step_frame]. rewrite Hr. cbn [d_oneof maind andb].
    rewrite (plain_dep_error P _ _ _ Hst), Hsw, Hhd. reflexivity.
  Qed.
End SpawnSteps.

(* ---- roles: task 0 runs the chart, task 1 is the launcher, task 2+i runs the i-th node of the order ---------------------- *)
Section Roles.
  Variable P : prog.
  Notation G := (b_graph (build (p_decls P) (p_inp P) (p_out P))).
  Hypothesis Hsw : forall n, is_switch G n = false.
  Hypothesis Hhd : forall n, is_head G n = false.
  Hypothesis Hbody : forall i kw a v, p_body P i kw a = OVal v -> clean v = true.

  Definition order : list key := p_order P (maind P).

  Definition name_of_id (i : tid) : tname :=
    match i with
    | 0 => TNMain
    | 1 => TNRun
    | S (S j) => TNNode (nth j order (KN 0))
    end.

  Definition is_dag_frame (f : frame) : bool := match f with FDagStart _ | FDagLoop _ _ _ | FDagFinal _ => true | _ => false end.
  Definition is_chart_frame (f : frame) : bool :=
    match f with FChartStart | FChartAfterStart | FChartAfterRun | FChartAfterEmitOk _ | FChartAfterEmitErr _ | FRunWait => true | _ => false end.
  Definition early_frame (f : frame) : bool := match f with FChartStart | FChartAfterStart => true | _ => false end.

  (* what the stack of task i looks like when n tasks have been created *)
  Definition role_stack (i : tid) (n : nat) (k : list frame) : Prop :=
    match i with
    | 0 => forallb (fun f => negb (is_dag_frame f)) k = true /\ (existsb early_frame k = true <-> n = 1)
    | 1 => (k = [FDagStart (maind P)] /\ n = 2)
           \/ (exists locals, k = [FDagLoop (maind P) (skipn (n - 2) order) locals] /\ 2 <= n)
           \/ (k = [FDagFinal (maind P)] /\ skipn (n - 2) order = [] /\ 2 <= n)
    | _ => forallb (fun f => negb (is_dag_frame f) && negb (is_chart_frame f)) k = true
    end.

  Definition role_ok (n : nat) (x : task frame) : Prop :=
    t_name x = name_of_id (t_id x) /\ t_id x < n /\
    match t_state x with
    | TReady k _ | TWait _ k => role_stack (t_id x) n k
    | TDone _ => True
    end.

  (* all tasks except the one being executed (whose entry is stale) play their role *)
  Definition roles_x (t : option tid) (st : mstate) : Prop :=
    forall x, In x (st_tasks st) -> Some (t_id x) <> t -> role_ok (st_next st) x.
End Roles.
