(* ALL programs, every schedule, event managers that do not raise: a node's value is stored -- hence can reach a consumer, the
   artifact store or the caller -- only after every manager has been told on_node_complete(node, error=None) (C14).
   "Value": a result that is not a contained failure (inside a one-of scope a failure is stored as a result; a failure is reported
   with on_node_complete(error)).  "Node": not the synthetic head of a one-of (its result is the winning candidate's). *)
From MLPE Require Import Engine.Run Proofs.ExecLemmas Proofs.Evolve Proofs.StackInv Proofs.Micro Proofs.PlainLive Proofs.PlainCore Proofs.PlainInv
     Proofs.PlainExec Proofs.PlainEvents Proofs.PipeAll.
Require Import Lia.

(* frames of _run_node / _run_recurrent_subgraph for node n: n is not a one-of head *)
Definition node_of (f : frame) : option key :=
  match f with
  | FNodeStart _ n _ | FNodeAfterExec _ n | FRecStart _ n _ | FRecLoop _ n _ _ _ _ | FRecAfterIter _ n _ _ _ => Some n
  | _ => None
  end.

Section KeyKinds.
  Variable P : prog.
  Notation G := (b_graph (build (p_decls P) (p_inp P) (p_out P))).

  Definition nhf (f : frame) : bool := match node_of f with Some n => negb (is_head G n) | None => true end.
  Definition nh_TP (x : task frame) : Prop := forallb nhf (estack (t_state x)) = true.
  Lemma nh_wake x w k : t_state x = TWait w k -> nh_TP x -> nh_TP (with_ts x (TReady k SGo)).
  Proof. unfold nh_TP. intros E H. rewrite E in H. exact H. Qed.
  Lemma nh_cancel_ready x k sg : t_state x = TReady k sg -> nh_TP x -> nh_TP (with_ts x (TReady k (SThrow XCancelled))).
  Proof. unfold nh_TP. intros E H. rewrite E in H. exact H. Qed.
  Lemma nh_cancel_wait x w k : t_state x = TWait w k -> nh_TP x -> nh_TP (with_ts x (TReady k (SThrow XCancelled))).
  Proof. unfold nh_TP. intros E H. rewrite E in H. exact H. Qed.

  Ltac nh_prims :=
    repeat first
           [ assumption
           | apply (ok_notify nh_TP nh_wake) | apply (ok_notify_keys nh_TP nh_wake) | apply (ok_set_event nh_TP nh_wake)
           | apply (ok_cancel_tasks nh_TP nh_cancel_ready nh_cancel_wait) | apply (ok_cancel_task nh_TP nh_cancel_ready nh_cancel_wait)
           | apply (ok_finally_a nh_TP nh_wake) | apply (ok_finally_b nh_TP nh_wake)
           | apply ok_emit_obs | apply ok_with_store | apply ok_bump | apply ok_set_adddata | apply ok_push_ready | apply ok_fold_hide
           | apply (ok_wake_all nh_TP nh_wake) ].

  (* every task of the table keeps the invariant, the tasks a step creates included *)
  Lemma step_nh_tasks t fr sg st : nhf fr = true -> tasks_ok nh_TP st -> tasks_ok nh_TP (fst (step_frame P t fr sg st)).
  Proof.
    intros Hf H. destruct fr; destruct sg; cbn [step_frame]; unfold default_or_raise, reduced;
      repeat break_match; spawn_norm; cbn [fst];
      repeat match goal with
             | |- tasks_ok _ (fst (spawn _ _ _ _)) => apply ok_spawn; [|unfold nh_TP, nhf in *; cbn [t_state estack forallb node_of] in *; rewrite ?andb_true_r;
                                                                        first [reflexivity | assumption | match goal with Hq : is_head _ _ = false |- _ => rewrite Hq; reflexivity end]]
             | _ => progress nh_prims
             end.
  Qed.

  Lemma step_nh_frames t fr sg st : nhf fr = true -> forallb nhf (dir_frames (snd (step_frame P t fr sg st))) = true.
  Proof.
    intros Hf. unfold nhf in *. destruct fr; destruct sg; cbn [step_frame]; unfold default_or_raise, reduced; repeat break_match;
      unfold emit_frames; cbn [snd dir_frames forallb node_of andb] in *; rewrite ?Hf; reflexivity.
  Qed.
End KeyKinds.

(* ---- a relation "no event of a given kind is added to the history", respected by every primitive ---- *)
Section NoEvent.
  Variable bad : obs -> bool.
  Definition nq (st st' : mstate) : Prop :=
    exists new, st_trace st' = new ++ st_trace st /\ forallb (fun o => negb (bad o)) new = true.
  Lemma nq_refl st : nq st st. Proof. exists []. split; reflexivity. Qed.
  Lemma nq_trans a b c : nq a b -> nq b c -> nq a c.
  Proof. intros [n1 [E1 H1]] [n2 [E2 H2]]. exists (n2 ++ n1). rewrite E2, E1, app_assoc, forallb_app, H1, H2. split; reflexivity. Qed.
  Lemma nq_same st st' : st_trace st' = st_trace st -> nq st st'.
  Proof. intros E. exists []. rewrite E. split; reflexivity. Qed.
  Lemma nq_with_store f st : nq st (with_store f st). Proof. apply nq_same; reflexivity. Qed.
  Lemma nq_bump c st : nq st (bump c st). Proof. apply nq_same; reflexivity. Qed.
  Lemma nq_set_adddata k v st : nq st (set_adddata k v st). Proof. apply nq_same; reflexivity. Qed.
  Lemma nq_push_ready t st : nq st (push_ready t st). Proof. apply nq_same; reflexivity. Qed.
  Lemma nq_set_waiters w st : nq st (set_waiters w st). Proof. apply nq_same; reflexivity. Qed.
  Lemma nq_set_tstate t ts st : nq st (set_tstate t ts st). Proof. apply nq_same; reflexivity. Qed.
  Lemma nq_add_event n st : nq st (add_event n st). Proof. apply nq_same; reflexivity. Qed.
  Lemma nq_emit o st : bad o = false -> nq st (emit_obs o st).
  Proof. intros H. exists [o]. split; [reflexivity|]. cbn. rewrite H. reflexivity. Qed.
  Hypothesis bad_spawn : forall t nm, bad (OSpawn t nm) = false.
  Hypothesis bad_hide : forall k, bad (OHide k) = false.
  Lemma nq_spawn nm h k st : nq st (fst (spawn nm h k st)).
  Proof. exists [OSpawn (st_next st) nm]. split; [reflexivity|]. cbn. rewrite bad_spawn. reflexivity. Qed.
  Definition nq_notify := R_notify nq nq_trans nq_push_ready nq_set_waiters nq_set_tstate.
  Definition nq_wake_all := R_wake_all nq nq_trans nq_push_ready nq_set_waiters nq_set_tstate.
  Definition nq_notify_keys := R_notify_keys nq nq_trans nq_push_ready nq_set_waiters nq_set_tstate.
  Definition nq_set_event := R_set_event nq nq_trans nq_push_ready nq_set_waiters nq_set_tstate nq_add_event.
  Definition nq_cancel_task := R_cancel_task nq nq_trans nq_push_ready nq_set_waiters nq_set_tstate.
  Definition nq_cancel_tasks := R_cancel_tasks nq nq_trans nq_push_ready nq_set_waiters nq_set_tstate.
  Definition nq_finally_a := R_finally_a nq nq_trans nq_push_ready nq_set_waiters nq_set_tstate nq_add_event.
  Definition nq_finally_b P := R_finally_b P nq nq_trans nq_push_ready nq_set_waiters nq_set_tstate nq_add_event.
  Lemma nq_fold_hide (l : list key) st0 st : nq st0 st -> nq st0 (fold_left (fun s k => emit_obs (OHide k) s) l st).
  Proof. revert st. induction l as [|k r IH]; intros st H; cbn [fold_left]; [exact H|]. apply IH. eapply nq_trans; [exact H|]. apply nq_emit. apply bad_hide. Qed.

  Lemma split_old (new tr a b : list obs) (x : obs) :
    forallb (fun o => negb (bad o)) new = true -> bad x = true ->
    new ++ tr = a ++ x :: b -> exists a', a = new ++ a' /\ tr = a' ++ x :: b.
  Proof.
    revert a. induction new as [|o r IH]; intros a Hn Hx E.
    - exists a. split; [reflexivity|exact E].
    - cbn [forallb] in Hn. apply andb_true_iff in Hn. destruct Hn as [Ho Hr].
      destruct a as [|y a'].
      + cbn [app] in E. inversion E; subst. rewrite Hx in Ho. discriminate Ho.
      + cbn [app] in E. inversion E; subst. destruct (IH a' Hr Hx H1) as [a'' [-> ->]]. exists a''. split; reflexivity.
  Qed.
End NoEvent.

Definition head_of (f : frame) : option key := match f with FOneOfLoop _ h _ | FOneOfWait _ h _ _ _ => Some h | _ => None end.

Section ValuesAll.
  Variable P : prog.
  Notation G := (b_graph (build (p_decls P) (p_inp P) (p_out P))).
  Notation M := (p_mgrs P).
  Hypothesis Hnf : forall m ev n k, p_mgr_fault P m ev n k = false.

  (* key kinds: node frames carry non-heads (KeyKinds above), one-of frames carry heads *)
  Definition kf (f : frame) : bool :=
    nhf P f && match head_of f with Some h => is_head G h | None => true end.
  Definition kk_TP (x : task frame) : Prop := forallb kf (estack (t_state x)) = true.
  Lemma kk_wake x w k : t_state x = TWait w k -> kk_TP x -> kk_TP (with_ts x (TReady k SGo)).
  Proof. unfold kk_TP. intros E H. rewrite E in H. exact H. Qed.
  Lemma kk_cancel_ready x k sg : t_state x = TReady k sg -> kk_TP x -> kk_TP (with_ts x (TReady k (SThrow XCancelled))).
  Proof. unfold kk_TP. intros E H. rewrite E in H. exact H. Qed.
  Lemma kk_cancel_wait x w k : t_state x = TWait w k -> kk_TP x -> kk_TP (with_ts x (TReady k (SThrow XCancelled))).
  Proof. unfold kk_TP. intros E H. rewrite E in H. exact H. Qed.

  Ltac kk_prims :=
    repeat first
           [ assumption
           | apply (ok_notify kk_TP kk_wake) | apply (ok_notify_keys kk_TP kk_wake) | apply (ok_set_event kk_TP kk_wake)
           | apply (ok_cancel_tasks kk_TP kk_cancel_ready kk_cancel_wait) | apply (ok_cancel_task kk_TP kk_cancel_ready kk_cancel_wait)
           | apply (ok_finally_a kk_TP kk_wake) | apply (ok_finally_b kk_TP kk_wake)
           | apply ok_emit_obs | apply ok_with_store | apply ok_bump | apply ok_set_adddata | apply ok_push_ready | apply ok_fold_hide
           | apply (ok_wake_all kk_TP kk_wake) ].

  Lemma step_kk_tasks t fr sg st : kf fr = true -> tasks_ok kk_TP st -> tasks_ok kk_TP (fst (step_frame P t fr sg st)).
  Proof.
    intros Hf H. unfold kf, nhf in Hf. destruct fr; destruct sg; cbn [step_frame]; unfold default_or_raise, reduced;
      repeat break_match; spawn_norm; cbn [fst];
      repeat match goal with
             | |- tasks_ok _ (fst (spawn _ _ _ _)) =>
               apply ok_spawn; [|unfold kk_TP, kf, nhf in *; cbn [t_state estack forallb node_of head_of andb] in *; rewrite ?andb_true_r in *;
                                 first [reflexivity | assumption
                                       | match goal with Hq : is_head _ _ = _ |- _ => rewrite Hq; reflexivity end
                                       | (apply andb_true_iff in Hf; destruct Hf as [Hf1 Hf2]; first [exact Hf1|exact Hf2])]]
             | _ => progress kk_prims
             end.
  Qed.

  Lemma step_kk_frames t fr sg st : kf fr = true -> forallb kf (dir_frames (snd (step_frame P t fr sg st))) = true.
  Proof.
    intros Hf. unfold kf, nhf in *. destruct fr; destruct sg; cbn [step_frame]; unfold default_or_raise, reduced; repeat break_match;
      unfold emit_frames; cbn [snd dir_frames forallb node_of head_of andb] in *; rewrite ?andb_true_r in *; rewrite ?Hf; try reflexivity;
      try (apply andb_true_iff in Hf; destruct Hf as [Hf1 Hf2]; rewrite ?Hf1, ?Hf2; reflexivity).
  Qed.
End ValuesAll.

Section Announce.
  Variable P : prog.
  Notation G := (b_graph (build (p_decls P) (p_inp P) (p_out P))).
  Notation M := (p_mgrs P).
  Hypothesis Hnf : forall m ev n k, p_mgr_fault P m ev n k = false.

  (* the storing of a node's value: not a contained failure, not the result of a one-of head *)
  Definition is_value_store (o : obs) : bool :=
    match o with OSetResult n v => negb (is_exn v) && negb (is_head G n) | _ => false end.

  Definition topV (tr : list obs) (f : frame) (sg : option signal) : Prop :=
    match f with
    | FEmit EvNodeComplete (Some n) None None mgr r => forall m, m < mgr + (if r then 1 else 0) -> m < M -> In (done_ev m n) tr
    | FExecAfterOk _ n _ => (exists v, sg = Some (SVal v)) -> ann P tr n
    | FNodeAfterExec _ n => forall v, sg = Some (SVal v) -> is_exn v = false -> ann P tr n
    | _ => True
    end.
  Definition topCV (tr : list obs) (k : list frame) (sg : option signal) : Prop := match k with f :: _ => topV tr f sg | [] => True end.
  Definition belowV (tr : list obs) (g : frame) (v : value) : Prop :=
    match g with FExecAfterOk _ n _ => ann P tr n | FNodeAfterExec _ n => is_exn v = false -> ann P tr n | _ => True end.
  Definition top_afterV (tr : list obs) (fr : frame) (d : directive) : Prop :=
    match d with
    | DSuspend _ k' => topCV tr k' None
    | DYield k' => topCV tr k' (Some SGo)
    | DCont k' s' => topCV tr k' (Some s')
    | DRet s' => forall v, s' = SVal v -> forall g, adj fr g = true -> belowV tr g v
    end.

  Lemma topV_mono new tr f sg : topV tr f sg -> topV (new ++ tr) f sg.
  Proof.
    destruct f; cbn [topV]; try (intros; exact I).
    - destruct ev; try (intros; exact I). destruct n as [n|]; try (intros; exact I). destruct err; try (intros; exact I).
      destruct res; try (intros; exact I). intros H m Hm Hp. apply in_or_app. right. exact (H m Hm Hp).
    - intros H v Hv He. apply ann_mono. exact (H v Hv He).
    - intros H Hs. apply ann_mono. exact (H Hs).
  Qed.
  Lemma topCV_mono new tr k sg : topCV tr k sg -> topCV (new ++ tr) k sg.
  Proof. destruct k; [auto|apply topV_mono]. Qed.

  Lemma step_pairs_all t fr sg st :
    pairs (dir_frames (snd (step_frame P t fr sg st))) = true /\
    (forall g, adj fr g = true -> adj (last (dir_frames (snd (step_frame P t fr sg st))) fr) g = true) /\
    dir_ne (snd (step_frame P t fr sg st)) = true.
  Proof.
    destruct fr; destruct sg; cbn [step_frame]; unfold default_or_raise, reduced;
      repeat break_match; unfold emit_frames; cbn [snd dir_frames dir_ne pairs adj last andb]; rewrite ?key_eqb_refl;
      (split; [reflexivity|split; [intros g Hg; destruct g; cbn [adj] in *; try reflexivity; try discriminate Hg; exact Hg|reflexivity]]).
  Qed.

  Lemma step_topV_all t fr sg st :
    topV (st_trace st) fr (Some sg) ->
    top_afterV (st_trace (fst (step_frame P t fr sg st))) fr (snd (step_frame P t fr sg st)).
  Proof.
    destruct fr; destruct sg; cbn [step_frame]; rewrite ?Hnf; unfold default_or_raise, reduced;
      repeat break_match; spawn_norm; cbn [fst snd];
      unfold emit_frames; cbn [top_afterV topCV topV]; intros Htop;
      try exact I;
      try (intros ? Hv; discriminate Hv).
    all: try (intros m Hm; exfalso; lia).
    all: try (intros v' Hv' g Hg; destruct g; cbn [adj belowV] in *; try exact I; try discriminate Hg).
    all: repeat match goal with
                | |- context [match ?e with EvPipelineStart => _ | _ => _ end] => destruct e
                | H : context [match ?e with EvPipelineStart => _ | _ => _ end] |- _ => destruct e
                | |- context [match ?o with Some _ => _ | None => _ end] => destruct o
                | H : context [match ?o with Some _ => _ | None => _ end] |- _ => destruct o
                end; try exact I; try discriminate.
    all: cbn [st_trace emit_obs bump fst] in *.
    all: try (intros m Hm Hp; first [apply Htop; lia | destruct (Nat.eq_dec m mgr) as [->|Hne]; [left; reflexivity|right; apply Htop; lia]]).
    all: try match goal with Hg : key_eqb _ _ = true |- _ => apply key_eqb_spec in Hg; subst end.
    all: try (intros m Hm; apply Htop; [|exact Hm]; match goal with Hq : (_ <=? _) = true |- _ => apply Nat.leb_le in Hq; lia end).
    all: try (inversion Hv'; subst; intros He; cbn in He; discriminate He).
    all: try (intros _; apply Htop; eauto).
    all: try (apply Htop; eauto).
  Qed.
End Announce.

Section AnnounceInv.
  Variable P : prog.
  Notation G := (b_graph (build (p_decls P) (p_inp P) (p_out P))).
  Notation M := (p_mgrs P).
  Hypothesis Hnf : forall m ev n k, p_mgr_fault P m ev n k = false.

  Notation bad := (is_value_store P).
  Lemma bad_spawn t nm : bad (OSpawn t nm) = false. Proof. reflexivity. Qed.
  Lemma bad_hide k : bad (OHide k) = false. Proof. reflexivity. Qed.

  Ltac vq_prims :=
    repeat first
           [ apply nq_refl
           | apply nq_notify | apply nq_notify_keys | apply nq_set_event | apply nq_cancel_tasks | apply nq_cancel_task
           | apply nq_finally_a | apply nq_finally_b | apply nq_wake_all | (apply nq_fold_hide; [exact bad_hide|])
           | (eapply nq_trans; [|apply nq_with_store]) | (eapply nq_trans; [|apply nq_bump])
           | (eapply nq_trans; [|apply nq_set_adddata]) | (eapply nq_trans; [|apply nq_push_ready])
           | (eapply nq_trans; [|apply nq_spawn; exact bad_spawn])
           | (eapply nq_trans; [|apply nq_emit; first [reflexivity | cbn [is_value_store is_exn negb andb]; reflexivity]]) ].

  (* the history grows by the storing of a node's value only where _run_node stores what _execute_node returned *)
  Lemma step_value_store t fr sg st :
    kf P fr = true ->
    (exists d n v b1, fr = FNodeAfterExec d n /\ sg = SVal v /\
                      st_trace (fst (step_frame P t fr sg st)) = OSetResult n v :: b1 ++ st_trace st /\
                      forallb (fun o => negb (bad o)) b1 = true) \/
    nq bad st (fst (step_frame P t fr sg st)).
  Proof.
    intros Hk. unfold kf, nhf in Hk.
    destruct fr; destruct sg; cbn [step_frame]; unfold default_or_raise, reduced; repeat break_match; spawn_norm; cbn [fst];
      cbn [node_of head_of andb] in Hk;
      first [ right; vq_prims; fail
            | left; do 4 eexists; split; [reflexivity|split; [reflexivity|]];
              cbn [st_trace emit_obs with_store spawn fst];
              first [ split; [instantiate (1 := [_]); reflexivity|reflexivity] | split; [instantiate (1 := []); reflexivity|reflexivity] ]
            | right; (* the result of a one-of head *)
              first [apply andb_true_iff in Hk; destruct Hk as [_ Hh] | pose proof Hk as Hh];
              repeat first [ apply nq_refl | apply nq_notify | apply nq_notify_keys | (eapply nq_trans; [|apply nq_with_store])
                           | (eapply nq_trans; [|apply nq_emit; cbn [is_value_store]; rewrite Hh; apply andb_false_r]) ] ].
  Qed.

  Definition vk_ok (tr : list obs) (k : list frame) (sg : option signal) : Prop :=
    (pairs k = true /\ forallb (kf P) k = true) /\ topCV P tr k sg.
  Definition TPv (tr : list obs) (x : task frame) : Prop :=
    match t_state x with
    | TReady k sg => vk_ok tr k (Some sg)
    | TWait _ k => vk_ok tr k None
    | TDone _ => True
    end.
  Definition cur_v (tr : list obs) (c : running) : Prop := match c with Some (_, k, sg) => vk_ok tr k (Some sg) | None => True end.

  Lemma topCV_nonval tr k s s' : (forall v, s' <> Some (SVal v)) -> topCV P tr k s -> topCV P tr k s'.
  Proof.
    intros Hn. destruct k as [|f r]; [auto|]. cbn [topCV]. destruct f; cbn [topV]; auto.
    - intros _ v9 Hv. exfalso. exact (Hn v9 Hv).
    - intros _ [v9 Hv]. exfalso. exact (Hn v9 Hv).
  Qed.
  Lemma vk_nonval tr k s s' : (forall v, s' <> Some (SVal v)) -> vk_ok tr k s -> vk_ok tr k s'.
  Proof. intros Hn (A & B). split; [exact A|exact (topCV_nonval tr k s s' Hn B)]. Qed.
  Lemma vk_mono new tr k s : vk_ok tr k s -> vk_ok (new ++ tr) k s.
  Proof. intros (A & B). split; [exact A|apply topCV_mono; exact B]. Qed.

  Lemma TPv_wake tr x w k : t_state x = TWait w k -> TPv tr x -> TPv tr (with_ts x (TReady k SGo)).
  Proof. unfold TPv. intros E H. rewrite E in H. cbn. eapply vk_nonval; [|exact H]. intros v Hv. discriminate Hv. Qed.
  Lemma TPv_cancel_ready tr x k sg : t_state x = TReady k sg -> TPv tr x -> TPv tr (with_ts x (TReady k (SThrow XCancelled))).
  Proof. unfold TPv. intros E H. rewrite E in H. cbn. eapply vk_nonval; [|exact H]. intros v Hv. discriminate Hv. Qed.
  Lemma TPv_cancel_wait tr x w k : t_state x = TWait w k -> TPv tr x -> TPv tr (with_ts x (TReady k (SThrow XCancelled))).
  Proof. unfold TPv. intros E H. rewrite E in H. cbn. eapply vk_nonval; [|exact H]. intros v Hv. discriminate Hv. Qed.
  Lemma tasks_TPv_mono new tr st : tasks_ok (TPv tr) st -> tasks_ok (TPv (new ++ tr)) st.
  Proof. unfold tasks_ok. apply Forall_impl. intros x. unfold TPv. destruct (t_state x); auto; apply vk_mono. Qed.

  (* the part of TPv that depends on the keys is kk_TP; the rest is closed under spawning any frame *)
  Definition TPw (tr : list obs) (x : task frame) : Prop :=
    match t_state x with
    | TReady k sg => pairs k = true /\ topCV P tr k (Some sg)
    | TWait _ k => pairs k = true /\ topCV P tr k None
    | TDone _ => True
    end.
  Lemma TPw_wake tr x w k : t_state x = TWait w k -> TPw tr x -> TPw tr (with_ts x (TReady k SGo)).
  Proof. unfold TPw. intros E H. rewrite E in H. cbn. destruct H as [A B]. split; [exact A|]. eapply topCV_nonval; [|exact B]. intros v Hv. discriminate Hv. Qed.
  Lemma TPw_cancel_ready tr x k sg : t_state x = TReady k sg -> TPw tr x -> TPw tr (with_ts x (TReady k (SThrow XCancelled))).
  Proof. unfold TPw. intros E H. rewrite E in H. cbn. destruct H as [A B]. split; [exact A|]. eapply topCV_nonval; [|exact B]. intros v Hv. discriminate Hv. Qed.
  Lemma TPw_cancel_wait tr x w k : t_state x = TWait w k -> TPw tr x -> TPw tr (with_ts x (TReady k (SThrow XCancelled))).
  Proof. unfold TPw. intros E H. rewrite E in H. cbn. destruct H as [A B]. split; [exact A|]. eapply topCV_nonval; [|exact B]. intros v Hv. discriminate Hv. Qed.
  Lemma TPw_spawn tr i nm f : 1 <= i -> spawn_frame f = true -> TPw tr {| t_id := i; t_name := nm; t_state := TReady [f] SGo; t_helper := true |}.
  Proof. intros _ Hf. unfold TPw. cbn. split; [reflexivity|]. destruct f; try discriminate Hf; exact I. Qed.
  Lemma TPw_mono new tr st : tasks_ok (TPw tr) st -> tasks_ok (TPw (new ++ tr)) st.
  Proof. unfold tasks_ok. apply Forall_impl. intros x. unfold TPw. destruct (t_state x); auto; intros [A B]; (split; [exact A|apply topCV_mono; exact B]). Qed.

  Definition value_store_ok (tr : list obs) : Prop :=
    forall a b n v, tr = a ++ OSetResult n v :: b -> is_exn v = false -> is_head G n = false -> ann P b n.

  Theorem creach_values_all : forall st c, creach P st c ->
    (tasks_ok (TPw (st_trace st)) st /\ tasks_ok (kk_TP P) st) /\
    (match c with Some (_, k, sg) => (pairs k = true /\ forallb (kf P) k = true) /\ topCV P (st_trace st) k (Some sg) | None => True end) /\
    value_store_ok (st_trace st).
  Proof.
    intros st c H. pose proof (creach_evolves P st c H) as Hev0.
    induction H as [|st t rest x k sg H IH Hq Hf Ht|st t rest H IH Hq|st t fr rest sg H IH|st t sg H IH|st c H IH|st g H IH|st H IH].
    - split; [split|split; [exact I|]].
      + unfold tasks_ok, init_state. cbn. constructor; [|constructor]. unfold TPw. cbn. split; [reflexivity|exact I].
      + unfold tasks_ok, init_state. cbn. constructor; [reflexivity|constructor].
      + intros a b n v E. cbn in E. destruct a as [|y a']; [discriminate E|]. inversion E. destruct a'; discriminate.
    - destruct (IH (creach_evolves P _ _ H)) as ((A & K) & _ & C). split; [split; apply ok_dequeue; assumption|]. split; [|exact C].
      destruct (find_task_in _ _ _ Hf) as [Hin _]. unfold tasks_ok in A, K. rewrite Forall_forall in A, K. pose proof (A x Hin) as Ax. pose proof (K x Hin) as Kx.
      unfold TPw in Ax. unfold kk_TP in Kx. rewrite Ht in Ax, Kx. cbn [estack] in Kx. destruct Ax as [A1 A2]. split; [split; assumption|exact A2].
    - destruct (IH (creach_evolves P _ _ H)) as ((A & K) & _ & C). split; [split; apply ok_dequeue; assumption|]. split; [exact I|exact C].
    - pose proof (creach_evolves P _ _ H) as Hev. destruct (IH Hev) as ((A & K) & ((Bp & Bk) & Bt) & C).
      pose proof (ev_next _ _ Hev) as Hn1. cbn in Hn1. cbn [forallb] in Bk. apply andb_true_iff in Bk. destruct Bk as [Kf Kr].
      destruct (step_pairs_all P t fr sg st) as (Hp1 & Hp2 & Hp3).
      cbn [topCV] in Bt.
      pose proof (step_topV_all P Hnf t fr sg st Bt) as Htop.
      destruct (ev_trace _ _ (ev_step_frame P t fr sg st)) as [new Etr].
      assert (A1 : tasks_ok (TPw (st_trace (fst (step_frame P t fr sg st)))) (fst (step_frame P t fr sg st))).
      { apply (step_frame_tasks_ok P (TPw _) (TPw_wake _) (TPw_cancel_ready _) (TPw_cancel_wait _) (TPw_spawn _)); [exact Hn1|].
        rewrite Etr. apply TPw_mono. exact A. }
      pose proof (step_kk_tasks P t fr sg st Kf K) as K1.
      pose proof (step_kk_frames P t fr sg st Kf) as Hk'.
      assert (Hkk : forallb (kf P) (dir_frames (snd (step_frame P t fr sg st)) ++ rest) = true) by (rewrite forallb_app, Hk', Kr; reflexivity).
      assert (Hpk : pairs (dir_frames (snd (step_frame P t fr sg st)) ++ rest) = true) by (apply (pairs_app fr); assumption).
      assert (C1 : value_store_ok (st_trace (fst (step_frame P t fr sg st)))).
      { destruct (step_value_store t fr sg st Kf) as [[d [n [v [b1 (-> & -> & Etr' & Hb1)]]]]|[new' [Etr' Hnew]]].
        - rewrite Etr'. intros a b n' v' E He Hh. destruct a as [|y a'].
          + cbn [app] in E. inversion E; subst n' v' b. apply ann_mono. cbn [topV] in Bt. exact (Bt v eq_refl He).
          + cbn [app] in E. inversion E as [[Ey E']].
            assert (Hbad : is_value_store P (OSetResult n' v') = true) by (unfold is_value_store; rewrite He, Hh; reflexivity).
            destruct (split_old (is_value_store P) b1 (st_trace st) a' b (OSetResult n' v') Hb1 Hbad E') as [a'' [_ E'']].
            exact (C a'' b n' v' E'' He Hh).
        - rewrite Etr'. intros a b n' v' E He Hh.
          assert (Hbad : is_value_store P (OSetResult n' v') = true) by (unfold is_value_store; rewrite He, Hh; reflexivity).
          destruct (split_old (is_value_store P) new' (st_trace st) a b (OSetResult n' v') Hnew Hbad E) as [a' [_ E']].
          exact (C a' b n' v' E' He Hh). }
      rewrite !trace_after_step'.
      split; [|split; [|exact C1]].
      + destruct (step_frame P t fr sg st) as [st1 [w k'|k'|k' sg'|sg']]; cbn [after_step fst snd dir_frames dir_ne top_afterV] in *.
        * split; (apply ok_suspend; [assumption|]); intros y _ _; [unfold TPw|unfold kk_TP]; cbn; [|exact Hkk].
          split; [exact Hpk|]. destruct k' as [|f1 k'']; [discriminate Hp3|exact Htop].
        * split; (apply ok_push_ready; apply ok_set_tstate; [assumption|]); intros y _ _; [unfold TPw|unfold kk_TP]; cbn; [|exact Hkk].
          split; [exact Hpk|]. destruct k' as [|f1 k'']; [discriminate Hp3|exact Htop].
        * split; assumption.
        * split; assumption.
      + destruct (step_frame P t fr sg st) as [st1 [w k'|k'|k' sg'|sg']]; cbn [after_step fst snd dir_frames dir_ne top_afterV] in *; try exact I.
        * split; [split; [exact Hpk|exact Hkk]|]. destruct k' as [|f1 k'']; [discriminate Hp3|exact Htop].
        * split; [split; [exact (pairs_tail _ _ Bp)|exact Kr]|]. destruct rest as [|g r]; [exact I|]. cbn [topCV].
          pose proof (pairs_head _ _ _ Bp) as Hadj.
          destruct g; cbn [topV]; try exact I; try (cbn [adj] in Hadj; discriminate Hadj).
          -- intros v0 Hv0 He. inversion Hv0; subst sg'. exact (Htop v0 eq_refl _ Hadj He).
          -- intros [v0 Hv0]. inversion Hv0; subst sg'. exact (Htop v0 eq_refl _ Hadj).
    - destruct (IH (creach_evolves P _ _ H)) as ((A & K) & _ & C). split; [split; (apply ok_set_tstate; [assumption|]); intros y _ _; [exact I|reflexivity]|]. split; [exact I|exact C].
    - destruct (IH (creach_evolves P _ _ H)) as ((A & K) & _ & C). split; [split; (apply ok_abort; [|assumption]); intros y k0 _; [exact I|reflexivity]|]. split; [exact I|exact C].
    - destruct (IH (creach_evolves P _ _ H)) as ((A & K) & _ & C). unfold complete_gate. rewrite trace_wake_all. split; [split|split; [exact I|exact C]].
      + apply (complete_gate_tasks_ok (TPw _) (TPw_wake _)). exact A.
      + apply (complete_gate_tasks_ok (kk_TP P) (kk_wake P)). exact K.
    - destruct (IH (creach_evolves P _ _ H)) as ((A & K) & _ & C). rewrite trace_cancel_task. split; [split|split; [exact I|exact C]].
      + apply (ok_cancel_task (TPw _) (TPw_cancel_ready _) (TPw_cancel_wait _)). exact A.
      + apply (ok_cancel_task (kk_TP P) (kk_cancel_ready P) (kk_cancel_wait P)). exact K.
  Qed.
End AnnounceInv.

Theorem values_are_stored_after_node_complete_all_programs P :
  (forall m ev n k, p_mgr_fault P m ev n k = false) ->
  forall st, reachable P st ->
    forall a b n v, st_trace st = a ++ OSetResult n v :: b -> is_exn v = false ->
      is_head (b_graph (build (p_decls P) (p_inp P) (p_out P))) n = false ->
      forall m, m < p_mgrs P -> In (done_ev m n) b.
Proof.
  intros Hnf st Hr a b n v E He Hh. destruct (creach_values_all P Hnf st None (reachable_creach P st Hr)) as (_ & _ & C). exact (C a b n v E He Hh).
Qed.
