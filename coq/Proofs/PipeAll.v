(* ALL programs (every construct, any bodies, any store, any order oracles), every schedule incl. cancellation, any number of event
   managers that do not raise (suspending ones included): the two pipeline-level events (C14).
   The chart task's stack has one of nine shapes whatever the program is; helper tasks never hold a frame that reports a
   pipeline-level event.  Hence: on_pipeline_start / on_pipeline_complete at most once per manager and without a node id; when run
   returns a PipelineResult every manager has seen both exactly once and on_pipeline_complete carried exactly that result; and
   on_pipeline_start comes before anything else. *)
From MLPE Require Import Engine.Run Proofs.ExecLemmas Proofs.Evolve Proofs.StackInv Proofs.Micro Proofs.PlainLive Proofs.PlainCore Proofs.PlainInv Proofs.PlainExec Proofs.PlainPipe.

(* ---- a relation every helper step respects: no pipeline-level event is added to the history ---- *)
Definition npq (st st' : mstate) : Prop :=
  exists new, st_trace st' = new ++ st_trace st /\ forallb (fun o => negb (is_pipe o)) new = true.

Lemma npq_refl st : npq st st. Proof. exists []. split; reflexivity. Qed.
Lemma npq_trans a b c : npq a b -> npq b c -> npq a c.
Proof. intros [n1 [E1 H1]] [n2 [E2 H2]]. exists (n2 ++ n1). rewrite E2, E1, app_assoc, forallb_app, H1, H2. split; reflexivity. Qed.
Lemma npq_same st st' : st_trace st' = st_trace st -> npq st st'.
Proof. intros E. exists []. rewrite E. split; reflexivity. Qed.
Lemma np_with_store f st : npq st (with_store f st). Proof. apply npq_same; reflexivity. Qed.
Lemma np_bump c st : npq st (bump c st). Proof. apply npq_same; reflexivity. Qed.
Lemma np_set_adddata k v st : npq st (set_adddata k v st). Proof. apply npq_same; reflexivity. Qed.
Lemma np_push_ready t st : npq st (push_ready t st). Proof. apply npq_same; reflexivity. Qed.
Lemma np_set_waiters w st : npq st (set_waiters w st). Proof. apply npq_same; reflexivity. Qed.
Lemma np_set_tstate t ts st : npq st (set_tstate t ts st). Proof. apply npq_same; reflexivity. Qed.
Lemma np_add_event n st : npq st (add_event n st). Proof. apply npq_same; reflexivity. Qed.
Lemma np_emit o st : is_pipe o = false -> npq st (emit_obs o st).
Proof. intros H. exists [o]. split; [reflexivity|]. cbn. rewrite H. reflexivity. Qed.
Lemma np_spawn nm h k st : npq st (fst (spawn nm h k st)).
Proof. exists [OSpawn (st_next st) nm]. split; reflexivity. Qed.

Definition np_notify := R_notify npq npq_trans np_push_ready np_set_waiters np_set_tstate.
Definition np_wake_all := R_wake_all npq npq_trans np_push_ready np_set_waiters np_set_tstate.
Definition np_notify_keys := R_notify_keys npq npq_trans np_push_ready np_set_waiters np_set_tstate.
Definition np_set_event := R_set_event npq npq_trans np_push_ready np_set_waiters np_set_tstate np_add_event.
Definition np_cancel_task := R_cancel_task npq npq_trans np_push_ready np_set_waiters np_set_tstate.
Definition np_cancel_tasks := R_cancel_tasks npq npq_trans np_push_ready np_set_waiters np_set_tstate.
Definition np_finally_a := R_finally_a npq npq_trans np_push_ready np_set_waiters np_set_tstate np_add_event.
Definition np_finally_b P := R_finally_b P npq npq_trans np_push_ready np_set_waiters np_set_tstate np_add_event.

Lemma np_fold_hide (l : list key) st0 st : npq st0 st -> npq st0 (fold_left (fun s k => emit_obs (OHide k) s) l st).
Proof.
  revert st. induction l as [|k r IH]; intros st H; cbn [fold_left]; [exact H|]. apply IH. eapply npq_trans; [exact H|]. apply np_emit. reflexivity.
Qed.

Ltac np_prims :=
  repeat first
         [ apply npq_refl
         | apply np_notify | apply np_notify_keys | apply np_set_event | apply np_cancel_tasks | apply np_cancel_task
         | apply np_finally_a | apply np_finally_b | apply np_wake_all | apply np_fold_hide
         | (eapply npq_trans; [|apply np_with_store]) | (eapply npq_trans; [|apply np_bump])
         | (eapply npq_trans; [|apply np_set_adddata]) | (eapply npq_trans; [|apply np_push_ready])
         | (eapply npq_trans; [|apply np_spawn])
         | (eapply npq_trans; [|apply np_emit; reflexivity]) ].

(* frames a helper task may hold: no frame of PipelineChart.run / manager.run, no emission of a pipeline-level event *)
Definition hpf (f : frame) : bool :=
  match f with
  | FChartStart | FChartAfterStart | FChartAfterRun | FChartAfterEmitOk _ | FChartAfterEmitErr _ | FRunWait => false
  | FEmit EvPipelineStart _ _ _ _ _ | FEmit EvPipelineComplete _ _ _ _ _ => false
  | _ => true
  end.

Section HelperSteps.
  Variable P : prog.

  Lemma step_hpf t fr sg st : hpf fr = true -> forallb hpf (dir_frames (snd (step_frame P t fr sg st))) = true.
  Proof.
    intros Hf. destruct fr; try discriminate Hf; try (destruct ev; try discriminate Hf);
      destruct sg; cbn [step_frame]; unfold default_or_raise, reduced; repeat break_match; cbn [snd dir_frames forallb hpf emit_frames andb]; reflexivity.
  Qed.

  Lemma step_npq t fr sg st : hpf fr = true -> npq st (fst (step_frame P t fr sg st)).
  Proof.
    intros Hf. destruct fr; try discriminate Hf; try (destruct ev; try discriminate Hf);
      destruct sg; cbn [step_frame]; unfold default_or_raise, reduced; repeat break_match; spawn_norm; cbn [fst]; np_prims.
  Qed.
End HelperSteps.

Lemma trace_after_step' t rest (r : mstate * directive) : st_trace (fst (after_step t rest r)) = st_trace (fst r).
Proof. destruct r as [st1 [w k'|k'|k' sg'|sg']]; reflexivity. Qed.
Lemma next_after_step' t rest (r : mstate * directive) : st_next (fst (after_step t rest r)) = st_next (fst r).
Proof. destruct r as [st1 [w k'|k'|k' sg'|sg']]; reflexivity. Qed.

Section AllPrograms.
  Variable P : prog.
  Notation M := (p_mgrs P).
  Hypothesis Hnf : forall m ev n k, p_mgr_fault P m ev n k = false.

  Theorem creach_evolves : forall st c, creach P st c -> evolves (init_state) st.
  Proof.
    intros st c H. induction H as [|st t rest x k sg H IH Hq Hf Ht|st t rest H IH Hq|st t fr rest sg H IH|st t sg H IH|st c H IH|st g H IH|st H IH].
    - apply evolves_refl.
    - eapply evolves_trans; [exact IH|apply ev_dequeue].
    - eapply evolves_trans; [exact IH|apply ev_dequeue].
    - eapply evolves_trans; [exact IH|apply ev_after_step].
    - eapply evolves_trans; [exact IH|apply ev_set_tstate].
    - eapply evolves_trans; [exact IH|apply ev_abort].
    - eapply evolves_trans; [exact IH|exact (ev_action P (AGate g) st)].
    - eapply evolves_trans; [exact IH|exact (ev_action P ACancel st)].
  Qed.

  Definition typed_ts (ts : tstate frame) : Prop :=
    match ts with
    | TReady (f :: _) sg => handled f sg = true
    | TWait _ (f :: _) => handled f SGo = true
    | _ => True
    end.

  Ltac shape H :=
    repeat (cbn [mk] in H; try contradiction;
            match type of H with context [match ?x with _ => _ end] => destruct x end); cbn [mk] in H; try contradiction.

  (* the signal the chart task is resumed with is one its frame expects, whatever the program *)
  Lemma main_step_typed js jc pay t fr rest sg st :
    main_ok P js jc pay (TReady (fr :: rest) sg) -> handled fr sg = true ->
    typed_ts (nstate rest (snd (step_frame P t fr sg st))).
  Proof.
    intros [Hnr H] Hh. cbn [main_ok] in *. shape H;
      destruct sg as [|v0| |e0|e0]; try discriminate Hh; try (exfalso; exact (Hnr e0 eq_refl));
      try match goal with r : bool |- context [FEmit _ _ _ _ _ ?r] => destruct r end;
      cbn [step_frame]; rewrite ?Hnf; unfold reduced; repeat break_match; spawn_norm;
      cbn [fst snd nstate app typed_ts handled emit_frames]; try exact I; try reflexivity.
  Qed.

  (* ids are allocated only when the chart task starts manager.run (then every manager has had its on_pipeline_start) *)
  Lemma main_step_next js jc pay t fr rest sg st :
    main_ok P js jc pay (TReady (fr :: rest) sg) -> handled fr sg = true ->
    st_next (fst (step_frame P t fr sg st)) = st_next st \/ M <= js.
  Proof.
    intros [Hnr H] Hh. cbn [main_ok] in *. shape H;
      repeat match goal with H0 : _ /\ _ |- _ => destruct H0 end; subst;
      destruct sg as [|v0| |e0|e0]; try discriminate Hh; try (exfalso; exact (Hnr e0 eq_refl));
      try match goal with r : bool |- context [FEmit _ _ _ _ _ ?r] => destruct r end;
      cbn [step_frame]; rewrite ?Hnf; unfold reduced; repeat break_match; spawn_norm; cbn [fst snd];
      autorewrite with core; cbn [st_next emit_obs bump with_store spawn fst];
      first [left; reflexivity | right; first [assumption | match goal with Hv : isval _ -> _ |- _ => apply Hv; eexists; reflexivity end]].
  Qed.

  Definition TPg (js jc : nat) (pay : payload) (x : task frame) : Prop :=
    t_id x = main_tid -> main_ok P js jc pay (t_state x) /\ typed_ts (t_state x).
  Definition hp_TP (x : task frame) : Prop := t_id x <> main_tid -> forallb hpf (estack (t_state x)) = true.

  Definition pipeG (st : mstate) (c : running) : Prop :=
    exists js jc pay, Ftr P js jc pay (st_trace st) /\ tasks_ok hp_TP st /\
      match c with
      | Some (t, k, sg) =>
        if Nat.eqb t main_tid then main_ok P js jc pay (cstate k sg) /\ typed_ts (cstate k sg)
        else tasks_ok (TPg js jc pay) st /\ forallb hpf k = true
      | None => tasks_ok (TPg js jc pay) st
      end.

  Lemma mk_weaken' js jc pay k sg sg' :
    (forall v, sg' <> Some (SVal v)) -> (forall e, sg' = Some (SThrow e) -> e = XCancelled) -> mk P js jc pay k sg -> mk P js jc pay k sg'.
  Proof.
    intros Hv Hc H. destruct k as [|f [|g [|h r]]]; try contradiction; shape H; cbn [mk];
      repeat match goal with H0 : _ /\ _ |- _ => destruct H0 end; repeat (split; [assumption|]); try assumption;
      try (intros [v9 Hv9]; exfalso; exact (Hv v9 Hv9)); try exact Hc;
      try (split; [exact Hc|intros [v9 Hv9]; exfalso; exact (Hv v9 Hv9)]).
  Qed.

  Lemma handled_go_of_wait js jc pay w k : mk P js jc pay k None -> typed_ts (TWait w k) -> typed_ts (TReady k SGo).
  Proof. intros _ H. destruct k; exact H. Qed.

  Lemma TPg_wake js jc pay x w k : t_state x = TWait w k -> TPg js jc pay x -> TPg js jc pay (with_ts x (TReady k SGo)).
  Proof.
    unfold TPg. intros E H Hn. cbn in Hn. destruct (H Hn) as [Hm Ht]. rewrite E in Hm, Ht. cbn [t_state with_ts main_ok] in *.
    split; [|destruct k; exact Ht].
    split; [intros e Hc; discriminate Hc|]. eapply mk_weaken'; [| |exact Hm]; [intros v Hv; discriminate Hv|intros e He; discriminate He].
  Qed.
  Lemma TPg_cancel_ready js jc pay x k sg : t_state x = TReady k sg -> TPg js jc pay x -> TPg js jc pay (with_ts x (TReady k (SThrow XCancelled))).
  Proof.
    unfold TPg. intros E H Hn. cbn in Hn. destruct (H Hn) as [Hm Ht]. rewrite E in Hm, Ht. cbn [t_state with_ts main_ok] in *.
    destruct Hm as [_ Hm]. split; [|destruct k as [|f r]; [exact I|cbn; apply handled_throw]].
    split; [intros e Hc; discriminate Hc|]. eapply mk_weaken'; [| |exact Hm]; [intros v Hv; discriminate Hv|intros e He; inversion He; reflexivity].
  Qed.
  Lemma TPg_cancel_wait js jc pay x w k : t_state x = TWait w k -> TPg js jc pay x -> TPg js jc pay (with_ts x (TReady k (SThrow XCancelled))).
  Proof.
    unfold TPg. intros E H Hn. cbn in Hn. destruct (H Hn) as [Hm Ht]. rewrite E in Hm, Ht. cbn [t_state with_ts main_ok] in *.
    split; [|destruct k as [|f r]; [exact I|cbn; apply handled_throw]].
    split; [intros e Hc; discriminate Hc|]. eapply mk_weaken'; [| |exact Hm]; [intros v Hv; discriminate Hv|intros e He; inversion He; reflexivity].
  Qed.
  Lemma TPg_spawn js jc pay i nm f : 1 <= i -> spawn_frame f = true ->
    TPg js jc pay {| t_id := i; t_name := nm; t_state := TReady [f] SGo; t_helper := true |}.
  Proof. unfold TPg, main_tid. cbn. intros. lia. Qed.

  Lemma hp_wake x w k : t_state x = TWait w k -> hp_TP x -> hp_TP (with_ts x (TReady k SGo)).
  Proof. unfold hp_TP. intros E H Hn. cbn in *. specialize (H Hn). rewrite E in H. exact H. Qed.
  Lemma hp_cancel_ready x k sg : t_state x = TReady k sg -> hp_TP x -> hp_TP (with_ts x (TReady k (SThrow XCancelled))).
  Proof. unfold hp_TP. intros E H Hn. cbn in *. specialize (H Hn). rewrite E in H. exact H. Qed.
  Lemma hp_cancel_wait x w k : t_state x = TWait w k -> hp_TP x -> hp_TP (with_ts x (TReady k (SThrow XCancelled))).
  Proof. unfold hp_TP. intros E H Hn. cbn in *. specialize (H Hn). rewrite E in H. exact H. Qed.
  Lemma hp_spawn i nm f : 1 <= i -> spawn_frame f = true -> hp_TP {| t_id := i; t_name := nm; t_state := TReady [f] SGo; t_helper := true |}.
  Proof. unfold hp_TP. cbn. intros _ Hf _. destruct f; try discriminate Hf; reflexivity. Qed.

  Lemma tasks_TPg_set js jc pay ts st :
    NoDup (map (@t_id frame) (st_tasks st)) -> main_ok P js jc pay ts -> typed_ts ts -> tasks_ok (TPg js jc pay) (set_tstate main_tid ts st).
  Proof.
    intros Hnd Hm Ht. unfold tasks_ok. rewrite Forall_forall. intros y Hy Hid.
    unfold set_tstate in Hy. cbn [st_tasks] in Hy. rewrite (upd_task_state main_tid ts (st_tasks st) y Hy Hid Hnd). split; assumption.
  Qed.
  Lemma tasks_TPg_other js jc pay t ts st : t <> main_tid -> tasks_ok (TPg js jc pay) st -> tasks_ok (TPg js jc pay) (set_tstate t ts st).
  Proof.
    intros Hne H. apply ok_set_tstate; [exact H|]. intros y Hy _ Hid. cbn in Hid. destruct (find_task_in _ _ _ Hy) as [_ Hiy]. exfalso. apply Hne. rewrite <- Hiy. exact Hid.
  Qed.
  Lemma tasks_hp_main ts st : tasks_ok hp_TP st -> tasks_ok hp_TP (set_tstate main_tid ts st).
  Proof. intros H. apply ok_set_tstate; [exact H|]. intros y Hy _ Hid. cbn in Hid. destruct (find_task_in _ _ _ Hy) as [_ Hiy]. contradiction. Qed.
  Lemma tasks_hp_other t ts st : forallb hpf (estack ts) = true -> tasks_ok hp_TP st -> tasks_ok hp_TP (set_tstate t ts st).
  Proof. intros Hk H. apply ok_set_tstate; [exact H|]. intros y _ _ _. cbn. exact Hk. Qed.

  Theorem creach_pipeG : forall st c, creach P st c -> pipeG st c.
  Proof.
    intros st c H. pose proof (creach_evolves st c H) as Hev0.
    induction H as [|st t rest x k sg H IH Hq Hf Ht|st t rest H IH Hq|st t fr rest sg H IH|st t sg H IH|st c H IH|st g H IH|st H IH].
    - exists 0, 0, None. split; [|split].
      + split; [|split; [|split]]; try (intros m; reflexivity); intros m n e r [Hin|[]]; discriminate Hin.
      + unfold tasks_ok, init_state. cbn. constructor; [|constructor]. intros Hc. exfalso. apply Hc. reflexivity.
      + unfold tasks_ok, init_state. cbn. constructor; [|constructor]. intros _. cbn. split; [split; [intros e Hc; discriminate Hc|auto]|reflexivity].
    - destruct (IH (creach_evolves _ _ H)) as [js [jc [pay [HF [HP HT]]]]]. exists js, jc, pay. split; [exact HF|]. split; [exact HP|].
      destruct (find_task_in _ _ _ Hf) as [Hin Hid]. unfold tasks_ok in HT, HP. rewrite Forall_forall in HT, HP.
      destruct (Nat.eqb_spec t main_tid) as [->|Hne].
      + destruct (HT x Hin Hid) as [Hm Hty]. rewrite Ht in Hm, Hty.
        destruct k as [|f r]; [destruct Hm as [_ Hm]; cbn in Hm; contradiction|]. split; assumption.
      + split; [unfold tasks_ok; rewrite Forall_forall; exact HT|]. rewrite <- Hid in Hne. pose proof (HP x Hin Hne) as Hk. rewrite Ht in Hk. exact Hk.
    - destruct (IH (creach_evolves _ _ H)) as [js [jc [pay [HF [HP HT]]]]]. exists js, jc, pay. split; [exact HF|]. split; [exact HP|exact HT].
    - (* one frame step *)
      pose proof (creach_evolves _ _ H) as Hev. destruct (IH Hev) as [js [jc [pay [HF [HP HT]]]]].
      pose proof (ev_next _ _ Hev) as Hn1. cbn in Hn1.
      pose proof (ev_step_frame P t fr sg st) as Hevs.
      assert (Hnd1 : NoDup (map (@t_id frame) (st_tasks (fst (step_frame P t fr sg st))))).
      { destruct (evolved_shape _ (evolves_trans _ _ _ Hev Hevs)) as [xa [ra [_ [_ [_ [_ [Hnd _]]]]]]]. exact Hnd. }
      assert (HP1 : tasks_ok hp_TP (fst (step_frame P t fr sg st))).
      { exact (step_frame_tasks_ok P hp_TP hp_wake hp_cancel_ready hp_cancel_wait hp_spawn t fr sg st Hn1 HP). }
      unfold pipeG. rewrite trace_after_step'.
      destruct (Nat.eqb_spec t main_tid) as [->|Hne].
      + destruct HT as [HM Hty]. cbn [cstate typed_ts] in HM, Hty.
        destruct (main_step P Hnf js jc pay main_tid fr rest sg st HM HF Hty) as [js' [jc' [pay' [HF' HM']]]].
        pose proof (main_step_typed js jc pay main_tid fr rest sg st HM Hty) as Hty'.
        exists js', jc', pay'. split; [exact HF'|].
        destruct (step_frame P main_tid fr sg st) as [st1 [w k'|k'|k' sg'|sg']]; cbn [after_step fst snd nstate] in *.
        * split; [unfold suspend; apply (tasks_ok_same _ (set_tstate main_tid (TWait w (k' ++ rest)) st1)); [reflexivity|apply tasks_hp_main; exact HP1]|].
          unfold suspend. apply (tasks_ok_same _ (set_tstate main_tid (TWait w (k' ++ rest)) st1)); [reflexivity|]. apply tasks_TPg_set; assumption.
        * split; [apply (tasks_ok_same _ (set_tstate main_tid (TReady (k' ++ rest) SGo) st1)); [reflexivity|apply tasks_hp_main; exact HP1]|].
          apply (tasks_ok_same _ (set_tstate main_tid (TReady (k' ++ rest) SGo) st1)); [reflexivity|]. apply tasks_TPg_set; assumption.
        * split; [exact HP1|]. rewrite Nat.eqb_refl. split; assumption.
        * split; [exact HP1|]. rewrite Nat.eqb_refl. split; assumption.
      + destruct HT as [HT Hk]. cbn [forallb] in Hk. apply andb_true_iff in Hk. destruct Hk as [Kf Kr].
        destruct (step_npq P t fr sg st Kf) as [new [Etr Hnew]].
        exists js, jc, pay. split; [rewrite Etr; apply Ftr_nopipe; assumption|].
        assert (HT1 : tasks_ok (TPg js jc pay) (fst (step_frame P t fr sg st))).
        { exact (step_frame_tasks_ok P (TPg js jc pay) (TPg_wake _ _ _) (TPg_cancel_ready _ _ _) (TPg_cancel_wait _ _ _) (TPg_spawn _ _ _) t fr sg st Hn1 HT). }
        pose proof (step_hpf P t fr sg st Kf) as Hk'.
        assert (Hkk : forallb hpf (dir_frames (snd (step_frame P t fr sg st)) ++ rest) = true) by (rewrite forallb_app, Hk', Kr; reflexivity).
        destruct (step_frame P t fr sg st) as [st1 [w k'|k'|k' sg'|sg']]; cbn [after_step fst snd dir_frames] in *.
        * split; [unfold suspend; apply (tasks_ok_same _ (set_tstate t (TWait w (k' ++ rest)) st1)); [reflexivity|apply tasks_hp_other; [exact Hkk|exact HP1]]|].
          unfold suspend. apply (tasks_ok_same _ (set_tstate t (TWait w (k' ++ rest)) st1)); [reflexivity|]. apply tasks_TPg_other; assumption.
        * split; [apply (tasks_ok_same _ (set_tstate t (TReady (k' ++ rest) SGo) st1)); [reflexivity|apply tasks_hp_other; [exact Hkk|exact HP1]]|].
          apply (tasks_ok_same _ (set_tstate t (TReady (k' ++ rest) SGo) st1)); [reflexivity|]. apply tasks_TPg_other; assumption.
        * split; [exact HP1|]. apply Nat.eqb_neq in Hne. rewrite Hne. split; [exact HT1|exact Hkk].
        * split; [exact HP1|]. apply Nat.eqb_neq in Hne. rewrite Hne. split; [exact HT1|exact Kr].
    - (* the task finishes *)
      pose proof (creach_evolves _ _ H) as Hev. destruct (IH Hev) as [js [jc [pay [HF [HP HT]]]]]. exists js, jc, pay. split; [exact HF|].
      destruct (evolved_shape _ Hev) as [xa [ra [_ [_ [_ [_ [Hnd _]]]]]]].
      destruct (Nat.eqb_spec t main_tid) as [->|Hne].
      + destruct HT as [HM Hty]. cbn [cstate] in HM, Hty. split; [apply tasks_hp_main; exact HP|apply tasks_TPg_set; assumption].
      + destruct HT as [HT _]. split; [apply tasks_hp_other; [reflexivity|exact HP]|apply tasks_TPg_other; assumption].
    - (* abort *)
      pose proof (creach_evolves _ _ H) as Hev. destruct (IH Hev) as [js [jc [pay [HF _]]]]. exists js, jc, pay. split; [exact HF|].
      split; unfold tasks_ok, abort; cbn [st_tasks]; rewrite Forall_forall; intros y Hy; apply in_map_iff in Hy; destruct Hy as [x [<- _]]; intros _; cbn; auto.
    - pose proof (creach_evolves _ _ H) as Hev. destruct (IH Hev) as [js [jc [pay [HF [HP HT]]]]]. exists js, jc, pay. unfold complete_gate. rewrite trace_wake_all.
      split; [exact HF|]. split; [apply (complete_gate_tasks_ok hp_TP hp_wake); exact HP|apply (complete_gate_tasks_ok (TPg js jc pay) (TPg_wake _ _ _)); exact HT].
    - pose proof (creach_evolves _ _ H) as Hev. destruct (IH Hev) as [js [jc [pay [HF [HP HT]]]]]. exists js, jc, pay. rewrite trace_cancel_task.
      split; [exact HF|]. split; [apply (ok_cancel_task hp_TP hp_cancel_ready hp_cancel_wait); exact HP|
                                  apply (ok_cancel_task (TPg js jc pay) (TPg_cancel_ready _ _ _) (TPg_cancel_wait _ _ _)); exact HT].
  Qed.
End AllPrograms.

(* ---- the statements on schedule-reachable states ------------------------------------------------------------------------------ *)
Section AllProgramsOrder.
  Variable P : prog.
  Notation M := (p_mgrs P).
  Hypothesis Hnf : forall m ev n k, p_mgr_fault P m ev n k = false.

  Definition cur_id (st : mstate) (c : running) : Prop := match c with Some (t, _, _) => t < st_next st | None => True end.

  Lemma creach_cur_id : forall st c, creach P st c -> cur_id st c.
  Proof.
    intros st c H. induction H as [|st t rest x k sg H IH Hq Hf Ht|st t rest H IH Hq|st t fr rest sg H IH|st t sg H IH|st c H IH|st g H IH|st H IH]; try exact I.
    - destruct (find_task_in _ _ _ Hf) as [Hin Hid]. cbn. rewrite <- Hid. exact (evolves_ids st (creach_evolves P st None H) x Hin).
    - cbn in IH. pose proof (ev_next _ _ (ev_step_frame P t fr sg st)) as Hn.
      destruct (step_frame P t fr sg st) as [st1 [w k'|k'|k' sg'|sg']]; cbn [after_step fst snd cur_id] in *; try exact I; lia.
  Qed.

  Definition ordG (st : mstate) : Prop := (st_next st = 1 \/ started P (st_trace st)) /\ first_ok P (st_trace st).

  Theorem creach_order_startG : forall st c, creach P st c -> ordG st.
  Proof.
    intros st c H.
    induction H as [|st t rest x k sg H IH Hq Hf Ht|st t rest H IH Hq|st t fr rest sg H IH|st t sg H IH|st c H IH|st g H IH|st H IH].
    - split; [left; reflexivity|]. intros a o b E He. cbn in E. destruct a as [|y a']; [inversion E; subst; discriminate He|].
      inversion E. destruct a'; discriminate.
    - exact IH.
    - exact IH.
    - destruct IH as [G3 Hfo].
      destruct (creach_pipeG P Hnf _ _ H) as [js [jc [pay [HF [_ HT]]]]].
      destruct (creach_pipeG P Hnf _ _ (cr_step P st t fr rest sg H)) as [js1 [jc1 [pay1 [HF1 _]]]]. rewrite trace_after_step' in HF1.
      pose proof (creach_cur_id _ _ H) as Hid. cbn in Hid.
      unfold ordG. rewrite trace_after_step', next_after_step'.
      destruct (Nat.eqb_spec t main_tid) as [->|Hne].
      + destruct HT as [HM Hty]. cbn [cstate typed_ts] in HM, Hty. destruct HF as (S1 & _). destruct HF1 as (S1' & _).
        destruct (main_step_new P Hnf js jc pay main_tid fr rest sg st HM Hty) as [new [Etr [Hd _]]]. rewrite Etr in *.
        assert (Hd' : forallb early new = true \/ started P (st_trace st) /\ forallb (fun o => negb (is_ps_any o)) new = true).
        { destruct Hd as [Hd|[Hj Hd]]; [left; exact Hd|right; split; [exact (seen_started P js _ S1 Hj)|exact Hd]]. }
        split; [|apply first_ok_app; assumption].
        destruct (main_step_next P Hnf js jc pay main_tid fr rest sg st HM Hty) as [En|Hj].
        * rewrite En. destruct G3 as [G3|G3]; [left; exact G3|right; exact (started_keep P js1 new _ G3 S1')].
        * right. apply (started_keep P js1 new _); [|exact S1']. exact (seen_started P js _ S1 Hj).
      + destruct HT as [_ Hk]. cbn [forallb] in Hk. apply andb_true_iff in Hk. destruct Hk as [Kf _].
        destruct (step_npq P t fr sg st Kf) as [new [Etr Hnew]]. rewrite Etr.
        assert (Hst : started P (st_trace st)).
        { destruct G3 as [G3|G3]; [|exact G3]. exfalso. unfold main_tid in Hne. lia. }
        assert (Hnops : forallb (fun o => negb (is_ps_any o)) new = true).
        { rewrite forallb_forall in *. intros o Ho'. specialize (Hnew o Ho'). destruct o; try reflexivity. destruct ev; try reflexivity. discriminate Hnew. }
        split; [right; apply started_app; assumption|apply first_ok_app; [exact Hfo|right; split; assumption]].
    - exact IH.
    - exact IH.
    - unfold ordG, complete_gate. rewrite trace_wake_all, next_wake_all. exact IH.
    - unfold ordG. rewrite trace_cancel_task, next_cancel_task. exact IH.
  Qed.
End AllProgramsOrder.

Theorem pipeline_events_all_programs P :
  (forall m ev n k, p_mgr_fault P m ev n k = false) ->
  forall st, reachable P st ->
    (forall m, cnt (is_ps m) (st_trace st) <= 1) /\ (forall m, cnt (is_pc m) (st_trace st) <= 1) /\
    (forall m n e r, In (OEmit m EvPipelineStart n e r) (st_trace st) -> n = None /\ e = None /\ r = None) /\
    (forall m n e r, In (OEmit m EvPipelineComplete n e r) (st_trace st) -> n = None) /\
    (forall v, main_state st = Some (TDone (SVal v)) ->
       (forall m, m < p_mgrs P -> cnt (is_ps m) (st_trace st) = 1 /\ cnt (is_pc m) (st_trace st) = 1) /\
       (forall m n e r, In (OEmit m EvPipelineComplete n e r) (st_trace st) -> e = None /\ r = Some v)) /\
    (forall x, main_state st = Some (TDone (SResErr x)) ->
       (forall m, m < p_mgrs P -> cnt (is_ps m) (st_trace st) = 1 /\ cnt (is_pc m) (st_trace st) = 1) /\
       (forall m n e r, In (OEmit m EvPipelineComplete n e r) (st_trace st) -> e = Some x /\ r = None)).
Proof.
  intros Hnf st Hr.
  destruct (creach_pipeG P Hnf st None (reachable_creach P st Hr)) as [js [jc [pay [(S1 & S2 & S3 & S4) [_ HT]]]]].
  assert (Hmain : forall r, main_state st = Some (TDone r) -> main_ok P js jc pay (TDone r)).
  { intros r Hm. unfold main_state in Hm. destruct (find_task main_tid (st_tasks st)) as [x|] eqn:F; [|discriminate Hm]. cbn in Hm. inversion Hm as [Es].
    destruct (find_task_in _ _ _ F) as [Hin Hid]. unfold tasks_ok in HT. rewrite Forall_forall in HT. destruct (HT x Hin Hid) as [Hm' _]. exact Hm'. }
  split; [intros m; exact (seen_le1 P _ _ _ m S1)|]. split; [intros m; exact (seen_le1 P _ _ _ m S2)|]. split; [exact S3|].
  split; [intros m n e r Hin; exact (proj1 (S4 m n e r Hin))|]. split.
  - intros v Hm. destruct (Hmain _ Hm) as (Hjs & Hjc & ->). split.
    + intros m Hlt. split; [exact (seen_all P _ _ _ m S1 Hjs Hlt)|exact (seen_all P _ _ _ m S2 Hjc Hlt)].
    + intros m n e r Hin. destruct (S4 m n e r Hin) as [_ E]. inversion E. auto.
  - intros x Hm. destruct (Hmain _ Hm) as (Hjs & Hjc & ->). split.
    + intros m Hlt. split; [exact (seen_all P _ _ _ m S1 Hjs Hlt)|exact (seen_all P _ _ _ m S2 Hjc Hlt)].
    + intros m n e r Hin. destruct (S4 m n e r Hin) as [_ E]. inversion E. auto.
Qed.

Theorem pipeline_start_comes_first_all_programs P :
  (forall m ev n k, p_mgr_fault P m ev n k = false) ->
  forall st, reachable P st ->
    forall a o b, st_trace st = a ++ o :: b -> early o = false -> forall m, m < p_mgrs P -> cnt (is_ps m) b = 1.
Proof.
  intros Hnf st Hr. destruct (creach_order_startG P Hnf st None (reachable_creach P st Hr)) as [_ Hfo]. exact Hfo.
Qed.
