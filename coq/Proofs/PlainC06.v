(* C06 for ALL plain programs and ALL schedules: at a quiescent point of a run that is still undecided, every node whose depth
   does not exceed the smallest depth of an unfinished node has been started -- the launcher never waits for a sibling.
   Hypotheses on the library orders as in PlainDeadlock.v, plus: the launch order is sorted by depth (networkx's topological_sort
   yields generation by generation). The seeded change C06-1 (lexicographical sort) is exactly a violation of that hypothesis. *)
From MLPE Require Import Engine.Run Proofs.ExecLemmas Proofs.Evolve Proofs.StackInv Proofs.ReadyInv Proofs.WaitInv Explore.StateEq
     Proofs.ProcessedInv Proofs.PlainWorld Proofs.PlainLaunch Proofs.PlainLive Proofs.Micro Proofs.PlainBase Proofs.PlainCore Proofs.PlainInv
     Proofs.PlainRoles Proofs.PlainExec Proofs.PlainWait Proofs.PlainDeadlock Explore.Erase Explore.Explorer Explore.Safe.

Lemma fold_min_le (f : key -> nat) (l : list key) (a : nat) x :
  (In x l -> fold_left Nat.min (map f l) a <= f x) /\ fold_left Nat.min (map f l) a <= a.
Proof.
  revert a. induction l as [|y r IH]; intros a; cbn [map fold_left]; [split; [contradiction|lia]|].
  destruct (IH (Nat.min a (f y))) as [I1 I2]. split.
  - intros [->|Hin]; [lia|apply I1; exact Hin].
  - lia.
Qed.

Section C06.
  Variable P : prog.
  Notation G := (b_graph (build (p_decls P) (p_inp P) (p_out P))).
  Notation out := (b_output (build (p_decls P) (p_inp P) (p_out P))).
  Hypothesis Hsw : forall n, is_switch G n = false.
  Hypothesis Hhd : forall n, is_head G n = false.
  Hypothesis Hbody : forall i kw a v, p_body P i kw a = OVal v -> clean v = true.
  Notation order := (p_order P (maind P)).
  Hypothesis Hnd : NoDup order.
  Hypothesis Hsucc : forall n p, In p (preds G n) -> In n (p_succ_order P p).
  (* every node is launched; a dependency is shallower than its consumer; the launch order is sorted by depth *)
  Hypothesis Hall : forall n, In n (node_keys G) -> In n order.
  Hypothesis Hdepth : forall n p, In p (preds G n) -> depth_of P p < depth_of P n.
  Hypothesis Hmono : forall a n b m, order = a ++ n :: b -> In m b -> depth_of P n <= depth_of P m.

  Lemma preds_are_nodes n p : In p (preds G n) -> In p (node_keys G).
  Proof.
    unfold preds, preds_e. intros H. apply in_map_iff in H. destruct H as [[u a] [Hu H]]. cbn in Hu. subst u.
    apply in_flat_map in H. destruct H as [u [Hu H]]. destruct (alookup edge_eqb (u, n) (g_edges G)); [|contradiction].
    destruct H as [H|[]]. inversion H; subst. exact Hu.
  Qed.

  Theorem plain_c06 : forall st, reachable P st -> safe_c06 P st = true.
  Proof.
    intros st Hr. unfold safe_c06.
    destruct (st_ready st) as [|t0 r0] eqn:Hready; [|reflexivity].
    destruct (main_state st) as [[k s|w k|r]|] eqn:Hms; try reflexivity. destruct w as [c|nw|g]; try reflexivity. destruct c; try reflexivity.
    destruct (task_errors st) as [|e es] eqn:Hte; [|reflexivity].
    unfold G_. destruct (filter _ (node_keys G)) as [|n0 pend] eqn:Hpend; [reflexivity|].
    apply forallb_forall. intros n Hn.
    destruct (Nat.ltb (fold_left Nat.min (map (depth_of P) pend) (depth_of P n0)) (depth_of P n)) eqn:Hlt; [reflexivity|]. cbn [orb].
    apply Nat.ltb_ge in Hlt.
    (* the facts *)
    pose proof (reachable_creach P st Hr) as Hc.
    pose proof (creach_base P Hsw Hhd Hbody _ _ Hc) as Hb.
    pose proof (base_nodup P _ _ Hb) as Hndi.
    pose proof (reachable_ready_consistent P st Hr) as Hrc.
    assert (Snr : forall x k s, In x (st_tasks st) -> t_state x <> TReady k s).
    { intros x k0 s Hx Hs. pose proof (Hrc (t_id x) x) as H. rewrite Hs in H. rewrite Hready in H. apply H; [discriminate|apply in_find; assumption]. }
    pose proof (b_wk _ _ _ Hb) as Hwk. unfold tasks_ok in Hwk. rewrite Forall_forall in Hwk.
    destruct (evolved_shape _ (b_ev _ _ _ Hb)) as [xm [rm [Tm [Hidm [Hhm _]]]]].
    assert (Hxm : In xm (st_tasks st)) by (rewrite Tm; left; reflexivity).
    assert (Esm : t_state xm = TWait (WCond CRun) k).
    { unfold main_state in Hms. rewrite Tm in Hms. cbn [find_task] in Hms. rewrite Hidm in Hms. cbn in Hms. inversion Hms. reflexivity. }
    assert (Hkm : exists k', k = FRunWait :: k').
    { pose proof (Hwk xm Hxm) as Hw. unfold wk_TP in Hw. rewrite Esm in Hw. destruct k as [|f k']; [contradiction|].
      destruct f; try contradiction; try (cbn in Hw; repeat match type of Hw with context [match ?b with _ => _ end] => destruct b end; contradiction).
      exists k'. reflexivity. }
    destruct Hkm as [km ->].
    assert (Hng : ~ guard st).
    { intros [Ho|Hm].
      - destruct (creach_late P Hsw Hhd Hbody _ _ Hc) as [Hl|HL]; [congruence|].
        pose proof (allT_In _ _ _ xm HL Hxm) as Hx. unfold PhiL in Hx. cbn [estate ident fst] in Hx. rewrite Esm in Hx. specialize (Hx Hidm). cbn in Hx. discriminate Hx.
      - unfold main_done in Hm. rewrite Hms in Hm. discriminate Hm. }
    destruct (creach_roles P Hsw Hhd Hbody Hnd _ _ Hc) as [Hg|[HG HA]]; [contradiction|].
    destruct (creach_exec P Hsw Hhd Hbody Hnd _ _ Hc) as [Hg|[GE HE]]; [contradiction|].
    destruct (creach_wait P Hsw Hhd Hbody Hnd Hsucc _ _ Hc) as [Hg|HW]; [contradiction|].
    destruct (allT_In _ _ _ xm HW Hxm) as (_ & _ & W3). cbn [estate ident fst snd] in W3.
    assert (Hrun : In TNRun (names st)) by (apply (W3 Hidm); rewrite Esm; reflexivity).
    unfold names in Hrun. apply in_map_iff in Hrun. destruct Hrun as [xl [Hnl Hxl]].
    destruct (allT_In _ _ _ xl HA Hxl) as (_ & _ & _ & R4 & _). cbn [estate ident fst snd] in R4. destruct (R4 Hnl) as [rest [Hr0 Hor]].
    pose proof (Hall n Hn) as Hno. rewrite Hor in Hno. apply in_app_or in Hno. destruct Hno as [Hlaunched|Hrest].
    - (* n has a task: it is past its first two frames *)
      apply node_names_in in Hlaunched. unfold names in Hlaunched. apply in_map_iff in Hlaunched. destruct Hlaunched as [x [Hnm Hx]].
      destruct (allT_In _ _ _ x HE Hx) as [_ He]. cbn [estate ident fst snd] in He.
      destruct (He n Hnm) as (_ & _ & _ & _ & _ & _ & _ & _ & _ & E11). apply E11.
      destruct (t_state x) as [k0 s|w k0|r] eqn:Es; [exfalso; exact (Snr x k0 s Hx Es)| |reflexivity].
      pose proof (Hwk x Hx) as Hw. unfold wk_TP in Hw. rewrite Es in Hw. destruct k0 as [|f k']; [contradiction|].
      cbn [estack head_ok]. destruct f; try reflexivity; contradiction.
    - (* n is not launched yet: the launcher is parked before a node whose unfinished dependency is shallower than n *)
      exfalso.
      destruct (t_state xl) as [k0 s|w k0|rr] eqn:Es.
      + exact (Snr xl k0 s Hxl Es).
      + pose proof (Hwk xl Hxl) as Hw. unfold wk_TP in Hw. rewrite Es in Hw.
        destruct k0 as [|f k1]; [discriminate Hr0|]. destruct f; try discriminate Hr0; destruct k1; try discriminate Hr0; cbn [rest_of] in Hr0; inversion Hr0; subst rest.
        * destruct w as [c|nw|g]; contradiction.
        * destruct rest0 as [|n' r']; [contradiction|].
          destruct w as [c|nw|g]; try contradiction. destruct c as [|n1]; try contradiction. cbn in Hw. subst n1.
          destruct (allT_In _ _ _ xl HW Hxl) as (W1 & _ & _). cbn [estate ident fst snd] in W1. rewrite Es in W1.
          destruct (W1 Hnl n' d r' locals eq_refl) as [p [Hp Hfp]].
          assert (Hpp : In p (n0 :: pend)).
          { rewrite <- Hpend. apply filter_In. split; [apply (preds_are_nodes n'); exact Hp|]. unfold fin in Hfp. rewrite andb_comm. rewrite Hfp. reflexivity. }
          assert (Hmin : fold_left Nat.min (map (depth_of P) pend) (depth_of P n0) <= depth_of P p).
          { destruct (fold_min_le (depth_of P) pend (depth_of P n0) p) as [F1 F2]. destruct Hpp as [->|Hpp]; [exact F2|apply F1; exact Hpp]. }
          pose proof (Hdepth n' p Hp) as Hd1.
          assert (Hd2 : depth_of P n' <= depth_of P n) by (destruct Hrest as [->|Hin]; [lia|exact (Hmono _ _ _ _ Hor Hin)]).
          lia.
        * contradiction.
      + destruct rr; try discriminate Hr0. cbn in Hr0. inversion Hr0; subst rest. contradiction.
  Qed.
End C06.

(* ---- decidable forms of the additional hypotheses ------------------------------------------------------------------------------- *)
Fixpoint sorted_by (f : key -> nat) (l : list key) : bool :=
  match l with [] => true | x :: r => forallb (fun m => Nat.leb (f x) (f m)) r && sorted_by f r end.
Lemma sorted_by_sound f l : sorted_by f l = true -> forall a n b m, l = a ++ n :: b -> In m b -> f n <= f m.
Proof.
  induction l as [|x r IH]; intros H a n b m E Hm; [destruct a; discriminate E|].
  cbn in H. apply andb_true_iff in H. destruct H as [H1 H2]. destruct a as [|a0 a'].
  - cbn in E. inversion E; subst. rewrite forallb_forall in H1. apply Nat.leb_le. apply H1. exact Hm.
  - cbn in E. inversion E; subst. exact (IH H2 a' n b m eq_refl Hm).
Qed.

Definition c06_orders_b (P : prog) : bool :=
  let g := b_graph (build (p_decls P) (p_inp P) (p_out P)) in
  let order := p_order P (maind P) in
  forallb (fun n => mem key_eqb n order) (node_keys g)
  && forallb (fun e => negb (mem key_eqb (fst (fst e)) (preds g (snd (fst e)))) || Nat.ltb (depth_of P (fst (fst e))) (depth_of P (snd (fst e)))) (g_edges g)
  && sorted_by (depth_of P) order.

Theorem plain_programs_launch_by_depth P :
  plain_prog P -> valid_orders P -> c06_orders_b P = true -> forall st, reachable P st -> safe_c06 P st = true.
Proof.
  intros (Hg & Hb & _) (V1 & V2 & V3 & V4) Hc. destruct (graph_plain_sound _ Hg) as [Hsw Hhd].
  unfold c06_orders_b in Hc. apply andb_true_iff in Hc. destruct Hc as [Hc C3]. apply andb_true_iff in Hc. destruct Hc as [C1 C2].
  apply (plain_c06 P Hsw Hhd Hb V1 V4).
  - intros n Hn. rewrite forallb_forall in C1. apply (mem_true_iff key_eqb key_eqb_spec). apply C1. exact Hn.
  - intros n p Hp. destruct (preds_edge _ n p Hp) as [a Ha]. rewrite forallb_forall in C2. specialize (C2 _ Ha). cbn [fst snd] in C2.
    apply orb_true_iff in C2. destruct C2 as [C2|C2].
    + apply negb_true_iff in C2. apply (mem_true_iff key_eqb key_eqb_spec) in Hp. rewrite Hp in C2. discriminate C2.
    + apply Nat.ltb_lt. exact C2.
  - exact (sorted_by_sound _ _ C3).
Qed.
