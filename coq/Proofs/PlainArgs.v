(* Plain programs, every schedule, while manager.run is pending: the arguments of a body.
   - a node is launched only when every declared input has a result, and a stored result is never replaced (it is final);
   - the keyword arguments held by the retry loop of a node (the arguments its body is, was, or will again be invoked with) are
     exactly the keyword arguments computed from the stored results of its declared inputs;
   - so are the arguments of every body invocation logged so far. *)
From MLPE Require Import Engine.Run Proofs.ExecLemmas Proofs.Evolve Proofs.StackInv Proofs.ReadyInv Proofs.WaitInv Explore.StateEq
     Proofs.ProcessedInv Proofs.PlainWorld Proofs.PlainLaunch Proofs.PlainLive Proofs.Micro Proofs.PlainBase Proofs.PlainCore Proofs.PlainInv
     Proofs.PlainRoles Proofs.PlainExec Proofs.AssocLemmas.

Definition retry_kw (f : frame) : option (nat * kwargs) :=
  match f with
  | FRetry i _ kw _ | FRetryAfterBody i kw _ | FRetryAfterEmit i kw _ | FRetryAfterSleep i kw _ => Some (i, kw)
  | _ => None
  end.

Lemma get_result_set_other p q v s : p <> q -> get_result p true (set_result q v s) = get_result p true s.
Proof.
  intros Hne. unfold get_result, get_result_opt, set_result. cbn.
  rewrite (alookup_aset_other key_eqb key_eqb_spec); [reflexivity|exact Hne].
Qed.

Section Args.
  Variable P : prog.
  Notation G := (b_graph (build (p_decls P) (p_inp P) (p_out P))).
  Hypothesis Hsw : forall n, is_switch G n = false.

  (* the keyword arguments of a node depend only on the results of its declared inputs (and on additional_data) *)
  Lemma node_kwargs_ext (st st' : mstate) m :
    (forall p, In p (preds G m) -> get_result p true (st_store st') = get_result p true (st_store st)) ->
    st_adddata st' = st_adddata st -> node_kwargs P st' m = node_kwargs P st m.
  Proof.
    intros Hr Ha. unfold node_kwargs. rewrite Ha. destruct (key_eqb m (b_input (build (p_decls P) (p_inp P) (p_out P)))); [reflexivity|].
    match goal with |- match fold_left ?f1 ?l ?a with _ => _ end = match fold_left ?f2 _ _ with _ => _ end =>
      assert (E : fold_left f1 l a = fold_left f2 l a) end; [|rewrite E; reflexivity].
    unfold preds in Hr.
    assert (K : forall l acc, (forall pe, In pe l -> In (fst pe) (map fst (preds_e G m))) ->
                fold_left (fun acc pe => match acc with None => None | Some kw => match ea_kwarg (snd pe) with None => Some kw
                   | Some nm => if is_switch G (fst pe) then match get_switch (fst pe) (st_store st') with Some (_, c) => Some (kw_insert nm (get_result c true (st_store st')) kw) | None => None end
                                else Some (kw_insert nm (get_result (fst pe) true (st_store st')) kw) end end) l acc =
                fold_left (fun acc pe => match acc with None => None | Some kw => match ea_kwarg (snd pe) with None => Some kw
                   | Some nm => if is_switch G (fst pe) then match get_switch (fst pe) (st_store st) with Some (_, c) => Some (kw_insert nm (get_result c true (st_store st)) kw) | None => None end
                                else Some (kw_insert nm (get_result (fst pe) true (st_store st)) kw) end end) l acc).
    { induction l as [|pe r IH]; intros acc Hin; cbn [fold_left]; [reflexivity|].
      rewrite IH; [|intros pe' Hpe'; apply Hin; right; exact Hpe'].
      f_equal. destruct acc as [kw|]; [|reflexivity]. destruct (ea_kwarg (snd pe)); [|reflexivity]. rewrite Hsw.
      rewrite (Hr (fst pe)); [reflexivity|]. apply Hin. left. reflexivity. }
    apply K. intros pe Hpe. apply in_map. exact Hpe.
  Qed.

  Hypothesis Hhd : forall n, is_head G n = false.
  Hypothesis Hbody : forall i kw a v, p_body P i kw a = OVal v -> clean v = true.

  Lemma is_ready_true (s : storage) n : is_ready P s (maind P) n = true -> forall p, In p (preds G n) -> exists_result p s = true.
  Proof.
    unfold is_ready, ready_preds. rewrite Hsw, Hhd. cbn [d_rec maind orb]. intros H p Hp. rewrite forallb_forall in H. specialize (H p Hp).
    unfold resolve_switch in H. rewrite Hsw in H. apply andb_true_iff in H. apply H.
  Qed.

  Ltac plain_prep7 :=
    repeat match goal with
           | H : (_ && _)%bool = true |- _ => apply andb_true_iff in H; destruct H
           | H : is_main P ?d = true |- _ => apply is_main_eq in H; subst d
           | H : negb ?f = true |- _ => apply negb_true_iff in H; subst f
           | H : ?u = true |- _ => is_var u; subst u
           end.

  (* where the arguments held by a frame of the retry loop come from *)
  Lemma plain_step_retry_kw t fr sg st f j kw :
    plain_frame P fr = true -> clean_sig sg -> PS st ->
    In f (dir_frames (snd (step_frame P t fr sg st))) -> retry_kw f = Some (j, kw) ->
    retry_kw fr = Some (j, kw) \/ (exists d0 n fc, fr = FExecAfterStart d0 n fc /\ j = real_index n /\ node_kwargs P st n = Some kw).
  Proof.
    intros Hf Hs Hst. pose proof Hst as Hst'. unfold PS in Hst'.
    destruct fr; try discriminate Hf; cbn [plain_frame] in Hf; plain_prep7;
      destruct sg; cbn [clean_sig] in Hs;
      try match goal with H : clean ?v = true |- _ => pose proof (clean_not_rec v H) as Hnr; pose proof (clean_not_exn v H) as Hne end;
      cbn [step_frame]; rewrite ?Hnr, ?Hne, ?Hsw, ?Hhd, ?(plain_dep_error P _ _ _ Hst'), ?(plain_no_subgraph_error _ _ Hst');
      unfold default_or_raise, reduced; cbn [d_oneof d_rec maind andb];
      repeat break_match; cbn [snd dir_frames emit_frames]; intros Hin Hr;
      repeat (destruct Hin as [Hin|Hin]; [subst f; cbn [retry_kw] in Hr; try discriminate Hr; inversion Hr; subst; eauto 8|]); try contradiction.
  Qed.

  (* where a logged body invocation comes from *)
  Lemma plain_step_ostart t fr sg st i k kw :
    plain_frame P fr = true -> clean_sig sg -> PS st ->
    In (OStart i k kw) (st_trace (fst (step_frame P t fr sg st))) ->
    In (OStart i k kw) (st_trace st) \/ (exists att, fr = FRetry i false kw att /\ sg = SGo).
  Proof.
    intros Hf Hs Hst. pose proof Hst as Hst'. unfold PS in Hst'.
    destruct fr; try discriminate Hf; cbn [plain_frame] in Hf; plain_prep7;
      destruct sg; cbn [clean_sig] in Hs;
      try match goal with H : clean ?v = true |- _ => pose proof (clean_not_rec v H) as Hnr; pose proof (clean_not_exn v H) as Hne end;
      cbn [step_frame]; rewrite ?Hnr, ?Hne, ?Hsw, ?Hhd, ?(plain_dep_error P _ _ _ Hst'), ?(plain_no_subgraph_error _ _ Hst');
      unfold default_or_raise, reduced; cbn [d_oneof d_rec maind andb];
      repeat break_match; spawn_norm; cbn [fst];
      autorewrite with core; cbn [st_trace emit_obs bump with_store spawn fst set_adddata];
      autorewrite with core; intros Hin; try (left; exact Hin);
      repeat (destruct Hin as [Hin|Hin]; [try discriminate Hin; inversion Hin; subst; eauto|]); try (left; exact Hin).
  Qed.

  Notation order := (p_order P (maind P)).
  Hypothesis Hnd : NoDup order.

  Definition PhiA (st : mstate) (i : idt) (ts : tstate frame) : Prop :=
    forall m, snd (fst i) = TNNode m ->
      (forall f j kw, In f (estack ts) -> retry_kw f = Some (j, kw) -> j = real_index m /\ node_kwargs P st m = Some kw) /\
      (exists_result m (st_store st) = true -> existsb is_after_save (estack ts) = true \/ exists r, ts = TDone r) /\
      (forall p, In p (preds G m) -> exists_result p (st_store st) = true).

  Definition args_ok (st : mstate) (i : nat) (kw : kwargs) : Prop :=
    exists m, real_index m = i /\ In m (node_names st) /\ node_kwargs P st m = Some kw /\
              forall p, In p (preds G m) -> exists_result p (st_store st) = true.

  Definition globA (st : mstate) : Prop :=
    st_adddata st = [] /\
    (forall m, exists_result m (st_store st) = true -> In m (node_names st)) /\
    (forall i k kw, In (OStart i k kw) (st_trace st) -> args_ok st i kw).

  Definition argsI (st : mstate) (c : running) : Prop := guard st \/ (globA st /\ allT (PhiA st) st c).

  Lemma PhiA_wake st : wake_closed (PhiA st).
  Proof.
    intros i w k H m Hm. destruct (H m Hm) as (A & B & C). cbn [estack] in *. repeat split; auto.
    - apply (A f j kw); assumption.
    - apply (A f j kw); assumption.
    - intros Hr. destruct (B Hr) as [Hs|[r Hr']]; [left; exact Hs|discriminate Hr'].
  Qed.

  Lemma PhiA_ext st st' i ts :
    st_store st' = st_store st -> st_adddata st' = st_adddata st -> PhiA st i ts -> PhiA st' i ts.
  Proof.
    intros A B H m Hm. destruct (H m Hm) as (H1 & H2 & H3). rewrite A. repeat split; auto.
    - apply (H1 f j kw); assumption.
    - rewrite (node_kwargs_ext st st' m); [apply (H1 f j kw); assumption|intros; rewrite A; reflexivity|exact B].
  Qed.
  Lemma allT_extA st0 st1 st c :
    st_store st1 = st_store st0 -> st_adddata st1 = st_adddata st0 -> allT (PhiA st0) st c -> allT (PhiA st1) st c.
  Proof. intros A B. apply allT_impl. intros x _. apply PhiA_ext; assumption. Qed.
  Lemma globA_ext st st' :
    names st' = names st -> st_store st' = st_store st -> st_adddata st' = st_adddata st -> st_trace st' = st_trace st -> globA st -> globA st'.
  Proof.
    intros A B C D (G1 & G2 & G3). unfold globA, args_ok, node_names. rewrite A, B, C, D. split; [exact G1|]. split; [exact G2|].
    intros i k kw Hin. destruct (G3 i k kw Hin) as [m (M1 & M2 & M3 & M4)]. exists m. repeat split; auto.
    rewrite (node_kwargs_ext st st' m); [exact M3|intros; rewrite B; reflexivity|exact C].
  Qed.

  Lemma adddata_after_step t rest r : st_adddata (fst (after_step t rest r)) = st_adddata (fst r).
  Proof. destruct r as [st1 [w k'|k'|k' sg'|sg']]; reflexivity. Qed.
  Lemma trace_after_step t rest r : st_trace (fst (after_step t rest r)) = st_trace (fst r).
  Proof. destruct r as [st1 [w k'|k'|k' sg'|sg']]; reflexivity. Qed.

  Lemma owner_eas m d n fc : owner (TNNode m) (FExecAfterStart d n fc) = true -> n = m.
  Proof. cbn. intros H. apply key_eqb_spec in H. exact H. Qed.
  Lemma owner_node_name nm f j kw : owner nm f = true -> retry_kw f = Some (j, kw) -> exists m, nm = TNNode m /\ j = real_index m.
  Proof.
    destruct f; cbn [retry_kw]; intros Ho H; try discriminate H; inversion H; subst; destruct nm; try discriminate Ho; cbn in Ho;
      apply Nat.eqb_eq in Ho; eauto.
  Qed.

  Lemma args_ok_mono st st1 i kw :
    (forall p, exists_result p (st_store st) = true -> get_result p true (st_store st1) = get_result p true (st_store st)) ->
    (forall p, exists_result p (st_store st) = true -> exists_result p (st_store st1) = true) ->
    (forall m, In m (node_names st) -> In m (node_names st1)) -> st_adddata st1 = st_adddata st ->
    args_ok st i kw -> args_ok st1 i kw.
  Proof.
    intros F1 F2 F3 F4 [m (M1 & M2 & M3 & M4)]. exists m. repeat split; auto.
    rewrite (node_kwargs_ext st st1 m); [exact M3|intros p Hp; apply F1; apply M4; exact Hp|exact F4].
  Qed.

  Lemma argsA_step st t fr rest sg :
    base P st (Some (t, fr :: rest, sg)) -> handled fr sg = true ->
    globR st -> allT (PhiR P st) st (Some (t, fr :: rest, sg)) ->
    NoDup (node_names (fst (step_frame P t fr sg st))) ->
    globA st -> allT (PhiA st) st (Some (t, fr :: rest, sg)) ->
    leaves_run fr sg (snd (step_frame P t fr sg st)) = false ->
    globA (fst (step_frame P t fr sg st)) /\
    allT (PhiA (fst (step_frame P t fr sg st)))
         (fst (after_step t rest (step_frame P t fr sg st))) (snd (after_step t rest (step_frame P t fr sg st))).
  Proof.
    intros Hb Hh HG HA Hnd1 (A0 & A1 & A3) HAa Hlr. destruct HG as (G1 & G2 & G3).
    destruct (b_cur _ _ _ Hb) as [x0 [Hf0 [Hk [Hs [Ho [Hc _]]]]]].
    cbn [plain_stack forallb] in Hk, Ho. apply andb_true_iff in Hk. destruct Hk as [Kf Kr]. apply andb_true_iff in Ho. destruct Ho as [Of Or].
    pose proof (b_ps _ _ _ Hb) as Hps. pose proof Hps as Hps'. unfold PS in Hps'. destruct Hps' as [_ [Hrh _]].
    pose proof (plain_step_names P Hsw Hhd t fr sg st Kf Hs Hps) as Hn.
    destruct (plain_step_summary P t fr sg st Kf Hs Hps) as (Hst & _ & Had).
    destruct (find_task_in _ _ _ Hf0) as [Hin0 Hid0].
    pose proof (allT_In _ _ _ x0 HA Hin0) as Hx0. unfold PhiR in Hx0. cbn [estate] in Hx0. rewrite Hid0, Nat.eqb_refl in Hx0.
    destruct Hx0 as (X1 & X2 & X3 & X4 & X5). cbn [ident fst snd] in X1, X2, X3, X4, X5.
    pose proof (allT_In _ _ _ x0 HAa Hin0) as Hz0. unfold PhiA in Hz0. cbn [estate ident fst snd] in Hz0. rewrite Hid0, Nat.eqb_refl in Hz0.
    pose proof (in_names _ _ Hin0) as Hnm0.
    assert (Hnn : forall m, In m (node_names st) -> In m (node_names (fst (step_frame P t fr sg st)))).
    { intros m Hm. unfold node_names. rewrite Hn, flat_map_app. apply in_or_app. left. exact Hm. }
    (* a stored result is final *)
    assert (F1 : forall p, exists_result p (st_store st) = true ->
                           get_result p true (st_store (fst (step_frame P t fr sg st))) = get_result p true (st_store st)).
    { intros p Hp. rewrite Hst. unfold step_store. destruct fr; try reflexivity; destruct sg; try reflexivity.
      - destruct (key_eqb p n) eqn:Epn; [|apply get_result_set_other; intros ->; rewrite key_eqb_refl in Epn; discriminate Epn].
        exfalso. apply key_eqb_spec in Epn. subst p.
        pose proof (owner_frame_key _ _ _ Of eq_refl) as Enm. destruct (Hz0 n Enm) as (_ & B & _). destruct (B Hp) as [Hs'|[r Hr]]; [|discriminate Hr].
        rewrite Enm in Or. rewrite (knode_bottom n (FNodeAfterExec d n) rest eq_refl Or Hc) in Hs'. cbn in Hs'. discriminate Hs'.
      - destruct (exists_processed n (st_store st)); reflexivity. }
    assert (F2 : forall p, exists_result p (st_store st) = true -> exists_result p (st_store (fst (step_frame P t fr sg st))) = true).
    { intros p Hp. rewrite Hst. apply step_store_res_mono; assumption. }
    split.
    - (* the global part *)
      split; [rewrite Had; exact A0|]. split.
      + intros m Hm. rewrite Hst in Hm. unfold step_store in Hm.
        destruct fr; try (apply Hnn, A1; exact Hm); destruct sg; try (apply Hnn, A1; exact Hm).
        * rewrite (result_set _ _ _ _ Hrh) in Hm. apply orb_true_iff in Hm. destruct Hm as [Hm|Hm]; [|apply Hnn, A1; exact Hm].
          apply key_eqb_spec in Hm. subst m. apply Hnn. apply node_names_in. rewrite <- (owner_frame_key _ _ _ Of eq_refl). exact Hnm0.
        * destruct (exists_processed n (st_store st)); apply Hnn, A1; exact Hm.
      + intros i k kw Hin. destruct (plain_step_ostart t fr sg st i k kw Kf Hs Hps Hin) as [Hold|[att [-> ->]]].
        * apply (args_ok_mono st); try assumption. apply A3 with (k := k). exact Hold.
        * apply (args_ok_mono st); try assumption.
          destruct (owner_node_name _ _ _ _ Of eq_refl) as [m [Enm Ej]]. destruct (Hz0 m Enm) as (A & _ & C).
          destruct (A _ i kw (or_introl eq_refl) eq_refl) as [_ Hkw]. exists m. repeat split; auto.
          apply node_names_in. rewrite <- Enm. exact Hnm0.
    - apply (allT_step P Hsw Hhd (PhiA st)); try assumption.
      + apply PhiA_wake.
      + (* spawned tasks *)
        intros nm Hnm m Em. cbn [fst snd] in Em.
        destruct (creates_shape P fr sg st nm Hnm) as [[-> ->]|[d [n [r [l0 [-> [-> ->]]]]]]]; [discriminate Em|]. inversion Em; subst m. clear Em.
        cbn [plain_frame] in Kf. apply is_main_eq in Kf. subst d.
        assert (Hrd : is_ready P (st_store st) (maind P) n = true) by (cbn [creates] in Hnm; destruct (is_ready _ _ _ _); [reflexivity|contradiction]).
        assert (Hnot : ~ In n (node_names st)).
        { destruct (X4 (owner_dag_loop _ _ _ _ Of)) as [r0 [Hr0 Hor]].
          assert (r0 = n :: r) by (destruct rest; [cbn in Hr0; inversion Hr0; reflexivity|discriminate Hr0]). subst r0.
          intros Hin. pose proof Hnd as Hnd'. rewrite Hor in Hnd'. apply NoDup_remove_2 in Hnd'. apply Hnd'. apply in_or_app. left. exact Hin. }
        unfold spawn_frame_of. cbn [estack]. repeat split.
        * destruct H as [<-|[]]. discriminate H0.
        * destruct H as [<-|[]]. discriminate H0.
        * intros Hr. exfalso. apply Hnot. apply A1. exact Hr.
        * apply (is_ready_true _ _ Hrd).
      + (* the other tasks *)
        intros y ts Hy Hne Hyp m Em. destruct (Hyp m Em) as (B1 & B2 & B3).
        assert (Hkw : node_kwargs P (fst (step_frame P t fr sg st)) m = node_kwargs P st m).
        { apply node_kwargs_ext; [intros p Hp; apply F1; apply B3; exact Hp|rewrite Had; reflexivity]. }
        repeat split.
        * apply (B1 f j kw); assumption.
        * rewrite Hkw. apply (B1 f j kw); assumption.
        * intros Hr. apply B2.
          destruct (tname_seqb (t_name x0) (TNNode m)) eqn:Et.
          -- exfalso. apply tname_seqb_sound in Et.
             pose proof (ev_step_frame P t fr sg st) as Hev'.
             destruct (evolves_find _ _ _ _ Hev' Hf0) as [x' [Hf' [Hnm' [_ Hid']]]]. destruct (find_task_in _ _ _ Hf') as [Hin' _].
             apply (node_names_unique _ y x' m Hnd1 Hy Hin'); [rewrite Hid', Hid0; exact Hne|exact Em|rewrite Hnm'; exact Et].
          -- assert (Hnn' : t_name x0 <> TNNode m) by (intros E; rewrite E in Et; clear -Et; destruct m; cbn in Et; rewrite ?Nat.eqb_refl in Et; discriminate Et).
             destruct (step_untouched (t_name x0) fr sg st m Of Hnn' Hrh) as (_ & U2 & _). rewrite Hst, U2 in Hr. exact Hr.
        * intros p Hp. apply F2. apply B3. exact Hp.
      + (* the running task *)
        intros x Hx Hid. rewrite (run_ident P st t fr sg x0 x (b_ev _ _ _ Hb) Hf0 Hx Hid). intros m Em. cbn [ident fst snd] in Em.
        destruct (Hz0 m Em) as (B1 & B2 & B3). rewrite Em in Of, Or.
        assert (Hkw : node_kwargs P (fst (step_frame P t fr sg st)) m = node_kwargs P st m).
        { apply node_kwargs_ext; [intros p Hp; apply F1; apply B3; exact Hp|rewrite Had; reflexivity]. }
        rewrite estack_nstate. repeat split.
        * apply in_app_or in H. destruct H as [H|H].
          -- destruct (plain_step_retry_kw t fr sg st f j kw Kf Hs Hps H H0) as [Hfr|[d0 [n [fc [-> [-> _]]]]]].
             ++ apply (B1 fr j kw); [left; reflexivity|exact Hfr].
             ++ rewrite (owner_eas _ _ _ _ Of). reflexivity.
          -- apply (B1 f j kw); [right; exact H|exact H0].
        * rewrite Hkw. apply in_app_or in H. destruct H as [H|H].
          -- destruct (plain_step_retry_kw t fr sg st f j kw Kf Hs Hps H H0) as [Hfr|[d0 [n [fc [-> [_ Hnk]]]]]].
             ++ apply (B1 fr j kw); [left; reflexivity|exact Hfr].
             ++ rewrite <- (owner_eas _ _ _ _ Of). exact Hnk.
          -- apply (B1 f j kw); [right; exact H|exact H0].
        * intros Hr. rewrite existsb_app.
          destruct (exists_result m (st_store st)) eqn:Er.
          -- destruct (B2 eq_refl) as [Hs'|[r Hr']]; [|discriminate Hr']. cbn [estack existsb] in Hs'. apply orb_true_iff in Hs'. destruct Hs' as [Hs'|Hs'].
             ++ (* the frame of the `finally`: the task finishes with this step *)
                right. destruct fr; try discriminate Hs'. assert (rest = []) by (apply (knode_bottom m (FNodeAfterSave d n unlock) rest eq_refl Or Hc)). subst rest.
                cbn [plain_frame] in Kf. apply andb_true_iff in Kf. destruct Kf as [Kd Ku]. subst unlock.
                assert (Hse : step_event (FNodeAfterSave d n true) sg = Some n) by (destruct sg; try discriminate Hh; reflexivity).
                assert (Kf' : plain_frame P (FNodeAfterSave d n true) = true) by (cbn [plain_frame]; rewrite Kd; reflexivity).
                destruct (plain_step_event_ret P t _ sg st n Kf' Hs Hps Hse) as [s' Hd].
                exists s'. rewrite Hd. reflexivity.
             ++ left. rewrite Hs'. apply orb_true_r.
          -- (* the result is stored by this very step *)
             left. rewrite Hst in Hr. unfold step_store in Hr. destruct fr; try congruence; destruct sg; try congruence.
             ++ cbn [plain_frame] in Kf. apply is_main_eq in Kf. subst d. cbn [clean_sig] in Hs.
                cbn [step_frame]. rewrite (clean_not_rec _ Hs), (clean_not_exn _ Hs). cbn [snd dir_frames existsb is_after_save orb]. reflexivity.
             ++ destruct (exists_processed n (st_store st)); [congruence|]. rewrite result_set_processed in Hr. congruence.
        * intros p Hp. apply F2. apply B3. exact Hp.
  Qed.

  Lemma main_named st x : evolves (init_state) st -> In x (st_tasks st) -> t_id x = main_tid -> t_name x = TNMain.
  Proof.
    intros He Hx Hid. destruct (ev_tasks _ _ He) as [new [E [F _]]]. cbn in E, F.
    apply (in_map ident) in Hx. rewrite E in Hx. destruct Hx as [Hx|Hx].
    - unfold ident in Hx. inversion Hx. reflexivity.
    - rewrite Forall_forall in F. specialize (F _ Hx). unfold tr_id, ident in F. cbn in F. unfold main_tid in Hid. lia.
  Qed.

  Lemma allT_cancel_main_vac (Phi : idt -> tstate frame -> Prop) st :
    (forall i ts, snd (fst i) = TNMain -> Phi i ts) -> evolves (init_state) st ->
    allT Phi st None -> allT Phi (cancel_task main_tid st) None.
  Proof.
    intros Hv He H. unfold allT in *. unfold cancel_task. destruct (find_task main_tid (st_tasks st)) as [x|] eqn:F; [|exact H].
    destruct (find_task_in _ _ _ F) as [Hin Hid]. pose proof (main_named st x He Hin Hid) as Hnm.
    destruct x as [i nm [k s|w k|r] h]; try exact H.
    - apply ok_set_tstate; [exact H|]. intros y Hy _. rewrite F in Hy. inversion Hy; subst y. unfold TPc. apply Hv. exact Hnm.
    - match goal with |- tasks_ok _ (push_ready _ ?s) => apply (tasks_ok_same _ s); [reflexivity|] end.
      apply ok_set_tstate; [exact H|]. intros y Hy _. cbn in Hy. rewrite F in Hy. inversion Hy; subst y. unfold TPc. apply Hv. exact Hnm.
  Qed.

  Theorem creach_args : forall st c, creach P st c -> argsI st c.
  Proof.
    intros st c H. pose proof (creach_base P Hsw Hhd Hbody st c H) as Hb0.
    induction H as [|st t rest x k sg H IH Hq Hf Ht|st t rest H IH Hq|st t fr rest sg H IH|st t sg H IH|st c H IH|st g H IH|st H IH].
    - right. split.
      + split; [reflexivity|]. split; [intros m Hm; discriminate Hm|intros i k kw [Hx|[]]; discriminate Hx].
      + unfold allT, tasks_ok, init_state. cbn. constructor; [|constructor]. unfold TPc, PhiA. cbn. intros m Hm. discriminate Hm.
    - pose proof (creach_base P Hsw Hhd Hbody _ _ H) as Hb. destruct (IH Hb) as [Hg|[GA HAa]]; [left; exact Hg|right].
      split; [exact GA|]. apply (allT_extA st); [reflexivity|reflexivity|]. eapply (allT_start P); eassumption.
    - pose proof (creach_base P Hsw Hhd Hbody _ _ H) as Hb. destruct (IH Hb) as [Hg|[GA HAa]]; [left; exact Hg|right]. split; [exact GA|exact HAa].
    - pose proof (creach_base P Hsw Hhd Hbody _ _ H) as Hb.
      pose proof (cr_step P st t fr rest sg H) as Hcr'.
      destruct (creach_roles P Hsw Hhd Hbody Hnd _ _ Hcr') as [Hg'|[HG' HA']]; [left; exact Hg'|].
      destruct (creach_roles P Hsw Hhd Hbody Hnd _ _ H) as [Hg|[HG HA]]; [left; apply (guard_step P); assumption|].
      destruct (IH Hb) as [Hg|[GA HAa]]; [left; apply (guard_step P); assumption|].
      destruct (b_cur _ _ _ Hb) as [x0 [Hf0 [Hk [Hs _]]]]. cbn [plain_stack forallb] in Hk. apply andb_true_iff in Hk. destruct Hk as [Kf _].
      destruct (leaves_run fr sg (snd (step_frame P t fr sg st))) eqn:Hlr.
      + left. left. rewrite over_after_step, (plain_step_over P t fr sg st Kf Hs (b_ps _ _ _ Hb)), Hlr. apply orb_true_r.
      + right. destruct (creach_typed P Hsw Hhd Hbody _ _ H) as [_ Hty]. cbn [typed_cur typed_stack] in Hty.
        pose proof (roles_nodup P Hnd _ _ HG' HA') as Hnd1. unfold node_names in Hnd1. rewrite names_after_step in Hnd1. fold (node_names (fst (step_frame P t fr sg st))) in Hnd1.
        destruct (argsA_step st t fr rest sg Hb Hty HG HA Hnd1 GA HAa Hlr) as [GA1 HA1].
        split.
        * apply (globA_ext (fst (step_frame P t fr sg st))); [apply names_after_step|apply store_after_step|apply adddata_after_step|apply trace_after_step|exact GA1].
        * apply (allT_extA (fst (step_frame P t fr sg st))); [apply store_after_step|apply adddata_after_step|exact HA1].
    - pose proof (creach_base P Hsw Hhd Hbody _ _ H) as Hb. destruct (IH Hb) as [Hg|[GA HAa]]; [left; apply guard_done; [exact (b_ev _ _ _ Hb)|exact Hg]|right].
      split; [apply (globA_ext st); [exact (sn_set_tstate t _ st)|reflexivity|reflexivity|reflexivity|exact GA]|].
      apply (allT_extA st); [reflexivity|reflexivity|]. apply (allT_done P); assumption.
    - pose proof (creach_base P Hsw Hhd Hbody _ _ H) as Hb. left. apply guard_abort. exact (b_ev _ _ _ Hb).
    - pose proof (creach_base P Hsw Hhd Hbody _ _ H) as Hb. destruct (IH Hb) as [Hg|[GA HAa]]; [left; apply (guard_gate P); [exact (b_ev _ _ _ Hb)|exact Hg]|right].
      unfold complete_gate.
      split; [apply (globA_ext st); [apply names_wake_all|apply store_wake_all|apply adddata_wake_all|apply trace_wake_all|exact GA]|].
      apply (allT_extA st); [apply store_wake_all|apply adddata_wake_all|]. apply allT_gate; [apply PhiA_wake|exact HAa].
    - pose proof (creach_base P Hsw Hhd Hbody _ _ H) as Hb. destruct (IH Hb) as [Hg|[GA HAa]]; [left; apply (guard_cancel P); [exact (b_ev _ _ _ Hb)|exact Hg]|right].
      split; [apply (globA_ext st); [apply names_cancel_task|apply store_cancel_task|apply adddata_cancel_task|apply trace_cancel_task|exact GA]|].
      apply (allT_extA st); [apply store_cancel_task|apply adddata_cancel_task|].
      apply allT_cancel_main_vac; [|exact (b_ev _ _ _ Hb)|exact HAa].
      intros i ts Hi m Hm. rewrite Hi in Hm. discriminate Hm.
  Qed.
End Args.


(* ---- on schedule-reachable states ------------------------------------------------------------------------------------------------ *)
Theorem plain_arguments_are_final_values P :
  plain_prog P -> NoDup (p_order P (maind P)) ->
  forall st, reachable P st -> over st = false -> main_done st = false ->
    (* every body invocation logged so far *)
    (forall i k kw, In (OStart i k kw) (st_trace st) ->
       exists m, real_index m = i /\ node_kwargs P st m = Some kw /\
                 forall p, In p (preds (b_graph (build (p_decls P) (p_inp P) (p_out P))) m) -> exists_result p (st_store st) = true) /\
    (* the arguments held by the retry loop of every node task (what its body is, was or will again be invoked with) *)
    (forall x m f j kw, In x (st_tasks st) -> t_name x = TNNode m -> In f (estack (t_state x)) -> retry_kw f = Some (j, kw) ->
       j = real_index m /\ node_kwargs P st m = Some kw) /\
    (* a node that has a task has all its declared inputs computed *)
    (forall x m p, In x (st_tasks st) -> t_name x = TNNode m -> In p (preds (b_graph (build (p_decls P) (p_inp P) (p_out P))) m) ->
       exists_result p (st_store st) = true).
Proof.
  intros (Hg & Hb & _) Hnd st Hr Ho Hm. destruct (graph_plain_sound _ Hg) as [Hsw Hhd].
  destruct (creach_args P Hsw Hhd Hb Hnd st None (reachable_creach P st Hr)) as [[Hg'|Hg']|[(A0 & A1 & A3) HA]]; [congruence|congruence|].
  split; [|split].
  - intros i k kw Hin. destruct (A3 i k kw Hin) as [m (M1 & _ & M3 & M4)]. exists m. auto.
  - intros x m f j kw Hx Hnm Hf Hr'. destruct (allT_In _ _ _ x HA Hx m Hnm) as (B1 & _ & _). cbn [estate] in B1. exact (B1 f j kw Hf Hr').
  - intros x m p Hx Hnm Hp. destruct (allT_In _ _ _ x HA Hx m Hnm) as (_ & _ & B3). exact (B3 p Hp).
Qed.
