(* Plain programs: the facts of PlainWorld / PlainLive / StackInv / WaitInv, available at every point INSIDE a loop iteration
   (configuration-level reachability of Proofs/Micro.v). Later invariants are proved by induction over `creach` with these at hand. *)
From MLPE Require Import Engine.Run Proofs.ExecLemmas Proofs.Evolve Proofs.StackInv Proofs.ReadyInv Proofs.WaitInv Explore.StateEq
     Proofs.ProcessedInv Proofs.PlainWorld Proofs.PlainLaunch Proofs.PlainLive Proofs.Micro.

(* a task that exists keeps existing, with its identity *)
Lemma evolves_find (st s : mstate) t x :
  evolves st s -> find_task t (st_tasks st) = Some x ->
  exists x', find_task t (st_tasks s) = Some x' /\ t_name x' = t_name x /\ t_helper x' = t_helper x /\ t_id x' = t_id x.
Proof.
  intros [[new [E _]] _ _ _].
  assert (G : forall (l l' : list (task frame)) newl, map ident l' = map ident l ++ newl -> find_task t l = Some x ->
                                                     exists x', find_task t l' = Some x' /\ t_name x' = t_name x /\ t_helper x' = t_helper x /\ t_id x' = t_id x).
  { clear. induction l as [|y r IH]; intros l' newl Em F0; cbn in F0; [discriminate|].
    destruct l' as [|y' r']; [discriminate|]. cbn [map app] in Em. inversion Em as [[Ei En Eh Er]].
    cbn [find_task]. rewrite Ei. destruct (Nat.eqb (t_id y) t).
    - inversion F0; subst. exists y'. auto.
    - exact (IH r' newl Er F0). }
  exact (G _ _ _ E).
Qed.

Lemma nodup_ids_inj0 (l : list (task frame)) x y :
  NoDup (map (@t_id frame) l) -> In x l -> In y l -> t_id x = t_id y -> x = y.
Proof.
  induction l as [|z r IH]; [contradiction|]. cbn [map]. intros Hnd Hx Hy E. inversion Hnd as [|a b Hni Hr]; subst.
  destruct Hx as [Hx|Hx]; destruct Hy as [Hy|Hy].
  - congruence.
  - subst z. exfalso. apply Hni. rewrite E. apply in_map. exact Hy.
  - subst z. exfalso. apply Hni. rewrite <- E. apply in_map. exact Hx.
  - apply IH; assumption.
Qed.

Section Base.
  Variable P : prog.
  Notation G := (b_graph (build (p_decls P) (p_inp P) (p_out P))).
  Hypothesis Hsw : forall n, is_switch G n = false.
  Hypothesis Hhd : forall n, is_head G n = false.
  Hypothesis Hbody : forall i kw a v, p_body P i kw a = OVal v -> clean v = true.

  Definition cur_ok (st : mstate) (c : running) : Prop :=
    match c with
    | None => True
    | Some (t, k, sg) =>
      exists x, find_task t (st_tasks st) = Some x /\ plain_stack P k = true /\ clean_sig sg /\ forallb (owner (t_name x)) k = true
                /\ chainb k = true /\ (t = main_tid -> main_stack k = true) /\ (exists k0 sg0, t_state x = TReady k0 sg0)
    end.

  Record base (st : mstate) (c : running) : Prop := {
    b_ps : PS st;
    b_plain : tasks_ok (plain_TP P) st;
    b_owner : tasks_ok owner_TP st;
    b_stacks : stacks_ok st;
    b_wk : tasks_ok wk_TP st;
    b_wc : wc st;
    b_ev : evolves (init_state) st;
    b_cur : cur_ok st c
  }.

  Lemma base_none st c : base st c -> base st None.
  Proof. intros [A B C D E F G0 _]. constructor; auto. exact I. Qed.

  Lemma base_next st c : base st c -> 1 <= st_next st.
  Proof. intros H. pose proof (ev_next _ _ (b_ev _ _ H)) as N. cbn in N. exact N. Qed.

  Theorem creach_base : forall st c, creach P st c -> base st c.
  Proof.
    intros st c H. induction H as [|st t rest x k sg H IH Hq Hf Ht|st t rest H IH Hq|st t fr rest sg H IH|st t sg H IH|st c H IH|st g H IH|st H IH].
    - (* init *)
      constructor.
      + unfold PS, plain_store; cbn; auto.
      + unfold tasks_ok, init_state. cbn. constructor; [|constructor]. unfold plain_TP. cbn. auto.
      + unfold tasks_ok, init_state. cbn. constructor; [|constructor]. reflexivity.
      + unfold stacks_ok, tasks_ok, init_state. cbn. constructor; [|constructor]. unfold stack_TP, main_tid. cbn.
        split; [split; reflexivity|]. split; [|auto]. split; [discriminate|]. split; reflexivity.
      + unfold tasks_ok, init_state. cbn. constructor; [exact I|constructor].
      + intros t x w k Hx Hw. unfold init_state, spawn in Hx. destruct t; cbn in Hx; [|discriminate Hx]. inversion Hx; subst. discriminate Hw.
      + apply evolves_refl.
      + exact I.
    - (* start *)
      destruct IH as [A B C D E F G0 _]. destruct (find_task_in _ _ _ Hf) as [Hin Hid].
      constructor; try (apply ok_dequeue; assumption).
      + exact A.
      + apply wc_dequeue. exact F.
      + eapply evolves_trans; [exact G0|apply ev_dequeue].
      + cbn [cur_ok]. exists x. split; [exact Hf|].
        pose proof B as B'. pose proof C as C'. pose proof D as D'. unfold stacks_ok, tasks_ok in B', C', D'. rewrite Forall_forall in B', C', D'.
        pose proof (B' x Hin) as Hb. unfold plain_TP in Hb. rewrite Ht in Hb. destruct Hb as [Hb1 Hb2].
        pose proof (C' x Hin) as Hc. unfold owner_TP in Hc. rewrite Ht in Hc.
        destruct (D' x Hin) as [_ Hd]. rewrite Ht in Hd. destruct Hd as [[Hd1 [Hd2 Hd3]] _].
        repeat split; try assumption; [intros ->; apply Hd3; exact Hid|eauto].
    - (* skip *)
      destruct IH as [A B C D E F G0 _].
      constructor; try (apply ok_dequeue; assumption); [exact A|apply wc_dequeue; exact F|eapply evolves_trans; [exact G0|apply ev_dequeue]|exact I].
    - (* step *)
      pose proof (base_next _ _ IH) as Hn.
      destruct IH as [A B C D E F G0 [x [Hf [Hk [Hs [Ho [Hc [Hm Hrdy]]]]]]]].
      cbn [plain_stack forallb] in Hk, Ho. apply andb_true_iff in Hk. destruct Hk as [Kf Kr]. apply andb_true_iff in Ho. destruct Ho as [Of Or].
      pose proof (plain_step_dir P Hbody t fr sg st Kf Hs A) as Hd.
      pose proof (plain_step_store P t fr sg st Kf Hs A) as Hst.
      pose proof (plain_step_tasks P Hsw Hhd t fr sg st Kf Hs A B) as Hpt.
      pose proof (plain_step_tasks_gen P Hsw Hhd owner_TP owner_wake owner_cancel_ready owner_cancel_wait (owner_launcher P) (owner_node P) t fr sg st Kf Hs A C) as Hot.
      pose proof (plain_step_owner P (t_name x) t fr sg st Kf Of Hs A) as Hod.
      pose proof (step_frame_tasks_ok P stack_TP stack_TP_wake stack_TP_cancel_ready stack_TP_cancel_wait stack_TP_spawn t fr sg st Hn D) as Hstk.
      pose proof (step_frame_tasks_ok P wk_TP wk_wake wk_cancel_ready wk_cancel_wait wk_spawn t fr sg st Hn E) as Hwk.
      pose proof (wc_step_frame P t fr sg st F) as Hwc.
      pose proof (ev_step_frame P t fr sg st) as Hev.
      pose proof (step_frame_dir_ok P t fr sg st) as Hdo.
      pose proof (step_suspend_kind P t fr sg st) as Hsk.
      destruct (evolves_find _ _ _ _ Hev Hf) as [x' [Hf' [Hnm [Hh Hid']]]].
      assert (Hrdy' : exists k0 sg0, t_state x' = TReady k0 sg0).
      { set (RT := fun y : task frame => t_id y = t -> exists k0 sg0, t_state y = TReady k0 sg0).
        assert (R0 : tasks_ok RT st).
        { unfold tasks_ok. rewrite Forall_forall. intros y Hy Hi. destruct (find_task_in _ _ _ Hf) as [Hix Hidx].
          destruct (evolved_shape _ G0) as [xa [ra [_ [_ [_ [_ [Hnd _]]]]]]].
          assert (y = x) by (apply (nodup_ids_inj0 _ _ _ Hnd Hy Hix); congruence). subst y. exact Hrdy. }
        assert (R1 : tasks_ok RT (fst (step_frame P t fr sg st))).
        { apply (step_frame_tasks_ok P RT); try assumption; unfold RT.
          - intros y w k Hy Hp Hi. cbn. eauto.
          - intros y k s Hy Hp Hi. cbn. eauto.
          - intros y w k Hy Hp Hi. cbn. eauto.
          - intros i nm f _ _ _. cbn. eauto. }
        unfold tasks_ok in R1. rewrite Forall_forall in R1. destruct (find_task_in _ _ _ Hf') as [Hix' Hidx']. exact (R1 x' Hix' Hidx'). }
      assert (Hseg : forall k', seg_ok fr k' -> (k' ++ rest) <> [] /\ chainb (k' ++ rest) = true /\ (t = main_tid -> main_stack (k' ++ rest) = true)).
      { intros k' [Hne' [Hkc [Hl Hmk]]]. split; [destruct k'; [contradiction|discriminate]|]. split.
        - apply (chainb_app fr); assumption.
        - intros Ht. specialize (Hm Ht). unfold main_stack in *. rewrite forallb_app. cbn [forallb] in Hm.
          apply andb_true_iff in Hm. destruct Hm as [Hf0 Hr]. rewrite (Hmk Hf0), Hr. reflexivity. }
      destruct (step_frame P t fr sg st) as [st1 [w k'|k'|k' sg'|sg']]; cbn [after_step fst snd dir_plain dir_frames dir_ok] in *.
      + (* suspend *)
        destruct (Hseg k' Hdo) as [S1 [S2 S3]].
        constructor.
        * exact Hst.
        * apply ok_suspend; [exact Hpt|]. intros y _ _. unfold plain_TP. cbn. rewrite plain_stack_app, Hd. exact Kr.
        * apply ok_suspend; [exact Hot|]. intros y Hy _. unfold owner_TP. cbn. rewrite Hf' in Hy. inversion Hy; subst y. rewrite Hnm, forallb_app, Hod. exact Or.
        * apply ok_suspend; [exact Hstk|]. intros y Hy [Hy1 _]. split; [exact Hy1|]. cbn. destruct (find_task_in _ _ _ Hy) as [_ Hid]. rewrite Hid. auto.
        * apply ok_suspend; [exact Hwk|]. intros y _ _. unfold wk_TP. cbn. destruct (Hsk w k' eq_refl) as [f [r [-> Hw]]]. exact Hw.
        * apply wc_suspend. exact Hwc.
        * eapply evolves_trans; [exact G0|]. eapply evolves_trans; [exact Hev|]. unfold suspend. eapply evolves_trans; [apply ev_set_tstate|apply ev_set_waiters].
        * exact I.
      + (* yield *)
        destruct (Hseg k' Hdo) as [S1 [S2 S3]].
        constructor.
        * exact Hst.
        * apply ok_push_ready. apply ok_set_tstate; [exact Hpt|]. intros y _ _. unfold plain_TP. cbn. rewrite plain_stack_app, Hd. auto.
        * apply ok_push_ready. apply ok_set_tstate; [exact Hot|]. intros y Hy _. unfold owner_TP. cbn. rewrite Hf' in Hy. inversion Hy; subst y. rewrite Hnm, forallb_app, Hod. exact Or.
        * apply ok_push_ready. apply ok_set_tstate; [exact Hstk|]. intros y Hy [Hy1 _]. split; [exact Hy1|]. cbn. destruct (find_task_in _ _ _ Hy) as [_ Hid]. rewrite Hid. auto.
        * apply ok_push_ready. apply ok_set_tstate; [exact Hwk|]. intros y _ _. exact I.
        * apply wc_push_ready. apply wc_unpark; [exact I|exact Hwc].
        * eapply evolves_trans; [exact G0|]. eapply evolves_trans; [exact Hev|]. eapply evolves_trans; [apply ev_set_tstate|apply ev_push_ready].
        * exact I.
      + (* cont *)
        destruct (Hseg k' Hdo) as [S1 [S2 S3]]. destruct Hd as [Hd1 Hd2].
        constructor; try assumption.
        * eapply evolves_trans; eassumption.
        * exists x'. rewrite Hnm. unfold plain_stack in *. rewrite !forallb_app, Hd1, Hod. auto 12.
      + (* ret *)
        constructor; try assumption.
        * eapply evolves_trans; eassumption.
        * exists x'. rewrite Hnm. repeat split; try assumption; [apply (chainb_tail fr); exact Hc|].
          intros Ht. specialize (Hm Ht). apply (main_stack_tail fr). exact Hm.
    - (* done *)
      destruct IH as [A B C D E F G0 [x [Hf _]]].
      constructor.
      + exact A.
      + apply ok_set_tstate; [exact B|]. intros y _ _. exact I.
      + apply ok_set_tstate; [exact C|]. intros y _ _. exact I.
      + apply ok_set_tstate; [exact D|]. intros y _ [Hy _]. split; [exact Hy|exact I].
      + apply ok_set_tstate; [exact E|]. intros y _ _. exact I.
      + apply wc_unpark; [exact I|exact F].
      + eapply evolves_trans; [exact G0|apply ev_set_tstate].
      + exact I.
    - (* abort *)
      destruct IH as [A B C D E F G0 _].
      constructor.
      + exact A.
      + apply ok_abort; [|exact B]. intros y k0 _. exact I.
      + apply ok_abort; [|exact C]. intros y k0 _. exact I.
      + apply ok_abort; [|exact D]. intros y r [Hy _]. split; [exact Hy|exact I].
      + apply ok_abort; [|exact E]. intros y k0 _. exact I.
      + apply wc_abort.
      + eapply evolves_trans; [exact G0|apply ev_abort].
      + exact I.
    - (* gate *)
      destruct IH as [A B C D E F G0 _].
      constructor.
      + unfold complete_gate. apply ps_wake_all. exact A.
      + apply (complete_gate_tasks_ok (plain_TP P) (plain_TP_wake P)). exact B.
      + apply (complete_gate_tasks_ok owner_TP owner_wake). exact C.
      + apply (complete_gate_tasks_ok stack_TP stack_TP_wake). exact D.
      + apply (complete_gate_tasks_ok wk_TP wk_wake). exact E.
      + unfold complete_gate. apply wc_wake_all. exact F.
      + eapply evolves_trans; [exact G0|]. exact (ev_action P (AGate g) st).
      + exact I.
    - (* cancel *)
      destruct IH as [A B C D E F G0 _].
      constructor.
      + apply ps_cancel_task. exact A.
      + apply (ok_cancel_task (plain_TP P) (plain_TP_cancel_ready P) (plain_TP_cancel_wait P)). exact B.
      + apply (ok_cancel_task owner_TP owner_cancel_ready owner_cancel_wait). exact C.
      + apply (ok_cancel_task stack_TP stack_TP_cancel_ready stack_TP_cancel_wait). exact D.
      + apply (ok_cancel_task wk_TP wk_cancel_ready wk_cancel_wait). exact E.
      + apply wc_cancel_task. exact F.
      + eapply evolves_trans; [exact G0|]. exact (ev_action P ACancel st).
      + exact I.
  Qed.
End Base.
