(* Plain programs: what one frame step does to the components of the state other than the task table -- storage, events, trace,
   the names of the tasks created -- stated as equations (step summaries), and the "effective state" of a task inside an iteration. *)
From MLPE Require Import Engine.Run Proofs.ExecLemmas Proofs.Evolve Proofs.StackInv Proofs.ReadyInv Proofs.WaitInv Explore.StateEq
     Proofs.ProcessedInv Proofs.PlainWorld Proofs.PlainLaunch Proofs.PlainLive Proofs.Micro Proofs.PlainBase.

(* ---- the part of a state that waking / cancelling / notifying never touches ---------------------------------------------- *)
Definition same_core (a b : mstate) : Prop :=
  st_store b = st_store a /\ st_events b = st_events a /\ st_trace b = st_trace a /\ names b = names a /\ st_next b = st_next a
  /\ st_adddata b = st_adddata a.
Lemma sc_refl a : same_core a a. Proof. repeat split. Qed.
Lemma sc_trans a b c : same_core a b -> same_core b c -> same_core a c.
Proof. intros (A1 & A2 & A3 & A4 & A5 & A6) (B1 & B2 & B3 & B4 & B5 & B6). repeat split; congruence. Qed.
Lemma sc_push_ready t st : same_core st (push_ready t st). Proof. repeat split. Qed.
Lemma sc_set_waiters w st : same_core st (set_waiters w st). Proof. repeat split. Qed.
Lemma sc_set_tstate t ts st : same_core st (set_tstate t ts st).
Proof. repeat split. exact (sn_set_tstate t ts st). Qed.

Definition sc_notify := R_notify same_core sc_trans sc_push_ready sc_set_waiters sc_set_tstate.
Definition sc_wake_all := R_wake_all same_core sc_trans sc_push_ready sc_set_waiters sc_set_tstate.
Definition sc_notify_keys := R_notify_keys same_core sc_trans sc_push_ready sc_set_waiters sc_set_tstate.
Definition sc_cancel_task := R_cancel_task same_core sc_trans sc_push_ready sc_set_waiters sc_set_tstate.
Definition sc_cancel_tasks := R_cancel_tasks same_core sc_trans sc_push_ready sc_set_waiters sc_set_tstate.

Lemma sc_set_event n st : same_core (add_event n st) (set_event n st).
Proof. change (set_event n st) with (wake_all (WEvent n) SGo (add_event n st)). apply sc_wake_all, sc_refl. Qed.

Lemma sc_finally_b P d n st : same_core (add_event n st) (finally_b P d n st).
Proof.
  unfold finally_b. destruct (key_eqb n (d_dst d)).
  - apply sc_notify, sc_notify, sc_notify_keys, sc_set_event.
  - apply sc_notify, sc_notify_keys, sc_set_event.
Qed.

Lemma sc_suspend t w k st : same_core st (suspend t w k st).
Proof. unfold suspend. eapply sc_trans; [apply sc_set_tstate|apply sc_set_waiters]. Qed.

(* ---- has the run ended? (manager.run leaves a mark in the trace when it returns) ------------------------------------------- *)
Definition is_rundone (o : obs) : bool := match o with ORunDone _ => true | _ => false end.
Definition over (st : mstate) : bool := existsb is_rundone (st_trace st).

(* ---- the effective state of a task inside an iteration ------------------------------------------------------------------- *)
Definition estate (c : running) (x : task frame) : tstate frame :=
  match c with
  | Some (t, k, sg) => if Nat.eqb (t_id x) t then match k with [] => TDone sg | _ => TReady k sg end else t_state x
  | None => t_state x
  end.

Definition estack (ts : tstate frame) : list frame :=
  match ts with TReady k _ | TWait _ k => k | TDone _ => [] end.

Definition node_names (st : mstate) : list key :=
  flat_map (fun nm => match nm with TNNode m => [m] | _ => [] end) (names st).
Definition is_run_name (nm : tname) : bool := match nm with TNRun => true | _ => false end.

Lemma node_names_app st l : names st = l -> node_names st = flat_map (fun nm => match nm with TNNode m => [m] | _ => [] end) l.
Proof. unfold node_names. intros ->. reflexivity. Qed.
Lemma store_notify c (st : mstate) : st_store (notify c st) = st_store st.
Proof. destruct (sc_notify c st st (sc_refl st)) as (A0 & A1 & A2 & A3 & A4 & A5). exact A0. Qed.
Lemma store_notify_keys ks (st : mstate) : st_store (notify_keys ks st) = st_store st.
Proof. destruct (sc_notify_keys ks st st (sc_refl st)) as (A0 & A1 & A2 & A3 & A4 & A5). exact A0. Qed.
Lemma store_cancel_tasks ts (st : mstate) : st_store (cancel_tasks ts st) = st_store st.
Proof. destruct (sc_cancel_tasks ts st st (sc_refl st)) as (A0 & A1 & A2 & A3 & A4 & A5). exact A0. Qed.
Lemma store_cancel_task t (st : mstate) : st_store (cancel_task t st) = st_store st.
Proof. destruct (sc_cancel_task t st st (sc_refl st)) as (A0 & A1 & A2 & A3 & A4 & A5). exact A0. Qed.
Lemma store_wake_all w sg (st : mstate) : st_store (wake_all w sg st) = st_store st.
Proof. destruct (sc_wake_all w sg st st (sc_refl st)) as (A0 & A1 & A2 & A3 & A4 & A5). exact A0. Qed.
Lemma store_finally_b P d n (st : mstate) : st_store (finally_b P d n st) = st_store st.
Proof. destruct (sc_finally_b P d n st) as (A0 & A1 & A2 & A3 & A4 & A5). exact A0. Qed.
Lemma store_set_event n (st : mstate) : st_store (set_event n st) = st_store st.
Proof. destruct (sc_set_event n st) as (A0 & A1 & A2 & A3 & A4 & A5). exact A0. Qed.
Lemma events_notify c (st : mstate) : st_events (notify c st) = st_events st.
Proof. destruct (sc_notify c st st (sc_refl st)) as (A0 & A1 & A2 & A3 & A4 & A5). exact A1. Qed.
Lemma events_notify_keys ks (st : mstate) : st_events (notify_keys ks st) = st_events st.
Proof. destruct (sc_notify_keys ks st st (sc_refl st)) as (A0 & A1 & A2 & A3 & A4 & A5). exact A1. Qed.
Lemma events_cancel_tasks ts (st : mstate) : st_events (cancel_tasks ts st) = st_events st.
Proof. destruct (sc_cancel_tasks ts st st (sc_refl st)) as (A0 & A1 & A2 & A3 & A4 & A5). exact A1. Qed.
Lemma events_cancel_task t (st : mstate) : st_events (cancel_task t st) = st_events st.
Proof. destruct (sc_cancel_task t st st (sc_refl st)) as (A0 & A1 & A2 & A3 & A4 & A5). exact A1. Qed.
Lemma events_wake_all w sg (st : mstate) : st_events (wake_all w sg st) = st_events st.
Proof. destruct (sc_wake_all w sg st st (sc_refl st)) as (A0 & A1 & A2 & A3 & A4 & A5). exact A1. Qed.
Lemma events_finally_b P d n (st : mstate) : st_events (finally_b P d n st) = add_set key_eqb n (st_events st).
Proof. destruct (sc_finally_b P d n st) as (A0 & A1 & A2 & A3 & A4 & A5). exact A1. Qed.
Lemma events_set_event n (st : mstate) : st_events (set_event n st) = add_set key_eqb n (st_events st).
Proof. destruct (sc_set_event n st) as (A0 & A1 & A2 & A3 & A4 & A5). exact A1. Qed.
Lemma adddata_notify c (st : mstate) : st_adddata (notify c st) = st_adddata st.
Proof. destruct (sc_notify c st st (sc_refl st)) as (A0 & A1 & A2 & A3 & A4 & A5). exact A5. Qed.
Lemma adddata_notify_keys ks (st : mstate) : st_adddata (notify_keys ks st) = st_adddata st.
Proof. destruct (sc_notify_keys ks st st (sc_refl st)) as (A0 & A1 & A2 & A3 & A4 & A5). exact A5. Qed.
Lemma adddata_cancel_tasks ts (st : mstate) : st_adddata (cancel_tasks ts st) = st_adddata st.
Proof. destruct (sc_cancel_tasks ts st st (sc_refl st)) as (A0 & A1 & A2 & A3 & A4 & A5). exact A5. Qed.
Lemma adddata_cancel_task t (st : mstate) : st_adddata (cancel_task t st) = st_adddata st.
Proof. destruct (sc_cancel_task t st st (sc_refl st)) as (A0 & A1 & A2 & A3 & A4 & A5). exact A5. Qed.
Lemma adddata_wake_all w sg (st : mstate) : st_adddata (wake_all w sg st) = st_adddata st.
Proof. destruct (sc_wake_all w sg st st (sc_refl st)) as (A0 & A1 & A2 & A3 & A4 & A5). exact A5. Qed.
Lemma adddata_finally_b P d n (st : mstate) : st_adddata (finally_b P d n st) = st_adddata st.
Proof. destruct (sc_finally_b P d n st) as (A0 & A1 & A2 & A3 & A4 & A5). exact A5. Qed.
Lemma adddata_set_event n (st : mstate) : st_adddata (set_event n st) = st_adddata st.
Proof. destruct (sc_set_event n st) as (A0 & A1 & A2 & A3 & A4 & A5). exact A5. Qed.
Lemma next_notify c (st : mstate) : st_next (notify c st) = st_next st.
Proof. destruct (sc_notify c st st (sc_refl st)) as (A0 & A1 & A2 & A3 & A4 & A5). exact A4. Qed.
Lemma next_notify_keys ks (st : mstate) : st_next (notify_keys ks st) = st_next st.
Proof. destruct (sc_notify_keys ks st st (sc_refl st)) as (A0 & A1 & A2 & A3 & A4 & A5). exact A4. Qed.
Lemma next_cancel_tasks ts (st : mstate) : st_next (cancel_tasks ts st) = st_next st.
Proof. destruct (sc_cancel_tasks ts st st (sc_refl st)) as (A0 & A1 & A2 & A3 & A4 & A5). exact A4. Qed.
Lemma next_cancel_task t (st : mstate) : st_next (cancel_task t st) = st_next st.
Proof. destruct (sc_cancel_task t st st (sc_refl st)) as (A0 & A1 & A2 & A3 & A4 & A5). exact A4. Qed.
Lemma next_wake_all w sg (st : mstate) : st_next (wake_all w sg st) = st_next st.
Proof. destruct (sc_wake_all w sg st st (sc_refl st)) as (A0 & A1 & A2 & A3 & A4 & A5). exact A4. Qed.
Lemma next_finally_b P d n (st : mstate) : st_next (finally_b P d n st) = st_next st.
Proof. destruct (sc_finally_b P d n st) as (A0 & A1 & A2 & A3 & A4 & A5). exact A4. Qed.
Lemma next_set_event n (st : mstate) : st_next (set_event n st) = st_next st.
Proof. destruct (sc_set_event n st) as (A0 & A1 & A2 & A3 & A4 & A5). exact A4. Qed.
Lemma trace_notify c (st : mstate) : st_trace (notify c st) = st_trace st.
Proof. destruct (sc_notify c st st (sc_refl st)) as (A0 & A1 & A2 & A3 & A4 & A5). exact A2. Qed.
Lemma trace_notify_keys ks (st : mstate) : st_trace (notify_keys ks st) = st_trace st.
Proof. destruct (sc_notify_keys ks st st (sc_refl st)) as (A0 & A1 & A2 & A3 & A4 & A5). exact A2. Qed.
Lemma trace_cancel_tasks ts (st : mstate) : st_trace (cancel_tasks ts st) = st_trace st.
Proof. destruct (sc_cancel_tasks ts st st (sc_refl st)) as (A0 & A1 & A2 & A3 & A4 & A5). exact A2. Qed.
Lemma trace_cancel_task t (st : mstate) : st_trace (cancel_task t st) = st_trace st.
Proof. destruct (sc_cancel_task t st st (sc_refl st)) as (A0 & A1 & A2 & A3 & A4 & A5). exact A2. Qed.
Lemma trace_wake_all w sg (st : mstate) : st_trace (wake_all w sg st) = st_trace st.
Proof. destruct (sc_wake_all w sg st st (sc_refl st)) as (A0 & A1 & A2 & A3 & A4 & A5). exact A2. Qed.
Lemma trace_finally_b P d n (st : mstate) : st_trace (finally_b P d n st) = st_trace st.
Proof. destruct (sc_finally_b P d n st) as (A0 & A1 & A2 & A3 & A4 & A5). exact A2. Qed.
Lemma trace_set_event n (st : mstate) : st_trace (set_event n st) = st_trace st.
Proof. destruct (sc_set_event n st) as (A0 & A1 & A2 & A3 & A4 & A5). exact A2. Qed.
Lemma names_notify c (st : mstate) : names (notify c st) = names st.
Proof. destruct (sc_notify c st st (sc_refl st)) as (A0 & A1 & A2 & A3 & A4 & A5). exact A3. Qed.
Lemma names_notify_keys ks (st : mstate) : names (notify_keys ks st) = names st.
Proof. destruct (sc_notify_keys ks st st (sc_refl st)) as (A0 & A1 & A2 & A3 & A4 & A5). exact A3. Qed.
Lemma names_cancel_tasks ts (st : mstate) : names (cancel_tasks ts st) = names st.
Proof. destruct (sc_cancel_tasks ts st st (sc_refl st)) as (A0 & A1 & A2 & A3 & A4 & A5). exact A3. Qed.
Lemma names_cancel_task t (st : mstate) : names (cancel_task t st) = names st.
Proof. destruct (sc_cancel_task t st st (sc_refl st)) as (A0 & A1 & A2 & A3 & A4 & A5). exact A3. Qed.
Lemma names_wake_all w sg (st : mstate) : names (wake_all w sg st) = names st.
Proof. destruct (sc_wake_all w sg st st (sc_refl st)) as (A0 & A1 & A2 & A3 & A4 & A5). exact A3. Qed.
Lemma names_finally_b P d n (st : mstate) : names (finally_b P d n st) = names st.
Proof. destruct (sc_finally_b P d n st) as (A0 & A1 & A2 & A3 & A4 & A5). exact A3. Qed.
Lemma names_set_event n (st : mstate) : names (set_event n st) = names st.
Proof. destruct (sc_set_event n st) as (A0 & A1 & A2 & A3 & A4 & A5). exact A3. Qed.
Global Hint Rewrite store_notify store_notify_keys store_cancel_tasks store_cancel_task store_wake_all store_finally_b store_set_event events_notify events_notify_keys events_cancel_tasks events_cancel_task events_wake_all events_finally_b events_set_event adddata_notify adddata_notify_keys adddata_cancel_tasks adddata_cancel_task adddata_wake_all adddata_finally_b adddata_set_event next_notify next_notify_keys next_cancel_tasks next_cancel_task next_wake_all next_finally_b next_set_event trace_notify trace_notify_keys trace_cancel_tasks trace_cancel_task trace_wake_all trace_finally_b trace_set_event : core.
Global Hint Rewrite names_notify names_notify_keys names_cancel_tasks names_cancel_task names_wake_all names_finally_b names_set_event : core.

(* ---- step summaries ------------------------------------------------------------------------------------------------------ *)
Section Summary.
  Variable P : prog.
  Notation G := (b_graph (build (p_decls P) (p_inp P) (p_out P))).
  Hypothesis Hsw : forall n, is_switch G n = false.
  Hypothesis Hhd : forall n, is_head G n = false.
  Hypothesis Hbody : forall i kw a v, p_body P i kw a = OVal v -> clean v = true.

  Definition step_store (fr : frame) (sg : signal) (st : mstate) : storage :=
    match fr, sg with
    | FExecStart d n f, SGo => if exists_processed n (st_store st) then st_store st else set_processed n (st_store st)
    | FNodeAfterExec d n, SVal res => set_result n res (st_store st)
    | _, _ => st_store st
    end.

  Definition step_event (fr : frame) (sg : signal) : option key :=
    match fr, sg with
    | FNodeAfterExec d n, SElsewhere | FNodeAfterExec d n, SThrow _ => Some n
    | FNodeAfterSave d n true, SVal _ | FNodeAfterSave d n true, SThrow _ => Some n
    | _, _ => None
    end.

  Ltac plain_prep2 :=
    repeat match goal with
           | H : (_ && _)%bool = true |- _ => apply andb_true_iff in H; destruct H
           | H : is_main P ?d = true |- _ => apply is_main_eq in H; subst d
           | H : negb ?f = true |- _ => apply negb_true_iff in H; subst f
           | H : ?u = true |- _ => is_var u; subst u
           end.

  Lemma plain_step_summary t fr sg st :
    plain_frame P fr = true -> clean_sig sg -> PS st ->
    st_store (fst (step_frame P t fr sg st)) = step_store fr sg st /\
    st_events (fst (step_frame P t fr sg st)) = match step_event fr sg with Some n => add_set key_eqb n (st_events st) | None => st_events st end /\
    st_adddata (fst (step_frame P t fr sg st)) = st_adddata st.
  Proof.
    intros Hf Hs Hst. pose proof Hst as Hst'. unfold PS in Hst'.
    destruct fr; try discriminate Hf; cbn [plain_frame] in Hf; plain_prep2;
      destruct sg; cbn [clean_sig] in Hs;
      try match goal with H : clean ?v = true |- _ => pose proof (clean_not_rec v H) as Hnr; pose proof (clean_not_exn v H) as Hne end;
      cbn [step_frame step_store step_event]; rewrite ?Hnr, ?Hne, ?Hsw, ?Hhd, ?(plain_dep_error P _ _ _ Hst'), ?(plain_no_subgraph_error _ _ Hst');
      unfold default_or_raise, reduced; cbn [d_oneof d_rec maind andb];
      repeat break_match; spawn_norm; cbn [fst];
      autorewrite with core; cbn [st_store st_events st_adddata emit_obs bump with_store spawn fst set_adddata];
      autorewrite with core; repeat split; try reflexivity; try congruence.
  Qed.

  Definition leaves_run (fr : frame) (sg : signal) (d : directive) : bool :=
    match fr, sg, d with FRunWait, SGo, DRet _ | FRunWait, SThrow _, DRet _ => true | _, _, _ => false end.

  Lemma plain_step_over t fr sg st :
    plain_frame P fr = true -> clean_sig sg -> PS st ->
    over (fst (step_frame P t fr sg st)) = over st || leaves_run fr sg (snd (step_frame P t fr sg st)).
  Proof.
    intros Hf Hs Hst. pose proof Hst as Hst'. unfold PS in Hst'. unfold over.
    destruct fr; try discriminate Hf; cbn [plain_frame] in Hf; plain_prep2;
      destruct sg; cbn [clean_sig] in Hs;
      try match goal with H : clean ?v = true |- _ => pose proof (clean_not_rec v H) as Hnr; pose proof (clean_not_exn v H) as Hne end;
      cbn [step_frame]; rewrite ?Hnr, ?Hne, ?Hsw, ?Hhd, ?(plain_dep_error P _ _ _ Hst'), ?(plain_no_subgraph_error _ _ Hst');
      unfold default_or_raise, reduced; cbn [d_oneof d_rec maind andb];
      repeat break_match; spawn_norm; cbn [fst snd leaves_run];
      autorewrite with core; cbn [st_trace emit_obs bump with_store spawn fst set_adddata existsb is_rundone orb];
      autorewrite with core; rewrite ?orb_false_r, ?orb_true_r; try reflexivity.
  Qed.
End Summary.

(* ---- the other tasks across a step that does not leave manager.run: nobody is cancelled ------------------------------------- *)
Definition spawn_frame_of (P : prog) (nm : tname) : frame :=
  match nm with TNNode n => FNodeStart (maind P) n false | _ => FDagStart (maind P) end.

Section NoCancel.
  Variable P : prog.
  Notation G := (b_graph (build (p_decls P) (p_inp P) (p_out P))).
  Hypothesis Hsw : forall n, is_switch G n = false.
  Hypothesis Hhd : forall n, is_head G n = false.
  Hypothesis Hbody : forall i kw a v, p_body P i kw a = OVal v -> clean v = true.
  Variable TP : task frame -> Prop.
  Hypothesis TP_wake : forall x w k, t_state x = TWait w k -> TP x -> TP (with_ts x (TReady k SGo)).

  Ltac nc_prims :=
    repeat first
           [ assumption
           | apply (ok_notify TP TP_wake) | apply (ok_notify_keys TP TP_wake) | apply (ok_set_event TP TP_wake)
           | apply (ok_finally_b TP TP_wake)
           | apply ok_emit_obs | apply ok_with_store | apply ok_bump | apply ok_set_adddata | apply ok_push_ready
           | apply (ok_wake_all TP TP_wake) ].

  Lemma plain_step_tasks_nc t fr sg st :
    plain_frame P fr = true -> clean_sig sg -> PS st -> leaves_run fr sg (snd (step_frame P t fr sg st)) = false ->
    (forall nm, In nm (creates P fr sg st) ->
                TP {| t_id := st_next st; t_name := nm; t_state := TReady [spawn_frame_of P nm] SGo; t_helper := true |}) ->
    tasks_ok TP st -> tasks_ok TP (fst (step_frame P t fr sg st)).
  Proof.
    intros Hf Hs Hst Hlr Hcr Ht. pose proof Hst as Hst'. unfold PS in Hst'. revert Hlr Hcr.
    destruct fr; try discriminate Hf; cbn [plain_frame] in Hf;
      repeat match goal with
             | H : (_ && _)%bool = true |- _ => apply andb_true_iff in H; destruct H
             | H : is_main P ?d = true |- _ => apply is_main_eq in H; subst d
             | H : negb ?f = true |- _ => apply negb_true_iff in H; subst f
             | H : ?u = true |- _ => is_var u; subst u
             end;
      destruct sg; cbn [clean_sig] in Hs;
      try match goal with H : clean ?v = true |- _ => pose proof (clean_not_rec v H) as Hnr; pose proof (clean_not_exn v H) as Hne end;
      cbn [step_frame creates]; rewrite ?Hnr, ?Hne, ?Hsw, ?Hhd, ?(plain_dep_error P _ _ _ Hst'), ?(plain_no_subgraph_error _ _ Hst');
      unfold default_or_raise, reduced; cbn [d_oneof d_rec maind andb];
      repeat break_match; spawn_norm; cbn [fst snd leaves_run]; intros Hlr Hcr; try discriminate Hlr;
      try match goal with H : is_switch _ _ = true |- _ => rewrite Hsw in H; discriminate H end;
      try match goal with H : is_head _ _ = true |- _ => rewrite Hhd in H; discriminate H end;
      fold (maind P); nc_prims;
      try (apply ok_spawn; [nc_prims|apply (Hcr _ (or_introl eq_refl))]).
  Qed.
End NoCancel.

(* ---- a notification reaches everybody who waits for it ---------------------------------------------------------------------- *)
Definition not_parked (w : wait) (st : mstate) : Prop :=
  forall t x k, find_task t (st_tasks st) = Some x -> t_state x <> TWait w k.

Lemma wake_all_parked w' sg (st : mstate) t x w k :
  find_task t (st_tasks (wake_all w' sg st)) = Some x -> t_state x = TWait w k -> find_task t (st_tasks st) = Some x.
Proof.
  unfold wake_all. generalize (filter (fun p : wait * tid => wait_eqb (fst p) w') (st_waiters st)).
  set (s0 := set_waiters _ st). change (st_tasks st) with (st_tasks s0). generalize s0. clear s0.
  intros s0 l. revert s0. induction l as [|p r IH]; intros s0 Hx Hk; cbn [fold_left] in Hx; [exact Hx|].
  specialize (IH _ Hx Hk). destruct (wake_parked _ _ _ _ _ _ _ IH Hk) as [_ H]. exact H.
Qed.

Lemma np_wake_all_other w w' sg st : not_parked w st -> not_parked w (wake_all w' sg st).
Proof. intros H t x k Hx Hk. exact (H t x k (wake_all_parked _ _ _ _ _ _ _ Hx Hk) Hk). Qed.

Lemma np_wake_all_self w sg st : wc st -> not_parked w (wake_all w sg st).
Proof. intros H t x k Hx. exact (nobody_parked_after_wake_all w sg st t x k H Hx). Qed.

Lemma np_notify_keys w ks st : not_parked w st -> not_parked w (notify_keys ks st).
Proof. unfold notify_keys. revert st. induction ks as [|k r IH]; intros st H; cbn [fold_left]; [exact H|]. apply IH. apply np_wake_all_other. exact H. Qed.

Lemma np_notify_keys_in n ks st : wc st -> In n ks -> not_parked (WCond (CNode n)) (notify_keys ks st).
Proof.
  unfold notify_keys. revert st. induction ks as [|k r IH]; intros st Hw Hin; [contradiction|]. cbn [fold_left].
  destruct Hin as [->|Hin].
  - apply (np_notify_keys _ r). apply np_wake_all_self. exact Hw.
  - apply IH; [apply wc_notify; exact Hw|exact Hin].
Qed.

Lemma finally_b_wakes P d n st :
  wc st -> not_parked (WCond CRun) (finally_b P d n st) /\
           (forall n', In n' (descendants P n) -> not_parked (WCond (CNode n')) (finally_b P d n st)).
Proof.
  intros Hw. unfold finally_b.
  assert (W1 : wc (set_event n st)) by (apply wc_set_event; exact Hw).
  assert (W2 : wc (notify_keys (descendants P n) (set_event n st))) by (apply wc_notify_keys; exact W1).
  split.
  - destruct (key_eqb n (d_dst d)); [apply np_wake_all_other|]; apply np_wake_all_self; exact W2.
  - intros n' Hin. destruct (key_eqb n (d_dst d)); [apply np_wake_all_other|]; apply np_wake_all_other; apply np_notify_keys_in; assumption.
Qed.
