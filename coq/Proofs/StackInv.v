(* The call discipline of the frame stacks, for every program and every schedule: a frame sits directly above exactly
   the kind of frame that awaits it (FEmit above the frames that await a callback, the retry loop above
   FExecAfterBody, ...), and the task of PipelineChart.run only ever holds chart / emit / run frames.
   Consequences used later: what can be below the `return`-in-`finally` frame of _run_node, and what a
   CancelledError thrown into any task can meet on its way down. *)
From MLPE Require Import Engine.Run Proofs.ExecLemmas Proofs.Evolve.

Inductive cls := KChart | KEmit | KSave | KRun | KDag | KSwitch | KOneOf | KNode | KExec | KRetry | KRec.

Definition cls_eqb (a b : cls) : bool :=
  match a, b with
  | KChart, KChart | KEmit, KEmit | KSave, KSave | KRun, KRun | KDag, KDag | KSwitch, KSwitch | KOneOf, KOneOf
  | KNode, KNode | KExec, KExec | KRetry, KRetry | KRec, KRec => true
  | _, _ => false
  end.

Lemma cls_eqb_eq a b : cls_eqb a b = true -> a = b.
Proof. destruct a, b; simpl; intros H; try reflexivity; discriminate. Qed.

Definition cls_of (f : frame) : cls :=
  match f with
  | FChartStart | FChartAfterStart | FChartAfterRun | FChartAfterEmitOk _ | FChartAfterEmitErr _ => KChart
  | FEmit _ _ _ _ _ _ => KEmit
  | FSave _ _ _ _ => KSave
  | FRunWait => KRun
  | FDagStart _ | FDagLoop _ _ _ | FDagFinal _ => KDag
  | FSwitchStart _ _ | FSwitchAfter _ => KSwitch
  | FOneOfLoop _ _ _ | FOneOfWait _ _ _ _ _ => KOneOf
  | FNodeStart _ _ _ | FNodeAfterExec _ _ | FNodeAfterSave _ _ _ => KNode
  | FExecStart _ _ _ | FExecDup _ | FExecAfterStart _ _ _ | FExecAfterBody _ _ | FExecAfterOk _ _ _ | FExecAfterErr _ _ => KExec
  | FRetry _ _ _ _ | FRetryAfterBody _ _ _ | FRetryAfterEmit _ _ _ | FRetryAfterSleep _ _ _ => KRetry
  | FRecStart _ _ _ | FRecLoop _ _ _ _ _ _ | FRecAfterIter _ _ _ _ _ | FRecAfterDefault _ _ => KRec
  end.

(* the class of callee a frame waits for (None: the frame never has a callee above it) *)
Definition awaits (f : frame) : option cls :=
  match f with
  | FChartAfterStart | FChartAfterEmitOk _ | FChartAfterEmitErr _ => Some KEmit
  | FChartAfterRun => Some KRun
  | FSwitchAfter _ | FRecAfterIter _ _ _ _ _ => Some KDag
  | FNodeAfterExec _ _ => Some KExec
  | FNodeAfterSave _ _ _ => Some KSave
  | FExecAfterStart _ _ _ | FExecAfterOk _ _ _ | FExecAfterErr _ _ | FRetryAfterEmit _ _ _ => Some KEmit
  | FExecAfterBody _ _ => Some KRetry
  | FRecAfterDefault _ _ => Some KNode
  | _ => None
  end.

Definition awaits_b (g : frame) (c : cls) : bool :=
  match awaits g with Some c' => cls_eqb c c' | None => false end.

Fixpoint chainb (k : list frame) : bool :=
  match k with
  | [] => true
  | f :: r => match r with
              | [] => true
              | g :: _ => awaits_b g (cls_of f) && chainb r
              end
  end.

(* the frames the task of PipelineChart.run may hold: chart frames, manager.run, and the emission of the two pipeline events *)
Definition main_frame (f : frame) : bool :=
  match f with
  | FChartStart | FChartAfterStart | FChartAfterRun | FChartAfterEmitOk _ | FChartAfterEmitErr _ | FRunWait => true
  | FEmit EvPipelineStart None _ _ _ _ | FEmit EvPipelineComplete None _ _ _ _ => true
  | _ => false
  end.
Definition main_stack (k : list frame) : bool := forallb main_frame k.

(* what a step may put in place of the frame it resumed *)
Definition seg_ok (fr : frame) (k' : list frame) : Prop :=
  k' <> [] /\ chainb k' = true /\ cls_of (last k' fr) = cls_of fr /\ (main_frame fr = true -> main_stack k' = true).

Definition dir_ok (fr : frame) (d : directive) : Prop :=
  match d with
  | DSuspend _ k' | DYield k' | DCont k' _ => seg_ok fr k'
  | DRet _ => True
  end.

Lemma step_frame_dir_ok P t fr sg st : dir_ok fr (snd (step_frame P t fr sg st)).
Proof.
  destruct fr; destruct sg; cbn [step_frame]; unfold default_or_raise; repeat break_match; cbn [snd dir_ok]; try exact I;
    (split; [discriminate|split; [reflexivity|split; [reflexivity|cbn; intros H; first [reflexivity|discriminate|
      repeat match goal with Hx : context [match ?x with _ => _ end] |- _ => destruct x end; first [reflexivity|discriminate]]]]]).
Qed.

Lemma chainb_tail f r : chainb (f :: r) = true -> chainb r = true.
Proof. cbn [chainb]. destruct r as [|g r']; [reflexivity|]. intros H. apply andb_true_iff in H. apply H. Qed.

Lemma chainb_app fr rest k' :
  chainb (fr :: rest) = true -> k' <> [] -> chainb k' = true -> cls_of (last k' fr) = cls_of fr -> chainb (k' ++ rest) = true.
Proof.
  intros Hc Hne Hk Hl. induction k' as [|f r IH]; [contradiction|].
  destruct r as [|g r'].
  - cbn [app]. cbn [last] in Hl. destruct rest as [|h rest']; [reflexivity|].
    cbn [chainb] in Hc |- *. rewrite Hl. exact Hc.
  - change ((f :: g :: r') ++ rest) with (f :: (g :: r') ++ rest). cbn [chainb] in Hk. apply andb_true_iff in Hk. destruct Hk as [Ha Hk].
    cbn [chainb app]. rewrite Ha. cbn [andb]. apply IH; [discriminate|exact Hk|exact Hl].
Qed.

Definition stack_TP (x : task frame) : Prop :=
  (t_helper x = false <-> t_id x = main_tid) /\
  match t_state x with
  | TReady k sg => (k <> [] /\ chainb k = true /\ (t_id x = main_tid -> main_stack k = true)) /\ (sg = SGo \/ sg = SThrow XCancelled)
  | TWait _ k => k <> [] /\ chainb k = true /\ (t_id x = main_tid -> main_stack k = true)
  | TDone _ => True
  end.

Lemma stack_TP_wake x w k : t_state x = TWait w k -> stack_TP x -> stack_TP (with_ts x (TReady k SGo)).
Proof. unfold stack_TP. intros E [H1 H2]. rewrite E in H2. cbn. auto. Qed.
Lemma stack_TP_cancel_ready x k sg : t_state x = TReady k sg -> stack_TP x -> stack_TP (with_ts x (TReady k (SThrow XCancelled))).
Proof. unfold stack_TP. intros E [H1 H2]. rewrite E in H2. cbn. destruct H2. auto. Qed.
Lemma stack_TP_cancel_wait x w k : t_state x = TWait w k -> stack_TP x -> stack_TP (with_ts x (TReady k (SThrow XCancelled))).
Proof. unfold stack_TP. intros E [H1 H2]. rewrite E in H2. cbn. auto. Qed.
Lemma stack_TP_spawn i nm f : 1 <= i -> spawn_frame f = true ->
                              stack_TP {| t_id := i; t_name := nm; t_state := TReady [f] SGo; t_helper := true |}.
Proof.
  intros Hi Hf. unfold stack_TP, main_tid. cbn. split; [split; [discriminate|lia]|]. split; [|auto]. split; [discriminate|]. split; [reflexivity|lia].
Qed.

Section Stacks.
  Variable P : prog.

  Definition stacks_ok (st : mstate) : Prop := tasks_ok stack_TP st.

  Lemma exec_stacks_ok fuel t k sg st :
    stacks_ok st -> 1 <= st_next st -> k <> [] -> chainb k = true -> (t = main_tid -> main_stack k = true) ->
    stacks_ok (exec P fuel t k sg st).
  Proof.
    intros H0 N0 Hne Hc Hm.
    apply (exec_rule P t (fun k _ s => stacks_ok s /\ 1 <= st_next s /\ chainb k = true /\ (t = main_tid -> main_stack k = true))
                     stacks_ok); [| |auto].
    - intros sg' s [Hs _]. apply ok_set_tstate; [exact Hs|]. intros x _ [Hx _]. split; [exact Hx|exact I].
    - intros fr rest sg' s [Hs [Hn [Hch Hmain]]]. split.
      { apply ok_abort; [|exact Hs]. intros x r [Hx _]. split; [exact Hx|exact I]. }
      pose proof (step_frame_dir_ok P t fr sg' s) as Hd.
      pose proof (step_frame_tasks_ok P stack_TP stack_TP_wake stack_TP_cancel_ready stack_TP_cancel_wait stack_TP_spawn t fr sg' s Hn Hs) as Hs1.
      pose proof (ev_next _ _ (ev_step_frame P t fr sg' s)) as Hn1.
      assert (Hseg : forall k', seg_ok fr k' -> (k' ++ rest) <> [] /\ chainb (k' ++ rest) = true /\ (t = main_tid -> main_stack (k' ++ rest) = true)).
      { intros k' [Hne' [Hk [Hl Hmk]]]. split; [destruct k'; [contradiction|discriminate]|]. split.
        - apply (chainb_app fr); assumption.
        - intros Ht. specialize (Hmain Ht). unfold main_stack in *. rewrite forallb_app. cbn [forallb] in Hmain.
          apply andb_true_iff in Hmain. destruct Hmain as [Hf Hr]. rewrite (Hmk Hf), Hr. reflexivity. }
      destruct (step_frame P t fr sg' s) as [st1 [w k'|k'|k' sg''|sg'']]; cbn [fst snd dir_ok] in *.
      + destruct (Hseg k' Hd) as [A [B C]]. apply ok_suspend; [exact Hs1|].
        intros x Hx [Hx1 _]. split; [exact Hx1|]. cbn. destruct (find_task_in _ _ _ Hx) as [_ Hid]. rewrite Hid. auto.
      + destruct (Hseg k' Hd) as [A [B C]]. apply ok_push_ready. apply ok_set_tstate; [exact Hs1|].
        intros x Hx [Hx1 _]. split; [exact Hx1|]. cbn. destruct (find_task_in _ _ _ Hx) as [_ Hid]. rewrite Hid. auto.
      + destruct (Hseg k' Hd) as [A [B C]]. split; [exact Hs1|]. split; [lia|]. auto.
      + split; [exact Hs1|]. split; [lia|]. split; [apply (chainb_tail fr); exact Hch|].
        intros Ht. specialize (Hmain Ht). unfold main_stack in *. cbn [forallb] in Hmain. apply andb_true_iff in Hmain. apply Hmain.
  Qed.

  Theorem reachable_stacks_ok : forall st, reachable P st -> stacks_ok st.
  Proof.
    apply (reachable_inv P stacks_ok).
    - unfold stacks_ok, tasks_ok, init_state. cbn. constructor; [|constructor]. unfold stack_TP, main_tid. cbn.
      split; [split; reflexivity|]. split; [|auto]. split; [discriminate|]. split; reflexivity.
    - intros st Hr H. apply (loop_step_rule P stacks_ok); [exact H|auto| |].
      + intros. apply ok_dequeue. exact H.
      + intros t rest x k sg Hq Hf Ht. destruct (find_task_in _ _ _ Hf) as [Hin Hid].
        unfold stacks_ok, tasks_ok in H. rewrite Forall_forall in H. destruct (H x Hin) as [_ Hx]. rewrite Ht in Hx.
        destruct Hx as [[A [B C]] _]. apply exec_stacks_ok; [apply ok_dequeue; exact H0 || (unfold stacks_ok, tasks_ok; rewrite Forall_forall; exact H)| | | |].
        * exact (reachable_next P st Hr).
        * exact A.
        * exact B.
        * intros E. apply C. rewrite Hid. exact E.
    - intros st g _ H. apply (complete_gate_tasks_ok stack_TP stack_TP_wake). exact H.
    - intros st _ H. apply (ok_cancel_task stack_TP stack_TP_cancel_ready stack_TP_cancel_wait). exact H.
  Qed.
End Stacks.

Lemma seg_ok_app fr rest k' :
  chainb (fr :: rest) = true -> main_stack (fr :: rest) = true -> seg_ok fr k' ->
  chainb (k' ++ rest) = true /\ main_stack (k' ++ rest) = true.
Proof.
  intros Hc Hm [Hne [Hk [Hl Hmk]]]. split; [apply (chainb_app fr); assumption|].
  unfold main_stack in *. rewrite forallb_app. cbn [forallb] in Hm. apply andb_true_iff in Hm. destruct Hm as [Hf Hr].
  rewrite (Hmk Hf), Hr. reflexivity.
Qed.

Lemma below_chart fr rest : cls_of fr = KChart -> chainb (fr :: rest) = true -> rest = [].
Proof.
  intros Hk. destruct rest as [|g r]; [reflexivity|]. cbn [chainb]. rewrite Hk. intros H. apply andb_true_iff in H. destruct H as [H _].
  destruct g; discriminate H.
Qed.

Lemma main_stack_tail f r : main_stack (f :: r) = true -> main_stack r = true.
Proof. unfold main_stack. cbn [forallb]. intros H. apply andb_true_iff in H. apply H. Qed.
