(* Plain programs, every schedule, while manager.run is pending: every stored result is the value that the retry / default policy
   of the node prescribes for its body applied to the (final) results of its declared inputs. Since that value is a function of
   the program alone, any two schedules store the same results (determinacy). *)
From MLPE Require Import Engine.Run Proofs.ExecLemmas Proofs.Evolve Proofs.StackInv Proofs.ReadyInv Proofs.WaitInv Explore.StateEq
     Proofs.ProcessedInv Proofs.PlainWorld Proofs.PlainLaunch Proofs.PlainLive Proofs.Micro Proofs.PlainBase Proofs.PlainCore Proofs.PlainInv
     Proofs.PlainRoles Proofs.PlainExec Proofs.PlainArgs Proofs.AssocLemmas.

(* the retry loop of __execute_node as a relation: started at attempt att (1-based) it ends with r *)
Inductive rr (nd : nspec) (o : nat -> outcome) : nat -> rresult -> Prop :=
| rr_ret att v : retry_decide nd (o att) att = RDReturn v -> rr nd o att (RRVal v)
| rr_default att c : retry_decide nd (o att) att = RDFinal c -> ns_default nd = true -> rr nd o att RRDefault
| rr_raise att c : retry_decide nd (o att) att = RDFinal c -> ns_default nd = false -> rr nd o att (RRRaise c att)
| rr_prop att c : retry_decide nd (o att) att = RDPropagate c -> rr nd o att (RRRaise c att)
| rr_retry att c r : retry_decide nd (o att) att = RDRetry c -> rr nd o (S att) r -> rr nd o att r.

Lemma rr_functional nd o att r : rr nd o att r -> forall r', rr nd o att r' -> r = r'.
Proof.
  induction 1 as [att v E|att c E D|att c E D|att c E|att c r E H IH]; intros r' H'; inversion H'; subst; try congruence.
  apply IH. assumption.
Qed.

(* it is the loop whose closed form C12 states: retry_run computes it *)
Lemma retry_run_rr nd o : forall fuel att r, snd (retry_run fuel nd o att) = Some r -> rr nd o att r.
Proof.
  induction fuel as [|f IH]; intros att r H; cbn [retry_run] in H; [discriminate H|].
  destruct (retry_decide nd (o att) att) as [v|c|c|c] eqn:E.
  - cbn in H. inversion H. apply rr_ret. exact E.
  - destruct (ns_default nd) eqn:D; cbn in H; inversion H; [eapply rr_default|eapply rr_raise]; eassumption.
  - destruct (retry_run f nd o (S att)) as [log r0] eqn:Er. cbn in H. subst r0. eapply rr_retry; [exact E|]. apply IH. rewrite Er. reflexivity.
  - cbn in H. inversion H. apply rr_prop. exact E.
Qed.

Lemma get_result_set_same' q v s : get_result q true (set_result q v s) = v.
Proof. unfold get_result, get_result_opt, set_result. cbn. rewrite (alookup_aset_same key_eqb key_eqb_spec). reflexivity. Qed.

Definition retry_pos (f : frame) : option (kwargs * nat) :=
  match f with
  | FRetry _ _ kw att | FRetryAfterBody _ kw att => Some (kw, att)
  | FRetryAfterEmit _ kw att | FRetryAfterSleep _ kw att => Some (kw, S att)
  | _ => None
  end.
Definition carries_value (f : frame) : bool := match f with FExecAfterBody _ _ | FNodeAfterExec _ _ => true | _ => false end.

Section ValueSteps.
  Variable P : prog.
  Notation G := (b_graph (build (p_decls P) (p_inp P) (p_out P))).
  Hypothesis Hsw : forall n, is_switch G n = false.
  Hypothesis Hhd : forall n, is_head G n = false.
  Hypothesis Hbody : forall i kw a v, p_body P i kw a = OVal v -> clean v = true.

  Ltac plain_prep9 :=
    repeat match goal with
           | H : (_ && _)%bool = true |- _ => apply andb_true_iff in H; destruct H
           | H : is_main P ?d = true |- _ => apply is_main_eq in H; subst d
           | H : negb ?f = true |- _ => apply negb_true_iff in H; subst f
           | H : ?u = true |- _ => is_var u; subst u
           end.

  (* where a position in the retry loop comes from *)
  Lemma plain_step_retry_pos t fr sg st f kw a :
    plain_frame P fr = true -> clean_sig sg -> PS st ->
    In f (dir_frames (snd (step_frame P t fr sg st))) -> retry_pos f = Some (kw, a) ->
    (exists d n fc, fr = FExecAfterStart d n fc /\ a = 1) \/ retry_pos fr = Some (kw, a) \/
    (exists j att c, fr = FRetryAfterBody j kw att /\ a = S att /\
                     retry_decide (nspec_of P j) (p_body P j kw (Nat.pred att)) att = RDRetry c).
  Proof.
    intros Hf Hs Hst. pose proof Hst as Hst'. unfold PS in Hst'.
    destruct fr; try discriminate Hf; cbn [plain_frame] in Hf; plain_prep9;
      destruct sg; cbn [clean_sig] in Hs;
      try match goal with H : clean ?v = true |- _ => pose proof (clean_not_rec v H) as Hnr; pose proof (clean_not_exn v H) as Hne end;
      cbn [step_frame]; rewrite ?Hnr, ?Hne, ?Hsw, ?Hhd, ?(plain_dep_error P _ _ _ Hst'), ?(plain_no_subgraph_error _ _ Hst');
      unfold default_or_raise, reduced; cbn [d_oneof d_rec maind andb];
      repeat break_match; cbn [snd dir_frames emit_frames]; intros Hin Hr;
      repeat (destruct Hin as [Hin|Hin]; [subst f; cbn [retry_pos] in Hr; try discriminate Hr; inversion Hr; subst; eauto 12|]); try contradiction.
  Qed.

  Lemma plain_step_push_ok t fr sg st d n v :
    plain_frame P fr = true -> clean_sig sg -> PS st ->
    In (FExecAfterOk d n v) (dir_frames (snd (step_frame P t fr sg st))) -> fr = FExecAfterBody d n /\ sg = SVal v.
  Proof.
    intros Hf Hs Hst. pose proof Hst as Hst'. unfold PS in Hst'.
    destruct fr; try discriminate Hf; cbn [plain_frame] in Hf; plain_prep9;
      destruct sg; cbn [clean_sig] in Hs;
      try match goal with H : clean ?v = true |- _ => pose proof (clean_not_rec v H) as Hnr; pose proof (clean_not_exn v H) as Hne end;
      cbn [step_frame]; rewrite ?Hnr, ?Hne, ?Hsw, ?Hhd, ?(plain_dep_error P _ _ _ Hst'), ?(plain_no_subgraph_error _ _ Hst');
      unfold default_or_raise, reduced; cbn [d_oneof d_rec maind andb];
      repeat break_match; cbn [snd dir_frames emit_frames]; intros Hin;
      repeat (destruct Hin as [Hin|Hin]; [try discriminate Hin; inversion Hin; subst; auto|]); try contradiction.
  Qed.

  (* which frames return a value, and which value *)
  Lemma plain_step_ret_val t fr sg st v :
    plain_frame P fr = true -> clean_sig sg -> PS st -> snd (step_frame P t fr sg st) = DRet (SVal v) ->
    (exists j kw att, fr = FRetryAfterBody j kw att /\
        (retry_decide (nspec_of P j) (p_body P j kw (Nat.pred att)) att = RDReturn v \/
         exists c, retry_decide (nspec_of P j) (p_body P j kw (Nat.pred att)) att = RDFinal c /\ ns_default (nspec_of P j) = true /\ v = VDef j kw))
    \/ (exists d n, fr = FExecAfterOk d n v)
    \/ (cls_of fr <> KRetry /\ cls_of fr <> KExec).
  Proof.
    intros Hf Hs Hst. pose proof Hst as Hst'. unfold PS in Hst'.
    destruct fr; try discriminate Hf; cbn [plain_frame] in Hf; plain_prep9;
      destruct sg; cbn [clean_sig] in Hs;
      try match goal with H : clean ?v = true |- _ => pose proof (clean_not_rec v H) as Hnr; pose proof (clean_not_exn v H) as Hne end;
      cbn [step_frame]; rewrite ?Hnr, ?Hne, ?Hsw, ?Hhd, ?(plain_dep_error P _ _ _ Hst'), ?(plain_no_subgraph_error _ _ Hst');
      unfold default_or_raise, reduced; cbn [d_oneof d_rec maind andb];
      repeat break_match; cbn [snd cls_of]; intros H; try discriminate H; inversion H; subst;
      try (right; right; split; discriminate); eauto 12.
  Qed.

  (* a step that stays in the coroutine continues with a plain resumption *)
  Lemma plain_step_cont_go t fr sg st k' s' :
    plain_frame P fr = true -> clean_sig sg -> PS st -> snd (step_frame P t fr sg st) = DCont k' s' -> forall v, s' <> SVal v.
  Proof.
    intros Hf Hs Hst. pose proof Hst as Hst'. unfold PS in Hst'.
    destruct fr; try discriminate Hf; cbn [plain_frame] in Hf; plain_prep9;
      destruct sg; cbn [clean_sig] in Hs;
      try match goal with H : clean ?v = true |- _ => pose proof (clean_not_rec v H) as Hnr; pose proof (clean_not_exn v H) as Hne end;
      cbn [step_frame]; rewrite ?Hnr, ?Hne, ?Hsw, ?Hhd, ?(plain_dep_error P _ _ _ Hst'), ?(plain_no_subgraph_error _ _ Hst');
      unfold default_or_raise, reduced; cbn [d_oneof d_rec maind andb];
      repeat break_match; cbn [snd]; intros H; try discriminate H; inversion H; intros v0; discriminate.
  Qed.
End ValueSteps.

Section ValueInv.
  Variable P : prog.
  Notation G := (b_graph (build (p_decls P) (p_inp P) (p_out P))).
  Hypothesis Hsw : forall n, is_switch G n = false.
  Hypothesis Hhd : forall n, is_head G n = false.
  Hypothesis Hbody : forall i kw a v, p_body P i kw a = OVal v -> clean v = true.
  Notation order := (p_order P (maind P)).
  Hypothesis Hnd : NoDup order.

  Definition body_of (m : key) (kw : kwargs) : nat -> outcome := fun a => p_body P (real_index m) kw (Nat.pred a).
  Definition spec_m (m : key) : nspec := nspec_of P (real_index m).
  (* the value the node's policy prescribes for its body applied to kw *)
  Definition result_ok (m : key) (kw : kwargs) (v : value) : Prop :=
    rr (spec_m m) (body_of m kw) 1 (RRVal v) \/ (rr (spec_m m) (body_of m kw) 1 RRDefault /\ v = VDef (real_index m) kw).
  Definition okv (st : mstate) (m : key) (v : value) : Prop := exists kw, node_kwargs P st m = Some kw /\ result_ok m kw v.

  Lemma result_ok_functional m kw v v' : result_ok m kw v -> result_ok m kw v' -> v = v'.
  Proof.
    intros [H|[H E]] [H'|[H' E']].
    - pose proof (rr_functional _ _ _ _ H _ H') as X. inversion X. reflexivity.
    - pose proof (rr_functional _ _ _ _ H _ H') as X. discriminate X.
    - pose proof (rr_functional _ _ _ _ H _ H') as X. discriminate X.
    - congruence.
  Qed.

  (* a stored result is final; the step stores a result only for a node that has none *)
  Lemma results_final_step st t fr rest sg :
    base P st (Some (t, fr :: rest, sg)) -> allT (PhiA P st) st (Some (t, fr :: rest, sg)) ->
    (forall p, exists_result p (st_store st) = true ->
               get_result p true (st_store (fst (step_frame P t fr sg st))) = get_result p true (st_store st)) /\
    (forall d n v, fr = FNodeAfterExec d n -> sg = SVal v -> exists_result n (st_store st) = false) /\
    (forall p, exists_result p (st_store (fst (step_frame P t fr sg st))) = true -> exists_result p (st_store st) = false ->
               exists d v, fr = FNodeAfterExec d p /\ sg = SVal v).
  Proof.
    intros Hb HAa.
    destruct (b_cur _ _ _ Hb) as [x0 [Hf0 [Hk [Hs [Ho [Hc _]]]]]].
    cbn [plain_stack forallb] in Hk, Ho. apply andb_true_iff in Hk. destruct Hk as [Kf Kr]. apply andb_true_iff in Ho. destruct Ho as [Of Or].
    pose proof (b_ps _ _ _ Hb) as Hps. pose proof Hps as Hps'. unfold PS in Hps'. destruct Hps' as [_ [Hrh _]].
    destruct (plain_step_summary P t fr sg st Kf Hs Hps) as (Hst & _ & _).
    destruct (find_task_in _ _ _ Hf0) as [Hin0 Hid0].
    pose proof (allT_In _ _ _ x0 HAa Hin0) as Hz0. unfold PhiA in Hz0. cbn [estate ident fst snd] in Hz0. rewrite Hid0, Nat.eqb_refl in Hz0.
    assert (Hfresh : forall d n v, fr = FNodeAfterExec d n -> sg = SVal v -> exists_result n (st_store st) = false).
    { intros d n v -> ->. destruct (exists_result n (st_store st)) eqn:Hp; [|reflexivity]. exfalso.
      pose proof (owner_frame_key _ _ _ Of eq_refl) as Enm. destruct (Hz0 n Enm) as (_ & B & _). destruct (B Hp) as [Hs'|[r Hr]]; [|discriminate Hr].
      rewrite Enm in Or. rewrite (knode_bottom n (FNodeAfterExec d n) rest eq_refl Or Hc) in Hs'. cbn in Hs'. discriminate Hs'. }
    split; [|split; [exact Hfresh|]].
    - intros p Hp. rewrite Hst. unfold step_store. destruct fr; try reflexivity; destruct sg; try reflexivity.
      + destruct (key_eqb p n) eqn:Epn; [|apply get_result_set_other; intros ->; rewrite key_eqb_refl in Epn; discriminate Epn].
        exfalso. apply key_eqb_spec in Epn. subst p. rewrite (Hfresh d n v eq_refl eq_refl) in Hp. discriminate Hp.
      + destruct (exists_processed n (st_store st)); reflexivity.
    - intros p Hp Hn. rewrite Hst in Hp. unfold step_store in Hp. destruct fr; try congruence; destruct sg; try congruence.
      + rewrite (result_set _ _ _ _ Hrh), Hn, orb_false_r in Hp. apply key_eqb_spec in Hp. subst p. eauto.
      + destruct (exists_processed n (st_store st)); [congruence|]. rewrite result_set_processed in Hp. congruence.
  Qed.

  Definition PhiV (st : mstate) (i : idt) (ts : tstate frame) : Prop :=
    forall m, snd (fst i) = TNNode m ->
      (forall f kw a, In f (estack ts) -> retry_pos f = Some (kw, a) ->
                      forall r, rr (spec_m m) (body_of m kw) a r -> rr (spec_m m) (body_of m kw) 1 r) /\
      (forall d n v, In (FExecAfterOk d n v) (estack ts) -> okv st m v) /\
      (forall f r v, ts = TReady (f :: r) (SVal v) -> carries_value f = true -> okv st m v) /\
      (exists_result m (st_store st) = true -> okv st m (get_result m true (st_store st))) /\
      (forall p, In p (preds G m) -> exists_result p (st_store st) = true).

  Definition valuesI (st : mstate) (c : running) : Prop := guard st \/ allT (PhiV st) st c.

  Lemma okv_ext st st' m v : st_store st' = st_store st -> st_adddata st' = st_adddata st -> okv st m v -> okv st' m v.
  Proof.
    intros A B [kw [H1 H2]]. exists kw. split; [|exact H2].
    rewrite (node_kwargs_ext P Hsw st st' m); [exact H1|intros; rewrite A; reflexivity|exact B].
  Qed.

  Lemma PhiV_wake st : wake_closed (PhiV st).
  Proof.
    intros i w k H m Hm. destruct (H m Hm) as (A & B & C & D & E). cbn [estack] in *. split; [|split; [|split; [|split]]].
    - intros f kw a Hf Hp. exact (A f kw a Hf Hp).
    - intros d n v Hin. exact (B d n v Hin).
    - intros f r v Hs _. discriminate Hs.
    - exact D.
    - exact E.
  Qed.
  Lemma PhiV_ext st st' i ts : st_store st' = st_store st -> st_adddata st' = st_adddata st -> PhiV st i ts -> PhiV st' i ts.
  Proof.
    intros A B H m Hm. destruct (H m Hm) as (H1 & H2 & H3 & H4 & H5). rewrite A. split; [|split; [|split; [|split]]].
    - exact H1.
    - intros d n v Hin. apply (okv_ext st); auto. exact (H2 d n v Hin).
    - intros f r v Hs Hc. apply (okv_ext st); auto. exact (H3 f r v Hs Hc).
    - intros Hr. apply (okv_ext st); auto.
    - exact H5.
  Qed.
  Lemma allT_extV st0 st1 st c : st_store st1 = st_store st0 -> st_adddata st1 = st_adddata st0 -> allT (PhiV st0) st c -> allT (PhiV st1) st c.
  Proof. intros A B. apply allT_impl. intros x _. apply PhiV_ext; assumption. Qed.

  Lemma owner_eab m d n : owner (TNNode m) (FExecAfterBody d n) = true -> n = m.
  Proof. cbn. intros H. apply key_eqb_spec in H. exact H. Qed.

  Lemma valuesA_step st t fr rest sg :
    base P st (Some (t, fr :: rest, sg)) ->
    globR st -> allT (PhiR P st) st (Some (t, fr :: rest, sg)) ->
    NoDup (node_names (fst (step_frame P t fr sg st))) ->
    globA P st -> allT (PhiA P st) st (Some (t, fr :: rest, sg)) ->
    allT (PhiV st) st (Some (t, fr :: rest, sg)) ->
    leaves_run fr sg (snd (step_frame P t fr sg st)) = false ->
    allT (PhiV (fst (step_frame P t fr sg st)))
         (fst (after_step t rest (step_frame P t fr sg st))) (snd (after_step t rest (step_frame P t fr sg st))).
  Proof.
    intros Hb HG HA Hnd1 (A0 & A1 & _) HAa HV Hlr. destruct HG as (G1 & G2 & G3).
    destruct (b_cur _ _ _ Hb) as [x0 [Hf0 [Hk [Hs [Ho [Hc _]]]]]].
    cbn [plain_stack forallb] in Hk, Ho. apply andb_true_iff in Hk. destruct Hk as [Kf Kr]. apply andb_true_iff in Ho. destruct Ho as [Of Or].
    pose proof (b_ps _ _ _ Hb) as Hps. pose proof Hps as Hps'. unfold PS in Hps'. destruct Hps' as [_ [Hrh _]].
    destruct (plain_step_summary P t fr sg st Kf Hs Hps) as (Hst & _ & Had).
    destruct (find_task_in _ _ _ Hf0) as [Hin0 Hid0].
    pose proof (allT_In _ _ _ x0 HA Hin0) as Hx0. unfold PhiR in Hx0. cbn [estate] in Hx0. rewrite Hid0, Nat.eqb_refl in Hx0.
    destruct Hx0 as (_ & _ & _ & X4 & _). cbn [ident fst snd] in X4.
    pose proof (allT_In _ _ _ x0 HAa Hin0) as Hz0. unfold PhiA in Hz0. cbn [estate ident fst snd] in Hz0. rewrite Hid0, Nat.eqb_refl in Hz0.
    pose proof (allT_In _ _ _ x0 HV Hin0) as Hv0. unfold PhiV in Hv0. cbn [estate ident fst snd] in Hv0. rewrite Hid0, Nat.eqb_refl in Hv0.
    destruct (results_final_step st t fr rest sg Hb HAa) as (F1 & Hfresh & F3).
    assert (F2 : forall p, exists_result p (st_store st) = true -> exists_result p (st_store (fst (step_frame P t fr sg st))) = true).
    { intros p Hp. rewrite Hst. apply step_store_res_mono; assumption. }
    (* the value prescribed for a node whose inputs all have results does not change *)
    assert (Hstab : forall m v, (forall p, In p (preds G m) -> exists_result p (st_store st) = true) ->
                                okv st m v -> okv (fst (step_frame P t fr sg st)) m v).
    { intros m v Hp [kw [H1 H2]]. exists kw. split; [|exact H2].
      rewrite (node_kwargs_ext P Hsw st _ m); [exact H1|intros p Hpp; apply F1; apply Hp; exact Hpp|rewrite Had; reflexivity]. }
    apply (allT_step P Hsw Hhd (PhiV st)); try assumption.
    - apply PhiV_wake.
    - (* spawned tasks *)
      intros nm Hnm m Em. cbn [fst snd] in Em.
      destruct (creates_shape P fr sg st nm Hnm) as [[-> ->]|[d [n [r [l0 [-> [-> ->]]]]]]]; [discriminate Em|]. inversion Em; subst m. clear Em.
      cbn [plain_frame] in Kf. apply is_main_eq in Kf. subst d.
      assert (Hrd : is_ready P (st_store st) (maind P) n = true) by (cbn [creates] in Hnm; destruct (is_ready _ _ _ _); [reflexivity|contradiction]).
      unfold spawn_frame_of. cbn [estack]. split; [|split; [|split; [|split]]].
      + intros f kw a [<-|[]] Hp. discriminate Hp.
      + intros d n0 v [Hx|[]]. discriminate Hx.
      + intros f r1 v Hx _. discriminate Hx.
      + intros Hr. exfalso.
        destruct (X4 (owner_dag_loop _ _ _ _ Of)) as [r0 [Hr0 Hor]].
        assert (r0 = n :: r) by (destruct rest; [cbn in Hr0; inversion Hr0; reflexivity|discriminate Hr0]). subst r0.
        pose proof Hnd as Hnd'. rewrite Hor in Hnd'. apply NoDup_remove_2 in Hnd'. apply Hnd'. apply in_or_app. left. apply A1. exact Hr.
      + apply (is_ready_true P Hsw Hhd _ _ Hrd).
    - (* the other tasks *)
      intros y ts Hy Hne Hyp m' Em'. destruct (Hyp m' Em') as (B1 & B2 & B3 & B4 & B5).
      split; [exact B1|]. split; [|split; [|split]].
      + intros d n v Hin. apply Hstab; [exact B5|exact (B2 d n v Hin)].
      + intros f r v Hts Hcv. apply Hstab; [exact B5|exact (B3 f r v Hts Hcv)].
      + intros Hr. destruct (exists_result m' (st_store st)) eqn:Er.
        * rewrite (F1 m' Er). apply Hstab; [exact B5|apply B4; reflexivity].
        * exfalso. destruct (F3 m' Hr Er) as [d [v [-> ->]]].
          pose proof (owner_frame_key _ _ _ Of eq_refl) as Enm.
          pose proof (ev_step_frame P t (FNodeAfterExec d m') (SVal v) st) as Hev'.
          destruct (evolves_find _ _ _ _ Hev' Hf0) as [x' [Hf' [Hnm' [_ Hid']]]]. destruct (find_task_in _ _ _ Hf') as [Hin' _].
          apply (node_names_unique _ y x' m' Hnd1 Hy Hin'); [rewrite Hid', Hid0; exact Hne|exact Em'|rewrite Hnm'; exact Enm].
      + intros p Hp. apply F2. apply B5. exact Hp.
    - (* the running task *)
      intros x Hx Hid. rewrite (run_ident P st t fr sg x0 x (b_ev _ _ _ Hb) Hf0 Hx Hid). intros m Em. cbn [ident fst snd] in Em.
      destruct (Hv0 m Em) as (V1 & V2 & V3 & V4 & V5). destruct (Hz0 m Em) as (Z1 & _ & _). rewrite Em in Of, Or.
      cbn [estack] in V1, V2, Z1.
      rewrite estack_nstate. split; [|split; [|split; [|split]]].
      + (* positions in the retry loop *)
        intros f kw a Hf Hp. apply in_app_or in Hf. destruct Hf as [Hf|Hf]; [|exact (V1 f kw a (or_intror Hf) Hp)].
        destruct (plain_step_retry_pos P t fr sg st f kw a Kf Hs Hps Hf Hp) as [[d [n [fc [_ ->]]]]|[Hfr|[j [att [c [-> [-> Hdec]]]]]]].
        * intros r Hr. exact Hr.
        * exact (V1 fr kw a (or_introl eq_refl) Hfr).
        * intros r Hr. apply (V1 _ kw att (or_introl eq_refl) eq_refl).
          destruct (Z1 _ j kw (or_introl eq_refl) eq_refl) as [Ej _]. subst j.
          eapply rr_retry; [exact Hdec|exact Hr].
      + (* the value held while on_node_complete is emitted *)
        intros d n v Hin. apply in_app_or in Hin. destruct Hin as [Hin|Hin]; [|apply Hstab; [exact V5|exact (V2 d n v (or_intror Hin))]].
        destruct (plain_step_push_ok P t fr sg st d n v Kf Hs Hps Hin) as [-> ->].
        apply Hstab; [exact V5|]. exact (V3 _ rest v eq_refl eq_refl).
      + (* a value delivered to the frame below *)
        intros f r v Hn Hcv.
        destruct (snd (step_frame P t fr sg st)) as [w k'|k'|k' s'|s'] eqn:Ed; cbn [nstate] in Hn.
        * discriminate Hn.
        * inversion Hn.
        * exfalso. destruct (k' ++ rest); [discriminate Hn|]. injection Hn as _ _ Es. rewrite Es in Ed. exact (plain_step_cont_go P t fr sg st k' (SVal v) Kf Hs Hps Ed v eq_refl).
        * destruct rest as [|g rest']; [discriminate Hn|]. injection Hn as Ef Er Es. subst f r. rewrite Es in Ed. clear Es.
          assert (Haw : awaits_b g (cls_of fr) = true) by (cbn [chainb] in Hc; apply andb_true_iff in Hc; apply Hc).
          apply Hstab; [exact V5|].
          destruct (plain_step_ret_val P t fr sg st v Kf Hs Hps Ed) as [[j [kw [att [-> Hdec]]]]|[[d [n ->]]|[Hnr Hne]]].
          -- (* the retry loop returns *)
             destruct (Z1 _ j kw (or_introl eq_refl) eq_refl) as [Ej Hkw]. subst j. exists kw. split; [exact Hkw|].
             pose proof (V1 _ kw att (or_introl eq_refl) eq_refl) as Hto1.
             destruct Hdec as [Hdec|[c [Hdec [Hdef ->]]]].
             ++ left. apply Hto1. apply rr_ret. exact Hdec.
             ++ right. split; [|reflexivity]. apply Hto1. eapply rr_default; eassumption.
          -- exact (V2 d n v (or_introl eq_refl)).
          -- exfalso. destruct g; try discriminate Hcv; cbn in Haw; destruct (cls_of fr); try discriminate Haw; contradiction.
      + (* the stored result *)
        intros Hr. destruct (exists_result m (st_store st)) eqn:Er.
        * rewrite (F1 m Er). apply Hstab; [exact V5|apply V4; reflexivity].
        * destruct (F3 m Hr Er) as [d [v [-> ->]]]. rewrite Hst. cbn [step_store]. rewrite get_result_set_same'.
          apply Hstab; [exact V5|]. exact (V3 _ rest v eq_refl eq_refl).
      + intros p Hp. apply F2. apply V5. exact Hp.
  Qed.

  Theorem creach_values : forall st c, creach P st c -> valuesI st c.
  Proof.
    intros st c H. pose proof (creach_base P Hsw Hhd Hbody st c H) as Hb0.
    induction H as [|st t rest x k sg H IH Hq Hf Ht|st t rest H IH Hq|st t fr rest sg H IH|st t sg H IH|st c H IH|st g H IH|st H IH].
    - right. unfold allT, tasks_ok, init_state. cbn. constructor; [|constructor]. unfold TPc, PhiV. cbn. intros m Hm. discriminate Hm.
    - pose proof (creach_base P Hsw Hhd Hbody _ _ H) as Hb. destruct (IH Hb) as [Hg|HV]; [left; exact Hg|right].
      apply (allT_extV st); [reflexivity|reflexivity|]. eapply (allT_start P); eassumption.
    - pose proof (creach_base P Hsw Hhd Hbody _ _ H) as Hb. destruct (IH Hb) as [Hg|HV]; [left; exact Hg|right]. exact HV.
    - pose proof (creach_base P Hsw Hhd Hbody _ _ H) as Hb.
      pose proof (cr_step P st t fr rest sg H) as Hcr'.
      destruct (creach_roles P Hsw Hhd Hbody Hnd _ _ Hcr') as [Hg'|[HG' HA']]; [left; exact Hg'|].
      destruct (creach_roles P Hsw Hhd Hbody Hnd _ _ H) as [Hg|[HG HA]]; [left; apply (guard_step P); assumption|].
      destruct (creach_args P Hsw Hhd Hbody Hnd _ _ H) as [Hg|[GA HAa]]; [left; apply (guard_step P); assumption|].
      destruct (IH Hb) as [Hg|HV]; [left; apply (guard_step P); assumption|].
      destruct (b_cur _ _ _ Hb) as [x0 [Hf0 [Hk [Hs _]]]]. cbn [plain_stack forallb] in Hk. apply andb_true_iff in Hk. destruct Hk as [Kf _].
      destruct (leaves_run fr sg (snd (step_frame P t fr sg st))) eqn:Hlr.
      + left. left. rewrite over_after_step, (plain_step_over P t fr sg st Kf Hs (b_ps _ _ _ Hb)), Hlr. apply orb_true_r.
      + right.
        pose proof (roles_nodup P Hnd _ _ HG' HA') as Hnd1. unfold node_names in Hnd1. rewrite names_after_step in Hnd1. fold (node_names (fst (step_frame P t fr sg st))) in Hnd1.
        apply (allT_extV (fst (step_frame P t fr sg st))); [apply store_after_step|apply adddata_after_step|].
        apply valuesA_step; assumption.
    - pose proof (creach_base P Hsw Hhd Hbody _ _ H) as Hb. destruct (IH Hb) as [Hg|HV]; [left; apply guard_done; [exact (b_ev _ _ _ Hb)|exact Hg]|right].
      apply (allT_extV st); [reflexivity|reflexivity|]. apply (allT_done P); assumption.
    - pose proof (creach_base P Hsw Hhd Hbody _ _ H) as Hb. left. apply guard_abort. exact (b_ev _ _ _ Hb).
    - pose proof (creach_base P Hsw Hhd Hbody _ _ H) as Hb. destruct (IH Hb) as [Hg|HV]; [left; apply (guard_gate P); [exact (b_ev _ _ _ Hb)|exact Hg]|right].
      unfold complete_gate. apply (allT_extV st); [apply store_wake_all|apply adddata_wake_all|]. apply allT_gate; [apply PhiV_wake|exact HV].
    - pose proof (creach_base P Hsw Hhd Hbody _ _ H) as Hb. destruct (IH Hb) as [Hg|HV]; [left; apply (guard_cancel P); [exact (b_ev _ _ _ Hb)|exact Hg]|right].
      apply (allT_extV st); [apply store_cancel_task|apply adddata_cancel_task|].
      apply allT_cancel_main_vac; [|exact (b_ev _ _ _ Hb)|exact HV].
      intros i ts Hi m Hm. rewrite Hi in Hm. discriminate Hm.
  Qed.
End ValueInv.

(* ---- on schedule-reachable states ------------------------------------------------------------------------------------------------ *)
Section Determinacy.
  Variable P : prog.
  Notation G := (b_graph (build (p_decls P) (p_inp P) (p_out P))).
  Hypothesis HP : plain_prog P.
  Notation order := (p_order P (maind P)).
  Hypothesis Hnd : NoDup order.
  Hypothesis Htopo : forall n p a b, order = a ++ n :: b -> In p (preds G n) -> In p a.

  Definition pending (st : mstate) : Prop := over st = false /\ main_done st = false.

  (* every stored result is the value the node's policy prescribes for its body applied to the final results of its inputs
     (stated for configurations: the states inside a loop iteration included) *)
  Theorem plain_results_are_prescribed_c st c m :
    creach P st c -> pending st -> exists_result m (st_store st) = true ->
    okv P st m (get_result m true (st_store st)) /\ In m order /\ forall p, In p (preds G m) -> exists_result p (st_store st) = true.
  Proof.
    destruct HP as (Hg & Hb & _). destruct (graph_plain_sound _ Hg) as [Hsw Hhd].
    intros Hc [Ho Hm] Hres.
    destruct (creach_values P Hsw Hhd Hb Hnd st c Hc) as [[Hg'|Hg']|HV]; [congruence|congruence|].
    destruct (creach_args P Hsw Hhd Hb Hnd st c Hc) as [[Hg'|Hg']|[(_ & A1 & _) _]]; [congruence|congruence|].
    destruct (creach_roles P Hsw Hhd Hb Hnd st c Hc) as [[Hg'|Hg']|[(_ & _ & G3) HA]]; [congruence|congruence|].
    pose proof (A1 m Hres) as Hin. pose proof Hin as Hin'. apply node_names_in in Hin. unfold names in Hin. apply in_map_iff in Hin. destruct Hin as [x [Hnm Hx]].
    destruct (allT_In _ _ _ x HV Hx m Hnm) as (_ & _ & _ & V4 & V5).
    split; [exact (V4 Hres)|]. split; [|exact V5].
    assert (Hrun : In TNRun (names st)).
    { destruct (existsb is_run_name (names st)) eqn:E.
      - apply existsb_exists in E. destruct E as [nm [Hi Hn]]. destruct nm; try discriminate Hn. exact Hi.
      - exfalso. assert (Hno : ~ In TNRun (names st)).
        { intros Hi. assert (existsb is_run_name (names st) = true) by (apply existsb_exists; exists TNRun; auto). congruence. }
        rewrite (G3 Hno) in Hin'. contradiction. }
    unfold names in Hrun. apply in_map_iff in Hrun. destruct Hrun as [xl [Hnl Hxl]].
    destruct (allT_In _ _ _ xl HA Hxl) as (_ & _ & _ & R4 & _). cbn [ident fst snd] in R4. destruct (R4 Hnl) as [r [_ Hor]].
    rewrite Hor. apply in_or_app. left. exact Hin'.
  Qed.

  (* determinacy: whatever the schedules, two runs of the program store the same result for a node *)
  Theorem plain_results_are_schedule_independent_c st1 c1 st2 c2 :
    creach P st1 c1 -> pending st1 -> creach P st2 c2 -> pending st2 ->
    forall m, exists_result m (st_store st1) = true -> exists_result m (st_store st2) = true ->
              get_result m true (st_store st1) = get_result m true (st_store st2).
  Proof.
    intros Hr1 Hp1 Hr2 Hp2.
    destruct HP as (Hg & Hb & _). destruct (graph_plain_sound _ Hg) as [Hsw Hhd].
    assert (Had : st_adddata st1 = [] /\ st_adddata st2 = []).
    { destruct Hp1 as [O1 M1]. destruct Hp2 as [O2 M2].
      destruct (creach_args P Hsw Hhd Hb Hnd st1 c1 Hr1) as [[Hg'|Hg']|[(A0 & _) _]]; [congruence|congruence|].
      destruct (creach_args P Hsw Hhd Hb Hnd st2 c2 Hr2) as [[Hg'|Hg']|[(B0 & _) _]]; [congruence|congruence|]. auto. }
    destruct Had as [Had1 Had2].
    assert (K : forall l suf, order = l ++ suf -> forall m, In m l -> exists_result m (st_store st1) = true -> exists_result m (st_store st2) = true ->
                              get_result m true (st_store st1) = get_result m true (st_store st2)).
    { induction l as [|m0 l IH] using rev_ind; intros suf E m Hm R1 R2; [contradiction|].
      apply in_app_or in Hm. destruct Hm as [Hm|[<-|[]]].
      - apply (IH ([m0] ++ suf)); [rewrite E, <- app_assoc; reflexivity|exact Hm|exact R1|exact R2].
      - destruct (plain_results_are_prescribed_c st1 c1 m0 Hr1 Hp1 R1) as ([kw1 [K1 O1]] & _ & P1).
        destruct (plain_results_are_prescribed_c st2 c2 m0 Hr2 Hp2 R2) as ([kw2 [K2 O2]] & _ & P2).
        assert (Ekw : node_kwargs P st2 m0 = node_kwargs P st1 m0).
        { apply (node_kwargs_ext P Hsw); [|rewrite Had1, Had2; reflexivity].
          intros p Hp. symmetry. apply (IH ([m0] ++ suf)); [rewrite E, <- app_assoc; reflexivity| |apply P1; exact Hp|apply P2; exact Hp].
          apply (Htopo m0 p l suf); [rewrite E, <- app_assoc; reflexivity|exact Hp]. }
        rewrite K1, K2 in Ekw. inversion Ekw; subst kw2. exact (result_ok_functional P m0 kw1 _ _ O1 O2). }
    intros m R1 R2. destruct (plain_results_are_prescribed_c st1 c1 m Hr1 Hp1 R1) as (_ & Hin & _).
    apply (K order []); [rewrite app_nil_r; reflexivity|exact Hin|exact R1|exact R2].
  Qed.

  Corollary plain_results_are_prescribed st m :
    reachable P st -> pending st -> exists_result m (st_store st) = true ->
    okv P st m (get_result m true (st_store st)) /\ In m order /\ forall p, In p (preds G m) -> exists_result p (st_store st) = true.
  Proof. intros Hr. apply plain_results_are_prescribed_c with (c := None). apply reachable_creach. exact Hr. Qed.

  Corollary plain_results_are_schedule_independent st1 st2 :
    reachable P st1 -> pending st1 -> reachable P st2 -> pending st2 ->
    forall m, exists_result m (st_store st1) = true -> exists_result m (st_store st2) = true ->
              get_result m true (st_store st1) = get_result m true (st_store st2).
  Proof.
    intros H1 P1 H2 P2. apply (plain_results_are_schedule_independent_c st1 None st2 None); try assumption; apply reachable_creach; assumption.
  Qed.
End Determinacy.
