(* C13 (iii): cancelling PipelineChart.run surfaces as CancelledError and nothing else, and never hangs. *)
From MLPE Require Import Engine.Run Proofs.ExecLemmas Proofs.Evolve Proofs.StackInv Proofs.CancelProofs Proofs.ReadyInv.

(* the chart task has a CancelledError pending, or has finished with it (or the model interpreter gave up) *)
Definition pend_TP (x : task frame) : Prop :=
  t_id x = main_tid ->
  match t_state x with
  | TReady _ sg => sg = SThrow XCancelled
  | TDone r => r = SThrow XCancelled \/ exists k, r = SThrow (XEng EOutOfFuel k)
  | TWait _ _ => False
  end.

Lemma pend_wake x w k : t_state x = TWait w k -> pend_TP x -> pend_TP (with_ts x (TReady k SGo)).
Proof. unfold pend_TP. intros E H Hi. specialize (H Hi). rewrite E in H. contradiction. Qed.
Lemma pend_cancel_ready x k sg : t_state x = TReady k sg -> pend_TP x -> pend_TP (with_ts x (TReady k (SThrow XCancelled))).
Proof. unfold pend_TP. intros _ _ _. reflexivity. Qed.
Lemma pend_cancel_wait x w k : t_state x = TWait w k -> pend_TP x -> pend_TP (with_ts x (TReady k (SThrow XCancelled))).
Proof. unfold pend_TP. intros _ _ _. reflexivity. Qed.
Lemma pend_spawn i nm f : 1 <= i -> spawn_frame f = true ->
                          pend_TP {| t_id := i; t_name := nm; t_state := TReady [f] SGo; t_helper := true |}.
Proof. unfold pend_TP, main_tid. cbn. intros. lia. Qed.
Lemma pend_abort x k : pend_TP x -> pend_TP (with_ts x (TDone (SThrow (XEng EOutOfFuel k)))).
Proof. unfold pend_TP. intros _ _. cbn. right. eauto. Qed.

Section Surface.
  Variable P : prog.

  Lemma main_unwind_step t fr st :
    main_frame fr = true -> snd (step_frame P t fr (SThrow XCancelled) st) = DRet (SThrow XCancelled).
  Proof. intros Hm. destruct fr; try discriminate Hm; cbn [step_frame is_Exception]; repeat break_match; reflexivity. Qed.

  Lemma exec_main_cancelled fuel k st :
    main_stack k = true -> tasks_ok pend_TP st -> 1 <= st_next st ->
    tasks_ok pend_TP (exec P fuel main_tid k (SThrow XCancelled) st).
  Proof.
    intros M0 H0 N0.
    apply (exec_rule P main_tid (fun k sg s => tasks_ok pend_TP s /\ 1 <= st_next s /\ main_stack k = true /\ sg = SThrow XCancelled)
                     (tasks_ok pend_TP)); [| |auto].
    - intros sg s [Hs [_ [_ ->]]]. apply ok_set_tstate; [exact Hs|]. intros x _ _ _. cbn. left. reflexivity.
    - intros fr rest sg s [Hs [Hn [Hm ->]]]. split; [apply ok_abort; [intros x k0; apply pend_abort|exact Hs]|].
      assert (Hmf : main_frame fr = true).
      { unfold main_stack in Hm. cbn [forallb] in Hm. apply andb_true_iff in Hm. apply Hm. }
      pose proof (main_unwind_step main_tid fr s Hmf) as Hd.
      pose proof (step_frame_tasks_ok P pend_TP pend_wake pend_cancel_ready pend_cancel_wait pend_spawn main_tid fr (SThrow XCancelled) s Hn Hs) as Hs1.
      pose proof (ev_next _ _ (ev_step_frame P main_tid fr (SThrow XCancelled) s)) as Hn1.
      destruct (step_frame P main_tid fr (SThrow XCancelled) s) as [st1 d]. cbn [fst snd] in *. subst d.
      split; [exact Hs1|]. split; [lia|]. split; [apply (main_stack_tail fr); exact Hm|reflexivity].
  Qed.

  Lemma exec_other_keeps_pend fuel t k sg st :
    t <> main_tid -> tasks_ok pend_TP st -> 1 <= st_next st -> tasks_ok pend_TP (exec P fuel t k sg st).
  Proof.
    intros Ht H0 N0.
    assert (V : forall s x ts, find_task t (st_tasks s) = Some x -> pend_TP (with_ts x ts)).
    { intros s x ts Hx Hi. cbn in Hi. destruct (find_task_in _ _ _ Hx) as [_ Hid]. congruence. }
    apply (exec_rule P t (fun _ _ s => tasks_ok pend_TP s /\ 1 <= st_next s) (tasks_ok pend_TP)); [| |auto].
    - intros sg' s [Hs _]. apply ok_set_tstate; [exact Hs|]. intros x Hx _. apply (V s). exact Hx.
    - intros fr rest sg' s [Hs Hn]. split; [apply ok_abort; [intros x k0; apply pend_abort|exact Hs]|].
      pose proof (step_frame_tasks_ok P pend_TP pend_wake pend_cancel_ready pend_cancel_wait pend_spawn t fr sg' s Hn Hs) as Hs1.
      pose proof (ev_next _ _ (ev_step_frame P t fr sg' s)) as Hn1.
      destruct (step_frame P t fr sg' s) as [st1 [w k'|k'|k' sg''|sg'']]; cbn [fst] in *.
      + apply ok_suspend; [exact Hs1|]. intros x Hx _. apply (V st1). exact Hx.
      + apply ok_push_ready. apply ok_set_tstate; [exact Hs1|]. intros x Hx _. apply (V st1). exact Hx.
      + split; [exact Hs1|lia].
      + split; [exact Hs1|lia].
  Qed.

  Lemma action_keeps_pend a st :
    reachable P st -> tasks_ok pend_TP st -> tasks_ok pend_TP (apply_action P a st).
  Proof.
    assert (Hstep : forall st, reachable P st -> tasks_ok pend_TP st -> tasks_ok pend_TP (loop_step P st)).
    { intros s Hr H. pose proof (reachable_stacks_ok P s Hr) as Hs.
      apply (loop_step_rule P (tasks_ok pend_TP)); [exact H|auto| |].
      - intros. apply ok_dequeue. exact H.
      - intros t rest x k sg Hq Hf Ht. destruct (find_task_in _ _ _ Hf) as [Hin Hid].
        pose proof (stacks_of s x Hs Hin) as [_ Hx]. rewrite Ht in Hx. destruct Hx as [[_ [_ Hm]] _].
        destruct (Nat.eq_dec t main_tid) as [->|Hne].
        + assert (sg = SThrow XCancelled) as ->.
          { unfold tasks_ok in H. rewrite Forall_forall in H. specialize (H x Hin Hid). rewrite Ht in H. exact H. }
          apply exec_main_cancelled; [apply Hm; exact Hid|apply ok_dequeue; exact H|cbn; exact (reachable_next P s Hr)].
        + apply exec_other_keeps_pend; [exact Hne|apply ok_dequeue; exact H|cbn; exact (reachable_next P s Hr)]. }
    intros Hr H. destruct a as [| |g|]; cbn [apply_action].
    - apply Hstep; assumption.
    - unfold quiesce_fuel. generalize 4096. intros fuel. revert st Hr H. induction fuel as [|f IH]; intros st Hr H; cbn [quiesce]; [exact H|].
      destruct (st_ready st); [exact H|]. apply IH; [exact (reach_step P st AStep Hr)|apply Hstep; assumption].
    - apply (complete_gate_tasks_ok pend_TP pend_wake). exact H.
    - apply (ok_cancel_task pend_TP pend_cancel_ready pend_cancel_wait). exact H.
  Qed.

  Lemma pend_after_cancel st :
    reachable P st -> main_done st = false -> tasks_ok pend_TP (cancel_task main_tid st).
  Proof.
    intros Hr Hd. destruct (evolved_shape st (ev_reachable P st Hr)) as [x [rest [T [Hid [_ [Hrest [Hnd _]]]]]]].
    unfold tasks_ok. rewrite (cancel_task_tasks main_tid st Hnd), T. cbn [map]. rewrite Hid, Nat.eqb_refl. constructor.
    - intros _. unfold main_done, main_state in Hd. rewrite T in Hd. cbn [find_task] in Hd. rewrite Hid in Hd. cbn in Hd.
      unfold cancel1. destruct (t_state x) eqn:E; cbn; try reflexivity. discriminate Hd.
    - rewrite Forall_forall in *. intros y Hy. apply in_map_iff in Hy. destruct Hy as [z [<- Hz]]. specialize (Hrest z Hz).
      destruct (Nat.eqb (t_id z) main_tid) eqn:E; [apply Nat.eqb_eq in E; contradiction|]. intros Hc. contradiction.
  Qed.

  (* Cancelling a run that has not ended: whatever happens afterwards, the chart task stays runnable with the
     CancelledError pending until it gets its turn, then ends with CancelledError (never another exception, never a
     value, never parked again) -- and as long as it has not ended the loop is not idle. *)
  Theorem cancel_surfaces_as_cancelled st sched :
    reachable P st -> main_done st = false ->
    let st' := fold_left (fun s a => apply_action P a s) sched (cancel_task main_tid st) in
    match main_state st' with
    | Some (TReady _ sg) => sg = SThrow XCancelled /\ deadlocked st' = false
    | Some (TDone r) => r = SThrow XCancelled \/ exists k, r = SThrow (XEng EOutOfFuel k)
    | _ => False
    end.
  Proof.
    intros Hr Hd st'.
    assert (Hr1 : reachable P (cancel_task main_tid st)) by exact (reach_step P st ACancel Hr).
    assert (H : reachable P st' /\ tasks_ok pend_TP st').
    { subst st'. generalize (pend_after_cancel st Hr Hd). generalize Hr1. generalize (cancel_task main_tid st).
      induction sched as [|a r IH]; intros s Hrs Hs; cbn [fold_left]; [split; assumption|].
      apply IH; [exact (reach_step P s a Hrs)|apply action_keeps_pend; assumption]. }
    destruct H as [Hr' Hp]. destruct (reachable_find_main P st' Hr') as [x [Hx [_ Hid]]].
    unfold main_state. rewrite Hx. cbn [option_map]. destruct (find_task_in _ _ _ Hx) as [Hin _].
    unfold tasks_ok in Hp. rewrite Forall_forall in Hp. specialize (Hp x Hin Hid).
    destruct (t_state x) as [k sg|w k|r] eqn:E; [|exact Hp|exact Hp].
    split; [exact Hp|]. exact (ready_task_not_deadlocked P st' main_tid x k sg Hr' Hx E).
  Qed.
End Surface.
