(* Plain programs never deadlock: for every program whose built graph has no switch node and no one-of head and whose bodies never
   ask for another iteration -- any size and shape, retry / default settings, execution modes, event managers and artifact store
   (gated or not, raising or not) -- and for every schedule (any order of completions, cancellation by the caller at any point):
   no reachable state has an idle loop, nothing outstanding and the run still pending. *)
From MLPE Require Import Engine.Run Proofs.ExecLemmas Proofs.Evolve Proofs.StackInv Proofs.ReadyInv Proofs.WaitInv Explore.StateEq
     Proofs.ProcessedInv Proofs.PlainWorld Proofs.PlainLaunch Proofs.PlainLive Proofs.Micro Proofs.PlainBase Proofs.PlainCore Proofs.PlainInv
     Proofs.PlainRoles Proofs.PlainExec Proofs.PlainWait.

Definition mainname_TP (x : task frame) : Prop := t_name x = TNMain -> t_id x = main_tid.

Section MainName.
  Variable P : prog.
  Notation G := (b_graph (build (p_decls P) (p_inp P) (p_out P))).
  Hypothesis Hsw : forall n, is_switch G n = false.
  Hypothesis Hhd : forall n, is_head G n = false.
  Hypothesis Hbody : forall i kw a v, p_body P i kw a = OVal v -> clean v = true.

  Theorem creach_mainname : forall st c, creach P st c -> tasks_ok mainname_TP st.
  Proof.
    intros st c H. pose proof (creach_base P Hsw Hhd Hbody st c H) as Hb0.
    induction H as [|st t rest x k sg H IH Hq Hf Ht|st t rest H IH Hq|st t fr rest sg H IH|st t sg H IH|st c H IH|st g H IH|st H IH].
    - unfold tasks_ok, init_state. cbn. constructor; [intros _; reflexivity|constructor].
    - apply ok_dequeue. apply IH. exact (creach_base P Hsw Hhd Hbody _ _ H).
    - apply ok_dequeue. apply IH. exact (creach_base P Hsw Hhd Hbody _ _ H).
    - pose proof (creach_base P Hsw Hhd Hbody _ _ H) as Hb. specialize (IH Hb).
      destruct (b_cur _ _ _ Hb) as [x0 [Hf0 [Hk [Hs _]]]]. cbn [plain_stack forallb] in Hk. apply andb_true_iff in Hk. destruct Hk as [Kf _].
      assert (A1 : tasks_ok mainname_TP (fst (step_frame P t fr sg st))).
      { apply (plain_step_tasks_gen P Hsw Hhd mainname_TP); try assumption; unfold mainname_TP; try (intros; cbn in *; auto; fail);
          [intros i Hx; discriminate Hx|intros i n Hx; discriminate Hx|exact (b_ps _ _ _ Hb)]. }
      destruct (step_frame P t fr sg st) as [st1 [w k'|k'|k' sg'|sg']]; cbn [after_step fst] in *; try exact A1.
      + apply ok_suspend; [exact A1|]. intros y _ Hy. exact Hy.
      + apply ok_push_ready. apply ok_set_tstate; [exact A1|]. intros y _ Hy. exact Hy.
    - apply ok_set_tstate; [apply IH; exact (creach_base P Hsw Hhd Hbody _ _ H)|]. intros y _ Hy. exact Hy.
    - apply ok_abort; [|apply IH; exact (creach_base P Hsw Hhd Hbody _ _ H)]. intros y k0 Hy. exact Hy.
    - apply (complete_gate_tasks_ok mainname_TP); [intros y w k _ Hy; exact Hy|]. apply IH. exact (creach_base P Hsw Hhd Hbody _ _ H).
    - apply (ok_cancel_task mainname_TP); [intros y k s _ Hy; exact Hy|intros y w k _ Hy; exact Hy|]. apply IH. exact (creach_base P Hsw Hhd Hbody _ _ H).
  Qed.
End MainName.

(* ---- once manager.run has returned, the chart task never holds its frame again ------------------------------------------------ *)
Definition PhiL (i : idt) (ts : tstate frame) : Prop :=
  fst (fst i) = main_tid -> has_run (estack ts) || has_early (estack ts) = false.

Lemma below_run rest : chainb (FRunWait :: rest) = true -> has_run rest || has_early rest = false.
Proof.
  destruct rest as [|g r]; [reflexivity|]. intros Hc. pose proof (chainb_tail _ _ Hc) as Hc2. cbn [chainb] in Hc. apply andb_true_iff in Hc. destruct Hc as [Hg _].
  destruct g; try discriminate Hg. assert (r = []) by (apply (below_chart FChartAfterRun); [reflexivity|exact Hc2]). subst r. reflexivity.
Qed.

Lemma owner_run nm : owner nm FRunWait = true -> nm = TNMain.
Proof. destruct nm; cbn; try discriminate. reflexivity. Qed.

Lemma leaves_run_frame fr sg d : leaves_run fr sg d = true -> fr = FRunWait /\ exists s', d = DRet s'.
Proof. destruct fr; try discriminate. destruct sg; try discriminate; destruct d; try discriminate; eauto. Qed.

Section Late.
  Variable P : prog.
  Notation G := (b_graph (build (p_decls P) (p_inp P) (p_out P))).
  Hypothesis Hsw : forall n, is_switch G n = false.
  Hypothesis Hhd : forall n, is_head G n = false.
  Hypothesis Hbody : forall i kw a v, p_body P i kw a = OVal v -> clean v = true.

  Definition lateI (st : mstate) (c : running) : Prop := over st = false \/ allT PhiL st c.

  Lemma PhiL_wake : wake_closed PhiL.
  Proof. intros i w k H. exact H. Qed.

  Theorem creach_late : forall st c, creach P st c -> lateI st c.
  Proof.
    intros st c H. pose proof (creach_base P Hsw Hhd Hbody st c H) as Hb0.
    induction H as [|st t rest x k sg H IH Hq Hf Ht|st t rest H IH Hq|st t fr rest sg H IH|st t sg H IH|st c H IH|st g H IH|st H IH].
    - left. reflexivity.
    - pose proof (creach_base P Hsw Hhd Hbody _ _ H) as Hb. destruct (IH Hb) as [Ho|HL]; [left; exact Ho|right]. eapply (allT_start P); eassumption.
    - pose proof (creach_base P Hsw Hhd Hbody _ _ H) as Hb. destruct (IH Hb) as [Ho|HL]; [left; exact Ho|right]. exact HL.
    - pose proof (creach_base P Hsw Hhd Hbody _ _ H) as Hb. pose proof (creach_mainname P Hsw Hhd Hbody _ _ H) as Hmn.
      destruct (b_cur _ _ _ Hb) as [x0 [Hf0 [Hk [Hs [Ho [Hc _]]]]]].
      cbn [plain_stack forallb] in Hk, Ho. apply andb_true_iff in Hk. destruct Hk as [Kf Kr]. apply andb_true_iff in Ho. destruct Ho as [Of Or].
      destruct (find_task_in _ _ _ Hf0) as [Hin0 Hid0].
      assert (Hmain : fr = FRunWait -> t = main_tid).
      { intros ->. rewrite <- Hid0. unfold tasks_ok in Hmn. rewrite Forall_forall in Hmn. apply (Hmn x0 Hin0). apply owner_run. exact Of. }
      pose proof (plain_step_over P t fr sg st Kf Hs (b_ps _ _ _ Hb)) as Hov.
      destruct (leaves_run fr sg (snd (step_frame P t fr sg st))) eqn:Hlr.
      + (* manager.run returns *)
        destruct (leaves_run_frame _ _ _ Hlr) as [Efr [s' Ed]]. subst fr. specialize (Hmain eq_refl).
        destruct (IH Hb) as [Ho|HL].
        * right. destruct (step_frame P t FRunWait sg st) as [st1 d]. cbn [snd] in Ed. subst d. cbn [after_step fst snd].
          unfold allT, tasks_ok. rewrite Forall_forall. intros y Hy. unfold TPc, PhiL. cbn [estate]. intros Hi. cbn [ident fst] in Hi.
          rewrite Hi, Hmain, Nat.eqb_refl. pose proof (below_run rest Hc) as Hbr. destruct rest; [reflexivity|exact Hbr].
        * exfalso. pose proof (allT_In _ _ _ x0 HL Hin0) as Hx. unfold PhiL in Hx. cbn [estate ident fst] in Hx. rewrite Hid0, Nat.eqb_refl in Hx.
          specialize (Hx Hmain). cbn in Hx. discriminate Hx.
      + rewrite orb_false_r in Hov. destruct (IH Hb) as [Ho|HL]; [left; rewrite over_after_step, Hov; exact Ho|right].
        apply (allT_step P Hsw Hhd PhiL PhiL); try assumption.
        * apply PhiL_wake.
        * intros nm _. unfold PhiL. cbn [fst]. pose proof (base_next _ _ _ Hb). unfold main_tid. intros; lia.
        * intros y ts _ _ Hy. exact Hy.
        * intros x Hx Hid. rewrite (run_ident P st t fr sg x0 x (b_ev _ _ _ Hb) Hf0 Hx Hid). unfold PhiL. cbn [ident fst]. intros Hi.
          pose proof (allT_In _ _ _ x0 HL Hin0) as Hx0. unfold PhiL in Hx0. cbn [estate ident fst] in Hx0. rewrite Hid0, Nat.eqb_refl in Hx0.
          rewrite Hid0 in Hi. specialize (Hx0 Hi). cbn [estack has_run has_early existsb] in Hx0. fold (has_run rest) in Hx0. fold (has_early rest) in Hx0.
          apply orb_false_iff in Hx0. destruct Hx0 as [Hr0 He0]. apply orb_false_iff in Hr0. destruct Hr0 as [Hr1 Hr2]. apply orb_false_iff in He0. destruct He0 as [He1 He2].
          rewrite estack_nstate, has_run_app, has_early_app, Hr2, He2, !orb_false_r.
          apply orb_false_iff. split.
          -- destruct (has_run (dir_frames (snd (step_frame P t fr sg st)))) eqn:E; [|reflexivity]. exfalso.
             destruct (plain_step_run P t fr sg st Kf Hs (b_ps _ _ _ Hb) E) as [[Efr _]|Efr]; subst fr; [discriminate He1|discriminate Hr1].
          -- destruct (has_early (dir_frames (snd (step_frame P t fr sg st)))) eqn:E; [|reflexivity]. exfalso.
             rewrite (plain_step_early P t fr sg st Kf Hs (b_ps _ _ _ Hb) E) in He1. discriminate He1.
    - pose proof (creach_base P Hsw Hhd Hbody _ _ H) as Hb. destruct (IH Hb) as [Ho|HL]; [left; exact Ho|right]. apply (allT_done P); assumption.
    - pose proof (creach_base P Hsw Hhd Hbody _ _ H) as Hb. right. unfold allT, tasks_ok, abort. cbn [st_tasks]. rewrite Forall_forall. intros y Hy.
      apply in_map_iff in Hy. destruct Hy as [x [<- _]]. unfold TPc, PhiL. cbn. intros _. reflexivity.
    - pose proof (creach_base P Hsw Hhd Hbody _ _ H) as Hb. destruct (IH Hb) as [Ho|HL]; [left|right].
      + unfold over, complete_gate. rewrite trace_wake_all. exact Ho.
      + apply allT_gate; [apply PhiL_wake|exact HL].
    - pose proof (creach_base P Hsw Hhd Hbody _ _ H) as Hb. destruct (IH Hb) as [Ho|HL]; [left|right].
      + unfold over. rewrite trace_cancel_task. exact Ho.
      + apply allT_cancel_main; [| |exact HL]; intros; assumption.
  Qed.
End Late.

(* ---- the theorem ---------------------------------------------------------------------------------------------------------------- *)
Section NoDeadlock.
  Variable P : prog.
  Notation G := (b_graph (build (p_decls P) (p_inp P) (p_out P))).
  Notation out := (b_output (build (p_decls P) (p_inp P) (p_out P))).
  Hypothesis Hsw : forall n, is_switch G n = false.
  Hypothesis Hhd : forall n, is_head G n = false.
  Hypothesis Hbody : forall i kw a v, p_body P i kw a = OVal v -> clean v = true.
  Notation order := (p_order P (maind P)).
  (* what is assumed of the two library orders the model is parameterised by (networkx): the launch order lists the output node,
     has no repetition and puts every dependency of a node before it; the successors iterated on notification include every consumer *)
  Hypothesis Hnd : NoDup order.
  Hypothesis Hout : In out order.
  Hypothesis Htopo : forall n p a b, order = a ++ n :: b -> In p (preds G n) -> In p a.
  Hypothesis Hsucc : forall n p, In p (preds G n) -> In n (p_succ_order P p).

  Theorem plain_no_deadlock : forall st, reachable P st -> deadlocked st = false.
  Proof.
    intros st Hr. destruct (deadlocked st) eqn:Hd; [exfalso|reflexivity].
    unfold deadlocked in Hd. apply andb_true_iff in Hd. destruct Hd as [Hd Hmd]. apply andb_true_iff in Hd. destruct Hd as [Hrd Hpg].
    assert (Hready : st_ready st = []) by (destruct (st_ready st); [reflexivity|discriminate Hrd]).
    assert (Hgates : pending_gates st = []) by (destruct (pending_gates st); [reflexivity|discriminate Hpg]).
    apply negb_true_iff in Hmd. clear Hrd Hpg.
    pose proof (reachable_creach P st Hr) as Hc.
    pose proof (creach_base P Hsw Hhd Hbody _ _ Hc) as Hb.
    pose proof (base_nodup P _ _ Hb) as Hndi.
    pose proof (reachable_ready_consistent P st Hr) as Hrc.
    (* nothing is ready, nothing waits for an external completion *)
    assert (Snr : forall x k s, In x (st_tasks st) -> t_state x <> TReady k s).
    { intros x k s Hx Hs. pose proof (Hrc (t_id x) x) as H. rewrite Hs in H. rewrite Hready in H. apply H; [discriminate|apply in_find; assumption]. }
    assert (Sng : forall x g k, In x (st_tasks st) -> t_state x <> TWait (WGate g) k).
    { intros x g k Hx Hs. pose proof (b_wc _ _ _ Hb (t_id x) x (WGate g) k (in_find _ _ Hndi Hx) Hs) as Hin.
      assert (In g (pending_gates st)) by (unfold pending_gates; apply in_flat_map; exists (WGate g, t_id x); split; [exact Hin|left; reflexivity]).
      rewrite Hgates in H. contradiction. }
    pose proof (b_wk _ _ _ Hb) as Hwk. unfold tasks_ok in Hwk. rewrite Forall_forall in Hwk.
    pose proof (b_owner _ _ _ Hb) as Hown. unfold tasks_ok in Hown. rewrite Forall_forall in Hown.
    pose proof (b_stacks _ _ _ Hb) as Hstk. unfold stacks_ok, tasks_ok in Hstk. rewrite Forall_forall in Hstk.
    (* the chart task is parked inside manager.run *)
    destruct (evolved_shape _ (b_ev _ _ _ Hb)) as [xm [rm [Tm [Hidm [Hhm _]]]]].
    assert (Hxm : In xm (st_tasks st)) by (rewrite Tm; left; reflexivity).
    assert (Hmain : exists k, t_state xm = TWait (WCond CRun) (FRunWait :: k)).
    { unfold main_done, main_state in Hmd. rewrite Tm in Hmd. cbn [find_task] in Hmd. rewrite Hidm in Hmd. cbn in Hmd.
      destruct (t_state xm) as [k s|w k|r] eqn:Es; [exfalso; exact (Snr xm k s Hxm Es)| |discriminate Hmd].
      pose proof (Hwk xm Hxm) as Hw. unfold wk_TP in Hw. rewrite Es in Hw. destruct k as [|f k']; [contradiction|].
      destruct (Hstk xm Hxm) as [_ Hs]. rewrite Es in Hs. destruct Hs as [_ [_ Hms]]. specialize (Hms Hidm). cbn [main_stack forallb] in Hms.
      apply andb_true_iff in Hms. destruct Hms as [Hmf _].
      destruct f; try discriminate Hmf; destruct w as [c|nw|g]; try contradiction; try (exfalso; exact (Sng xm g _ Hxm Es)); try (exfalso; cbn in Hw; repeat match type of Hw with context [match ?b with _ => _ end] => destruct b end; contradiction).
      destruct c; try contradiction. exists k'. reflexivity. }
    destruct Hmain as [km Esm].
    (* so manager.run has not returned *)
    assert (Hng : ~ guard st).
    { intros [Ho|Hm]; [|congruence]. destruct (creach_late P Hsw Hhd Hbody _ _ Hc) as [Hl|HL]; [congruence|].
      pose proof (allT_In _ _ _ xm HL Hxm) as Hx. unfold PhiL in Hx. cbn [estate ident fst] in Hx. rewrite Esm in Hx. specialize (Hx Hidm). cbn in Hx. discriminate Hx. }
    destruct (creach_roles P Hsw Hhd Hbody Hnd _ _ Hc) as [Hg|[HG HA]]; [contradiction|].
    destruct (creach_exec P Hsw Hhd Hbody Hnd _ _ Hc) as [Hg|[GE HE]]; [contradiction|].
    destruct (creach_wait P Hsw Hhd Hbody Hnd Hsucc _ _ Hc) as [Hg|HW]; [contradiction|].
    destruct (allT_In _ _ _ xm HW Hxm) as (_ & W2 & W3). cbn [estate ident fst snd] in W2, W3.
    destruct (W2 Hidm _ Esm) as [Wall Wout].
    assert (Hrun : In TNRun (names st)) by (apply (W3 Hidm); rewrite Esm; reflexivity).
    (* a node that has a task has finished *)
    assert (X : forall x m, In x (st_tasks st) -> t_name x = TNNode m -> event_is_set m st = true).
    { intros x m Hx Hnm. destruct (allT_In _ _ _ x HE Hx) as [_ He]. cbn [estate ident fst snd] in He.
      destruct (He m Hnm) as (_ & _ & E2 & _ & _ & _ & E4 & _).
      destruct (t_state x) as [k s|w k|r] eqn:Es; [exfalso; exact (Snr x k s Hx Es)| |apply E4; eauto].
      exfalso. pose proof (Hwk x Hx) as Hw. unfold wk_TP in Hw. rewrite Es in Hw. destruct k as [|f k']; [contradiction|].
      pose proof (Hown x Hx) as Ho. unfold owner_TP in Ho. rewrite Es, Hnm in Ho. cbn [forallb] in Ho. apply andb_true_iff in Ho. destruct Ho as [Hof _].
      cbn [estack existsb] in E2. apply orb_false_iff in E2. destruct E2 as [E2 _].
      destruct f; try discriminate Hof; try discriminate E2; destruct w as [c|nw|g]; try contradiction; try (exact (Sng x g _ Hx Es)); try (exfalso; cbn in Hw; repeat match type of Hw with context [match ?b with _ => _ end] => destruct b end; contradiction). }
    (* the launcher *)
    unfold names in Hrun. apply in_map_iff in Hrun. destruct Hrun as [xl [Hnl Hxl]].
    destruct (allT_In _ _ _ xl HA Hxl) as (_ & _ & _ & R4 & _). cbn [estate ident fst snd] in R4. destruct (R4 Hnl) as [r [Hr0 Hor]].
    assert (Hall : r = [] -> False).
    { intros ->. rewrite app_nil_r in Hor. rewrite Hor in Hout. apply node_names_in in Hout. unfold names in Hout. apply in_map_iff in Hout.
      destruct Hout as [xo [Hno Hxo]]. rewrite (X xo out Hxo Hno) in Wout. discriminate Wout. }
    destruct (t_state xl) as [k s|w k|rr] eqn:Es.
    - exact (Snr xl k s Hxl Es).
    - pose proof (Hwk xl Hxl) as Hw. unfold wk_TP in Hw. rewrite Es in Hw.
      destruct k as [|f k0]; [discriminate Hr0|]. destruct f; try discriminate Hr0; destruct k0; try discriminate Hr0; cbn [rest_of] in Hr0; inversion Hr0; subst r.
      + destruct w as [c|nw|g]; contradiction.
      + destruct rest as [|n r']; [destruct w as [c|nw|g]; try contradiction; destruct c; contradiction|].
        destruct w as [c|nw|g]; try contradiction. destruct c as [|n0]; try contradiction. cbn in Hw. subst n0.
        destruct (allT_In _ _ _ xl HW Hxl) as (W1 & _ & _). cbn [estate ident fst snd] in W1. rewrite Es in W1.
        destruct (W1 Hnl n d r' locals eq_refl) as [p [Hp Hfp]].
        pose proof (Htopo n p _ _ Hor Hp) as Hpn. apply node_names_in in Hpn. unfold names in Hpn. apply in_map_iff in Hpn.
        destruct Hpn as [xp [Hnp Hxp]]. pose proof (X xp p Hxp Hnp) as Hep. unfold fin in Hfp. rewrite Hep, (Wall p Hep) in Hfp. discriminate Hfp.
      + apply Hall. reflexivity.
    - destruct rr; try discriminate Hr0. cbn in Hr0. inversion Hr0. apply Hall. symmetry. assumption.
  Qed.
End NoDeadlock.

(* ---- a decidable form of the hypotheses on the two library orders, for concrete programs -------------------------------------- *)
Fixpoint nodupb (l : list key) : bool := match l with [] => true | x :: r => negb (mem key_eqb x r) && nodupb r end.
Lemma nodupb_sound l : nodupb l = true -> NoDup l.
Proof.
  induction l as [|x r IH]; intros H; [constructor|]. cbn in H. apply andb_true_iff in H. destruct H as [H1 H2]. constructor; [|apply IH; exact H2].
  intros Hin. apply (mem_true_iff key_eqb key_eqb_spec) in Hin. rewrite Hin in H1. discriminate H1.
Qed.

Fixpoint preds_before (g : graph) (seen l : list key) : bool :=
  match l with
  | [] => true
  | n :: r => forallb (fun p => mem key_eqb p seen) (preds g n) && preds_before g (seen ++ [n]) r
  end.
Lemma preds_before_sound g l : forall seen, preds_before g seen l = true ->
  forall n p a b, l = a ++ n :: b -> In p (preds g n) -> In p (seen ++ a).
Proof.
  induction l as [|m r IH]; intros seen H n p a b E Hp; [destruct a; discriminate E|].
  cbn in H. apply andb_true_iff in H. destruct H as [H1 H2]. destruct a as [|a0 a'].
  - cbn in E. inversion E; subst. rewrite app_nil_r. rewrite forallb_forall in H1. apply (mem_true_iff key_eqb key_eqb_spec). apply H1. exact Hp.
  - cbn in E. inversion E; subst. pose proof (IH _ H2 n p a' b eq_refl Hp) as Hin. rewrite <- app_assoc in Hin. exact Hin.
Qed.

Definition succ_ok (P : prog) (g : graph) : bool :=
  forallb (fun e => negb (mem key_eqb (fst (fst e)) (preds g (snd (fst e)))) || mem key_eqb (snd (fst e)) (p_succ_order P (fst (fst e)))) (g_edges g).

Lemma preds_edge g n p : In p (preds g n) -> exists a, In ((p, n), a) (g_edges g).
Proof.
  unfold preds, preds_e. intros H. apply in_map_iff in H. destruct H as [[u a] [Hu H]]. cbn in Hu. subst u.
  apply in_flat_map in H. destruct H as [u [_ H]].
  destruct (alookup edge_eqb (u, n) (g_edges g)) as [a'|] eqn:E; [|contradiction]. destruct H as [H|[]]. inversion H; subst.
  exists a. clear H. induction (g_edges g) as [|[[u' k'] a2] r IH]; cbn in E; [discriminate|].
  destruct (edge_eqb (p, n) (u', k')) eqn:Ee.
  - inversion E; subst. unfold edge_eqb in Ee. cbn in Ee. apply andb_true_iff in Ee. destruct Ee as [E1 E2].
    apply key_eqb_spec in E1. apply key_eqb_spec in E2. subst. left. reflexivity.
  - right. apply IH. exact E.
Qed.

Lemma succ_ok_sound P g : succ_ok P g = true -> forall n p, In p (preds g n) -> In n (p_succ_order P p).
Proof.
  intros H n p Hp. destruct (preds_edge g n p Hp) as [a Ha]. unfold succ_ok in H. rewrite forallb_forall in H. specialize (H _ Ha). cbn in H.
  apply orb_true_iff in H. destruct H as [H|H].
  - apply negb_true_iff in H. apply (mem_true_iff key_eqb key_eqb_spec) in Hp. congruence.
  - apply (mem_true_iff key_eqb key_eqb_spec). exact H.
Qed.

Definition valid_orders (P : prog) : Prop :=
  let g := b_graph (build (p_decls P) (p_inp P) (p_out P)) in
  let order := p_order P (maind P) in
  NoDup order /\ In (b_output (build (p_decls P) (p_inp P) (p_out P))) order /\
  (forall n p a b, order = a ++ n :: b -> In p (preds g n) -> In p a) /\
  (forall n p, In p (preds g n) -> In n (p_succ_order P p)).

Definition valid_orders_b (P : prog) : bool :=
  let g := b_graph (build (p_decls P) (p_inp P) (p_out P)) in
  let order := p_order P (maind P) in
  nodupb order && mem key_eqb (b_output (build (p_decls P) (p_inp P) (p_out P))) order && preds_before g [] order && succ_ok P g.

Lemma valid_orders_b_sound P : valid_orders_b P = true -> valid_orders P.
Proof.
  unfold valid_orders_b, valid_orders. intros H. apply andb_true_iff in H. destruct H as [H H4]. apply andb_true_iff in H. destruct H as [H H3].
  apply andb_true_iff in H. destruct H as [H1 H2].
  split; [apply nodupb_sound; exact H1|]. split; [apply (mem_true_iff key_eqb key_eqb_spec); exact H2|].
  split; [intros n p a b E Hp; exact (preds_before_sound _ _ [] H3 n p a b E Hp)|apply succ_ok_sound; exact H4].
Qed.

Theorem plain_programs_never_deadlock P :
  plain_prog P -> valid_orders P -> forall st, reachable P st -> deadlocked st = false.
Proof.
  intros (Hg & Hb & _) (V1 & V2 & V3 & V4). destruct (graph_plain_sound _ Hg) as [Hsw Hhd].
  exact (plain_no_deadlock P Hsw Hhd Hb V1 V2 V3 V4).
Qed.
