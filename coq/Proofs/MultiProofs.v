(* C07 / C08: in any interleaving of k runs of one chart, run #j is exactly the single run under the induced schedule. *)
From MLPE Require Import Engine.Multi.

Section MultiProofs.
  Variable P : prog.

  Lemma nth_upd_same {A} (l : list A) j f d : j < length l -> nth j (upd_nth l j f) d = f (nth j l d).
  Proof. revert j; induction l as [|x r IH]; intros [|j] H; cbn in *; try lia; [reflexivity|]. apply IH. lia. Qed.

  Lemma nth_upd_other {A} (l : list A) i j f d : i <> j -> nth i (upd_nth l j f) d = nth i l d.
  Proof.
    revert i j; induction l as [|x r IH]; intros i j H; cbn.
    - destruct j; destruct i; reflexivity.
    - destruct j; destruct i; cbn; try reflexivity; [contradiction|]. apply IH. lia.
  Qed.

  Lemma upd_nth_length {A} (l : list A) j f : length (upd_nth l j f) = length l.
  Proof. revert j; induction l as [|x r IH]; intros [|j]; cbn; auto. Qed.

  Lemma fold_projection sched rs j :
    j < length rs ->
    nth j (fold_left (fun rs a => mapply P a rs) sched rs) (init_state)
    = fold_left (fun s a => apply_action P a s) (induced j sched) (nth j rs (init_state)).
  Proof.
    revert rs. induction sched as [|[i a] r IH]; intros rs Hj; cbn [fold_left induced flat_map fst snd]; [reflexivity|].
    rewrite IH by (unfold mapply; rewrite upd_nth_length; exact Hj). unfold mapply. cbn [fst snd].
    destruct (Nat.eqb i j) eqn:E.
    - apply Nat.eqb_eq in E. subst i. rewrite nth_upd_same by exact Hj. cbn [app fold_left]. reflexivity.
    - apply Nat.eqb_neq in E. rewrite nth_upd_other by congruence. reflexivity.
  Qed.

  (* each of k overlapping (or consecutive) runs is the run of a fresh chart under the schedule induced on it: what the
     other runs do -- including failing or being cancelled -- does not appear in it *)
  Theorem run_projection k sched j :
    j < k -> nth j (mrun P k sched) (init_state) = run_sched P (induced j sched).
  Proof.
    intros Hj. unfold mrun, run_sched. rewrite fold_projection by (rewrite repeat_length; exact Hj).
    f_equal. apply nth_repeat.
  Qed.

  Corollary run_in_a_crowd_is_reachable k sched j : j < k -> reachable P (nth j (mrun P k sched) (init_state)).
  Proof. intros Hj. rewrite run_projection by exact Hj. apply run_sched_reachable. Qed.
End MultiProofs.
