(* C18: the file store refines a write-once map keyed exactly by (context, node id), for every operation sequence. *)
From Coq Require Import String Ascii.
From MLPE Require Import Base.Util gen.Tables Pure.FsStore Proofs.AssocLemmas.
Local Open Scope list_scope.

Lemma str_eqb_spec a b : str_eqb a b = true <-> a = b.
Proof.
  revert b; induction a as [|x a IH]; intros [|y b]; simpl; try (split; [discriminate|congruence]); [tauto|].
  rewrite andb_true_iff, Nat.eqb_eq, IH. split; [intros [-> ->]; reflexivity|intros H; inversion H; auto].
Qed.

Lemma path_eqb_spec a b : path_eqb a b = true <-> a = b.
Proof.
  destruct a as [c s], b as [c' s']. unfold path_eqb. simpl.
  rewrite andb_true_iff, Nat.eqb_eq, str_eqb_spec. split; [intros [-> ->]; reflexivity|intros H; inversion H; auto].
Qed.

(* facts about the regenerated table: the extensions are non-empty, distinct and contain no dot *)
Definition no_dot (s : str) : bool := forallb (fun c => negb (Nat.eqb c dot)) s.
Lemma exts_ok : forallb (fun f => no_dot (ext f) && negb (str_eqb (ext f) [])) all_fmts = true
                /\ str_eqb (ext FPickle) (ext FJson) = false.
Proof. split; vm_compute; reflexivity. Qed.

Lemma ext_no_dot f : no_dot (ext f) = true.
Proof. destruct f; vm_compute; reflexivity. Qed.

Lemma ext_inj f f' : ext f = ext f' -> f = f'.
Proof. destruct f, f'; try reflexivity; intros E; vm_compute in E; discriminate. Qed.

Lemma after_last_dot_nodot e acc : no_dot e = true -> after_last_dot e acc = acc.
Proof.
  revert acc; induction e as [|c e IH]; intros acc H; simpl; [reflexivity|].
  simpl in H. rewrite andb_true_iff in H. destruct H as [Hc He].
  destruct (Nat.eqb c dot); [discriminate|]. apply IH. exact He.
Qed.

Lemma after_last_dot_app i e acc : no_dot e = true -> after_last_dot (i ++ dot :: e) acc = Some e.
Proof.
  revert acc; induction i as [|c i IH]; intros acc H; simpl.
  - rewrite ?Nat.eqb_refl. apply after_last_dot_nodot. exact H.
  - destruct (Nat.eqb c dot); apply IH; exact H.
Qed.

Lemma suffix_of_fname i f : after_last_dot (fname i f) None = Some (ext f).
Proof. apply after_last_dot_app. apply ext_no_dot. Qed.

(* distinct keys never alias: the file name determines the node id and the format *)
Lemma fname_inj i f i' f' : fname i f = fname i' f' -> i = i' /\ f = f'.
Proof.
  intros E. assert (Ee : ext f = ext f').
  { pose proof (suffix_of_fname i f) as A. pose proof (suffix_of_fname i' f') as B. rewrite E in A. congruence. }
  split; [|apply ext_inj; exact Ee].
  unfold fname in E. rewrite Ee in E. apply app_inv_tail in E. exact E.
Qed.

Lemma fmt_of_ext_ext f : fmt_of_ext (ext f) = Some f.
Proof. destruct f; vm_compute; reflexivity. Qed.

Notation flook := (@alookup path _ path_eqb).

(* abstraction relation *)
Definition Rel (d : fs) (m : amap) : Prop :=
  forall ctx i,
    match flook (ctx, i) m with
    | Some v => exists f, flook (ctx, fname i f) d = Some (f, v) /\ dump f v = Some (f, v)
                          /\ forall f', f' <> f -> flook (ctx, fname i f') d = None
    | None => forall f, flook (ctx, fname i f) d = None
    end.

Lemma fmt_cases (P : fmt -> Prop) : P FPickle -> P FJson -> forall f, P f.
Proof. intros A B []; assumption. Qed.

Lemma candidates_none d m ctx i : Rel d m -> flook (ctx, i) m = None -> candidates d ctx i = [].
Proof.
  intros HR Hm. specialize (HR ctx i). rewrite Hm in HR. unfold candidates, all_fmts. simpl.
  rewrite (HR FPickle), (HR FJson). reflexivity.
Qed.

Lemma candidates_some d m ctx i v :
  Rel d m -> flook (ctx, i) m = Some v ->
  exists f, candidates d ctx i = [(ctx, fname i f)] /\ flook (ctx, fname i f) d = Some (f, v).
Proof.
  intros HR Hm. specialize (HR ctx i). rewrite Hm in HR. destruct HR as [f [Hf [_ Ho]]].
  exists f. split; [|exact Hf]. unfold candidates, all_fmts. simpl.
  destruct f.
  - rewrite Hf. rewrite (Ho FJson) by discriminate. reflexivity.
  - rewrite (Ho FPickle) by discriminate. rewrite Hf. reflexivity.
Qed.

Lemma dump_shape f v c : dump f v = Some c -> c = (f, v).
Proof. destruct v, f; simpl; intros H; inversion H; reflexivity. Qed.

Lemma key_neq_path (ctx : nat) (i : str) f (ctx' : nat) (i' : str) f' :
  (ctx, i) <> (ctx', i') -> (ctx', fname i' f') <> (ctx, fname i f).
Proof. intros H E. inversion E as [[Ec En]]. apply fname_inj in En. destruct En. subst. apply H. reflexivity. Qed.

(* one step: same result, relation preserved *)
Lemma step_refines d m o :
  Rel d m -> snd (step d o) = snd (astep m o) /\ Rel (fst (step d o)) (fst (astep m o)).
Proof.
  intros HR. destruct o as [ctx i f v | ctx i]; simpl.
  - destruct (flook (ctx, i) m) as [v0|] eqn:Hm.
    + destruct (candidates_some d m ctx i v0 HR Hm) as [f0 [Hc _]]. rewrite Hc. simpl. split; [reflexivity|exact HR].
    + rewrite (candidates_none d m ctx i HR Hm).
      destruct (dump f v) as [c|] eqn:Hd; simpl.
      * split; [reflexivity|]. pose proof (dump_shape _ _ _ Hd) as ->.
        intros ctx' i'. destruct (path_eqb (ctx', i') (ctx, i)) eqn:Ek.
        -- apply path_eqb_spec in Ek. inversion Ek; subst ctx' i'.
           rewrite (alookup_aset_same path_eqb path_eqb_spec). exists f.
           split; [apply (alookup_aset_same path_eqb path_eqb_spec)|]. split; [exact Hd|].
           intros f' Hf'. rewrite (alookup_aset_other path_eqb path_eqb_spec).
           ++ specialize (HR ctx i). rewrite Hm in HR. apply HR.
           ++ intros E. inversion E as [En]. apply fname_inj in En. destruct En. contradiction.
        -- assert (Hne : (ctx', i') <> (ctx, i)) by (intros E; rewrite (proj2 (path_eqb_spec _ _) E) in Ek; discriminate).
           rewrite (alookup_aset_other path_eqb path_eqb_spec) by exact Hne.
           specialize (HR ctx' i'). destruct (flook (ctx', i') m) as [v'|].
           ++ destruct HR as [f1 [A [B C]]]. exists f1. split; [|split; [exact B|]].
              ** rewrite (alookup_aset_other path_eqb path_eqb_spec); [exact A|]. apply key_neq_path. congruence.
              ** intros f' Hf'. rewrite (alookup_aset_other path_eqb path_eqb_spec); [apply C; exact Hf'|].
                 apply key_neq_path. congruence.
           ++ intros f'. rewrite (alookup_aset_other path_eqb path_eqb_spec); [apply HR|]. apply key_neq_path. congruence.
      * (* a failed save leaves no trace: the abstract map is unchanged *)
        split; [reflexivity|]. intros ctx' i'. destruct (path_eqb (ctx', i') (ctx, i)) eqn:Ek.
        -- apply path_eqb_spec in Ek. inversion Ek; subst ctx' i'. rewrite Hm. intros f'.
           destruct (fmt_eqb f' f) eqn:Ef.
           ++ assert (f' = f) by (destruct f', f; simpl in Ef; congruence). subst f'.
              apply (alookup_aremove_same path_eqb).
           ++ rewrite (alookup_aremove_other path_eqb path_eqb_spec).
              ** specialize (HR ctx i). rewrite Hm in HR. apply HR.
              ** intros E. inversion E as [En]. apply fname_inj in En. destruct En as [_ ->].
                 destruct f; simpl in Ef; discriminate.
        -- assert (Hne : (ctx', i') <> (ctx, i)) by (intros E; rewrite (proj2 (path_eqb_spec _ _) E) in Ek; discriminate).
           specialize (HR ctx' i'). destruct (flook (ctx', i') m) as [v'|].
           ++ destruct HR as [f1 [A [B C]]]. exists f1. split; [|split; [exact B|]].
              ** rewrite (alookup_aremove_other path_eqb path_eqb_spec); [exact A|]. apply key_neq_path. congruence.
              ** intros f' Hf'. rewrite (alookup_aremove_other path_eqb path_eqb_spec); [apply C; exact Hf'|].
                 apply key_neq_path. congruence.
           ++ intros f'. rewrite (alookup_aremove_other path_eqb path_eqb_spec); [apply HR|]. apply key_neq_path. congruence.
  - destruct (flook (ctx, i) m) as [v0|] eqn:Hm.
    + destruct (candidates_some d m ctx i v0 HR Hm) as [f0 [Hc Hf]]. rewrite Hc. simpl. rewrite Hf.
      rewrite suffix_of_fname, fmt_of_ext_ext. unfold undump. simpl.
      replace (fmt_eqb f0 f0) with true by (destruct f0; reflexivity). split; [reflexivity|exact HR].
    + rewrite (candidates_none d m ctx i HR Hm). simpl. split; [reflexivity|exact HR].
Qed.

Lemma rel_empty : Rel [] [].
Proof. intros ctx i. simpl. intros f. reflexivity. Qed.

(* every operation sequence from any related pair *)
Theorem fsstore_refines_map ops : forall d m,
    Rel d m -> snd (run_ops step d ops) = snd (run_ops astep m ops)
               /\ Rel (fst (run_ops step d ops)) (fst (run_ops astep m ops)).
Proof.
  induction ops as [|o r IH]; intros d m HR; simpl; [split; [reflexivity|exact HR]|].
  destruct (step_refines d m o HR) as [Hres Hrel].
  destruct (step d o) as [d1 x] eqn:Es. destruct (astep m o) as [m1 y] eqn:Ea. simpl in *.
  destruct (IH d1 m1 Hrel) as [H1 H2].
  destruct (run_ops step d1 r) as [d2 xs]. destruct (run_ops astep m1 r) as [m2 ys]. simpl in *.
  split; [congruence|exact H2].
Qed.
