(* Plain programs, every schedule, while manager.run is pending: a node's body is invoked at most `attempts` times in total
   (C12 / C04): the number of body invocations of node i in the history equals the number of attempts the retry loop of its
   (only) execution has made, and never exceeds the configured number of attempts. *)
From MLPE Require Import Engine.Run Pure.Retry Proofs.ExecLemmas Proofs.Evolve Proofs.StackInv Proofs.ReadyInv Proofs.WaitInv Explore.StateEq
     Proofs.ProcessedInv Proofs.PlainWorld Proofs.PlainLaunch Proofs.PlainLive Proofs.Micro Proofs.PlainBase Proofs.PlainCore Proofs.PlainInv
     Proofs.PlainRoles Proofs.PlainExec Proofs.PlainArgs Proofs.PlainEvents Proofs.PlainPipe Proofs.PipeAll Proofs.RetryAll Proofs.AssocLemmas.
Require Import Lia ZArith.

Definition is_start_of (i : nat) (o : obs) : bool := match o with OStart j _ _ => Nat.eqb j i | _ => false end.
Definition starts (i : nat) (tr : list obs) : nat := cnt (is_start_of i) tr.

Lemma starts_no_ostart i new : forallb (fun o => negb (is_ostart o)) new = true -> starts i new = 0.
Proof.
  unfold starts. induction new as [|x r IH]; [reflexivity|]. cbn [forallb]. intros H. apply andb_true_iff in H. destruct H as [Hx Hr].
  rewrite cnt_cons, (IH Hr). destruct x; try reflexivity. discriminate Hx.
Qed.

(* number of invocations the loop of this execution has made when it is at frame f *)
Definition made (f : frame) : option (nat * nat) :=
  match f with
  | FRetry i _ _ att => Some (i, att - 1)
  | FRetryAfterBody i _ att | FRetryAfterEmit i _ att | FRetryAfterSleep i _ att => Some (i, att)
  | _ => None
  end.
Definition is_pre (f : frame) : bool := match f with FNodeStart _ _ _ | FExecStart _ _ _ | FExecAfterStart _ _ _ => true | _ => false end.
Definition invokes (fr : frame) (sg : signal) : bool := match fr, sg with FRetry _ false _ _, SGo => true | _, _ => false end.
Definition delta (fr : frame) (sg : signal) : nat := if invokes fr sg then 1 else 0.

Section CountSteps.
  Variable P : prog.
  Notation G := (b_graph (build (p_decls P) (p_inp P) (p_out P))).
  Hypothesis Hsw : forall n, is_switch G n = false.
  Hypothesis Hhd : forall n, is_head G n = false.
  Hypothesis Hbody : forall i kw a v, p_body P i kw a = OVal v -> clean v = true.

  Ltac plain_prep15 :=
    repeat match goal with
           | H : (_ && _)%bool = true |- _ => apply andb_true_iff in H; destruct H
           | H : is_main P ?d = true |- _ => apply is_main_eq in H; subst d
           | H : negb ?f = true |- _ => apply negb_true_iff in H; subst f
           | H : ?u = true |- _ => is_var u; subst u
           end.

  (* where the frames of the retry loop come from, and how many invocations they stand for *)
  Lemma plain_step_made t fr sg st f i q :
    plain_frame P fr = true -> clean_sig sg -> PS st ->
    (forall j f0 kw att, fr = FRetry j f0 kw att -> 1 <= att) ->
    In f (dir_frames (snd (step_frame P t fr sg st))) -> made f = Some (i, q) ->
    (exists d n fc, fr = FExecAfterStart d n fc /\ i = real_index n /\ q = 0) \/
    (exists q', made fr = Some (i, q') /\ q = q' + delta fr sg).
  Proof.
    intros Hf Hs Hst Hge. pose proof Hst as Hst'. unfold PS in Hst'.
    destruct fr; try discriminate Hf; cbn [plain_frame] in Hf; plain_prep15;
      destruct sg; cbn [clean_sig] in Hs;
      try match goal with H : clean ?v = true |- _ => pose proof (clean_not_rec v H) as Hnr; pose proof (clean_not_exn v H) as Hne end;
      cbn [step_frame]; rewrite ?Hnr, ?Hne, ?Hsw, ?Hhd, ?(plain_dep_error P _ _ _ Hst'), ?(plain_no_subgraph_error _ _ Hst');
      unfold default_or_raise, reduced; cbn [d_oneof d_rec maind andb];
      repeat break_match; unfold emit_frames; cbn [snd dir_frames]; intros Hin Hr;
      repeat (destruct Hin as [Hin|Hin]; [subst f; cbn [made] in Hr; try discriminate Hr; inversion Hr; subst|]); try contradiction.
    all: try (left; do 3 eexists; repeat split; reflexivity).
    all: right; cbn [made delta invokes]; eexists; split; [reflexivity|].
    all: try lia.
    all: match goal with |- ?q = _ => pose proof (Hge _ _ _ _ eq_refl); lia end.
  Qed.

  (* the frames before the loop come from frames before the loop *)
  Lemma plain_step_pre t fr sg st f :
    plain_frame P fr = true -> clean_sig sg -> PS st ->
    In f (dir_frames (snd (step_frame P t fr sg st))) -> is_pre f = true -> is_pre fr = true.
  Proof.
    intros Hf Hs Hst. pose proof Hst as Hst'. unfold PS in Hst'.
    destruct fr; try discriminate Hf; cbn [plain_frame] in Hf; plain_prep15;
      destruct sg; cbn [clean_sig] in Hs;
      try match goal with H : clean ?v = true |- _ => pose proof (clean_not_rec v H) as Hnr; pose proof (clean_not_exn v H) as Hne end;
      cbn [step_frame]; rewrite ?Hnr, ?Hne, ?Hsw, ?Hhd, ?(plain_dep_error P _ _ _ Hst'), ?(plain_no_subgraph_error _ _ Hst');
      unfold default_or_raise, reduced; cbn [d_oneof d_rec maind andb];
      repeat break_match; unfold emit_frames; cbn [snd dir_frames]; intros Hin Hr;
      repeat (destruct Hin as [Hin|Hin]; [subst f; cbn [is_pre] in Hr; try discriminate Hr; reflexivity|]); try contradiction.
  Qed.

  (* how the number of invocations in the history changes *)
  Lemma plain_step_starts t fr sg st j :
    plain_frame P fr = true -> clean_sig sg -> PS st ->
    starts j (st_trace (fst (step_frame P t fr sg st))) =
    starts j (st_trace st) + (match fr with FRetry i _ _ _ => if Nat.eqb i j then delta fr sg else 0 | _ => 0 end) /\
    (delta fr sg = 1 -> exists i kw att, fr = FRetry i false kw att).
  Proof.
    intros Hf Hs Hst. split.
    - destruct (plain_step_trace_ostart P t fr sg st Hf Hs Hst) as [[i [kw [att (-> & -> & Etr)]]]|[new [Etr Hnew]]].
      + rewrite Etr. unfold starts. rewrite cnt_cons. cbn [is_start_of delta invokes]. destruct (Nat.eqb i j); lia.
      + rewrite Etr. unfold starts. rewrite cnt_app. fold (starts j new). rewrite (starts_no_ostart j new Hnew).
        assert (Hd : delta fr sg = 0 \/ exists i kw att, fr = FRetry i false kw att /\ sg = SGo).
        { unfold delta, invokes. destruct fr; auto. destruct force; auto. destruct sg; auto. right. eauto. }
        destruct Hd as [Hd|[i [kw [att [-> ->]]]]].
        * destruct fr; try lia. rewrite Hd. destruct (Nat.eqb i j); lia.
        * exfalso. (* this frame does invoke: the history grew by an invocation *)
          cbn [step_frame] in Etr. destruct (ns_mode (nspec_of P i)); cbn [fst st_trace bump emit_obs] in Etr;
            (assert (Hin : In (OStart i (ctr_get (CBody i) st) kw) (new ++ st_trace st)) by (rewrite <- Etr; left; reflexivity);
             assert (Hl : length (OStart i (ctr_get (CBody i) st) kw :: st_trace st) = length (new ++ st_trace st)) by (rewrite Etr; reflexivity);
             rewrite app_length in Hl; cbn [length] in Hl; destruct new as [|o [|o2 r]]; cbn [length] in Hl; try lia;
             cbn [app] in Etr; inversion Etr; subst o; cbn in Hnew; discriminate Hnew).
    - unfold delta, invokes. destruct fr; try discriminate. destruct force; try discriminate. destruct sg; try discriminate. intros _. eauto.
  Qed.
End CountSteps.

Fixpoint count_made (k : list frame) : nat :=
  match k with [] => 0 | f :: r => (match made f with Some _ => 1 | None => 0 end) + count_made r end.
Lemma count_made_app a b : count_made (a ++ b) = count_made a + count_made b.
Proof. induction a as [|f r IH]; [reflexivity|]. cbn [app count_made]. rewrite IH. lia. Qed.
Lemma count_made_zero k f : count_made k = 0 -> In f k -> made f = None.
Proof.
  induction k as [|g r IH]; [contradiction|]. cbn [count_made]. intros H [<-|Hin]; [destruct (made g); [lia|reflexivity]|].
  apply IH; [destruct (made g); lia|exact Hin].
Qed.

Section CountShape.
  Variable P : prog.
  Notation G := (b_graph (build (p_decls P) (p_inp P) (p_out P))).
  Hypothesis Hsw : forall n, is_switch G n = false.
  Hypothesis Hhd : forall n, is_head G n = false.

  (* a step leaves at most one frame of the retry loop, and only in place of one or of the frame that enters the loop *)
  Lemma plain_step_made_count t fr sg st :
    plain_frame P fr = true -> clean_sig sg -> PS st ->
    count_made (dir_frames (snd (step_frame P t fr sg st))) <=
    (match made fr with Some _ => 1 | None => match fr with FExecAfterStart _ _ _ => 1 | _ => 0 end end).
  Proof.
    intros Hf Hs Hst. pose proof Hst as Hst'. unfold PS in Hst'.
    destruct fr; try discriminate Hf; cbn [plain_frame] in Hf;
      repeat match goal with
             | H : (_ && _)%bool = true |- _ => apply andb_true_iff in H; destruct H
             | H : is_main P ?d = true |- _ => apply is_main_eq in H; subst d
             | H : negb ?f = true |- _ => apply negb_true_iff in H; subst f
             | H : ?u = true |- _ => is_var u; subst u
             end;
      destruct sg; cbn [clean_sig] in Hs;
      try match goal with H : clean ?v = true |- _ => pose proof (clean_not_rec v H) as Hnr; pose proof (clean_not_exn v H) as Hne end;
      cbn [step_frame made]; rewrite ?Hnr, ?Hne, ?Hsw, ?Hhd, ?(plain_dep_error P _ _ _ Hst'), ?(plain_no_subgraph_error _ _ Hst');
      unfold default_or_raise, reduced; cbn [d_oneof d_rec maind andb];
      repeat break_match; unfold emit_frames; cbn [snd dir_frames count_made made]; lia.
  Qed.
End CountShape.

Section CountInv.
  Variable P : prog.
  Notation G := (b_graph (build (p_decls P) (p_inp P) (p_out P))).
  Hypothesis Hsw : forall n, is_switch G n = false.
  Hypothesis Hhd : forall n, is_head G n = false.
  Hypothesis Hbody : forall i kw a v, p_body P i kw a = OVal v -> clean v = true.
  Notation order := (p_order P (maind P)).
  Hypothesis Hnd : NoDup order.
  Hypothesis Hatt : forall i, (1 <= pol_attempts (nspec_of P i))%Z.
  Hypothesis HKN : forall n, In n order -> n = KN (real_index n).

  Definition A (i : nat) : nat := Z.to_nat (pol_attempts (nspec_of P i)).

  Definition PhiC (st : mstate) (i : idt) (ts : tstate frame) : Prop :=
    forall m, snd (fst i) = TNNode m ->
      let c := starts (real_index m) (st_trace st) in
      (forall f j q, In f (estack ts) -> made f = Some (j, q) -> j = real_index m /\ c = q) /\
      (existsb is_pre (estack ts) = true -> c = 0 /\ count_made (estack ts) = 0) /\
      count_made (estack ts) <= 1 /\
      c <= A (real_index m).

  Definition globC (st : mstate) : Prop :=
    forall i, (forall n, In n (node_names st) -> real_index n <> i) -> starts i (st_trace st) = 0.

  Definition countI (st : mstate) (c : running) : Prop := guard st \/ (globC st /\ allT (PhiC st) st c).

  Lemma PhiC_wake st : wake_closed (PhiC st).
  Proof. intros i w k H m Hm. exact (H m Hm). Qed.
  Lemma PhiC_ext st st' i ts : st_trace st' = st_trace st -> PhiC st i ts -> PhiC st' i ts.
  Proof. unfold PhiC. intros ->. auto. Qed.
  Lemma allT_extC st0 st1 st c : st_trace st1 = st_trace st0 -> allT (PhiC st0) st c -> allT (PhiC st1) st c.
  Proof. intros E. apply allT_impl. intros x _. apply PhiC_ext. exact E. Qed.
  Lemma globC_ext st st' : names st' = names st -> st_trace st' = st_trace st -> globC st -> globC st'.
  Proof. unfold globC, node_names. intros -> ->. auto. Qed.

  Lemma owner_retry m i f0 kw att : owner (TNNode m) (FRetry i f0 kw att) = true -> i = real_index m.
  Proof. cbn. intros H. apply Nat.eqb_eq in H. exact H. Qed.
  Lemma owner_after_start m d n fc : owner (TNNode m) (FExecAfterStart d n fc) = true -> n = m.
  Proof. cbn. intros H. apply key_eqb_spec in H. exact H. Qed.

  Lemma roles_in_order st c m : globR st -> allT (PhiR P st) st c -> In m (node_names st) -> In m order.
  Proof.
    intros (_ & _ & G3) HA Hm.
    destruct (existsb is_run_name (names st)) eqn:E.
    - apply existsb_exists in E. destruct E as [nm [Hin Hn]]. destruct nm; try discriminate Hn.
      unfold names in Hin. apply in_map_iff in Hin. destruct Hin as [x [Hnm Hx]].
      destruct (allT_In _ _ _ x HA Hx) as (_ & _ & _ & D & _). cbn [ident fst snd] in D. destruct (D Hnm) as [r [_ Ho]].
      rewrite Ho. apply in_or_app. left. exact Hm.
    - assert (Hno : ~ In TNRun (names st)).
      { intros Hin. assert (existsb is_run_name (names st) = true) by (apply existsb_exists; exists TNRun; auto). congruence. }
      rewrite (G3 Hno) in Hm. contradiction.
  Qed.

  Lemma idx_inj m m' : In m order -> In m' order -> real_index m = real_index m' -> m = m'.
  Proof. intros H H' E. rewrite (HKN m H), (HKN m' H'), E. reflexivity. Qed.

  Lemma countA_step st t fr rest sg :
    base P st (Some (t, fr :: rest, sg)) ->
    globR st -> allT (PhiR P st) st (Some (t, fr :: rest, sg)) ->
    NoDup (node_names (fst (step_frame P t fr sg st))) ->
    (forall m, In m (node_names (fst (step_frame P t fr sg st))) -> In m order) ->
    stack_att P (fr :: rest) ->
    globC st -> allT (PhiC st) st (Some (t, fr :: rest, sg)) ->
    leaves_run fr sg (snd (step_frame P t fr sg st)) = false ->
    globC (fst (step_frame P t fr sg st)) /\
    allT (PhiC (fst (step_frame P t fr sg st)))
         (fst (after_step t rest (step_frame P t fr sg st))) (snd (after_step t rest (step_frame P t fr sg st))).
  Proof.
    intros Hb HG HA Hnd1 Hord1 Hatt0 GC HC Hlr.
    destruct (b_cur _ _ _ Hb) as [x0 [Hf0 [Hk [Hs [Ho [Hc _]]]]]].
    cbn [plain_stack forallb] in Hk, Ho. apply andb_true_iff in Hk. destruct Hk as [Kf Kr]. apply andb_true_iff in Ho. destruct Ho as [Of Or].
    pose proof (b_ps _ _ _ Hb) as Hps.
    destruct (find_task_in _ _ _ Hf0) as [Hin0 Hid0].
    pose proof (allT_In _ _ _ x0 HC Hin0) as Hw0. unfold PhiC in Hw0. cbn [estate ident fst snd] in Hw0. rewrite Hid0, Nat.eqb_refl in Hw0.
    assert (Hge : forall j f0 kw att, fr = FRetry j f0 kw att -> 1 <= att).
    { intros j f0 kw att ->. specialize (Hatt0 _ (or_introl eq_refl)). unfold att_ok in Hatt0. cbn in Hatt0. apply Hatt0. }
    assert (Hnames : names (fst (step_frame P t fr sg st)) = names st ++ creates P fr sg st) by (apply plain_step_names; assumption).
    (* the step of a frame that invokes: it is the retry frame of the running node task *)
    assert (Hinv : delta fr sg = 1 -> exists m kw att, fr = FRetry (real_index m) false kw att /\ t_name x0 = TNNode m /\ In m (node_names st)
                                                     /\ starts (real_index m) (st_trace st) = att - 1 /\ att <= A (real_index m) /\ 1 <= att).
    { intros Hd. destruct (plain_step_starts P t fr sg st 0 Kf Hs Hps) as [_ Hfr]. destruct (Hfr Hd) as [i [kw [att ->]]].
      destruct (t_name x0) as [| |m| |] eqn:En; try discriminate Of. pose proof (owner_retry _ _ _ _ _ Of) as ->.
      exists m, kw, att. split; [reflexivity|]. split; [reflexivity|].
      assert (Hm : In m (node_names st)) by (apply node_names_in; unfold names; rewrite <- En; apply in_map; exact Hin0).
      split; [exact Hm|]. destruct (Hw0 m eq_refl) as (W1 & _ & _ & _).
      destruct (W1 _ (real_index m) (att - 1) (or_introl eq_refl) eq_refl) as [_ Ec]. split; [exact Ec|].
      specialize (Hatt0 _ (or_introl eq_refl)). unfold att_ok in Hatt0. cbn in Hatt0. destruct Hatt0 as [H1 H2]. split; [unfold A; lia|exact H1]. }
    assert (Hst : forall j, starts j (st_trace (fst (step_frame P t fr sg st))) =
                            starts j (st_trace st) + (match fr with FRetry i _ _ _ => if Nat.eqb i j then delta fr sg else 0 | _ => 0 end)).
    { intros j. exact (proj1 (plain_step_starts P t fr sg st j Kf Hs Hps)). }
    assert (Hd01 : delta fr sg = 0 \/ delta fr sg = 1) by (unfold delta; destruct (invokes fr sg); auto).
    split.
    - (* the global part *)
      intros i Hno. rewrite Hst.
      assert (Hno0 : forall n, In n (node_names st) -> real_index n <> i).
      { intros n Hn. apply Hno. unfold node_names in *. rewrite Hnames. rewrite flat_map_app. apply in_or_app. left. exact Hn. }
      rewrite (GC i Hno0). destruct Hd01 as [Hd|Hd].
      + destruct fr; try reflexivity. rewrite Hd. destruct (Nat.eqb i0 i); reflexivity.
      + destruct (Hinv Hd) as [m [kw [att (-> & _ & Hm & _)]]]. destruct (Nat.eqb_spec (real_index m) i) as [E|E]; [exfalso; exact (Hno0 m Hm E)|reflexivity].
    - apply (allT_step P Hsw Hhd (PhiC st)); try assumption.
      + apply PhiC_wake.
      + (* spawned tasks *)
        intros nm Hnm m Em. cbn [fst snd] in Em.
        destruct (creates_shape P fr sg st nm Hnm) as [[-> ->]|[d [n [r [l0 [-> [-> ->]]]]]]]; [discriminate Em|]. inversion Em; subst m. clear Em.
        unfold spawn_frame_of. cbn [estack existsb is_pre count_made made]. split; [intros f j q [<-|[]] Hq; discriminate Hq|].
        assert (Hc0 : starts (real_index n) (st_trace st) = 0).
        { apply GC. intros n' Hn' E.
          pose proof Hnd1 as Hnd2. unfold node_names in Hnd2. rewrite Hnames in Hnd2. rewrite flat_map_app in Hnd2.
          assert (Hcr : creates P (FDagLoop d (n :: r) l0) SGo st = [TNNode n]) by (cbn [creates] in *; destruct (is_ready P (st_store st) d n); [reflexivity|contradiction]).
          rewrite Hcr in Hnd2. cbn [flat_map app] in Hnd2.
          assert (Hord : In n order /\ In n' order).
          { split; [|exact (roles_in_order _ _ _ HG HA Hn')].
            apply Hord1. unfold node_names. rewrite Hnames, Hcr, flat_map_app. apply in_or_app. right. left. reflexivity. }
          destruct Hord as [Hon Hon']. pose proof (idx_inj n' n Hon' Hon E) as ->.
          apply NoDup_remove_2 in Hnd2. apply Hnd2. rewrite app_nil_r. exact Hn'. }
        split; [intros _; split; [exact Hc0|reflexivity]|]. split; [lia|]. rewrite Hc0. lia.
      + (* the other tasks *)
        intros y ts Hy Hne Hyp m' Em'. destruct (Hyp m' Em') as (B1 & B2 & B3 & B4). cbn zeta in *.
        assert (Hsame : starts (real_index m') (st_trace (fst (step_frame P t fr sg st))) = starts (real_index m') (st_trace st)).
        { rewrite Hst. destruct Hd01 as [Hd|Hd].
          - destruct fr; try lia. rewrite Hd. destruct (Nat.eqb i (real_index m')); lia.
          - destruct (Hinv Hd) as [m [kw [att (-> & Enm & Hm & _)]]].
            destruct (Nat.eqb (real_index m) (real_index m')) eqn:E; [|lia]. exfalso. apply Nat.eqb_eq in E.
            pose proof (ev_step_frame P t (FRetry (real_index m) false kw att) sg st) as Hev'.
            destruct (evolves_find _ _ _ _ Hev' Hf0) as [x' [Hf' [Hnm' [_ Hid']]]]. destruct (find_task_in _ _ _ Hf') as [Hin' _].
            assert (Hm' : In m' (node_names (fst (step_frame P t (FRetry (real_index m) false kw att) sg st)))).
            { apply node_names_in. unfold names. cbn [ident fst snd] in Em'. rewrite <- Em'. apply in_map. exact Hy. }
            assert (Hom : In m order) by exact (roles_in_order _ _ _ HG HA Hm).
            assert (Hom' : In m' order) by exact (Hord1 _ Hm').
            pose proof (idx_inj m m' Hom Hom' E) as ->.
            apply (node_names_unique _ y x' m' Hnd1 Hy Hin'); [rewrite Hid', Hid0; exact Hne|exact Em'|rewrite Hnm'; exact Enm]. }
        rewrite Hsame. split; [exact B1|split; [exact B2|split; [exact B3|exact B4]]].
      + (* the running task *)
        intros x Hx Hid. rewrite (run_ident P st t fr sg x0 x (b_ev _ _ _ Hb) Hf0 Hx Hid). intros m Em. cbn [ident fst snd] in Em.
        destruct (Hw0 m Em) as (W1 & W2 & W3 & W4). cbn zeta in *. cbn [estack] in W1, W2, W3. rewrite Em in Of, Or.
        pose proof (plain_step_made_count P t fr sg st Kf Hs Hps) as Hcnt.
        rewrite estack_nstate, count_made_app. cbn [count_made] in W3.
        (* the number of invocations in the history after the step *)
        assert (Hc' : starts (real_index m) (st_trace (fst (step_frame P t fr sg st))) = starts (real_index m) (st_trace st) + delta fr sg).
        { rewrite Hst. destruct Hd01 as [Hd|Hd].
          - rewrite Hd. destruct fr; try lia. destruct (Nat.eqb i (real_index m)); lia.
          - destruct (Hinv Hd) as [m2 [kw [att (-> & Enm & _)]]]. rewrite Em in Enm. inversion Enm; subst m2. rewrite Nat.eqb_refl. reflexivity. }
        assert (Hpre_fr : is_pre fr = true -> delta fr sg = 0) by (destruct fr; try discriminate; reflexivity).
        assert (Hmade_rest : delta fr sg = 1 -> count_made rest = 0).
        { intros Hd. destruct (Hinv Hd) as [m2 [kw [att (-> & _)]]]. cbn [made] in W3. lia. }
        split; [|split; [|split]].
        * intros f j q Hf Hq. apply in_app_or in Hf. destruct Hf as [Hf|Hf].
          -- destruct (plain_step_made P t fr sg st f j q Kf Hs Hps Hge Hf Hq) as [[d [n [fc (-> & -> & ->)]]]|[q' (Hq' & ->)]].
             ++ pose proof (owner_after_start _ _ _ _ Of) as ->. split; [reflexivity|]. rewrite Hc'. cbn [delta invokes].
                destruct (W2 eq_refl) as [Hc0 _]. lia.
             ++ destruct (W1 fr j q' (or_introl eq_refl) Hq') as [-> Ec]. split; [reflexivity|]. rewrite Hc'. lia.
          -- destruct (W1 f j q (or_intror Hf) Hq) as [-> Ec]. split; [reflexivity|]. rewrite Hc'.
             destruct Hd01 as [Hd|Hd]; [lia|]. exfalso. pose proof (count_made_zero rest f (Hmade_rest Hd) Hf) as Hn. congruence.
        * intros Hpre. rewrite existsb_app in Hpre. apply orb_true_iff in Hpre.
          assert (Hpre0 : existsb is_pre (fr :: rest) = true).
          { destruct Hpre as [Hpre|Hpre].
            - apply existsb_exists in Hpre. destruct Hpre as [f [Hf Hpf]]. cbn [existsb]. rewrite (plain_step_pre P t fr sg st f Kf Hs Hps Hf Hpf). reflexivity.
            - cbn [existsb]. rewrite Hpre. apply orb_true_r. }
          destruct (W2 Hpre0) as [Hc0 Hm0]. cbn [count_made] in Hm0.
          assert (Hmfr : made fr = None) by (destruct (made fr); [lia|reflexivity]).
          assert (Hd0 : delta fr sg = 0).
          { destruct Hd01 as [Hd|Hd]; [exact Hd|]. destruct (Hinv Hd) as [m2 [kw [att (-> & _)]]]. discriminate Hmfr. }
          split; [rewrite Hc'; lia|].
          rewrite Hmfr in Hcnt. assert (Hr0 : count_made rest = 0) by (destruct (made fr); lia).
          destruct fr; try lia.
          (* FExecAfterStart: it pushes the first retry frame, and is a pre frame itself: but then the new stack has no pre frame *)
          exfalso. destruct Hpre as [Hpre|Hpre].
          -- apply existsb_exists in Hpre. destruct Hpre as [f [Hf Hpf]].
             clear - Hf Hpf Kf Hs Hps Hsw Hhd. revert Hf. destruct sg; cbn [step_frame]; repeat break_match; cbn [snd dir_frames]; intros Hf;
               repeat (destruct Hf as [Hf|Hf]; [subst f; discriminate Hpf|]); try contradiction.
          -- (* a pre frame below FExecAfterStart: excluded by the call discipline *)
             apply existsb_exists in Hpre. destruct Hpre as [f [Hf Hpf]].
             destruct rest as [|g r]; [contradiction|]. cbn [chainb] in Hc. apply andb_true_iff in Hc. destruct Hc as [Hc1 Hc2].
             destruct g; try discriminate Hc1. cbn [forallb] in Or. apply andb_true_iff in Or. destruct Or as [Og Or'].
             pose proof (knode_bottom m (FNodeAfterExec d0 n0) r eq_refl Or' Hc2) as ->.
             destruct Hf as [<-|[]]. discriminate Hpf.
        * destruct (made fr) eqn:Emf; [lia|].
          destruct (is_pre fr) eqn:Epf.
          -- assert (Hp0 : existsb is_pre (fr :: rest) = true) by (cbn [existsb]; rewrite Epf; reflexivity).
             destruct (W2 Hp0) as [_ Hm0]. cbn [count_made] in Hm0. rewrite Emf in Hm0. destruct fr; lia.
          -- destruct fr; try discriminate Epf; lia.
        * rewrite Hc'. destruct Hd01 as [Hd|Hd]; [lia|]. destruct (Hinv Hd) as [m2 [kw [att (-> & Enm & _ & Ec & Ha & H1)]]].
          rewrite Em in Enm. inversion Enm; subst m2. rewrite Ec, Hd. lia.
  Qed.

  Theorem creach_counts : forall st c, creach P st c -> countI st c.
  Proof.
    intros st c H. pose proof (creach_base P Hsw Hhd Hbody st c H) as Hb0.
    induction H as [|st t rest x k sg H IH Hq Hf Ht|st t rest H IH Hq|st t fr rest sg H IH|st t sg H IH|st c H IH|st g H IH|st H IH].
    - right. split.
      + intros i _. reflexivity.
      + unfold allT, tasks_ok, init_state. cbn. constructor; [|constructor]. unfold TPc, PhiC. cbn. intros m Hm. discriminate Hm.
    - pose proof (creach_base P Hsw Hhd Hbody _ _ H) as Hb. destruct (IH Hb) as [Hg|[GC HC]]; [left; exact Hg|right].
      split; [exact GC|]. apply (allT_extC st); [reflexivity|]. eapply (allT_start P); eassumption.
    - pose proof (creach_base P Hsw Hhd Hbody _ _ H) as Hb. destruct (IH Hb) as [Hg|[GC HC]]; [left; exact Hg|right]. split; [exact GC|exact HC].
    - pose proof (creach_base P Hsw Hhd Hbody _ _ H) as Hb.
      pose proof (cr_step P st t fr rest sg H) as Hcr'.
      destruct (creach_roles P Hsw Hhd Hbody Hnd _ _ Hcr') as [Hg'|[HG' HA']]; [left; exact Hg'|].
      destruct (creach_roles P Hsw Hhd Hbody Hnd _ _ H) as [Hg|[HG HA]]; [left; apply (guard_step P); assumption|].
      destruct (IH Hb) as [Hg|[GC HC]]; [left; apply (guard_step P); assumption|].
      destruct (creach_attempts P Hatt _ _ H) as [_ Hatt0].
      destruct (b_cur _ _ _ Hb) as [x0 [Hf0 [Hk [Hs _]]]]. cbn [plain_stack forallb] in Hk. apply andb_true_iff in Hk. destruct Hk as [Kf _].
      destruct (leaves_run fr sg (snd (step_frame P t fr sg st))) eqn:Hlr.
      + left. left. rewrite over_after_step, (plain_step_over P t fr sg st Kf Hs (b_ps _ _ _ Hb)), Hlr. apply orb_true_r.
      + right.
        pose proof (roles_nodup P Hnd _ _ HG' HA') as Hnd1. unfold node_names in Hnd1. rewrite names_after_step in Hnd1. fold (node_names (fst (step_frame P t fr sg st))) in Hnd1.
        assert (Hord1 : forall m, In m (node_names (fst (step_frame P t fr sg st))) -> In m order).
        { intros m Hm. apply (roles_in_order _ _ m HG' HA'). unfold node_names in *. rewrite names_after_step. exact Hm. }
        destruct (countA_step st t fr rest sg Hb HG HA Hnd1 Hord1 Hatt0 GC HC Hlr) as [GC1 HC1].
        split.
        * apply (globC_ext (fst (step_frame P t fr sg st))); [apply names_after_step|apply trace_after_step|exact GC1].
        * apply (allT_extC (fst (step_frame P t fr sg st))); [apply trace_after_step|exact HC1].
    - pose proof (creach_base P Hsw Hhd Hbody _ _ H) as Hb. destruct (IH Hb) as [Hg|[GC HC]]; [left; apply guard_done; [exact (b_ev _ _ _ Hb)|exact Hg]|right].
      split; [apply (globC_ext st); [exact (sn_set_tstate t (TDone sg) st)|reflexivity|exact GC]|].
      apply (allT_extC st); [reflexivity|]. apply (allT_done P); assumption.
    - pose proof (creach_base P Hsw Hhd Hbody _ _ H) as Hb. left. apply guard_abort. exact (b_ev _ _ _ Hb).
    - pose proof (creach_base P Hsw Hhd Hbody _ _ H) as Hb. destruct (IH Hb) as [Hg|[GC HC]]; [left; apply (guard_gate P); [exact (b_ev _ _ _ Hb)|exact Hg]|right].
      unfold complete_gate.
      split; [apply (globC_ext st); [apply names_wake_all|apply trace_wake_all|exact GC]|].
      apply (allT_extC st); [apply trace_wake_all|]. apply allT_gate; [apply PhiC_wake|exact HC].
    - pose proof (creach_base P Hsw Hhd Hbody _ _ H) as Hb. destruct (IH Hb) as [Hg|[GC HC]]; [left; apply (guard_cancel P); [exact (b_ev _ _ _ Hb)|exact Hg]|right].
      split; [apply (globC_ext st); [apply names_cancel_task|apply trace_cancel_task|exact GC]|].
      apply (allT_extC st); [apply trace_cancel_task|].
      apply allT_cancel_main_vac; [|exact (b_ev _ _ _ Hb)|exact HC].
      intros i ts Hi m Hm. rewrite Hi in Hm. discriminate Hm.
  Qed.
End CountInv.

(* ---- on schedule-reachable states -------------------------------------------------------------------------------------------- *)
Theorem plain_bodies_are_invoked_at_most_attempts_times P :
  plain_prog P -> NoDup (p_order P (maind P)) ->
  (forall i, (1 <= pol_attempts (nspec_of P i))%Z) ->
  (forall n, In n (p_order P (maind P)) -> n = KN (real_index n)) ->
  forall st, reachable P st -> over st = false -> main_done st = false ->
    forall i, starts i (st_trace st) <= Z.to_nat (pol_attempts (nspec_of P i)).
Proof.
  intros (Hg & Hb & _) Hnd Hatt HKN st Hr Ho Hm i. destruct (graph_plain_sound _ Hg) as [Hsw Hhd].
  destruct (creach_counts P Hsw Hhd Hb Hnd Hatt HKN st None (reachable_creach P st Hr)) as [[Hg'|Hg']|[GC HC]]; [congruence|congruence|].
  destruct (existsb (key_eqb (KN i)) (node_names st)) eqn:Ex.
  - apply existsb_exists in Ex. destruct Ex as [n [Hin En]]. apply key_eqb_spec in En. subst n.
    apply node_names_in in Hin. unfold names in Hin. apply in_map_iff in Hin. destruct Hin as [x [Hnm Hx]].
    destruct (allT_In _ _ _ x HC Hx (KN i) Hnm) as (_ & _ & _ & C4). exact C4.
  - assert (Hno : ~ In (KN i) (node_names st)).
    { intros Hin. assert (existsb (key_eqb (KN i)) (node_names st) = true) by (apply existsb_exists; exists (KN i); split; [exact Hin|apply key_eqb_spec; reflexivity]). congruence. }
    rewrite (GC i); [lia|]. intros n Hn E.
    destruct (creach_roles P Hsw Hhd Hb Hnd st None (reachable_creach P st Hr)) as [[Hg'|Hg']|[HG HA]]; [congruence|congruence|].
    pose proof (roles_in_order P _ _ n HG HA Hn) as Hon. apply Hno. rewrite (HKN n Hon), E in Hn. exact Hn.
Qed.
