(* Plain programs, every schedule, any number of event managers that do not raise (suspending ones included):
   the two pipeline-level events (C14).
   - every manager sees on_pipeline_start at most once and on_pipeline_complete at most once, always without a node id;
   - when PipelineChart.run returns a PipelineResult, every manager has seen on_pipeline_start once and on_pipeline_complete
     exactly once, and the on_pipeline_complete callbacks carried exactly that result (value or error). *)
From MLPE Require Import Engine.Run Proofs.ExecLemmas Proofs.Evolve Proofs.StackInv Proofs.ReadyInv Proofs.WaitInv Explore.StateEq
     Proofs.ProcessedInv Proofs.PlainWorld Proofs.PlainLaunch Proofs.PlainLive Proofs.Micro Proofs.PlainBase Proofs.PlainCore Proofs.PlainInv
     Proofs.PlainRoles Proofs.PlainExec Proofs.PlainArgs Proofs.PlainWait Proofs.PlainDeadlock Proofs.AssocLemmas.

Definition is_ps (m : nat) (o : obs) : bool := match o with OEmit m' EvPipelineStart _ _ _ => Nat.eqb m' m | _ => false end.
Definition is_pc (m : nat) (o : obs) : bool := match o with OEmit m' EvPipelineComplete _ _ _ => Nat.eqb m' m | _ => false end.
Definition is_pipe (o : obs) : bool := match o with OEmit _ EvPipelineStart _ _ _ | OEmit _ EvPipelineComplete _ _ _ => true | _ => false end.
Definition cnt (f : obs -> bool) (tr : list obs) : nat := length (filter f tr).

Lemma cnt_cons f o tr : cnt f (o :: tr) = (if f o then 1 else 0) + cnt f tr.
Proof. unfold cnt. cbn [filter]. destruct (f o); reflexivity. Qed.
Lemma cnt_app f a b : cnt f (a ++ b) = cnt f a + cnt f b.
Proof. unfold cnt. rewrite filter_app, app_length. reflexivity. Qed.
Lemma cnt_zero_notin f tr o : cnt f tr = 0 -> In o tr -> f o = false.
Proof.
  induction tr as [|x r IH]; [contradiction|]. rewrite cnt_cons. intros H [->|Hin].
  - destruct (f o); [discriminate H|reflexivity].
  - apply IH; [destruct (f x); [discriminate H|exact H]|exact Hin].
Qed.
Lemma cnt_pos_in f tr : 0 < cnt f tr -> exists o, In o tr /\ f o = true.
Proof.
  induction tr as [|x r IH]; [cbn; lia|]. rewrite cnt_cons. destruct (f x) eqn:E.
  - intros _. exists x. split; [left; reflexivity|exact E].
  - intros H. destruct (IH H) as [o [Ho Hf]]. exists o. split; [right; exact Ho|exact Hf].
Qed.
Lemma cnt_nopipe f new : (forall o, f o = true -> is_pipe o = true) -> forallb (fun o => negb (is_pipe o)) new = true -> cnt f new = 0.
Proof.
  intros Hf. induction new as [|x r IH]; [reflexivity|]. cbn [forallb]. intros H. apply andb_true_iff in H. destruct H as [Hx Hr].
  rewrite cnt_cons, (IH Hr). destruct (f x) eqn:E; [|reflexivity]. rewrite (Hf x E) in Hx. discriminate Hx.
Qed.
Lemma is_ps_pipe m o : is_ps m o = true -> is_pipe o = true.
Proof. destruct o; try discriminate. destruct ev; try discriminate; reflexivity. Qed.
Lemma is_pc_pipe m o : is_pc m o = true -> is_pipe o = true.
Proof. destruct o; try discriminate. destruct ev; try discriminate; reflexivity. Qed.

Definition b2n (b : bool) : nat := if b then 1 else 0.
Definition cstate (k : list frame) (sg : signal) : tstate frame := match k with [] => TDone sg | _ => TReady k sg end.

Section Pipe.
  Variable P : prog.
  Notation G := (b_graph (build (p_decls P) (p_inp P) (p_out P))).
  Notation M := (p_mgrs P).
  Hypothesis Hnf : forall m ev n k, p_mgr_fault P m ev n k = false.

  Definition payload := option (option exn * option value).

  (* managers below j (and below the number of managers) have seen the event exactly once, the others never *)
  Definition seen (is : nat -> obs -> bool) (j : nat) (tr : list obs) : Prop :=
    forall m, cnt (is m) tr = if m <? Nat.min j M then 1 else 0.
  Definition ps_shape (tr : list obs) : Prop :=
    forall m n e r, In (OEmit m EvPipelineStart n e r) tr -> n = None /\ e = None /\ r = None.
  Definition pc_shape (pay : payload) (tr : list obs) : Prop :=
    forall m n e r, In (OEmit m EvPipelineComplete n e r) tr -> n = None /\ pay = Some (e, r).
  Definition Ftr (js jc : nat) (pay : payload) (tr : list obs) : Prop :=
    seen is_ps js tr /\ seen is_pc jc tr /\ ps_shape tr /\ pc_shape pay tr.

  Definition cq (sg : option signal) : Prop := forall e, sg = Some (SThrow e) -> e = XCancelled.
  Definition isval (sg : option signal) : Prop := exists v, sg = Some (SVal v).

  Definition mk (js jc : nat) (pay : payload) (k : list frame) (sg : option signal) : Prop :=
    match k with
    | [FChartStart] => js = 0 /\ jc = 0
    | [FEmit EvPipelineStart None None None mgr r; FChartAfterStart] => js = mgr + b2n r /\ jc = 0
    | [FChartAfterStart] => jc = 0 /\ (isval sg -> M <= js)
    | [FRunWait; FChartAfterRun] => M <= js /\ jc = 0
    | [FChartAfterRun] => M <= js /\ jc = 0
    | [FEmit EvPipelineComplete None err res mgr r; FChartAfterEmitOk v] =>
      M <= js /\ jc = mgr + b2n r /\ pay = Some (None, Some v) /\ err = None /\ res = Some v /\ cq sg
    | [FChartAfterEmitOk v] => M <= js /\ pay = Some (None, Some v) /\ cq sg /\ (isval sg -> M <= jc)
    | [FEmit EvPipelineComplete None err res mgr r; FChartAfterEmitErr e] =>
      M <= js /\ jc = mgr + b2n r /\ pay = Some (Some e, None) /\ err = Some e /\ res = None /\ cq sg
    | [FChartAfterEmitErr e] => M <= js /\ pay = Some (Some e, None) /\ cq sg /\ (isval sg -> M <= jc)
    | _ => False
    end.

  Definition nores (sg : signal) : Prop := forall e, sg <> SResErr e.
  Definition main_ok (js jc : nat) (pay : payload) (ts : tstate frame) : Prop :=
    match ts with
    | TReady k sg => nores sg /\ mk js jc pay k (Some sg)
    | TWait _ k => mk js jc pay k None
    | TDone (SVal v) => M <= js /\ M <= jc /\ pay = Some (None, Some v)
    | TDone (SResErr e) => M <= js /\ M <= jc /\ pay = Some (Some e, None)
    | TDone _ => True
    end.

  Lemma seen_nopipe is js new tr :
    (forall m o, is m o = true -> is_pipe o = true) -> forallb (fun o => negb (is_pipe o)) new = true -> seen is js tr -> seen is js (new ++ tr).
  Proof. intros Hp Hn H m. rewrite cnt_app, (cnt_nopipe (is m) new (Hp m) Hn). exact (H m). Qed.

  Lemma Ftr_nopipe js jc pay new tr : forallb (fun o => negb (is_pipe o)) new = true -> Ftr js jc pay tr -> Ftr js jc pay (new ++ tr).
  Proof.
    intros Hn (A & B & C & D). split; [|split; [|split]].
    - apply seen_nopipe; [apply is_ps_pipe|exact Hn|exact A].
    - apply seen_nopipe; [apply is_pc_pipe|exact Hn|exact B].
    - intros m n e r Hin. apply in_app_or in Hin. destruct Hin as [Hin|Hin]; [|exact (C m n e r Hin)].
      rewrite forallb_forall in Hn. specialize (Hn _ Hin). discriminate Hn.
    - intros m n e r Hin. apply in_app_or in Hin. destruct Hin as [Hin|Hin]; [|exact (D m n e r Hin)].
      rewrite forallb_forall in Hn. specialize (Hn _ Hin). discriminate Hn.
  Qed.

  Lemma seen_raise is j j' tr : M <= j -> M <= j' -> seen is j tr -> seen is j' tr.
  Proof. intros A B H m. rewrite (H m). rewrite !Nat.min_r by assumption. reflexivity. Qed.

  Lemma pc_shape_none pay pay' tr : seen is_pc 0 tr -> pc_shape pay tr -> pc_shape pay' tr.
  Proof.
    intros H _ m n e r Hin. exfalso. pose proof (H m) as Hm. cbn in Hm.
    pose proof (cnt_zero_notin _ _ _ Hm Hin) as F. cbn in F. rewrite Nat.eqb_refl in F. discriminate F.
  Qed.

  (* one more manager is told *)
  Lemma seen_emit_ps mgr tr n e r : mgr < M -> seen is_ps mgr tr -> seen is_ps (S mgr) (OEmit mgr EvPipelineStart n e r :: tr).
  Proof.
    intros Hm H m. rewrite cnt_cons, (H m). cbn [is_ps].
    destruct (Nat.eqb_spec mgr m) as [->|Hne]; destruct (Nat.ltb_spec m (Nat.min m M)); destruct (Nat.ltb_spec m (Nat.min (S m) M)); try lia;
      destruct (Nat.ltb_spec m (Nat.min mgr M)); destruct (Nat.ltb_spec m (Nat.min (S mgr) M)); lia.
  Qed.
  Lemma seen_emit_pc mgr tr n e r : mgr < M -> seen is_pc mgr tr -> seen is_pc (S mgr) (OEmit mgr EvPipelineComplete n e r :: tr).
  Proof.
    intros Hm H m. rewrite cnt_cons, (H m). cbn [is_pc].
    destruct (Nat.eqb_spec mgr m) as [->|Hne]; destruct (Nat.ltb_spec m (Nat.min m M)); destruct (Nat.ltb_spec m (Nat.min (S m) M)); try lia;
      destruct (Nat.ltb_spec m (Nat.min mgr M)); destruct (Nat.ltb_spec m (Nat.min (S mgr) M)); lia.
  Qed.
  Lemma seen_other_ps j tr m n e r : seen is_ps j tr -> seen is_ps j (OEmit m EvPipelineComplete n e r :: tr).
  Proof. intros H m'. rewrite cnt_cons. cbn [is_ps]. exact (H m'). Qed.
  Lemma seen_other_pc j tr m n e r : seen is_pc j tr -> seen is_pc j (OEmit m EvPipelineStart n e r :: tr).
  Proof. intros H m'. rewrite cnt_cons. cbn [is_pc]. exact (H m'). Qed.

  Lemma Ftr_emit_ps mgr jc pay tr :
    mgr < M -> Ftr mgr jc pay tr -> Ftr (S mgr) jc pay (OEmit mgr EvPipelineStart None None None :: tr).
  Proof.
    intros Hm (A & B & C & D). split; [apply seen_emit_ps; assumption|]. split; [apply seen_other_pc; exact B|]. split.
    - intros m n e r [Hin|Hin]; [inversion Hin; auto|exact (C m n e r Hin)].
    - intros m n e r [Hin|Hin]; [discriminate Hin|exact (D m n e r Hin)].
  Qed.
  Lemma Ftr_emit_pc js mgr e r tr :
    mgr < M -> Ftr js mgr (Some (e, r)) tr -> Ftr js (S mgr) (Some (e, r)) (OEmit mgr EvPipelineComplete None e r :: tr).
  Proof.
    intros Hm (A & B & C & D). split; [apply seen_other_ps; exact A|]. split; [apply seen_emit_pc; assumption|]. split.
    - intros m n e' r' [Hin|Hin]; [discriminate Hin|exact (C m n e' r' Hin)].
    - intros m n e' r' [Hin|Hin]; [inversion Hin; auto|exact (D m n e' r' Hin)].
  Qed.

  Ltac shape H :=
    repeat (cbn [mk] in H; try contradiction;
            match type of H with context [match ?x with _ => _ end] => destruct x end); cbn [mk] in H; try contradiction.

  Lemma is_exc_cancelled : is_Exception XCancelled = false.
  Proof. reflexivity. Qed.

  Lemma main_step js jc pay t fr rest sg st :
    main_ok js jc pay (TReady (fr :: rest) sg) -> Ftr js jc pay (st_trace st) -> handled fr sg = true ->
    exists js' jc' pay', Ftr js' jc' pay' (st_trace (fst (step_frame P t fr sg st))) /\
                         main_ok js' jc' pay' (nstate rest (snd (step_frame P t fr sg st))).
  Proof.
    intros [Hnr H] HF Hh. cbn [main_ok] in *. shape H.
    - (* FChartStart *)
      destruct H as [-> ->]. destruct sg; cbn [step_frame fst snd nstate app main_ok mk emit_frames]; try (exists 0, 0, pay; split; [exact HF|exact I]).
      + exists 0, 0, pay. split; [exact HF|]. split; [intros e Hc; discriminate Hc|]. cbn [b2n]. auto.
      + exfalso. exact (Hnr e eq_refl).
    - (* FChartAfterStart *)
      destruct H as [-> Hv]. destruct sg; cbn [step_frame]; unfold reduced; repeat break_match; spawn_norm;
        cbn [fst snd nstate app main_ok mk]; autorewrite with core; cbn [st_trace spawn emit_obs with_store fst];
        try (exists js, 0, pay; split; [exact HF|exact I]).
      all: try (exfalso; exact (Hnr e eq_refl)).
      + exists js, 0, pay. split; [exact HF|]. split; [intros e Hc; discriminate Hc|]. split; [apply Hv; eexists; reflexivity|reflexivity].
      + exists js, 0, pay. split; [apply (Ftr_nopipe js 0 pay [_]); [reflexivity|exact HF]|].
        split; [intros e Hc; discriminate Hc|]. split; [apply Hv; eexists; reflexivity|reflexivity].
    - (* FChartAfterRun *)
      destruct H as [Hjs ->]. destruct HF as (S1 & S2 & S3 & S4).
      destruct sg as [|v| |e|e]; cbn [step_frame]; repeat break_match; cbn [fst snd nstate app main_ok mk emit_frames];
        try (exists js, 0, pay; split; [exact (conj S1 (conj S2 (conj S3 S4)))|exact I]).
      all: try (exfalso; exact (Hnr e eq_refl)).
      + exists js, 0, (Some (None, Some v)). split; [split; [exact S1|split; [exact S2|split; [exact S3|exact (pc_shape_none _ _ _ S2 S4)]]]|].
        split; [intros e Hc; discriminate Hc|]. cbn [b2n]. repeat split; auto. intros e Hc; discriminate Hc.
      + exists js, 0, (Some (Some e, None)). split; [split; [exact S1|split; [exact S2|split; [exact S3|exact (pc_shape_none _ _ _ S2 S4)]]]|].
        split; [intros e' Hc; discriminate Hc|]. cbn [b2n]. repeat split; auto. intros e' Hc; discriminate Hc.
    - (* FChartAfterEmitOk *)
      destruct H as (Hjs & -> & Hcq & Hv).
      destruct sg as [|v0| |e|e]; try (pose proof (Hcq e eq_refl); subst e); cbn [step_frame]; rewrite ?is_exc_cancelled;
        cbn [fst snd nstate app main_ok mk emit_frames]; try (exists js, jc, (Some (None, Some v)); split; [exact HF|exact I]).
      all: try (exfalso; exact (Hnr e eq_refl)).
      exists js, jc, (Some (None, Some v)). split; [exact HF|]. split; [exact Hjs|]. split; [apply Hv; eexists; reflexivity|reflexivity].
    - (* FChartAfterEmitErr *)
      destruct H as (Hjs & -> & Hcq & Hv).
      destruct sg as [|v0| |e0|e0]; try (pose proof (Hcq e0 eq_refl); subst e0); cbn [step_frame];
        cbn [fst snd nstate app main_ok mk emit_frames]; try (exists js, jc, (Some (Some e, None)); split; [exact HF|exact I]).
      all: try (exfalso; exact (Hnr e0 eq_refl)).
      exists js, jc, (Some (Some e, None)). split; [exact HF|]. split; [exact Hjs|]. split; [apply Hv; eexists; reflexivity|reflexivity].
    - (* FEmit on_pipeline_start *)
      destruct H as [-> ->].
      destruct sg as [|v0| |e|e]; [| | | |exfalso; exact (Hnr e eq_refl)].
      + destruct resumed; cbn [b2n] in HF; rewrite ?Nat.add_0_r in HF; cbn [step_frame]; rewrite ?Hnf; repeat break_match;
          cbn [fst snd nstate app main_ok mk emit_frames st_trace bump emit_obs b2n].
        * exists (mgr + 1), 0, pay. split; [exact HF|]. split; [intros e Hc; discriminate Hc|]. split; [lia|reflexivity].
        * exists mgr, 0, pay. split; [exact HF|]. split; [intros e Hc; discriminate Hc|]. split; [reflexivity|].
          intros _. apply Nat.leb_le. assumption.
        * exists (S mgr), 0, pay. split; [apply Ftr_emit_ps; [apply Nat.leb_gt; assumption|exact HF]|]. split; [lia|reflexivity].
        * exists (S mgr), 0, pay. split; [apply Ftr_emit_ps; [apply Nat.leb_gt; assumption|exact HF]|]. split; [intros e Hc; discriminate Hc|].
          split; [lia|reflexivity].
      + destruct resumed; cbn [step_frame fst snd nstate app main_ok mk]; (eexists _, 0, pay; split; [exact HF|]; split; [intros e Hc; discriminate Hc|];
        split; [reflexivity|]; intros [v1 Hv1]; discriminate Hv1).
      + destruct resumed; cbn [step_frame fst snd nstate app main_ok mk]; (eexists _, 0, pay; split; [exact HF|]; split; [intros e Hc; discriminate Hc|];
        split; [reflexivity|]; intros [v1 Hv1]; discriminate Hv1).
      + destruct resumed; cbn [step_frame fst snd nstate app main_ok mk]; (eexists _, 0, pay; split; [exact HF|]; split; [intros e' Hc; discriminate Hc|];
        split; [reflexivity|]; intros [v1 Hv1]; discriminate Hv1).
    - (* FEmit on_pipeline_complete (value) *)
      destruct H as (Hjs & -> & -> & -> & -> & Hcq).
      destruct sg as [|v0| |e0|e0]; [| | | |exfalso; exact (Hnr e0 eq_refl)].
      + destruct resumed; cbn [b2n] in HF; rewrite ?Nat.add_0_r in HF; cbn [step_frame]; rewrite ?Hnf; repeat break_match;
          cbn [fst snd nstate app main_ok mk emit_frames st_trace bump emit_obs b2n].
        * exists js, (mgr + 1), (Some (None, Some v)). split; [exact HF|]. split; [intros e' Hc; discriminate Hc|].
          split; [exact Hjs|]. split; [lia|]. repeat (split; [reflexivity|]). intros e' Hc; discriminate Hc.
        * exists js, mgr, (Some (None, Some v)). split; [exact HF|]. split; [intros e' Hc; discriminate Hc|]. split; [exact Hjs|]. split; [reflexivity|].
          split; [intros e' Hc; discriminate Hc|]. intros _. apply Nat.leb_le. assumption.
        * exists js, (S mgr), (Some (None, Some v)). split; [apply Ftr_emit_pc; [apply Nat.leb_gt; assumption|exact HF]|].
          split; [exact Hjs|]. split; [lia|]. repeat (split; [reflexivity|]). intros e' Hc; discriminate Hc.
        * exists js, (S mgr), (Some (None, Some v)). split; [apply Ftr_emit_pc; [apply Nat.leb_gt; assumption|exact HF]|]. split; [intros e' Hc; discriminate Hc|].
          split; [exact Hjs|]. split; [lia|]. repeat (split; [reflexivity|]). intros e' Hc; discriminate Hc.
      + discriminate Hh.
      + discriminate Hh.
      + pose proof (Hcq e0 eq_refl); subst e0.
        destruct resumed; cbn [step_frame fst snd nstate app main_ok mk]; (eexists js, _, (Some (None, Some v)); split; [exact HF|]; split; [intros e' Hc; discriminate Hc|];
        split; [exact Hjs|]; split; [reflexivity|]; split; [intros e' Hc; inversion Hc; reflexivity|]; intros [v1 Hv1]; discriminate Hv1).
    - (* FEmit on_pipeline_complete (error) *)
      destruct H as (Hjs & -> & -> & -> & -> & Hcq).
      destruct sg as [|v0| |e0|e0]; [| | | |exfalso; exact (Hnr e0 eq_refl)].
      + destruct resumed; cbn [b2n] in HF; rewrite ?Nat.add_0_r in HF; cbn [step_frame]; rewrite ?Hnf; repeat break_match;
          cbn [fst snd nstate app main_ok mk emit_frames st_trace bump emit_obs b2n].
        * exists js, (mgr + 1), (Some (Some e, None)). split; [exact HF|]. split; [intros e' Hc; discriminate Hc|].
          split; [exact Hjs|]. split; [lia|]. repeat (split; [reflexivity|]). intros e' Hc; discriminate Hc.
        * exists js, mgr, (Some (Some e, None)). split; [exact HF|]. split; [intros e' Hc; discriminate Hc|]. split; [exact Hjs|]. split; [reflexivity|].
          split; [intros e' Hc; discriminate Hc|]. intros _. apply Nat.leb_le. assumption.
        * exists js, (S mgr), (Some (Some e, None)). split; [apply Ftr_emit_pc; [apply Nat.leb_gt; assumption|exact HF]|].
          split; [exact Hjs|]. split; [lia|]. repeat (split; [reflexivity|]). intros e' Hc; discriminate Hc.
        * exists js, (S mgr), (Some (Some e, None)). split; [apply Ftr_emit_pc; [apply Nat.leb_gt; assumption|exact HF]|]. split; [intros e' Hc; discriminate Hc|].
          split; [exact Hjs|]. split; [lia|]. repeat (split; [reflexivity|]). intros e' Hc; discriminate Hc.
      + discriminate Hh.
      + discriminate Hh.
      + pose proof (Hcq e0 eq_refl); subst e0.
        destruct resumed; cbn [step_frame fst snd nstate app main_ok mk]; (eexists js, _, (Some (Some e, None)); split; [exact HF|]; split; [intros e' Hc; discriminate Hc|];
        split; [exact Hjs|]; split; [reflexivity|]; split; [intros e' Hc; inversion Hc; reflexivity|]; intros [v1 Hv1]; discriminate Hv1).
    - (* FRunWait *)
      destruct H as [Hjs ->].
      destruct sg as [|v0| |e0|e0]; cbn [step_frame]; repeat break_match; cbn [fst snd nstate app main_ok mk];
        autorewrite with core; cbn [st_trace emit_obs];
        try (exfalso; exact (Hnr e0 eq_refl));
        try (exists js, 0, pay; split; [first [exact HF|apply (Ftr_nopipe js 0 pay [_]); [reflexivity|exact HF]]|];
             first [split; [intros e' Hc; discriminate Hc|split; [exact Hjs|reflexivity]] | split; [exact Hjs|reflexivity]]).
  Qed.


  Definition is_ps_any (o : obs) : bool := match o with OEmit _ EvPipelineStart _ _ _ => true | _ => false end.
  Definition early (o : obs) : bool := match o with OSpawn _ TNMain | OEmit _ EvPipelineStart _ _ _ => true | _ => false end.

  Ltac prefix_of l tr :=
    lazymatch l with
    | tr => constr:(@nil obs)
    | ?x :: ?r => let p := prefix_of r tr in constr:(x :: p)
    end.

  (* what one step of the chart task adds to the history: only on_pipeline_start callbacks, or -- once every manager has had its
     on_pipeline_start -- no on_pipeline_start at all; and it creates a task only in the second case *)
  Lemma main_step_new js jc pay t fr rest sg st :
    main_ok js jc pay (TReady (fr :: rest) sg) -> handled fr sg = true ->
    exists new, st_trace (fst (step_frame P t fr sg st)) = new ++ st_trace st /\
                (forallb early new = true \/ (M <= js /\ forallb (fun o => negb (is_ps_any o)) new = true)) /\
                (creates P fr sg st <> [] -> M <= js).
  Proof.
    intros [Hnr H] Hh. cbn [main_ok] in *. shape H;
      repeat match goal with H0 : _ /\ _ |- _ => destruct H0 end; subst;
      destruct sg as [|v0| |e0|e0]; try discriminate Hh; try (exfalso; exact (Hnr e0 eq_refl));
      try match goal with r : bool |- context [FEmit _ _ _ _ _ ?r] => destruct r end;
      cbn [step_frame creates]; rewrite ?Hnf; unfold reduced; repeat break_match; spawn_norm; cbn [fst snd];
      autorewrite with core; cbn [st_trace emit_obs bump with_store spawn fst];
      match goal with |- exists new, ?l = new ++ ?tr /\ _ => let p := prefix_of l tr in exists p; split; [reflexivity|] end;
      (split; [first [left; reflexivity | right; split; [first [assumption | match goal with Hv : isval _ -> _ |- _ => apply Hv; eexists; reflexivity end]|reflexivity]]
              |first [intros Hc; exfalso; apply Hc; reflexivity | intros _; first [assumption | match goal with Hv : isval _ -> _ |- _ => apply Hv; eexists; reflexivity end]]]).
  Qed.
End Pipe.

Lemma owner_not_main nm fr : nm <> TNMain -> owner nm fr = true -> main_frame fr = false.
Proof.
  intros Hn Ho. destruct nm; try contradiction; try discriminate Ho; cbn [owner] in Ho.
  - destruct fr; try discriminate Ho; reflexivity.
  - destruct fr; try discriminate Ho; try reflexivity. destruct ev; try discriminate Ho; destruct n; try discriminate Ho; reflexivity.
Qed.

Section PipeSteps.
  Variable P : prog.
  Notation G := (b_graph (build (p_decls P) (p_inp P) (p_out P))).
  Hypothesis Hsw : forall n, is_switch G n = false.
  Hypothesis Hhd : forall n, is_head G n = false.
  Hypothesis Hbody : forall i kw a v, p_body P i kw a = OVal v -> clean v = true.

  Ltac prefix_of l tr :=
    lazymatch l with
    | tr => constr:(@nil obs)
    | ?x :: ?r => let p := prefix_of r tr in constr:(x :: p)
    end.

  (* a step of a helper task never reports a pipeline-level event *)
  Lemma plain_step_nopipe nm t fr sg st :
    plain_frame P fr = true -> clean_sig sg -> PS st -> nm <> TNMain -> owner nm fr = true ->
    exists new, st_trace (fst (step_frame P t fr sg st)) = new ++ st_trace st /\ forallb (fun o => negb (is_pipe o)) new = true.
  Proof.
    intros Hf Hs Hst Hnm Hmf. pose proof Hst as Hst'. unfold PS in Hst'.
    destruct nm; try contradiction; try discriminate Hmf; cbn [owner] in Hmf;
    destruct fr; try discriminate Hf; try discriminate Hmf; cbn [plain_frame] in Hf;
      repeat match goal with
             | H : (_ && _)%bool = true |- _ => apply andb_true_iff in H; destruct H
             | H : is_main P ?d = true |- _ => apply is_main_eq in H; subst d
             | H : negb ?f = true |- _ => apply negb_true_iff in H; subst f
             | H : ?u = true |- _ => is_var u; subst u
             end;
      try (destruct ev; try discriminate Hmf; destruct n; try discriminate Hmf);
      destruct sg; cbn [clean_sig] in Hs;
      try match goal with H : clean ?v = true |- _ => pose proof (clean_not_rec v H) as Hnr; pose proof (clean_not_exn v H) as Hne end;
      cbn [step_frame]; rewrite ?Hnr, ?Hne, ?Hsw, ?Hhd, ?(plain_dep_error P _ _ _ Hst'), ?(plain_no_subgraph_error _ _ Hst');
      unfold default_or_raise, reduced; cbn [d_oneof d_rec maind andb];
      repeat break_match; spawn_norm; cbn [fst];
      autorewrite with core; cbn [st_trace emit_obs bump with_store spawn fst set_adddata];
      autorewrite with core;
      match goal with |- exists new, ?l = new ++ ?tr /\ _ => let p := prefix_of l tr in exists p; split; reflexivity end.
  Qed.
End PipeSteps.

Lemma upd_task_state t ts (l : list (task frame)) y :
  In y (upd_task t (fun x => with_ts x ts) l) -> t_id y = t -> NoDup (map (@t_id frame) l) -> t_state y = ts.
Proof.
  induction l as [|z r IH]; cbn [upd_task map]; [contradiction|]. intros Hin Hid Hnd. inversion Hnd as [|a b Hni Hr]; subst.
  destruct (Nat.eqb (t_id z) (t_id y)) eqn:E.
  - destruct Hin as [<-|Hin]; [reflexivity|]. exfalso. apply Hni. apply Nat.eqb_eq in E. rewrite E. apply in_map. exact Hin.
  - destruct Hin as [<-|Hin]; [rewrite Nat.eqb_refl in E; discriminate E|]. apply IH; [exact Hin|reflexivity|exact Hr].
Qed.

Section PipeInv.
  Variable P : prog.
  Notation G := (b_graph (build (p_decls P) (p_inp P) (p_out P))).
  Notation M := (p_mgrs P).
  Hypothesis Hsw : forall n, is_switch G n = false.
  Hypothesis Hhd : forall n, is_head G n = false.
  Hypothesis Hbody : forall i kw a v, p_body P i kw a = OVal v -> clean v = true.
  Hypothesis Hnf : forall m ev n k, p_mgr_fault P m ev n k = false.

  Definition TPm (js jc : nat) (pay : payload) (x : task frame) : Prop :=
    t_name x = TNMain -> t_id x = main_tid /\ main_ok P js jc pay (t_state x).

  Definition pipeI (st : mstate) (c : running) : Prop :=
    exists js jc pay, Ftr P js jc pay (st_trace st) /\
      match c with
      | Some (t, k, sg) => if Nat.eqb t main_tid then main_ok P js jc pay (cstate k sg) else tasks_ok (TPm js jc pay) st
      | None => tasks_ok (TPm js jc pay) st
      end.

  Ltac shape H :=
    repeat (cbn [mk] in H; try contradiction;
            match type of H with context [match ?x with _ => _ end] => destruct x end); cbn [mk] in H; try contradiction.

  Lemma mk_weaken js jc pay k sg sg' :
    (forall v, sg' <> Some (SVal v)) -> (forall e, sg' = Some (SThrow e) -> e = XCancelled) -> mk P js jc pay k sg -> mk P js jc pay k sg'.
  Proof.
    intros Hv Hc H. destruct k as [|f [|g [|h r]]]; try contradiction; shape H; cbn [mk];
      repeat match goal with H0 : _ /\ _ |- _ => destruct H0 end; repeat (split; [assumption|]); try assumption;
      try (intros [v9 Hv9]; exfalso; exact (Hv v9 Hv9)); try exact Hc;
      try (split; [exact Hc|intros [v9 Hv9]; exfalso; exact (Hv v9 Hv9)]).
  Qed.

  Lemma TPm_wake js jc pay x w k : t_state x = TWait w k -> TPm js jc pay x -> TPm js jc pay (with_ts x (TReady k SGo)).
  Proof.
    unfold TPm. intros E H Hn. cbn in Hn. destruct (H Hn) as [Hi Hm]. split; [exact Hi|]. rewrite E in Hm. cbn [t_state with_ts main_ok] in *.
    split; [intros e Hc; discriminate Hc|]. eapply mk_weaken; [| |exact Hm]; [intros v Hv; discriminate Hv|intros e He; discriminate He].
  Qed.
  Lemma TPm_cancel_ready js jc pay x k sg : t_state x = TReady k sg -> TPm js jc pay x -> TPm js jc pay (with_ts x (TReady k (SThrow XCancelled))).
  Proof.
    unfold TPm. intros E H Hn. cbn in Hn. destruct (H Hn) as [Hi Hm]. split; [exact Hi|]. rewrite E in Hm. cbn [t_state with_ts main_ok] in *.
    destruct Hm as [_ Hm]. split; [intros e Hc; discriminate Hc|]. eapply mk_weaken; [| |exact Hm]; [intros v Hv; discriminate Hv|intros e He; inversion He; reflexivity].
  Qed.
  Lemma TPm_cancel_wait js jc pay x w k : t_state x = TWait w k -> TPm js jc pay x -> TPm js jc pay (with_ts x (TReady k (SThrow XCancelled))).
  Proof.
    unfold TPm. intros E H Hn. cbn in Hn. destruct (H Hn) as [Hi Hm]. split; [exact Hi|]. rewrite E in Hm. cbn [t_state with_ts main_ok] in *.
    split; [intros e Hc; discriminate Hc|]. eapply mk_weaken; [| |exact Hm]; [intros v Hv; discriminate Hv|intros e He; inversion He; reflexivity].
  Qed.

  (* recording the chart task's new state *)
  Lemma tasks_TPm_set js jc pay ts st :
    NoDup (map (@t_id frame) (st_tasks st)) -> tasks_ok mainname_TP (set_tstate main_tid ts st) -> main_ok P js jc pay ts ->
    tasks_ok (TPm js jc pay) (set_tstate main_tid ts st).
  Proof.
    intros Hnd Hmn Hm. unfold tasks_ok in *. rewrite Forall_forall in *. intros y Hy Hn. pose proof (Hmn y Hy Hn) as Hid. split; [exact Hid|].
    unfold set_tstate in Hy. cbn [st_tasks] in Hy. rewrite (upd_task_state main_tid ts (st_tasks st) y Hy Hid Hnd). exact Hm.
  Qed.

  Theorem creach_pipe : forall st c, creach P st c -> pipeI st c.
  Proof.
    intros st c H. pose proof (creach_base P Hsw Hhd Hbody st c H) as Hb0. pose proof (creach_mainname P Hsw Hhd Hbody st c H) as Hmn0.
    induction H as [|st t rest x k sg H IH Hq Hf Ht|st t rest H IH Hq|st t fr rest sg H IH|st t sg H IH|st c H IH|st g H IH|st H IH].
    - exists 0, 0, None. split.
      + split; [|split; [|split]]; try (intros m; reflexivity); intros m n e r [Hin|[]]; discriminate Hin.
      + unfold tasks_ok, init_state. cbn. constructor; [|constructor]. intros _. split; [reflexivity|]. cbn. split; [intros e Hc; discriminate Hc|auto].
    - pose proof (creach_base P Hsw Hhd Hbody _ _ H) as Hb. destruct (IH Hb (creach_mainname P Hsw Hhd Hbody _ _ H)) as [js [jc [pay [HF HT]]]].
      exists js, jc, pay. split; [exact HF|]. destruct (Nat.eqb_spec t main_tid) as [->|Hne]; [|exact HT].
      destruct (find_task_in _ _ _ Hf) as [Hin Hid]. pose proof (main_named st x (b_ev _ _ _ Hb) Hin Hid) as Hnm.
      unfold tasks_ok in HT. rewrite Forall_forall in HT. destruct (HT x Hin Hnm) as [_ Hm]. rewrite Ht in Hm.
      destruct k as [|f r]; [destruct Hm as [_ Hm]; cbn in Hm; contradiction|exact Hm].
    - pose proof (creach_base P Hsw Hhd Hbody _ _ H) as Hb. destruct (IH Hb (creach_mainname P Hsw Hhd Hbody _ _ H)) as [js [jc [pay [HF HT]]]].
      exists js, jc, pay. split; [exact HF|exact HT].
    - (* one frame step *)
      pose proof (creach_base P Hsw Hhd Hbody _ _ H) as Hb. pose proof (creach_mainname P Hsw Hhd Hbody _ _ H) as Hmn.
      destruct (IH Hb Hmn) as [js [jc [pay [HF HT]]]].
      destruct (b_cur _ _ _ Hb) as [x0 [Hf0 [Hk [Hs [Ho _]]]]]. cbn [plain_stack forallb] in Hk, Ho. apply andb_true_iff in Hk. destruct Hk as [Kf Kr].
      apply andb_true_iff in Ho. destruct Ho as [Of Or]. pose proof (b_ps _ _ _ Hb) as Hps.
      destruct (find_task_in _ _ _ Hf0) as [Hin0 Hid0].
      destruct (creach_typed P Hsw Hhd Hbody _ _ H) as [_ Hty]. cbn [typed_cur typed_stack] in Hty.
      unfold pipeI. rewrite trace_after_step.
      destruct (Nat.eqb_spec t main_tid) as [->|Hne].
      + (* the chart task *)
        cbn [cstate] in HT.
        destruct (main_step P Hnf js jc pay main_tid fr rest sg st HT HF Hty) as [js' [jc' [pay' [HF' HM']]]].
        exists js', jc', pay'. split; [exact HF'|].
        pose proof (ev_step_frame P main_tid fr sg st) as Hev.
        assert (Hnd1 : NoDup (map (@t_id frame) (st_tasks (fst (step_frame P main_tid fr sg st))))).
        { destruct (evolved_shape _ (evolves_trans _ _ _ (b_ev _ _ _ Hb) Hev)) as [xa [ra [_ [_ [_ [_ [Hnd _]]]]]]]. exact Hnd. }
        destruct (step_frame P main_tid fr sg st) as [st1 [w k'|k'|k' sg'|sg']]; cbn [after_step fst snd nstate] in *.
        * unfold suspend. apply (tasks_ok_same _ (set_tstate main_tid (TWait w (k' ++ rest)) st1)); [reflexivity|].
          apply tasks_TPm_set; [exact Hnd1| |exact HM']. apply (tasks_ok_same _ (suspend main_tid w (k' ++ rest) st1)); [reflexivity|exact Hmn0].
        * apply (tasks_ok_same _ (set_tstate main_tid (TReady (k' ++ rest) SGo) st1)); [reflexivity|].
          apply tasks_TPm_set; [exact Hnd1| |exact HM']. apply (tasks_ok_same _ (push_ready main_tid (set_tstate main_tid (TReady (k' ++ rest) SGo) st1))); [reflexivity|exact Hmn0].
        * rewrite Nat.eqb_refl. exact HM'.
        * rewrite Nat.eqb_refl. exact HM'.
      + (* a helper task *)
        assert (Hnm : t_name x0 <> TNMain).
        { intros Hn. unfold tasks_ok in Hmn. rewrite Forall_forall in Hmn. apply Hne. rewrite <- Hid0. exact (Hmn x0 Hin0 Hn). }
        destruct (plain_step_nopipe P (t_name x0) t fr sg st Kf Hs Hps Hnm Of) as [new [Etr Hnew]].
        exists js, jc, pay. split; [rewrite Etr; apply Ftr_nopipe; assumption|].
        assert (A1 : tasks_ok (TPm js jc pay) (fst (step_frame P t fr sg st))).
        { apply (plain_step_tasks_gen P Hsw Hhd (TPm js jc pay) (TPm_wake _ _ _) (TPm_cancel_ready _ _ _) (TPm_cancel_wait _ _ _)); try assumption.
          - intros i Hx. discriminate Hx.
          - intros i n Hx. discriminate Hx. }
        assert (Hvac : forall ts x, find_task t (st_tasks (fst (step_frame P t fr sg st))) = Some x -> TPm js jc pay x -> TPm js jc pay (with_ts x ts)).
        { intros ts x Hx Hp Hn. cbn in Hn. destruct (Hp Hn) as [Hi _]. destruct (find_task_in _ _ _ Hx) as [_ Hix]. exfalso. apply Hne. rewrite <- Hix. exact Hi. }
        destruct (step_frame P t fr sg st) as [st1 [w k'|k'|k' sg'|sg']]; cbn [after_step fst snd] in *.
        * apply ok_suspend; [exact A1|]. intros y Hy. apply Hvac. exact Hy.
        * apply ok_push_ready. apply ok_set_tstate; [exact A1|]. intros y Hy. apply Hvac. exact Hy.
        * apply Nat.eqb_neq in Hne. rewrite Hne. exact A1.
        * apply Nat.eqb_neq in Hne. rewrite Hne. exact A1.
    - (* the task finishes *)
      pose proof (creach_base P Hsw Hhd Hbody _ _ H) as Hb. pose proof (creach_mainname P Hsw Hhd Hbody _ _ H) as Hmn.
      destruct (IH Hb Hmn) as [js [jc [pay [HF HT]]]]. exists js, jc, pay. split; [exact HF|].
      destruct (Nat.eqb_spec t main_tid) as [->|Hne].
      + cbn [cstate] in HT. apply tasks_TPm_set; [exact (base_nodup P _ _ Hb)|exact Hmn0|exact HT].
      + apply ok_set_tstate; [exact HT|]. intros y Hy Hp Hn. cbn in Hn. destruct (Hp Hn) as [Hi _]. destruct (find_task_in _ _ _ Hy) as [_ Hiy].
        exfalso. apply Hne. rewrite <- Hiy. exact Hi.
    - (* abort *)
      pose proof (creach_base P Hsw Hhd Hbody _ _ H) as Hb. pose proof (creach_mainname P Hsw Hhd Hbody _ _ H) as Hmn.
      destruct (IH Hb Hmn) as [js [jc [pay [HF _]]]]. exists js, jc, pay. split; [exact HF|].
      unfold tasks_ok in *. rewrite Forall_forall in *. intros y Hy Hn. split; [exact (Hmn0 y Hy Hn)|].
      unfold abort in Hy. cbn [st_tasks] in Hy. apply in_map_iff in Hy. destruct Hy as [x [<- _]]. cbn. exact I.
    - pose proof (creach_base P Hsw Hhd Hbody _ _ H) as Hb. pose proof (creach_mainname P Hsw Hhd Hbody _ _ H) as Hmn.
      destruct (IH Hb Hmn) as [js [jc [pay [HF HT]]]]. exists js, jc, pay. unfold complete_gate. rewrite trace_wake_all. split; [exact HF|].
      apply (complete_gate_tasks_ok (TPm js jc pay) (TPm_wake _ _ _)). exact HT.
    - pose proof (creach_base P Hsw Hhd Hbody _ _ H) as Hb. pose proof (creach_mainname P Hsw Hhd Hbody _ _ H) as Hmn.
      destruct (IH Hb Hmn) as [js [jc [pay [HF HT]]]]. exists js, jc, pay. rewrite trace_cancel_task. split; [exact HF|].
      apply (ok_cancel_task (TPm js jc pay) (TPm_cancel_ready _ _ _) (TPm_cancel_wait _ _ _)). exact HT.
  Qed.
End PipeInv.

(* ---- on schedule-reachable states -------------------------------------------------------------------------------------------- *)
Lemma seen_le1 P is j tr m : seen P is j tr -> cnt (is m) tr <= 1.
Proof. intros H. rewrite (H m). destruct (m <? Nat.min j (p_mgrs P)); lia. Qed.
Lemma seen_all P is j tr m : seen P is j tr -> p_mgrs P <= j -> m < p_mgrs P -> cnt (is m) tr = 1.
Proof. intros H Hj Hm. rewrite (H m). rewrite Nat.min_r by exact Hj. destruct (Nat.ltb_spec m (p_mgrs P)); [reflexivity|lia]. Qed.

Theorem plain_pipeline_events P :
  plain_prog P -> (forall m ev n k, p_mgr_fault P m ev n k = false) ->
  forall st, reachable P st ->
    (* at most once per manager, and never with a node id or a payload / with another payload than the run's outcome *)
    (forall m, cnt (is_ps m) (st_trace st) <= 1) /\ (forall m, cnt (is_pc m) (st_trace st) <= 1) /\
    (forall m n e r, In (OEmit m EvPipelineStart n e r) (st_trace st) -> n = None /\ e = None /\ r = None) /\
    (forall m n e r, In (OEmit m EvPipelineComplete n e r) (st_trace st) -> n = None) /\
    (* run returned PipelineResult(value=v): every manager saw both events exactly once and on_pipeline_complete carried v *)
    (forall v, main_state st = Some (TDone (SVal v)) ->
       (forall m, m < p_mgrs P -> cnt (is_ps m) (st_trace st) = 1 /\ cnt (is_pc m) (st_trace st) = 1) /\
       (forall m n e r, In (OEmit m EvPipelineComplete n e r) (st_trace st) -> e = None /\ r = Some v)) /\
    (* run returned PipelineResult(error=x): likewise with the error *)
    (forall x, main_state st = Some (TDone (SResErr x)) ->
       (forall m, m < p_mgrs P -> cnt (is_ps m) (st_trace st) = 1 /\ cnt (is_pc m) (st_trace st) = 1) /\
       (forall m n e r, In (OEmit m EvPipelineComplete n e r) (st_trace st) -> e = Some x /\ r = None)).
Proof.
  intros (Hg & Hb & _) Hnf st Hr. destruct (graph_plain_sound _ Hg) as [Hsw Hhd].
  destruct (creach_pipe P Hsw Hhd Hb Hnf st None (reachable_creach P st Hr)) as [js [jc [pay [(S1 & S2 & S3 & S4) HT]]]].
  assert (Hmain : forall r, main_state st = Some (TDone r) -> main_ok P js jc pay (TDone r)).
  { intros r Hm. unfold main_state in Hm. destruct (find_task main_tid (st_tasks st)) as [x|] eqn:F; [|discriminate Hm]. cbn in Hm. inversion Hm as [Es].
    destruct (find_task_in _ _ _ F) as [Hin Hid]. pose proof (main_named st x (ev_reachable P st Hr) Hin Hid) as Hnm.
    unfold tasks_ok in HT. rewrite Forall_forall in HT. destruct (HT x Hin Hnm) as [_ Hm']. exact Hm'. }
  split; [intros m; exact (seen_le1 P _ _ _ m S1)|]. split; [intros m; exact (seen_le1 P _ _ _ m S2)|]. split; [exact S3|].
  split; [intros m n e r Hin; exact (proj1 (S4 m n e r Hin))|]. split.
  - intros v Hm. destruct (Hmain _ Hm) as (Hjs & Hjc & ->). split.
    + intros m Hlt. split; [exact (seen_all P _ _ _ m S1 Hjs Hlt)|exact (seen_all P _ _ _ m S2 Hjc Hlt)].
    + intros m n e r Hin. destruct (S4 m n e r Hin) as [_ E]. inversion E. auto.
  - intros x Hm. destruct (Hmain _ Hm) as (Hjs & Hjc & ->). split.
    + intros m Hlt. split; [exact (seen_all P _ _ _ m S1 Hjs Hlt)|exact (seen_all P _ _ _ m S2 Hjc Hlt)].
    + intros m n e r Hin. destruct (S4 m n e r Hin) as [_ E]. inversion E. auto.
Qed.

(* ---- on_pipeline_start comes before anything else ------------------------------------------------------------------------- *)
Lemma cnt_nops m l : forallb (fun o => negb (is_ps_any o)) l = true -> cnt (is_ps m) l = 0.
Proof.
  induction l as [|x r IH]; [reflexivity|]. cbn [forallb]. intros H. apply andb_true_iff in H. destruct H as [Hx Hr]. rewrite cnt_cons, (IH Hr).
  destruct x; try reflexivity. destruct ev; try reflexivity. discriminate Hx.
Qed.

Section OrderStart.
  Variable P : prog.
  Notation G := (b_graph (build (p_decls P) (p_inp P) (p_out P))).
  Notation M := (p_mgrs P).
  Hypothesis Hsw : forall n, is_switch G n = false.
  Hypothesis Hhd : forall n, is_head G n = false.
  Hypothesis Hbody : forall i kw a v, p_body P i kw a = OVal v -> clean v = true.
  Hypothesis Hnf : forall m ev n k, p_mgr_fault P m ev n k = false.

  Definition started (tr : list obs) : Prop := forall m, m < M -> cnt (is_ps m) tr = 1.
  (* everything in the history other than the creation of the chart task and on_pipeline_start callbacks comes after every manager's
     on_pipeline_start *)
  Definition first_ok (tr : list obs) : Prop := forall a o b, tr = a ++ o :: b -> early o = false -> started b.
  Definition ordI (st : mstate) : Prop := (names st = [TNMain] \/ started (st_trace st)) /\ first_ok (st_trace st).

  Lemma started_app new tr : started tr -> forallb (fun o => negb (is_ps_any o)) new = true -> started (new ++ tr).
  Proof. intros H Hn m Hm. rewrite cnt_app, (cnt_nops m new Hn). exact (H m Hm). Qed.

  Lemma first_ok_app new tr :
    first_ok tr -> (forallb early new = true \/ (started tr /\ forallb (fun o => negb (is_ps_any o)) new = true)) -> first_ok (new ++ tr).
  Proof.
    intros Hf. induction new as [|x r IH]; intros Hd; [exact Hf|].
    intros a o b E He. destruct a as [|y a'].
    - cbn [app] in E. inversion E; subst o b. destruct Hd as [Hd|[Hs Hd]].
      + cbn [forallb] in Hd. apply andb_true_iff in Hd. destruct Hd as [Hx _]. rewrite Hx in He. discriminate He.
      + cbn [forallb] in Hd. apply andb_true_iff in Hd. destruct Hd as [_ Hr]. apply started_app; assumption.
    - cbn [app] in E. inversion E as [[Ey E']]. apply (IH ltac:(destruct Hd as [Hd|[Hs Hd]]; cbn [forallb] in Hd; apply andb_true_iff in Hd; destruct Hd as [_ Hr]; [left; exact Hr|right; split; assumption]) a' o b E' He).
  Qed.

  Lemma seen_started js tr : seen P is_ps js tr -> M <= js -> started tr.
  Proof. intros H Hj m Hm. exact (seen_all P _ _ _ m H Hj Hm). Qed.

  (* once started, always started: no manager is told twice *)
  Lemma started_keep js new tr : started tr -> seen P is_ps js (new ++ tr) -> started (new ++ tr).
  Proof.
    intros Hs H m Hm. pose proof (seen_le1 P _ _ _ m H) as Hle. rewrite cnt_app in *. rewrite (Hs m Hm) in *. lia.
  Qed.

  Theorem creach_order_start : forall st c, creach P st c -> ordI st.
  Proof.
    intros st c H. pose proof (creach_base P Hsw Hhd Hbody st c H) as Hb0.
    induction H as [|st t rest x k sg H IH Hq Hf Ht|st t rest H IH Hq|st t fr rest sg H IH|st t sg H IH|st c H IH|st g H IH|st H IH].
    - split; [left; reflexivity|]. intros a o b E He. cbn in E. destruct a as [|y a']; [inversion E; subst; discriminate He|].
      inversion E. destruct a'; discriminate.
    - exact (IH (creach_base P Hsw Hhd Hbody _ _ H)).
    - exact (IH (creach_base P Hsw Hhd Hbody _ _ H)).
    - pose proof (creach_base P Hsw Hhd Hbody _ _ H) as Hb. destruct (IH Hb) as [G3 Hfo].
      pose proof (creach_mainname P Hsw Hhd Hbody _ _ H) as Hmn.
      destruct (creach_pipe P Hsw Hhd Hbody Hnf _ _ H) as [js [jc [pay [HF HT]]]].
      destruct (creach_pipe P Hsw Hhd Hbody Hnf _ _ (cr_step P st t fr rest sg H)) as [js1 [jc1 [pay1 [HF1 _]]]]. rewrite trace_after_step in HF1.
      destruct (b_cur _ _ _ Hb) as [x0 [Hf0 [Hk [Hs [Ho _]]]]]. cbn [plain_stack forallb] in Hk, Ho. apply andb_true_iff in Hk. destruct Hk as [Kf Kr].
      apply andb_true_iff in Ho. destruct Ho as [Of Or]. pose proof (b_ps _ _ _ Hb) as Hps.
      destruct (find_task_in _ _ _ Hf0) as [Hin0 Hid0].
      destruct (creach_typed P Hsw Hhd Hbody _ _ H) as [_ Hty]. cbn [typed_cur typed_stack] in Hty.
      unfold ordI. rewrite trace_after_step, names_after_step, (plain_step_names P Hsw Hhd t fr sg st Kf Hs Hps).
      destruct (Nat.eqb_spec t main_tid) as [->|Hne].
      + cbn [cstate] in HT. destruct HF as (S1 & _). destruct HF1 as (S1' & _).
        destruct (main_step_new P Hnf js jc pay main_tid fr rest sg st HT Hty) as [new [Etr [Hd Hcr]]]. rewrite Etr in *.
        assert (Hd' : forallb early new = true \/ started (st_trace st) /\ forallb (fun o => negb (is_ps_any o)) new = true).
        { destruct Hd as [Hd|[Hj Hd]]; [left; exact Hd|right; split; [exact (seen_started js _ S1 Hj)|exact Hd]]. }
        split; [|apply first_ok_app; assumption].
        destruct (creates P fr sg st) as [|nm l] eqn:Ec.
        * rewrite app_nil_r. destruct G3 as [G3|G3]; [left; exact G3|right; exact (started_keep js1 new _ G3 S1')].
        * right. apply (started_keep js1 new _); [|exact S1']. apply (seen_started js _ S1). apply Hcr. discriminate.
      + assert (Hnm : t_name x0 <> TNMain).
        { intros Hn. unfold tasks_ok in Hmn. rewrite Forall_forall in Hmn. apply Hne. rewrite <- Hid0. exact (Hmn x0 Hin0 Hn). }
        destruct (plain_step_nopipe P (t_name x0) t fr sg st Kf Hs Hps Hnm Of) as [new [Etr Hnew]]. rewrite Etr.
        assert (Hst : started (st_trace st)).
        { destruct G3 as [G3|G3]; [|exact G3]. exfalso. unfold names in G3. apply Hnm.
          apply (in_map (@t_name frame)) in Hin0. rewrite G3 in Hin0. destruct Hin0 as [E|[]]. symmetry. exact E. }
        assert (Hnops : forallb (fun o => negb (is_ps_any o)) new = true).
        { rewrite forallb_forall in *. intros o Ho'. specialize (Hnew o Ho'). destruct o; try reflexivity. destruct ev; try reflexivity. discriminate Hnew. }
        split; [right; apply started_app; assumption|apply first_ok_app; [exact Hfo|right; split; assumption]].
    - destruct (IH (creach_base P Hsw Hhd Hbody _ _ H)) as [G3 Hfo]. split; [|exact Hfo]. destruct G3 as [G3|G3]; [left|right; exact G3].
      rewrite <- G3. exact (sn_set_tstate t (TDone sg) st).
    - destruct (IH (creach_base P Hsw Hhd Hbody _ _ H)) as [G3 Hfo]. split; [|exact Hfo]. destruct G3 as [G3|G3]; [left|right; exact G3].
      rewrite <- G3. exact (sn_abort P st).
    - destruct (IH (creach_base P Hsw Hhd Hbody _ _ H)) as [G3 Hfo]. unfold ordI, complete_gate. rewrite trace_wake_all, names_wake_all. split; assumption.
    - destruct (IH (creach_base P Hsw Hhd Hbody _ _ H)) as [G3 Hfo]. unfold ordI. rewrite trace_cancel_task, names_cancel_task. split; assumption.
  Qed.
End OrderStart.

Theorem plain_pipeline_start_comes_first P :
  plain_prog P -> (forall m ev n k, p_mgr_fault P m ev n k = false) ->
  forall st, reachable P st ->
    forall a o b, st_trace st = a ++ o :: b -> early o = false -> forall m, m < p_mgrs P -> cnt (is_ps m) b = 1.
Proof.
  intros (Hg & Hb & _) Hnf st Hr. destruct (graph_plain_sound _ Hg) as [Hsw Hhd].
  destruct (creach_order_start P Hsw Hhd Hb Hnf st None (reachable_creach P st Hr)) as [_ Hfo]. exact Hfo.
Qed.
