From MLPE Require Import Pure.Validate.

Lemma first_some_none {A B} (f : A -> option B) l : first_some f l = None <-> forall x, In x l -> f x = None.
Proof.
  induction l as [|a l IH]; simpl; [split; [intros _ x []|reflexivity]|].
  destruct (f a) eqn:E.
  - split; [discriminate|]. intros H. rewrite (H a (or_introl eq_refl)) in E. discriminate.
  - rewrite IH. split; [intros H x [->|Hx]; auto|intros H x Hx; apply H; right; exact Hx].
Qed.

Lemma first_some_some {A B} (f : A -> option B) l e : first_some f l = Some e -> exists x, In x l /\ f x = Some e.
Proof.
  induction l as [|a l IH]; simpl; [discriminate|].
  destruct (f a) eqn:E.
  - intros H. inversion H; subst. exists a. split; [left; reflexivity|exact E].
  - intros H. destruct (IH H) as [x [Hx Hf]]. exists x. split; [right; exact Hx|exact Hf].
Qed.

(* if every element yields either nothing or e, and some element yields e, the first answer is e *)
Lemma first_some_unique {A B} (f : A -> option B) l e :
  (forall x, In x l -> f x = None \/ f x = Some e) -> (exists x, In x l /\ f x = Some e) -> first_some f l = Some e.
Proof.
  induction l as [|a l IH]; simpl; intros Hall [x [Hx Hf]]; [destruct Hx|].
  destruct (Hall a (or_introl eq_refl)) as [Ha|Ha]; rewrite Ha; [|reflexivity].
  apply IH; [intros y Hy; apply Hall; right; exact Hy|].
  destruct Hx as [->|Hx]; [congruence|]. exists x. split; assumption.
Qed.

Section V.
  Variable ds : decls.
  Variable flags : nat -> defects.
  Variable inp out : nat.
  Let B := build ds inp out.

  Definition examined (i : nat) : Prop := In i (b_pop B).
  Definition rec_dest (d : nat) : Prop := exists s, In (s, KN d) (b_recs B).
  Definition rec_start (s : nat) : Prop := exists d, In (KN s, d) (b_recs B).

  Definition clean : Prop :=
    (forall i, examined i -> node_error (flags i) = None)
    /\ (forall d, rec_dest d -> df_no_rec_protocol (flags d) = false)
    /\ (forall s, rec_start s -> df_no_additional_data (flags s) = false).

  Lemma dest_fun_none :
    first_some (fun sd : key * key => match real_of (snd sd) with
                                      | Some d => if df_no_rec_protocol (flags d) then Some EIncorrectRecurrentMixin else None
                                      | None => None
                                      end) (b_recs B) = None
    <-> forall d, rec_dest d -> df_no_rec_protocol (flags d) = false.
  Proof.
    rewrite first_some_none. split.
    - intros H d [s Hs]. specialize (H (s, KN d) Hs). simpl in H. destruct (df_no_rec_protocol (flags d)); [discriminate|reflexivity].
    - intros H [s k] Hx. simpl. destruct k as [d| |]; simpl; try reflexivity. rewrite (H d); [reflexivity|]. exists s. exact Hx.
  Qed.

  Lemma start_fun_none :
    first_some (fun sd : key * key => match real_of (fst sd) with
                                      | Some s => if df_no_additional_data (flags s) then Some EIncorrectParamsRecurrentNode else None
                                      | None => None
                                      end) (b_recs B) = None
    <-> forall s, rec_start s -> df_no_additional_data (flags s) = false.
  Proof.
    rewrite first_some_none. split.
    - intros H s [d Hd]. specialize (H (KN s, d) Hd). simpl in H. destruct (df_no_additional_data (flags s)); [discriminate|reflexivity].
    - intros H [k d] Hx. simpl. destruct k as [s| |]; simpl; try reflexivity. rewrite (H s); [reflexivity|]. exists d. exact Hx.
  Qed.

  (* sound and complete: the build is accepted iff nothing examined is defective *)
  Theorem validate_accepts_iff_clean : validate ds flags inp out = None <-> clean.
  Proof.
    unfold validate, clean. fold B. split.
    - intros H.
      destruct (first_some (fun i => node_error (flags i)) (b_pop B)) eqn:E1; [discriminate|].
      destruct (first_some _ (b_recs B)) eqn:E2 in H; [discriminate|].
      repeat split.
      + apply first_some_none. exact E1.
      + apply dest_fun_none. exact E2.
      + apply start_fun_none. exact H.
    - intros [H1 [H2 H3]].
      rewrite (proj2 (first_some_none _ _) H1).
      rewrite (proj2 dest_fun_none H2). apply start_fun_none. exact H3.
  Qed.

  (* specific: a single defective class, wherever the traversal meets it, yields exactly its error *)
  Theorem validate_specific_node n e :
    examined n -> node_error (flags n) = Some e ->
    (forall i, examined i -> i <> n -> node_error (flags i) = None) ->
    validate ds flags inp out = Some e.
  Proof.
    intros Hn He Hothers. unfold validate. fold B.
    rewrite (first_some_unique (fun i => node_error (flags i)) (b_pop B) e); [reflexivity| |].
    - intros x Hx. destruct (Nat.eq_dec x n) as [->|Hne]; [right; exact He|left; apply Hothers; assumption].
    - exists n. split; assumption.
  Qed.

  Theorem validate_specific_rec_dest d :
    (forall i, examined i -> node_error (flags i) = None) ->
    rec_dest d -> df_no_rec_protocol (flags d) = true ->
    validate ds flags inp out = Some EIncorrectRecurrentMixin.
  Proof.
    intros H1 [s Hs] Hd. unfold validate. fold B. rewrite (proj2 (first_some_none _ _) H1).
    rewrite (first_some_unique _ (b_recs B) EIncorrectRecurrentMixin); [reflexivity| |].
    - intros [s' k] _. simpl. destruct k as [d'| |]; simpl; auto. destruct (df_no_rec_protocol (flags d')); auto.
    - exists (s, KN d). split; [exact Hs|]. simpl. rewrite Hd. reflexivity.
  Qed.

  Theorem validate_specific_rec_start s :
    (forall i, examined i -> node_error (flags i) = None) ->
    (forall d, rec_dest d -> df_no_rec_protocol (flags d) = false) ->
    rec_start s -> df_no_additional_data (flags s) = true ->
    validate ds flags inp out = Some EIncorrectParamsRecurrentNode.
  Proof.
    intros H1 H2 [d Hd] Hs. unfold validate. fold B. rewrite (proj2 (first_some_none _ _) H1).
    rewrite (proj2 dest_fun_none H2).
    apply first_some_unique.
    - intros [k d'] _. simpl. destruct k as [s'| |]; simpl; auto. destruct (df_no_additional_data (flags s')); auto.
    - exists (KN s, d). split; [exact Hd|]. simpl. rewrite Hs. reflexivity.
  Qed.
End V.
