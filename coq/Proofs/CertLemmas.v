(* What a certificate (Explore/Safe.v: certify = true) means for the real, history-carrying states of that program. *)
From MLPE Require Import Engine.Run Spec.Dataflow Spec.Fragments Proofs.ExecLemmas Explore.StateEq Explore.Erase Explore.Explorer Explore.Safe.

Section Cert.
  Variable P : prog.

  Lemma andb3 a b c : a && b && c = true -> a = true /\ b = true /\ c = true.
  Proof. intros H. apply andb_true_iff in H. destruct H as [H ?]. apply andb_true_iff in H. destruct H. auto. Qed.

  Lemma full_parts c st :
    safe_full P c st = true ->
    deadlocked st = false /\ aborted st = false /\ safe_outcome P c st = true /\ safe_counts P st = true
    /\ safe_kwargs P st = true /\ safe_saves st = true /\ st_ready (quiesce P quiesce_bound st) = []
    /\ safe_events P st = true /\ (frag_Plain (p_decls P) = true -> safe_c06 P st = true).
  Proof.
    unfold safe_full, safe_all, safe_live, safe_quiesce. intros H.
    apply andb_true_iff in H. destruct H as [H H6]. apply andb_true_iff in H. destruct H as [H Hev].
    assert (H6' : frag_Plain (p_decls P) = true -> safe_c06 P st = true).
    { intros E. rewrite E in H6. exact H6. }
    apply andb3 in H. destruct H as [H [Hs Hq]]. apply andb_true_iff in H. destruct H as [H Hk].
    apply andb3 in H. destruct H as [Hl [Ho Hc]]. apply andb_true_iff in Hl. destruct Hl as [Hd Ha].
    apply negb_true_iff in Hd, Ha. destruct (st_ready (quiesce P quiesce_bound st)); [auto 12|discriminate].
  Qed.

  Lemma cert_full_reachable fuel st :
    certify P true fuel (safe_full P true) = true -> reachable P st -> safe_full P true st = true.
  Proof.
    intros Hc Hr. pose proof (certify_sound P true fuel _ Hc st (reachable_by_true P st Hr)) as H.
    unfold safe_full in *. rewrite safe_all_erase, safe_saves_erase, safe_quiesce_erase in H. exact H.
  Qed.

  Lemma cert_term_reachable fuel st :
    certify P true fuel (safe_term P) = true -> reachable P st ->
    deadlocked st = false /\ aborted st = false /\ st_ready (quiesce P quiesce_bound st) = [].
  Proof.
    intros Hc Hr. pose proof (certify_sound P true fuel _ Hc st (reachable_by_true P st Hr)) as H.
    unfold safe_term in H. rewrite safe_live_erase, safe_quiesce_erase in H. unfold safe_live, safe_quiesce in H.
    apply andb_true_iff in H. destruct H as [Hl Hq]. apply andb_true_iff in Hl. destruct Hl as [Hd Ha].
    apply negb_true_iff in Hd, Ha. destruct (st_ready (quiesce P quiesce_bound st)); [auto|discriminate].
  Qed.

  Lemma cert_outcome_nc fuel sched r :
    certify P false fuel (safe_outcome P false) = true ->
    forallb (act_ok false) sched = true -> main_state (run_sched P sched) = Some (TDone r) -> outcome_ok P false r = true.
  Proof.
    intros Hc Hs Hm. pose proof (certify_sound P false fuel _ Hc _ (run_sched_reachable_by P false sched Hs)) as H.
    rewrite safe_outcome_erase in H. unfold safe_outcome in H. rewrite Hm in H. exact H.
  Qed.

  Lemma alookup_found {K V} (eqb : K -> K -> bool) k (l : list (K * V)) v :
    alookup eqb k l = Some v -> exists k', In (k', v) l /\ eqb k k' = true.
  Proof.
    induction l as [|[k' v'] r IH]; cbn; [discriminate|]. destruct (eqb k k') eqn:E.
    - intros H. inversion H; subst. exists k'. split; [left; reflexivity|exact E].
    - intros H. destruct (IH H) as [k2 [Hin He]]. exists k2. split; [right; exact Hin|exact He].
  Qed.

  Lemma safe_counts_bound st i : safe_counts P st = true -> ctr_get (CBody i) st <= ref_invocations P i.
  Proof.
    unfold safe_counts, ctr_get. intros H. destruct (alookup ctr_eqb (CBody i) (st_ctrs st)) as [k|] eqn:E; [|lia].
    destruct (alookup_found _ _ _ _ E) as [c [Hin He]]. rewrite forallb_forall in H. specialize (H _ Hin). cbn in H.
    destruct c; try discriminate He. cbn in He. apply Nat.eqb_eq in He. subst. apply Nat.leb_le. exact H.
  Qed.

  (* the value-level meaning of outcome_ok *)
  Lemma outcome_value c v : outcome_ok P c (SVal v) = true -> ref_res P = ROk v.
  Proof. unfold outcome_ok. destruct (ref_res P) as [v'|cs]; [|discriminate]. intros H. apply value_seqb_sound in H. subst. reflexivity. Qed.
End Cert.

From MLPE Require Import Catalogue.Programs Catalogue.Certified.

Lemma certified_facts P st :
  certified_full P -> reachable P st ->
  deadlocked st = false /\ aborted st = false /\ safe_outcome P true st = true /\ safe_counts P st = true
  /\ safe_kwargs P st = true /\ safe_saves st = true /\ st_ready (quiesce P quiesce_bound st) = []
  /\ safe_events P st = true /\ (frag_Plain (p_decls P) = true -> safe_c06 P st = true).
Proof. intros [fuel [H _]] Hr. exact (full_parts P true st (cert_full_reachable P fuel st H Hr)). Qed.

Lemma certified_outcome_without_cancel P sched r :
  certified_full P -> forallb (act_ok false) sched = true -> main_state (run_sched P sched) = Some (TDone r) ->
  outcome_ok P false r = true.
Proof. intros [fuel [_ H]]. apply (cert_outcome_nc P fuel). exact H. Qed.

Lemma in_clean_certified P : In P catalogue_clean -> certified_full P.
Proof. intros H. pose proof catalogue_clean_certified as F. rewrite Forall_forall in F. apply F. exact H. Qed.

(* membership in a literal list, by syntactic search (no normalisation of the programs) *)
Ltac in_catalogue :=
  unfold catalogue_clean, catalogue_faulty; cbn [In];
  repeat match goal with
         | |- ?x = ?x \/ _ => left; reflexivity
         | |- ?x = ?x => reflexivity
         | |- _ \/ _ => right
         end.
