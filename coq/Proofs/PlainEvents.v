(* Plain programs, every schedule, any number of event managers that do not raise (suspending ones included):
   the order of lifecycle events relative to the data flow (C14).
   - a node's result is stored -- hence can reach a consumer -- only after EVERY manager has been told
     on_node_complete(node, error=None) for it;
   - a body is invoked only after every manager has seen the successful on_node_complete of each of its inputs. *)
From MLPE Require Import Engine.Run Proofs.ExecLemmas Proofs.Evolve Proofs.StackInv Proofs.ReadyInv Proofs.WaitInv Explore.StateEq
     Proofs.ProcessedInv Proofs.PlainWorld Proofs.PlainLaunch Proofs.PlainLive Proofs.Micro Proofs.PlainBase Proofs.PlainCore Proofs.PlainInv
     Proofs.PlainRoles Proofs.PlainExec Proofs.PlainArgs Proofs.AssocLemmas.

Definition done_ev (m : nat) (n : key) : obs := OEmit m EvNodeComplete (Some n) None None.

(* what may sit directly on top of a frame that receives a node's value: only the frame that produced / announced it *)
Definition adj (f g : frame) : bool :=
  match g with
  | FExecAfterOk _ n _ => match f with FEmit EvNodeComplete (Some n') None None _ _ => key_eqb n' n | _ => false end
  | FNodeAfterExec _ n =>
    match f with
    | FExecStart _ n' _ | FExecAfterStart _ n' _ | FExecAfterBody _ n' | FExecAfterOk _ n' _ | FExecDup n' => key_eqb n' n
    | FExecAfterErr _ _ => true
    | _ => false
    end
  | FEmit _ _ _ _ _ _ => false          (* an emission calls nothing *)
  | _ => true
  end.
Fixpoint pairs (k : list frame) : bool :=
  match k with
  | f :: r => match r with g :: _ => adj f g && pairs r | [] => true end
  | [] => true
  end.

Lemma pairs_tail f r : pairs (f :: r) = true -> pairs r = true.
Proof. cbn [pairs]. destruct r as [|g r']; [reflexivity|]. intros H. apply andb_true_iff in H. apply H. Qed.
Lemma pairs_head f g r : pairs (f :: g :: r) = true -> adj f g = true.
Proof. cbn [pairs]. intros H. apply andb_true_iff in H. apply H. Qed.
Lemma pairs_app fr rest k' :
  pairs (fr :: rest) = true -> pairs k' = true -> (forall g, adj fr g = true -> adj (last k' fr) g = true) -> pairs (k' ++ rest) = true.
Proof.
  intros Hc Hk Hl. destruct k' as [|f k'']; [exact (pairs_tail _ _ Hc)|].
  revert f Hk Hl. induction k'' as [|g r' IH]; intros f Hk Hl.
  - cbn [app last] in *. destruct rest as [|g0 r0]; [reflexivity|]. cbn [pairs]. rewrite (Hl g0 (pairs_head _ _ _ Hc)).
    exact (pairs_tail _ _ Hc).
  - change ((f :: g :: r') ++ rest) with (f :: (g :: r') ++ rest). cbn [pairs app]. cbn [pairs] in Hk. apply andb_true_iff in Hk.
    destruct Hk as [Ha Hk]. rewrite Ha. cbn [andb]. apply IH; [exact Hk|exact Hl].
Qed.

Definition dir_ne (d : directive) : bool := match d with DRet _ => true | DSuspend _ k | DYield k | DCont k _ => match k with [] => false | _ => true end end.

Section EventSteps.
  Variable P : prog.
  Notation G := (b_graph (build (p_decls P) (p_inp P) (p_out P))).
  Hypothesis Hsw : forall n, is_switch G n = false.
  Hypothesis Hhd : forall n, is_head G n = false.
  Hypothesis Hbody : forall i kw a v, p_body P i kw a = OVal v -> clean v = true.
  Hypothesis Hnf : forall m ev n k, p_mgr_fault P m ev n k = false.

  (* every manager has been told that n completed successfully *)
  Definition ann (tr : list obs) (n : key) : Prop := forall m, m < p_mgrs P -> In (done_ev m n) tr.

  Definition topF (tr : list obs) (f : frame) (sg : option signal) : Prop :=
    match f with
    | FEmit EvNodeComplete (Some n) None None mgr r => forall m, m < mgr + (if r then 1 else 0) -> m < p_mgrs P -> In (done_ev m n) tr
    | FExecAfterOk _ n _ | FNodeAfterExec _ n => (exists v, sg = Some (SVal v)) -> ann tr n
    | _ => True
    end.
  Definition topC (tr : list obs) (k : list frame) (sg : option signal) : Prop :=
    match k with f :: _ => topF tr f sg | [] => True end.
  Definition below_ok (tr : list obs) (g : frame) : Prop :=
    match g with FExecAfterOk _ n _ | FNodeAfterExec _ n => ann tr n | _ => True end.

  Lemma ann_mono new tr n : ann tr n -> ann (new ++ tr) n.
  Proof. intros H m Hm. apply in_or_app. right. exact (H m Hm). Qed.
  Lemma topF_mono new tr f sg : topF tr f sg -> topF (new ++ tr) f sg.
  Proof.
    destruct f; cbn [topF]; try (intros; exact I).
    - destruct ev; try (intros; exact I). destruct n as [n|]; try (intros; exact I). destruct err; try (intros; exact I).
      destruct res; try (intros; exact I). intros H m Hm Hp. apply in_or_app. right. exact (H m Hm Hp).
    - intros H Hs. apply ann_mono. exact (H Hs).
    - intros H Hs. apply ann_mono. exact (H Hs).
  Qed.
  Lemma topC_mono new tr k sg : topC tr k sg -> topC (new ++ tr) k sg.
  Proof. destruct k; [auto|apply topF_mono]. Qed.

  Definition top_after (tr : list obs) (fr : frame) (d : directive) : Prop :=
    match d with
    | DSuspend _ k' => topC tr k' None
    | DYield k' => topC tr k' (Some SGo)
    | DCont k' s' => topC tr k' (Some s')
    | DRet s' => forall v, s' = SVal v -> forall g, adj fr g = true -> below_ok tr g
    end.

  Ltac plain_prep12 :=
    repeat match goal with
           | H : (_ && _)%bool = true |- _ => apply andb_true_iff in H; destruct H
           | H : is_main P ?d = true |- _ => apply is_main_eq in H; subst d
           | H : negb ?f = true |- _ => apply negb_true_iff in H; subst f
           | H : ?u = true |- _ => is_var u; subst u
           end.

  (* the shape of what a step pushes *)
  Lemma plain_step_pairs t fr sg st :
    plain_frame P fr = true -> clean_sig sg -> PS st ->
    pairs (dir_frames (snd (step_frame P t fr sg st))) = true /\
    (forall g, adj fr g = true -> adj (last (dir_frames (snd (step_frame P t fr sg st))) fr) g = true) /\
    dir_ne (snd (step_frame P t fr sg st)) = true.
  Proof.
    intros Hf Hs Hst. pose proof Hst as Hst'. unfold PS in Hst'.
    destruct fr; try discriminate Hf; cbn [plain_frame] in Hf; plain_prep12;
      destruct sg; cbn [clean_sig] in Hs;
      try match goal with H : clean ?v = true |- _ => pose proof (clean_not_rec v H) as Hnr; pose proof (clean_not_exn v H) as Hne end;
      cbn [step_frame]; rewrite ?Hnr, ?Hne, ?Hsw, ?Hhd, ?(plain_dep_error P _ _ _ Hst'), ?(plain_no_subgraph_error _ _ Hst');
      unfold default_or_raise, reduced; cbn [d_oneof d_rec maind andb];
      repeat break_match; cbn [snd dir_frames dir_ne emit_frames pairs adj last andb]; rewrite ?key_eqb_refl;
      (split; [reflexivity|split; [intros g Hg; destruct g; cbn [adj] in *; try reflexivity; try discriminate Hg; exact Hg|reflexivity]]).
  Qed.

  (* the announcement state of what a step leaves on top, and of what it returns a value to *)
  Lemma plain_step_top t fr sg st :
    plain_frame P fr = true -> clean_sig sg -> PS st ->
    topF (st_trace st) fr (Some sg) ->
    top_after (st_trace (fst (step_frame P t fr sg st))) fr (snd (step_frame P t fr sg st)).
  Proof.
    intros Hf Hs Hst. pose proof Hst as Hst'. unfold PS in Hst'.
    destruct fr; try discriminate Hf; cbn [plain_frame] in Hf; plain_prep12;
      destruct sg; cbn [clean_sig] in Hs;
      try match goal with H : clean ?v = true |- _ => pose proof (clean_not_rec v H) as Hnr; pose proof (clean_not_exn v H) as Hne end;
      cbn [step_frame]; rewrite ?Hnr, ?Hne, ?Hsw, ?Hhd, ?Hnf, ?(plain_dep_error P _ _ _ Hst'), ?(plain_no_subgraph_error _ _ Hst');
      unfold default_or_raise, reduced; cbn [d_oneof d_rec maind andb];
      repeat break_match; spawn_norm; cbn [fst snd];
      autorewrite with core; cbn [st_trace emit_obs bump with_store spawn fst set_adddata];
      autorewrite with core; cbn [top_after topC topF emit_frames]; intros Htop;
      try exact I;
      try (intros ? Hv; discriminate Hv).
    all: try (intros m Hm; exfalso; lia).
    all: try (intros v' _ g Hg; destruct g; cbn [adj below_ok] in *; try exact I; try discriminate Hg).
    all: repeat match goal with
                | |- context [match ?e with EvPipelineStart => _ | _ => _ end] => destruct e
                | H : context [match ?e with EvPipelineStart => _ | _ => _ end] |- _ => destruct e
                | |- context [match ?o with Some _ => _ | None => _ end] => destruct o
                | H : context [match ?o with Some _ => _ | None => _ end] |- _ => destruct o
                end; try exact I; try discriminate.
    all: try (intros m Hm Hp; first [apply Htop; lia | destruct (Nat.eq_dec m mgr) as [->|Hne]; [left; reflexivity|right; apply Htop; lia]]).
    all: try match goal with Hg : key_eqb _ _ = true |- _ => apply key_eqb_spec in Hg; subst end.
    all: try (intros m Hm; apply Htop; [|exact Hm]; match goal with Hq : (_ <=? _) = true |- _ => apply Nat.leb_le in Hq; lia end).
    all: try (apply Htop; eauto).
  Qed.
End EventSteps.

Section EventInv.
  Variable P : prog.
  Notation G := (b_graph (build (p_decls P) (p_inp P) (p_out P))).
  Hypothesis Hsw : forall n, is_switch G n = false.
  Hypothesis Hhd : forall n, is_head G n = false.
  Hypothesis Hbody : forall i kw a v, p_body P i kw a = OVal v -> clean v = true.
  Hypothesis Hnf : forall m ev n k, p_mgr_fault P m ev n k = false.

  Definition TPe (tr : list obs) (x : task frame) : Prop :=
    match t_state x with
    | TReady k sg => pairs k = true /\ topC P tr k (Some sg)
    | TWait _ k => pairs k = true /\ topC P tr k None
    | TDone _ => True
    end.
  Definition cur_e (tr : list obs) (c : running) : Prop :=
    match c with Some (_, k, sg) => pairs k = true /\ topC P tr k (Some sg) | None => True end.
  Definition glob_e (st : mstate) : Prop := forall n, exists_result n (st_store st) = true -> ann P (st_trace st) n.
  Definition evI (st : mstate) (c : running) : Prop := tasks_ok (TPe (st_trace st)) st /\ cur_e (st_trace st) c /\ glob_e st.

  Lemma topC_nonval tr k s s' : (forall v, s' <> Some (SVal v)) -> topC P tr k s -> topC P tr k s'.
  Proof.
    intros Hn. destruct k as [|f r]; [auto|]. cbn [topC]. destruct f; cbn [topF]; auto.
    - intros _ [v9 Hv]. exfalso. exact (Hn v9 Hv).
    - intros _ [v9 Hv]. exfalso. exact (Hn v9 Hv).
  Qed.

  Lemma TPe_wake tr x w k : t_state x = TWait w k -> TPe tr x -> TPe tr (with_ts x (TReady k SGo)).
  Proof. unfold TPe. intros E H. rewrite E in H. cbn. destruct H as [A B]. split; [exact A|]. eapply topC_nonval; [|exact B]. intros v Hv. discriminate Hv. Qed.
  Lemma TPe_cancel_ready tr x k sg : t_state x = TReady k sg -> TPe tr x -> TPe tr (with_ts x (TReady k (SThrow XCancelled))).
  Proof. unfold TPe. intros E H. rewrite E in H. cbn. destruct H as [A B]. split; [exact A|]. eapply topC_nonval; [|exact B]. intros v Hv. discriminate Hv. Qed.
  Lemma TPe_cancel_wait tr x w k : t_state x = TWait w k -> TPe tr x -> TPe tr (with_ts x (TReady k (SThrow XCancelled))).
  Proof. unfold TPe. intros E H. rewrite E in H. cbn. destruct H as [A B]. split; [exact A|]. eapply topC_nonval; [|exact B]. intros v Hv. discriminate Hv. Qed.
  Lemma TPe_mono new tr x : TPe tr x -> TPe (new ++ tr) x.
  Proof. unfold TPe. destruct (t_state x); auto; intros [A B]; (split; [exact A|apply topC_mono; exact B]). Qed.
  Lemma tasks_TPe_mono new tr st : tasks_ok (TPe tr) st -> tasks_ok (TPe (new ++ tr)) st.
  Proof. unfold tasks_ok. apply Forall_impl. intros x. apply TPe_mono. Qed.
  Lemma tasks_TPe_same tr (a b : mstate) : st_tasks a = st_tasks b -> tasks_ok (TPe tr) b -> tasks_ok (TPe tr) a.
  Proof. unfold tasks_ok. intros ->. auto. Qed.

  Lemma step_store_result t fr sg st n :
    plain_frame P fr = true -> clean_sig sg -> PS st ->
    exists_result n (st_store (fst (step_frame P t fr sg st))) = true ->
    exists_result n (st_store st) = true \/ exists d v, fr = FNodeAfterExec d n /\ sg = SVal v.
  Proof.
    intros Kf Hs Hps Hp. pose proof Hps as Hps'. unfold PS in Hps'. destruct Hps' as [_ [Hrh _]].
    destruct (plain_step_summary P t fr sg st Kf Hs Hps) as (Hst & _ & _).
    destruct (exists_result n (st_store st)) eqn:Hn; [left; reflexivity|right].
    rewrite Hst in Hp. unfold step_store in Hp. destruct fr; try congruence; destruct sg; try congruence.
    - rewrite (result_set _ _ _ _ Hrh), Hn, orb_false_r in Hp. apply key_eqb_spec in Hp. subst. eauto.
    - destruct (exists_processed n0 (st_store st)); [congruence|]. rewrite result_set_processed in Hp. congruence.
  Qed.

  Theorem creach_events : forall st c, creach P st c -> evI st c.
  Proof.
    intros st c H. pose proof (creach_base P Hsw Hhd Hbody st c H) as Hb0.
    induction H as [|st t rest x k sg H IH Hq Hf Ht|st t rest H IH Hq|st t fr rest sg H IH|st t sg H IH|st c H IH|st g H IH|st H IH].
    - split; [|split; [exact I|]].
      + unfold tasks_ok, init_state. cbn. constructor; [|constructor]. unfold TPe. cbn. split; [reflexivity|exact I].
      + intros n Hn. cbn in Hn. discriminate Hn.
    - destruct (IH (creach_base P Hsw Hhd Hbody _ _ H)) as (A & _ & C). split; [|split].
      + apply (tasks_TPe_same _ _ st); [reflexivity|exact A].
      + destruct (find_task_in _ _ _ Hf) as [Hin _]. unfold tasks_ok in A. rewrite Forall_forall in A. specialize (A x Hin). unfold TPe in A. rewrite Ht in A. exact A.
      + exact C.
    - destruct (IH (creach_base P Hsw Hhd Hbody _ _ H)) as (A & _ & C). split; [|split; [exact I|exact C]].
      apply (tasks_TPe_same _ _ st); [reflexivity|exact A].
    - pose proof (creach_base P Hsw Hhd Hbody _ _ H) as Hb. destruct (IH Hb) as (A & [Bp Bt] & C).
      destruct (b_cur _ _ _ Hb) as [x0 [Hf0 [Hk [Hs _]]]]. cbn [plain_stack forallb] in Hk. apply andb_true_iff in Hk. destruct Hk as [Kf Kr].
      pose proof (b_ps _ _ _ Hb) as Hps.
      destruct (plain_step_pairs P t fr sg st Kf Hs Hps) as (Hp1 & Hp2 & Hp3).
      cbn [topC] in Bt.
      pose proof (plain_step_top P Hnf t fr sg st Kf Hs Hps Bt) as Htop.
      destruct (ev_trace _ _ (ev_step_frame P t fr sg st)) as [new Etr].
      assert (A1 : tasks_ok (TPe (st_trace (fst (step_frame P t fr sg st)))) (fst (step_frame P t fr sg st))).
      { apply (plain_step_tasks_gen P Hsw Hhd (TPe _) (TPe_wake _) (TPe_cancel_ready _) (TPe_cancel_wait _)); try assumption.
        - intros i. unfold TPe. cbn. split; [reflexivity|exact I].
        - intros i n. unfold TPe. cbn. split; [reflexivity|exact I].
        - rewrite Etr. apply tasks_TPe_mono. exact A. }
      assert (C1 : glob_e (fst (step_frame P t fr sg st))).
      { intros n Hn. destruct (step_store_result t fr sg st n Kf Hs Hps Hn) as [Hn0|[d [v [-> ->]]]].
        - rewrite Etr. apply ann_mono. exact (C n Hn0).
        - rewrite Etr. apply ann_mono. cbn [topF] in Bt. apply Bt. eauto. }
      assert (Hpk : pairs (dir_frames (snd (step_frame P t fr sg st)) ++ rest) = true) by (apply (pairs_app fr); assumption).
      unfold evI. rewrite !trace_after_step.
      assert (C2 : glob_e (fst (after_step t rest (step_frame P t fr sg st)))).
      { intros n Hn. rewrite store_after_step in Hn. rewrite trace_after_step. exact (C1 n Hn). }
      split; [|split; [|exact C2]].
      + destruct (step_frame P t fr sg st) as [st1 [w k'|k'|k' sg'|sg']]; cbn [after_step fst snd dir_frames dir_ne top_after] in *.
        * apply ok_suspend; [exact A1|]. intros y _ _. unfold TPe. cbn. split; [exact Hpk|].
          destruct k' as [|f1 k'']; [discriminate Hp3|exact Htop].
        * apply ok_push_ready. apply ok_set_tstate; [exact A1|]. intros y _ _. unfold TPe. cbn. split; [exact Hpk|].
          destruct k' as [|f1 k'']; [discriminate Hp3|exact Htop].
        * exact A1.
        * exact A1.
      + destruct (step_frame P t fr sg st) as [st1 [w k'|k'|k' sg'|sg']]; cbn [after_step fst snd dir_frames dir_ne top_after cur_e] in *; try exact I.
        * split; [exact Hpk|]. destruct k' as [|f1 k'']; [discriminate Hp3|exact Htop].
        * split; [exact (pairs_tail _ _ Bp)|]. destruct rest as [|g r]; [exact I|]. cbn [topC].
          pose proof (pairs_head _ _ _ Bp) as Hadj.
          destruct g; cbn [topF]; try exact I; try (cbn [adj] in Hadj; discriminate Hadj).
          all: intros [v0 Hv0]; inversion Hv0; subst sg'; exact (Htop v0 eq_refl _ Hadj).
    - destruct (IH (creach_base P Hsw Hhd Hbody _ _ H)) as (A & _ & C). split; [|split; [exact I|exact C]].
      apply ok_set_tstate; [exact A|]. intros y _ _. exact I.
    - destruct (IH (creach_base P Hsw Hhd Hbody _ _ H)) as (A & _ & C). split; [|split; [exact I|exact C]].
      apply ok_abort; [|exact A]. intros y k0 _. exact I.
    - destruct (IH (creach_base P Hsw Hhd Hbody _ _ H)) as (A & _ & C). unfold evI, complete_gate. rewrite trace_wake_all.
      split; [|split; [exact I|]].
      + apply (complete_gate_tasks_ok (TPe _) (TPe_wake _)). exact A.
      + intros n Hn. rewrite store_wake_all in Hn. rewrite trace_wake_all. exact (C n Hn).
    - destruct (IH (creach_base P Hsw Hhd Hbody _ _ H)) as (A & _ & C). unfold evI. rewrite trace_cancel_task.
      split; [|split; [exact I|]].
      + apply (ok_cancel_task (TPe _) (TPe_cancel_ready _) (TPe_cancel_wait _)). exact A.
      + intros n Hn. rewrite store_cancel_task in Hn. rewrite trace_cancel_task. exact (C n Hn).
  Qed.
End EventInv.

(* ---- no argument before the announcement: the order of body invocations and on_node_complete in the history ------------------- *)
Definition is_ostart (o : obs) : bool := match o with OStart _ _ _ => true | _ => false end.

Lemma split_in_suffix (new tr a b : list obs) (x : obs) :
  forallb (fun o => negb (is_ostart o)) new = true -> is_ostart x = true ->
  new ++ tr = a ++ x :: b -> exists a', a = new ++ a' /\ tr = a' ++ x :: b.
Proof.
  revert a. induction new as [|o r IH]; intros a Hn Hx E.
  - exists a. split; [reflexivity|exact E].
  - cbn [forallb] in Hn. apply andb_true_iff in Hn. destruct Hn as [Ho Hr].
    destruct a as [|y a'].
    + cbn [app] in E. inversion E; subst. rewrite Hx in Ho. discriminate Ho.
    + cbn [app] in E. inversion E; subst. destruct (IH a' Hr Hx H1) as [a'' [-> ->]]. exists a''. split; reflexivity.
Qed.

Section TraceOrder.
  Variable P : prog.
  Notation G := (b_graph (build (p_decls P) (p_inp P) (p_out P))).
  Hypothesis Hsw : forall n, is_switch G n = false.
  Hypothesis Hhd : forall n, is_head G n = false.
  Hypothesis Hbody : forall i kw a v, p_body P i kw a = OVal v -> clean v = true.
  Hypothesis Hnf : forall m ev n k, p_mgr_fault P m ev n k = false.
  Notation order := (p_order P (maind P)).
  Hypothesis Hnd : NoDup order.

  Ltac plain_prep13 :=
    repeat match goal with
           | H : (_ && _)%bool = true |- _ => apply andb_true_iff in H; destruct H
           | H : is_main P ?d = true |- _ => apply is_main_eq in H; subst d
           | H : negb ?f = true |- _ => apply negb_true_iff in H; subst f
           | H : ?u = true |- _ => is_var u; subst u
           end.

  Ltac prefix_of l tr :=
    lazymatch l with
    | tr => constr:(@nil obs)
    | ?x :: ?r => let p := prefix_of r tr in constr:(x :: p)
    end.

  (* how the history grows in one step: by one body invocation, at the frame that makes it, or by no invocation at all *)
  Lemma plain_step_trace_ostart t fr sg st :
    plain_frame P fr = true -> clean_sig sg -> PS st ->
    (exists i kw att, fr = FRetry i false kw att /\ sg = SGo /\
                      st_trace (fst (step_frame P t fr sg st)) = OStart i (ctr_get (CBody i) st) kw :: st_trace st) \/
    (exists new, st_trace (fst (step_frame P t fr sg st)) = new ++ st_trace st /\ forallb (fun o => negb (is_ostart o)) new = true).
  Proof.
    intros Hf Hs Hst. pose proof Hst as Hst'. unfold PS in Hst'.
    destruct fr; try discriminate Hf; cbn [plain_frame] in Hf; plain_prep13;
      destruct sg; cbn [clean_sig] in Hs;
      try match goal with H : clean ?v = true |- _ => pose proof (clean_not_rec v H) as Hnr; pose proof (clean_not_exn v H) as Hne end;
      cbn [step_frame]; rewrite ?Hnr, ?Hne, ?Hsw, ?Hhd, ?(plain_dep_error P _ _ _ Hst'), ?(plain_no_subgraph_error _ _ Hst');
      unfold default_or_raise, reduced; cbn [d_oneof d_rec maind andb];
      repeat break_match; spawn_norm; cbn [fst];
      autorewrite with core; cbn [st_trace emit_obs bump with_store spawn fst set_adddata];
      autorewrite with core;
      first [ left; do 3 eexists; repeat split; reflexivity
            | right;
              match goal with |- exists new, ?l = new ++ ?tr /\ _ => let p := prefix_of l tr in exists p; split; reflexivity end ].
  Qed.

  Definition tr_ok (tr : list obs) : Prop :=
    forall a b i k kw, tr = a ++ OStart i k kw :: b ->
      exists m, real_index m = i /\ forall p, In p (preds G m) -> ann P b p.

  Definition orderI (st : mstate) : Prop := guard st \/ tr_ok (st_trace st).

  Theorem creach_order : forall st c, creach P st c -> orderI st.
  Proof.
    intros st c H. pose proof (creach_base P Hsw Hhd Hbody st c H) as Hb0.
    induction H as [|st t rest x k sg H IH Hq Hf Ht|st t rest H IH Hq|st t fr rest sg H IH|st t sg H IH|st c H IH|st g H IH|st H IH].
    - right. intros a b i k kw E. cbn in E. destruct a as [|y a']; [discriminate E|]. inversion E. destruct a'; discriminate.
    - destruct (IH (creach_base P Hsw Hhd Hbody _ _ H)) as [Hg|Ho]; [left; exact Hg|right; exact Ho].
    - destruct (IH (creach_base P Hsw Hhd Hbody _ _ H)) as [Hg|Ho]; [left; exact Hg|right; exact Ho].
    - pose proof (creach_base P Hsw Hhd Hbody _ _ H) as Hb.
      destruct (IH Hb) as [Hg|Ho]; [left; apply (guard_step P); assumption|].
      destruct (creach_args P Hsw Hhd Hbody Hnd _ _ H) as [Hg|[GA HAa]]; [left; apply (guard_step P); assumption|].
      destruct (creach_events P Hsw Hhd Hbody Hnf _ _ H) as (_ & _ & GE).
      right. unfold orderI. rewrite trace_after_step.
      destruct (b_cur _ _ _ Hb) as [x0 [Hf0 [Hk [Hs [Ho' _]]]]]. cbn [plain_stack forallb] in Hk, Ho'. apply andb_true_iff in Hk. destruct Hk as [Kf Kr].
      apply andb_true_iff in Ho'. destruct Ho' as [Of Or].
      pose proof (b_ps _ _ _ Hb) as Hps.
      destruct (plain_step_trace_ostart t fr sg st Kf Hs Hps) as [[i [kw [att (-> & -> & Etr)]]]|[new [Etr Hnew]]].
      + rewrite Etr. intros a b i' k' kw' E. destruct a as [|y a'].
        * cbn [app] in E. inversion E; subst i' k' kw' b.
          assert (Enm : exists m, t_name x0 = TNNode m /\ i = real_index m).
          { destruct (t_name x0); try discriminate Of. cbn in Of. apply Nat.eqb_eq in Of. eauto. }
          destruct Enm as [m [Enm Ei]]. exists m. split; [symmetry; exact Ei|].
          destruct (find_task_in _ _ _ Hf0) as [Hin0 Hid0].
          pose proof (allT_In _ _ _ x0 HAa Hin0) as Hz0. unfold PhiA in Hz0. cbn [estate ident fst snd] in Hz0. rewrite Hid0, Nat.eqb_refl in Hz0.
          destruct (Hz0 m Enm) as (_ & _ & Cp). intros p Hp. apply GE. apply Cp. exact Hp.
        * cbn [app] in E. inversion E as [[Ey E']]. exact (Ho a' b i' k' kw' E').
      + rewrite Etr. intros a b i' k' kw' E. destruct (split_in_suffix new (st_trace st) a b (OStart i' k' kw') Hnew eq_refl E) as [a' [_ E']].
        exact (Ho a' b i' k' kw' E').
    - pose proof (creach_base P Hsw Hhd Hbody _ _ H) as Hb. destruct (IH Hb) as [Hg|Ho]; [left; apply guard_done; [exact (b_ev _ _ _ Hb)|exact Hg]|right; exact Ho].
    - pose proof (creach_base P Hsw Hhd Hbody _ _ H) as Hb. left. apply guard_abort. exact (b_ev _ _ _ Hb).
    - pose proof (creach_base P Hsw Hhd Hbody _ _ H) as Hb. destruct (IH Hb) as [Hg|Ho]; [left; apply (guard_gate P); [exact (b_ev _ _ _ Hb)|exact Hg]|right].
      unfold complete_gate. rewrite trace_wake_all. exact Ho.
    - pose proof (creach_base P Hsw Hhd Hbody _ _ H) as Hb. destruct (IH Hb) as [Hg|Ho]; [left; apply (guard_cancel P); [exact (b_ev _ _ _ Hb)|exact Hg]|right].
      rewrite trace_cancel_task. exact Ho.
  Qed.
End TraceOrder.

(* ---- on schedule-reachable states -------------------------------------------------------------------------------------------- *)
Theorem plain_values_after_announcement P :
  plain_prog P -> (forall m ev n k, p_mgr_fault P m ev n k = false) ->
  forall st, reachable P st ->
    forall n, exists_result n (st_store st) = true -> forall m, m < p_mgrs P -> In (done_ev m n) (st_trace st).
Proof.
  intros (Hg & Hb & _) Hnf st Hr n Hn. destruct (graph_plain_sound _ Hg) as [Hsw Hhd].
  destruct (creach_events P Hsw Hhd Hb Hnf st None (reachable_creach P st Hr)) as (_ & _ & GE). exact (GE n Hn).
Qed.

Theorem plain_bodies_start_after_announcement P :
  plain_prog P -> NoDup (p_order P (maind P)) -> (forall m ev n k, p_mgr_fault P m ev n k = false) ->
  forall st, reachable P st -> over st = false -> main_done st = false ->
    forall a b i k kw, st_trace st = a ++ OStart i k kw :: b ->
      exists nd, real_index nd = i /\
                 forall p, In p (preds (b_graph (build (p_decls P) (p_inp P) (p_out P))) nd) -> forall m, m < p_mgrs P -> In (done_ev m p) b.
Proof.
  intros (Hg & Hb & _) Hnd Hnf st Hr Ho Hm. destruct (graph_plain_sound _ Hg) as [Hsw Hhd].
  destruct (creach_order P Hsw Hhd Hb Hnf Hnd st None (reachable_creach P st Hr)) as [[Hg'|Hg']|Hok]; [congruence|congruence|].
  exact Hok.
Qed.
