(* ALL programs, every schedule incl. cancellation, event managers that do not raise: PipelineChart.run never raises an Exception
   subclass (C05): what it raises is a BaseException outside Exception -- a node's, or the caller's CancelledError -- and what it
   reports as PipelineResult.error is an Exception.  (The interpreter's out-of-fuel artefact is the one model-only alternative.) *)
From MLPE Require Import Engine.Run Proofs.ExecLemmas Proofs.Evolve Proofs.StackInv Proofs.Micro Proofs.PlainLive Proofs.PlainCore Proofs.PlainInv
     Proofs.PlainExec Proofs.PlainPipe Proofs.PlainQuiet Proofs.PipeAll Proofs.QuietAll.

Definition not_exception (e : exn) : Prop := is_Exception e = false \/ exists k, e = XEng EOutOfFuel k.

Definition exn_ok (k : list frame) (sg : option signal) : Prop :=
  (forall e, In (FChartAfterEmitErr e) k -> is_Exception e = true) /\
  match k with
  | FRunWait :: _ | FChartAfterRun :: _ => True
  | _ => forall e, sg = Some (SThrow e) -> not_exception e
  end.
Definition exn_ts (ts : tstate frame) : Prop :=
  match ts with
  | TReady k sg => exn_ok k (Some sg)
  | TWait _ k => exn_ok k None
  | TDone (SThrow e) => not_exception e
  | TDone (SResErr e) => is_Exception e = true
  | TDone _ => True
  end.

Section ErrAll.
  Variable P : prog.
  Hypothesis Hnf : forall m ev n k, p_mgr_fault P m ev n k = false.

  Ltac shape H :=
    repeat (cbn [mk] in H; try contradiction;
            match type of H with context [match ?x with _ => _ end] => destruct x end); cbn [mk] in H; try contradiction.

  Lemma main_step_exn js jc pay t fr rest sg st :
    main_ok P js jc pay (TReady (fr :: rest) sg) -> handled fr sg = true -> exn_ok (fr :: rest) (Some sg) ->
    exn_ts (nstate rest (snd (step_frame P t fr sg st))).
  Proof.
    intros [Hnr H] Hh [He Hs]. cbn [main_ok] in *. shape H;
      repeat match goal with H0 : _ /\ _ |- _ => destruct H0 end; subst;
      destruct sg as [|v0| |e0|e0]; try discriminate Hh; try (exfalso; exact (Hnr e0 eq_refl));
      try match goal with r : bool |- context [FEmit _ _ _ _ _ ?r] => destruct r end;
      cbn [step_frame]; rewrite ?Hnf; unfold reduced; repeat break_match; spawn_norm;
      cbn [fst snd nstate app exn_ts exn_ok emit_frames]; try exact I;
      try (split; [intros e1 Hin; repeat (destruct Hin as [Hin|Hin]; [try discriminate Hin; inversion Hin; subst; first [assumption | apply He; cbn; auto]|]); try contradiction
                  |try exact I; intros e1 Hc; try discriminate Hc; inversion Hc; subst; first [left; assumption | apply Hs; reflexivity]]);
      try (first [left; assumption | apply Hs; reflexivity | apply He; cbn; auto]).
  Qed.

  Definition TPx (x : task frame) : Prop := t_id x = main_tid -> exn_ts (t_state x).

  Lemma exn_ok_sig k s s' : (forall e, s' = Some (SThrow e) -> not_exception e) -> exn_ok k s -> exn_ok k s'.
  Proof. intros Hs [A B]. split; [exact A|]. destruct k as [|f r]; [exact Hs|]. destruct f; try exact Hs; exact I. Qed.

  Lemma TPx_wake x w k : t_state x = TWait w k -> TPx x -> TPx (with_ts x (TReady k SGo)).
  Proof. unfold TPx. intros E H Hn. cbn in *. specialize (H Hn). rewrite E in H. cbn [exn_ts] in *. eapply exn_ok_sig; [|exact H]. intros e He. discriminate He. Qed.
  Lemma TPx_cancel_ready x k sg : t_state x = TReady k sg -> TPx x -> TPx (with_ts x (TReady k (SThrow XCancelled))).
  Proof.
    unfold TPx. intros E H Hn. cbn in *. specialize (H Hn). rewrite E in H. cbn [exn_ts] in *. eapply exn_ok_sig; [|exact H].
    intros e He. inversion He. left. reflexivity.
  Qed.
  Lemma TPx_cancel_wait x w k : t_state x = TWait w k -> TPx x -> TPx (with_ts x (TReady k (SThrow XCancelled))).
  Proof.
    unfold TPx. intros E H Hn. cbn in *. specialize (H Hn). rewrite E in H. cbn [exn_ts] in *. eapply exn_ok_sig; [|exact H].
    intros e He. inversion He. left. reflexivity.
  Qed.
  Lemma TPx_spawn i nm f : 1 <= i -> spawn_frame f = true -> TPx {| t_id := i; t_name := nm; t_state := TReady [f] SGo; t_helper := true |}.
  Proof. unfold TPx, main_tid. cbn. intros. lia. Qed.

  Lemma tasks_TPx_set ts st : NoDup (map (@t_id frame) (st_tasks st)) -> exn_ts ts -> tasks_ok TPx (set_tstate main_tid ts st).
  Proof.
    intros Hnd Hm. unfold tasks_ok. rewrite Forall_forall. intros y Hy Hid.
    unfold set_tstate in Hy. cbn [st_tasks] in Hy. rewrite (upd_task_state main_tid ts (st_tasks st) y Hy Hid Hnd). exact Hm.
  Qed.
  Lemma tasks_TPx_other t ts st : t <> main_tid -> tasks_ok TPx st -> tasks_ok TPx (set_tstate t ts st).
  Proof.
    intros Hne H. apply ok_set_tstate; [exact H|]. intros y Hy _ Hid. cbn in Hid. destruct (find_task_in _ _ _ Hy) as [_ Hiy]. exfalso. apply Hne. rewrite <- Hiy. exact Hid.
  Qed.

  Theorem creach_exn : forall st c, creach P st c ->
    match c with Some (t, k, sg) => if Nat.eqb t main_tid then exn_ts (cstate k sg) else tasks_ok TPx st | None => tasks_ok TPx st end.
  Proof.
    intros st c H.
    induction H as [|st t rest x k sg H IH Hq Hf Ht|st t rest H IH Hq|st t fr rest sg H IH|st t sg H IH|st c H IH|st g H IH|st H IH].
    - unfold tasks_ok, init_state. cbn. constructor; [|constructor]. intros _. cbn. split; [intros e [Hc|[]]; discriminate Hc|intros e Hc; discriminate Hc].
    - cbn in IH. destruct (find_task_in _ _ _ Hf) as [Hin Hid]. unfold tasks_ok in IH. rewrite Forall_forall in IH.
      destruct (Nat.eqb_spec t main_tid) as [->|Hne].
      + pose proof (IH x Hin Hid) as Hx. rewrite Ht in Hx.
        destruct (creach_stacks P _ _ H) as [Hs _]. unfold stacks_ok, tasks_ok in Hs. rewrite Forall_forall in Hs.
        destruct (Hs x Hin) as [_ Hxx]. rewrite Ht in Hxx. destruct Hxx as [[Hk _] _]. destruct k; [contradiction|exact Hx].
      + unfold tasks_ok. rewrite Forall_forall. exact IH.
    - exact IH.
    - pose proof (creach_evolves P _ _ H) as Hev. pose proof (ev_next _ _ Hev) as Hn1. cbn in Hn1.
      pose proof (ev_step_frame P t fr sg st) as Hevs.
      assert (Hnd1 : NoDup (map (@t_id frame) (st_tasks (fst (step_frame P t fr sg st))))).
      { destruct (evolved_shape _ (evolves_trans _ _ _ Hev Hevs)) as [xa [ra [_ [_ [_ [_ [Hnd _]]]]]]]. exact Hnd. }
      destruct (creach_pipeG P Hnf _ _ H) as [js [jc [pay [_ [_ HT]]]]].
      destruct (Nat.eqb_spec t main_tid) as [->|Hne].
      + destruct HT as [HM Hty]. cbn [cstate typed_ts] in HM, Hty, IH.
        pose proof (main_step_exn js jc pay main_tid fr rest sg st HM Hty IH) as Hx'.
        destruct (step_frame P main_tid fr sg st) as [st1 [w k'|k'|k' sg'|sg']]; cbn [after_step fst snd nstate] in *.
        * unfold suspend. apply (tasks_ok_same _ (set_tstate main_tid (TWait w (k' ++ rest)) st1)); [reflexivity|]. apply tasks_TPx_set; assumption.
        * apply (tasks_ok_same _ (set_tstate main_tid (TReady (k' ++ rest) SGo) st1)); [reflexivity|]. apply tasks_TPx_set; assumption.
        * rewrite Nat.eqb_refl. exact Hx'.
        * rewrite Nat.eqb_refl. exact Hx'.
      + pose proof (step_frame_tasks_ok P TPx TPx_wake TPx_cancel_ready TPx_cancel_wait TPx_spawn t fr sg st Hn1 IH) as HT1.
        destruct (step_frame P t fr sg st) as [st1 [w k'|k'|k' sg'|sg']]; cbn [after_step fst snd] in *.
        * unfold suspend. apply (tasks_ok_same _ (set_tstate t (TWait w (k' ++ rest)) st1)); [reflexivity|]. apply tasks_TPx_other; assumption.
        * apply (tasks_ok_same _ (set_tstate t (TReady (k' ++ rest) SGo) st1)); [reflexivity|]. apply tasks_TPx_other; assumption.
        * apply Nat.eqb_neq in Hne. rewrite Hne. exact HT1.
        * apply Nat.eqb_neq in Hne. rewrite Hne. exact HT1.
    - pose proof (creach_evolves P _ _ H) as Hev. destruct (evolved_shape _ Hev) as [xa [ra [_ [_ [_ [_ [Hnd _]]]]]]].
      destruct (Nat.eqb_spec t main_tid) as [->|Hne].
      + cbn [cstate] in IH. apply tasks_TPx_set; assumption.
      + apply tasks_TPx_other; assumption.
    - unfold tasks_ok, abort. cbn [st_tasks]. rewrite Forall_forall. intros y Hy. apply in_map_iff in Hy. destruct Hy as [x [<- _]]. intros _. cbn. right. eauto.
    - apply (complete_gate_tasks_ok TPx TPx_wake). exact IH.
    - apply (ok_cancel_task TPx TPx_cancel_ready TPx_cancel_wait). exact IH.
  Qed.
End ErrAll.

Theorem run_never_raises_an_exception_subclass_all_programs P :
  (forall m ev n k, p_mgr_fault P m ev n k = false) ->
  forall st, reachable P st ->
    (forall e, main_state st = Some (TDone (SThrow e)) -> is_Exception e = false \/ exists k, e = XEng EOutOfFuel k) /\
    (forall e, main_state st = Some (TDone (SResErr e)) -> is_Exception e = true).
Proof.
  intros Hnf st Hr. pose proof (creach_exn P Hnf st None (reachable_creach P st Hr)) as HT. cbn in HT.
  assert (Hmain : forall r, main_state st = Some (TDone r) -> exn_ts (TDone r)).
  { intros r Hm. unfold main_state in Hm. destruct (find_task main_tid (st_tasks st)) as [x|] eqn:F; [|discriminate Hm]. cbn in Hm. inversion Hm as [Es].
    destruct (find_task_in _ _ _ F) as [Hin Hid]. unfold tasks_ok in HT. rewrite Forall_forall in HT. pose proof (HT x Hin Hid) as Hx. exact Hx. }
  split; intros e Hm; exact (Hmain _ Hm).
Qed.

(* ---- what is reported was the error of a finished helper task when run() looked, or the pool-registry error ---- *)
Definition from_task (tr : list obs) (e : exn) : Prop :=
  (exists alts, In (ORunDone alts) tr /\ In e alts) \/ exists k, e = XEng EPoolNotReady k.

Definition src_ok (tr : list obs) (k : list frame) (sg : option signal) : Prop :=
  (forall e, In (FChartAfterEmitErr e) k -> from_task tr e) /\
  match k with
  | FChartAfterRun :: _ => forall e, sg = Some (SThrow e) -> is_Exception e = true -> from_task tr e
  | FRunWait :: _ => forall e, sg = Some (SThrow e) -> e = XCancelled
  | _ => True
  end.
Definition src_ts (tr : list obs) (ts : tstate frame) : Prop :=
  match ts with
  | TReady k sg => src_ok tr k (Some sg)
  | TWait _ k => src_ok tr k None
  | TDone (SResErr e) => from_task tr e
  | TDone _ => True
  end.

Lemma from_task_mono new tr e : from_task tr e -> from_task (new ++ tr) e.
Proof. intros [[alts [A B]]|H]; [left; exists alts; split; [apply in_or_app; right; exact A|exact B]|right; exact H]. Qed.
Lemma src_ok_mono new tr k sg : src_ok tr k sg -> src_ok (new ++ tr) k sg.
Proof.
  intros [A B]. split; [intros e He; apply from_task_mono; exact (A e He)|]. destruct k as [|f r]; [exact I|]. destruct f; try exact I.
  - intros e He Hx. apply from_task_mono. exact (B e He Hx).
  - exact B.
Qed.
Lemma src_ts_mono new tr ts : src_ts tr ts -> src_ts (new ++ tr) ts.
Proof. destruct ts as [k sg|w k|r]; cbn [src_ts]; try apply src_ok_mono. destruct r; try exact (fun x => x). apply from_task_mono. Qed.

Section ErrSource.
  Variable P : prog.
  Hypothesis Hnf : forall m ev n k, p_mgr_fault P m ev n k = false.

  Ltac shape H :=
    repeat (cbn [mk] in H; try contradiction;
            match type of H with context [match ?x with _ => _ end] => destruct x end); cbn [mk] in H; try contradiction.

  Lemma main_step_src js jc pay t fr rest sg st :
    main_ok P js jc pay (TReady (fr :: rest) sg) -> handled fr sg = true -> src_ok (st_trace st) (fr :: rest) (Some sg) ->
    src_ts (st_trace (fst (step_frame P t fr sg st))) (nstate rest (snd (step_frame P t fr sg st))).
  Proof.
    intros [Hnr H] Hh [Hv Hs]. cbn [main_ok] in *. shape H;
      repeat match goal with H0 : _ /\ _ |- _ => destruct H0 end; subst;
      destruct sg as [|v0| |e0|e0]; try discriminate Hh; try (exfalso; exact (Hnr e0 eq_refl));
      try match goal with r : bool |- context [FEmit _ _ _ _ _ ?r] => destruct r end;
      cbn [step_frame]; rewrite ?Hnf; unfold reduced; repeat break_match; spawn_norm;
      cbn [fst snd nstate app src_ts src_ok emit_frames]; autorewrite with core; cbn [st_trace emit_obs bump with_store spawn fst];
      try exact I;
      try (split; [intros e1 Hin; repeat (destruct Hin as [Hin|Hin]; [try discriminate Hin; inversion Hin; subst;
                                           first [solve [apply Hs; reflexivity] | solve [apply (from_task_mono [_]); apply Hv; cbn; auto] | solve [apply Hv; cbn; auto]]|]); try contradiction
                  |try exact I; intros e1 Hc; try discriminate Hc; try (intros Hex)]);
      try solve [apply Hv; cbn; auto | apply (from_task_mono [_]); apply Hv; cbn; auto | apply Hs; reflexivity].
    all: try (inversion Hc; subst e1).
    all: try (exfalso; match goal with H1 : cq _ |- _ => pose proof (H1 _ eq_refl) as Hx; subst; discriminate end).
    all: try (pose proof (Hs _ eq_refl) as Hx; subst; discriminate).
    all: try reflexivity.
    all: try (left; eexists; split; [left; reflexivity|apply pick_error_in]).
    all: try (right; eexists; reflexivity).
    all: try (left; eexists; split; [left; reflexivity|]; match goal with Hq : task_errors _ = _ :: _ |- _ => rewrite Hq; apply pick_error_in end).
    all: try (destruct Hin as [Hin|[]]; inversion Hin; subst; apply Hs; [reflexivity|assumption]).
  Qed.
End ErrSource.

Section ErrSourceInv.
  Variable P : prog.
  Hypothesis Hnf : forall m ev n k, p_mgr_fault P m ev n k = false.

  Definition TPs' (tr : list obs) (x : task frame) : Prop := t_id x = main_tid -> src_ts tr (t_state x).

  Lemma src_ok_sig tr k s s' : (forall e, s' = Some (SThrow e) -> e = XCancelled) -> src_ok tr k s -> src_ok tr k s'.
  Proof.
    intros Hs [A B]. split; [exact A|]. destruct k as [|f r]; [exact I|]. destruct f; try exact I.
    - intros e He Hx. pose proof (Hs e He) as ->. discriminate Hx.
    - exact Hs.
  Qed.
  Lemma TPs'_wake tr x w k : t_state x = TWait w k -> TPs' tr x -> TPs' tr (with_ts x (TReady k SGo)).
  Proof. unfold TPs'. intros E H Hn. cbn in *. specialize (H Hn). rewrite E in H. cbn [src_ts] in *. eapply src_ok_sig; [|exact H]. intros e He. discriminate He. Qed.
  Lemma TPs'_cancel_ready tr x k sg : t_state x = TReady k sg -> TPs' tr x -> TPs' tr (with_ts x (TReady k (SThrow XCancelled))).
  Proof. unfold TPs'. intros E H Hn. cbn in *. specialize (H Hn). rewrite E in H. cbn [src_ts] in *. eapply src_ok_sig; [|exact H]. intros e He. inversion He. reflexivity. Qed.
  Lemma TPs'_cancel_wait tr x w k : t_state x = TWait w k -> TPs' tr x -> TPs' tr (with_ts x (TReady k (SThrow XCancelled))).
  Proof. unfold TPs'. intros E H Hn. cbn in *. specialize (H Hn). rewrite E in H. cbn [src_ts] in *. eapply src_ok_sig; [|exact H]. intros e He. inversion He. reflexivity. Qed.
  Lemma TPs'_spawn tr i nm f : 1 <= i -> spawn_frame f = true -> TPs' tr {| t_id := i; t_name := nm; t_state := TReady [f] SGo; t_helper := true |}.
  Proof. unfold TPs', main_tid. cbn. intros. lia. Qed.
  Lemma TPs'_mono new tr st : tasks_ok (TPs' tr) st -> tasks_ok (TPs' (new ++ tr)) st.
  Proof. unfold tasks_ok. apply Forall_impl. intros x Hx Hid. apply src_ts_mono. exact (Hx Hid). Qed.
  Lemma tasks_TPs'_set tr ts st : NoDup (map (@t_id frame) (st_tasks st)) -> src_ts tr ts -> tasks_ok (TPs' tr) (set_tstate main_tid ts st).
  Proof.
    intros Hnd Hm. unfold tasks_ok. rewrite Forall_forall. intros y Hy Hid.
    unfold set_tstate in Hy. cbn [st_tasks] in Hy. rewrite (upd_task_state main_tid ts (st_tasks st) y Hy Hid Hnd). exact Hm.
  Qed.
  Lemma tasks_TPs'_other tr t ts st : t <> main_tid -> tasks_ok (TPs' tr) st -> tasks_ok (TPs' tr) (set_tstate t ts st).
  Proof.
    intros Hne H. apply ok_set_tstate; [exact H|]. intros y Hy _ Hid. cbn in Hid. destruct (find_task_in _ _ _ Hy) as [_ Hiy]. exfalso. apply Hne. rewrite <- Hiy. exact Hid.
  Qed.

  Theorem creach_err_source : forall st c, creach P st c ->
    match c with
    | Some (t, k, sg) => if Nat.eqb t main_tid then src_ts (st_trace st) (cstate k sg) else tasks_ok (TPs' (st_trace st)) st
    | None => tasks_ok (TPs' (st_trace st)) st
    end.
  Proof.
    intros st c H.
    induction H as [|st t rest x k sg H IH Hq Hf Ht|st t rest H IH Hq|st t fr rest sg H IH|st t sg H IH|st c H IH|st g H IH|st H IH].
    - unfold tasks_ok, init_state. cbn. constructor; [|constructor]. intros _. cbn. split; [intros e [Hc|[]]; discriminate Hc|exact I].
    - cbn in IH. destruct (find_task_in _ _ _ Hf) as [Hin Hid]. unfold tasks_ok in IH. rewrite Forall_forall in IH.
      destruct (Nat.eqb_spec t main_tid) as [->|Hne].
      + pose proof (IH x Hin Hid) as Hx. rewrite Ht in Hx.
        destruct (creach_stacks P _ _ H) as [Hs _]. unfold stacks_ok, tasks_ok in Hs. rewrite Forall_forall in Hs.
        destruct (Hs x Hin) as [_ Hxx]. rewrite Ht in Hxx. destruct Hxx as [[Hk _] _]. destruct k; [contradiction|exact Hx].
      + unfold tasks_ok. rewrite Forall_forall. exact IH.
    - exact IH.
    - pose proof (creach_evolves P _ _ H) as Hev. pose proof (ev_next _ _ Hev) as Hn1. cbn in Hn1.
      pose proof (ev_step_frame P t fr sg st) as Hevs.
      assert (Hnd1 : NoDup (map (@t_id frame) (st_tasks (fst (step_frame P t fr sg st))))).
      { destruct (evolved_shape _ (evolves_trans _ _ _ Hev Hevs)) as [xa [ra [_ [_ [_ [_ [Hnd _]]]]]]]. exact Hnd. }
      destruct (creach_pipeG P Hnf _ _ H) as [js [jc [pay [_ [_ HT]]]]].
      destruct (ev_trace _ _ Hevs) as [new Etr].
      rewrite trace_after_step'.
      destruct (Nat.eqb_spec t main_tid) as [->|Hne].
      + destruct HT as [HM Hty]. cbn [cstate typed_ts] in HM, Hty, IH.
        pose proof (main_step_src P Hnf js jc pay main_tid fr rest sg st HM Hty IH) as Hx'.
        destruct (step_frame P main_tid fr sg st) as [st1 [w k'|k'|k' sg'|sg']]; cbn [after_step fst snd nstate] in *.
        * unfold suspend. apply (tasks_ok_same _ (set_tstate main_tid (TWait w (k' ++ rest)) st1)); [reflexivity|]. apply tasks_TPs'_set; assumption.
        * apply (tasks_ok_same _ (set_tstate main_tid (TReady (k' ++ rest) SGo) st1)); [reflexivity|]. apply tasks_TPs'_set; assumption.
        * rewrite Nat.eqb_refl. exact Hx'.
        * rewrite Nat.eqb_refl. exact Hx'.
      + assert (HT1 : tasks_ok (TPs' (st_trace (fst (step_frame P t fr sg st)))) (fst (step_frame P t fr sg st))).
        { apply (step_frame_tasks_ok P (TPs' _) (TPs'_wake _) (TPs'_cancel_ready _) (TPs'_cancel_wait _) (TPs'_spawn _)); [exact Hn1|].
          rewrite Etr. apply TPs'_mono. exact IH. }
        destruct (step_frame P t fr sg st) as [st1 [w k'|k'|k' sg'|sg']]; cbn [after_step fst snd] in *.
        * unfold suspend. apply (tasks_ok_same _ (set_tstate t (TWait w (k' ++ rest)) st1)); [reflexivity|]. apply tasks_TPs'_other; assumption.
        * apply (tasks_ok_same _ (set_tstate t (TReady (k' ++ rest) SGo) st1)); [reflexivity|]. apply tasks_TPs'_other; assumption.
        * apply Nat.eqb_neq in Hne. rewrite Hne. exact HT1.
        * apply Nat.eqb_neq in Hne. rewrite Hne. exact HT1.
    - pose proof (creach_evolves P _ _ H) as Hev. destruct (evolved_shape _ Hev) as [xa [ra [_ [_ [_ [_ [Hnd _]]]]]]].
      destruct (Nat.eqb_spec t main_tid) as [->|Hne].
      + cbn [cstate] in IH. apply tasks_TPs'_set; assumption.
      + apply tasks_TPs'_other; assumption.
    - unfold tasks_ok, abort. cbn [st_tasks]. rewrite Forall_forall. intros y Hy. apply in_map_iff in Hy. destruct Hy as [x [<- _]]. intros _. cbn. exact I.
    - unfold complete_gate. rewrite trace_wake_all. apply (complete_gate_tasks_ok (TPs' _) (TPs'_wake _)). exact IH.
    - rewrite trace_cancel_task. apply (ok_cancel_task (TPs' _) (TPs'_cancel_ready _) (TPs'_cancel_wait _)). exact IH.
  Qed.
End ErrSourceInv.

(* [ORunDone alts]: run() looked at its tasks and found the errors alts of finished (not cancelled) helper tasks *)
Theorem reported_error_is_a_task_error_all_programs P :
  (forall m ev n k, p_mgr_fault P m ev n k = false) ->
  forall st e, reachable P st -> main_state st = Some (TDone (SResErr e)) ->
    (exists alts, In (ORunDone alts) (st_trace st) /\ In e alts) \/ exists k, e = XEng EPoolNotReady k.
Proof.
  intros Hnf st e Hr Hm. pose proof (creach_err_source P Hnf st None (reachable_creach P st Hr)) as HT. cbn in HT.
  unfold main_state in Hm. destruct (find_task main_tid (st_tasks st)) as [x|] eqn:F; [|discriminate Hm]. cbn in Hm. inversion Hm as [Es].
  destruct (find_task_in _ _ _ F) as [Hin Hid]. unfold tasks_ok in HT. rewrite Forall_forall in HT. pose proof (HT x Hin Hid) as Hx. rewrite Es in Hx. exact Hx.
Qed.
