(* Plain programs, every schedule: who is who. While manager.run has not returned: at most one launcher exists, it is created by
   the chart task exactly when that task enters manager.run; the node tasks that exist are exactly a prefix of the topological
   order, one per node, and the launcher holds the rest; a processed node has its task; no helper has been cancelled. *)
From MLPE Require Import Engine.Run Proofs.ExecLemmas Proofs.Evolve Proofs.StackInv Proofs.ReadyInv Proofs.WaitInv Explore.StateEq
     Proofs.ProcessedInv Proofs.PlainWorld Proofs.PlainLaunch Proofs.PlainLive Proofs.Micro Proofs.PlainBase Proofs.PlainCore Proofs.PlainInv.

Definition is_early_frame (f : frame) : bool := match f with FChartStart | FChartAfterStart => true | _ => false end.
Definition has_early (k : list frame) : bool := existsb is_early_frame k.
Definition cancelled_ts (ts : tstate frame) : bool :=
  match ts with TReady _ (SThrow XCancelled) | TDone (SThrow XCancelled) => true | _ => false end.
Definition dir_sig (d : directive) : option signal := match d with DCont _ s | DRet s => Some s | _ => None end.

Lemma has_early_app a b : has_early (a ++ b) = has_early a || has_early b.
Proof. unfold has_early. apply existsb_app. Qed.

(* two different tasks whose names satisfy f: at least two names satisfy f *)
Lemma two_named (f : tname -> bool) (l : list (task frame)) x y :
  In x l -> In y l -> t_id x <> t_id y -> f (t_name x) = true -> f (t_name y) = true ->
  2 <= length (filter f (map (@t_name frame) l)).
Proof.
  intros Hx Hy Hne Ex Ey.
  assert (One : forall (r : list (task frame)) z, In z r -> f (t_name z) = true -> 1 <= length (filter f (map (@t_name frame) r))).
  { induction r as [|w r' IH']; intros z Hz Ez; [contradiction|]. cbn [map filter]. destruct Hz as [->|Hz].
    - rewrite Ez. cbn. lia.
    - specialize (IH' z Hz Ez). destruct (f (t_name w)); cbn [length]; lia. }
  induction l as [|z r IH]; [contradiction|]. cbn [map filter].
  destruct Hx as [Hx|Hx]; destruct Hy as [Hy|Hy].
  - subst. contradiction.
  - subst z. rewrite Ex. cbn [length]. apply le_n_S. exact (One r y Hy Ey).
  - subst z. rewrite Ey. cbn [length]. apply le_n_S. exact (One r x Hx Ex).
  - specialize (IH Hx Hy). destruct (f (t_name z)); cbn [length]; lia.
Qed.

Lemma task_errors_not_cancelled (st : mstate) e : In e (task_errors st) -> e <> XCancelled.
Proof.
  unfold task_errors. intros H. apply in_flat_map in H. destruct H as [x [_ H]].
  destruct (t_helper x); [|contradiction]. destruct (t_state x) as [| |r]; try contradiction.
  destruct r as [| | |e0|]; try contradiction. destruct e0; try contradiction; destruct H as [<-|[]]; discriminate.
Qed.

Section Roles.
  Variable P : prog.
  Notation G := (b_graph (build (p_decls P) (p_inp P) (p_out P))).
  Hypothesis Hsw : forall n, is_switch G n = false.
  Hypothesis Hhd : forall n, is_head G n = false.
  Hypothesis Hbody : forall i kw a v, p_body P i kw a = OVal v -> clean v = true.
  Notation order := (p_order P (maind P)).
  Hypothesis Hnd : NoDup order.

  Ltac plain_prep3 :=
    repeat match goal with
           | H : (_ && _)%bool = true |- _ => apply andb_true_iff in H; destruct H
           | H : is_main P ?d = true |- _ => apply is_main_eq in H; subst d
           | H : negb ?f = true |- _ => apply negb_true_iff in H; subst f
           | H : ?u = true |- _ => is_var u; subst u
           end.

  Lemma creates_shape fr sg st nm :
    In nm (creates P fr sg st) ->
    (nm = TNRun /\ fr = FChartAfterStart) \/ (exists d n r l, fr = FDagLoop d (n :: r) l /\ nm = TNNode n /\ sg = SGo).
  Proof.
    destruct fr; destruct sg; cbn [creates]; try contradiction; try (destruct rest; contradiction).
    - destruct (_ || _); [contradiction|]. intros [<-|[]]. left. auto.
    - destruct rest as [|n r]; [contradiction|]. destruct (is_ready _ _ _ _); [|contradiction]. intros [<-|[]]. right. eauto 8.
  Qed.

  (* only FChartStart leaves an early chart frame behind *)
  Lemma plain_step_early t fr sg st :
    plain_frame P fr = true -> clean_sig sg -> PS st ->
    has_early (dir_frames (snd (step_frame P t fr sg st))) = true -> fr = FChartStart.
  Proof.
    intros Hf Hs Hst. pose proof Hst as Hst'. unfold PS in Hst'.
    destruct fr; try discriminate Hf; cbn [plain_frame] in Hf; plain_prep3;
      destruct sg; cbn [clean_sig] in Hs;
      try match goal with H : clean ?v = true |- _ => pose proof (clean_not_rec v H) as Hnr; pose proof (clean_not_exn v H) as Hne end;
      cbn [step_frame]; rewrite ?Hnr, ?Hne, ?Hsw, ?Hhd, ?(plain_dep_error P _ _ _ Hst'), ?(plain_no_subgraph_error _ _ Hst');
      unfold default_or_raise, reduced; cbn [d_oneof d_rec maind andb];
      repeat break_match; cbn [snd dir_frames has_early existsb is_early_frame emit_frames orb]; intros H; try discriminate H; reflexivity.
  Qed.

  (* a step never makes up a CancelledError *)
  Lemma plain_step_nocancel_sig t fr sg st s' :
    plain_frame P fr = true -> clean_sig sg -> PS st -> sg <> SThrow XCancelled ->
    dir_sig (snd (step_frame P t fr sg st)) = Some s' -> s' <> SThrow XCancelled.
  Proof.
    intros Hf Hs Hst Hnc. pose proof Hst as Hst'. unfold PS in Hst'.
    destruct fr; try discriminate Hf; cbn [plain_frame] in Hf; plain_prep3;
      destruct sg; cbn [clean_sig] in Hs;
      try match goal with H : clean ?v = true |- _ => pose proof (clean_not_rec v H) as Hnr; pose proof (clean_not_exn v H) as Hne end;
      cbn [step_frame]; rewrite ?Hnr, ?Hne, ?Hsw, ?Hhd, ?(plain_dep_error P _ _ _ Hst'), ?(plain_no_subgraph_error _ _ Hst');
      unfold default_or_raise, reduced; cbn [d_oneof d_rec maind andb];
      repeat break_match; cbn [snd dir_sig]; intros H; try discriminate H; inversion H; subst; try discriminate; try assumption;
      try (intros E; inversion E; subst; apply Hnc; reflexivity);
      try (intros E; inversion E as [E']; match goal with Hq : task_errors _ = ?e :: ?r |- _ =>
             apply (task_errors_not_cancelled st (pick_error P e r)); [rewrite Hq; apply pick_error_in|exact E'] end);
      try match goal with Hq : dep_error _ _ _ _ = Some _ |- _ => rewrite (plain_dep_error P _ _ _ Hst') in Hq; discriminate Hq end;
      try (intros E; inversion E; subst; match goal with Hq : is_Exception XCancelled = true |- _ => discriminate Hq end).
  Qed.
End Roles.

Section RolesInv.
  Variable P : prog.
  Notation G := (b_graph (build (p_decls P) (p_inp P) (p_out P))).
  Hypothesis Hsw : forall n, is_switch G n = false.
  Hypothesis Hhd : forall n, is_head G n = false.
  Hypothesis Hbody : forall i kw a v, p_body P i kw a = OVal v -> clean v = true.
  Notation order := (p_order P (maind P)).
  Hypothesis Hnd : NoDup order.

  Definition rest_of (ts : tstate frame) : option (list key) :=
    match ts with
    | TReady [FDagStart _] SGo | TWait _ [FDagStart _] => Some order
    | TReady [FDagLoop _ r _] SGo | TWait _ [FDagLoop _ r _] => Some r
    | TReady [FDagFinal _] SGo | TWait _ [FDagFinal _] => Some []
    | TDone (SVal _) => Some []
    | _ => None
    end.

  Definition PhiR (st : mstate) (i : idt) (ts : tstate frame) : Prop :=
    (fst (fst i) = main_tid <-> snd (fst i) = TNMain) /\
    (fst (fst i) = main_tid -> snd i = false) /\
    (fst (fst i) = main_tid -> has_early (estack ts) = true -> ~ In TNRun (names st)) /\
    (snd (fst i) = TNRun -> exists rest, rest_of ts = Some rest /\ order = node_names st ++ rest) /\
    (snd i = true -> cancelled_ts ts = false).

  Definition globR (st : mstate) : Prop :=
    (forall m, exists_processed m (st_store st) = true -> In m (node_names st)) /\
    length (filter is_run_name (names st)) <= 1 /\
    (~ In TNRun (names st) -> node_names st = []).

  Definition rolesI (st : mstate) (c : running) : Prop := guard st \/ (globR st /\ allT (PhiR st) st c).

  Lemma PhiR_ext st st' i ts : names st' = names st -> PhiR st i ts -> PhiR st' i ts.
  Proof. unfold PhiR, node_names. intros ->. auto. Qed.
  Lemma globR_ext st st' : names st' = names st -> st_store st' = st_store st -> globR st -> globR st'.
  Proof. unfold globR, node_names. intros -> ->. auto. Qed.

  Lemma PhiR_wake st : wake_closed (PhiR st).
  Proof.
    intros i w k (A & B & C & D & E). repeat split; try apply A; auto.
  Qed.

  Lemma names_after_step t rest r : names (fst (after_step t rest r)) = names (fst r).
  Proof.
    destruct r as [st1 [w k'|k'|k' sg'|sg']]; cbn [after_step fst]; try reflexivity.
    - destruct (sc_suspend t w (k' ++ rest) st1) as (_ & _ & _ & H & _). exact H.
    - exact (sn_set_tstate t _ st1).
  Qed.
  Lemma store_after_step t rest r : st_store (fst (after_step t rest r)) = st_store (fst r).
  Proof. destruct r as [st1 [w k'|k'|k' sg'|sg']]; reflexivity. Qed.

  (* the running task keeps its identity *)
  Lemma run_ident st t fr sg x0 x :
    evolves (init_state) st -> find_task t (st_tasks st) = Some x0 ->
    In x (st_tasks (fst (step_frame P t fr sg st))) -> t_id x = t -> ident x = ident x0.
  Proof.
    intros He Hf Hx Hid. pose proof (ev_step_frame P t fr sg st) as Hev.
    destruct (evolves_find _ _ _ _ Hev Hf) as [x' [Hf' [Hnm [Hh Hid']]]].
    destruct (evolved_shape _ (evolves_trans _ _ _ He Hev)) as [xa [ra [_ [_ [_ [_ [Hndi _]]]]]]].
    destruct (find_task_in _ _ _ Hf') as [Hin' Hidx'].
    assert (x = x') by (apply (nodup_ids_inj _ _ _ Hndi Hx Hin'); congruence). subst x'. unfold ident. congruence.
  Qed.

  Lemma in_names st (x : task frame) : In x (st_tasks st) -> In (t_name x) (names st).
  Proof. intros H. unfold names. apply in_map. exact H. Qed.

  Lemma node_names_in st m : In m (node_names st) <-> In (TNNode m) (names st).
  Proof.
    unfold node_names. rewrite in_flat_map. split.
    - intros [nm [Hnm H]]. destruct nm; try contradiction. destruct H as [->|[]]. exact Hnm.
    - intros H. exists (TNNode m). split; [exact H|left; reflexivity].
  Qed.

  Lemma node_names_snoc l nm :
    flat_map (fun nm => match nm with TNNode m => [m] | _ => [] end) (l ++ [nm]) =
    flat_map (fun nm => match nm with TNNode m => [m] | _ => [] end) l ++ match nm with TNNode m => [m] | _ => [] end.
  Proof. rewrite flat_map_app. cbn. rewrite app_nil_r. reflexivity. Qed.

  Lemma owner_exec_start nm d n f : owner nm (FExecStart d n f) = true -> nm = TNNode n.
  Proof. destruct nm; cbn; try discriminate. intros H. apply key_eqb_spec in H. subst. reflexivity. Qed.
  Lemma owner_chart_after_start nm : owner nm FChartAfterStart = true -> nm = TNMain.
  Proof. destruct nm; cbn; try discriminate. reflexivity. Qed.
  Lemma owner_dag_loop nm d r l : owner nm (FDagLoop d r l) = true -> nm = TNRun.
  Proof. destruct nm; cbn; try discriminate. reflexivity. Qed.

  Lemma creates_single fr sg st nm l : creates P fr sg st = nm :: l -> l = [].
  Proof.
    destruct fr; destruct sg; cbn [creates]; try discriminate; repeat break_match; intros H; try discriminate H; inversion H; reflexivity.
  Qed.

  Lemma globR_step st t fr rest sg :
    base P st (Some (t, fr :: rest, sg)) -> globR st -> allT (PhiR st) st (Some (t, fr :: rest, sg)) ->
    globR (fst (step_frame P t fr sg st)).
  Proof.
    intros Hb (G1 & G2 & G3) HA.
    destruct (b_cur _ _ _ Hb) as [x0 [Hf0 [Hk [Hs [Ho [Hc [Hm Hrdy]]]]]]].
    cbn [plain_stack forallb] in Hk, Ho. apply andb_true_iff in Hk. destruct Hk as [Kf Kr]. apply andb_true_iff in Ho. destruct Ho as [Of Or].
    pose proof (plain_step_names P Hsw Hhd t fr sg st Kf Hs (b_ps _ _ _ Hb)) as Hn.
    destruct (plain_step_summary P t fr sg st Kf Hs (b_ps _ _ _ Hb)) as (Hst & _ & _).
    destruct (find_task_in _ _ _ Hf0) as [Hin0 Hid0].
    pose proof (allT_In _ _ _ x0 HA Hin0) as Hx0. unfold PhiR in Hx0. cbn [estate] in Hx0. rewrite Hid0, Nat.eqb_refl in Hx0.
    destruct Hx0 as (X1 & X2 & X3 & X4 & X5). cbn [ident fst snd] in *.
    pose proof (in_names _ _ Hin0) as Hnm0.
    split; [|split].
    - intros m Hm'. rewrite Hst in Hm'. unfold node_names. rewrite Hn, flat_map_app. apply in_or_app. left. fold (node_names st).
      unfold step_store in Hm'. destruct fr; try (apply G1; exact Hm'); destruct sg; try (apply G1; exact Hm').
      destruct (exists_processed n (st_store st)) eqn:E; [apply G1; exact Hm'|].
      rewrite processed_set in Hm'. apply orb_true_iff in Hm'. destruct Hm' as [Hm'|Hm']; [|apply G1; exact Hm'].
      apply key_eqb_spec in Hm'. subst m. apply node_names_in. rewrite <- (owner_exec_start _ _ _ _ Of). exact Hnm0.
    - rewrite Hn, filter_app, app_length.
      destruct (creates P fr sg st) as [|nm l] eqn:Ec; [cbn; lia|].
      assert (Hcin : In nm (creates P fr sg st)) by (rewrite Ec; left; reflexivity).
      destruct (creates_shape P fr sg st nm Hcin) as [[-> ->]|[d [n [r [l0 [-> [-> ->]]]]]]].
      + (* the chart task creates the launcher: it is still early *)
        pose proof (creates_single _ _ _ _ _ Ec). subst l.
        assert (Hno : ~ In TNRun (names st)).
        { apply X3; [apply X1; apply (owner_chart_after_start _ Of)|reflexivity]. }
        assert (E0 : filter is_run_name (names st) = []).
        { clear -Hno. induction (names st) as [|a r IH]; [reflexivity|]. cbn. destruct a; cbn; try (apply IH; intros H; apply Hno; right; exact H).
          exfalso. apply Hno. left. reflexivity. }
        rewrite E0. cbn. lia.
      + pose proof (creates_single _ _ _ _ _ Ec). subst l. cbn. lia.
    - intros Hno. unfold node_names. rewrite Hn, flat_map_app.
      assert (Hno0 : ~ In TNRun (names st)) by (intros H; apply Hno; rewrite Hn; apply in_or_app; left; exact H).
      fold (node_names st). rewrite (G3 Hno0). cbn [app].
      destruct (creates P fr sg st) as [|nm l] eqn:Ec; [reflexivity|].
      assert (Hcin : In nm (creates P fr sg st)) by (rewrite Ec; left; reflexivity).
      destruct (creates_shape P fr sg st nm Hcin) as [[-> ->]|[d [n [r [l0 [-> [-> ->]]]]]]].
      + exfalso. apply Hno. rewrite Hn. apply in_or_app. right. left. reflexivity.
      + exfalso. apply Hno0. rewrite <- (owner_dag_loop _ _ _ _ Of). exact Hnm0.
  Qed.

  Lemma estack_nstate rest d : estack (nstate rest d) = dir_frames d ++ rest.
  Proof.
    destruct d as [w k'|k'|k' sg'|sg']; cbn [nstate dir_frames estack app]; try reflexivity.
    - destruct (k' ++ rest); reflexivity.
    - destruct rest; reflexivity.
  Qed.

  Lemma filter_unprocessed_id (st : mstate) (l : list key) :
    (forall m, In m l -> exists_processed m (st_store st) = false) ->
    filter (fun k => negb (exists_processed k (st_store st))) l = l.
  Proof.
    induction l as [|a r IH]; intros H; cbn [filter]; [reflexivity|]. rewrite (H a (or_introl eq_refl)). cbn. rewrite IH; [reflexivity|].
    intros m Hm. apply H. right. exact Hm.
  Qed.

  Lemma launcher_step st t fr rest sg r0 :
    PS st -> plain_frame P fr = true -> globR st ->
    rest_of (TReady (fr :: rest) sg) = Some r0 -> order = node_names st ++ r0 ->
    exists r1, rest_of (nstate rest (snd (step_frame P t fr sg st))) = Some r1
               /\ order = node_names (fst (step_frame P t fr sg st)) ++ r1.
  Proof.
    intros Hst Hf (G1 & G2 & G3) Hr Ho. pose proof Hst as Hst'. unfold PS in Hst'.
    destruct rest as [|g rest']; [|destruct fr; discriminate Hr].
    destruct fr; try discriminate Hr; destruct sg; try discriminate Hr; cbn [plain_frame] in Hf; apply is_main_eq in Hf; subst d;
      cbn [rest_of] in Hr; inversion Hr; subst r0; clear Hr.
    - (* FDagStart *)
      assert (E0 : node_names st = []).
      { destruct (node_names st) as [|a l]; [reflexivity|]. exfalso. apply (f_equal (@length key)) in Ho. rewrite app_length in Ho. cbn in Ho. lia. }
      assert (Ef : filter (fun k => negb (exists_processed k (st_store st))) order = order).
      { apply filter_unprocessed_id. intros m _. destruct (exists_processed m (st_store st)) eqn:E; [|reflexivity].
        pose proof (G1 m E) as Hin. rewrite E0 in Hin. contradiction. }
      cbn [step_frame d_rec maind]. rewrite Ef. destruct order as [|a l] eqn:Eo.
      + cbn [snd fst nstate rest_of]. exists []. split; [reflexivity|]. rewrite E0. reflexivity.
      + cbn [snd fst nstate app rest_of]. exists (a :: l). split; [reflexivity|]. rewrite E0. reflexivity.
    - (* FDagLoop *)
      destruct rest as [|n r].
      + cbn [step_frame snd fst nstate app rest_of]. exists []. split; [reflexivity|exact Ho].
      + cbn [step_frame]. destruct (is_ready P (st_store st) (maind P) n) eqn:Er.
        * cbn [d_oneof maind andb]. rewrite (plain_dep_error P _ _ _ Hst'), Hsw, Hhd.
          destruct (spawn (TNNode n) true [FNodeStart (maind P) n false] st) as [s1 t'] eqn:Es.
          cbn [snd fst nstate app rest_of]. exists r. split; [reflexivity|].
          assert (E1 : s1 = fst (spawn (TNNode n) true [FNodeStart (maind P) n false] st)) by (rewrite Es; reflexivity).
          unfold node_names. rewrite E1, names_spawn, node_names_snoc. fold (node_names st). rewrite <- app_assoc. exact Ho.
        * cbn [snd fst nstate app rest_of]. exists (n :: r). split; [reflexivity|exact Ho].
    - (* FDagFinal *)
      cbn [step_frame]. destruct (exists_result (d_dst (maind P)) (st_store st)).
      + cbn [snd fst nstate rest_of]. exists []. split; [reflexivity|exact Ho].
      + cbn [snd fst nstate app rest_of]. exists []. split; [reflexivity|exact Ho].
  Qed.

  Lemma not_cancelled_ts s k : s <> SThrow XCancelled -> cancelled_ts (TReady k s) = false /\ cancelled_ts (TDone s) = false.
  Proof. intros H. destruct s as [| | |e|]; cbn; auto. destruct e; cbn; auto. exfalso. apply H. reflexivity. Qed.

  Lemma cancelled_nstate rest d :
    (forall s, dir_sig d = Some s -> s <> SThrow XCancelled) -> cancelled_ts (nstate rest d) = false.
  Proof.
    destruct d as [w k'|k'|k' sg'|sg']; cbn [nstate dir_sig cancelled_ts]; intros H; try reflexivity.
    - destruct (not_cancelled_ts sg' (k' ++ rest) (H _ eq_refl)). destruct (k' ++ rest); assumption.
    - destruct (not_cancelled_ts sg' rest (H _ eq_refl)). destruct rest; assumption.
  Qed.

  Lemma rolesA_step st t fr rest sg :
    base P st (Some (t, fr :: rest, sg)) -> globR st -> allT (PhiR st) st (Some (t, fr :: rest, sg)) ->
    leaves_run fr sg (snd (step_frame P t fr sg st)) = false ->
    allT (PhiR (fst (step_frame P t fr sg st)))
         (fst (after_step t rest (step_frame P t fr sg st))) (snd (after_step t rest (step_frame P t fr sg st))).
  Proof.
    intros Hb HG HA Hlr. pose proof (globR_step st t fr rest sg Hb HG HA) as HG1. destruct HG as (G1 & G2 & G3).
    destruct (b_cur _ _ _ Hb) as [x0 [Hf0 [Hk [Hs [Ho [Hc [Hm Hrdy]]]]]]].
    cbn [plain_stack forallb] in Hk, Ho. apply andb_true_iff in Hk. destruct Hk as [Kf Kr]. apply andb_true_iff in Ho. destruct Ho as [Of Or].
    pose proof (plain_step_names P Hsw Hhd t fr sg st Kf Hs (b_ps _ _ _ Hb)) as Hn.
    destruct (find_task_in _ _ _ Hf0) as [Hin0 Hid0].
    pose proof (allT_In _ _ _ x0 HA Hin0) as Hx0. unfold PhiR in Hx0. cbn [estate] in Hx0. rewrite Hid0, Nat.eqb_refl in Hx0.
    destruct Hx0 as (X1 & X2 & X3 & X4 & X5). cbn [ident fst snd] in X1, X2, X3, X4, X5.
    pose proof (in_names _ _ Hin0) as Hnm0. pose proof (base_next _ _ _ Hb) as Hnx.
    apply (allT_step P Hsw Hhd (PhiR st)); try assumption.
    - apply PhiR_wake.
    - (* spawned tasks *)
      intros nm Hnm. unfold PhiR. cbn [fst snd estack cancelled_ts].
      destruct (creates_shape P fr sg st nm Hnm) as [[-> ->]|[d [n [r [l0 [-> [-> ->]]]]]]].
      + assert (Hno : ~ In TNRun (names st)) by (apply X3; [apply X1; apply (owner_chart_after_start _ Of)|reflexivity]).
        repeat split; try (unfold main_tid; intros; lia); try discriminate.
        intros _. exists order. split; [reflexivity|]. rewrite (G3 Hno). reflexivity.
      + repeat split; try (unfold main_tid; intros; lia); try discriminate.
    - (* the other tasks *)
      intros y ts Hy Hne (A & B & C & D & E). unfold PhiR. cbn [ident fst snd] in *. repeat split; try apply A; auto.
      + intros Hi He Hin. rewrite Hn in Hin. apply in_app_or in Hin. destruct Hin as [Hin|Hin]; [exact (C Hi He Hin)|].
        destruct (creates_shape P fr sg st _ Hin) as [[_ ->]|[d [n [r [l0 [_ [Hx _]]]]]]]; [|discriminate Hx].
        apply Hne. rewrite Hi. rewrite <- Hid0. symmetry. apply X1. apply (owner_chart_after_start _ Of).
      + intros Hnm. destruct (D Hnm) as [r [Hr Hor]]. exists r. split; [exact Hr|].
        unfold node_names. rewrite Hn, flat_map_app. fold (node_names st).
        destruct (creates P fr sg st) as [|nm l] eqn:Ec; [cbn; rewrite app_nil_r; exact Hor|].
        assert (Hcin : In nm (creates P fr sg st)) by (rewrite Ec; left; reflexivity).
        destruct (creates_shape P fr sg st nm Hcin) as [[-> ->]|[d [n [r' [l0 [-> [-> ->]]]]]]].
        * pose proof (creates_single _ _ _ _ _ Ec). subst l. cbn. rewrite app_nil_r. exact Hor.
        * (* a second launcher: impossible *)
          exfalso. pose proof (ev_step_frame P t (FDagLoop d (n :: r') l0) SGo st) as Hev.
          destruct (evolves_find _ _ _ _ Hev Hf0) as [x' [Hf' [Hnm' [_ Hid']]]]. destruct (find_task_in _ _ _ Hf') as [Hin' _].
          destruct HG1 as (_ & H2 & _).
          pose proof (two_named is_run_name _ y x' Hy Hin') as Htwo. fold (names (fst (step_frame P t (FDagLoop d (n :: r') l0) SGo st))) in Htwo.
          assert (2 <= 1); [|lia]. eapply Nat.le_trans; [apply Htwo|exact H2].
          -- rewrite Hid', Hid0. exact Hne.
          -- rewrite Hnm. reflexivity.
          -- rewrite Hnm'. rewrite (owner_dag_loop _ _ _ _ Of). reflexivity.
    - (* the running task *)
      intros x Hx Hid. rewrite (run_ident st t fr sg x0 x (b_ev _ _ _ Hb) Hf0 Hx Hid). unfold PhiR. cbn [ident fst snd].
      repeat split; try apply X1; auto.
      + (* early frames *)
        intros Hi He Hin. rewrite estack_nstate, has_early_app in He. rewrite Hn in Hin.
        assert (Hold : has_early (fr :: rest) = true).
        { apply orb_true_iff in He. destruct He as [He|He].
          - rewrite (plain_step_early P t fr sg st Kf Hs (b_ps _ _ _ Hb) He). reflexivity.
          - unfold has_early. cbn [existsb]. fold (has_early rest). rewrite He. apply orb_true_r. }
        apply in_app_or in Hin. destruct Hin as [Hin|Hin]; [exact (X3 Hi Hold Hin)|].
        destruct (creates_shape P fr sg st _ Hin) as [[_ ->]|[d [n [r [l0 [_ [Hxx _]]]]]]]; [|discriminate Hxx].
        assert (rest = []) by (apply (below_chart FChartAfterStart); [reflexivity|exact Hc]). subst rest.
        rewrite orb_false_r in He. pose proof (plain_step_early P t _ sg st Kf Hs (b_ps _ _ _ Hb) He) as Hcontra. discriminate Hcontra.
      + (* the launcher's position *)
        intros Hnm. destruct (X4 Hnm) as [r0 [Hr0 Hor]].
        exact (launcher_step st t fr rest sg r0 (b_ps _ _ _ Hb) Kf (conj G1 (conj G2 G3)) Hr0 Hor).
      + (* no cancellation *)
        intros Hh. apply cancelled_nstate. intros s Hsd.
        apply (plain_step_nocancel_sig P t fr sg st s Kf Hs (b_ps _ _ _ Hb)); [|exact Hsd].
        intros ->. specialize (X5 Hh). cbn in X5. discriminate X5.
  Qed.

  Lemma over_after_step t rest r : over (fst (after_step t rest r)) = over (fst r).
  Proof. destruct r as [st1 [w k'|k'|k' sg'|sg']]; reflexivity. Qed.

  Lemma allT_ext st0 st1 st c : names st1 = names st0 -> allT (PhiR st0) st c -> allT (PhiR st1) st c.
  Proof. intros E. apply allT_impl. intros x _. apply PhiR_ext. exact E. Qed.

  Theorem creach_roles : forall st c, creach P st c -> rolesI st c.
  Proof.
    intros st c H. pose proof (creach_base P Hsw Hhd Hbody st c H) as Hb0.
    induction H as [|st t rest x k sg H IH Hq Hf Ht|st t rest H IH Hq|st t fr rest sg H IH|st t sg H IH|st c H IH|st g H IH|st H IH].
    - right. split.
      + split; [|split].
        * intros m Hm. cbn in Hm. discriminate Hm.
        * cbn. lia.
        * reflexivity.
      + unfold allT, tasks_ok, init_state. cbn. constructor; [|constructor]. unfold TPc, PhiR. cbn.
        repeat split; try reflexivity; try discriminate. intros _ _ [Hx|[]]. discriminate Hx.
    - pose proof (creach_base P Hsw Hhd Hbody _ _ H) as Hb. destruct (IH Hb) as [Hg|[HG HA]]; [left; exact Hg|right].
      split; [exact HG|]. apply (allT_ext st); [reflexivity|]. eapply (allT_start P); eassumption.
    - pose proof (creach_base P Hsw Hhd Hbody _ _ H) as Hb. destruct (IH Hb) as [Hg|[HG HA]]; [left; exact Hg|right].
      split; [exact HG|exact HA].
    - pose proof (creach_base P Hsw Hhd Hbody _ _ H) as Hb. destruct (IH Hb) as [Hg|[HG HA]]; [left; apply (guard_step P); assumption|].
      destruct (b_cur _ _ _ Hb) as [x0 [Hf0 [Hk [Hs _]]]]. cbn [plain_stack forallb] in Hk. apply andb_true_iff in Hk. destruct Hk as [Kf _].
      destruct (leaves_run fr sg (snd (step_frame P t fr sg st))) eqn:Hlr.
      + left. left. rewrite over_after_step, (plain_step_over P t fr sg st Kf Hs (b_ps _ _ _ Hb)), Hlr. apply orb_true_r.
      + right. split.
        * apply (globR_ext (fst (step_frame P t fr sg st))); [apply names_after_step|apply store_after_step|]. apply (globR_step st t fr rest sg); assumption.
        * apply (allT_ext (fst (step_frame P t fr sg st))); [apply names_after_step|]. apply rolesA_step; assumption.
    - pose proof (creach_base P Hsw Hhd Hbody _ _ H) as Hb. destruct (IH Hb) as [Hg|[HG HA]]; [left; apply guard_done; [exact (b_ev _ _ _ Hb)|exact Hg]|right].
      split; [apply (globR_ext st); [exact (sn_set_tstate t _ st)|reflexivity|exact HG]|].
      apply (allT_ext st); [exact (sn_set_tstate t _ st)|]. apply (allT_done P); assumption.
    - pose proof (creach_base P Hsw Hhd Hbody _ _ H) as Hb. left. apply guard_abort. exact (b_ev _ _ _ Hb).
    - pose proof (creach_base P Hsw Hhd Hbody _ _ H) as Hb. destruct (IH Hb) as [Hg|[HG HA]]; [left; apply (guard_gate P); [exact (b_ev _ _ _ Hb)|exact Hg]|right].
      unfold complete_gate.
      split; [apply (globR_ext st); [apply names_wake_all|apply store_wake_all|exact HG]|].
      apply (allT_ext st); [apply names_wake_all|]. apply allT_gate; [apply PhiR_wake|exact HA].
    - pose proof (creach_base P Hsw Hhd Hbody _ _ H) as Hb. destruct (IH Hb) as [Hg|[HG HA]]; [left; apply (guard_cancel P); [exact (b_ev _ _ _ Hb)|exact Hg]|right].
      split; [apply (globR_ext st); [apply names_cancel_task|apply store_cancel_task|exact HG]|].
      apply (allT_ext st); [apply names_cancel_task|]. apply allT_cancel_main; [| |exact HA].
      + intros i k s Hi (A & B & C & D & E). repeat split; try apply A; auto.
        * intros Hn. apply A in Hi. rewrite Hi in Hn. discriminate Hn.
        * intros Hh. rewrite (B Hi) in Hh. discriminate Hh.
      + intros i w k Hi (A & B & C & D & E). repeat split; try apply A; auto.
        * intros Hn. apply A in Hi. rewrite Hi in Hn. discriminate Hn.
        * intros Hh. rewrite (B Hi) in Hh. discriminate Hh.
  Qed.
End RolesInv.
