(* Generic reasoning principles for the operational model: a rule for [exec], induction over reachable states,
   and the preservation of per-task predicates by every primitive that touches the task table. *)
From MLPE Require Import Engine.Run.

Definition with_ts (x : task frame) (ts : tstate frame) : task frame :=
  {| t_id := t_id x; t_name := t_name x; t_state := ts; t_helper := t_helper x |}.

Definition dequeue (st : mstate) : mstate :=
  {| st_store := st_store st; st_adddata := st_adddata st; st_tasks := st_tasks st; st_ready := tl (st_ready st);
     st_waiters := st_waiters st; st_events := st_events st; st_trace := st_trace st; st_ctrs := st_ctrs st;
     st_next := st_next st |}.

Section Rules.
  Variable P : prog.

  (* ---- exec ------------------------------------------------------------------------------------ *)
  Lemma exec_rule (t : tid) (Q : list frame -> signal -> mstate -> Prop) (R : mstate -> Prop) :
    (forall sg st, Q [] sg st -> R (set_tstate t (TDone sg) st)) ->
    (forall fr rest sg st, Q (fr :: rest) sg st ->
        R (abort P st) /\
        match step_frame P t fr sg st with
        | (st1, DSuspend w k') => R (suspend t w (k' ++ rest) st1)
        | (st1, DYield k') => R (push_ready t (set_tstate t (TReady (k' ++ rest) SGo) st1))
        | (st1, DCont k' sg') => Q (k' ++ rest) sg' st1
        | (st1, DRet sg') => Q rest sg' st1
        end) ->
    forall fuel k sg st, Q k sg st -> R (exec P fuel t k sg st).
  Proof.
    intros Hnil Hcons. induction fuel as [|f IH]; intros k sg st HQ.
    - destruct k as [|fr rest]; cbn [exec]; [apply Hnil; exact HQ|]. apply (Hcons fr rest sg st HQ).
    - destruct k as [|fr rest]; cbn [exec]; [apply Hnil; exact HQ|].
      destruct (Hcons fr rest sg st HQ) as [_ H].
      destruct (step_frame P t fr sg st) as [st1 [w k'|k'|k' sg'|sg']]; try exact H; apply IH; exact H.
  Qed.

  (* ---- loop_step ------------------------------------------------------------------------------- *)
  Lemma loop_step_unfold st :
    loop_step P st =
    match st_ready st with
    | [] => st
    | t :: _ =>
      match find_task t (st_tasks st) with
      | Some x => match t_state x with
                  | TReady k sg => exec P (fuel_budget P) t k sg (dequeue st)
                  | _ => dequeue st
                  end
      | None => dequeue st
      end
    end.
  Proof.
    unfold loop_step, dequeue. destruct (st_ready st) as [|t rest]; [reflexivity|]. cbv zeta. cbn [tl st_tasks].
    destruct (find_task t (st_tasks st)) as [[i nm [k sg|w k|r] h]|]; cbn [t_state]; reflexivity.
  Qed.

  Lemma loop_step_rule (I R : mstate -> Prop) st :
    I st ->
    (st_ready st = [] -> R st) ->
    (forall t rest, st_ready st = t :: rest -> R (dequeue st)) ->
    (forall t rest x k sg, st_ready st = t :: rest -> find_task t (st_tasks st) = Some x -> t_state x = TReady k sg ->
                           R (exec P (fuel_budget P) t k sg (dequeue st))) ->
    R (loop_step P st).
  Proof.
    intros HI H0 H1 H2. rewrite loop_step_unfold. destruct (st_ready st) as [|t rest] eqn:E; [apply H0; reflexivity|].
    destruct (find_task t (st_tasks st)) as [x|] eqn:F; [|apply (H1 t rest); reflexivity].
    destruct (t_state x) as [k sg|w k|r] eqn:T; try (apply (H1 t rest); reflexivity).
    apply (H2 t rest x k sg); auto.
  Qed.

  (* ---- reachable states ------------------------------------------------------------------------ *)
  Lemma quiesce_reachable fuel st : reachable P st -> reachable P (quiesce P fuel st).
  Proof.
    revert st; induction fuel as [|f IH]; intros st H; cbn [quiesce]; [exact H|].
    destruct (st_ready st); [exact H|]. apply IH. exact (reach_step P st AStep H).
  Qed.

  Lemma reachable_inv (I : mstate -> Prop) :
    I (init_state) ->
    (forall st, reachable P st -> I st -> I (loop_step P st)) ->
    (forall st g, reachable P st -> I st -> I (complete_gate g st)) ->
    (forall st, reachable P st -> I st -> I (cancel_task main_tid st)) ->
    forall st, reachable P st -> I st.
  Proof.
    intros H0 Hs Hg Hc st H. induction H as [|st a H IH]; [exact H0|].
    destruct a as [| |g|]; cbn [apply_action].
    - apply Hs; assumption.
    - unfold quiesce_fuel. generalize 4096. intros fuel. revert st H IH.
      induction fuel as [|f IHf]; intros st H IH; cbn [quiesce]; [exact IH|].
      destruct (st_ready st) eqn:E; [exact IH|]. apply IHf.
      + exact (reach_step P st AStep H).
      + apply Hs; assumption.
    - apply Hg; assumption.
    - apply Hc; assumption.
  Qed.
End Rules.

(* ---- the task table -------------------------------------------------------------------------------- *)
Section Tasks.
  Lemma find_task_in t (l : list (task frame)) x : find_task t l = Some x -> In x l /\ t_id x = t.
  Proof.
    induction l as [|y r IH]; simpl; [discriminate|].
    destruct (Nat.eqb (t_id y) t) eqn:E.
    - intros H. inversion H; subst. split; [left; reflexivity|apply Nat.eqb_eq; exact E].
    - intros H. destruct (IH H). split; [right|]; assumption.
  Qed.

  (* upd_task rewrites exactly the task that find_task finds *)
  Lemma upd_task_Forall (Q : task frame -> Prop) t f l :
    Forall Q l -> (forall x, find_task t l = Some x -> Q x -> Q (f x)) -> Forall Q (upd_task t f l).
  Proof.
    induction l as [|y r IH]; simpl; intros H Hf; [constructor|].
    inversion H; subst. destruct (Nat.eqb (t_id y) t) eqn:E.
    - constructor; [|assumption]. apply Hf; [reflexivity|assumption].
    - constructor; [assumption|]. apply IH; assumption.
  Qed.

  Lemma find_upd_same t f (l : list (task frame)) x :
    (forall y, t_id (f y) = t_id y) ->
    find_task t l = Some x -> find_task t (upd_task t f l) = Some (f x).
  Proof.
    intros Hid. induction l as [|y r IH]; simpl; [discriminate|].
    destruct (Nat.eqb (t_id y) t) eqn:E; simpl.
    - intros H. inversion H; subst. rewrite Hid, E. reflexivity.
    - rewrite E. exact IH.
  Qed.

  Lemma find_upd_other t t' f (l : list (task frame)) :
    (forall y, t_id (f y) = t_id y) -> t' <> t ->
    find_task t' (upd_task t f l) = find_task t' l.
  Proof.
    intros Hid Hne. induction l as [|y r IH]; simpl; [reflexivity|].
    destruct (Nat.eqb (t_id y) t) eqn:E; simpl.
    - rewrite Hid. apply Nat.eqb_eq in E. destruct (Nat.eqb (t_id y) t') eqn:E'; [|reflexivity].
      apply Nat.eqb_eq in E'. congruence.
    - destruct (Nat.eqb (t_id y) t'); [reflexivity|exact IH].
  Qed.

  Lemma find_upd_none t t' f (l : list (task frame)) :
    (forall y, t_id (f y) = t_id y) ->
    find_task t' l = None -> find_task t' (upd_task t f l) = None.
  Proof.
    intros Hid. induction l as [|y r IH]; simpl; [reflexivity|].
    destruct (Nat.eqb (t_id y) t') eqn:E'; [discriminate|]. intros H.
    destruct (Nat.eqb (t_id y) t) eqn:E; simpl.
    - rewrite Hid, E'. exact H.
    - rewrite E'. apply IH. exact H.
  Qed.
End Tasks.

(* A predicate on single tasks that is stable under being woken and being cancelled holds for every task of the
   table after any of the primitives below, if it held before. *)
Section PerTask.
  Variable TP : task frame -> Prop.
  Hypothesis TP_wake : forall x w k, t_state x = TWait w k -> TP x -> TP (with_ts x (TReady k SGo)).
  Hypothesis TP_cancel_ready : forall x k sg, t_state x = TReady k sg -> TP x -> TP (with_ts x (TReady k (SThrow XCancelled))).
  Hypothesis TP_cancel_wait : forall x w k, t_state x = TWait w k -> TP x -> TP (with_ts x (TReady k (SThrow XCancelled))).

  Definition tasks_ok (st : mstate) : Prop := Forall TP (st_tasks st).

  Lemma tasks_ok_same st st' : st_tasks st' = st_tasks st -> tasks_ok st -> tasks_ok st'.
  Proof. unfold tasks_ok. intros ->. auto. Qed.

  Lemma ok_set_tstate t ts st :
    tasks_ok st -> (forall x, find_task t (st_tasks st) = Some x -> TP x -> TP (with_ts x ts)) -> tasks_ok (set_tstate t ts st).
  Proof. unfold tasks_ok, set_tstate; simpl. intros H Hf. apply upd_task_Forall; assumption. Qed.

  Lemma ok_wake t st : tasks_ok st -> tasks_ok (wake t SGo st).
  Proof.
    intros H. unfold wake. destruct (find_task t (st_tasks st)) as [x|] eqn:F; [|exact H].
    destruct x as [i nm [k s|w k|r] h]; try exact H.
    apply (tasks_ok_same (set_tstate t (TReady k SGo) st)); [reflexivity|].
    apply ok_set_tstate; [exact H|]. intros y Hy HT. rewrite F in Hy. inversion Hy; subst.
    refine (TP_wake _ w k _ HT); reflexivity.
  Qed.

  Lemma ok_fold_wake l st : tasks_ok st -> tasks_ok (fold_left (fun s (p : wait * tid) => wake (snd p) SGo s) l st).
  Proof. revert st; induction l as [|p r IH]; intros st H; simpl; [exact H|]. apply IH. apply ok_wake. exact H. Qed.

  Lemma ok_wake_all w st : tasks_ok st -> tasks_ok (wake_all w SGo st).
  Proof. intros H. unfold wake_all. apply ok_fold_wake. exact H. Qed.

  Lemma ok_notify c st : tasks_ok st -> tasks_ok (notify c st).
  Proof. apply ok_wake_all. Qed.

  Lemma ok_notify_keys ks st : tasks_ok st -> tasks_ok (notify_keys ks st).
  Proof.
    unfold notify_keys. revert st; induction ks as [|k r IH]; intros st H; simpl; [exact H|]. apply IH, ok_notify, H.
  Qed.

  Lemma ok_set_event n st : tasks_ok st -> tasks_ok (set_event n st).
  Proof. intros H. unfold set_event. apply ok_wake_all. exact H. Qed.

  Lemma ok_cancel_task t st : tasks_ok st -> tasks_ok (cancel_task t st).
  Proof.
    intros H. unfold cancel_task. destruct (find_task t (st_tasks st)) as [x|] eqn:F; [|exact H].
    destruct x as [i nm [k s|w k|r] h]; try exact H.
    - apply ok_set_tstate; [exact H|]. intros y Hy HT. rewrite F in Hy. inversion Hy; subst.
      refine (TP_cancel_ready _ k s _ HT); reflexivity.
    - match goal with |- tasks_ok (push_ready _ ?s) => apply (tasks_ok_same s); [reflexivity|] end.
      apply ok_set_tstate; [exact H|]. intros y Hy HT. simpl in Hy. rewrite F in Hy. inversion Hy; subst.
      refine (TP_cancel_wait _ w k _ HT); reflexivity.
  Qed.

  Lemma ok_cancel_tasks ts st : tasks_ok st -> tasks_ok (cancel_tasks ts st).
  Proof.
    unfold cancel_tasks. revert st; induction ts as [|t r IH]; intros st H; simpl; [exact H|]. apply IH, ok_cancel_task, H.
  Qed.

  Lemma ok_finally_a n st : tasks_ok st -> tasks_ok (finally_a n st).
  Proof. intros H. unfold finally_a. apply ok_notify, ok_set_event, H. Qed.

  Lemma ok_finally_b P d n st : tasks_ok st -> tasks_ok (finally_b P d n st).
  Proof.
    intros H. unfold finally_b. destruct (key_eqb n (d_dst d)).
    - apply ok_notify, ok_notify, ok_notify_keys, ok_set_event, H.
    - apply ok_notify, ok_notify_keys, ok_set_event, H.
  Qed.

  Lemma ok_spawn nm h k st :
    tasks_ok st -> TP {| t_id := st_next st; t_name := nm; t_state := TReady k SGo; t_helper := h |} ->
    tasks_ok (fst (spawn nm h k st)).
  Proof. unfold tasks_ok, spawn; simpl. intros H Hn. apply Forall_app. split; [exact H|]. constructor; [exact Hn|constructor]. Qed.

  Lemma ok_suspend t w k st :
    tasks_ok st -> (forall x, find_task t (st_tasks st) = Some x -> TP x -> TP (with_ts x (TWait w k))) ->
    tasks_ok (suspend t w k st).
  Proof.
    intros H Hf. unfold suspend.
    match goal with |- tasks_ok (set_waiters _ ?s) => apply (tasks_ok_same s); [reflexivity|] end.
    apply ok_set_tstate; assumption.
  Qed.

  Lemma ok_emit_obs o st : tasks_ok st -> tasks_ok (emit_obs o st).
  Proof. apply tasks_ok_same. reflexivity. Qed.
  Lemma ok_with_store f st : tasks_ok st -> tasks_ok (with_store f st).
  Proof. apply tasks_ok_same. reflexivity. Qed.
  Lemma ok_bump c st : tasks_ok st -> tasks_ok (bump c st).
  Proof. apply tasks_ok_same. reflexivity. Qed.
  Lemma ok_set_adddata k v st : tasks_ok st -> tasks_ok (set_adddata k v st).
  Proof. apply tasks_ok_same. reflexivity. Qed.
  Lemma ok_push_ready t st : tasks_ok st -> tasks_ok (push_ready t st).
  Proof. apply tasks_ok_same. reflexivity. Qed.
  Lemma ok_dequeue st : tasks_ok st -> tasks_ok (dequeue st).
  Proof. apply tasks_ok_same. reflexivity. Qed.
  Lemma ok_fold_hide (l : list key) st :
    tasks_ok st -> tasks_ok (fold_left (fun s k => emit_obs (OHide k) s) l st).
  Proof. revert st; induction l as [|k r IH]; intros st H; cbn [fold_left]; [exact H|]. apply IH, ok_emit_obs, H. Qed.

  Lemma ok_abort P st :
    (forall x k, TP x -> TP (with_ts x (TDone (SThrow (XEng EOutOfFuel k))))) -> tasks_ok st -> tasks_ok (abort P st).
  Proof.
    intros Hd H. unfold tasks_ok, abort in *. cbn [st_tasks]. rewrite Forall_forall in *. intros y Hy.
    apply in_map_iff in Hy. destruct Hy as [x [<- Hx]]. apply (Hd x). apply H. exact Hx.
  Qed.

  (* the five shapes in which the engine creates a task *)
  Definition spawn_frame (f : frame) : bool :=
    match f with
    | FDagStart _ | FSwitchStart _ _ | FOneOfLoop _ _ _ | FNodeStart _ _ _ | FRecStart _ _ _ => true
    | _ => false
    end.
  Hypothesis TP_spawn : forall i nm f, 1 <= i -> spawn_frame f = true ->
                                       TP {| t_id := i; t_name := nm; t_state := TReady [f] SGo; t_helper := true |}.

  Lemma ok_spawn_frame nm f st : 1 <= st_next st -> spawn_frame f = true -> tasks_ok st -> tasks_ok (fst (spawn nm true [f] st)).
  Proof. intros Hn Hf H. apply ok_spawn; [exact H|]. apply TP_spawn; assumption. Qed.
End PerTask.

Ltac break_match :=
  match goal with
  | |- context [match ?x with _ => _ end] =>
    lazymatch x with
    | context [match _ with _ => _ end] => fail
    | _ => destruct x eqn:?
    end
  end.

(* rewrite the components of a destructed [spawn] back into projections *)
Ltac spawn_norm :=
  repeat match goal with
         | H : spawn ?nm ?h ?k ?s = (?s1, ?t1) |- _ =>
           let E := fresh in
           assert (E : s1 = fst (spawn nm h k s)) by (rewrite H; reflexivity);
           rewrite E in *; clear E H
         end.

Ltac ok_prims :=
  repeat first
         [ assumption
         | apply ok_notify | apply ok_notify_keys | apply ok_set_event | apply ok_cancel_tasks | apply ok_cancel_task
         | apply ok_finally_a | apply ok_finally_b | apply ok_emit_obs | apply ok_with_store | apply ok_bump
         | apply ok_set_adddata | apply ok_push_ready | apply ok_fold_hide | apply ok_wake_all
         | (apply ok_spawn_frame; [assumption|assumption|reflexivity|]) ].

Section PerTaskStep.
  Variable P : prog.
  Variable TP : task frame -> Prop.
  Hypothesis TP_wake : forall x w k, t_state x = TWait w k -> TP x -> TP (with_ts x (TReady k SGo)).
  Hypothesis TP_cancel_ready : forall x k sg, t_state x = TReady k sg -> TP x -> TP (with_ts x (TReady k (SThrow XCancelled))).
  Hypothesis TP_cancel_wait : forall x w k, t_state x = TWait w k -> TP x -> TP (with_ts x (TReady k (SThrow XCancelled))).
  Hypothesis TP_spawn : forall i nm f, 1 <= i -> spawn_frame f = true ->
                                       TP {| t_id := i; t_name := nm; t_state := TReady [f] SGo; t_helper := true |}.

  (* one resumption of a frame keeps the predicate on every task of the table (the running task's own entry is
     stale until [exec] writes it back, and is not touched here) *)
  Lemma step_frame_tasks_ok t fr sg st : 1 <= st_next st -> tasks_ok TP st -> tasks_ok TP (fst (step_frame P t fr sg st)).
  Proof.
    intros Hn H. destruct fr; destruct sg; cbn [step_frame]; unfold default_or_raise, reduced;
      repeat break_match; spawn_norm; cbn [fst]; ok_prims.
  Qed.

  Lemma complete_gate_tasks_ok g st : tasks_ok TP st -> tasks_ok TP (complete_gate g st).
  Proof. intros H. unfold complete_gate. ok_prims. Qed.
End PerTaskStep.

(* ---- preorders on states that every primitive respects ----------------------------------------------- *)
Definition add_event (n : key) (st : mstate) : mstate :=
  {| st_store := st_store st; st_adddata := st_adddata st; st_tasks := st_tasks st; st_ready := st_ready st;
     st_waiters := st_waiters st; st_events := add_set key_eqb n (st_events st); st_trace := st_trace st;
     st_ctrs := st_ctrs st; st_next := st_next st |}.

Section RelStep.
  Variable P : prog.
  Variable Rel : mstate -> mstate -> Prop.
  Hypothesis Rel_refl : forall st, Rel st st.
  Hypothesis Rel_trans : forall a b c, Rel a b -> Rel b c -> Rel a c.
  Hypothesis R_emit_obs : forall o st, Rel st (emit_obs o st).
  Hypothesis R_with_store : forall f st, Rel st (with_store f st).
  Hypothesis R_bump : forall c st, Rel st (bump c st).
  Hypothesis R_set_adddata : forall k v st, Rel st (set_adddata k v st).
  Hypothesis R_push_ready : forall t st, Rel st (push_ready t st).
  Hypothesis R_set_waiters : forall w st, Rel st (set_waiters w st).
  Hypothesis R_set_tstate : forall t ts st, Rel st (set_tstate t ts st).
  Hypothesis R_spawn : forall nm h k st, Rel st (fst (spawn nm h k st)).
  Hypothesis R_add_event : forall n st, Rel st (add_event n st).
  Hypothesis R_dequeue : forall st, Rel st (dequeue st).
  Hypothesis R_abort : forall st, Rel st (abort P st).

  Ltac rstep H := eapply Rel_trans; [|apply H].

  Lemma R_wake t sg st0 st : Rel st0 st -> Rel st0 (wake t sg st).
  Proof.
    intros H. unfold wake. destruct (find_task t (st_tasks st)) as [[i nm [k s|w k|r] h]|]; try exact H.
    rstep R_push_ready. rstep R_set_tstate. exact H.
  Qed.

  Lemma R_wake_all w sg st0 st : Rel st0 st -> Rel st0 (wake_all w sg st).
  Proof.
    intros H. unfold wake_all.
    assert (G : forall l s, Rel st0 s -> Rel st0 (fold_left (fun s (p : wait * tid) => wake (snd p) sg s) l s)).
    { induction l as [|p r IH]; intros s Hs; cbn [fold_left]; [exact Hs|]. apply IH, R_wake, Hs. }
    apply G. rstep R_set_waiters. exact H.
  Qed.

  Lemma R_notify c st0 st : Rel st0 st -> Rel st0 (notify c st).
  Proof. apply R_wake_all. Qed.

  Lemma R_notify_keys ks st0 st : Rel st0 st -> Rel st0 (notify_keys ks st).
  Proof.
    unfold notify_keys. revert st; induction ks as [|k r IH]; intros st H; cbn [fold_left]; [exact H|]. apply IH, R_notify, H.
  Qed.

  Lemma R_set_event n st0 st : Rel st0 st -> Rel st0 (set_event n st).
  Proof. intros H. change (set_event n st) with (wake_all (WEvent n) SGo (add_event n st)). apply R_wake_all. rstep R_add_event. exact H. Qed.

  Lemma R_cancel_task t st0 st : Rel st0 st -> Rel st0 (cancel_task t st).
  Proof.
    intros H. unfold cancel_task. destruct (find_task t (st_tasks st)) as [[i nm [k s|w k|r] h]|]; try exact H.
    - rstep R_set_tstate. exact H.
    - rstep R_push_ready. rstep R_set_tstate. rstep R_set_waiters. exact H.
  Qed.

  Lemma R_cancel_tasks ts st0 st : Rel st0 st -> Rel st0 (cancel_tasks ts st).
  Proof.
    unfold cancel_tasks. revert st; induction ts as [|t r IH]; intros st H; cbn [fold_left]; [exact H|]. apply IH, R_cancel_task, H.
  Qed.

  Lemma R_finally_a n st0 st : Rel st0 st -> Rel st0 (finally_a n st).
  Proof. intros H. unfold finally_a. apply R_notify, R_set_event, H. Qed.

  Lemma R_finally_b d n st0 st : Rel st0 st -> Rel st0 (finally_b P d n st).
  Proof.
    intros H. unfold finally_b. destruct (key_eqb n (d_dst d)).
    - apply R_notify, R_notify, R_notify_keys, R_set_event, H.
    - apply R_notify, R_notify_keys, R_set_event, H.
  Qed.

  Lemma R_fold_hide (l : list key) st0 st :
    Rel st0 st -> Rel st0 (fold_left (fun s k => emit_obs (OHide k) s) l st).
  Proof. revert st; induction l as [|k r IH]; intros st H; cbn [fold_left]; [exact H|]. apply IH. rstep R_emit_obs. exact H. Qed.

  Lemma R_suspend t w k st0 st : Rel st0 st -> Rel st0 (suspend t w k st).
  Proof. intros H. unfold suspend. rstep R_set_waiters. rstep R_set_tstate. exact H. Qed.

  Ltac r_prims :=
    repeat first
           [ apply Rel_refl
           | apply R_notify | apply R_notify_keys | apply R_set_event | apply R_cancel_tasks | apply R_cancel_task
           | apply R_finally_a | apply R_finally_b | apply R_fold_hide | apply R_wake_all
           | (eapply Rel_trans; [|apply R_emit_obs]) | (eapply Rel_trans; [|apply R_with_store])
           | (eapply Rel_trans; [|apply R_bump]) | (eapply Rel_trans; [|apply R_set_adddata])
           | (eapply Rel_trans; [|apply R_push_ready]) | (eapply Rel_trans; [|apply R_spawn]) ].

  Lemma R_step_frame t fr sg st : Rel st (fst (step_frame P t fr sg st)).
  Proof.
    destruct fr; destruct sg; cbn [step_frame]; unfold default_or_raise, reduced;
      repeat break_match; spawn_norm; cbn [fst]; r_prims.
  Qed.

  Lemma R_exec fuel t k sg st0 st : Rel st0 st -> Rel st0 (exec P fuel t k sg st).
  Proof.
    intros H. apply (exec_rule P t (fun _ _ s => Rel st0 s) (fun s => Rel st0 s)); [| |exact H].
    - intros sg' s Hs. rstep R_set_tstate. exact Hs.
    - intros fr rest sg' s Hs. split; [rstep R_abort; exact Hs|].
      pose proof (R_step_frame t fr sg' s) as Hstep.
      destruct (step_frame P t fr sg' s) as [st1 [w k'|k'|k' sg''|sg'']]; cbn [fst] in Hstep.
      + apply R_suspend. eapply Rel_trans; eassumption.
      + rstep R_push_ready. rstep R_set_tstate. eapply Rel_trans; eassumption.
      + eapply Rel_trans; eassumption.
      + eapply Rel_trans; eassumption.
  Qed.

  Lemma R_loop_step st : Rel st (loop_step P st).
  Proof.
    rewrite loop_step_unfold. destruct (st_ready st) as [|t rest]; [apply Rel_refl|].
    destruct (find_task t (st_tasks st)) as [x|]; [|apply R_dequeue].
    destruct (t_state x) as [k sg|w k|r]; try apply R_dequeue. apply R_exec. apply R_dequeue.
  Qed.

  Lemma R_action a st : Rel st (apply_action P a st).
  Proof.
    destruct a as [| |g|]; cbn [apply_action].
    - apply R_loop_step.
    - unfold quiesce_fuel. generalize 4096. intros fuel. revert st. induction fuel as [|f IH]; intros st; cbn [quiesce]; [apply Rel_refl|].
      destruct (st_ready st); [apply Rel_refl|]. eapply Rel_trans; [apply R_loop_step|apply IH].
    - unfold complete_gate. apply R_wake_all, Rel_refl.
    - apply R_cancel_task, Rel_refl.
  Qed.

  Lemma R_sched sched st : Rel st (fold_left (fun s a => apply_action P a s) sched st).
  Proof.
    revert st; induction sched as [|a r IH]; intros st; cbn [fold_left]; [apply Rel_refl|].
    eapply Rel_trans; [apply R_action|apply IH].
  Qed.

  Lemma R_reachable st : reachable P st -> Rel (init_state) st.
  Proof. intros H. induction H as [|st a H IH]; [apply Rel_refl|]. eapply Rel_trans; [exact IH|apply R_action]. Qed.
End RelStep.
