(* Plain programs, every schedule, while manager.run is pending: nobody waits in vain.
   - the launcher parked before node n: some dependency of n has not finished (its event is unset or it has no result);
   - the chart task parked inside manager.run: no node has failed (every set event has a result) and the output node's event is unset;
   - manager.run has its launcher. *)
From MLPE Require Import Engine.Run Proofs.ExecLemmas Proofs.Evolve Proofs.StackInv Proofs.ReadyInv Proofs.WaitInv Explore.StateEq
     Proofs.ProcessedInv Proofs.PlainWorld Proofs.PlainLaunch Proofs.PlainLive Proofs.Micro Proofs.PlainBase Proofs.PlainCore Proofs.PlainInv
     Proofs.PlainRoles Proofs.PlainExec.

Definition has_run (k : list frame) : bool := existsb (fun f => match f with FRunWait => true | _ => false end) k.
Definition fin (st : mstate) (p : key) : bool := event_is_set p st && exists_result p (st_store st).

Section WaitSteps.
  Variable P : prog.
  Notation G := (b_graph (build (p_decls P) (p_inp P) (p_out P))).
  Hypothesis Hsw : forall n, is_switch G n = false.
  Hypothesis Hhd : forall n, is_head G n = false.
  Hypothesis Hbody : forall i kw a v, p_body P i kw a = OVal v -> clean v = true.

  Ltac plain_prep6 :=
    repeat match goal with
           | H : (_ && _)%bool = true |- _ => apply andb_true_iff in H; destruct H
           | H : is_main P ?d = true |- _ => apply is_main_eq in H; subst d
           | H : negb ?f = true |- _ => apply negb_true_iff in H; subst f
           | H : ?u = true |- _ => is_var u; subst u
           end.

  (* a step that sets an event is exactly the `finally` of _run_node *)
  Lemma plain_step_finally t fr sg st n :
    plain_frame P fr = true -> clean_sig sg -> PS st -> step_event fr sg = Some n ->
    fst (step_frame P t fr sg st) = finally_b P (maind P) n st.
  Proof.
    intros Hf Hs Hst. pose proof Hst as Hst'. unfold PS in Hst'.
    destruct fr; try discriminate Hf; cbn [plain_frame] in Hf; plain_prep6;
      destruct sg; cbn [clean_sig] in Hs; cbn [step_event]; intros H; try discriminate H; inversion H; subst; reflexivity.
  Qed.

  (* only FChartAfterStart pushes the frame of manager.run *)
  Lemma plain_step_run t fr sg st :
    plain_frame P fr = true -> clean_sig sg -> PS st ->
    has_run (dir_frames (snd (step_frame P t fr sg st))) = true -> (fr = FChartAfterStart /\ In TNRun (creates P fr sg st)) \/ fr = FRunWait.
  Proof.
    intros Hf Hs Hst. pose proof Hst as Hst'. unfold PS in Hst'.
    destruct fr; try discriminate Hf; cbn [plain_frame] in Hf; plain_prep6;
      destruct sg; cbn [clean_sig] in Hs;
      try match goal with H : clean ?v = true |- _ => pose proof (clean_not_rec v H) as Hnr; pose proof (clean_not_exn v H) as Hne end;
      cbn [step_frame creates]; rewrite ?Hnr, ?Hne, ?Hsw, ?Hhd, ?(plain_dep_error P _ _ _ Hst'), ?(plain_no_subgraph_error _ _ Hst');
      unfold default_or_raise, reduced; cbn [d_oneof d_rec maind andb];
      repeat break_match; cbn [snd dir_frames has_run existsb emit_frames orb]; intros H; try discriminate H; try (right; reflexivity).
    left. split; [reflexivity|left; reflexivity].
  Qed.

  (* the only way to park on the run condition *)
  Lemma plain_step_wait_run t fr rest sg st k :
    plain_frame P fr = true -> clean_sig sg -> PS st ->
    nstate rest (snd (step_frame P t fr sg st)) = TWait (WCond CRun) k ->
    fr = FRunWait /\ sg = SGo /\ run_pred P st = false /\ fst (step_frame P t fr sg st) = st.
  Proof.
    intros Hf Hs Hst. pose proof Hst as Hst'. unfold PS in Hst'.
    destruct fr; try discriminate Hf; cbn [plain_frame] in Hf; plain_prep6;
      destruct sg; cbn [clean_sig] in Hs;
      try match goal with H : clean ?v = true |- _ => pose proof (clean_not_rec v H) as Hnr; pose proof (clean_not_exn v H) as Hne end;
      cbn [step_frame]; rewrite ?Hnr, ?Hne, ?Hsw, ?Hhd, ?(plain_dep_error P _ _ _ Hst'), ?(plain_no_subgraph_error _ _ Hst');
      unfold default_or_raise, reduced; cbn [d_oneof d_rec maind andb];
      repeat break_match; cbn [snd fst nstate app emit_frames]; intros Hts; try discriminate Hts;
      try (destruct rest; discriminate Hts).
    auto.
  Qed.
End WaitSteps.

Lemma in_find (l : list (task frame)) y : NoDup (map (@t_id frame) l) -> In y l -> find_task (t_id y) l = Some y.
Proof.
  induction l as [|z r IH]; [contradiction|]. cbn [map find_task]. intros Hnd [->|Hy]; [rewrite Nat.eqb_refl; reflexivity|].
  inversion Hnd as [|a b Hni Hr]; subst. destruct (Nat.eqb (t_id z) (t_id y)) eqn:E; [|apply IH; assumption].
  apply Nat.eqb_eq in E. exfalso. apply Hni. rewrite E. apply in_map. exact Hy.
Qed.

Lemma task_errors_in (st : mstate) x e :
  In x (st_tasks st) -> t_helper x = true -> t_state x = TDone (SThrow e) -> e <> XCancelled -> In e (task_errors st).
Proof.
  intros Hx Hh Hs Hne. unfold task_errors. apply in_flat_map. exists x. split; [exact Hx|]. rewrite Hh, Hs.
  destruct e; try (left; reflexivity). contradiction.
Qed.

Section WaitInv.
  Variable P : prog.
  Notation G := (b_graph (build (p_decls P) (p_inp P) (p_out P))).
  Notation out := (b_output (build (p_decls P) (p_inp P) (p_out P))).
  Hypothesis Hsw : forall n, is_switch G n = false.
  Hypothesis Hhd : forall n, is_head G n = false.
  Hypothesis Hbody : forall i kw a v, p_body P i kw a = OVal v -> clean v = true.
  Notation order := (p_order P (maind P)).
  Hypothesis Hnd : NoDup order.
  Hypothesis Hsucc : forall n p, In p (preds G n) -> In n (p_succ_order P p).

  Lemma is_ready_false (s : storage) n :
    plain_store s -> is_ready P s (maind P) n = false -> exists p, In p (preds G n) /\ exists_result p s = false.
  Proof.
    intros Hps. unfold is_ready, ready_preds. rewrite Hsw, Hhd. cbn [d_rec maind orb].
    induction (preds G n) as [|p r IH]; cbn [forallb]; [discriminate|]. intros H. apply andb_false_iff in H. destruct H as [H|H].
    - exists p. split; [left; reflexivity|]. unfold resolve_switch in H. rewrite Hsw in H.
      apply andb_false_iff in H. destruct H as [H|H]; [exact H|].
      apply negb_false_iff in H. pose proof (plain_get_result p false s Hps) as Hc. apply clean_not_rec in Hc. congruence.
    - destruct (IH H) as [q [Hq Hr]]. exists q. split; [right; exact Hq|exact Hr].
  Qed.

  Definition PhiW (st : mstate) (i : idt) (ts : tstate frame) : Prop :=
    (snd (fst i) = TNRun -> forall n d r l, ts = TWait (WCond (CNode n)) [FDagLoop d (n :: r) l] ->
                            exists p, In p (preds G n) /\ fin st p = false) /\
    (fst (fst i) = main_tid -> forall k, ts = TWait (WCond CRun) k ->
                               (forall m, event_is_set m st = true -> exists_result m (st_store st) = true) /\ event_is_set out st = false) /\
    (fst (fst i) = main_tid -> has_run (estack ts) = true -> In TNRun (names st)).
  Definition waitI (st : mstate) (c : running) : Prop := guard st \/ allT (PhiW st) st c.

  Lemma PhiW_ext st st' i ts : names st' = names st -> st_store st' = st_store st -> st_events st' = st_events st -> PhiW st i ts -> PhiW st' i ts.
  Proof. unfold PhiW, fin, event_is_set. intros -> -> ->. auto. Qed.
  Lemma allT_extW st0 st1 st c :
    names st1 = names st0 -> st_store st1 = st_store st0 -> st_events st1 = st_events st0 -> allT (PhiW st0) st c -> allT (PhiW st1) st c.
  Proof. intros A B C. apply allT_impl. intros x _. apply PhiW_ext; assumption. Qed.

  Lemma PhiW_wake st : wake_closed (PhiW st).
  Proof.
    intros i w k (A & B & C). split; [|split].
    - intros _ n d r l H. discriminate H.
    - intros _ k0 H. discriminate H.
    - exact C.
  Qed.

  Lemma has_run_app a b : has_run (a ++ b) = has_run a || has_run b.
  Proof. unfold has_run. apply existsb_app. Qed.

  Lemma descendants_succ n p : In n (p_succ_order P p) -> In n (descendants P p).
  Proof. intros H. unfold descendants. apply in_or_app. left. exact H. Qed.

  Lemma waitA_step st t fr rest sg :
    base P st (Some (t, fr :: rest, sg)) ->
    globR st -> allT (PhiR P st) st (Some (t, fr :: rest, sg)) ->
    globE st -> allT (PhiE st) st (Some (t, fr :: rest, sg)) ->
    allT (PhiW st) st (Some (t, fr :: rest, sg)) ->
    leaves_run fr sg (snd (step_frame P t fr sg st)) = false ->
    allT (PhiW (fst (step_frame P t fr sg st)))
         (fst (after_step t rest (step_frame P t fr sg st))) (snd (after_step t rest (step_frame P t fr sg st))).
  Proof.
    intros Hb HG HA GE HE HW Hlr. destruct HG as (G1 & G2 & G3).
    destruct (b_cur _ _ _ Hb) as [x0 [Hf0 [Hk [Hs [Ho [Hc _]]]]]].
    cbn [plain_stack forallb] in Hk, Ho. apply andb_true_iff in Hk. destruct Hk as [Kf Kr]. apply andb_true_iff in Ho. destruct Ho as [Of Or].
    pose proof (b_ps _ _ _ Hb) as Hps. pose proof Hps as Hps'. unfold PS in Hps'. destruct Hps' as [Hcl [Hrh Hph]].
    pose proof (plain_step_names P Hsw Hhd t fr sg st Kf Hs Hps) as Hn.
    destruct (plain_step_summary P t fr sg st Kf Hs Hps) as (Hst & Hev & _).
    destruct (find_task_in _ _ _ Hf0) as [Hin0 Hid0].
    pose proof (allT_In _ _ _ x0 HA Hin0) as Hx0. unfold PhiR in Hx0. cbn [estate] in Hx0. rewrite Hid0, Nat.eqb_refl in Hx0.
    destruct Hx0 as (X1 & X2 & X3 & X4 & X5). cbn [ident fst snd] in X1, X2, X3, X4, X5.
    pose proof (allT_In _ _ _ x0 HE Hin0) as Hy0. unfold PhiE in Hy0. cbn [estate] in Hy0. rewrite Hid0, Nat.eqb_refl in Hy0.
    destruct Hy0 as [Y0 Y1]. cbn [ident fst snd] in Y0, Y1.
    pose proof (allT_In _ _ _ x0 HW Hin0) as Hz0. unfold PhiW in Hz0. cbn [estate] in Hz0. rewrite Hid0, Nat.eqb_refl in Hz0.
    destruct Hz0 as (Z1 & Z2 & Z3). cbn [ident fst snd] in Z1, Z2, Z3.
    pose proof (ev_step_frame P t fr sg st) as Hevo.
    assert (Hnd1 : NoDup (map (@t_id frame) (st_tasks (fst (step_frame P t fr sg st))))).
    { destruct (evolved_shape _ (evolves_trans _ _ _ (b_ev _ _ _ Hb) Hevo)) as [xa [ra [_ [_ [_ [_ [H _]]]]]]]. exact H. }
    pose proof (wc_step_frame P t fr sg st (b_wc _ _ _ Hb)) as Hwc1.
    (* events and results of a node other than the running one's, across the step *)
    assert (Hfin : forall p, fin (fst (step_frame P t fr sg st)) p = true -> fin st p = true \/ step_event fr sg = Some p).
    { intros p Hp. unfold fin in *. apply andb_true_iff in Hp. destruct Hp as [He Hr]. unfold event_is_set in He. rewrite Hev in He. rewrite Hst in Hr.
      destruct (step_event fr sg) as [q|] eqn:Ese.
      - rewrite event_add in He. destruct (key_eqb p q) eqn:Epq; [right; apply key_eqb_spec in Epq; subst; reflexivity|]. cbn in He. left. rewrite He.
        assert (step_store fr sg st = st_store st) by (destruct fr; try discriminate Ese; destruct sg; try discriminate Ese; reflexivity).
        rewrite H in Hr. rewrite Hr. reflexivity.
      - left. fold (event_is_set p st) in He. rewrite He. cbn [andb].
        destruct (exists_result p (st_store st)) eqn:Er; [reflexivity|]. exfalso.
        (* the result of p is stored by this very step: the running task is p's, and p's event is already set *)
        unfold step_store in Hr. destruct fr; try congruence; destruct sg; try congruence.
        + rewrite (result_set _ _ _ _ Hrh), Er, orb_false_r in Hr. apply key_eqb_spec in Hr. subst n.
          pose proof (owner_frame_key _ _ _ Of eq_refl) as Enm. destruct (Y1 p Enm) as (_ & _ & _ & _ & _ & _ & E48 & _).
          destruct (proj2 E48 He) as [r0 Hr0]. discriminate Hr0.
        + destruct (exists_processed n (st_store st)); [congruence|]. rewrite result_set_processed in Hr. congruence. }
    apply (allT_step' P Hsw Hhd (PhiW st)); try assumption.
    - apply PhiW_wake.
    - (* spawned tasks *)
      intros nm Hnm. pose proof (base_next _ _ _ Hb) as Hnx. unfold PhiW. cbn [fst snd]. split; [|split].
      + intros _ n d r l H. discriminate H.
      + unfold main_tid. intros; lia.
      + unfold main_tid. intros; lia.
    - (* the other tasks *)
      intros y Hy Hne (A & B & C). unfold PhiW. cbn [ident fst snd] in *. split; [|split].
      + intros Hnm n d r l Hts. destruct (A Hnm n d r l Hts) as [p [Hp Hfp]]. exists p. split; [exact Hp|].
        destruct (fin (fst (step_frame P t fr sg st)) p) eqn:E; [|reflexivity]. exfalso.
        destruct (Hfin p E) as [H|H]; [congruence|].
        (* p's event is set by this step: the launcher has just been notified *)
        rewrite (plain_step_finally P t fr sg st p Kf Hs Hps H) in Hy, Hnd1.
        destruct (finally_b_wakes P (maind P) p st (b_wc _ _ _ Hb)) as [_ Hwk].
        apply (Hwk n (descendants_succ n p (Hsucc n p Hp)) (t_id y) y [FDagLoop d (n :: r) l]); [apply in_find; assumption|exact Hts].
      + intros Hi k Hts. destruct (B Hi k Hts) as [B1 B2].
        destruct (step_event fr sg) as [q|] eqn:Ese.
        * exfalso. rewrite (plain_step_finally P t fr sg st q Kf Hs Hps Ese) in Hy, Hnd1.
          destruct (finally_b_wakes P (maind P) q st (b_wc _ _ _ Hb)) as [Hwk _].
          apply (Hwk (t_id y) y k); [apply in_find; assumption|exact Hts].
        * unfold event_is_set. rewrite Hev, Hst. split; [|exact B2].
          intros m Hm. apply step_store_res_mono; [exact Hrh|]. apply B1. exact Hm.
      + intros Hi Hr. rewrite Hn. apply in_or_app. left. exact (C Hi Hr).
    - (* the running task *)
      intros x Hx Hid. rewrite (run_ident P st t fr sg x0 x (b_ev _ _ _ Hb) Hf0 Hx Hid). unfold PhiW. cbn [ident fst snd]. split; [|split].
      + (* the launcher parks before n: some dependency of n has no result *)
        intros Hnm n d r l Hts. destruct (X4 Hnm) as [r0 [Hr0 _]].
        assert (rest = [] /\ sg = SGo) by (destruct rest; [destruct sg; try (destruct fr; discriminate Hr0); auto|destruct fr; discriminate Hr0]).
        destruct H as [-> ->].
        destruct fr; try discriminate Hr0; cbn [plain_frame] in Kf; apply is_main_eq in Kf; subst d0.
        * (* FDagStart *) cbn [step_frame d_rec maind] in Hts.
          match type of Hts with context [match ?l with [] => _ | _ :: _ => _ end] => destruct l end; cbn [snd nstate app] in Hts; discriminate Hts.
        * (* FDagLoop *) destruct rest as [|n' r']; [cbn [step_frame snd nstate app] in Hts; discriminate Hts|].
          cbn [step_frame] in Hts |- *. destruct (is_ready P (st_store st) (maind P) n') eqn:Er.
          -- cbn [d_oneof maind andb] in Hts. rewrite (plain_dep_error P _ _ _ (b_ps _ _ _ Hb)), Hsw, Hhd in Hts.
             destruct (spawn _ _ _ st). cbn [snd nstate app] in Hts. discriminate Hts.
          -- cbn [snd fst nstate app] in Hts |- *. inversion Hts; subst. destruct (is_ready_false _ _ (b_ps _ _ _ Hb) Er) as [p [Hp Hrp]].
             exists p. split; [exact Hp|]. unfold fin. rewrite Hrp. apply andb_false_r.
        * (* FDagFinal *) cbn [step_frame] in Hts. destruct (exists_result _ _); cbn [snd nstate app] in Hts; discriminate Hts.
      + (* the chart task parks inside manager.run: nothing has failed *)
        intros Hi k Hts.
        pose proof (plain_step_wait_run P t fr rest sg st k Kf Hs Hps Hts) as Hfr.
        destruct Hfr as (-> & -> & Hrp & Est). rewrite Est.
        unfold run_pred in Hrp. apply orb_false_iff in Hrp. destruct Hrp as [Hte Hro].
        assert (Hte' : task_errors st = []) by (destruct (task_errors st); [reflexivity|discriminate Hte]).
        assert (Hall : forall m, event_is_set m st = true -> exists_result m (st_store st) = true).
        { intros m Hm. pose proof (GE m Hm) as Hinm. apply node_names_in in Hinm. unfold names in Hinm. apply in_map_iff in Hinm.
          destruct Hinm as [y [Hny Hy]].
          pose proof (allT_In _ _ _ y HE Hy) as [_ Hye]. pose proof (allT_In _ _ _ y HA Hy) as (R1 & R2 & _ & _ & R5).
          cbn [ident fst snd] in Hye, R1, R2, R5.
          assert (Hyt : Nat.eqb (t_id y) t = false).
          { apply Nat.eqb_neq. intros E. rewrite <- Hid0, Hi in E. apply R1 in E. rewrite Hny in E. discriminate E. }
          cbn [estate] in Hye, R5. rewrite Hyt in Hye, R5.
          destruct (Hye m Hny) as (_ & _ & _ & _ & _ & _ & _ & E7 & _). destruct (E7 Hm) as [Hr|[e He]]; [exact Hr|]. exfalso.
          pose proof (b_stacks _ _ _ Hb) as Hstk. unfold stacks_ok, tasks_ok in Hstk. rewrite Forall_forall in Hstk. destruct (Hstk y Hy) as [Hhm _].
          assert (Hh : t_helper y = true).
          { destruct (t_helper y) eqn:Eh; [reflexivity|]. exfalso. apply Nat.eqb_neq in Hyt. apply Hyt. rewrite <- Hid0, Hi. apply Hhm. reflexivity. }
          assert (Hnc : e <> XCancelled) by (intros ->; specialize (R5 Hh); rewrite He in R5; discriminate R5).
          pose proof (task_errors_in st y e Hy Hh He Hnc) as Hin. rewrite Hte' in Hin. contradiction. }
        split; [exact Hall|]. destruct (event_is_set out st) eqn:Eo; [|reflexivity]. rewrite (Hall _ Eo) in Hro. discriminate Hro.
      + (* manager.run has its launcher *)
        intros Hi Hr. rewrite estack_nstate, has_run_app in Hr. rewrite Hn. apply orb_true_iff in Hr. destruct Hr as [Hr|Hr].
        * destruct (plain_step_run P t fr sg st Kf Hs Hps Hr) as [[_ Hc1]|Hfr]; [apply in_or_app; right; exact Hc1|].
          apply in_or_app. left. apply (Z3 Hi). subst fr. reflexivity.
        * apply in_or_app. left. apply (Z3 Hi). cbn [estack has_run existsb]. fold (has_run rest). rewrite Hr. apply orb_true_r.
  Qed.

  Theorem creach_wait : forall st c, creach P st c -> waitI st c.
  Proof.
    intros st c H. pose proof (creach_base P Hsw Hhd Hbody st c H) as Hb0.
    induction H as [|st t rest x k sg H IH Hq Hf Ht|st t rest H IH Hq|st t fr rest sg H IH|st t sg H IH|st c H IH|st g H IH|st H IH].
    - right. unfold allT, tasks_ok, init_state. cbn. constructor; [|constructor]. unfold TPc, PhiW. cbn. split; [|split].
      + intros Hx. discriminate Hx.
      + intros _ k Hk. discriminate Hk.
      + intros _ Hr. discriminate Hr.
    - pose proof (creach_base P Hsw Hhd Hbody _ _ H) as Hb. destruct (IH Hb) as [Hg|HW]; [left; exact Hg|right].
      apply (allT_extW st); [reflexivity|reflexivity|reflexivity|]. eapply (allT_start P); eassumption.
    - pose proof (creach_base P Hsw Hhd Hbody _ _ H) as Hb. destruct (IH Hb) as [Hg|HW]; [left; exact Hg|right]. exact HW.
    - pose proof (creach_base P Hsw Hhd Hbody _ _ H) as Hb.
      destruct (creach_roles P Hsw Hhd Hbody Hnd _ _ H) as [Hg|[HG HA]]; [left; apply (guard_step P); assumption|].
      destruct (creach_exec P Hsw Hhd Hbody Hnd _ _ H) as [Hg|[GE HE]]; [left; apply (guard_step P); assumption|].
      destruct (IH Hb) as [Hg|HW]; [left; apply (guard_step P); assumption|].
      destruct (b_cur _ _ _ Hb) as [x0 [Hf0 [Hk [Hs _]]]]. cbn [plain_stack forallb] in Hk. apply andb_true_iff in Hk. destruct Hk as [Kf _].
      destruct (leaves_run fr sg (snd (step_frame P t fr sg st))) eqn:Hlr.
      + left. left. rewrite over_after_step, (plain_step_over P t fr sg st Kf Hs (b_ps _ _ _ Hb)), Hlr. apply orb_true_r.
      + right. apply (allT_extW (fst (step_frame P t fr sg st))); [apply names_after_step|apply store_after_step|apply events_after_step|].
        apply waitA_step; assumption.
    - pose proof (creach_base P Hsw Hhd Hbody _ _ H) as Hb. destruct (IH Hb) as [Hg|HW]; [left; apply guard_done; [exact (b_ev _ _ _ Hb)|exact Hg]|right].
      apply (allT_extW st); [exact (sn_set_tstate t _ st)|reflexivity|reflexivity|]. apply (allT_done P); assumption.
    - pose proof (creach_base P Hsw Hhd Hbody _ _ H) as Hb. left. apply guard_abort. exact (b_ev _ _ _ Hb).
    - pose proof (creach_base P Hsw Hhd Hbody _ _ H) as Hb. destruct (IH Hb) as [Hg|HW]; [left; apply (guard_gate P); [exact (b_ev _ _ _ Hb)|exact Hg]|right].
      unfold complete_gate. apply (allT_extW st); [apply names_wake_all|apply store_wake_all|apply events_wake_all|]. apply allT_gate; [apply PhiW_wake|exact HW].
    - pose proof (creach_base P Hsw Hhd Hbody _ _ H) as Hb. destruct (IH Hb) as [Hg|HW]; [left; apply (guard_cancel P); [exact (b_ev _ _ _ Hb)|exact Hg]|right].
      apply (allT_extW st); [apply names_cancel_task|apply store_cancel_task|apply events_cancel_task|]. apply allT_cancel_main; [| |exact HW].
      + intros i k s Hi (A & B & C). split; [|split].
        * intros _ n d r l Hx. discriminate Hx.
        * intros _ k0 Hx. discriminate Hx.
        * exact C.
      + intros i w k Hi (A & B & C). split; [|split].
        * intros _ n d r l Hx. discriminate Hx.
        * intros _ k0 Hx. discriminate Hx.
        * exact C.
  Qed.
End WaitInv.
