(* ALL programs, every schedule, event managers that do not raise (suspending ones included): every on_node_complete of a node --
   the final one or the one reporting a failed attempt that will be retried -- comes after every manager's on_node_start for
   that node (C14). *)
From MLPE Require Import Engine.Run Proofs.ExecLemmas Proofs.Evolve Proofs.StackInv Proofs.Micro Proofs.PlainLive Proofs.PlainCore Proofs.PlainInv
     Proofs.PlainExec Proofs.PlainEvents Proofs.PlainNodeStart Proofs.PipeAll Proofs.NodeStartAll Proofs.ValuesAll.
Require Import Lia.

Section CompleteAll.
  Variable P : prog.
  Notation G := (b_graph (build (p_decls P) (p_inp P) (p_out P))).
  Hypothesis Hnf : forall m ev n k, p_mgr_fault P m ev n k = false.

  (* every manager has been told on_node_start for a node with body index i *)
  Definition toldi (tr : list obs) (i : nat) : Prop := exists nd, real_index nd = i /\ told P tr nd.
  Lemma toldi_mono new tr i : toldi tr i -> toldi (new ++ tr) i.
  Proof. intros [nd [A B]]. exists nd. split; [exact A|apply told_mono; exact B]. Qed.

  Definition cf (tr : list obs) (f : frame) : Prop :=
    match f with
    | FExecAfterBody _ n | FExecAfterOk _ n _ => told P tr n
    | FRetry i _ _ _ | FRetryAfterBody i _ _ | FRetryAfterEmit i _ _ | FRetryAfterSleep i _ _ => toldi tr i
    | FEmit EvNodeComplete (Some n) _ _ _ _ => toldi tr (real_index n)
    | _ => True
    end.
  Definition stack_cf (tr : list obs) (k : list frame) : Prop := forall f, In f k -> cf tr f.
  Definition cf_TP (tr : list obs) (x : task frame) : Prop := stack_cf tr (estack (t_state x)).

  Lemma cf_mono new tr f : cf tr f -> cf (new ++ tr) f.
  Proof.
    destruct f; cbn [cf]; try (intros; exact I); try apply told_mono; try apply toldi_mono.
    destruct ev; try (intros; exact I). destruct n as [n|]; try (intros; exact I). apply toldi_mono.
  Qed.
  Lemma tasks_cf_mono new tr st : tasks_ok (cf_TP tr) st -> tasks_ok (cf_TP (new ++ tr)) st.
  Proof. unfold tasks_ok. apply Forall_impl. intros x H f Hf. apply cf_mono. exact (H f Hf). Qed.
  Lemma cf_wake tr x w k : t_state x = TWait w k -> cf_TP tr x -> cf_TP tr (with_ts x (TReady k SGo)).
  Proof. unfold cf_TP. intros E H. rewrite E in H. exact H. Qed.
  Lemma cf_cancel_ready tr x k sg : t_state x = TReady k sg -> cf_TP tr x -> cf_TP tr (with_ts x (TReady k (SThrow XCancelled))).
  Proof. unfold cf_TP. intros E H. rewrite E in H. exact H. Qed.
  Lemma cf_cancel_wait tr x w k : t_state x = TWait w k -> cf_TP tr x -> cf_TP tr (with_ts x (TReady k (SThrow XCancelled))).
  Proof. unfold cf_TP. intros E H. rewrite E in H. exact H. Qed.
  Lemma cf_spawn tr i nm f : 1 <= i -> spawn_frame f = true -> cf_TP tr {| t_id := i; t_name := nm; t_state := TReady [f] SGo; t_helper := true |}.
  Proof. unfold cf_TP, stack_cf. cbn. intros _ Hf g [<-|[]]. destruct f; try discriminate Hf; exact I. Qed.

  Lemma step_cf t fr sg st f :
    cf (st_trace st) fr -> topS P (st_trace st) fr (Some sg) -> In f (dir_frames (snd (step_frame P t fr sg st))) ->
    cf (st_trace (fst (step_frame P t fr sg st))) f.
  Proof.
    intros Hfr Htop.
    destruct (ev_trace _ _ (ev_step_frame P t fr sg st)) as [new Etr]. rewrite Etr. clear Etr. intros Hin0. apply cf_mono. revert Hin0. revert Hfr Htop.
    destruct fr; destruct sg; cbn [step_frame]; rewrite ?Hnf; unfold default_or_raise, reduced; repeat break_match;
      unfold emit_frames; cbn [snd dir_frames]; intros Hfr Htop Hin;
      repeat (destruct Hin as [Hin|Hin]; [subst f; cbn [cf topS real_index] in *; try exact I; try exact Hfr|]); try contradiction.
    all: try (destruct ev; try exact I; destruct n as [n9|]; try exact I; exact Hfr).
    all: try (exists n; split; [reflexivity|]; first [exact Hfr | apply Htop; eauto]).
    all: try (apply Htop; eauto).
  Qed.

  (* ---- the history ---- *)
  Definition is_complete (o : obs) : bool := match o with OEmit _ EvNodeComplete (Some _) _ _ => true | _ => false end.
  Notation bad := is_complete.
  Lemma cmp_spawn t nm : bad (OSpawn t nm) = false. Proof. reflexivity. Qed.
  Lemma cmp_hide k : bad (OHide k) = false. Proof. reflexivity. Qed.

  Ltac mq_prims :=
    repeat first
           [ apply nq_refl
           | apply nq_notify | apply nq_notify_keys | apply nq_set_event | apply nq_cancel_tasks | apply nq_cancel_task
           | apply nq_finally_a | apply nq_finally_b | apply nq_wake_all | (apply nq_fold_hide; [exact cmp_hide|])
           | (eapply nq_trans; [|apply nq_with_store]) | (eapply nq_trans; [|apply nq_bump])
           | (eapply nq_trans; [|apply nq_set_adddata]) | (eapply nq_trans; [|apply nq_push_ready])
           | (eapply nq_trans; [|apply nq_spawn; exact cmp_spawn])
           | (eapply nq_trans; [|apply nq_emit; reflexivity]) ].

  Lemma step_completes t fr sg st :
    (exists n e r m, fr = FEmit EvNodeComplete (Some n) e r m false /\ sg = SGo /\
                     st_trace (fst (step_frame P t fr sg st)) = OEmit m EvNodeComplete (Some n) e r :: st_trace st) \/
    nq bad st (fst (step_frame P t fr sg st)).
  Proof.
    destruct fr; try match goal with e : evkind |- _ => destruct e end; try match goal with n : option key |- _ => destruct n end;
      destruct sg; cbn [step_frame]; rewrite ?Hnf; unfold default_or_raise, reduced; repeat break_match; spawn_norm; cbn [fst];
      first [ right; mq_prims; fail
            | left; do 4 eexists; split; [reflexivity|split; [reflexivity|]]; cbn [st_trace emit_obs bump]; reflexivity
            | right;
              repeat first [ apply nq_refl | (eapply nq_trans; [|apply nq_bump])
                           | (eapply nq_trans; [|apply nq_emit; cbn [is_complete];
                                                  repeat match goal with |- context [match ?e with EvPipelineStart => _ | _ => _ end] => destruct e end;
                                                  try reflexivity;
                                                  repeat match goal with |- context [match ?o with Some _ => _ | None => _ end] => destruct o end; reflexivity]) ] ].
  Qed.

  Definition completes_ok (tr : list obs) : Prop :=
    forall a b m n e r, tr = a ++ OEmit m EvNodeComplete (Some n) e r :: b -> toldi b (real_index n).

  Theorem creach_completes : forall st c, creach P st c ->
    tasks_ok (cf_TP (st_trace st)) st /\
    (match c with Some (_, k, _) => stack_cf (st_trace st) k | None => True end) /\
    completes_ok (st_trace st).
  Proof.
    intros st c H. pose proof (creach_evolves P st c H) as Hev0.
    induction H as [|st t rest x k sg H IH Hq Hf Ht|st t rest H IH Hq|st t fr rest sg H IH|st t sg H IH|st c H IH|st g H IH|st H IH].
    - split; [|split; [exact I|]].
      + unfold tasks_ok, init_state. cbn. constructor; [|constructor]. intros f [<-|[]]. exact I.
      + intros a b m n e r E. cbn in E. destruct a as [|y a']; [inversion E|]. inversion E. destruct a'; discriminate.
    - destruct (IH (creach_evolves P _ _ H)) as (A & _ & Hh). split; [|split; [|exact Hh]].
      + change (tasks_ok (cf_TP (st_trace st)) (dequeue st)). apply ok_dequeue. exact A.
      + destruct (find_task_in _ _ _ Hf) as [Hin _]. unfold tasks_ok in A. rewrite Forall_forall in A. specialize (A x Hin). unfold cf_TP in A. rewrite Ht in A. exact A.
    - destruct (IH (creach_evolves P _ _ H)) as (A & _ & Hh). split; [|split; [exact I|exact Hh]].
      change (tasks_ok (cf_TP (st_trace st)) (dequeue st)). apply ok_dequeue. exact A.
    - pose proof (creach_evolves P _ _ H) as Hev. destruct (IH Hev) as (A & B & Hh).
      pose proof (ev_next _ _ Hev) as Hn1. cbn in Hn1.
      destruct (creach_start_all P Hnf _ _ H) as (_ & (_ & Bt & _)). cbn [topCS] in Bt.
      pose proof (B fr (or_introl eq_refl)) as Bfr.
      destruct (ev_trace _ _ (ev_step_frame P t fr sg st)) as [new Etr].
      assert (A1 : tasks_ok (cf_TP (st_trace (fst (step_frame P t fr sg st)))) (fst (step_frame P t fr sg st))).
      { apply (step_frame_tasks_ok P (cf_TP _) (cf_wake _) (cf_cancel_ready _) (cf_cancel_wait _) (cf_spawn _)); [exact Hn1|].
        rewrite Etr. apply tasks_cf_mono. exact A. }
      assert (Hkk : stack_cf (st_trace (fst (step_frame P t fr sg st))) (dir_frames (snd (step_frame P t fr sg st)) ++ rest)).
      { intros f Hin. apply in_app_or in Hin. destruct Hin as [Hin|Hin].
        - exact (step_cf t fr sg st f Bfr Bt Hin).
        - rewrite Etr. apply cf_mono. apply B. right. exact Hin. }
      assert (Hh1 : completes_ok (st_trace (fst (step_frame P t fr sg st)))).
      { destruct (step_completes t fr sg st) as [[n [e [r [m (-> & -> & E)]]]]|[nw [E Hnw]]].
        - rewrite E. intros a b m' n' e' r' Eo. destruct a as [|y a'].
          + cbn [app] in Eo. inversion Eo; subst. cbn [cf] in Bfr. exact Bfr.
          + cbn [app] in Eo. inversion Eo as [[Ey E']]. exact (Hh a' b m' n' e' r' E').
        - rewrite E. intros a b m' n' e' r' Eo.
          destruct (split_old bad nw (st_trace st) a b (OEmit m' EvNodeComplete (Some n') e' r') Hnw eq_refl Eo) as [a' [_ E']].
          exact (Hh a' b m' n' e' r' E'). }
      rewrite !trace_after_step'.
      destruct (step_frame P t fr sg st) as [st1 [w k'|k'|k' sg'|sg']]; cbn [after_step fst snd dir_frames] in *.
      + split; [|split; [exact I|exact Hh1]]. apply ok_suspend; [exact A1|]. intros y _ _. unfold cf_TP. cbn. exact Hkk.
      + split; [|split; [exact I|exact Hh1]]. apply ok_push_ready. apply ok_set_tstate; [exact A1|]. intros y _ _. unfold cf_TP. cbn. exact Hkk.
      + split; [exact A1|split; [exact Hkk|exact Hh1]].
      + split; [exact A1|split; [|exact Hh1]]. intros f Hin. apply Hkk. exact Hin.
    - destruct (IH (creach_evolves P _ _ H)) as (A & _ & Hh). split; [|split; [exact I|exact Hh]]. apply ok_set_tstate; [exact A|]. intros y _ _ f [].
    - destruct (IH (creach_evolves P _ _ H)) as (A & _ & Hh). split; [|split; [exact I|exact Hh]]. apply ok_abort; [|exact A]. intros y k0 _ f [].
    - destruct (IH (creach_evolves P _ _ H)) as (A & _ & Hh). unfold complete_gate. rewrite trace_wake_all. split; [|split; [exact I|exact Hh]].
      apply (complete_gate_tasks_ok (cf_TP _) (cf_wake _)). exact A.
    - destruct (IH (creach_evolves P _ _ H)) as (A & _ & Hh). rewrite trace_cancel_task. split; [|split; [exact I|exact Hh]].
      apply (ok_cancel_task (cf_TP _) (cf_cancel_ready _) (cf_cancel_wait _)). exact A.
  Qed.
End CompleteAll.

Theorem node_complete_follows_node_start_all_programs P :
  (forall m ev n k, p_mgr_fault P m ev n k = false) ->
  forall st, reachable P st ->
    forall a b m n e r, st_trace st = a ++ OEmit m EvNodeComplete (Some n) e r :: b ->
      exists nd, real_index nd = real_index n /\ forall m', m' < p_mgrs P -> In (start_ev m' nd) b.
Proof.
  intros Hnf st Hr a b m n e r E. destruct (creach_completes P Hnf st None (reachable_creach P st Hr)) as (_ & _ & Hc).
  exact (Hc a b m n e r E).
Qed.
