(* C12: the retry loop equals its closed form, for every policy and every sequence of per-attempt outcomes. *)
From MLPE Require Import Pure.Retry Spec.Dataflow.

Section Retry.
  Variable nd : nspec.
  Variable o : nat -> outcome.

  Lemma stop_at_ge n from : from <= stop_at n nd o from.
  Proof.
    revert from; induction n as [|n IH]; intros from; simpl; [lia|].
    destruct (retryable nd (o from)); [|lia]. specialize (IH (S from)). lia.
  Qed.

  Lemma stop_at_le n from : stop_at n nd o from <= from + n.
  Proof.
    revert from; induction n as [|n IH]; intros from; simpl; [lia|].
    destruct (retryable nd (o from)); [|lia]. specialize (IH (S from)). lia.
  Qed.

  (* every attempt before the stopping one raised a retryable exception *)
  Lemma stop_at_before n from a :
    from <= a < stop_at n nd o from -> retryable nd (o a) = true.
  Proof.
    revert from; induction n as [|n IH]; intros from; simpl; [lia|].
    destruct (retryable nd (o from)) eqn:E; [|lia].
    intros H. destruct (Nat.eq_dec a from) as [->|Hne]; [exact E|]. apply (IH (S from)). lia.
  Qed.

  (* the stopping attempt is not retryable unless it is the last allowed one *)
  Lemma stop_at_stops n from :
    stop_at n nd o from < from + n -> retryable nd (o (stop_at n nd o from)) = false.
  Proof.
    revert from; induction n as [|n IH]; intros from; simpl; [lia|].
    destruct (retryable nd (o from)) eqn:E; [|intros _; exact E].
    intros H. apply IH. lia.
  Qed.

  Lemma decide_not_last att :
    Z.of_nat att <> pol_attempts nd ->
    retry_decide nd (o att) att =
    match o att with
    | OVal v => RDReturn v
    | ORaise c => if exc_matches c (pol_excs nd) then RDRetry c
                  else if issub c EExc then RDFinal c else RDPropagate c
    end.
  Proof.
    intros H. unfold retry_decide. destruct (o att) as [v|c]; [reflexivity|].
    destruct (exc_matches c (pol_excs nd)); [|reflexivity].
    destruct (Z.eqb_spec (Z.of_nat att) (pol_attempts nd)); [contradiction|reflexivity].
  Qed.

  Lemma decide_last att :
    Z.of_nat att = pol_attempts nd ->
    retry_decide nd (o att) att =
    match o att with
    | OVal v => RDReturn v
    | ORaise c => if exc_matches c (pol_excs nd) || issub c EExc then RDFinal c else RDPropagate c
    end.
  Proof.
    intros H. unfold retry_decide. destruct (o att) as [v|c]; [reflexivity|].
    destruct (exc_matches c (pol_excs nd)); simpl.
    - rewrite H, Z.eqb_refl. reflexivity.
    - reflexivity.
  Qed.

  Definition tail_log (j : nat) : list revent :=
    [RBody j] ++ match final_result nd (o j) j with RRDefault => [RDefault] | _ => [] end.

  Lemma run_stop att f :
    retryable nd (o att) = false \/ Z.of_nat att = pol_attempts nd ->
    retry_run (S f) nd o att = (tail_log att, Some (final_result nd (o att) att)).
  Proof.
    intros H. unfold tail_log, final_result. simpl.
    destruct (Z.eq_dec (Z.of_nat att) (pol_attempts nd)) as [Hl|Hl].
    - rewrite (decide_last att Hl). destruct (o att) as [v|c]; [reflexivity|].
      destruct (exc_matches c (pol_excs nd) || issub c EExc); [|reflexivity].
      destruct (ns_default nd); reflexivity.
    - rewrite (decide_not_last att Hl). destruct H as [H|H]; [|contradiction].
      destruct (o att) as [v|c]; [reflexivity|]. simpl in H. rewrite H. simpl.
      destruct (issub c EExc); [|reflexivity]. destruct (ns_default nd); reflexivity.
  Qed.

  (* generalised closed form: n = number of further attempts the policy still allows after [att] *)
  Lemma retry_gen n att :
    Z.of_nat (att + n) = pol_attempts nd ->
    let j := stop_at n nd o att in
    retry_run (S n) nd o att =
    (flat_map (fun a => [RBody a; REmitFail a (exc_of (o a)); RSleep (pol_delay nd)]) (seq att (j - att))
     ++ tail_log j, Some (final_result nd (o j) j)).
  Proof.
    revert att; induction n as [|n IH]; intros att Ha j.
    - subst j. simpl stop_at. rewrite Nat.sub_diag. simpl seq. simpl flat_map. rewrite app_nil_l.
      apply run_stop. right. rewrite <- Ha. f_equal. lia.
    - subst j. simpl stop_at. destruct (retryable nd (o att)) eqn:E.
      + assert (Hnl : Z.of_nat att <> pol_attempts nd) by lia.
        change (retry_run (S (S n)) nd o att) with
            (match retry_decide nd (o att) att with
             | RDReturn v => ([RBody att], Some (RRVal v))
             | RDFinal c => if ns_default nd then ([RBody att; RDefault], Some RRDefault)
                            else ([RBody att], Some (RRRaise c att))
             | RDPropagate c => ([RBody att], Some (RRRaise c att))
             | RDRetry c => let '(log, r) := retry_run (S n) nd o (S att) in
                            (RBody att :: REmitFail att c :: RSleep (pol_delay nd) :: log, r)
             end).
        rewrite (decide_not_last att Hnl).
        destruct (o att) as [v|c] eqn:Eo; [discriminate|]. simpl in E. rewrite E.
        rewrite (IH (S att)) by lia.
        pose proof (stop_at_ge n (S att)) as Hge.
        replace (stop_at n nd o (S att) - att) with (S (stop_at n nd o (S att) - S att)) by lia.
        simpl seq. simpl flat_map. rewrite Eo. reflexivity.
      + rewrite Nat.sub_diag. simpl seq. simpl flat_map. rewrite app_nil_l. apply run_stop. left. exact E.
  Qed.

  (* C12, closed form: with a = attempts (>= 1) the loop invokes the body at attempts 1..j, where j is the first
     attempt that returns or raises a non-retryable exception, or a; between consecutive attempts it reports the
     failure and sleeps `delay` -- and nowhere else; the result is the value, or the default / the last exception. *)
  Theorem retry_closed_form :
    (1 <= pol_attempts nd)%Z ->
    let a := Z.to_nat (pol_attempts nd) in
    let j := stop_at (a - 1) nd o 1 in
    retry_run a nd o 1 = (closed_log nd o j, Some (final_result nd (o j) j)).
  Proof.
    intros Ha a j. subst a j.
    remember (Z.to_nat (pol_attempts nd)) as a eqn:Ea.
    destruct a as [|a]; [lia|].
    replace (S a - 1) with a by lia.
    rewrite (retry_gen a 1) by lia. unfold closed_log, tail_log. rewrite app_assoc. reflexivity.
  Qed.

  (* the loop never runs out of fuel and never invokes the body more than `attempts` times *)
  Corollary retry_terminates :
    (1 <= pol_attempts nd)%Z ->
    exists log r, retry_run (Z.to_nat (pol_attempts nd)) nd o 1 = (log, Some r).
  Proof. intros H. rewrite (retry_closed_form H). eauto. Qed.

  Lemma stop_bounds :
    (1 <= pol_attempts nd)%Z ->
    let j := stop_at (Z.to_nat (pol_attempts nd) - 1) nd o 1 in
    1 <= j /\ (Z.of_nat j <= pol_attempts nd)%Z.
  Proof.
    intros H j. subst j. pose proof (stop_at_ge (Z.to_nat (pol_attempts nd) - 1) 1).
    pose proof (stop_at_le (Z.to_nat (pol_attempts nd) - 1) 1). lia.
  Qed.

  (* the number of body invocations in a log *)
  Definition bodies (l : list revent) : list nat := flat_map (fun e => match e with RBody a => [a] | _ => [] end) l.
  Definition sleeps (l : list revent) : list nat := flat_map (fun e => match e with RSleep d => [d] | _ => [] end) l.

  Definition prefix_log (s n : nat) : list revent :=
    flat_map (fun a => [RBody a; REmitFail a (exc_of (o a)); RSleep (pol_delay nd)]) (seq s n).
  Definition default_tail (j : nat) : list revent :=
    match final_result nd (o j) j with RRDefault => [RDefault] | _ => [] end.

  Lemma closed_log_split j : closed_log nd o j = prefix_log 1 (j - 1) ++ [RBody j] ++ default_tail j.
  Proof. reflexivity. Qed.

  Lemma bodies_prefix s n : bodies (prefix_log s n) = seq s n.
  Proof. revert s; induction n as [|n IH]; intros s; [reflexivity|]. cbn. f_equal. apply IH. Qed.
  Lemma sleeps_prefix s n : sleeps (prefix_log s n) = repeat (pol_delay nd) n.
  Proof. revert s; induction n as [|n IH]; intros s; [reflexivity|]. cbn. f_equal. apply IH. Qed.
  Lemma bodies_tail j : bodies (default_tail j) = [].
  Proof. unfold default_tail. destruct (final_result nd (o j) j); reflexivity. Qed.
  Lemma sleeps_tail j : sleeps (default_tail j) = [].
  Proof. unfold default_tail. destruct (final_result nd (o j) j); reflexivity. Qed.

  Lemma bodies_closed j : 1 <= j -> bodies (closed_log nd o j) = seq 1 j.
  Proof.
    intros Hj. rewrite closed_log_split. unfold bodies at 1. rewrite !flat_map_app.
    fold (bodies (prefix_log 1 (j - 1))). fold (bodies (default_tail j)).
    rewrite bodies_prefix, bodies_tail. cbn. rewrite ?app_nil_r.
    destruct j as [|j']; [lia|]. replace (S j' - 1) with j' by lia. rewrite seq_S. reflexivity.
  Qed.

  Lemma sleeps_closed j : sleeps (closed_log nd o j) = repeat (pol_delay nd) (j - 1).
  Proof.
    rewrite closed_log_split. unfold sleeps at 1. rewrite !flat_map_app.
    fold (sleeps (prefix_log 1 (j - 1))). fold (sleeps (default_tail j)).
    rewrite sleeps_prefix, sleeps_tail. cbn. rewrite ?app_nil_r. reflexivity.
  Qed.
End Retry.

(* outside the property's domain: with a negative `attempts` the equality test never succeeds and a body that keeps
   raising a retryable exception is invoked for ever (the model runs out of any fuel) *)
Lemma negative_attempts_diverge nd fuel :
  (pol_attempts nd < 0)%Z -> exc_matches EA (pol_excs nd) = true ->
  snd (retry_run fuel nd (fun _ => ORaise EA) 1) = None.
Proof.
  intros Hneg Hm. generalize 1 at 1. induction fuel as [|f IH]; intros att; simpl; [reflexivity|].
  unfold retry_decide. rewrite Hm.
  destruct (Z.eqb_spec (Z.of_nat att) (pol_attempts nd)); [lia|].
  specialize (IH (S att)). destruct (retry_run f nd (fun _ => ORaise EA) (S att)). simpl in *. exact IH.
Qed.

(* ---- the engine's loop computes what the reference semantics (Spec/Dataflow.v: retry_eval) prescribes ---- *)
Section VsReference.
  Variable ds : decls.
  Variable body : nat -> kwargs -> nat -> outcome.
  Variable i : nat.
  Variable kw : kwargs.
  Let nd := spec_of ds i.
  Let o (a : nat) : outcome := body i kw (Nat.pred a).      (* the engine counts attempts from 1 *)

  Definition res_of (r : rresult) : res * bool :=
    match r with
    | RRVal v => (ROk v, false)
    | RRDefault => (ROk (VDef i kw), true)
    | RRRaise c att => (RFail [CNode c i (Nat.pred att)], false)
    end.

  Lemma r_attempts_eq : r_attempts nd = pol_attempts nd. Proof. reflexivity. Qed.
  Lemma r_excs_eq : r_excs nd = pol_excs nd. Proof. reflexivity. Qed.

  Lemma o_S a : o (S a) = body i kw a. Proof. reflexivity. Qed.

  Lemma eval_unfold f att0 :
    retry_eval ds body (S f) i kw att0 =
    match body i kw att0 with
    | OVal v => (ROk v, S att0, false)
    | ORaise c =>
      let fin := if ns_default nd then (ROk (VDef i kw), S att0, true)
                 else (RFail [CNode c i att0], S att0, false) in
      if existsb (issub c) (pol_excs nd) then
        if Z.eqb (Z.of_nat (S att0)) (pol_attempts nd) then fin else retry_eval ds body f i kw (S att0)
      else if issub c EExc then fin else (RFail [CNode c i att0], S att0, false)
    end.
  Proof. reflexivity. Qed.

  Lemma eval_stop f att0 :
    retryable nd (o (S att0)) = false \/ Z.of_nat (S att0) = pol_attempts nd ->
    retry_eval ds body (S f) i kw att0 =
    (fst (res_of (final_result nd (o (S att0)) (S att0))), S att0,
     snd (res_of (final_result nd (o (S att0)) (S att0)))).
  Proof.
    intros H. rewrite eval_unfold, o_S. unfold final_result, retryable, exc_matches in *. rewrite o_S in H.
    destruct (body i kw att0) as [v|c]; [reflexivity|].
    destruct (existsb (issub c) (pol_excs nd)) eqn:Em.
    - destruct H as [H|H]; [discriminate|]. rewrite H, Z.eqb_refl. destruct (ns_default nd); reflexivity.
    - destruct (issub c EExc); [destruct (ns_default nd)|]; reflexivity.
  Qed.

  Lemma eval_gen n att0 :
    Z.of_nat (S att0 + n) = pol_attempts nd ->
    let j := stop_at n nd o (S att0) in
    retry_eval ds body (S n) i kw att0 =
    (fst (res_of (final_result nd (o j) j)), j, snd (res_of (final_result nd (o j) j))).
  Proof.
    revert att0; induction n as [|n IH]; intros att0 Ha j; subst j.
    - simpl stop_at. apply eval_stop. right. rewrite <- Ha. f_equal. lia.
    - simpl stop_at. destruct (retryable nd (o (S att0))) eqn:E.
      + rewrite eval_unfold. unfold retryable, exc_matches in E. rewrite o_S in E.
        destruct (body i kw att0) as [v|c]; [discriminate|]. rewrite E.
        replace (Z.of_nat (S att0) =? pol_attempts nd)%Z with false by (symmetry; apply Z.eqb_neq; lia).
        apply (IH (S att0)). lia.
      + apply eval_stop. left. exact E.
  Qed.

  (* the result, the number of body invocations and the use of the default coincide *)
  Theorem engine_retry_refines_reference :
    (1 <= pol_attempts nd)%Z ->
    let a := Z.to_nat (pol_attempts nd) in
    let j := stop_at (a - 1) nd o 1 in
    retry_run a nd o 1 = (closed_log nd o j, Some (final_result nd (o j) j))
    /\ retry_eval ds body a i kw 0 =
       (fst (res_of (final_result nd (o j) j)), j, snd (res_of (final_result nd (o j) j))).
  Proof.
    intros Ha a j. split; [apply retry_closed_form; exact Ha|].
    subst a j. remember (Z.to_nat (pol_attempts nd)) as a eqn:Ea. destruct a as [|a]; [lia|].
    replace (S a - 1) with a by lia. apply eval_gen. lia.
  Qed.
End VsReference.
