(* ALL programs, every schedule: inside a pipeline the retry loop never goes beyond the configured number of attempts (C12):
   every position of the loop held by any task is at an attempt number between 1 and `attempts` (for policies with attempts >= 1
   after defaulting; negative values are outside the domain: C12_negative_attempts_diverge). *)
From MLPE Require Import Engine.Run Pure.Retry Proofs.ExecLemmas Proofs.Evolve Proofs.StackInv Proofs.Micro Proofs.PlainLive Proofs.PlainCore Proofs.PlainInv
     Proofs.PipeAll.
Require Import Lia ZArith.

(* (node index, attempt number the loop is at or about to make) *)
Definition retry_at (f : frame) : option (nat * nat) :=
  match f with
  | FRetry i _ _ att | FRetryAfterBody i _ att => Some (i, att)
  | FRetryAfterEmit i _ att | FRetryAfterSleep i _ att => Some (i, S att)
  | _ => None
  end.

Section RetryAll.
  Variable P : prog.
  Hypothesis Hatt : forall i, (1 <= pol_attempts (nspec_of P i))%Z.

  Definition att_ok (f : frame) : Prop :=
    match retry_at f with Some (i, a) => 1 <= a /\ (Z.of_nat a <= pol_attempts (nspec_of P i))%Z | None => True end.
  Definition stack_att (k : list frame) : Prop := forall f, In f k -> att_ok f.

  Lemma step_att t fr sg st f : att_ok fr -> In f (dir_frames (snd (step_frame P t fr sg st))) -> att_ok f.
  Proof.
    intros Hfr. destruct fr; destruct sg; cbn [step_frame]; unfold default_or_raise, reduced; repeat break_match;
      unfold emit_frames; cbn [snd dir_frames]; intros Hin;
      repeat (destruct Hin as [Hin|Hin]; [subst f; unfold att_ok in *; cbn [retry_at] in *; try exact I; try exact Hfr|]); try contradiction.
    all: try (split; [lia|]; pose proof (Hatt (real_index n)); lia).
    all: try (destruct Hfr as [H1 H2]; split; [lia|];
              match goal with Hd : retry_decide _ _ _ = RDRetry _ |- _ =>
                unfold retry_decide in Hd; repeat match type of Hd with context [match ?x with _ => _ end] => destruct x eqn:? end; try discriminate Hd end;
              match goal with Hq : (Z.of_nat _ =? _)%Z = false |- _ => apply Z.eqb_neq in Hq; lia end).
  Qed.

  Definition at_TP (x : task frame) : Prop := stack_att (estack (t_state x)).
  Lemma at_wake x w k : t_state x = TWait w k -> at_TP x -> at_TP (with_ts x (TReady k SGo)).
  Proof. unfold at_TP. intros E H. rewrite E in H. exact H. Qed.
  Lemma at_cancel_ready x k sg : t_state x = TReady k sg -> at_TP x -> at_TP (with_ts x (TReady k (SThrow XCancelled))).
  Proof. unfold at_TP. intros E H. rewrite E in H. exact H. Qed.
  Lemma at_cancel_wait x w k : t_state x = TWait w k -> at_TP x -> at_TP (with_ts x (TReady k (SThrow XCancelled))).
  Proof. unfold at_TP. intros E H. rewrite E in H. exact H. Qed.
  Lemma at_spawn i nm f : 1 <= i -> spawn_frame f = true -> at_TP {| t_id := i; t_name := nm; t_state := TReady [f] SGo; t_helper := true |}.
  Proof. unfold at_TP, stack_att. cbn. intros _ Hf g [<-|[]]. destruct f; try discriminate Hf; exact I. Qed.

  Theorem creach_attempts : forall st c, creach P st c ->
    tasks_ok at_TP st /\ (match c with Some (_, k, _) => stack_att k | None => True end).
  Proof.
    intros st c H. pose proof (creach_evolves P st c H) as Hev0.
    induction H as [|st t rest x k sg H IH Hq Hf Ht|st t rest H IH Hq|st t fr rest sg H IH|st t sg H IH|st c H IH|st g H IH|st H IH].
    - split; [|exact I]. unfold tasks_ok, init_state. cbn. constructor; [|constructor]. intros f [<-|[]]. exact I.
    - destruct (IH (creach_evolves P _ _ H)) as (A & _). split; [apply ok_dequeue; exact A|].
      destruct (find_task_in _ _ _ Hf) as [Hin _]. unfold tasks_ok in A. rewrite Forall_forall in A. specialize (A x Hin). unfold at_TP in A. rewrite Ht in A. exact A.
    - destruct (IH (creach_evolves P _ _ H)) as (A & _). split; [apply ok_dequeue; exact A|exact I].
    - pose proof (creach_evolves P _ _ H) as Hev. destruct (IH Hev) as (A & B).
      pose proof (ev_next _ _ Hev) as Hn1. cbn in Hn1.
      pose proof (step_frame_tasks_ok P at_TP at_wake at_cancel_ready at_cancel_wait at_spawn t fr sg st Hn1 A) as A1.
      assert (Hkk : stack_att (dir_frames (snd (step_frame P t fr sg st)) ++ rest)).
      { intros f Hin. apply in_app_or in Hin. destruct Hin as [Hin|Hin]; [|apply B; right; exact Hin].
        apply (step_att t fr sg st f); [apply B; left; reflexivity|exact Hin]. }
      destruct (step_frame P t fr sg st) as [st1 [w k'|k'|k' sg'|sg']]; cbn [after_step fst snd dir_frames] in *.
      + split; [|exact I]. apply ok_suspend; [exact A1|]. intros y _ _. unfold at_TP. cbn. exact Hkk.
      + split; [|exact I]. apply ok_push_ready. apply ok_set_tstate; [exact A1|]. intros y _ _. unfold at_TP. cbn. exact Hkk.
      + split; [exact A1|exact Hkk].
      + split; [exact A1|]. intros f Hin. apply B. right. exact Hin.
    - destruct (IH (creach_evolves P _ _ H)) as (A & _). split; [|exact I]. apply ok_set_tstate; [exact A|]. intros y _ _ f [].
    - destruct (IH (creach_evolves P _ _ H)) as (A & _). split; [|exact I]. apply ok_abort; [|exact A]. intros y k0 _ f [].
    - destruct (IH (creach_evolves P _ _ H)) as (A & _). split; [|exact I]. apply (complete_gate_tasks_ok at_TP at_wake). exact A.
    - destruct (IH (creach_evolves P _ _ H)) as (A & _). split; [|exact I]. apply (ok_cancel_task at_TP at_cancel_ready at_cancel_wait). exact A.
  Qed.
End RetryAll.

Theorem attempt_numbers_are_bounded_all_programs P :
  (forall i, (1 <= pol_attempts (nspec_of P i))%Z) ->
  forall st x f i a, reachable P st -> In x (st_tasks st) -> In f (estack (t_state x)) -> retry_at f = Some (i, a) ->
    1 <= a /\ (Z.of_nat a <= pol_attempts (nspec_of P i))%Z.
Proof.
  intros Hatt st x f i a Hr Hx Hf Hra. destruct (creach_attempts P Hatt st None (reachable_creach P st Hr)) as [A _].
  unfold tasks_ok in A. rewrite Forall_forall in A. specialize (A x Hx f Hf). unfold att_ok in A. rewrite Hra in A. exact A.
Qed.
