(* ALL programs, every schedule: what is handed to the artifact store is never a Recurrent marker and never a contained failure
   (C19): the frame that calls the store is pushed only for a result that is neither, and only that frame reports a save. *)
From MLPE Require Import Engine.Run Proofs.ExecLemmas Proofs.Evolve Proofs.StackInv Proofs.Micro Proofs.PlainLive Proofs.PlainCore Proofs.PlainInv
     Proofs.PipeAll.

Definition is_osave (o : obs) : bool := match o with OSave _ _ => true | _ => false end.
Definition savef (f : frame) : bool := match f with FSave _ v _ _ => negb (is_rec v || is_exn v) | _ => true end.

(* no save reported *)
Definition nsq (st st' : mstate) : Prop :=
  exists new, st_trace st' = new ++ st_trace st /\ forallb (fun o => negb (is_osave o)) new = true.
Lemma nsq_refl st : nsq st st. Proof. exists []. split; reflexivity. Qed.
Lemma nsq_trans a b c : nsq a b -> nsq b c -> nsq a c.
Proof. intros [n1 [E1 H1]] [n2 [E2 H2]]. exists (n2 ++ n1). rewrite E2, E1, app_assoc, forallb_app, H1, H2. split; reflexivity. Qed.
Lemma nsq_same st st' : st_trace st' = st_trace st -> nsq st st'.
Proof. intros E. exists []. rewrite E. split; reflexivity. Qed.
Lemma ns_with_store f st : nsq st (with_store f st). Proof. apply nsq_same; reflexivity. Qed.
Lemma ns_bump c st : nsq st (bump c st). Proof. apply nsq_same; reflexivity. Qed.
Lemma ns_set_adddata k v st : nsq st (set_adddata k v st). Proof. apply nsq_same; reflexivity. Qed.
Lemma ns_push_ready t st : nsq st (push_ready t st). Proof. apply nsq_same; reflexivity. Qed.
Lemma ns_set_waiters w st : nsq st (set_waiters w st). Proof. apply nsq_same; reflexivity. Qed.
Lemma ns_set_tstate t ts st : nsq st (set_tstate t ts st). Proof. apply nsq_same; reflexivity. Qed.
Lemma ns_add_event n st : nsq st (add_event n st). Proof. apply nsq_same; reflexivity. Qed.
Lemma ns_emit o st : is_osave o = false -> nsq st (emit_obs o st).
Proof. intros H. exists [o]. split; [reflexivity|]. cbn. rewrite H. reflexivity. Qed.
Lemma ns_spawn nm h k st : nsq st (fst (spawn nm h k st)).
Proof. exists [OSpawn (st_next st) nm]. split; reflexivity. Qed.
Definition ns_notify := R_notify nsq nsq_trans ns_push_ready ns_set_waiters ns_set_tstate.
Definition ns_wake_all := R_wake_all nsq nsq_trans ns_push_ready ns_set_waiters ns_set_tstate.
Definition ns_notify_keys := R_notify_keys nsq nsq_trans ns_push_ready ns_set_waiters ns_set_tstate.
Definition ns_set_event := R_set_event nsq nsq_trans ns_push_ready ns_set_waiters ns_set_tstate ns_add_event.
Definition ns_cancel_task := R_cancel_task nsq nsq_trans ns_push_ready ns_set_waiters ns_set_tstate.
Definition ns_cancel_tasks := R_cancel_tasks nsq nsq_trans ns_push_ready ns_set_waiters ns_set_tstate.
Definition ns_finally_a := R_finally_a nsq nsq_trans ns_push_ready ns_set_waiters ns_set_tstate ns_add_event.
Definition ns_finally_b P := R_finally_b P nsq nsq_trans ns_push_ready ns_set_waiters ns_set_tstate ns_add_event.
Lemma ns_fold_hide (l : list key) st0 st : nsq st0 st -> nsq st0 (fold_left (fun s k => emit_obs (OHide k) s) l st).
Proof. revert st. induction l as [|k r IH]; intros st H; cbn [fold_left]; [exact H|]. apply IH. eapply nsq_trans; [exact H|]. apply ns_emit. reflexivity. Qed.

Ltac ns_prims :=
  repeat first
         [ apply nsq_refl
         | apply ns_notify | apply ns_notify_keys | apply ns_set_event | apply ns_cancel_tasks | apply ns_cancel_task
         | apply ns_finally_a | apply ns_finally_b | apply ns_wake_all | apply ns_fold_hide
         | (eapply nsq_trans; [|apply ns_with_store]) | (eapply nsq_trans; [|apply ns_bump])
         | (eapply nsq_trans; [|apply ns_set_adddata]) | (eapply nsq_trans; [|apply ns_push_ready])
         | (eapply nsq_trans; [|apply ns_spawn])
         | (eapply nsq_trans; [|apply ns_emit; reflexivity]) ].

Section SavesAll.
  Variable P : prog.

  Lemma step_savef t fr sg st : savef fr = true -> forallb savef (dir_frames (snd (step_frame P t fr sg st))) = true.
  Proof.
    intros Hf. destruct fr; destruct sg; cbn [step_frame]; unfold default_or_raise, reduced; repeat break_match;
      cbn [snd dir_frames forallb savef emit_frames andb] in *; rewrite ?Hf; try reflexivity;
      try match goal with Hq : (is_rec ?r || is_exn ?r)%bool = false |- _ => rewrite Hq; reflexivity end;
      try match goal with H1 : is_rec ?r = _, H2 : (_ || is_exn ?r)%bool = false |- _ => rewrite H1 in *; cbn [orb] in *; first [discriminate H2 | rewrite H2; reflexivity] end.
  Qed.

  (* the history grows by a save only at the frame that calls the store, with the value that frame carries *)
  Lemma step_osave t fr sg st :
    (exists n v k, fr = FSave n v false k /\ sg = SGo /\ st_trace (fst (step_frame P t fr sg st)) = OSave n v :: st_trace st) \/
    nsq st (fst (step_frame P t fr sg st)).
  Proof.
    destruct fr; destruct sg; cbn [step_frame]; unfold default_or_raise, reduced; repeat break_match; spawn_norm; cbn [fst];
      first [ right; ns_prims; fail | left; do 3 eexists; repeat split; reflexivity ].
  Qed.

  Definition sv_TP (x : task frame) : Prop := forallb savef (estack (t_state x)) = true.
  Lemma sv_wake x w k : t_state x = TWait w k -> sv_TP x -> sv_TP (with_ts x (TReady k SGo)).
  Proof. unfold sv_TP. intros E H. rewrite E in H. exact H. Qed.
  Lemma sv_cancel_ready x k sg : t_state x = TReady k sg -> sv_TP x -> sv_TP (with_ts x (TReady k (SThrow XCancelled))).
  Proof. unfold sv_TP. intros E H. rewrite E in H. exact H. Qed.
  Lemma sv_cancel_wait x w k : t_state x = TWait w k -> sv_TP x -> sv_TP (with_ts x (TReady k (SThrow XCancelled))).
  Proof. unfold sv_TP. intros E H. rewrite E in H. exact H. Qed.
  Lemma sv_spawn i nm f : 1 <= i -> spawn_frame f = true -> sv_TP {| t_id := i; t_name := nm; t_state := TReady [f] SGo; t_helper := true |}.
  Proof. unfold sv_TP. cbn. intros _ Hf. destruct f; try discriminate Hf; reflexivity. Qed.

  Definition saves_clean (tr : list obs) : Prop := forall n v, In (OSave n v) tr -> is_rec v = false /\ is_exn v = false.

  Theorem creach_saves_all : forall st c, creach P st c ->
    tasks_ok sv_TP st /\ (match c with Some (_, k, _) => forallb savef k = true | None => True end) /\ saves_clean (st_trace st).
  Proof.
    intros st c H. pose proof (creach_evolves P st c H) as Hev0.
    induction H as [|st t rest x k sg H IH Hq Hf Ht|st t rest H IH Hq|st t fr rest sg H IH|st t sg H IH|st c H IH|st g H IH|st H IH].
    - split; [|split; [exact I|]].
      + unfold tasks_ok, init_state. cbn. constructor; [reflexivity|constructor].
      + intros n v [Hin|[]]. discriminate Hin.
    - destruct (IH (creach_evolves P _ _ H)) as (A & _ & C). split; [apply ok_dequeue; exact A|]. split; [|exact C].
      destruct (find_task_in _ _ _ Hf) as [Hin _]. unfold tasks_ok in A. rewrite Forall_forall in A. specialize (A x Hin). unfold sv_TP in A. rewrite Ht in A. exact A.
    - destruct (IH (creach_evolves P _ _ H)) as (A & _ & C). split; [apply ok_dequeue; exact A|]. split; [exact I|exact C].
    - pose proof (creach_evolves P _ _ H) as Hev. destruct (IH Hev) as (A & B & C).
      pose proof (ev_next _ _ Hev) as Hn1. cbn in Hn1. cbn [forallb] in B. apply andb_true_iff in B. destruct B as [Kf Kr].
      pose proof (step_frame_tasks_ok P sv_TP sv_wake sv_cancel_ready sv_cancel_wait sv_spawn t fr sg st Hn1 A) as A1.
      pose proof (step_savef t fr sg st Kf) as Hk'.
      assert (Hkk : forallb savef (dir_frames (snd (step_frame P t fr sg st)) ++ rest) = true) by (rewrite forallb_app, Hk', Kr; reflexivity).
      assert (C1 : saves_clean (st_trace (fst (step_frame P t fr sg st)))).
      { destruct (step_osave t fr sg st) as [[n [v [k (-> & -> & Etr)]]]|[new [Etr Hnew]]].
        - rewrite Etr. intros n' v' [Hin|Hin]; [|exact (C n' v' Hin)]. inversion Hin; subst n' v'. cbn [savef] in Kf.
          apply negb_true_iff in Kf. apply orb_false_iff in Kf. exact Kf.
        - rewrite Etr. intros n' v' Hin. apply in_app_or in Hin. destruct Hin as [Hin|Hin]; [|exact (C n' v' Hin)].
          rewrite forallb_forall in Hnew. specialize (Hnew _ Hin). discriminate Hnew. }
      rewrite trace_after_step'.
      destruct (step_frame P t fr sg st) as [st1 [w k'|k'|k' sg'|sg']]; cbn [after_step fst snd dir_frames] in *.
      + split; [|split; [exact I|exact C1]]. apply ok_suspend; [exact A1|]. intros y _ _. unfold sv_TP. cbn. exact Hkk.
      + split; [|split; [exact I|exact C1]]. apply ok_push_ready. apply ok_set_tstate; [exact A1|]. intros y _ _. unfold sv_TP. cbn. exact Hkk.
      + split; [exact A1|]. split; [exact Hkk|exact C1].
      + split; [exact A1|]. split; [exact Kr|exact C1].
    - destruct (IH (creach_evolves P _ _ H)) as (A & _ & C). split; [|split; [exact I|exact C]]. apply ok_set_tstate; [exact A|]. intros y _ _. reflexivity.
    - destruct (IH (creach_evolves P _ _ H)) as (A & _ & C). split; [|split; [exact I|exact C]]. apply ok_abort; [|exact A]. intros y k0 _. reflexivity.
    - destruct (IH (creach_evolves P _ _ H)) as (A & _ & C). unfold complete_gate. rewrite trace_wake_all. split; [|split; [exact I|exact C]].
      apply (complete_gate_tasks_ok sv_TP sv_wake). exact A.
    - destruct (IH (creach_evolves P _ _ H)) as (A & _ & C). rewrite trace_cancel_task. split; [|split; [exact I|exact C]].
      apply (ok_cancel_task sv_TP sv_cancel_ready sv_cancel_wait). exact A.
  Qed.
End SavesAll.


(* ---- what is saved is the value that was stored as the node's result -------------------------------------------------------- *)
Definition save_of (f : frame) : option (key * value) := match f with FSave n v _ _ => Some (n, v) | _ => None end.

Section SavedIsStored.
  Variable P : prog.

  Definition stored_before (tr : list obs) (k : list frame) : Prop :=
    forall f n v, In f k -> save_of f = Some (n, v) -> In (OSetResult n v) tr.

  Lemma step_save_origin t fr sg st f n v :
    In f (dir_frames (snd (step_frame P t fr sg st))) -> save_of f = Some (n, v) ->
    save_of fr = Some (n, v) \/ In (OSetResult n v) (st_trace (fst (step_frame P t fr sg st))).
  Proof.
    destruct fr; destruct sg; cbn [step_frame]; unfold default_or_raise, reduced; repeat break_match; spawn_norm;
      unfold emit_frames; cbn [snd fst dir_frames]; intros Hin Hs;
      repeat (destruct Hin as [Hin|Hin]; [subst f; cbn [save_of] in Hs; try discriminate Hs; inversion Hs; subst;
                                          first [left; reflexivity | right; cbn [st_trace emit_obs]; left; reflexivity]|]); try contradiction.
  Qed.

  Definition ss_TP (tr : list obs) (x : task frame) : Prop := stored_before tr (estack (t_state x)).
  Lemma ss_wake tr x w k : t_state x = TWait w k -> ss_TP tr x -> ss_TP tr (with_ts x (TReady k SGo)).
  Proof. unfold ss_TP. intros E H. rewrite E in H. exact H. Qed.
  Lemma ss_cancel_ready tr x k sg : t_state x = TReady k sg -> ss_TP tr x -> ss_TP tr (with_ts x (TReady k (SThrow XCancelled))).
  Proof. unfold ss_TP. intros E H. rewrite E in H. exact H. Qed.
  Lemma ss_cancel_wait tr x w k : t_state x = TWait w k -> ss_TP tr x -> ss_TP tr (with_ts x (TReady k (SThrow XCancelled))).
  Proof. unfold ss_TP. intros E H. rewrite E in H. exact H. Qed.
  Lemma ss_spawn tr i nm f : 1 <= i -> spawn_frame f = true -> ss_TP tr {| t_id := i; t_name := nm; t_state := TReady [f] SGo; t_helper := true |}.
  Proof. unfold ss_TP, stored_before. cbn. intros _ Hf g n v [<-|[]] Hs. destruct f; try discriminate Hf; discriminate Hs. Qed.
  Lemma stored_mono new tr k : stored_before tr k -> stored_before (new ++ tr) k.
  Proof. intros H f n v Hf Hs. apply in_or_app. right. exact (H f n v Hf Hs). Qed.

  Definition save_after_store (tr : list obs) : Prop := forall a b n v, tr = a ++ OSave n v :: b -> In (OSetResult n v) b.

  Theorem creach_saved_is_stored : forall st c, creach P st c ->
    tasks_ok (ss_TP (st_trace st)) st /\ (match c with Some (_, k, _) => stored_before (st_trace st) k | None => True end)
    /\ save_after_store (st_trace st).
  Proof.
    intros st c H. pose proof (creach_evolves P st c H) as Hev0.
    induction H as [|st t rest x k sg H IH Hq Hf Ht|st t rest H IH Hq|st t fr rest sg H IH|st t sg H IH|st c H IH|st g H IH|st H IH].
    - split; [|split; [exact I|]].
      + unfold tasks_ok, init_state. cbn. constructor; [|constructor]. intros f n v [<-|[]] Hs. discriminate Hs.
      + intros a b n v E. cbn in E. destruct a as [|y a']; [discriminate E|]. inversion E. destruct a'; discriminate.
    - destruct (IH (creach_evolves P _ _ H)) as (A & _ & C). split; [apply ok_dequeue; exact A|]. split; [|exact C].
      destruct (find_task_in _ _ _ Hf) as [Hin _]. unfold tasks_ok in A. rewrite Forall_forall in A. specialize (A x Hin). unfold ss_TP in A. rewrite Ht in A. exact A.
    - destruct (IH (creach_evolves P _ _ H)) as (A & _ & C). split; [apply ok_dequeue; exact A|]. split; [exact I|exact C].
    - pose proof (creach_evolves P _ _ H) as Hev. destruct (IH Hev) as (A & B & C).
      pose proof (ev_next _ _ Hev) as Hn1. cbn in Hn1.
      destruct (ev_trace _ _ (ev_step_frame P t fr sg st)) as [new Etr].
      assert (A1 : tasks_ok (ss_TP (st_trace (fst (step_frame P t fr sg st)))) (fst (step_frame P t fr sg st))).
      { apply (step_frame_tasks_ok P (ss_TP _) (ss_wake _) (ss_cancel_ready _) (ss_cancel_wait _) (ss_spawn _)); [exact Hn1|].
        rewrite Etr. unfold tasks_ok in *. eapply Forall_impl; [|exact A]. intros x Hx. apply stored_mono. exact Hx. }
      assert (Hkk : stored_before (st_trace (fst (step_frame P t fr sg st))) (dir_frames (snd (step_frame P t fr sg st)) ++ rest)).
      { intros f n v Hin Hs. apply in_app_or in Hin. destruct Hin as [Hin|Hin].
        - destruct (step_save_origin t fr sg st f n v Hin Hs) as [Hfr|Hin']; [|exact Hin'].
          rewrite Etr. apply in_or_app. right. apply (B fr n v); [left; reflexivity|exact Hfr].
        - rewrite Etr. apply in_or_app. right. apply (B f n v); [right; exact Hin|exact Hs]. }
      assert (C1 : save_after_store (st_trace (fst (step_frame P t fr sg st)))).
      { destruct (step_osave P t fr sg st) as [[n [v [k (-> & -> & Etr')]]]|[new' [Etr' Hnew]]].
        - rewrite Etr'. intros a b n' v' E. destruct a as [|y a'].
          + cbn [app] in E. inversion E; subst n' v' b. apply (B (FSave n v false k) n v); [left; reflexivity|reflexivity].
          + cbn [app] in E. inversion E as [[Ey E']]. exact (C a' b n' v' E').
        - rewrite Etr'. intros a b n' v' E.
          assert (Hsplit : exists a', a = new' ++ a' /\ st_trace st = a' ++ OSave n' v' :: b).
          { clear - Hnew E. revert a E. induction new' as [|o r IHn]; intros a E; [exists a; split; [reflexivity|exact E]|].
            cbn [forallb] in Hnew. apply andb_true_iff in Hnew. destruct Hnew as [Ho Hr]. destruct a as [|y a'].
            - cbn [app] in E. inversion E; subst. discriminate Ho.
            - cbn [app] in E. inversion E; subst. destruct (IHn Hr a' H1) as [a'' [-> ->]]. exists a''. split; reflexivity. }
          destruct Hsplit as [a' [_ E']]. exact (C a' b n' v' E'). }
      rewrite trace_after_step'.
      destruct (step_frame P t fr sg st) as [st1 [w k'|k'|k' sg'|sg']]; cbn [after_step fst snd dir_frames] in *.
      + split; [|split; [exact I|exact C1]]. apply ok_suspend; [exact A1|]. intros y _ _. unfold ss_TP. cbn. exact Hkk.
      + split; [|split; [exact I|exact C1]]. apply ok_push_ready. apply ok_set_tstate; [exact A1|]. intros y _ _. unfold ss_TP. cbn. exact Hkk.
      + split; [exact A1|]. split; [exact Hkk|exact C1].
      + split; [exact A1|]. split; [|exact C1]. intros f n v Hin Hs. apply (Hkk f n v); [exact Hin|exact Hs].
    - destruct (IH (creach_evolves P _ _ H)) as (A & _ & C). split; [|split; [exact I|exact C]]. apply ok_set_tstate; [exact A|]. intros y _ _ f n v []. 
    - destruct (IH (creach_evolves P _ _ H)) as (A & _ & C). split; [|split; [exact I|exact C]]. apply ok_abort; [|exact A]. intros y k0 _ f n v [].
    - destruct (IH (creach_evolves P _ _ H)) as (A & _ & C). unfold complete_gate. rewrite trace_wake_all. split; [|split; [exact I|exact C]].
      apply (complete_gate_tasks_ok (ss_TP _) (ss_wake _)). exact A.
    - destruct (IH (creach_evolves P _ _ H)) as (A & _ & C). rewrite trace_cancel_task. split; [|split; [exact I|exact C]].
      apply (ok_cancel_task (ss_TP _) (ss_cancel_ready _) (ss_cancel_wait _)). exact A.
  Qed.
End SavedIsStored.

Theorem no_marker_or_failure_is_saved_all_programs P :
  forall st, reachable P st -> forall n v, In (OSave n v) (st_trace st) -> is_rec v = false /\ is_exn v = false.
Proof. intros st Hr. destruct (creach_saves_all P st None (reachable_creach P st Hr)) as (_ & _ & C). exact C. Qed.

Theorem saved_value_was_stored_all_programs P :
  forall st, reachable P st -> forall a b n v, st_trace st = a ++ OSave n v :: b -> In (OSetResult n v) b.
Proof. intros st Hr. destruct (creach_saved_is_stored P st None (reachable_creach P st Hr)) as (_ & _ & C). exact C. Qed.
