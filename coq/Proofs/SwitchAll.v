(* ALL programs, every schedule: the case recorded for a switch is the case labelled with the value its decision node stored, and
   the value a consumer receives for a switch parameter is the stored result of that recorded case (C09). *)
From MLPE Require Import Engine.Run Proofs.ExecLemmas Proofs.Evolve Proofs.StackInv Proofs.Micro Proofs.PlainLive Proofs.PlainCore Proofs.PlainInv
     Proofs.PlainExec Proofs.PipeAll Proofs.StoreAll Proofs.AssocLemmas.
Require Import Lia.

Section SwitchAll.
  Variable P : prog.
  Notation G := (b_graph (build (p_decls P) (p_inp P) (p_out P))).

  (* every recorded selection follows the case table, and its label was stored by the decision node of the switch *)
  Definition sel_ok (tr : list obs) (n : key) (lbl : value) (c : key) : Prop :=
    switch_case_for P n lbl = Some c /\ exists dn, switch_decider P n = Some dn /\ In (OSetResult dn lbl) tr.
  Definition SwI (st : mstate) : Prop :=
    forall n lbl c, get_switch n (st_store st) = Some (lbl, c) -> sel_ok (st_trace st) n lbl c.
  Definition Sr (st st' : mstate) : Prop := SwI st -> SwI st'.

  Lemma Sr_refl st : Sr st st. Proof. intros H. exact H. Qed.
  Lemma Sr_trans a b c : Sr a b -> Sr b c -> Sr a c. Proof. unfold Sr. auto. Qed.
  Lemma Sr_same st st' : st_store st' = st_store st -> st_trace st' = st_trace st -> Sr st st'.
  Proof. intros E1 E2 H n l c. rewrite E1, E2. apply H. Qed.
  Lemma Sr_bump c st : Sr st (bump c st). Proof. apply Sr_same; reflexivity. Qed.
  Lemma Sr_set_adddata k v st : Sr st (set_adddata k v st). Proof. apply Sr_same; reflexivity. Qed.
  Lemma Sr_push_ready t st : Sr st (push_ready t st). Proof. apply Sr_same; reflexivity. Qed.
  Lemma Sr_set_waiters w st : Sr st (set_waiters w st). Proof. apply Sr_same; reflexivity. Qed.
  Lemma Sr_set_tstate t ts st : Sr st (set_tstate t ts st). Proof. apply Sr_same; reflexivity. Qed.
  Lemma Sr_add_event n st : Sr st (add_event n st). Proof. apply Sr_same; reflexivity. Qed.
  Lemma sel_ok_cons o tr n l c : sel_ok tr n l c -> sel_ok (o :: tr) n l c.
  Proof. intros [A [dn [B C]]]. split; [exact A|]. exists dn. split; [exact B|right; exact C]. Qed.
  Lemma Sr_emit o st : Sr st (emit_obs o st).
  Proof. intros H n l c Hl. apply sel_ok_cons. apply H. exact Hl. Qed.
  Lemma Sr_spawn nm h k st : Sr st (fst (spawn nm h k st)).
  Proof. intros H n l c Hl. apply sel_ok_cons. apply H. exact Hl. Qed.
  Lemma Sr_keep (f : storage -> storage) st : (forall s, s_switch (f s) = s_switch s) -> Sr st (with_store f st).
  Proof. intros Hf H n l c Hl. unfold get_switch in *. cbn [with_store st_store st_trace] in *. rewrite Hf in Hl. apply H. exact Hl. Qed.
  Lemma sw_set_processed k s : s_switch (set_processed k s) = s_switch s. Proof. reflexivity. Qed.
  Lemma sw_hide1 k s : s_switch (hide1 k s) = s_switch s. Proof. reflexivity. Qed.
  Lemma sw_hide_all ks s : s_switch (hide_all ks s) = s_switch s.
  Proof. unfold hide_all. revert s. induction ks as [|k r IH]; intros s; cbn [fold_left]; [reflexivity|]. rewrite IH. reflexivity. Qed.
  Lemma sw_set_result k v s : s_switch (set_result k v s) = s_switch s. Proof. reflexivity. Qed.
  Lemma sw_set_active p b s : s_switch (set_active p b s) = s_switch s. Proof. reflexivity. Qed.
  Definition Sr_notify := R_notify Sr Sr_trans Sr_push_ready Sr_set_waiters Sr_set_tstate.
  Definition Sr_wake_all := R_wake_all Sr Sr_trans Sr_push_ready Sr_set_waiters Sr_set_tstate.
  Definition Sr_notify_keys := R_notify_keys Sr Sr_trans Sr_push_ready Sr_set_waiters Sr_set_tstate.
  Definition Sr_set_event := R_set_event Sr Sr_trans Sr_push_ready Sr_set_waiters Sr_set_tstate Sr_add_event.
  Definition Sr_cancel_task := R_cancel_task Sr Sr_trans Sr_push_ready Sr_set_waiters Sr_set_tstate.
  Definition Sr_cancel_tasks := R_cancel_tasks Sr Sr_trans Sr_push_ready Sr_set_waiters Sr_set_tstate.
  Definition Sr_finally_a := R_finally_a Sr Sr_trans Sr_push_ready Sr_set_waiters Sr_set_tstate Sr_add_event.
  Definition Sr_finally_b := R_finally_b P Sr Sr_trans Sr_push_ready Sr_set_waiters Sr_set_tstate Sr_add_event.
  Lemma Sr_fold_hide (l : list key) st0 st : Sr st0 st -> Sr st0 (fold_left (fun s k => emit_obs (OHide k) s) l st).
  Proof. revert st. induction l as [|k r IH]; intros st H; cbn [fold_left]; [exact H|]. apply IH. eapply Sr_trans; [exact H|]. apply Sr_emit. Qed.

  (* recording a selection: what _run_switch does *)
  Lemma Sr_set_switch n lbl c st : sel_ok (st_trace st) n lbl c -> Sr st (with_store (set_switch n lbl c) st).
  Proof.
    intros Hs H n' l' c' Hl. unfold get_switch in *. cbn [with_store st_store st_trace set_switch s_switch] in *.
    destruct (key_eqb n' n) eqn:E.
    - apply key_eqb_spec in E. subst n'. rewrite (alookup_aset_same key_eqb key_eqb_spec) in Hl. inversion Hl; subst. exact Hs.
    - apply H. rewrite (alookup_aset_other key_eqb key_eqb_spec) in Hl; [exact Hl|]. intros ->. rewrite key_eqb_refl in E. discriminate E.
  Qed.

  Lemma case_for_is_str n lbl c : switch_case_for P n lbl = Some c -> exists l, lbl = VStr l.
  Proof. unfold switch_case_for. destruct lbl; try discriminate. eauto. Qed.

  Lemma label_was_stored st dn l :
    Istore st -> get_result dn false (st_store st) = VStr l -> In (OSetResult dn (VStr l)) (st_trace st).
  Proof.
    intros HI E. unfold get_result, get_result_opt in E. cbn [negb andb] in E.
    destruct (mem key_eqb dn (s_res_hidden (st_store st))); [discriminate E|].
    destruct (alookup key_eqb dn (s_results (st_store st))) as [v|] eqn:El; [|discriminate E]. subst v. apply HI. exact El.
  Qed.

  Ltac sr_prims :=
    repeat first
           [ apply Sr_refl
           | apply Sr_notify | apply Sr_notify_keys | apply Sr_set_event | apply Sr_cancel_tasks | apply Sr_cancel_task
           | apply Sr_finally_a | apply Sr_finally_b | apply Sr_wake_all | apply Sr_fold_hide
           | (eapply Sr_trans; [|apply Sr_bump]) | (eapply Sr_trans; [|apply Sr_set_adddata]) | (eapply Sr_trans; [|apply Sr_push_ready])
           | (eapply Sr_trans; [|apply Sr_spawn]) | (eapply Sr_trans; [|apply Sr_emit])
           | (eapply Sr_trans; [|apply Sr_keep; first [apply sw_set_processed | apply sw_hide1 | apply sw_hide_all | apply sw_set_result | apply sw_set_active]]) ].

  Lemma step_Sr t fr sg st : Istore st -> Sr st (fst (step_frame P t fr sg st)).
  Proof.
    intros HI. destruct fr; destruct sg; cbn [step_frame]; unfold default_or_raise, reduced; repeat break_match; spawn_norm; cbn [fst];
      try solve [sr_prims].
    all: apply Sr_set_switch.
    all: match goal with Hc : switch_case_for _ _ ?lbl = Some _ |- _ => destruct (case_for_is_str _ _ _ Hc) as [l El] end.
    all: try discriminate El.
    all: split; [assumption|]. all: eexists; split; [eassumption|]. all: rewrite El. all: apply label_was_stored; assumption.
  Qed.

  Theorem creach_switch : forall st c, creach P st c -> SwI st.
  Proof.
    intros st c H.
    induction H as [|st t rest x k sg H IH Hq Hf Ht|st t rest H IH Hq|st t fr rest sg H IH|st t sg H IH|st c H IH|st g H IH|st H IH].
    - intros n l c Hl. cbn in Hl. discriminate Hl.
    - exact IH.
    - exact IH.
    - pose proof (step_Sr t fr sg st (creach_store P _ _ H) IH) as H1. intros n l c Hl. rewrite trace_after_step'.
      assert (Es : st_store (fst (after_step t rest (step_frame P t fr sg st))) = st_store (fst (step_frame P t fr sg st)))
        by (destruct (step_frame P t fr sg st) as [st1 [w k'|k'|k' sg'|sg']]; reflexivity).
      rewrite Es in Hl. exact (H1 n l c Hl).
    - exact IH.
    - exact IH.
    - unfold complete_gate. exact (Sr_wake_all _ _ st st (Sr_refl st) IH).
    - exact (Sr_cancel_task _ st st (Sr_refl st) IH).
  Qed.
End SwitchAll.

Theorem switch_selection_follows_the_case_table_all_programs P :
  forall st, reachable P st ->
    forall n lbl c, get_switch n (st_store st) = Some (lbl, c) ->
      switch_case_for P n lbl = Some c /\ exists dn, switch_decider P n = Some dn /\ In (OSetResult dn lbl) (st_trace st).
Proof. intros st Hr. exact (creach_switch P st None (reachable_creach P st Hr)). Qed.
