(* Plain DAGs never deadlock (C02 on the fragment of plain DAGs): all programs whose built graph has no switch node and no one-of
   head and whose bodies never ask for another iteration, any event managers / artifact store (gated, raising), any retry
   policies and execution modes; every schedule. *)
From MLPE Require Import Engine.Run Proofs.ExecLemmas Proofs.Evolve Proofs.StackInv Proofs.ReadyInv Proofs.WaitInv Explore.StateEq
     Proofs.ProcessedInv Proofs.PlainWorld Proofs.PlainLaunch.

Definition node_frame (n : key) (f : frame) : bool :=
  match f with
  | FNodeStart _ n' _ | FNodeAfterExec _ n' | FNodeAfterSave _ n' _ | FExecStart _ n' _ | FExecDup n' | FExecAfterStart _ n' _
  | FExecAfterBody _ n' | FExecAfterOk _ n' _ => key_eqb n' n
  | FExecAfterErr _ _ => true
  | FEmit EvNodeStart (Some n') _ _ _ _ | FEmit EvNodeComplete (Some n') _ _ _ _ => key_eqb n' n || key_eqb n' (KN (real_index n))
  | FSave n' _ _ _ => key_eqb n' n
  | FRetry i _ _ _ | FRetryAfterBody i _ _ | FRetryAfterEmit i _ _ | FRetryAfterSleep i _ _ => Nat.eqb i (real_index n)
  | _ => false
  end.

Definition is_dag_frame (f : frame) : bool := match f with FDagStart _ | FDagLoop _ _ _ | FDagFinal _ => true | _ => false end.

Definition owner (nm : tname) (f : frame) : bool :=
  match nm with
  | TNMain => main_frame f
  | TNRun => is_dag_frame f
  | TNNode n => node_frame n f
  | _ => false
  end.

Definition owner_TP (x : task frame) : Prop :=
  match t_state x with
  | TReady k _ | TWait _ k => forallb (owner (t_name x)) k = true
  | TDone _ => True
  end.
Lemma owner_wake x w k : t_state x = TWait w k -> owner_TP x -> owner_TP (with_ts x (TReady k SGo)).
Proof. unfold owner_TP. intros E H. rewrite E in H. exact H. Qed.
Lemma owner_cancel_ready x k sg : t_state x = TReady k sg -> owner_TP x -> owner_TP (with_ts x (TReady k (SThrow XCancelled))).
Proof. unfold owner_TP. intros E H. rewrite E in H. exact H. Qed.
Lemma owner_cancel_wait x w k : t_state x = TWait w k -> owner_TP x -> owner_TP (with_ts x (TReady k (SThrow XCancelled))).
Proof. unfold owner_TP. intros E H. rewrite E in H. exact H. Qed.

Section Owner.
  Variable P : prog.
  Notation G := (b_graph (build (p_decls P) (p_inp P) (p_out P))).
  Hypothesis Hsw : forall n, is_switch G n = false.
  Hypothesis Hhd : forall n, is_head G n = false.
  Hypothesis Hbody : forall i kw a v, p_body P i kw a = OVal v -> clean v = true.

  Lemma owner_launcher i : owner_TP {| t_id := i; t_name := TNRun; t_state := TReady [FDagStart (maind P)] SGo; t_helper := true |}.
  Proof. reflexivity. Qed.
  Lemma owner_node i n : owner_TP {| t_id := i; t_name := TNNode n; t_state := TReady [FNodeStart (maind P) n false] SGo; t_helper := true |}.
  Proof. unfold owner_TP. cbn. rewrite key_eqb_refl. reflexivity. Qed.

  Definition dir_frames (d : directive) : list frame :=
    match d with DSuspend _ k' | DYield k' | DCont k' _ => k' | DRet _ => [] end.

  (* the frames a step leaves belong to the same coroutine family as the frame it resumed *)
  Lemma plain_step_owner nm t fr sg st :
    plain_frame P fr = true -> owner nm fr = true -> clean_sig sg -> PS st ->
    forallb (owner nm) (dir_frames (snd (step_frame P t fr sg st))) = true.
  Proof.
    intros Hf Ho Hs Hst. pose proof Hst as Hst'. unfold PS in Hst'.
    destruct nm as [| |n|? ?|?]; try discriminate Ho;
      destruct fr; try discriminate Hf; try discriminate Ho; cbn [plain_frame] in Hf; cbn [owner node_frame main_frame is_dag_frame] in Ho;
      repeat match goal with Hx : context [match ?x with _ => _ end] |- _ => destruct x; try discriminate Hx end;
      repeat match goal with
             | H : (_ && _)%bool = true |- _ => apply andb_true_iff in H; destruct H
             | H : is_main P ?d = true |- _ => apply is_main_eq in H; subst d
             | H : negb ?f = true |- _ => apply negb_true_iff in H; subst f
             | H : ?u = true |- _ => is_var u; subst u
             end;
      destruct sg; cbn [clean_sig] in Hs;
      try match goal with H : clean ?v = true |- _ => pose proof (clean_not_rec v H) as Hnr; pose proof (clean_not_exn v H) as Hne end;
      cbn [step_frame]; rewrite ?Hnr, ?Hne, ?Hsw, ?Hhd, ?(plain_dep_error P _ _ _ Hst'), ?(plain_no_subgraph_error _ _ Hst');
      unfold default_or_raise, reduced; cbn [d_oneof d_rec maind andb];
      repeat break_match; cbn [snd dir_frames forallb owner node_frame main_frame is_dag_frame emit_frames];
      try reflexivity;
      repeat match goal with
             | H : key_eqb _ _ = true |- _ => apply key_eqb_spec in H; subst
             | H : Nat.eqb _ _ = true |- _ => apply Nat.eqb_eq in H; subst
             end;
      cbn [Nat.eqb key_eqb]; rewrite ?key_eqb_refl, ?Nat.eqb_refl, ?orb_true_r;
      try match goal with H : (_ || _)%bool = true |- _ => rewrite H end; reflexivity.
  Qed.

  Lemma exec_owner fuel t nm k sg st :
    PS st -> tasks_ok (plain_TP P) st -> tasks_ok owner_TP st -> plain_stack P k = true -> clean_sig sg ->
    forallb (owner nm) k = true -> (forall s x, find_task t (st_tasks s) = Some x -> evolves st s -> t_name x = nm) ->
    tasks_ok owner_TP (exec P fuel t k sg st).
  Proof.
    intros H1 H2 H3 H4 H5 H6 Hnm.
    apply (exec_rule P t (fun k sg s => PS s /\ tasks_ok (plain_TP P) s /\ tasks_ok owner_TP s /\ plain_stack P k = true /\ clean_sig sg
                                        /\ forallb (owner nm) k = true /\ evolves st s)
                     (tasks_ok owner_TP)); [| |auto 10 using evolves_refl].
    - intros sg' s (A & B & C & _). apply ok_set_tstate; [exact C|]. intros x _ _. exact I.
    - intros fr rest sg' s (A & B & C & D & E & F & Ev). split; [apply ok_abort; [intros x k0 _; exact I|exact C]|].
      cbn [plain_stack forallb] in D, F. apply andb_true_iff in D. destruct D as [Df Dr]. apply andb_true_iff in F. destruct F as [Ff Fr].
      pose proof (plain_step_dir P Hbody t fr sg' s Df E A) as Hd.
      pose proof (plain_step_store P t fr sg' s Df E A) as Hs.
      pose proof (plain_step_tasks P Hsw Hhd t fr sg' s Df E A B) as Ht.
      pose proof (plain_step_tasks_gen P Hsw Hhd owner_TP owner_wake owner_cancel_ready owner_cancel_wait owner_launcher owner_node t fr sg' s Df E A C) as Hto.
      pose proof (plain_step_owner nm t fr sg' s Df Ff E A) as Ho.
      pose proof (evolves_trans _ _ _ Ev (ev_step_frame P t fr sg' s)) as Ev1.
      destruct (step_frame P t fr sg' s) as [st1 [w k'|k'|k' sg''|sg'']]; cbn [fst snd dir_plain dir_frames] in *.
      + apply ok_suspend; [exact Hto|]. intros x Hx _. unfold owner_TP. cbn. rewrite (Hnm st1 x Hx Ev1), forallb_app, Ho. exact Fr.
      + apply ok_push_ready. apply ok_set_tstate; [exact Hto|]. intros x Hx _. unfold owner_TP. cbn.
        rewrite (Hnm st1 x Hx Ev1), forallb_app, Ho. exact Fr.
      + destruct Hd as [Hk Hsg]. unfold plain_stack in *. rewrite !forallb_app, Hk, Ho. auto 10.
      + auto 10.
  Qed.

  (* a task keeps its name *)
  Lemma name_stable (st s : mstate) t x0 x :
    evolves st s -> find_task t (st_tasks st) = Some x0 -> find_task t (st_tasks s) = Some x -> t_name x = t_name x0.
  Proof.
    intros [[new [E _]] _ _ _] H0 H1.
    assert (G : forall (l l' : list (task frame)) newl, map ident l' = map ident l ++ newl -> find_task t l = Some x0 -> find_task t l' = Some x -> t_name x = t_name x0).
    { clear. induction l as [|y r IH]; intros l' newl Em F0 F1; cbn in F0; [discriminate|].
      destruct l' as [|y' r']; [discriminate|]. cbn [map app] in Em. inversion Em as [[Ei En Eh Er]].
      cbn [find_task] in F1. rewrite Ei in F1. destruct (Nat.eqb (t_id y) t).
      - inversion F0; inversion F1; subst. exact En.
      - exact (IH r' newl Er F0 F1). }
    exact (G _ _ _ E H0 H1).
  Qed.

  Theorem reachable_owner : forall st, reachable P st -> tasks_ok owner_TP st.
  Proof.
    apply (reachable_inv P (tasks_ok owner_TP)).
    - unfold tasks_ok, init_state. cbn. constructor; [reflexivity|constructor].
    - intros st Hr H. destruct (reachable_plain P Hsw Hhd Hbody st Hr) as [A B].
      apply (loop_step_rule P (tasks_ok owner_TP)); [exact H|auto| |].
      + intros. apply ok_dequeue. exact H.
      + intros t rest x k sg Hq Hf Ht. destruct (find_task_in _ _ _ Hf) as [Hin _].
        unfold tasks_ok in B, H. rewrite Forall_forall in B, H. pose proof (B x Hin) as Hx. pose proof (H x Hin) as Hox.
        unfold plain_TP in Hx. unfold owner_TP in Hox. rewrite Ht in Hx, Hox. destruct Hx as [Hk Hsg].
        apply (exec_owner _ t (t_name x)); try assumption.
        * apply ok_dequeue. unfold tasks_ok. rewrite Forall_forall. exact B.
        * apply ok_dequeue. unfold tasks_ok. rewrite Forall_forall. exact H.
        * intros s y Hy Ev. apply (name_stable (dequeue st) s t x y Ev); [exact Hf|exact Hy].
    - intros st g _ H. apply (complete_gate_tasks_ok owner_TP owner_wake). exact H.
    - intros st _ H. apply (ok_cancel_task owner_TP owner_cancel_ready owner_cancel_wait). exact H.
  Qed.
End Owner.

(* ---- values in flight in a plain run (all plain programs, all schedules) ----------------------------------------------
   Arguments handed to bodies and to get_default, artifacts handed to the store and results put into the node storage are
   ordinary values: never a failure object, never a request for another iteration. *)
Definition kw_clean (kw : kwargs) : bool := forallb (fun pv => clean (snd pv)) kw.

Definition obs_clean (o : obs) : bool :=
  match o with
  | OStart _ _ kw | ODefault _ kw => kw_clean kw
  | OSave _ v | OSetResult _ v => clean v
  | OHide _ => false                        (* nothing is ever invalidated in a plain run *)
  | _ => true
  end.

Definition trace_clean (st : mstate) : Prop := forallb obs_clean (st_trace st) = true.

Definition kw_frame (f : frame) : bool :=
  match f with
  | FRetry _ _ kw _ | FRetryAfterBody _ kw _ | FRetryAfterEmit _ kw _ | FRetryAfterSleep _ kw _ => kw_clean kw
  | _ => true
  end.
Definition kw_stack (k : list frame) : bool := forallb kw_frame k.
Definition kw_TP (x : task frame) : Prop :=
  match t_state x with
  | TReady k _ | TWait _ k => kw_stack k = true
  | TDone _ => True
  end.

Section TraceClean.
  Variable P : prog.
  Notation G := (b_graph (build (p_decls P) (p_inp P) (p_out P))).
  Notation inp := (b_input (build (p_decls P) (p_inp P) (p_out P))).
  Hypothesis Hsw : forall n, is_switch G n = false.
  Hypothesis Hhd : forall n, is_head G n = false.
  Hypothesis Hbody : forall i kw a v, p_body P i kw a = OVal v -> clean v = true.
  Hypothesis Hinput : kw_clean (p_input P) = true.

  Lemma kw_insert_clean p v kw : clean v = true -> kw_clean kw = true -> kw_clean (kw_insert p v kw) = true.
  Proof.
    intros Hv. unfold kw_clean. induction kw as [|[q w] r IH]; cbn [kw_insert forallb snd]; [rewrite Hv; reflexivity|].
    intros H. apply andb_true_iff in H. destruct H as [H1 H2]. cbn [snd] in H1.
    destruct (Nat.ltb p q); cbn [forallb snd]; [rewrite Hv, H1, H2; reflexivity|].
    destruct (Nat.eqb p q); cbn [forallb snd]; [rewrite Hv, H2; reflexivity|rewrite H1, IH; auto].
  Qed.

  Lemma node_kwargs_clean st n kw :
    plain_store (st_store st) -> st_adddata st = [] -> node_kwargs P st n = Some kw -> kw_clean kw = true.
  Proof.
    intros Hst Had. unfold node_kwargs. rewrite Had. cbn [alookup].
    destruct (key_eqb n inp).
    - intros H. inversion H; subst. exact Hinput.
    - match goal with |- context [fold_left ?f ?l ?a] => set (F := f); set (L := l) end.
      assert (K : forall l acc, (forall kw0, acc = Some kw0 -> kw_clean kw0 = true) ->
                                forall kw0, fold_left F l acc = Some kw0 -> kw_clean kw0 = true).
      { induction l as [|pe r IH]; intros acc Ha kw0; cbn [fold_left]; [apply Ha|].
        apply IH. intros kw1. unfold F at 1. destruct acc as [kwa|]; [|discriminate].
        destruct (ea_kwarg (snd pe)) as [nm|]; [|intros E; inversion E; subst; apply Ha; reflexivity].
        rewrite Hsw. intros E. inversion E; subst. apply kw_insert_clean; [apply plain_get_result; exact Hst|apply Ha; reflexivity]. }
      destruct (fold_left F L (Some [])) as [kw0|] eqn:E; [|discriminate].
      intros H. inversion H; subst. eapply K; [|exact E]. intros kw0 E0. inversion E0; subst. reflexivity.
  Qed.

  (* trace and additional data untouched *)
  Definition ta_rel (a b : mstate) : Prop := st_trace b = st_trace a /\ st_adddata b = st_adddata a.
  Lemma ta_trans a b c : ta_rel a b -> ta_rel b c -> ta_rel a c.
  Proof. intros [A1 A2] [B1 B2]. split; congruence. Qed.
  Lemma ta_refl a : ta_rel a a. Proof. split; reflexivity. Qed.
  Lemma ta_push_ready t st : ta_rel st (push_ready t st). Proof. split; reflexivity. Qed.
  Lemma ta_set_waiters w st : ta_rel st (set_waiters w st). Proof. split; reflexivity. Qed.
  Lemma ta_set_tstate t ts st : ta_rel st (set_tstate t ts st). Proof. split; reflexivity. Qed.
  Lemma ta_add_event n st : ta_rel st (add_event n st). Proof. split; reflexivity. Qed.

  Definition TA (st : mstate) : Prop := trace_clean st /\ st_adddata st = [].
  Lemma TA_rel a b : ta_rel a b -> TA a -> TA b.
  Proof. intros [A B] [C D]. unfold TA, trace_clean. rewrite A, B. auto. Qed.
  Lemma TA_notify c st : TA st -> TA (notify c st).
  Proof. apply TA_rel, (R_notify ta_rel ta_trans ta_push_ready ta_set_waiters ta_set_tstate), ta_refl. Qed.
  Lemma TA_notify_keys ks st : TA st -> TA (notify_keys ks st).
  Proof. apply TA_rel, (R_notify_keys ta_rel ta_trans ta_push_ready ta_set_waiters ta_set_tstate), ta_refl. Qed.
  Lemma TA_set_event n st : TA st -> TA (set_event n st).
  Proof. apply TA_rel, (R_set_event ta_rel ta_trans ta_push_ready ta_set_waiters ta_set_tstate ta_add_event), ta_refl. Qed.
  Lemma TA_finally_b d n st : TA st -> TA (finally_b P d n st).
  Proof. apply TA_rel, (R_finally_b P ta_rel ta_trans ta_push_ready ta_set_waiters ta_set_tstate ta_add_event), ta_refl. Qed.
  Lemma TA_cancel_tasks ts st : TA st -> TA (cancel_tasks ts st).
  Proof. apply TA_rel, (R_cancel_tasks ta_rel ta_trans ta_push_ready ta_set_waiters ta_set_tstate), ta_refl. Qed.
  Lemma TA_cancel_task t st : TA st -> TA (cancel_task t st).
  Proof. apply TA_rel, (R_cancel_task ta_rel ta_trans ta_push_ready ta_set_waiters ta_set_tstate), ta_refl. Qed.
  Lemma TA_wake_all w sg st : TA st -> TA (wake_all w sg st).
  Proof. apply TA_rel, (R_wake_all ta_rel ta_trans ta_push_ready ta_set_waiters ta_set_tstate), ta_refl. Qed.
  Lemma TA_emit o st : obs_clean o = true -> TA st -> TA (emit_obs o st).
  Proof. intros Ho [A B]. split; [|exact B]. unfold trace_clean, emit_obs. cbn. rewrite Ho. exact A. Qed.
  Lemma TA_bump c st : TA st -> TA (bump c st). Proof. auto. Qed.
  Lemma TA_with_store f st : TA st -> TA (with_store f st). Proof. auto. Qed.
  Lemma TA_spawn nm h k st : TA st -> TA (fst (spawn nm h k st)).
  Proof. intros [A B]. split; [|exact B]. unfold trace_clean. cbn. exact A. Qed.
  Lemma TA_set_tstate t ts st : TA st -> TA (set_tstate t ts st). Proof. auto. Qed.
  Lemma TA_push_ready t st : TA st -> TA (push_ready t st). Proof. auto. Qed.

  Ltac ta_prims :=
    repeat first
           [ assumption
           | apply TA_notify | apply TA_notify_keys | apply TA_set_event | apply TA_cancel_tasks | apply TA_cancel_task
           | apply TA_finally_b | apply TA_wake_all | apply TA_bump | apply TA_with_store | apply TA_spawn
           | (apply TA_emit; [cbn [obs_clean]; first [reflexivity | assumption | (apply plain_get_result; assumption)]|]) ].

  Ltac plain_prep' :=
    repeat match goal with
           | H : (_ && _)%bool = true |- _ => apply andb_true_iff in H; destruct H
           | H : is_main _ ?d = true |- _ => apply is_main_eq in H; subst d
           | H : negb ?f = true |- _ => apply negb_true_iff in H; subst f
           | H : ?u = true |- _ => is_var u; subst u
           end.

  Lemma plain_step_ta t fr sg st :
    plain_frame P fr = true -> clean_sig sg -> PS st -> kw_frame fr = true -> TA st -> TA (fst (step_frame P t fr sg st)).
  Proof.
    intros Hf Hs Hst Hk Hta. pose proof Hst as Hst'. unfold PS in Hst'.
    destruct fr; try discriminate Hf; cbn [plain_frame] in Hf; cbn [kw_frame] in Hk; plain_prep';
      destruct sg; cbn [clean_sig] in Hs;
      try match goal with H : clean ?v = true |- _ => pose proof (clean_not_rec v H) as Hnr; pose proof (clean_not_exn v H) as Hne end;
      cbn [step_frame]; rewrite ?Hnr, ?Hne, ?Hsw, ?Hhd, ?(plain_dep_error P _ _ _ Hst'), ?(plain_no_subgraph_error _ _ Hst');
      unfold default_or_raise, reduced; cbn [d_oneof d_rec maind andb];
      repeat break_match; spawn_norm; cbn [fst]; ta_prims.
  Qed.

  Definition dir_kw (d : directive) : Prop :=
    match d with
    | DSuspend _ k' | DYield k' | DCont k' _ => kw_stack k' = true
    | DRet _ => True
    end.

  Lemma plain_step_kw t fr sg st :
    plain_frame P fr = true -> clean_sig sg -> PS st -> kw_frame fr = true -> st_adddata st = [] ->
    dir_kw (snd (step_frame P t fr sg st)).
  Proof.
    intros Hf Hs Hst Hk Had. pose proof Hst as Hst'. unfold PS in Hst'.
    destruct fr; try discriminate Hf; cbn [plain_frame] in Hf; cbn [kw_frame] in Hk; plain_prep';
      destruct sg; cbn [clean_sig] in Hs;
      try match goal with H : clean ?v = true |- _ => pose proof (clean_not_rec v H) as Hnr; pose proof (clean_not_exn v H) as Hne end;
      cbn [step_frame]; rewrite ?Hnr, ?Hne, ?Hsw, ?Hhd, ?(plain_dep_error P _ _ _ Hst'), ?(plain_no_subgraph_error _ _ Hst');
      unfold default_or_raise, reduced; cbn [d_oneof d_rec maind andb];
      repeat break_match; cbn [snd dir_kw]; try exact I;
      cbn [kw_stack forallb kw_frame emit_frames andb]; try reflexivity; try assumption;
      rewrite ?andb_true_r; try assumption;
      try (eapply node_kwargs_clean; eassumption).
  Qed.

  Lemma kw_TP_wake x w k : t_state x = TWait w k -> kw_TP x -> kw_TP (with_ts x (TReady k SGo)).
  Proof. unfold kw_TP. intros E H. rewrite E in H. exact H. Qed.
  Lemma kw_TP_cancel_ready x k sg : t_state x = TReady k sg -> kw_TP x -> kw_TP (with_ts x (TReady k (SThrow XCancelled))).
  Proof. unfold kw_TP. intros E H. rewrite E in H. exact H. Qed.
  Lemma kw_TP_cancel_wait x w k : t_state x = TWait w k -> kw_TP x -> kw_TP (with_ts x (TReady k (SThrow XCancelled))).
  Proof. unfold kw_TP. intros E H. rewrite E in H. exact H. Qed.
  Lemma kw_TP_spawn i nm h f : 1 <= i -> kw_frame f = true -> kw_TP {| t_id := i; t_name := nm; t_state := TReady [f] SGo; t_helper := h |}.
  Proof. intros _ Hf. unfold kw_TP. cbn. rewrite Hf. reflexivity. Qed.

  Lemma kw_launcher i : kw_TP {| t_id := i; t_name := TNRun; t_state := TReady [FDagStart (maind P)] SGo; t_helper := true |}.
  Proof. reflexivity. Qed.
  Lemma kw_node i n : kw_TP {| t_id := i; t_name := TNNode n; t_state := TReady [FNodeStart (maind P) n false] SGo; t_helper := true |}.
  Proof. reflexivity. Qed.

  Lemma exec_ta fuel t k sg st :
    PS st -> tasks_ok (plain_TP P) st -> tasks_ok kw_TP st -> TA st -> plain_stack P k = true -> clean_sig sg -> kw_stack k = true ->
    tasks_ok kw_TP (exec P fuel t k sg st) /\ TA (exec P fuel t k sg st).
  Proof.
    intros H1 H2 H3 H4 H5 H6 H7.
    apply (exec_rule P t (fun k sg s => PS s /\ tasks_ok (plain_TP P) s /\ tasks_ok kw_TP s /\ TA s /\ plain_stack P k = true /\ clean_sig sg
                                        /\ kw_stack k = true)
                     (fun s => tasks_ok kw_TP s /\ TA s)); [| |auto 10].
    - intros sg' s (A & B & C & D & _). split; [|exact D]. apply ok_set_tstate; [exact C|]. intros x _ _. exact I.
    - intros fr rest sg' s (A & B & C & D & E & F & K). split; [split; [apply ok_abort; [intros x k0 _; exact I|exact C]|exact D]|].
      cbn [plain_stack kw_stack forallb] in E, K. apply andb_true_iff in E. destruct E as [Ef Er]. apply andb_true_iff in K. destruct K as [Kf Kr].
      pose proof (plain_step_dir P Hbody t fr sg' s Ef F A) as Hd.
      pose proof (plain_step_store P t fr sg' s Ef F A) as Hs.
      pose proof (plain_step_tasks P Hsw Hhd t fr sg' s Ef F A B) as Ht.
      pose proof (plain_step_tasks_gen P Hsw Hhd kw_TP kw_TP_wake kw_TP_cancel_ready kw_TP_cancel_wait kw_launcher kw_node t fr sg' s Ef F A C) as Htk.
      pose proof (plain_step_ta t fr sg' s Ef F A Kf D) as Hta.
      pose proof (plain_step_kw t fr sg' s Ef F A Kf (proj2 D)) as Hk.
      destruct (step_frame P t fr sg' s) as [st1 [w k'|k'|k' sg''|sg'']]; cbn [fst snd dir_plain dir_kw] in *.
      + split; [|exact Hta]. apply ok_suspend; [exact Htk|]. intros x _ _. unfold kw_TP, kw_stack. cbn. rewrite forallb_app. fold (kw_stack k'). rewrite Hk. exact Kr.
      + split; [|exact Hta]. apply ok_push_ready. apply ok_set_tstate; [exact Htk|]. intros x _ _. unfold kw_TP, kw_stack. cbn.
        rewrite forallb_app. fold (kw_stack k'). rewrite Hk. exact Kr.
      + destruct Hd as [Hpk Hsg]. unfold plain_stack, kw_stack in *. rewrite !forallb_app, Hpk, Hk. auto 10.
      + auto 10.
  Qed.

  Theorem reachable_trace_clean : forall st, reachable P st -> tasks_ok kw_TP st /\ TA st.
  Proof.
    intros st Hr.
    assert (K : (PS st /\ tasks_ok (plain_TP P) st) /\ tasks_ok kw_TP st /\ TA st); [|tauto].
    revert st Hr. apply (reachable_inv P (fun st => (PS st /\ tasks_ok (plain_TP P) st) /\ tasks_ok kw_TP st /\ TA st)).
    - split; [apply (reachable_plain P Hsw Hhd Hbody), reach_init|].
      split; [unfold tasks_ok, init_state; cbn; constructor; [reflexivity|constructor]|split; reflexivity].
    - intros st Hr [[A B] [C D]]. split; [apply (reachable_plain P Hsw Hhd Hbody); apply reach_step with (a := AStep); exact Hr|].
      apply (loop_step_rule P (fun s => tasks_ok kw_TP s /\ TA s)); [auto|auto| |].
      + intros. split; [apply ok_dequeue; exact C|exact D].
      + intros t rest x k sg Hq Hf Ht. destruct (find_task_in _ _ _ Hf) as [Hin _].
        pose proof B as B'. pose proof C as C'. unfold tasks_ok in B', C'. rewrite Forall_forall in B', C'.
        pose proof (B' x Hin) as Hx. unfold plain_TP in Hx. rewrite Ht in Hx. destruct Hx as [Hk Hsg].
        pose proof (C' x Hin) as Hy. unfold kw_TP in Hy. rewrite Ht in Hy.
        apply exec_ta; [exact A|apply ok_dequeue; exact B|apply ok_dequeue; exact C|exact D|exact Hk|exact Hsg|exact Hy].
    - intros st g Hr [[A B] [C D]]. split; [apply (reachable_plain P Hsw Hhd Hbody); apply reach_step with (a := AGate g); exact Hr|].
      split; [apply (complete_gate_tasks_ok kw_TP kw_TP_wake); exact C|unfold complete_gate; apply TA_wake_all; exact D].
    - intros st Hr [[A B] [C D]]. split; [apply (reachable_plain P Hsw Hhd Hbody); apply reach_step with (a := ACancel); exact Hr|].
      split; [apply (ok_cancel_task kw_TP kw_TP_cancel_ready kw_TP_cancel_wait); exact C|apply TA_cancel_task; exact D].
  Qed.

  (* the statement on observations *)
  Corollary plain_values_in_flight st o :
    reachable P st -> In o (st_trace st) -> obs_clean o = true.
  Proof.
    intros Hr Hin. destruct (reachable_trace_clean st Hr) as [_ [Ht _]]. unfold trace_clean in Ht. rewrite forallb_forall in Ht. exact (Ht o Hin).
  Qed.
End TraceClean.

(* ---- a decidable description of plain programs ------------------------------------------------------------------------ *)
Definition graph_plain (g : graph) : bool := forallb (fun na => negb (na_switch (snd na)) && negb (na_head (snd na))) (g_nodes g).

Lemma graph_plain_sound g : graph_plain g = true -> (forall n, is_switch g n = false) /\ (forall n, is_head g n = false).
Proof.
  unfold graph_plain, is_switch, is_head, nattr_of. intros H.
  assert (K : forall n, match alookup key_eqb n (g_nodes g) with Some a => na_switch a = false /\ na_head a = false | None => True end).
  { intros n. induction (g_nodes g) as [|[k a] r IH]; cbn [alookup]; [exact I|].
    cbn [forallb snd] in H. apply andb_true_iff in H. destruct H as [H1 H2]. destruct (key_eqb n k); [|apply IH; exact H2].
    apply andb_true_iff in H1. destruct H1 as [A B]. apply negb_true_iff in A, B. auto. }
  split; intros n; specialize (K n); destruct (alookup key_eqb n (g_nodes g)); try reflexivity; tauto.
Qed.

Definition beh_plain (b : beh) : bool :=
  match b with BRecur _ | BRecEven _ => false | _ => true end.

Lemma dsl_body_clean bs : forallb (fun nb => beh_plain (nb_beh nb)) bs = true ->
  forall i kw a v, dsl_body bs i kw a = OVal v -> clean v = true.
Proof.
  intros H i kw a v. unfold dsl_body. destruct (nth_opt bs i) as [nb|] eqn:E; [|intros K; inversion K; reflexivity].
  assert (Hb : beh_plain (nb_beh nb) = true).
  { rewrite forallb_forall in H. apply H. clear H. revert i E. induction bs as [|b r IH]; intros i E; [destruct i; discriminate|].
    destruct i; cbn in E; [inversion E; left; reflexivity|right; eapply IH; exact E]. }
  destruct (fail_at (nb_fails nb) a); [discriminate|].
  destruct (nb_beh nb); try discriminate Hb; intros K; inversion K; reflexivity.
Qed.

(* programs built by the harness DSL: no switch, no one-of, no body that asks for another iteration, ordinary input values *)
Definition plain_prog (P : prog) : Prop :=
  graph_plain (b_graph (build (p_decls P) (p_inp P) (p_out P))) = true /\
  (forall i kw a v, p_body P i kw a = OVal v -> clean v = true) /\
  kw_clean (p_input P) = true.

Theorem plain_prog_values_in_flight P st o :
  plain_prog P -> reachable P st -> In o (st_trace st) -> obs_clean o = true.
Proof.
  intros (Hg & Hb & Hi). destruct (graph_plain_sound _ Hg) as [Hsw Hhd]. exact (plain_values_in_flight P Hsw Hhd Hb Hi st o).
Qed.

(* one concrete schedule, for non-vacuity examples: run to quiescence, complete the oldest pending gate, repeat *)
Fixpoint auto_run (P : prog) (fuel : nat) (st : mstate) : mstate :=
  match fuel with
  | O => st
  | S f => let st1 := apply_action P AQuiesce st in
           match pending_gates st1 with
           | [] => st1
           | g :: _ => auto_run P f (apply_action P (AGate g) st1)
           end
  end.
Lemma auto_run_reachable P fuel : forall st, reachable P st -> reachable P (auto_run P fuel st).
Proof.
  induction fuel as [|f IH]; intros st H; cbn [auto_run]; [exact H|].
  destruct (pending_gates (apply_action P AQuiesce st)) as [|g r]; [apply reach_step; exact H|].
  apply IH. apply reach_step. apply reach_step. exact H.
Qed.
