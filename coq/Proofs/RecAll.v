(* ALL programs, every schedule: the loop of a recurrent subgraph (C11).
   - the remaining-iterations counter of every loop in flight is at most max_iterations of its destination and every iteration
     takes one off;
   - a loop is driven only by Recurrent markers the destination node stored as its result, and the additional_data handed to the
     start node is always the payload of such a marker. *)
From MLPE Require Import Engine.Run Proofs.ExecLemmas Proofs.Evolve Proofs.StackInv Proofs.Micro Proofs.PlainLive Proofs.PlainCore Proofs.PlainInv
     Proofs.PlainExec Proofs.PlainEvents Proofs.PipeAll Proofs.ValuesAll Proofs.StoreAll Proofs.AssocLemmas.
Require Import Lia.

(* ---- adjacency of frames as a proposition ---- *)
Section Pairs.
  Variable adjP : frame -> frame -> Prop.
  Fixpoint pairsP (k : list frame) : Prop :=
    match k with
    | f :: r => match r with g :: _ => adjP f g /\ pairsP r | [] => True end
    | [] => True
    end.
  Lemma pairsP_tail f r : pairsP (f :: r) -> pairsP r.
  Proof. cbn [pairsP]. destruct r as [|g r']; [auto|]. intros H. apply H. Qed.
  Lemma pairsP_head f g r : pairsP (f :: g :: r) -> adjP f g.
  Proof. cbn [pairsP]. intros H. apply H. Qed.
  Lemma pairsP_app fr rest k' :
    pairsP (fr :: rest) -> pairsP k' -> (forall g, adjP fr g -> adjP (last k' fr) g) -> pairsP (k' ++ rest).
  Proof.
    intros Hc Hk Hl. destruct k' as [|f k'']; [exact (pairsP_tail _ _ Hc)|].
    revert f Hk Hl. induction k'' as [|g r' IH]; intros f Hk Hl.
    - cbn [app last] in *. destruct rest as [|g0 r0]; [exact I|]. cbn [pairsP]. split; [exact (Hl g0 (pairsP_head _ _ _ Hc))|].
      exact (pairsP_tail _ _ Hc).
    - change ((f :: g :: r') ++ rest) with (f :: (g :: r') ++ rest). cbn [pairsP app]. cbn [pairsP] in Hk.
      destruct Hk as [Ha Hk]. split; [exact Ha|]. apply IH; [exact Hk|exact Hl].
  Qed.
End Pairs.

(* what sits directly on the frame that receives the result of one iteration: the _run_dag of that very subgraph *)
Definition adjR (f g : frame) : Prop :=
  match g with
  | FRecAfterIter _ _ _ rsub _ => match f with FDagStart d | FDagLoop d _ _ | FDagFinal d => d = rsub | _ => False end
  | _ => True
  end.

Section RecAll.
  Variable P : prog.
  Notation G := (b_graph (build (p_decls P) (p_inp P) (p_out P))).

  Definition maxit (n : key) : nat := match na_maxit (nattr_of G n) with Some m => m | None => 0 end.
  Definition marker_of (tr : list obs) (n : key) (res : value) : Prop := is_rec res = true /\ In (OSetResult n res) tr.
  Definition was_stored (tr : list obs) (k : key) (v : value) : Prop := In (OSetResult k v) tr \/ v = VNone.

  Definition recf (tr : list obs) (f : frame) : Prop :=
    match f with
    | FRecStart _ n res => marker_of tr n res
    | FRecLoop _ n s rsub r res =>
      marker_of tr n res /\ na_start (nattr_of G n) = Some s /\ d_dst rsub = n /\ r <= maxit n
    | FRecAfterIter _ n s rsub r => na_start (nattr_of G n) = Some s /\ d_dst rsub = n /\ S r <= maxit n
    | _ => True
    end.
  Definition topR (tr : list obs) (f : frame) (sg : option signal) : Prop :=
    match f with
    | FRecAfterIter _ n _ _ _ => forall res, sg = Some (SVal res) -> was_stored tr n res
    | _ => True
    end.
  Definition topCR (tr : list obs) (k : list frame) (sg : option signal) : Prop := match k with f :: _ => topR tr f sg | [] => True end.
  Definition belowR (tr : list obs) (g : frame) (v : value) : Prop :=
    match g with FRecAfterIter _ n _ rsub _ => d_dst rsub = n -> was_stored tr n v | _ => True end.
  Definition top_afterR (tr : list obs) (fr : frame) (d : directive) : Prop :=
    match d with
    | DSuspend _ k' => topCR tr k' None
    | DYield k' => topCR tr k' (Some SGo)
    | DCont k' s' => topCR tr k' (Some s')
    | DRet s' => forall v, s' = SVal v -> forall g, adjR fr g -> belowR tr g v
    end.

  Lemma marker_mono new tr n res : marker_of tr n res -> marker_of (new ++ tr) n res.
  Proof. intros [A B]. split; [exact A|apply in_or_app; right; exact B]. Qed.
  Lemma was_stored_mono new tr k v : was_stored tr k v -> was_stored (new ++ tr) k v.
  Proof. intros [H|H]; [left; apply in_or_app; right; exact H|right; exact H]. Qed.
  Lemma recf_mono new tr f : recf tr f -> recf (new ++ tr) f.
  Proof.
    destruct f; cbn [recf]; try (intros; exact I).
    - apply marker_mono.
    - intros (A & B). split; [apply marker_mono; exact A|exact B].
    - auto.
  Qed.
  Lemma topR_mono new tr f sg : topR tr f sg -> topR (new ++ tr) f sg.
  Proof. destruct f; cbn [topR]; try (intros; exact I). intros H res Hs. apply was_stored_mono. exact (H res Hs). Qed.
  Lemma topCR_mono new tr k sg : topCR tr k sg -> topCR (new ++ tr) k sg.
  Proof. destruct k; [auto|apply topR_mono]. Qed.
  Lemma topCR_nonval tr k s s' : (forall v, s' <> Some (SVal v)) -> topCR tr k s -> topCR tr k s'.
  Proof. intros Hn. destruct k as [|f r]; [auto|]. cbn [topCR]. destruct f; cbn [topR]; auto. intros _ v9 Hv. exfalso. exact (Hn v9 Hv). Qed.

  Lemma result_was_stored st k : Istore st -> was_stored (st_trace st) k (get_result k true (st_store st)).
  Proof.
    intros HI. unfold get_result, get_result_opt. cbn [negb andb].
    destruct (alookup key_eqb k (s_results (st_store st))) as [v|] eqn:El; [left; apply HI; exact El|right; reflexivity].
  Qed.

  (* the shape of what a step pushes *)
  Lemma step_pairsR t fr sg st :
    pairsP adjR (dir_frames (snd (step_frame P t fr sg st))) /\
    (forall g, adjR fr g -> adjR (last (dir_frames (snd (step_frame P t fr sg st))) fr) g) /\
    dir_ne (snd (step_frame P t fr sg st)) = true.
  Proof.
    destruct fr; destruct sg; cbn [step_frame]; unfold default_or_raise, reduced;
      repeat break_match; unfold emit_frames; cbn [snd dir_frames dir_ne pairsP adjR last];
      (split; [auto|split; [intros g Hg; destruct g; cbn [adjR] in *; auto|reflexivity]]).
  Qed.

  Lemma step_topR t fr sg st :
    Istore st -> topR (st_trace st) fr (Some sg) ->
    top_afterR (st_trace (fst (step_frame P t fr sg st))) fr (snd (step_frame P t fr sg st)).
  Proof.
    intros HI.
    destruct (ev_trace _ _ (ev_step_frame P t fr sg st)) as [new Etr]. rewrite Etr. clear Etr.
    destruct fr; destruct sg; cbn [step_frame]; unfold default_or_raise, reduced;
      repeat break_match; cbn [fst snd]; unfold emit_frames; cbn [top_afterR topCR topR]; intros Htop;
      try exact I; try (intros ? Hv; discriminate Hv).
    all: try (intros v' Hv' g Hg; destruct g; cbn [adjR belowR] in *; try exact I; try contradiction).
    all: try (inversion Hv' as [Ev]; intros Hd; apply was_stored_mono;
              first [right; reflexivity | subst; apply result_was_stored; exact HI]).
  Qed.

  (* ---- per-task invariant, indexed by the history ---- *)
  Definition rk_ok (tr : list obs) (k : list frame) (sg : option signal) : Prop :=
    (pairsP adjR k /\ forall f, In f k -> recf tr f) /\ topCR tr k sg.
  Definition rec_TP (tr : list obs) (x : task frame) : Prop :=
    match t_state x with
    | TReady k sg => rk_ok tr k (Some sg)
    | TWait _ k => rk_ok tr k None
    | TDone _ => True
    end.
  Lemma rk_mono new tr k s : rk_ok tr k s -> rk_ok (new ++ tr) k s.
  Proof. intros ((A & B) & C). split; [split; [exact A|intros f Hf; apply recf_mono; exact (B f Hf)]|apply topCR_mono; exact C]. Qed.
  Lemma rk_nonval tr k s s' : (forall v, s' <> Some (SVal v)) -> rk_ok tr k s -> rk_ok tr k s'.
  Proof. intros Hn (A & B). split; [exact A|exact (topCR_nonval tr k s s' Hn B)]. Qed.
  Lemma tasks_rec_mono new tr st : tasks_ok (rec_TP tr) st -> tasks_ok (rec_TP (new ++ tr)) st.
  Proof. unfold tasks_ok. apply Forall_impl. intros x. unfold rec_TP. destruct (t_state x); auto; apply rk_mono. Qed.
  Lemma rec_wake tr x w k : t_state x = TWait w k -> rec_TP tr x -> rec_TP tr (with_ts x (TReady k SGo)).
  Proof. unfold rec_TP. intros E H. rewrite E in H. cbn. eapply rk_nonval; [|exact H]. intros v Hv. discriminate Hv. Qed.
  Lemma rec_cancel_ready tr x k sg : t_state x = TReady k sg -> rec_TP tr x -> rec_TP tr (with_ts x (TReady k (SThrow XCancelled))).
  Proof. unfold rec_TP. intros E H. rewrite E in H. cbn. eapply rk_nonval; [|exact H]. intros v Hv. discriminate Hv. Qed.
  Lemma rec_cancel_wait tr x w k : t_state x = TWait w k -> rec_TP tr x -> rec_TP tr (with_ts x (TReady k (SThrow XCancelled))).
  Proof. unfold rec_TP. intros E H. rewrite E in H. cbn. eapply rk_nonval; [|exact H]. intros v Hv. discriminate Hv. Qed.

  Lemma rec_single tr f i nm h : recf tr f -> (match f with FRecAfterIter _ _ _ _ _ => False | _ => True end) ->
    rec_TP tr {| t_id := i; t_name := nm; t_state := TReady [f] SGo; t_helper := h |}.
  Proof.
    intros H Hn. unfold rec_TP. cbn. split; [split; [exact I|intros g [<-|[]]; exact H]|]. destruct f; try exact I. contradiction.
  Qed.

  Ltac rec_prims tr :=
    repeat first
           [ assumption
           | apply (ok_notify (rec_TP tr) (rec_wake tr)) | apply (ok_notify_keys (rec_TP tr) (rec_wake tr)) | apply (ok_set_event (rec_TP tr) (rec_wake tr))
           | apply (ok_cancel_tasks (rec_TP tr) (rec_cancel_ready tr) (rec_cancel_wait tr)) | apply (ok_cancel_task (rec_TP tr) (rec_cancel_ready tr) (rec_cancel_wait tr))
           | apply (ok_finally_a (rec_TP tr) (rec_wake tr)) | apply (ok_finally_b (rec_TP tr) (rec_wake tr))
           | apply ok_emit_obs | apply ok_with_store | apply ok_bump | apply ok_set_adddata | apply ok_push_ready | apply ok_fold_hide
           | apply (ok_wake_all (rec_TP tr) (rec_wake tr)) ].

  (* all tasks of the table keep the invariant w.r.t. the history AFTER the step; the task _run_node creates for the loop
     starts from the marker the same step stores *)
  Lemma step_rec_tasks t fr sg st :
    tasks_ok (rec_TP (st_trace st)) st -> tasks_ok (rec_TP (st_trace (fst (step_frame P t fr sg st)))) (fst (step_frame P t fr sg st)).
  Proof.
    intros H.
    destruct (ev_trace _ _ (ev_step_frame P t fr sg st)) as [new Etr].
    apply (tasks_rec_mono new) in H. rewrite <- Etr in H. clear Etr new.
    remember (st_trace (fst (step_frame P t fr sg st))) as TR eqn:ETR.
    destruct fr; destruct sg; cbn [step_frame] in *; unfold default_or_raise, reduced in *;
      repeat break_match; spawn_norm; cbn [fst] in *;
      repeat match goal with
             | |- tasks_ok _ (fst (spawn _ _ _ _)) =>
               apply ok_spawn; [|apply rec_single; [cbn [recf]; first [exact I | split; [assumption|rewrite ETR; cbn [st_trace emit_obs with_store fst spawn]; left; reflexivity]]|exact I]]
             | _ => progress rec_prims TR
             end.
  Qed.

  Lemma step_recf t fr sg st f :
    recf (st_trace st) fr -> topR (st_trace st) fr (Some sg) -> In f (dir_frames (snd (step_frame P t fr sg st))) ->
    recf (st_trace (fst (step_frame P t fr sg st))) f.
  Proof.
    intros Hfr Htop.
    destruct (ev_trace _ _ (ev_step_frame P t fr sg st)) as [new Etr]. rewrite Etr. clear Etr. intros Hin0. apply recf_mono. revert Hin0. revert Hfr Htop.
    destruct fr; destruct sg; cbn [step_frame]; unfold default_or_raise, reduced; repeat break_match;
      unfold emit_frames; cbn [snd dir_frames]; intros Hfr Htop Hin;
      repeat (destruct Hin as [Hin|Hin]; [subst f; cbn [recf topR] in *; try exact I|]); try contradiction.
    - (* _run_recurrent_subgraph entered *)
      split; [exact Hfr|]. split; [assumption|]. split; [reflexivity|]. unfold maxit.
      match goal with Hq : na_maxit _ = _ |- _ => rewrite Hq end. lia.
    - split; [exact Hfr|]. split; [assumption|]. split; [reflexivity|]. unfold maxit.
      match goal with Hq : na_maxit _ = _ |- _ => rewrite Hq end. lia.
    - (* an iteration starts *)
      destruct Hfr as (A & B & C & D). split; [exact B|]. split; [exact C|exact D].
    - (* the destination asked for another iteration *)
      destruct Hfr as (B & C & D). split.
      + split; [match goal with Hq : negb (is_rec _) = false |- _ => apply negb_false_iff in Hq; exact Hq end|].
        destruct (Htop v eq_refl) as [Hs|Hs]; [exact Hs|].
        subst v. match goal with Hq : negb (is_rec VNone) = false |- _ => discriminate Hq end.
      + split; [exact B|]. split; [exact C|lia].
  Qed.

  (* ---- additional_data ---- *)
  Definition AdI (st : mstate) : Prop :=
    forall s v, alookup key_eqb s (st_adddata st) = Some v ->
      exists n res, na_start (nattr_of G n) = Some s /\ marker_of (st_trace st) n res /\ v = rec_data res.
  Definition Ar (st st' : mstate) : Prop := AdI st -> AdI st'.
  Lemma Ar_refl st : Ar st st. Proof. intros H. exact H. Qed.
  Lemma Ar_trans a b c : Ar a b -> Ar b c -> Ar a c. Proof. unfold Ar. auto. Qed.
  Lemma Ar_grow st st' new : st_adddata st' = st_adddata st -> st_trace st' = new ++ st_trace st -> Ar st st'.
  Proof.
    intros E1 E2 H s v Hl. rewrite E1 in Hl. destruct (H s v Hl) as [n [res (A & B & C)]]. exists n, res. split; [exact A|]. split; [|exact C].
    rewrite E2. apply marker_mono. exact B.
  Qed.
  Lemma Ar_same st st' : st_adddata st' = st_adddata st -> st_trace st' = st_trace st -> Ar st st'.
  Proof. intros E1 E2. apply (Ar_grow st st' []); assumption. Qed.
  Lemma Ar_bump c st : Ar st (bump c st). Proof. apply Ar_same; reflexivity. Qed.
  Lemma Ar_with_store f st : Ar st (with_store f st). Proof. apply Ar_same; reflexivity. Qed.
  Lemma Ar_push_ready t st : Ar st (push_ready t st). Proof. apply Ar_same; reflexivity. Qed.
  Lemma Ar_set_waiters w st : Ar st (set_waiters w st). Proof. apply Ar_same; reflexivity. Qed.
  Lemma Ar_set_tstate t ts st : Ar st (set_tstate t ts st). Proof. apply Ar_same; reflexivity. Qed.
  Lemma Ar_add_event n st : Ar st (add_event n st). Proof. apply Ar_same; reflexivity. Qed.
  Lemma Ar_emit o st : Ar st (emit_obs o st). Proof. apply (Ar_grow _ _ [o]); reflexivity. Qed.
  Lemma Ar_spawn nm h k st : Ar st (fst (spawn nm h k st)). Proof. apply (Ar_grow _ _ [OSpawn (st_next st) nm]); reflexivity. Qed.
  Definition Ar_notify := R_notify Ar Ar_trans Ar_push_ready Ar_set_waiters Ar_set_tstate.
  Definition Ar_wake_all := R_wake_all Ar Ar_trans Ar_push_ready Ar_set_waiters Ar_set_tstate.
  Definition Ar_notify_keys := R_notify_keys Ar Ar_trans Ar_push_ready Ar_set_waiters Ar_set_tstate.
  Definition Ar_set_event := R_set_event Ar Ar_trans Ar_push_ready Ar_set_waiters Ar_set_tstate Ar_add_event.
  Definition Ar_cancel_task := R_cancel_task Ar Ar_trans Ar_push_ready Ar_set_waiters Ar_set_tstate.
  Definition Ar_cancel_tasks := R_cancel_tasks Ar Ar_trans Ar_push_ready Ar_set_waiters Ar_set_tstate.
  Definition Ar_finally_a := R_finally_a Ar Ar_trans Ar_push_ready Ar_set_waiters Ar_set_tstate Ar_add_event.
  Definition Ar_finally_b := R_finally_b P Ar Ar_trans Ar_push_ready Ar_set_waiters Ar_set_tstate Ar_add_event.
  Lemma Ar_fold_hide (l : list key) st0 st : Ar st0 st -> Ar st0 (fold_left (fun s k => emit_obs (OHide k) s) l st).
  Proof. revert st. induction l as [|k r IH]; intros st H; cbn [fold_left]; [exact H|]. apply IH. eapply Ar_trans; [exact H|]. apply Ar_emit. Qed.

  Lemma Ar_set_adddata s n res st :
    na_start (nattr_of G n) = Some s -> marker_of (st_trace st) n res -> Ar st (set_adddata s (rec_data res) st).
  Proof.
    intros Hs Hm H s' v Hl. cbn [set_adddata st_adddata st_trace] in *.
    destruct (key_eqb s' s) eqn:E.
    - apply key_eqb_spec in E. subst s'. rewrite (alookup_aset_same key_eqb key_eqb_spec) in Hl. inversion Hl; subst. exists n, res. auto.
    - apply H. rewrite (alookup_aset_other key_eqb key_eqb_spec) in Hl; [exact Hl|]. intros ->. rewrite key_eqb_refl in E. discriminate E.
  Qed.

  Ltac ar_prims :=
    repeat first
           [ apply Ar_refl
           | apply Ar_notify | apply Ar_notify_keys | apply Ar_set_event | apply Ar_cancel_tasks | apply Ar_cancel_task
           | apply Ar_finally_a | apply Ar_finally_b | apply Ar_wake_all | apply Ar_fold_hide
           | (eapply Ar_trans; [|apply Ar_bump]) | (eapply Ar_trans; [|apply Ar_push_ready]) | (eapply Ar_trans; [|apply Ar_with_store])
           | (eapply Ar_trans; [|apply Ar_spawn]) | (eapply Ar_trans; [|apply Ar_emit]) ].

  Lemma step_Ar t fr sg st : recf (st_trace st) fr -> Ar st (fst (step_frame P t fr sg st)).
  Proof.
    intros Hfr. destruct fr; destruct sg; cbn [step_frame]; unfold default_or_raise, reduced; repeat break_match; spawn_norm; cbn [fst];
      try solve [ar_prims].
    cbn [recf] in Hfr. destruct Hfr as (A & B & _). exact (Ar_set_adddata _ _ _ st B A).
  Qed.

  Theorem creach_rec : forall st c, creach P st c ->
    tasks_ok (rec_TP (st_trace st)) st /\
    (match c with Some (_, k, sg) => rk_ok (st_trace st) k (Some sg) | None => True end) /\
    AdI st.
  Proof.
    intros st c H.
    induction H as [|st t rest x k sg H IH Hq Hf Ht|st t rest H IH Hq|st t fr rest sg H IH|st t sg H IH|st c H IH|st g H IH|st H IH].
    - split; [|split; [exact I|]].
      + unfold tasks_ok, init_state. cbn. constructor; [|constructor]. apply rec_single; exact I.
      + intros s v Hl. cbn in Hl. discriminate Hl.
    - destruct IH as (A & _ & Hd). split; [|split; [|exact Hd]].
      + change (tasks_ok (rec_TP (st_trace st)) (dequeue st)). apply ok_dequeue. exact A.
      + destruct (find_task_in _ _ _ Hf) as [Hin _]. unfold tasks_ok in A. rewrite Forall_forall in A. specialize (A x Hin). unfold rec_TP in A. rewrite Ht in A. exact A.
    - destruct IH as (A & _ & Hd). split; [|split; [exact I|exact Hd]].
      change (tasks_ok (rec_TP (st_trace st)) (dequeue st)). apply ok_dequeue. exact A.
    - destruct IH as (A & ((Bp & Bf) & Bt) & Hd).
      pose proof (creach_store P _ _ H) as HI.
      pose proof (Bf fr (or_introl eq_refl)) as Bfr. cbn [topCR] in Bt.
      destruct (step_pairsR t fr sg st) as (Hp1 & Hp2 & Hp3).
      pose proof (step_topR t fr sg st HI Bt) as Htop.
      pose proof (step_rec_tasks t fr sg st A) as A1.
      pose proof (step_Ar t fr sg st Bfr Hd) as Hd1.
      destruct (ev_trace _ _ (ev_step_frame P t fr sg st)) as [new Etr].
      assert (Hpk : pairsP adjR (dir_frames (snd (step_frame P t fr sg st)) ++ rest)) by (apply (pairsP_app adjR fr); assumption).
      assert (Hrf : forall f, In f (dir_frames (snd (step_frame P t fr sg st)) ++ rest) -> recf (st_trace (fst (step_frame P t fr sg st))) f).
      { intros f Hin. apply in_app_or in Hin. destruct Hin as [Hin|Hin].
        - exact (step_recf t fr sg st f Bfr Bt Hin).
        - rewrite Etr. apply recf_mono. apply Bf. right. exact Hin. }
      assert (Had : st_adddata (fst (after_step t rest (step_frame P t fr sg st))) = st_adddata (fst (step_frame P t fr sg st)))
        by (destruct (step_frame P t fr sg st) as [st1 [w k'|k'|k' sg'|sg']]; reflexivity).
      assert (Hd2 : AdI (fst (after_step t rest (step_frame P t fr sg st)))).
      { intros s v Hl. rewrite Had in Hl. rewrite trace_after_step'. exact (Hd1 s v Hl). }
      rewrite !trace_after_step'.
      destruct (step_frame P t fr sg st) as [st1 [w k'|k'|k' sg'|sg']]; cbn [after_step fst snd dir_frames dir_ne top_afterR] in *.
      + split; [|split; [exact I|exact Hd2]]. apply ok_suspend; [exact A1|]. intros y _ _. unfold rec_TP. cbn.
        destruct k' as [|f1 k'']; [discriminate Hp3|]. split; [split; [exact Hpk|exact Hrf]|exact Htop].
      + split; [|split; [exact I|exact Hd2]]. apply ok_push_ready. apply ok_set_tstate; [exact A1|]. intros y _ _. unfold rec_TP. cbn.
        destruct k' as [|f1 k'']; [discriminate Hp3|]. split; [split; [exact Hpk|exact Hrf]|exact Htop].
      + split; [exact A1|split; [|exact Hd2]].
        destruct k' as [|f1 k'']; [discriminate Hp3|]. split; [split; [exact Hpk|exact Hrf]|exact Htop].
      + split; [exact A1|split; [|exact Hd2]].
        split; [split; [exact (pairsP_tail adjR _ _ Bp)|exact Hrf]|].
        destruct rest as [|g r]; [exact I|]. cbn [topCR].
        pose proof (pairsP_head adjR _ _ _ Bp) as Hadj.
        destruct g; cbn [topR]; try exact I.
        intros res Hs. inversion Hs; subst sg'.
        pose proof (Htop res eq_refl _ Hadj) as Hb. cbn [belowR] in Hb. apply Hb.
        pose proof (Bf _ (or_intror (or_introl eq_refl))) as Hg. cbn [recf] in Hg. apply Hg.
    - destruct IH as (A & _ & Hd). split; [|split; [exact I|exact Hd]]. apply ok_set_tstate; [exact A|]. intros y _ _. exact I.
    - destruct IH as (A & _ & Hd). split; [|split; [exact I|]].
      + apply ok_abort; [|exact A]. intros y k0 _. exact I.
      + intros s v Hl. exact (Hd s v Hl).
    - destruct IH as (A & _ & Hd). unfold complete_gate. rewrite trace_wake_all. split; [|split; [exact I|]].
      + apply (complete_gate_tasks_ok (rec_TP _) (rec_wake _)). exact A.
      + exact (Ar_wake_all _ _ st st (Ar_refl st) Hd).
    - destruct IH as (A & _ & Hd). rewrite trace_cancel_task. split; [|split; [exact I|]].
      + apply (ok_cancel_task (rec_TP _) (rec_cancel_ready _) (rec_cancel_wait _)). exact A.
      + exact (Ar_cancel_task _ st st (Ar_refl st) Hd).
  Qed.
End RecAll.

(* [maxit P n] = max_iterations of the recurrent subgraph whose destination is n *)
Theorem recurrent_loops_are_bounded_all_programs P :
  forall st x f, reachable P st -> In x (st_tasks st) -> In f (estack (t_state x)) ->
    match f with
    | FRecLoop _ n _ _ r _ => r <= maxit P n
    | FRecAfterIter _ n _ _ r => S r <= maxit P n
    | _ => True
    end.
Proof.
  intros st x f Hr Hx Hf. destruct (creach_rec P st None (reachable_creach P st Hr)) as (A & _ & _).
  unfold tasks_ok in A. rewrite Forall_forall in A. specialize (A x Hx). unfold rec_TP in A.
  assert (Hrf : recf P (st_trace st) f).
  { destruct (t_state x) as [k sg|w k|r]; cbn [estack] in Hf; [| |contradiction]; destruct A as ((_ & B) & _); exact (B f Hf). }
  destruct f; try exact I; cbn [recf] in Hrf; apply Hrf.
Qed.

(* a loop is driven only by Recurrent markers the destination stored *)
Theorem recurrent_loops_are_driven_by_stored_markers_all_programs P :
  forall st x f, reachable P st -> In x (st_tasks st) -> In f (estack (t_state x)) ->
    match f with
    | FRecStart _ n res | FRecLoop _ n _ _ _ res => is_rec res = true /\ In (OSetResult n res) (st_trace st)
    | _ => True
    end.
Proof.
  intros st x f Hr Hx Hf. destruct (creach_rec P st None (reachable_creach P st Hr)) as (A & _ & _).
  unfold tasks_ok in A. rewrite Forall_forall in A. specialize (A x Hx). unfold rec_TP in A.
  assert (Hrf : recf P (st_trace st) f).
  { destruct (t_state x) as [k sg|w k|r]; cbn [estack] in Hf; [| |contradiction]; destruct A as ((_ & B) & _); exact (B f Hf). }
  destruct f; try exact I; cbn [recf] in Hrf; apply Hrf.
Qed.

(* the additional_data of a start node is the payload of a Recurrent marker that a destination of a subgraph starting there stored *)
Theorem additional_data_is_the_payload_of_a_stored_marker_all_programs P :
  forall st, reachable P st ->
    forall s v, alookup key_eqb s (st_adddata st) = Some v ->
      exists n res, na_start (nattr_of (b_graph (build (p_decls P) (p_inp P) (p_out P))) n) = Some s /\
                    is_rec res = true /\ In (OSetResult n res) (st_trace st) /\ v = rec_data res.
Proof.
  intros st Hr s v Hl. destruct (creach_rec P st None (reachable_creach P st Hr)) as (_ & _ & Hd).
  destruct (Hd s v Hl) as [n [res (A & (B & C) & D)]]. exists n, res. auto.
Qed.
