(* Plain programs, every schedule, managers that do not raise: on_pipeline_complete comes after everything else (C14).
   Once the chart task has left manager.run() (or failed before entering it) every helper task is finished or has a
   CancelledError pending, and a task with a CancelledError pending reports nothing; so from the first on_pipeline_complete
   callback on, the history grows by on_pipeline_complete callbacks only. *)
From MLPE Require Import Engine.Run Proofs.ExecLemmas Proofs.Evolve Proofs.StackInv Proofs.ReadyInv Proofs.WaitInv Explore.StateEq
     Proofs.ProcessedInv Proofs.PlainWorld Proofs.PlainLaunch Proofs.PlainLive Proofs.Micro Proofs.PlainBase Proofs.PlainCore Proofs.PlainInv
     Proofs.PlainRoles Proofs.PlainExec Proofs.PlainArgs Proofs.PlainWait Proofs.PlainDeadlock Proofs.CancelProofs Proofs.PlainPipe
     Proofs.AssocLemmas.

Definition early_k (k : list frame) : bool :=
  match k with FChartStart :: _ | FEmit EvPipelineStart _ _ _ _ _ :: _ | FChartAfterStart :: _ => true | _ => false end.
Definition past_k (k : list frame) : bool :=
  match k with
  | FChartAfterRun :: _ | FChartAfterEmitOk _ :: _ | FChartAfterEmitErr _ :: _ | FEmit EvPipelineComplete _ _ _ _ _ :: _ => true
  | _ => false
  end.
(* 0: before manager.run(); 1: inside; 2: after (or ended) *)
Definition ph_k (k : list frame) : nat := if early_k k then 0 else if past_k k then 2 else 1.
Definition ph_ts (ts : tstate frame) : nat := match ts with TDone _ => 2 | TReady k _ | TWait _ k => ph_k k end.

Definition is_pc_any (o : obs) : bool := match o with OEmit _ EvPipelineComplete _ _ _ => true | _ => false end.

Section CancelledSteps.
  Variable P : prog.
  Notation G := (b_graph (build (p_decls P) (p_inp P) (p_out P))).
  Hypothesis Hsw : forall n, is_switch G n = false.
  Hypothesis Hhd : forall n, is_head G n = false.

  (* a helper task with a CancelledError pending: the step reports nothing, creates nothing and passes the error on *)
  Lemma plain_step_cancelled nm t fr st :
    plain_frame P fr = true -> PS st -> nm <> TNMain -> owner nm fr = true ->
    st_trace (fst (step_frame P t fr (SThrow XCancelled) st)) = st_trace st /\
    snd (step_frame P t fr (SThrow XCancelled) st) = DRet (SThrow XCancelled) /\
    creates P fr (SThrow XCancelled) st = [].
  Proof.
    intros Hf Hst Hnm Ho. pose proof Hst as Hst'. unfold PS in Hst'.
    destruct nm; try contradiction; try discriminate Ho; cbn [owner] in Ho;
      destruct fr; try discriminate Hf; try discriminate Ho; cbn [plain_frame] in Hf;
      repeat match goal with
             | H : (_ && _)%bool = true |- _ => apply andb_true_iff in H; destruct H
             | H : is_main P ?d = true |- _ => apply is_main_eq in H; subst d
             | H : negb ?f = true |- _ => apply negb_true_iff in H; subst f
             | H : ?u = true |- _ => is_var u; subst u
             end;
      cbn [step_frame creates is_Exception]; repeat break_match; cbn [fst snd]; autorewrite with core; repeat split; reflexivity.
  Qed.
End CancelledSteps.

Definition stack_of (ts : tstate frame) : option (list frame) := match ts with TReady k _ | TWait _ k => Some k | TDone _ => None end.
Definition ph_o (o : option (list frame)) : nat := match o with Some k => ph_k k | None => 2 end.
Lemma ph_ts_stack ts : ph_ts ts = ph_o (stack_of ts).
Proof. destruct ts; reflexivity. Qed.

Definition TPk (k0 : option (list frame)) (x : task frame) : Prop := t_name x = TNMain -> stack_of (t_state x) = k0.
Lemma TPk_wake k0 x w k : t_state x = TWait w k -> TPk k0 x -> TPk k0 (with_ts x (TReady k SGo)).
Proof. unfold TPk. intros E H Hn. cbn in *. rewrite <- (H Hn), E. reflexivity. Qed.
Lemma TPk_cancel_ready k0 x k sg : t_state x = TReady k sg -> TPk k0 x -> TPk k0 (with_ts x (TReady k (SThrow XCancelled))).
Proof. unfold TPk. intros E H Hn. cbn in *. rewrite <- (H Hn), E. reflexivity. Qed.
Lemma TPk_cancel_wait k0 x w k : t_state x = TWait w k -> TPk k0 x -> TPk k0 (with_ts x (TReady k (SThrow XCancelled))).
Proof. unfold TPk. intros E H Hn. cbn in *. rewrite <- (H Hn), E. reflexivity. Qed.

Definition main_eff (st : mstate) (c : running) : option (tstate frame) :=
  match c with
  | Some (t, k, sg) => if Nat.eqb t main_tid then Some (cstate k sg) else main_state st
  | None => main_state st
  end.
Definition quiet (st : mstate) (c : running) : Prop :=
  all_cancelled st /\ match c with Some (t, _, sg) => t <> main_tid -> sg = SThrow XCancelled | None => True end.

Lemma main_state_set ts (st : mstate) x : find_task main_tid (st_tasks st) = Some x -> main_state (set_tstate main_tid ts st) = Some ts.
Proof.
  intros F. unfold main_state, set_tstate. cbn [st_tasks]. erewrite find_upd_same; [reflexivity|intros y; reflexivity|exact F].
Qed.
Lemma main_state_set_other t ts (st : mstate) : t <> main_tid -> main_state (set_tstate t ts st) = main_state st.
Proof.
  intros Hne. unfold main_state, set_tstate. cbn [st_tasks]. rewrite find_upd_other; [reflexivity|intros y; reflexivity|intros E; apply Hne; symmetry; exact E].
Qed.

Lemma only_main_cancelled st : evolves (init_state) st -> names st = [TNMain] -> all_cancelled st.
Proof.
  intros He Hn. destruct (evolved_shape st He) as [x [rest [T [Hid _]]]]. unfold names in Hn. rewrite T in Hn. cbn [map] in Hn.
  destruct rest; [|discriminate Hn]. unfold all_cancelled, tasks_ok. rewrite T. constructor; [|constructor]. intros Hc. contradiction.
Qed.

Section QuietInv.
  Variable P : prog.
  Notation G := (b_graph (build (p_decls P) (p_inp P) (p_out P))).
  Notation M := (p_mgrs P).
  Hypothesis Hsw : forall n, is_switch G n = false.
  Hypothesis Hhd : forall n, is_head G n = false.
  Hypothesis Hbody : forall i kw a v, p_body P i kw a = OVal v -> clean v = true.
  Hypothesis Hnf : forall m ev n k, p_mgr_fault P m ev n k = false.

  Ltac shape H :=
    repeat (cbn [mk] in H; try contradiction;
            match type of H with context [match ?x with _ => _ end] => destruct x end); cbn [mk] in H; try contradiction.

  (* how the chart task moves through the phases *)
  Lemma main_step_phase js jc pay t fr rest sg st :
    main_ok P js jc pay (TReady (fr :: rest) sg) -> handled fr sg = true ->
    (ph_ts (nstate rest (snd (step_frame P t fr sg st))) = 0 -> ph_k (fr :: rest) = 0 /\ creates P fr sg st = []) /\
    (ph_ts (nstate rest (snd (step_frame P t fr sg st))) = 2 ->
       (ph_k (fr :: rest) <> 1 /\ creates P fr sg st = []) \/
       (fr = FRunWait /\ leaves_run fr sg (snd (step_frame P t fr sg st)) = true)).
  Proof.
    intros [Hnr H] Hh. cbn [main_ok] in *. shape H;
      destruct sg as [|v0| |e0|e0]; try discriminate Hh; try (exfalso; exact (Hnr e0 eq_refl));
      try match goal with r : bool |- context [FEmit _ _ _ _ _ ?r] => destruct r end;
      cbn [step_frame creates]; rewrite ?Hnf; unfold reduced; repeat break_match; spawn_norm;
      cbn [fst snd nstate app ph_ts ph_k early_k past_k leaves_run emit_frames];
      (split; intros Hx; try discriminate Hx;
       first [ split; reflexivity
             | left; split; [intros Hc; discriminate Hc|reflexivity]
             | right; split; reflexivity ]).
  Qed.

  Lemma run_leave_cancelled t sg st :
    NoDup (map (@t_id frame) (st_tasks st)) -> stacks_ok st ->
    leaves_run FRunWait sg (snd (step_frame P t FRunWait sg st)) = true -> all_cancelled (fst (step_frame P t FRunWait sg st)).
  Proof.
    intros Hnd Hs. destruct sg; cbn [step_frame]; repeat break_match; cbn [fst snd leaves_run]; intros Hl; try discriminate Hl;
      apply cancel_all_helpers; assumption.
  Qed.

  Definition QI (st : mstate) (c : running) : Prop :=
    forall ts, main_eff st c = Some ts -> (ph_ts ts = 0 -> names st = [TNMain]) /\ (ph_ts ts = 2 -> quiet st c).

  Lemma find_main st : evolves (init_state) st -> exists xm, find_task main_tid (st_tasks st) = Some xm /\ In xm (st_tasks st) /\ t_name xm = TNMain.
  Proof.
    intros He. destruct (evolved_shape st He) as [x [rest [T [Hid _]]]]. exists x.
    assert (F : find_task main_tid (st_tasks st) = Some x) by (rewrite T; cbn [find_task]; rewrite Hid; reflexivity).
    split; [exact F|]. destruct (find_task_in _ _ _ F) as [Hin _]. split; [exact Hin|exact (main_named st x He Hin Hid)].
  Qed.

  (* the chart task's stack is touched by nobody else *)
  Lemma main_stack_preserved st st' :
    evolves (init_state) st -> evolves (init_state) st' -> tasks_ok mainname_TP st ->
    (forall k0, tasks_ok (TPk k0) st -> tasks_ok (TPk k0) st') ->
    forall ts', main_state st' = Some ts' -> exists ts, main_state st = Some ts /\ stack_of ts' = stack_of ts.
  Proof.
    intros He He' Hmn Hpres ts' Hm'. destruct (find_main st He) as [xm [F [Hin Hnm]]]. destruct (find_task_in _ _ _ F) as [_ Hid].
    exists (t_state xm). split; [unfold main_state; rewrite F; reflexivity|].
    assert (HK : tasks_ok (TPk (stack_of (t_state xm))) st).
    { unfold tasks_ok in *. rewrite Forall_forall in *. intros y Hy Hn. pose proof (Hmn y Hy Hn) as Hiy.
      destruct (evolved_shape st He) as [x0 [r0 [_ [_ [_ [_ [Hnd _]]]]]]].
      rewrite (nodup_ids_inj _ y xm Hnd Hy Hin); [reflexivity|congruence]. }
    specialize (Hpres _ HK). unfold main_state in Hm'. destruct (find_task main_tid (st_tasks st')) as [x'|] eqn:F'; [|discriminate Hm'].
    cbn in Hm'. inversion Hm'; subst ts'. destruct (find_task_in _ _ _ F') as [Hin' Hid'].
    unfold tasks_ok in Hpres. rewrite Forall_forall in Hpres. exact (Hpres x' Hin' (main_named st' x' He' Hin' Hid')).
  Qed.

  Lemma helper_excludes_only_main st x0 : In x0 (st_tasks st) -> t_name x0 <> TNMain -> names st <> [TNMain].
  Proof.
    intros Hin Hnm Hn. unfold names in Hn. apply (in_map (@t_name frame)) in Hin. rewrite Hn in Hin. destruct Hin as [E|[]]. apply Hnm. symmetry. exact E.
  Qed.

  Lemma cancelled_sig st x k sg : all_cancelled st -> In x (st_tasks st) -> t_id x <> main_tid -> t_state x = TReady k sg -> sg = SThrow XCancelled.
  Proof.
    intros Ha Hin Hid Hs. unfold all_cancelled, tasks_ok in Ha. rewrite Forall_forall in Ha. specialize (Ha x Hin Hid). rewrite Hs in Ha.
    destruct sg; try contradiction. destruct e; try contradiction. reflexivity.
  Qed.

  Lemma ph_cases k : ph_k k = 0 \/ ph_k k = 1 \/ ph_k k = 2.
  Proof. unfold ph_k. destruct (early_k k); [auto|]. destruct (past_k k); auto. Qed.

  Theorem creach_quiet : forall st c, creach P st c -> QI st c.
  Proof.
    intros st c H. pose proof (creach_base P Hsw Hhd Hbody st c H) as Hb0.
    induction H as [|st t rest x k sg H IH Hq Hf Ht|st t rest H IH Hq|st t fr rest sg H IH|st t sg H IH|st c H IH|st g H IH|st H IH].
    - intros ts Hm. cbn in Hm. inversion Hm; subst ts. split; [intros _; reflexivity|intros Hx; discriminate Hx].
    - pose proof (creach_base P Hsw Hhd Hbody _ _ H) as Hb. specialize (IH Hb). intros ts Hm. cbn [main_eff] in Hm.
      destruct (find_task_in _ _ _ Hf) as [Hin Hid].
      destruct (Nat.eqb_spec t main_tid) as [->|Hne].
      + pose proof (b_stacks _ _ _ Hb) as Hs. unfold stacks_ok, tasks_ok in Hs. rewrite Forall_forall in Hs.
        destruct (Hs x Hin) as [_ Hx]. rewrite Ht in Hx. destruct Hx as [[Hk _] _].
        assert (Hts : ts = TReady k sg) by (destruct k; [contradiction|cbn in Hm; inversion Hm; reflexivity]). subst ts.
        destruct (IH (TReady k sg)) as [A0 A2]; [cbn [main_eff]; unfold main_state; rewrite Hf; cbn; rewrite Ht; reflexivity|].
        split; [exact A0|]. intros Hp. destruct (A2 Hp) as [Q1 _]. split; [exact Q1|intros Hc; contradiction].
      + destruct (IH ts Hm) as [A0 A2]. split; [exact A0|]. intros Hp. destruct (A2 Hp) as [Q1 _]. split; [exact Q1|].
        intros _. rewrite <- Hid in Hne. exact (cancelled_sig st x k sg Q1 Hin Hne Ht).
    - pose proof (creach_base P Hsw Hhd Hbody _ _ H) as Hb. exact (IH Hb).
    - (* one frame step *)
      pose proof (creach_base P Hsw Hhd Hbody _ _ H) as Hb. specialize (IH Hb).
      pose proof (creach_mainname P Hsw Hhd Hbody _ _ H) as Hmn.
      destruct (b_cur _ _ _ Hb) as [x0 [Hf0 [Hk [Hs [Ho _]]]]]. cbn [plain_stack forallb] in Hk, Ho. apply andb_true_iff in Hk. destruct Hk as [Kf Kr].
      apply andb_true_iff in Ho. destruct Ho as [Of Or]. pose proof (b_ps _ _ _ Hb) as Hps.
      destruct (find_task_in _ _ _ Hf0) as [Hin0 Hid0].
      destruct (creach_typed P Hsw Hhd Hbody _ _ H) as [_ Hty]. cbn [typed_cur typed_stack] in Hty.
      pose proof (ev_step_frame P t fr sg st) as Hev. pose proof (evolves_trans _ _ _ (b_ev _ _ _ Hb) Hev) as Hev1.
      pose proof (plain_step_names P Hsw Hhd t fr sg st Kf Hs Hps) as Hnames.
      destruct (Nat.eqb_spec t main_tid) as [->|Hne].
      + (* the chart task *)
        destruct (creach_pipe P Hsw Hhd Hbody Hnf _ _ H) as [js [jc [pay [_ HT]]]]. cbn [cstate] in HT. rewrite Nat.eqb_refl in HT.
        destruct (IH (TReady (fr :: rest) sg)) as [A0 A2]; [cbn [main_eff cstate]; rewrite Nat.eqb_refl; reflexivity|]. cbn [ph_ts] in A0, A2.
        destruct (main_step_phase js jc pay main_tid fr rest sg st HT Hty) as [B0 B2].
        assert (Hts : main_eff (fst (after_step main_tid rest (step_frame P main_tid fr sg st))) (snd (after_step main_tid rest (step_frame P main_tid fr sg st)))
                      = Some (nstate rest (snd (step_frame P main_tid fr sg st)))).
        { destruct (evolves_find _ _ _ _ Hev Hf0) as [x' [Hf' _]].
          destruct (step_frame P main_tid fr sg st) as [st1 [w k'|k'|k' sg'|sg']]; cbn [after_step fst snd nstate main_eff cstate] in *.
          - unfold suspend. exact (main_state_set (TWait w (k' ++ rest)) st1 x' Hf').
          - exact (main_state_set (TReady (k' ++ rest) SGo) st1 x' Hf').
          - rewrite Nat.eqb_refl. reflexivity.
          - rewrite Nat.eqb_refl. reflexivity. }
        intros ts Hm. rewrite Hts in Hm. inversion Hm; subst ts. split.
        * intros Hp. destruct (B0 Hp) as [Hp0 Hc]. rewrite names_after_step, Hnames, Hc, app_nil_r. exact (A0 Hp0).
        * intros Hp.
          assert (Hall : all_cancelled (fst (step_frame P main_tid fr sg st))).
          { destruct (B2 Hp) as [[Hp1 Hc]|[-> Hl]].
            - destruct (ph_cases (fr :: rest)) as [E|[E|E]]; [|contradiction|].
              + apply only_main_cancelled; [exact Hev1|]. rewrite Hnames, Hc, app_nil_r. exact (A0 E).
              + destruct (A2 E) as [Q1 _]. exact (plain_step_tasks_nospawn P Hsw Hhd cancelled_TP cancelled_wake cancelled_cancel_ready cancelled_cancel_wait main_tid fr sg st Kf Hs Hps Hc Q1).
            - apply run_leave_cancelled; [exact (base_nodup P _ _ Hb)|exact (b_stacks _ _ _ Hb)|exact Hl]. }
          destruct (step_frame P main_tid fr sg st) as [st1 [w k'|k'|k' sg'|sg']]; cbn [after_step fst snd quiet] in *.
          -- split; [|exact I]. apply ok_suspend; [exact Hall|]. intros y Hy _ Hc. cbn in Hc. destruct (find_task_in _ _ _ Hy) as [_ Hiy]. contradiction.
          -- split; [|exact I]. apply ok_push_ready. apply ok_set_tstate; [exact Hall|]. intros y Hy _ Hc. cbn in Hc. destruct (find_task_in _ _ _ Hy) as [_ Hiy]. contradiction.
          -- split; [exact Hall|intros Hc; contradiction].
          -- split; [exact Hall|intros Hc; contradiction].
      + (* a helper task *)
        assert (Hnm : t_name x0 <> TNMain).
        { intros Hn. unfold tasks_ok in Hmn. rewrite Forall_forall in Hmn. apply Hne. rewrite <- Hid0. exact (Hmn x0 Hin0 Hn). }
        assert (Hsame : main_state (fst (after_step t rest (step_frame P t fr sg st))) = main_state (fst (step_frame P t fr sg st))).
        { destruct (step_frame P t fr sg st) as [st1 [w k'|k'|k' sg'|sg']]; cbn [after_step fst]; try reflexivity.
          - unfold suspend. exact (main_state_set_other t _ st1 Hne).
          - exact (main_state_set_other t _ st1 Hne). }
        assert (Heff : main_eff (fst (after_step t rest (step_frame P t fr sg st))) (snd (after_step t rest (step_frame P t fr sg st)))
                       = main_state (fst (step_frame P t fr sg st))).
        { rewrite <- Hsame. destruct (step_frame P t fr sg st) as [st1 [w k'|k'|k' sg'|sg']]; cbn [after_step fst snd main_eff]; try reflexivity;
            (apply Nat.eqb_neq in Hne; rewrite Hne; reflexivity). }
        intros ts' Hm'. rewrite Heff in Hm'.
        destruct (main_stack_preserved st (fst (step_frame P t fr sg st)) (b_ev _ _ _ Hb) Hev1 Hmn) with (ts' := ts') as [ts [Hm Hst]]; [|exact Hm'|].
        { intros k0 HK. apply (plain_step_tasks_gen P Hsw Hhd (TPk k0) (TPk_wake k0) (TPk_cancel_ready k0) (TPk_cancel_wait k0)); try assumption.
          - intros i Hx. discriminate Hx.
          - intros i n Hx. discriminate Hx. }
        destruct (IH ts) as [A0 A2]; [cbn [main_eff]; apply Nat.eqb_neq in Hne; rewrite Hne; exact Hm|].
        rewrite ph_ts_stack, Hst, <- ph_ts_stack. split.
        * intros Hp. exfalso. exact (helper_excludes_only_main st x0 Hin0 Hnm (A0 Hp)).
        * intros Hp. destruct (A2 Hp) as [Q1 Q2]. cbn in Q2. pose proof (Q2 Hne) as Esg. subst sg.
          destruct (plain_step_cancelled P (t_name x0) t fr st Kf Hps Hnm Of) as (_ & Ed & Ec).
          pose proof (plain_step_tasks_nospawn P Hsw Hhd cancelled_TP cancelled_wake cancelled_cancel_ready cancelled_cancel_wait t fr (SThrow XCancelled) st Kf Hs Hps Ec Q1) as Hall.
          destruct (step_frame P t fr (SThrow XCancelled) st) as [st1 d]. cbn [snd fst] in *. subst d. cbn [after_step fst snd quiet].
          split; [exact Hall|intros _; reflexivity].
    - (* the task finishes *)
      pose proof (creach_base P Hsw Hhd Hbody _ _ H) as Hb. specialize (IH Hb). intros ts Hm. cbn [main_eff] in Hm.
      destruct (Nat.eqb_spec t main_tid) as [->|Hne].
      + destruct (find_main st (b_ev _ _ _ Hb)) as [xm [F _]]. rewrite (main_state_set (TDone sg) st xm F) in Hm. inversion Hm; subst ts.
        destruct (IH (TDone sg)) as [_ A2]; [cbn [main_eff cstate]; rewrite Nat.eqb_refl; reflexivity|].
        split; [intros Hx; discriminate Hx|]. intros _. destruct (A2 eq_refl) as [Q1 _]. split; [|exact I].
        apply ok_set_tstate; [exact Q1|]. intros y Hy _ Hc. cbn in Hc. destruct (find_task_in _ _ _ Hy) as [_ Hiy]. contradiction.
      + rewrite (main_state_set_other t (TDone sg) st Hne) in Hm.
        destruct (IH ts) as [A0 A2]; [cbn [main_eff]; apply Nat.eqb_neq in Hne; rewrite Hne; exact Hm|].
        split; [intros Hp; rewrite <- (A0 Hp); exact (sn_set_tstate t (TDone sg) st)|].
        intros Hp. destruct (A2 Hp) as [Q1 _]. split; [|exact I]. apply ok_set_tstate; [exact Q1|]. intros y _ _ _. exact I.
    - (* abort *)
      pose proof (creach_base P Hsw Hhd Hbody _ _ H) as Hb. intros ts Hm. cbn [main_eff] in Hm.
      assert (Hd : exists r, ts = TDone r).
      { unfold main_state in Hm. destruct (find_task main_tid (st_tasks (abort P st))) as [y|] eqn:F; [|discriminate Hm]. cbn in Hm. inversion Hm; subst ts.
        destruct (find_task_in _ _ _ F) as [Hin _]. unfold abort in Hin. cbn [st_tasks] in Hin. apply in_map_iff in Hin. destruct Hin as [z [<- _]]. cbn. eauto. }
      destruct Hd as [r ->]. split; [intros Hx; discriminate Hx|]. intros _. split; [apply all_cancelled_abort|exact I].
    - (* an external completion *)
      pose proof (creach_base P Hsw Hhd Hbody _ _ H) as Hb. specialize (IH Hb). pose proof (creach_mainname P Hsw Hhd Hbody _ _ H) as Hmn.
      intros ts' Hm'. cbn [main_eff] in Hm'.
      destruct (main_stack_preserved st (complete_gate g st) (b_ev _ _ _ Hb) (evolves_trans _ _ _ (b_ev _ _ _ Hb) (ev_action P (AGate g) st)) Hmn) with (ts' := ts') as [ts [Hm Hst]]; [|exact Hm'|].
      { intros k0 HK. apply (complete_gate_tasks_ok (TPk k0) (TPk_wake k0)). exact HK. }
      destruct (IH ts Hm) as [A0 A2]. rewrite ph_ts_stack, Hst, <- ph_ts_stack. unfold complete_gate. rewrite names_wake_all. split; [exact A0|].
      intros Hp. destruct (A2 Hp) as [Q1 _]. split; [|exact I]. apply (complete_gate_tasks_ok cancelled_TP cancelled_wake). exact Q1.
    - (* the caller cancels *)
      pose proof (creach_base P Hsw Hhd Hbody _ _ H) as Hb. specialize (IH Hb). pose proof (creach_mainname P Hsw Hhd Hbody _ _ H) as Hmn.
      intros ts' Hm'. cbn [main_eff] in Hm'.
      destruct (main_stack_preserved st (cancel_task main_tid st) (b_ev _ _ _ Hb) (evolves_trans _ _ _ (b_ev _ _ _ Hb) (ev_action P ACancel st)) Hmn) with (ts' := ts') as [ts [Hm Hst]]; [|exact Hm'|].
      { intros k0 HK. apply (ok_cancel_task (TPk k0) (TPk_cancel_ready k0) (TPk_cancel_wait k0)). exact HK. }
      destruct (IH ts Hm) as [A0 A2]. rewrite ph_ts_stack, Hst, <- ph_ts_stack. rewrite names_cancel_task. split; [exact A0|].
      intros Hp. destruct (A2 Hp) as [Q1 _]. split; [|exact I]. apply (ok_cancel_task cancelled_TP cancelled_cancel_ready cancelled_cancel_wait). exact Q1.
  Qed.
End QuietInv.

(* ---- on_pipeline_complete comes last ------------------------------------------------------------------------------------------- *)
Definition haspc (tr : list obs) : bool := existsb is_pc_any tr.
Definition last_ok (tr : list obs) : Prop := forall a o b, tr = a ++ o :: b -> is_pc_any o = true -> forallb is_pc_any a = true.

Lemma split_app (new tr a b : list obs) (o : obs) :
  new ++ tr = a ++ o :: b -> (exists a', a = new ++ a' /\ tr = a' ++ o :: b) \/ (exists b', new = a ++ o :: b' /\ b = b' ++ tr).
Proof.
  revert a. induction new as [|x r IH]; intros a E.
  - left. exists a. split; [reflexivity|exact E].
  - destruct a as [|y a'].
    + cbn [app] in E. inversion E; subst. right. exists r. split; reflexivity.
    + cbn [app] in E. inversion E; subst. destruct (IH a' H1) as [[a'' [-> ->]]|[b' [-> ->]]].
      * left. exists a''. split; reflexivity.
      * right. exists b'. split; reflexivity.
Qed.

Lemma last_ok_app new tr :
  last_ok tr -> (forallb is_pc_any new = true \/ (haspc tr = false /\ forallb (fun o => negb (is_pc_any o)) new = true)) -> last_ok (new ++ tr).
Proof.
  intros Hl Hd a o b E Ho. destruct (split_app new tr a b o E) as [[a' [-> Et]]|[b' [En Eb]]].
  - destruct Hd as [Hn|[Hh _]].
    + rewrite forallb_app, Hn. exact (Hl a' o b Et Ho).
    + exfalso. unfold haspc in Hh. rewrite Et, existsb_app in Hh. cbn [existsb] in Hh. rewrite Ho, orb_true_r in Hh. discriminate Hh.
  - destruct Hd as [Hn|[_ Hn]].
    + rewrite En, forallb_app in Hn. apply andb_true_iff in Hn. apply Hn.
    + exfalso. rewrite En, forallb_app in Hn. apply andb_true_iff in Hn. destruct Hn as [_ Hn]. cbn [forallb] in Hn. rewrite Ho in Hn. discriminate Hn.
Qed.

Section LastOrder.
  Variable P : prog.
  Notation G := (b_graph (build (p_decls P) (p_inp P) (p_out P))).
  Notation M := (p_mgrs P).
  Hypothesis Hsw : forall n, is_switch G n = false.
  Hypothesis Hhd : forall n, is_head G n = false.
  Hypothesis Hbody : forall i kw a v, p_body P i kw a = OVal v -> clean v = true.
  Hypothesis Hnf : forall m ev n k, p_mgr_fault P m ev n k = false.

  Ltac shape H :=
    repeat (cbn [mk] in H; try contradiction;
            match type of H with context [match ?x with _ => _ end] => destruct x end); cbn [mk] in H; try contradiction.

  Ltac prefix_of l tr :=
    lazymatch l with
    | tr => constr:(@nil obs)
    | ?x :: ?r => let p := prefix_of r tr in constr:(x :: p)
    end.

  Lemma seen0_nopc tr : seen P is_pc 0 tr -> haspc tr = false.
  Proof.
    intros H. unfold haspc. destruct (existsb is_pc_any tr) eqn:E; [|reflexivity]. exfalso.
    apply existsb_exists in E. destruct E as [o [Hin Ho]]. destruct o; try discriminate Ho. destruct ev; try discriminate Ho.
    pose proof (H mgr) as Hm. cbn in Hm. pose proof (cnt_zero_notin _ _ _ Hm Hin) as F. cbn in F. rewrite Nat.eqb_refl in F. discriminate F.
  Qed.

  (* what one step of the chart task adds: only on_pipeline_complete callbacks, or none while none has been made yet *)
  Lemma main_step_pc js jc pay t fr rest sg st :
    main_ok P js jc pay (TReady (fr :: rest) sg) -> handled fr sg = true ->
    exists new, st_trace (fst (step_frame P t fr sg st)) = new ++ st_trace st /\
                (forallb is_pc_any new = true \/ (jc = 0 /\ forallb (fun o => negb (is_pc_any o)) new = true)).
  Proof.
    intros [Hnr H] Hh. cbn [main_ok] in *. shape H;
      repeat match goal with H0 : _ /\ _ |- _ => destruct H0 end; subst;
      destruct sg as [|v0| |e0|e0]; try discriminate Hh; try (exfalso; exact (Hnr e0 eq_refl));
      try match goal with r : bool |- context [FEmit _ _ _ _ _ ?r] => destruct r end;
      cbn [step_frame]; rewrite ?Hnf; unfold reduced; repeat break_match; spawn_norm; cbn [fst snd];
      autorewrite with core; cbn [st_trace emit_obs bump with_store spawn fst];
      match goal with |- exists new, ?l = new ++ ?tr /\ _ => let p := prefix_of l tr in exists p; split; [reflexivity|] end;
      first [left; reflexivity | right; split; reflexivity].
  Qed.

  Lemma main_ok_jc_ph js jc pay ts : main_ok P js jc pay ts -> jc <> 0 -> ph_ts ts = 2.
  Proof.
    intros H Hj. destruct ts as [k sg|w k|r]; [destruct H as [_ H]| |reflexivity]; cbn [main_ok ph_ts] in *;
      (destruct k as [|f [|g [|h r']]]; try contradiction; shape H;
       repeat match goal with H0 : _ /\ _ |- _ => destruct H0 end; try (exfalso; apply Hj; assumption); try reflexivity).
  Qed.

  Theorem creach_last : forall st c, creach P st c -> last_ok (st_trace st).
  Proof.
    intros st c H. pose proof (creach_base P Hsw Hhd Hbody st c H) as Hb0.
    induction H as [|st t rest x k sg H IH Hq Hf Ht|st t rest H IH Hq|st t fr rest sg H IH|st t sg H IH|st c H IH|st g H IH|st H IH].
    - intros a o b E Ho. cbn in E. destruct a as [|y a']; [inversion E; subst; discriminate Ho|]. inversion E. destruct a'; discriminate.
    - exact (IH (creach_base P Hsw Hhd Hbody _ _ H)).
    - exact (IH (creach_base P Hsw Hhd Hbody _ _ H)).
    - pose proof (creach_base P Hsw Hhd Hbody _ _ H) as Hb. specialize (IH Hb).
      pose proof (creach_mainname P Hsw Hhd Hbody _ _ H) as Hmn.
      destruct (creach_pipe P Hsw Hhd Hbody Hnf _ _ H) as [js [jc [pay [(_ & S2 & _) HT]]]].
      destruct (b_cur _ _ _ Hb) as [x0 [Hf0 [Hk [Hs [Ho _]]]]]. cbn [plain_stack forallb] in Hk, Ho. apply andb_true_iff in Hk. destruct Hk as [Kf Kr].
      apply andb_true_iff in Ho. destruct Ho as [Of Or]. pose proof (b_ps _ _ _ Hb) as Hps.
      destruct (find_task_in _ _ _ Hf0) as [Hin0 Hid0].
      destruct (creach_typed P Hsw Hhd Hbody _ _ H) as [_ Hty]. cbn [typed_cur typed_stack] in Hty.
      rewrite trace_after_step.
      destruct (Nat.eqb_spec t main_tid) as [->|Hne].
      + cbn [cstate] in HT.
        destruct (main_step_pc js jc pay main_tid fr rest sg st HT Hty) as [new [Etr Hd]]. rewrite Etr. apply last_ok_app; [exact IH|].
        destruct Hd as [Hd|[-> Hd]]; [left; exact Hd|right; split; [exact (seen0_nopc _ S2)|exact Hd]].
      + assert (Hnm : t_name x0 <> TNMain).
        { intros Hn. unfold tasks_ok in Hmn. rewrite Forall_forall in Hmn. apply Hne. rewrite <- Hid0. exact (Hmn x0 Hin0 Hn). }
        destruct (haspc (st_trace st)) eqn:Ehp.
        * (* a callback has been made: the helper has a CancelledError pending and reports nothing *)
          assert (Hjc : jc <> 0) by (intros ->; rewrite (seen0_nopc _ S2) in Ehp; discriminate Ehp).
          destruct (find_main st (b_ev _ _ _ Hb)) as [xm [Fm [Hinm Hnmm]]].
          unfold tasks_ok in HT. rewrite Forall_forall in HT. destruct (HT xm Hinm Hnmm) as [_ Hok].
          pose proof (main_ok_jc_ph js jc pay _ Hok Hjc) as Hph.
          destruct (creach_quiet P Hsw Hhd Hbody Hnf _ _ H (t_state xm)) as [_ A2].
          { cbn [main_eff]. apply Nat.eqb_neq in Hne. rewrite Hne. unfold main_state. rewrite Fm. reflexivity. }
          destruct (A2 Hph) as [_ Q2]. cbn in Q2. pose proof (Q2 Hne) as Esg. subst sg.
          destruct (plain_step_cancelled P (t_name x0) t fr st Kf Hps Hnm Of) as (Etr & _ & _). rewrite Etr. exact IH.
        * destruct (plain_step_nopipe P (t_name x0) t fr sg st Kf Hs Hps Hnm Of) as [new [Etr Hnew]]. rewrite Etr. apply last_ok_app; [exact IH|].
          right. split; [exact Ehp|]. rewrite forallb_forall in *. intros o Ho'. specialize (Hnew o Ho'). destruct o; try reflexivity. destruct ev; try reflexivity. discriminate Hnew.
    - exact (IH (creach_base P Hsw Hhd Hbody _ _ H)).
    - exact (IH (creach_base P Hsw Hhd Hbody _ _ H)).
    - unfold complete_gate. rewrite trace_wake_all. exact (IH (creach_base P Hsw Hhd Hbody _ _ H)).
    - rewrite trace_cancel_task. exact (IH (creach_base P Hsw Hhd Hbody _ _ H)).
  Qed.
End LastOrder.

Theorem plain_pipeline_complete_comes_last P :
  plain_prog P -> (forall m ev n k, p_mgr_fault P m ev n k = false) ->
  forall st, reachable P st ->
    forall a o b, st_trace st = a ++ o :: b -> is_pc_any o = true -> forallb is_pc_any a = true.
Proof.
  intros (Hg & Hb & _) Hnf st Hr. destruct (graph_plain_sound _ Hg) as [Hsw Hhd].
  exact (creach_last P Hsw Hhd Hb Hnf st None (reachable_creach P st Hr)).
Qed.
