(* C17 (fail fast): if a mode in use needs a pool that is not registered / has been shut down, no task is ever created
   and no node-level activity ever happens -- for every program and every schedule. *)
From MLPE Require Import Engine.Run Proofs.ExecLemmas Proofs.Evolve Proofs.StackInv.

Definition pool_blocked (P : prog) : bool :=
  (needs_thread P && negb (p_thread_ready P)) || (needs_process P && negb (p_process_ready P)).

(* observations that are not about any node: the two pipeline events and the ghost events *)
Definition node_free (o : obs) : bool :=
  match o with
  | OEmit _ EvPipelineStart None _ _ | OEmit _ EvPipelineComplete None _ _ => true
  | OSpawn _ _ | ORunDone _ => true
  | _ => false
  end.

(* the trace grows by node-free observations only and no task is created *)
Definition calm (st st' : mstate) : Prop :=
  st_next st' = st_next st /\ exists new, st_trace st' = new ++ st_trace st /\ forallb node_free new = true.

Lemma calm_refl st : calm st st. Proof. split; [reflexivity|]. exists []. split; reflexivity. Qed.
Lemma calm_trans a b c : calm a b -> calm b c -> calm a c.
Proof.
  intros [N1 [n1 [T1 F1]]] [N2 [n2 [T2 F2]]]. split; [congruence|]. exists (n2 ++ n1). rewrite T2, T1, app_assoc. split; [reflexivity|].
  rewrite forallb_app, F1, F2. reflexivity.
Qed.
Lemma calm_same st st' : st_trace st' = st_trace st -> st_next st' = st_next st -> calm st st'.
Proof. intros T N. split; [exact N|]. exists []. rewrite T. split; reflexivity. Qed.
Lemma c_with_store f st : calm st (with_store f st). Proof. apply calm_same; reflexivity. Qed.
Lemma c_bump c st : calm st (bump c st). Proof. apply calm_same; reflexivity. Qed.
Lemma c_set_adddata k v st : calm st (set_adddata k v st). Proof. apply calm_same; reflexivity. Qed.
Lemma c_push_ready t st : calm st (push_ready t st). Proof. apply calm_same; reflexivity. Qed.
Lemma c_set_waiters w st : calm st (set_waiters w st). Proof. apply calm_same; reflexivity. Qed.
Lemma c_set_tstate t ts st : calm st (set_tstate t ts st). Proof. apply calm_same; reflexivity. Qed.
Lemma c_add_event n st : calm st (add_event n st). Proof. apply calm_same; reflexivity. Qed.
Lemma c_dequeue st : calm st (dequeue st). Proof. apply calm_same; reflexivity. Qed.
Lemma c_abort P st : calm st (abort P st). Proof. apply calm_same; reflexivity. Qed.
Lemma c_emit o st : node_free o = true -> calm st (emit_obs o st).
Proof. intros H. split; [reflexivity|]. exists [o]. split; [reflexivity|]. cbn. rewrite H. reflexivity. Qed.

Definition c_notify := R_notify calm calm_trans c_push_ready c_set_waiters c_set_tstate.
Definition c_wake_all := R_wake_all calm calm_trans c_push_ready c_set_waiters c_set_tstate.
Definition c_notify_keys := R_notify_keys calm calm_trans c_push_ready c_set_waiters c_set_tstate.
Definition c_set_event := R_set_event calm calm_trans c_push_ready c_set_waiters c_set_tstate c_add_event.
Definition c_cancel_task := R_cancel_task calm calm_trans c_push_ready c_set_waiters c_set_tstate.
Definition c_cancel_tasks := R_cancel_tasks calm calm_trans c_push_ready c_set_waiters c_set_tstate.
Definition c_suspend := R_suspend calm calm_trans c_set_waiters c_set_tstate.

Ltac calm_prims :=
  repeat first
         [ apply calm_refl
         | apply c_notify | apply c_notify_keys | apply c_set_event | apply c_cancel_tasks | apply c_cancel_task | apply c_wake_all
         | (eapply calm_trans; [|apply c_with_store]) | (eapply calm_trans; [|apply c_bump])
         | (eapply calm_trans; [|apply c_set_adddata]) | (eapply calm_trans; [|apply c_push_ready])
         | (eapply calm_trans; [|apply c_emit; reflexivity]) ].

Section Modes.
  Variable P : prog.
  Hypothesis Hblocked : pool_blocked P = true.

  Lemma main_step_calm t fr sg st : main_frame fr = true -> calm st (fst (step_frame P t fr sg st)).
  Proof.
    intros Hm. unfold pool_blocked in Hblocked.
    destruct fr; try discriminate Hm; cbn [main_frame] in Hm; destruct sg; cbn [step_frame]; rewrite ?Hblocked;
      repeat match goal with Hx : context [match ?x with _ => _ end] |- _ => destruct x; try discriminate Hx end;
      repeat break_match; cbn [fst]; calm_prims.
  Qed.

  Definition blocked_ok (st : mstate) : Prop := st_next st = 1 /\ forallb node_free (st_trace st) = true.

  Lemma calm_blocked st st' : blocked_ok st -> calm st st' -> blocked_ok st'.
  Proof. intros [N F] [N' [new [T Fn]]]. split; [congruence|]. rewrite T, forallb_app, Fn, F. reflexivity. Qed.

  Lemma exec_main_calm fuel t k sg st : main_stack k = true -> chainb k = true -> calm st (exec P fuel t k sg st).
  Proof.
    intros Hm Hc.
    apply (exec_rule P t (fun k _ s => calm st s /\ main_stack k = true /\ chainb k = true) (calm st)); [| |auto using calm_refl].
    - intros sg' s [H _]. eapply calm_trans; [exact H|apply c_set_tstate].
    - intros fr rest sg' s [H [Hms Hch]]. split; [eapply calm_trans; [exact H|apply c_abort]|].
      assert (Hf : main_frame fr = true) by (unfold main_stack in Hms; cbn [forallb] in Hms; apply andb_true_iff in Hms; apply Hms).
      pose proof (main_step_calm t fr sg' s Hf) as Hstep. pose proof (step_frame_dir_ok P t fr sg' s) as Hd.
      destruct (step_frame P t fr sg' s) as [st1 [w k'|k'|k' sg''|sg'']]; cbn [fst snd dir_ok] in *.
      + apply c_suspend. eapply calm_trans; eassumption.
      + eapply calm_trans; [|apply c_push_ready]. eapply calm_trans; [|apply c_set_tstate]. eapply calm_trans; eassumption.
      + destruct (seg_ok_app fr rest k' Hch Hms Hd) as [A B]. split; [eapply calm_trans; eassumption|auto].
      + split; [eapply calm_trans; eassumption|]. split; [apply (main_stack_tail fr); exact Hms|apply (chainb_tail fr); exact Hch].
  Qed.

  (* no task is ever created and nothing about any node is ever observed *)
  Theorem blocked_run_is_calm : forall st, reachable P st -> blocked_ok st.
  Proof.
    apply (reachable_inv P blocked_ok).
    - split; reflexivity.
    - intros st Hr H. pose proof (reachable_stacks_ok P st Hr) as Hs.
      apply (loop_step_rule P blocked_ok); [exact H|auto| |].
      + intros. apply (calm_blocked st); [exact H|apply c_dequeue].
      + intros t rest x k sg Hq Hf Ht. destruct (find_task_in _ _ _ Hf) as [Hin Hid].
        pose proof (reachable_ids P st x Hr Hin) as Hlt. destruct H as [N F]. rewrite N in Hlt.
        assert (Et : t = main_tid) by (unfold main_tid; lia). rewrite Et in *.
        unfold stacks_ok, tasks_ok in Hs. rewrite Forall_forall in Hs. destruct (Hs x Hin) as [_ Hx]. rewrite Ht in Hx.
        destruct Hx as [[_ [Hc Hm]] _].
        apply (calm_blocked st); [split; assumption|]. eapply calm_trans; [apply c_dequeue|]. apply exec_main_calm; [apply Hm; exact Hid|exact Hc].
    - intros st g _ H. apply (calm_blocked st); [exact H|]. unfold complete_gate. apply c_wake_all, calm_refl.
    - intros st _ H. apply (calm_blocked st); [exact H|]. apply c_cancel_task, calm_refl.
  Qed.
End Modes.
