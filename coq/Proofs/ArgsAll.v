(* ALL programs, every schedule: the keyword arguments of every body / get_default invocation are built from the declared
   dependencies of the node: one value per declared parameter, each of them a value that was stored as the result of the declared
   source -- for a switch parameter: of the case recorded for the switch, which is the case labelled with the value the decision node
   stored (C03, C09); the additional_data entry is the payload of a Recurrent marker stored by the destination of a recurrent
   subgraph that starts at the node (C11). *)
From MLPE Require Import Engine.Run Proofs.ExecLemmas Proofs.Evolve Proofs.StackInv Proofs.Micro Proofs.PlainLive Proofs.PlainCore Proofs.PlainInv
     Proofs.PlainExec Proofs.PlainEvents Proofs.PipeAll Proofs.ValuesAll Proofs.StoreAll Proofs.SwitchAll Proofs.RecAll Proofs.AssocLemmas.
Require Import Lia.

Lemma fold_left_ext_eq {A B} (f g : A -> B -> A) (l : list B) (a : A) : (forall x y, f x y = g x y) -> fold_left f l a = fold_left g l a.
Proof. intros H. revert a. induction l as [|b r IH]; intros a; cbn [fold_left]; [reflexivity|]. rewrite H. apply IH. Qed.

Section ArgsAll.
  Variable P : prog.
  Notation G := (b_graph (build (p_decls P) (p_inp P) (p_out P))).
  Notation inp := (b_input (build (p_decls P) (p_inp P) (p_out P))).

  (* _get_node_kwargs over an arbitrary "value of the source" function: one entry per incoming edge that names a parameter, plus
     additional_data for the start node of a recurrent subgraph; the input node gets the caller's input_kwargs *)
  Definition gen_kwargs (n : key) (val : key -> option value) (ad : option value) : option kwargs :=
    let base :=
        if key_eqb n inp then Some (p_input P)
        else fold_left (fun acc pe =>
                          match acc with
                          | None => None
                          | Some kw =>
                            match ea_kwarg (snd pe) with
                            | None => Some kw
                            | Some nm => match val (fst pe) with Some v => Some (kw_insert nm v kw) | None => None end
                            end
                          end) (preds_e G n) (Some []) in
    match base with
    | None => None
    | Some kw => match ad with
                 | Some VNone => Some kw
                 | Some v => Some (kw_insert additional_data_name v kw)
                 | None => Some kw
                 end
    end.

  Definition val_of (st : mstate) (p : key) : option value :=
    if is_switch G p
    then match get_switch p (st_store st) with Some (_, c) => Some (get_result c true (st_store st)) | None => None end
    else Some (get_result p true (st_store st)).

  Lemma node_kwargs_gen st n : node_kwargs P st n = gen_kwargs n (val_of st) (alookup key_eqb n (st_adddata st)).
  Proof.
    unfold node_kwargs, gen_kwargs. destruct (key_eqb n inp); [reflexivity|].
    erewrite fold_left_ext_eq; [reflexivity|]. intros acc pe. destruct acc as [kw|]; [|reflexivity].
    destruct (ea_kwarg (snd pe)) as [nm|]; [|reflexivity]. unfold val_of.
    destruct (is_switch G (fst pe)); [|reflexivity]. destruct (get_switch (fst pe) (st_store st)) as [[l c]|]; reflexivity.
  Qed.

  (* where a value handed to a parameter comes from; VNone also stands for "the source has no result" (get_result's default) *)
  Definition was_stored (tr : list obs) (k : key) (v : value) : Prop := In (OSetResult k v) tr \/ v = VNone.
  Definition prov (tr : list obs) (p : key) (v : value) : Prop :=
    if is_switch G p
    then exists lbl c, sel_ok P tr p lbl c /\ was_stored tr c v
    else was_stored tr p v.
  Definition ad_ok (tr : list obs) (n : key) (ad : option value) : Prop :=
    match ad with
    | None => True
    | Some v => exists dst res, na_start (nattr_of G dst) = Some n /\ is_rec res = true /\ In (OSetResult dst res) tr /\ v = rec_data res
    end.
  Definition args_ok (tr : list obs) (i : nat) (kw : kwargs) : Prop :=
    exists n val ad, real_index n = i /\ gen_kwargs n val ad = Some kw /\ (forall p v, val p = Some v -> prov tr p v) /\ ad_ok tr n ad.

  Lemma was_stored_mono new tr k v : was_stored tr k v -> was_stored (new ++ tr) k v.
  Proof. intros [H|H]; [left; apply in_or_app; right; exact H|right; exact H]. Qed.
  Lemma sel_ok_mono new tr n l c : sel_ok P tr n l c -> sel_ok P (new ++ tr) n l c.
  Proof. intros [A [dn [B C]]]. split; [exact A|]. exists dn. split; [exact B|apply in_or_app; right; exact C]. Qed.
  Lemma prov_mono new tr p v : prov tr p v -> prov (new ++ tr) p v.
  Proof.
    unfold prov. destruct (is_switch G p); [|apply was_stored_mono].
    intros [l [c [A B]]]. exists l, c. split; [apply sel_ok_mono; exact A|apply was_stored_mono; exact B].
  Qed.
  Lemma ad_ok_mono new tr n ad : ad_ok tr n ad -> ad_ok (new ++ tr) n ad.
  Proof.
    destruct ad as [v|]; [|auto]. intros [dst [res (A & B & C & D)]]. exists dst, res. split; [exact A|]. split; [exact B|]. split; [|exact D].
    apply in_or_app. right. exact C.
  Qed.
  Lemma args_ok_mono new tr i kw : args_ok tr i kw -> args_ok (new ++ tr) i kw.
  Proof.
    intros [n [val [ad (A & B & C & D)]]]. exists n, val, ad. split; [exact A|split; [exact B|]]. split; [|apply ad_ok_mono; exact D].
    intros p v Hv. apply prov_mono. exact (C p v Hv).
  Qed.

  Lemma result_was_stored st k : Istore st -> was_stored (st_trace st) k (get_result k true (st_store st)).
  Proof.
    intros HI. unfold get_result, get_result_opt. cbn [negb andb].
    destruct (alookup key_eqb k (s_results (st_store st))) as [v|] eqn:El; [left; apply HI; exact El|right; reflexivity].
  Qed.

  Lemma val_of_prov st p v : Istore st -> SwI P st -> val_of st p = Some v -> prov (st_trace st) p v.
  Proof.
    intros HI HS. unfold val_of, prov. destruct (is_switch G p).
    - destruct (get_switch p (st_store st)) as [[l c]|] eqn:Eg; [|discriminate]. intros E. inversion E; subst.
      exists l, c. split; [exact (HS p l c Eg)|apply result_was_stored; exact HI].
    - intros E. inversion E; subst. apply result_was_stored. exact HI.
  Qed.

  (* the positions of the retry loop carry the arguments *)
  Definition kwf (tr : list obs) (f : frame) : Prop :=
    match f with
    | FRetry i _ kw _ | FRetryAfterBody i kw _ | FRetryAfterEmit i kw _ | FRetryAfterSleep i kw _ => args_ok tr i kw
    | _ => True
    end.
  Definition stack_kw (tr : list obs) (k : list frame) : Prop := forall f, In f k -> kwf tr f.
  Definition kw_TP (tr : list obs) (x : task frame) : Prop := stack_kw tr (estack (t_state x)).

  Lemma kwf_mono new tr f : kwf tr f -> kwf (new ++ tr) f.
  Proof. destruct f; cbn [kwf]; try (intros; exact I); apply args_ok_mono. Qed.
  Lemma tasks_kw_mono new tr st : tasks_ok (kw_TP tr) st -> tasks_ok (kw_TP (new ++ tr)) st.
  Proof. unfold tasks_ok. apply Forall_impl. intros x H f Hf. apply kwf_mono. exact (H f Hf). Qed.
  Lemma kw_wake tr x w k : t_state x = TWait w k -> kw_TP tr x -> kw_TP tr (with_ts x (TReady k SGo)).
  Proof. unfold kw_TP. intros E H. rewrite E in H. exact H. Qed.
  Lemma kw_cancel_ready tr x k sg : t_state x = TReady k sg -> kw_TP tr x -> kw_TP tr (with_ts x (TReady k (SThrow XCancelled))).
  Proof. unfold kw_TP. intros E H. rewrite E in H. exact H. Qed.
  Lemma kw_cancel_wait tr x w k : t_state x = TWait w k -> kw_TP tr x -> kw_TP tr (with_ts x (TReady k (SThrow XCancelled))).
  Proof. unfold kw_TP. intros E H. rewrite E in H. exact H. Qed.
  Lemma kw_spawn tr i nm f : 1 <= i -> spawn_frame f = true -> kw_TP tr {| t_id := i; t_name := nm; t_state := TReady [f] SGo; t_helper := true |}.
  Proof. unfold kw_TP, stack_kw. cbn. intros _ Hf g [<-|[]]. destruct f; try discriminate Hf; exact I. Qed.

  Lemma step_kwf t fr sg st f :
    Istore st -> SwI P st -> AdI P st -> kwf (st_trace st) fr -> In f (dir_frames (snd (step_frame P t fr sg st))) ->
    kwf (st_trace (fst (step_frame P t fr sg st))) f.
  Proof.
    intros HI HS HA Hfr.
    destruct (ev_trace _ _ (ev_step_frame P t fr sg st)) as [new Etr]. rewrite Etr. clear Etr. intros Hin0. apply kwf_mono. revert Hin0. revert Hfr.
    destruct fr; destruct sg; cbn [step_frame]; unfold default_or_raise, reduced; repeat break_match;
      unfold emit_frames; cbn [snd dir_frames]; intros Hfr Hin;
      repeat (destruct Hin as [Hin|Hin]; [subst f; cbn [kwf] in *; try exact I; try exact Hfr|]); try contradiction.
    (* _execute_node computing the arguments *)
    exists n, (val_of st), (alookup key_eqb n (st_adddata st)). split; [reflexivity|]. split.
    - rewrite <- node_kwargs_gen. assumption.
    - split; [intros p9 v9 Hv9; apply val_of_prov; assumption|].
      unfold ad_ok. destruct (alookup key_eqb n (st_adddata st)) as [v9|] eqn:Ea; [|exact I].
      destruct (HA n v9 Ea) as [dst [res (A1 & (A2 & A3) & A4)]]. exists dst, res. auto.
  Qed.

  (* ---- the history: invocations of a body or of get_default ---- *)
  Definition is_call (o : obs) : bool := match o with OStart _ _ _ | ODefault _ _ => true | _ => false end.
  Notation bad := is_call.
  Lemma call_spawn t nm : bad (OSpawn t nm) = false. Proof. reflexivity. Qed.
  Lemma call_hide k : bad (OHide k) = false. Proof. reflexivity. Qed.

  Ltac cq_prims :=
    repeat first
           [ apply nq_refl
           | apply nq_notify | apply nq_notify_keys | apply nq_set_event | apply nq_cancel_tasks | apply nq_cancel_task
           | apply nq_finally_a | apply nq_finally_b | apply nq_wake_all | (apply nq_fold_hide; [exact call_hide|])
           | (eapply nq_trans; [|apply nq_with_store]) | (eapply nq_trans; [|apply nq_bump])
           | (eapply nq_trans; [|apply nq_set_adddata]) | (eapply nq_trans; [|apply nq_push_ready])
           | (eapply nq_trans; [|apply nq_spawn; exact call_spawn])
           | (eapply nq_trans; [|apply nq_emit; reflexivity]) ].

  Definition call_of (f : frame) : option (nat * kwargs) :=
    match f with FRetry i _ kw _ | FRetryAfterBody i kw _ => Some (i, kw) | _ => None end.
  Definition call_obs (o : obs) : option (nat * kwargs) :=
    match o with OStart i _ kw | ODefault i kw => Some (i, kw) | _ => None end.

  Lemma step_calls t fr sg st :
    (exists o, bad o = true /\ call_obs o = call_of fr /\ st_trace (fst (step_frame P t fr sg st)) = o :: st_trace st) \/
    nq bad st (fst (step_frame P t fr sg st)).
  Proof.
    destruct fr; destruct sg; cbn [step_frame]; unfold default_or_raise, reduced; repeat break_match; spawn_norm; cbn [fst];
      first [ right; cq_prims; fail
            | left; eexists; split; [|split; [|cbn [st_trace emit_obs bump]; reflexivity]]; reflexivity ].
  Qed.

  Definition calls_ok (tr : list obs) : Prop :=
    forall a o b i kw, tr = a ++ o :: b -> call_obs o = Some (i, kw) -> args_ok b i kw.

  Theorem creach_args : forall st c, creach P st c ->
    tasks_ok (kw_TP (st_trace st)) st /\
    (match c with Some (_, k, _) => stack_kw (st_trace st) k | None => True end) /\
    calls_ok (st_trace st).
  Proof.
    intros st c H. pose proof (creach_evolves P st c H) as Hev0.
    induction H as [|st t rest x k sg H IH Hq Hf Ht|st t rest H IH Hq|st t fr rest sg H IH|st t sg H IH|st c H IH|st g H IH|st H IH].
    - split; [|split; [exact I|]].
      + unfold tasks_ok, init_state. cbn. constructor; [|constructor]. intros f [<-|[]]. exact I.
      + intros a o b i kw E Hc. cbn in E. destruct a as [|y a']; [inversion E; subst; discriminate Hc|]. inversion E. destruct a'; discriminate.
    - destruct (IH (creach_evolves P _ _ H)) as (A & _ & Hh). split; [|split; [|exact Hh]].
      + change (tasks_ok (kw_TP (st_trace st)) (dequeue st)). apply ok_dequeue. exact A.
      + destruct (find_task_in _ _ _ Hf) as [Hin _]. unfold tasks_ok in A. rewrite Forall_forall in A. specialize (A x Hin). unfold kw_TP in A. rewrite Ht in A. exact A.
    - destruct (IH (creach_evolves P _ _ H)) as (A & _ & Hh). split; [|split; [exact I|exact Hh]].
      change (tasks_ok (kw_TP (st_trace st)) (dequeue st)). apply ok_dequeue. exact A.
    - pose proof (creach_evolves P _ _ H) as Hev. destruct (IH Hev) as (A & B & Hh).
      pose proof (ev_next _ _ Hev) as Hn1. cbn in Hn1.
      pose proof (creach_store P _ _ H) as HI. pose proof (creach_switch P _ _ H) as HS.
      destruct (creach_rec P _ _ H) as (_ & _ & HA).
      pose proof (B fr (or_introl eq_refl)) as Bfr.
      destruct (ev_trace _ _ (ev_step_frame P t fr sg st)) as [new Etr].
      assert (A1 : tasks_ok (kw_TP (st_trace (fst (step_frame P t fr sg st)))) (fst (step_frame P t fr sg st))).
      { apply (step_frame_tasks_ok P (kw_TP _) (kw_wake _) (kw_cancel_ready _) (kw_cancel_wait _) (kw_spawn _)); [exact Hn1|].
        rewrite Etr. apply tasks_kw_mono. exact A. }
      assert (Hkk : stack_kw (st_trace (fst (step_frame P t fr sg st))) (dir_frames (snd (step_frame P t fr sg st)) ++ rest)).
      { intros f Hin. apply in_app_or in Hin. destruct Hin as [Hin|Hin].
        - exact (step_kwf t fr sg st f HI HS HA Bfr Hin).
        - rewrite Etr. apply kwf_mono. apply B. right. exact Hin. }
      assert (Hh1 : calls_ok (st_trace (fst (step_frame P t fr sg st)))).
      { destruct (step_calls t fr sg st) as [[o (Ho & Hco & E)]|[nw [E Hnw]]].
        - rewrite E. intros a o' b i kw Eo Hc. destruct a as [|y a'].
          + cbn [app] in Eo. inversion Eo; subst o' b. rewrite Hco in Hc. destruct fr; cbn [call_of] in Hc; try discriminate Hc; inversion Hc; subst; exact Bfr.
          + cbn [app] in Eo. inversion Eo as [[Ey E']]. exact (Hh a' o' b i kw E' Hc).
        - rewrite E. intros a o b i kw Eo Hc.
          assert (Hb : bad o = true) by (destruct o; cbn [call_obs] in Hc; try discriminate Hc; reflexivity).
          destruct (split_old bad nw (st_trace st) a b o Hnw Hb Eo) as [a' [_ E']]. exact (Hh a' o b i kw E' Hc). }
      rewrite !trace_after_step'.
      destruct (step_frame P t fr sg st) as [st1 [w k'|k'|k' sg'|sg']]; cbn [after_step fst snd dir_frames] in *.
      + split; [|split; [exact I|exact Hh1]]. apply ok_suspend; [exact A1|]. intros y _ _. unfold kw_TP. cbn. exact Hkk.
      + split; [|split; [exact I|exact Hh1]]. apply ok_push_ready. apply ok_set_tstate; [exact A1|]. intros y _ _. unfold kw_TP. cbn. exact Hkk.
      + split; [exact A1|split; [exact Hkk|exact Hh1]].
      + split; [exact A1|split; [|exact Hh1]]. intros f Hin. apply Hkk. exact Hin.
    - destruct (IH (creach_evolves P _ _ H)) as (A & _ & Hh). split; [|split; [exact I|exact Hh]]. apply ok_set_tstate; [exact A|]. intros y _ _ f [].
    - destruct (IH (creach_evolves P _ _ H)) as (A & _ & Hh). split; [|split; [exact I|exact Hh]]. apply ok_abort; [|exact A]. intros y k0 _ f [].
    - destruct (IH (creach_evolves P _ _ H)) as (A & _ & Hh). unfold complete_gate. rewrite trace_wake_all. split; [|split; [exact I|exact Hh]].
      apply (complete_gate_tasks_ok (kw_TP _) (kw_wake _)). exact A.
    - destruct (IH (creach_evolves P _ _ H)) as (A & _ & Hh). rewrite trace_cancel_task. split; [|split; [exact I|exact Hh]].
      apply (ok_cancel_task (kw_TP _) (kw_cancel_ready _) (kw_cancel_wait _)). exact A.
  Qed.
End ArgsAll.

(* [gen_kwargs P n val ad]: the keyword arguments _get_node_kwargs builds for node n when [val p] is the value of source p and [ad]
   the additional_data entry of n; [prov P b p v]: in the history b, v was stored as the result of p -- for a switch p: of the case c
   recorded for p, where (p, lbl, c) follows the case table and lbl was stored by the decision node -- or v is None, which is also
   what a source without a result yields; [ad_ok P b n ad]: the additional_data entry, if any, is the payload of a Recurrent marker
   that the destination of a recurrent subgraph starting at n stored in b *)
Theorem arguments_come_from_the_declared_inputs_all_programs P :
  forall st, reachable P st ->
    forall a b i k kw, st_trace st = a ++ OStart i k kw :: b ->
      exists n val ad, real_index n = i /\ gen_kwargs P n val ad = Some kw /\ (forall p v, val p = Some v -> prov P b p v) /\ ad_ok P b n ad.
Proof.
  intros st Hr a b i k kw E. destruct (creach_args P st None (reachable_creach P st Hr)) as (_ & _ & Hc).
  exact (Hc a (OStart i k kw) b i kw E eq_refl).
Qed.

Theorem default_arguments_come_from_the_declared_inputs_all_programs P :
  forall st, reachable P st ->
    forall a b i kw, st_trace st = a ++ ODefault i kw :: b ->
      exists n val ad, real_index n = i /\ gen_kwargs P n val ad = Some kw /\ (forall p v, val p = Some v -> prov P b p v) /\ ad_ok P b n ad.
Proof.
  intros st Hr a b i kw E. destruct (creach_args P st None (reachable_creach P st Hr)) as (_ & _ & Hc).
  exact (Hc a (ODefault i kw) b i kw E eq_refl).
Qed.
