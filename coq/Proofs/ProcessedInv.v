(* C04, all programs and schedules: the "processed" mark of a node is exactly "an execution of it has begun since its last
   invalidation", and an execution begins only when the mark is absent -- so between two executions of one node there is always an
   invalidation (a recurrent re-iteration hiding it, or the forced default after exhaustion): at most one execution per run and
   iteration, whoever requests it and however the requests interleave. *)
From MLPE Require Import Engine.Run Proofs.ExecLemmas.

Fixpoint last_proc (n : key) (tr : list obs) : bool :=
  match tr with
  | [] => false
  | OProcessed n' :: r => if key_eqb n n' then true else last_proc n r
  | OHide n' :: r => if key_eqb n n' then false else last_proc n r
  | _ :: r => last_proc n r
  end.

(* every "execution begins" event finds the node unmarked *)
Fixpoint wf_proc (tr : list obs) : Prop :=
  match tr with
  | [] => True
  | OProcessed n :: r => last_proc n r = false /\ wf_proc r
  | _ :: r => wf_proc r
  end.

Definition proc_ok (st : mstate) : Prop :=
  (forall n, exists_processed n (st_store st) = last_proc n (st_trace st)) /\ wf_proc (st_trace st).

Definition same_st (st st' : mstate) : Prop := st_store st' = st_store st /\ st_trace st' = st_trace st.
Lemma same_refl st : same_st st st. Proof. split; reflexivity. Qed.
Lemma same_trans a b c : same_st a b -> same_st b c -> same_st a c.
Proof. intros [A1 A2] [B1 B2]. split; congruence. Qed.
Lemma s_push_ready t st : same_st st (push_ready t st). Proof. split; reflexivity. Qed.
Lemma s_set_waiters w st : same_st st (set_waiters w st). Proof. split; reflexivity. Qed.
Lemma s_set_tstate t ts st : same_st st (set_tstate t ts st). Proof. split; reflexivity. Qed.
Lemma s_add_event n st : same_st st (add_event n st). Proof. split; reflexivity. Qed.
Lemma s_bump c st : same_st st (bump c st). Proof. split; reflexivity. Qed.
Lemma s_set_adddata k v st : same_st st (set_adddata k v st). Proof. split; reflexivity. Qed.
Lemma s_dequeue st : same_st st (dequeue st). Proof. split; reflexivity. Qed.
Lemma s_abort P st : same_st st (abort P st). Proof. split; reflexivity. Qed.

Definition s_notify := R_notify same_st same_trans s_push_ready s_set_waiters s_set_tstate.
Definition s_wake_all := R_wake_all same_st same_trans s_push_ready s_set_waiters s_set_tstate.
Definition s_notify_keys := R_notify_keys same_st same_trans s_push_ready s_set_waiters s_set_tstate.
Definition s_set_event := R_set_event same_st same_trans s_push_ready s_set_waiters s_set_tstate s_add_event.
Definition s_cancel_task := R_cancel_task same_st same_trans s_push_ready s_set_waiters s_set_tstate.
Definition s_cancel_tasks := R_cancel_tasks same_st same_trans s_push_ready s_set_waiters s_set_tstate.
Definition s_finally_a := R_finally_a same_st same_trans s_push_ready s_set_waiters s_set_tstate s_add_event.
Definition s_finally_b P := R_finally_b P same_st same_trans s_push_ready s_set_waiters s_set_tstate s_add_event.
Definition s_suspend := R_suspend same_st same_trans s_set_waiters s_set_tstate.

Lemma proc_same st st' : same_st st st' -> proc_ok st -> proc_ok st'.
Proof. intros [S T] H. unfold proc_ok. rewrite S, T. exact H. Qed.

Lemma p_notify c st : proc_ok st -> proc_ok (notify c st). Proof. apply proc_same, s_notify, same_refl. Qed.
Lemma p_notify_keys ks st : proc_ok st -> proc_ok (notify_keys ks st). Proof. apply proc_same, s_notify_keys, same_refl. Qed.
Lemma p_set_event n st : proc_ok st -> proc_ok (set_event n st). Proof. apply proc_same, s_set_event, same_refl. Qed.
Lemma p_cancel_tasks ts st : proc_ok st -> proc_ok (cancel_tasks ts st). Proof. apply proc_same, s_cancel_tasks, same_refl. Qed.
Lemma p_cancel_task t st : proc_ok st -> proc_ok (cancel_task t st). Proof. apply proc_same, s_cancel_task, same_refl. Qed.
Lemma p_finally_a n st : proc_ok st -> proc_ok (finally_a n st). Proof. apply proc_same, s_finally_a, same_refl. Qed.
Lemma p_finally_b P d n st : proc_ok st -> proc_ok (finally_b P d n st). Proof. apply proc_same, s_finally_b, same_refl. Qed.
Lemma p_wake_all w sg st : proc_ok st -> proc_ok (wake_all w sg st). Proof. apply proc_same, s_wake_all, same_refl. Qed.
Lemma p_bump c st : proc_ok st -> proc_ok (bump c st). Proof. apply proc_same, s_bump. Qed.
Lemma p_set_adddata k v st : proc_ok st -> proc_ok (set_adddata k v st). Proof. apply proc_same, s_set_adddata. Qed.
Lemma p_push_ready t st : proc_ok st -> proc_ok (push_ready t st). Proof. apply proc_same, s_push_ready. Qed.
Lemma p_spawn nm h k st : proc_ok st -> proc_ok (fst (spawn nm h k st)).
Proof. intros [A B]. split; cbn; assumption. Qed.

Definition neutral (o : obs) : bool := match o with OProcessed _ | OHide _ => false | _ => true end.
Lemma p_emit o st : neutral o = true -> proc_ok st -> proc_ok (emit_obs o st).
Proof. intros Hn [A B]. split; cbn; destruct o; try discriminate Hn; assumption. Qed.

(* storage updates that do not touch the processed marks *)
Definition keeps_processed (f : storage -> storage) : Prop := forall s n, exists_processed n (f s) = exists_processed n s.
Lemma kp_set_result k v : keeps_processed (set_result k v). Proof. intros s n. reflexivity. Qed.
Lemma kp_set_switch k l c : keeps_processed (set_switch k l c). Proof. intros s n. reflexivity. Qed.
Lemma kp_set_active p b : keeps_processed (set_active p b). Proof. intros s n. reflexivity. Qed.
Lemma p_with_store f st : keeps_processed f -> proc_ok st -> proc_ok (with_store f st).
Proof. intros Hf [A B]. split; [|exact B]. intros n. cbn. rewrite Hf. apply A. Qed.

Lemma mem_add_set_eq (n k : key) l : mem key_eqb n (add_set key_eqb k l) = key_eqb n k || mem key_eqb n l.
Proof.
  unfold add_set. destruct (mem key_eqb k l) eqn:E.
  - destruct (key_eqb n k) eqn:E2; [|reflexivity]. apply key_eqb_spec in E2. subst. rewrite E. reflexivity.
  - induction l as [|x r IH]; cbn in *; [rewrite orb_false_r; destruct (key_eqb n k); reflexivity|].
    destruct (key_eqb k x) eqn:E3; [discriminate|]. destruct (key_eqb n x); [rewrite orb_true_r; reflexivity|]. apply IH. exact E.
Qed.

Lemma mem_remove_all_eq (n k : key) l : mem key_eqb n (remove_all key_eqb k l) = negb (key_eqb n k) && mem key_eqb n l.
Proof.
  induction l as [|x r IH]; cbn; [rewrite andb_false_r; reflexivity|].
  destruct (key_eqb k x) eqn:E.
  - apply key_eqb_spec in E. subst x. rewrite IH. destruct (key_eqb n k); reflexivity.
  - cbn. rewrite IH. destruct (key_eqb n x) eqn:E2; [|reflexivity].
    apply key_eqb_spec in E2. subst x. destruct (key_eqb n k) eqn:E3; [|reflexivity].
    apply key_eqb_spec in E3. subst. rewrite key_eqb_refl in E. discriminate.
Qed.

Lemma processed_set n k s : exists_processed n (set_processed k s) = key_eqb n k || exists_processed n s.
Proof.
  unfold exists_processed, set_processed. cbn. rewrite mem_remove_all_eq, mem_add_set_eq.
  destruct (key_eqb n k); cbn; [reflexivity|]. reflexivity.
Qed.

Lemma processed_hide1 n k s : exists_processed n (hide1 k s) = negb (key_eqb n k) && exists_processed n s.
Proof.
  unfold exists_processed, hide1. cbn. rewrite mem_add_set_eq. destruct (key_eqb n k); cbn; reflexivity.
Qed.

Lemma p_processed n st :
  exists_processed n (st_store st) = false -> proc_ok st -> proc_ok (emit_obs (OProcessed n) (with_store (set_processed n) st)).
Proof.
  intros Hn [A B]. split.
  - intros m. cbn. rewrite processed_set. destruct (key_eqb m n); [reflexivity|]. apply A.
  - cbn. split; [rewrite <- A; exact Hn|exact B].
Qed.

Lemma p_hide1 n st : proc_ok st -> proc_ok (emit_obs (OHide n) (with_store (hide1 n) st)).
Proof.
  intros [A B]. split; [|exact B]. intros m. cbn. rewrite processed_hide1. destruct (key_eqb m n); cbn; [reflexivity|]. apply A.
Qed.

Definition hide_step (k : key) (st : mstate) : mstate := emit_obs (OHide k) (with_store (hide1 k) st).

Lemma proc_ext a b : st_store a = st_store b -> st_trace a = st_trace b -> proc_ok a -> proc_ok b.
Proof. intros S T H. unfold proc_ok in *. rewrite <- S, <- T. exact H. Qed.

Lemma fold_emit_store (l : list key) (st : mstate) : st_store (fold_left (fun s k => emit_obs (OHide k) s) l st) = st_store st.
Proof. revert st. induction l as [|k r IH]; intros st; cbn [fold_left]; [reflexivity|]. rewrite IH. reflexivity. Qed.

Lemma fold_hide_store (l : list key) (st : mstate) : st_store (fold_left (fun s k => hide_step k s) l st) = hide_all l (st_store st).
Proof. revert st. unfold hide_all. induction l as [|k r IH]; intros st; cbn [fold_left]; [reflexivity|]. rewrite IH. reflexivity. Qed.

Lemma fold_trace_eq (l : list key) (a b : mstate) :
  st_trace a = st_trace b ->
  st_trace (fold_left (fun s k => emit_obs (OHide k) s) l a) = st_trace (fold_left (fun s k => hide_step k s) l b).
Proof. revert a b. induction l as [|k r IH]; intros a b H; cbn [fold_left]; [exact H|]. apply IH. cbn. rewrite H. reflexivity. Qed.

Lemma p_fold_hide_step (l : list key) st : proc_ok st -> proc_ok (fold_left (fun s k => hide_step k s) l st).
Proof. revert st. induction l as [|k r IH]; intros st H; cbn [fold_left]; [exact H|]. apply IH. apply p_hide1. exact H. Qed.

Lemma p_hide_all l st :
  proc_ok st -> proc_ok (fold_left (fun s k => emit_obs (OHide k) s) l (with_store (hide_all l) st)).
Proof.
  intros H. apply (proc_ext (fold_left (fun s k => hide_step k s) l st)).
  - rewrite fold_emit_store, fold_hide_store. reflexivity.
  - symmetry. apply fold_trace_eq. reflexivity.
  - apply p_fold_hide_step. exact H.
Qed.

Ltac p_prims :=
  repeat first
         [ assumption
         | apply p_notify | apply p_notify_keys | apply p_set_event | apply p_cancel_tasks | apply p_cancel_task
         | apply p_finally_a | apply p_finally_b | apply p_wake_all | apply p_bump | apply p_set_adddata | apply p_push_ready
         | apply p_spawn | apply p_hide_all | apply p_hide1
         | (apply p_processed; [assumption|])
         | (apply p_emit; [reflexivity|])
         | (apply p_with_store; [first [apply kp_set_result | apply kp_set_switch | apply kp_set_active]|]) ].

Section Processed.
  Variable P : prog.

  Lemma step_frame_proc t fr sg st : proc_ok st -> proc_ok (fst (step_frame P t fr sg st)).
  Proof.
    intros H. destruct fr; destruct sg; cbn [step_frame]; unfold default_or_raise, reduced;
      repeat break_match; spawn_norm; cbn [fst]; p_prims.
  Qed.

  Lemma exec_proc fuel t k sg st : proc_ok st -> proc_ok (exec P fuel t k sg st).
  Proof.
    intros H0. apply (exec_rule P t (fun _ _ s => proc_ok s) proc_ok); [| |exact H0].
    - intros sg' s H. apply (proc_same s); [apply s_set_tstate|exact H].
    - intros fr rest sg' s H. split; [apply (proc_same s); [apply s_abort|exact H]|].
      pose proof (step_frame_proc t fr sg' s H) as H1.
      destruct (step_frame P t fr sg' s) as [st1 [w k'|k'|k' sg''|sg'']]; cbn [fst] in *; exact H1.
  Qed.

  Theorem reachable_proc_ok : forall st, reachable P st -> proc_ok st.
  Proof.
    apply (reachable_inv P proc_ok).
    - split; [intros n; reflexivity|cbn; exact I].
    - intros st _ H. apply (loop_step_rule P proc_ok); [exact H|auto| |].
      + intros. apply (proc_same st); [apply s_dequeue|exact H].
      + intros. apply exec_proc. apply (proc_same st); [apply s_dequeue|exact H].
    - intros st g _ H. unfold complete_gate. apply p_wake_all. exact H.
    - intros st _ H. apply p_cancel_task. exact H.
  Qed.
End Processed.

Lemma last_proc_false_hide n l2 l3 : last_proc n (l2 ++ OProcessed n :: l3) = false -> In (OHide n) l2.
Proof.
  induction l2 as [|o r IH]; cbn [app last_proc].
  - rewrite key_eqb_refl. discriminate.
  - destruct o; try (intros H; right; apply IH; exact H).
    + destruct (key_eqb n n0) eqn:E; [intros _; left; apply key_eqb_spec in E; subst; reflexivity|intros H; right; apply IH; exact H].
    + destruct (key_eqb n n0) eqn:E; [discriminate|intros H; right; apply IH; exact H].
Qed.

Lemma wf_proc_suffix l1 l2 : wf_proc (l1 ++ l2) -> wf_proc l2.
Proof. induction l1 as [|o r IH]; cbn [app]; [auto|]. destruct o; cbn; try exact IH. intros [_ H]. apply IH. exact H. Qed.

(* the trace is newest first: of two beginnings of executions of one node, the older is separated from the newer by an invalidation *)
Lemma two_executions_are_separated n l1 l2 l3 :
  wf_proc (l1 ++ OProcessed n :: l2 ++ OProcessed n :: l3) -> In (OHide n) l2.
Proof. intros H. apply wf_proc_suffix in H. cbn in H. destruct H as [H _]. apply (last_proc_false_hide n l2 l3). exact H. Qed.
