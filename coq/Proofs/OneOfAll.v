(* ALL programs, every schedule: the candidates of a one-of are tried in declared order, one at a time, a candidate only after
   every earlier one has failed, and the result of the one-of is the value of a candidate whose predecessors all failed -- or the
   documented "no result" error when all of them did (C10). *)
From MLPE Require Import Engine.Run Proofs.ExecLemmas Proofs.Evolve Proofs.StackInv Proofs.Micro Proofs.PlainLive Proofs.PlainCore Proofs.PlainInv
     Proofs.PlainExec Proofs.PlainEvents Proofs.PipeAll Proofs.ValuesAll Proofs.StoreAll Proofs.AssocLemmas.
Require Import Lia.

(* ---- switch frames carry switch nodes ---- *)
Section SwitchKeys.
  Variable P : prog.
  Notation G := (b_graph (build (p_decls P) (p_inp P) (p_out P))).

  Definition swf (f : frame) : bool := match f with FSwitchStart _ n => is_switch G n | _ => true end.
  Definition sw_TP (x : task frame) : Prop := forallb swf (estack (t_state x)) = true.
  Lemma sw_wake x w k : t_state x = TWait w k -> sw_TP x -> sw_TP (with_ts x (TReady k SGo)).
  Proof. unfold sw_TP. intros E H. rewrite E in H. exact H. Qed.
  Lemma sw_cancel_ready x k sg : t_state x = TReady k sg -> sw_TP x -> sw_TP (with_ts x (TReady k (SThrow XCancelled))).
  Proof. unfold sw_TP. intros E H. rewrite E in H. exact H. Qed.
  Lemma sw_cancel_wait x w k : t_state x = TWait w k -> sw_TP x -> sw_TP (with_ts x (TReady k (SThrow XCancelled))).
  Proof. unfold sw_TP. intros E H. rewrite E in H. exact H. Qed.

  Ltac sw_prims :=
    repeat first
           [ assumption
           | apply (ok_notify sw_TP sw_wake) | apply (ok_notify_keys sw_TP sw_wake) | apply (ok_set_event sw_TP sw_wake)
           | apply (ok_cancel_tasks sw_TP sw_cancel_ready sw_cancel_wait) | apply (ok_cancel_task sw_TP sw_cancel_ready sw_cancel_wait)
           | apply (ok_finally_a sw_TP sw_wake) | apply (ok_finally_b sw_TP sw_wake)
           | apply ok_emit_obs | apply ok_with_store | apply ok_bump | apply ok_set_adddata | apply ok_push_ready | apply ok_fold_hide
           | apply (ok_wake_all sw_TP sw_wake) ].

  Lemma step_sw_tasks t fr sg st : tasks_ok sw_TP st -> tasks_ok sw_TP (fst (step_frame P t fr sg st)).
  Proof.
    intros H. destruct fr; destruct sg; cbn [step_frame]; unfold default_or_raise, reduced;
      repeat break_match; spawn_norm; cbn [fst];
      repeat match goal with
             | |- tasks_ok _ (fst (spawn _ _ _ _)) =>
               apply ok_spawn; [|unfold sw_TP, swf; cbn [t_state estack forallb]; rewrite ?andb_true_r; first [reflexivity | assumption]]
             | _ => progress sw_prims
             end.
  Qed.

  Lemma step_sw_frames t fr sg st : forallb swf (dir_frames (snd (step_frame P t fr sg st))) = true.
  Proof.
    destruct fr; destruct sg; cbn [step_frame]; unfold default_or_raise, reduced; repeat break_match;
      unfold emit_frames; cbn [snd dir_frames forallb swf andb]; reflexivity.
  Qed.

  Theorem creach_switch_keys : forall st c, creach P st c ->
    tasks_ok sw_TP st /\ (match c with Some (_, k, _) => forallb swf k = true | None => True end).
  Proof.
    intros st c H.
    induction H as [|st t rest x k sg H IH Hq Hf Ht|st t rest H IH Hq|st t fr rest sg H IH|st t sg H IH|st c H IH|st g H IH|st H IH].
    - split; [|exact I]. unfold tasks_ok, init_state. cbn. constructor; [|constructor]. reflexivity.
    - destruct IH as (A & _). split; [apply ok_dequeue; exact A|].
      destruct (find_task_in _ _ _ Hf) as [Hin _]. unfold tasks_ok in A. rewrite Forall_forall in A. specialize (A x Hin). unfold sw_TP in A. rewrite Ht in A. exact A.
    - destruct IH as (A & _). split; [apply ok_dequeue; exact A|exact I].
    - destruct IH as (A & B).
      pose proof (step_sw_tasks t fr sg st A) as A1.
      pose proof (step_sw_frames t fr sg st) as F1.
      cbn [forallb] in B. apply andb_true_iff in B. destruct B as [_ Br].
      assert (Hkk : forallb swf (dir_frames (snd (step_frame P t fr sg st)) ++ rest) = true) by (rewrite forallb_app, F1, Br; reflexivity).
      destruct (step_frame P t fr sg st) as [st1 [w k'|k'|k' sg'|sg']]; cbn [after_step fst snd dir_frames] in *.
      + split; [|exact I]. apply ok_suspend; [exact A1|]. intros y _ _. unfold sw_TP. cbn. exact Hkk.
      + split; [|exact I]. apply ok_push_ready. apply ok_set_tstate; [exact A1|]. intros y _ _. unfold sw_TP. cbn. exact Hkk.
      + split; [exact A1|exact Hkk].
      + split; [exact A1|exact Br].
    - destruct IH as (A & _). split; [|exact I]. apply ok_set_tstate; [exact A|]. intros y _ _. reflexivity.
    - destruct IH as (A & _). split; [|exact I]. apply ok_abort; [|exact A]. intros y k0 _. reflexivity.
    - destruct IH as (A & _). split; [|exact I]. apply (complete_gate_tasks_ok sw_TP sw_wake). exact A.
    - destruct IH as (A & _). split; [|exact I]. apply (ok_cancel_task sw_TP sw_cancel_ready sw_cancel_wait). exact A.
  Qed.
End SwitchKeys.

(* ---- node frames carry nodes that are not one-of heads, one-of frames carry heads (no hypothesis on the managers) ---- *)
Section KeyKindsInv.
  Variable P : prog.
  Theorem creach_key_kinds : forall st c, creach P st c ->
    tasks_ok (kk_TP P) st /\ (match c with Some (_, k, _) => forallb (kf P) k = true | None => True end).
  Proof.
    intros st c H.
    induction H as [|st t rest x k sg H IH Hq Hf Ht|st t rest H IH Hq|st t fr rest sg H IH|st t sg H IH|st c H IH|st g H IH|st H IH].
    - split; [|exact I]. unfold tasks_ok, init_state. cbn. constructor; [|constructor]. reflexivity.
    - destruct IH as (A & _). split; [apply ok_dequeue; exact A|].
      destruct (find_task_in _ _ _ Hf) as [Hin _]. unfold tasks_ok in A. rewrite Forall_forall in A. specialize (A x Hin). unfold kk_TP in A. rewrite Ht in A. exact A.
    - destruct IH as (A & _). split; [apply ok_dequeue; exact A|exact I].
    - destruct IH as (A & B).
      cbn [forallb] in B. apply andb_true_iff in B. destruct B as [Bf Br].
      pose proof (step_kk_tasks P t fr sg st Bf A) as A1.
      pose proof (step_kk_frames P t fr sg st Bf) as F1.
      assert (Hkk : forallb (kf P) (dir_frames (snd (step_frame P t fr sg st)) ++ rest) = true) by (rewrite forallb_app, F1, Br; reflexivity).
      destruct (step_frame P t fr sg st) as [st1 [w k'|k'|k' sg'|sg']]; cbn [after_step fst snd dir_frames] in *.
      + split; [|exact I]. apply ok_suspend; [exact A1|]. intros y _ _. unfold kk_TP. cbn. exact Hkk.
      + split; [|exact I]. apply ok_push_ready. apply ok_set_tstate; [exact A1|]. intros y _ _. unfold kk_TP. cbn. exact Hkk.
      + split; [exact A1|exact Hkk].
      + split; [exact A1|exact Br].
    - destruct IH as (A & _). split; [|exact I]. apply ok_set_tstate; [exact A|]. intros y _ _. reflexivity.
    - destruct IH as (A & _). split; [|exact I]. apply ok_abort; [|exact A]. intros y k0 _. reflexivity.
    - destruct IH as (A & _). split; [|exact I]. apply (complete_gate_tasks_ok (kk_TP P) (kk_wake P)). exact A.
    - destruct IH as (A & _). split; [|exact I]. apply (ok_cancel_task (kk_TP P) (kk_cancel_ready P) (kk_cancel_wait P)). exact A.
  Qed.
End KeyKindsInv.

Section OneOf.
  Variable P : prog.
  Notation G := (b_graph (build (p_decls P) (p_inp P) (p_out P))).
  Notation inp := (b_input (build (p_decls P) (p_inp P) (p_out P))).

  Definition cands (h : key) : list key := na_cands (nattr_of G h).
  (* the sub-pipeline of candidate c: what _run_oneof hands to _run_dag *)
  Definition cand_dag (c : key) : rdag := snd (reduced P init_state inp c true true).
  (* some node of the candidate's sub-pipeline has stored a failure *)
  Definition failed (tr : list obs) (c : key) : Prop :=
    exists k e, In k (d_nodes (cand_dag c)) /\ In (OSetResult k (VExn e)) tr.
  Definition all_failed (tr : list obs) (l : list key) : Prop := forall c, In c l -> failed tr c.

  Lemma failed_mono new tr c : failed tr c -> failed (new ++ tr) c.
  Proof. intros [k [e [A B]]]. exists k, e. split; [exact A|]. apply in_or_app. right. exact B. Qed.
  Lemma all_failed_mono new tr l : all_failed tr l -> all_failed (new ++ tr) l.
  Proof. intros H c Hc. apply failed_mono. exact (H c Hc). Qed.

  Definition oo (tr : list obs) (f : frame) : Prop :=
    match f with
    | FOneOfLoop _ h l => exists pre, cands h = pre ++ l /\ all_failed tr pre
    | FOneOfWait _ h c od rest => od = cand_dag c /\ exists pre, cands h = pre ++ c :: rest /\ all_failed tr pre
    | _ => True
    end.
  Definition stack_oo (tr : list obs) (k : list frame) : Prop := forall f, In f k -> oo tr f.
  Definition oo_TP (tr : list obs) (x : task frame) : Prop := stack_oo tr (estack (t_state x)).

  Lemma oo_mono new tr f : oo tr f -> oo (new ++ tr) f.
  Proof.
    destruct f; cbn [oo]; try (intros; exact I).
    - intros [pre [A B]]. exists pre. split; [exact A|apply all_failed_mono; exact B].
    - intros [E [pre [A B]]]. split; [exact E|]. exists pre. split; [exact A|apply all_failed_mono; exact B].
  Qed.
  Lemma stack_oo_mono new tr k : stack_oo tr k -> stack_oo (new ++ tr) k.
  Proof. intros H f Hf. apply oo_mono. exact (H f Hf). Qed.
  Lemma tasks_oo_mono new tr st : tasks_ok (oo_TP tr) st -> tasks_ok (oo_TP (new ++ tr)) st.
  Proof. unfold tasks_ok. apply Forall_impl. intros x. apply stack_oo_mono. Qed.

  Lemma oo_wake tr x w k : t_state x = TWait w k -> oo_TP tr x -> oo_TP tr (with_ts x (TReady k SGo)).
  Proof. unfold oo_TP. intros E H. rewrite E in H. exact H. Qed.
  Lemma oo_cancel_ready tr x k sg : t_state x = TReady k sg -> oo_TP tr x -> oo_TP tr (with_ts x (TReady k (SThrow XCancelled))).
  Proof. unfold oo_TP. intros E H. rewrite E in H. exact H. Qed.
  Lemma oo_cancel_wait tr x w k : t_state x = TWait w k -> oo_TP tr x -> oo_TP tr (with_ts x (TReady k (SThrow XCancelled))).
  Proof. unfold oo_TP. intros E H. rewrite E in H. exact H. Qed.

  Ltac oo_prims tr :=
    repeat first
           [ assumption
           | apply (ok_notify (oo_TP tr) (oo_wake tr)) | apply (ok_notify_keys (oo_TP tr) (oo_wake tr)) | apply (ok_set_event (oo_TP tr) (oo_wake tr))
           | apply (ok_cancel_tasks (oo_TP tr) (oo_cancel_ready tr) (oo_cancel_wait tr)) | apply (ok_cancel_task (oo_TP tr) (oo_cancel_ready tr) (oo_cancel_wait tr))
           | apply (ok_finally_a (oo_TP tr) (oo_wake tr)) | apply (ok_finally_b (oo_TP tr) (oo_wake tr))
           | apply ok_emit_obs | apply ok_with_store | apply ok_bump | apply ok_set_adddata | apply ok_push_ready | apply ok_fold_hide
           | apply (ok_wake_all (oo_TP tr) (oo_wake tr)) ].

  Lemma oo_single tr f i nm h : oo tr f -> oo_TP tr {| t_id := i; t_name := nm; t_state := TReady [f] SGo; t_helper := h |}.
  Proof. intros H g [<-|[]]. exact H. Qed.

  (* the tasks a step creates start with a full candidate list (nothing tried yet) or with a frame that is not a one-of frame *)
  Lemma step_oo_tasks tr t fr sg st : tasks_ok (oo_TP tr) st -> tasks_ok (oo_TP tr) (fst (step_frame P t fr sg st)).
  Proof.
    intros H. destruct fr; destruct sg; cbn [step_frame]; unfold default_or_raise, reduced;
      repeat break_match; spawn_norm; cbn [fst];
      repeat match goal with
             | |- tasks_ok _ (fst (spawn _ _ _ _)) =>
               apply ok_spawn; [|apply oo_single; cbn [oo]; first [exact I | exists []; split; [reflexivity|intros c []]]]
             | _ => progress oo_prims tr
             end.
  Qed.

  Lemma has_error_failed st od :
    Istore st -> has_subgraph_error (st_store st) od = true ->
    exists k e, In k (d_nodes od) /\ In (OSetResult k (VExn e)) (st_trace st).
  Proof.
    intros HI H. unfold has_subgraph_error in H. apply existsb_exists in H. destruct H as [k [Hk He]].
    unfold exists_error, get_result_opt in He. cbn [negb andb] in He.
    destruct (mem key_eqb k (s_res_hidden (st_store st))); [discriminate He|].
    destruct (alookup key_eqb k (s_results (st_store st))) as [v|] eqn:El; [|discriminate He].
    destruct v; try discriminate He. exists k, e. split; [exact Hk|]. apply HI. exact El.
  Qed.

  Lemma step_oo_frames t fr sg st f :
    Istore st -> oo (st_trace st) fr -> In f (dir_frames (snd (step_frame P t fr sg st))) ->
    oo (st_trace (fst (step_frame P t fr sg st))) f.
  Proof.
    intros HI Hfr.
    destruct (ev_trace _ _ (ev_step_frame P t fr sg st)) as [new Etr]. rewrite Etr. clear Etr. revert Hfr.
    destruct fr; try solve [ intros _; destruct sg; cbn [step_frame]; unfold default_or_raise, reduced; repeat break_match;
                             unfold emit_frames; cbn [snd dir_frames]; intros Hin;
                             repeat (destruct Hin as [Hin|Hin]; [subst f; exact I|]); contradiction ].
    - (* FOneOfLoop *)
      intros Hfr. destruct sg; cbn [step_frame]; unfold default_or_raise, reduced; repeat break_match;
        cbn [snd dir_frames]; intros Hin; repeat (destruct Hin as [Hin|Hin]; [subst f|]); try contradiction.
      cbn [oo] in *. split; [reflexivity|]. destruct Hfr as [pre [A B]]. exists pre. split; [exact A|apply all_failed_mono; exact B].
    - (* FOneOfWait *)
      intros Hfr. destruct sg; cbn [step_frame]; unfold default_or_raise, reduced; repeat break_match;
        cbn [snd dir_frames]; intros Hin; repeat (destruct Hin as [Hin|Hin]; [subst f|]); try contradiction.
      + cbn [oo] in *. destruct Hfr as [E [pre [A B]]]. exists (pre ++ [c]). split; [rewrite <- app_assoc; exact A|].
        apply all_failed_mono. intros c' Hc'. apply in_app_or in Hc'. destruct Hc' as [Hc'|[<-|[]]]; [exact (B c' Hc')|].
        subst od. match goal with Hq : has_subgraph_error _ _ = true |- _ => exact (has_error_failed st _ HI Hq) end.
      + apply oo_mono. exact Hfr.
  Qed.
End OneOf.

Section OneOfHistory.
  Variable P : prog.
  Notation G := (b_graph (build (p_decls P) (p_inp P) (p_out P))).
  Notation inp := (b_input (build (p_decls P) (p_inp P) (p_out P))).

  (* the storing of the result of a one-of, and the launch of a candidate's sub-pipeline *)
  Definition is_oo_event (o : obs) : bool :=
    match o with
    | OSetResult n _ => is_head G n && negb (is_switch G n)
    | OSpawn _ (TNDag _ _) => true
    | _ => false
    end.
  Notation bad := is_oo_event.
  Lemma oo_bad_hide k : bad (OHide k) = false. Proof. reflexivity. Qed.

  Lemma nq_spawn_other nm h k st : (forall t, bad (OSpawn t nm) = false) -> nq bad st (fst (spawn nm h k st)).
  Proof. intros Hb. exists [OSpawn (st_next st) nm]. split; [reflexivity|]. cbn [forallb]. rewrite Hb. reflexivity. Qed.

  Ltac solve_bad Hk Hs :=
    cbn [is_oo_event];
    first [ reflexivity
          | rewrite Hs; cbn [negb]; apply andb_false_r
          | apply negb_true_iff in Hk; rewrite Hk; reflexivity
          | apply andb_true_iff in Hk; destruct Hk as [Hk _]; apply negb_true_iff in Hk; rewrite Hk; reflexivity ].

  Ltac oq_prims Hk Hs :=
    repeat first
           [ apply nq_refl
           | apply nq_notify | apply nq_notify_keys | apply nq_set_event | apply nq_cancel_tasks | apply nq_cancel_task
           | apply nq_finally_a | apply nq_finally_b | apply nq_wake_all | (apply nq_fold_hide; [exact oo_bad_hide|])
           | (eapply nq_trans; [|apply nq_with_store]) | (eapply nq_trans; [|apply nq_bump])
           | (eapply nq_trans; [|apply nq_set_adddata]) | (eapply nq_trans; [|apply nq_push_ready])
           | (eapply nq_trans; [|apply nq_spawn_other; intros ?; reflexivity])
           | (eapply nq_trans; [|apply nq_emit; solve_bad Hk Hs]) ].

  Lemma step_oo_events t fr sg st :
    kf P fr = true -> swf P fr = true ->
    (exists d h, fr = FOneOfLoop d h [] /\ sg = SGo /\
                 st_trace (fst (step_frame P t fr sg st)) = OSetResult h (VExn (XEng EOneOfNoResult h)) :: st_trace st) \/
    (exists d h c od rest, fr = FOneOfWait d h c od rest /\ sg = SGo /\ exists_result c (st_store st) = true /\
                           st_trace (fst (step_frame P t fr sg st)) = OSetResult h (get_result c true (st_store st)) :: st_trace st) \/
    (exists d h c rest, fr = FOneOfLoop d h (c :: rest) /\ sg = SGo /\
                        st_trace (fst (step_frame P t fr sg st)) = OSpawn (st_next st) (TNDag inp c) :: st_trace st) \/
    nq bad st (fst (step_frame P t fr sg st)).
  Proof.
    intros Hk Hs. unfold kf, nhf in Hk. unfold swf in Hs.
    destruct fr; destruct sg; cbn [step_frame]; unfold default_or_raise, reduced; repeat break_match; spawn_norm; cbn [fst];
      cbn [node_of head_of andb] in Hk;
      first [ do 3 right; oq_prims Hk Hs; fail
            | left; do 2 eexists; split; [reflexivity|split; [reflexivity|]];
              autorewrite with core; cbn [st_trace emit_obs with_store]; reflexivity
            | right; left; do 5 eexists; split; [reflexivity|split; [reflexivity|]];
              split; [match goal with Hp : oneof_pred _ _ _ = true, He : has_subgraph_error _ _ = false |- _ =>
                                      unfold oneof_pred in Hp; rewrite He in Hp; cbn [orb] in Hp; apply andb_true_iff in Hp; exact (proj1 Hp) end|];
              autorewrite with core; cbn [st_trace emit_obs with_store]; reflexivity
            | right; right; left; do 4 eexists; split; [reflexivity|split; [reflexivity|]];
              cbn [st_trace spawn fst]; reflexivity ].
  Qed.

  Definition noresult (h : key) : value := VExn (XEng EOneOfNoResult h).
  Definition ev_ok (o : obs) (b : list obs) : Prop :=
    match o with
    | OSetResult h v =>
      (v = noresult h /\ all_failed P b (cands P h)) \/
      (exists pre c rest, cands P h = pre ++ c :: rest /\ In (OSetResult c v) b /\ all_failed P b pre)
    | OSpawn _ (TNDag _ c) =>
      exists h pre rest, is_head G h = true /\ cands P h = pre ++ c :: rest /\ all_failed P b pre
    | _ => True
    end.
  Definition hist_ok (tr : list obs) : Prop := forall a o b, tr = a ++ o :: b -> bad o = true -> ev_ok o b.

  Lemma hist_cons o tr : hist_ok tr -> (bad o = true -> ev_ok o tr) -> hist_ok (o :: tr).
  Proof.
    intros H Ho a o' b E Hb. destruct a as [|y a'].
    - cbn [app] in E. inversion E; subst. exact (Ho Hb).
    - cbn [app] in E. inversion E; subst. exact (H a' o' b eq_refl Hb).
  Qed.

  Theorem creach_oneof : forall st c, creach P st c ->
    tasks_ok (oo_TP P (st_trace st)) st /\
    (match c with Some (_, k, _) => stack_oo P (st_trace st) k | None => True end) /\
    hist_ok (st_trace st).
  Proof.
    intros st c H.
    induction H as [|st t rest x k sg H IH Hq Hf Ht|st t rest H IH Hq|st t fr rest sg H IH|st t sg H IH|st c H IH|st g H IH|st H IH].
    - split; [|split; [exact I|]].
      + unfold tasks_ok, init_state. cbn. constructor; [|constructor]. intros f [<-|[]]. exact I.
      + intros a o b E Hb. cbn in E. destruct a as [|y a']; [inversion E; subst; discriminate Hb|]. inversion E. destruct a'; discriminate.
    - destruct IH as (A & _ & Hh). split; [|split; [|exact Hh]].
      + change (tasks_ok (oo_TP P (st_trace st)) (dequeue st)). apply ok_dequeue. exact A.
      + destruct (find_task_in _ _ _ Hf) as [Hin _]. unfold tasks_ok in A. rewrite Forall_forall in A. specialize (A x Hin). unfold oo_TP in A. rewrite Ht in A. exact A.
    - destruct IH as (A & _ & Hh). split; [|split; [exact I|exact Hh]]. change (tasks_ok (oo_TP P (st_trace st)) (dequeue st)). apply ok_dequeue. exact A.
    - destruct IH as (A & B & Hh).
      pose proof (creach_store P _ _ H) as HI.
      destruct (creach_key_kinds P _ _ H) as (_ & Hkf).
      destruct (creach_switch_keys P _ _ H) as (_ & Hsw).
      cbn [forallb] in Hkf, Hsw. apply andb_true_iff in Hkf. destruct Hkf as [Hkf _]. apply andb_true_iff in Hsw. destruct Hsw as [Hsw _].
      pose proof (B fr (or_introl eq_refl)) as Bfr.
      destruct (ev_trace _ _ (ev_step_frame P t fr sg st)) as [new Etr].
      assert (A1 : tasks_ok (oo_TP P (st_trace (fst (step_frame P t fr sg st)))) (fst (step_frame P t fr sg st))).
      { apply step_oo_tasks. rewrite Etr. apply tasks_oo_mono. exact A. }
      assert (Hkk : stack_oo P (st_trace (fst (step_frame P t fr sg st))) (dir_frames (snd (step_frame P t fr sg st)) ++ rest)).
      { intros f Hin. apply in_app_or in Hin. destruct Hin as [Hin|Hin].
        - exact (step_oo_frames P t fr sg st f HI Bfr Hin).
        - rewrite Etr. apply oo_mono. apply B. right. exact Hin. }
      assert (Hh1 : hist_ok (st_trace (fst (step_frame P t fr sg st)))).
      { destruct (step_oo_events t fr sg st Hkf Hsw) as [[d [h (-> & -> & E)]]|[[d [h [c0 [od [rs (-> & -> & Hex & E)]]]]]|[[d [h [c0 [rs (-> & -> & E)]]]]|Hnq]]].
        - rewrite E. apply hist_cons; [exact Hh|]. intros _. cbn [ev_ok]. left. split; [reflexivity|].
          cbn [oo] in Bfr. destruct Bfr as [pre [Ec Hp]]. rewrite app_nil_r in Ec. rewrite Ec. exact Hp.
        - rewrite E. apply hist_cons; [exact Hh|]. intros _. cbn [ev_ok]. right.
          cbn [oo] in Bfr. destruct Bfr as [_ [pre [Ec Hp]]]. exists pre, c0, rs. split; [exact Ec|]. split; [|exact Hp].
          apply HI. apply exists_result_lookup. exact Hex.
        - rewrite E. apply hist_cons; [exact Hh|]. intros _. cbn [ev_ok].
          cbn [oo] in Bfr. destruct Bfr as [pre [Ec Hp]]. exists h, pre, rs. split; [|split; [exact Ec|exact Hp]].
          unfold kf in Hkf. cbn [head_of] in Hkf. apply andb_true_iff in Hkf. exact (proj2 Hkf).
        - destruct Hnq as [nw [E Hnw]]. rewrite E. intros a o b Eo Hb.
          destruct (split_old bad nw (st_trace st) a b o Hnw Hb Eo) as [a' [_ E']]. exact (Hh a' o b E' Hb). }
      rewrite !trace_after_step'.
      destruct (step_frame P t fr sg st) as [st1 [w k'|k'|k' sg'|sg']]; cbn [after_step fst snd dir_frames] in *.
      + split; [|split; [exact I|exact Hh1]]. apply ok_suspend; [exact A1|]. intros y _ _. unfold oo_TP. cbn. exact Hkk.
      + split; [|split; [exact I|exact Hh1]]. apply ok_push_ready. apply ok_set_tstate; [exact A1|]. intros y _ _. unfold oo_TP. cbn. exact Hkk.
      + split; [exact A1|split; [exact Hkk|exact Hh1]].
      + split; [exact A1|split; [|exact Hh1]]. intros f Hin. apply Hkk. exact Hin.
    - destruct IH as (A & _ & Hh). split; [|split; [exact I|exact Hh]]. apply ok_set_tstate; [exact A|]. intros y _ _ f [].
    - destruct IH as (A & _ & Hh). split; [|split; [exact I|exact Hh]]. apply ok_abort; [|exact A]. intros y k0 _ f [].
    - destruct IH as (A & _ & Hh). unfold complete_gate. rewrite trace_wake_all. split; [|split; [exact I|exact Hh]].
      apply (complete_gate_tasks_ok (oo_TP P _) (oo_wake P _)). exact A.
    - destruct IH as (A & _ & Hh). rewrite trace_cancel_task. split; [|split; [exact I|exact Hh]].
      apply (ok_cancel_task (oo_TP P _) (oo_cancel_ready P _) (oo_cancel_wait P _)). exact A.
  Qed.
End OneOfHistory.

(* [cands P h]: the candidates of the one-of h in declared order; [failed P b c]: in the history b some node of the sub-pipeline of
   candidate c has stored a failure; the history is newest first: in [a ++ o :: b], b is what happened before o *)
Theorem oneof_result_is_the_first_successful_candidate_all_programs P :
  forall st, reachable P st ->
    forall a b h v, st_trace st = a ++ OSetResult h v :: b ->
      is_head (b_graph (build (p_decls P) (p_inp P) (p_out P))) h = true ->
      is_switch (b_graph (build (p_decls P) (p_inp P) (p_out P))) h = false ->
      (v = noresult h /\ all_failed P b (cands P h)) \/
      (exists pre c rest, cands P h = pre ++ c :: rest /\ In (OSetResult c v) b /\ all_failed P b pre).
Proof.
  intros st Hr a b h v E Hh Hs. destruct (creach_oneof P st None (reachable_creach P st Hr)) as (_ & _ & Hh1).
  apply (Hh1 a (OSetResult h v) b E). cbn [is_oo_event]. rewrite Hh, Hs. reflexivity.
Qed.

Theorem oneof_candidates_are_tried_in_order_all_programs P :
  forall st, reachable P st ->
    forall a b t s c, st_trace st = a ++ OSpawn t (TNDag s c) :: b ->
      exists h pre rest, is_head (b_graph (build (p_decls P) (p_inp P) (p_out P))) h = true /\
                         cands P h = pre ++ c :: rest /\ all_failed P b pre.
Proof.
  intros st Hr a b t s c E. destruct (creach_oneof P st None (reachable_creach P st Hr)) as (_ & _ & Hh1).
  exact (Hh1 a (OSpawn t (TNDag s c)) b E eq_refl).
Qed.

(* at any moment a one-of is at exactly one position of its candidate list, everything before that position has failed *)
Theorem oneof_position_all_programs P :
  forall st x f, reachable P st -> In x (st_tasks st) -> In f (estack (t_state x)) -> oo P (st_trace st) f.
Proof.
  intros st x f Hr Hx Hf. destruct (creach_oneof P st None (reachable_creach P st Hr)) as (A & _ & _).
  unfold tasks_ok in A. rewrite Forall_forall in A. exact (A x Hx f Hf).
Qed.
