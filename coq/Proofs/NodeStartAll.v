(* ALL programs, every schedule, event managers that do not raise (suspending ones included): on_node_start comes first for each
   node (C14): a body is invoked, for any attempt, in any iteration, only after every manager has been told on_node_start for
   that node.  (The definitions adjS / pairsS / topS / deep are those of Proofs/PlainNodeStart.v; here the step lemmas are proved
   for every frame of the engine model.) *)
From MLPE Require Import Engine.Run Proofs.ExecLemmas Proofs.Evolve Proofs.StackInv Proofs.Micro Proofs.PlainLive Proofs.PlainCore Proofs.PlainInv
     Proofs.PlainExec Proofs.PlainEvents Proofs.PlainNodeStart Proofs.PipeAll.

Lemma trace_fold_hide (l : list key) (st : mstate) :
  st_trace (fold_left (fun s k => emit_obs (OHide k) s) l st) = map OHide (rev l) ++ st_trace st.
Proof.
  revert st. induction l as [|k r IH]; intros st; cbn [fold_left rev map app]; [reflexivity|].
  rewrite IH. cbn [emit_obs st_trace]. rewrite map_app. cbn [map]. rewrite <- app_assoc. reflexivity.
Qed.
Lemma hide_no_ostart (l : list key) : forallb (fun o => negb (is_ostart o)) (map OHide l) = true.
Proof. induction l as [|k r IH]; [reflexivity|]. cbn. exact IH. Qed.

Section StartStepsAll.
  Variable P : prog.
  Hypothesis Hnf : forall m ev n k, p_mgr_fault P m ev n k = false.

  Lemma step_pairsS_all t fr sg st :
    pairsS (dir_frames (snd (step_frame P t fr sg st))) = true /\
    (forall g, adjS fr g = true -> adjS (last (dir_frames (snd (step_frame P t fr sg st))) fr) g = true) /\
    dir_ne (snd (step_frame P t fr sg st)) = true /\
    is_retry_frame (last (dir_frames (snd (step_frame P t fr sg st))) fr) = is_retry_frame fr.
  Proof.
    destruct fr; destruct sg; cbn [step_frame]; unfold default_or_raise, reduced;
      repeat break_match; unfold emit_frames; cbn [snd dir_frames dir_ne pairsS last]; unfold adjS; cbn [is_retry_frame andb real_index]; rewrite ?key_eqb_refl, ?Nat.eqb_refl; cbn [andb];
      (split; [reflexivity|split; [intros g Hg; destruct g; cbn [is_retry_frame andb] in *; try reflexivity; try discriminate Hg; exact Hg|split; reflexivity]]).
  Qed.

  Lemma step_topS_all t fr sg st :
    topS P (st_trace st) fr (Some sg) ->
    top_afterS P (st_trace (fst (step_frame P t fr sg st))) fr (snd (step_frame P t fr sg st)).
  Proof.
    destruct fr; destruct sg; cbn [step_frame]; rewrite ?Hnf; unfold default_or_raise, reduced;
      repeat break_match; spawn_norm; cbn [fst snd];
      unfold emit_frames; cbn [top_afterS topCS topS]; intros Htop;
      try exact I;
      try (intros ? Hv; discriminate Hv).
    all: try (intros m Hm; exfalso; lia).
    all: try (intros v' _ g Hg; destruct g; unfold adjS in Hg; cbn [belowS is_retry_frame andb] in *; try exact I; try discriminate Hg).
    all: repeat match goal with
                | |- context [match ?e with EvPipelineStart => _ | _ => _ end] => destruct e
                | H : context [match ?e with EvPipelineStart => _ | _ => _ end] |- _ => destruct e
                | |- context [match ?o with Some _ => _ | None => _ end] => destruct o
                | H : context [match ?o with Some _ => _ | None => _ end] |- _ => destruct o
                end; try exact I; try discriminate.
    all: cbn [st_trace emit_obs bump fst] in *.
    all: try (intros m Hm Hp; first [apply Htop; lia | destruct (Nat.eq_dec m mgr) as [->|Hne]; [left; reflexivity|right; apply Htop; lia]]).
    all: try match goal with Hg : (key_eqb _ _ && true)%bool = true |- _ => rewrite andb_true_r in Hg; apply key_eqb_spec in Hg; subst end.
    all: try (intros m Hm; apply Htop; [|exact Hm]; match goal with Hq : (_ <=? _) = true |- _ => apply Nat.leb_le in Hq; lia end).
    all: try (apply Htop; eauto).
  Qed.

  Lemma step_after_body_all t fr sg st f n :
    In f (dir_frames (snd (step_frame P t fr sg st))) -> is_after_body f = Some n ->
    exists d0 f0 v, fr = FExecAfterStart d0 n f0 /\ sg = SVal v.
  Proof.
    destruct fr; destruct sg; cbn [step_frame]; unfold default_or_raise, reduced;
      repeat break_match; unfold emit_frames; cbn [snd dir_frames]; intros Hin Hr;
      repeat (destruct Hin as [Hin|Hin]; [subst f; cbn [is_after_body] in Hr; try discriminate Hr; inversion Hr; subst; eauto|]); try contradiction.
  Qed.

  Ltac prefix_of l tr :=
    lazymatch l with
    | tr => constr:(@nil obs)
    | ?x :: ?r => let p := prefix_of r tr in constr:(x :: p)
    end.

  Lemma step_trace_ostart_all t fr sg st :
    (exists i kw att, fr = FRetry i false kw att /\ sg = SGo /\
                      st_trace (fst (step_frame P t fr sg st)) = OStart i (ctr_get (CBody i) st) kw :: st_trace st) \/
    (exists new, st_trace (fst (step_frame P t fr sg st)) = new ++ st_trace st /\ forallb (fun o => negb (is_ostart o)) new = true).
  Proof.
    destruct fr; destruct sg; cbn [step_frame]; unfold default_or_raise, reduced;
      repeat break_match; spawn_norm; cbn [fst];
      unfold finally_a; autorewrite with core; cbn [st_trace emit_obs bump with_store spawn fst set_adddata];
      autorewrite with core; cbn [st_trace emit_obs bump with_store spawn fst set_adddata];
      first [ left; do 3 eexists; repeat split; reflexivity
            | right; rewrite trace_fold_hide; cbn [st_trace with_store]; eexists; split; [reflexivity|apply hide_no_ostart]
            | right;
              match goal with |- exists new, ?l = new ++ ?tr /\ _ => let p := prefix_of l tr in exists p; split; reflexivity end ].
  Qed.
End StartStepsAll.

Section StartInvAll.
  Variable P : prog.
  Hypothesis Hnf : forall m ev n k, p_mgr_fault P m ev n k = false.

  Lemma TPs_spawn tr i nm f : 1 <= i -> spawn_frame f = true -> TPs P tr {| t_id := i; t_name := nm; t_state := TReady [f] SGo; t_helper := true |}.
  Proof. intros _ Hf. unfold TPs. cbn. destruct f; try discriminate Hf; (apply stk_single; [reflexivity|reflexivity|intros; exact I]). Qed.

  Theorem creach_start_all : forall st c, creach P st c -> tasks_ok (TPs P (st_trace st)) st /\ cur_s P (st_trace st) c.
  Proof.
    intros st c H. pose proof (creach_evolves P st c H) as Hev0.
    induction H as [|st t rest x k sg H IH Hq Hf Ht|st t rest H IH Hq|st t fr rest sg H IH|st t sg H IH|st c H IH|st g H IH|st H IH].
    - split; [|exact I]. unfold tasks_ok, init_state. cbn. constructor; [|constructor]. unfold TPs. cbn. apply stk_single; [reflexivity|reflexivity|intros; exact I].
    - destruct (IH (creach_evolves P _ _ H)) as (A & _). split.
      + apply (tasks_TPs_same P _ _ st); [reflexivity|exact A].
      + destruct (find_task_in _ _ _ Hf) as [Hin _]. unfold tasks_ok in A. rewrite Forall_forall in A. specialize (A x Hin). unfold TPs in A. rewrite Ht in A. exact A.
    - destruct (IH (creach_evolves P _ _ H)) as (A & _). split; [|exact I]. apply (tasks_TPs_same P _ _ st); [reflexivity|exact A].
    - pose proof (creach_evolves P _ _ H) as Hev. destruct (IH Hev) as (A & ((Bp & Bb) & Bt & Bd)).
      pose proof (ev_next _ _ Hev) as Hn1. cbn in Hn1.
      destruct (step_pairsS_all P t fr sg st) as (Hp1 & Hp2 & Hp3 & Hp4).
      cbn [topCS] in Bt.
      pose proof (step_topS_all P Hnf t fr sg st Bt) as Htop.
      destruct (ev_trace _ _ (ev_step_frame P t fr sg st)) as [new Etr].
      assert (A1 : tasks_ok (TPs P (st_trace (fst (step_frame P t fr sg st)))) (fst (step_frame P t fr sg st))).
      { apply (step_frame_tasks_ok P (TPs P _) (TPs_wake P _) (TPs_cancel_ready P _) (TPs_cancel_wait P _) (TPs_spawn _)); [exact Hn1|].
        rewrite Etr. apply tasks_TPs_mono. exact A. }
      assert (Hpk : pairsS (dir_frames (snd (step_frame P t fr sg st)) ++ rest) = true) by (apply (pairsS_app fr); assumption).
      assert (Hbk : dir_frames (snd (step_frame P t fr sg st)) <> [] -> botS (dir_frames (snd (step_frame P t fr sg st)) ++ rest) = true) by (intros Hne; apply (botS_app fr); assumption).
      assert (Hdeep : deep P (st_trace (fst (step_frame P t fr sg st))) (dir_frames (snd (step_frame P t fr sg st)) ++ rest)).
      { intros f n Hin Hn. apply in_app_or in Hin. destruct Hin as [Hin|Hin].
        - destruct (step_after_body_all P t fr sg st f n Hin Hn) as [d0 [f0 [v [-> ->]]]].
          rewrite Etr. apply told_mono. cbn [topS] in Bt. apply Bt. eauto.
        - rewrite Etr. apply told_mono. apply (Bd f n); [right; exact Hin|exact Hn]. }
      rewrite !trace_after_step'.
      split.
      + destruct (step_frame P t fr sg st) as [st1 [w k'|k'|k' sg'|sg']]; cbn [after_step fst snd dir_frames dir_ne top_afterS] in *.
        * apply ok_suspend; [exact A1|]. intros y _ _. unfold TPs. cbn. destruct k' as [|f1 k'']; [discriminate Hp3|]. split; [split; [exact Hpk|apply Hbk; discriminate]|]. split; [exact Htop|exact Hdeep].
        * apply ok_push_ready. apply ok_set_tstate; [exact A1|]. intros y _ _. unfold TPs. cbn. destruct k' as [|f1 k'']; [discriminate Hp3|]. split; [split; [exact Hpk|apply Hbk; discriminate]|]. split; [exact Htop|exact Hdeep].
        * exact A1.
        * exact A1.
      + destruct (step_frame P t fr sg st) as [st1 [w k'|k'|k' sg'|sg']]; cbn [after_step fst snd dir_frames dir_ne top_afterS cur_s] in *; try exact I.
        * destruct k' as [|f1 k'']; [discriminate Hp3|]. split; [split; [exact Hpk|apply Hbk; discriminate]|]. split; [exact Htop|exact Hdeep].
        * split; [split; [exact (pairsS_tail _ _ Bp)|exact (botS_tail _ _ Bb)]|]. split; [|exact Hdeep]. destruct rest as [|g r]; [exact I|]. cbn [topCS].
          pose proof (pairsS_head _ _ _ Bp) as Hadj.
          destruct g; cbn [topS]; try exact I; try (unfold adjS in Hadj; cbn [andb] in Hadj; discriminate Hadj).
          all: intros [v0 Hv0]; inversion Hv0; subst sg'; exact (Htop v0 eq_refl _ Hadj).
    - destruct (IH (creach_evolves P _ _ H)) as (A & _). split; [|exact I]. apply ok_set_tstate; [exact A|]. intros y _ _. exact I.
    - destruct (IH (creach_evolves P _ _ H)) as (A & _). split; [|exact I]. apply ok_abort; [|exact A]. intros y k0 _. exact I.
    - destruct (IH (creach_evolves P _ _ H)) as (A & _). unfold complete_gate. rewrite trace_wake_all. split; [|exact I].
      apply (complete_gate_tasks_ok (TPs P _) (TPs_wake P _)). exact A.
    - destruct (IH (creach_evolves P _ _ H)) as (A & _). rewrite trace_cancel_task. split; [|exact I].
      apply (ok_cancel_task (TPs P _) (TPs_cancel_ready P _) (TPs_cancel_wait P _)). exact A.
  Qed.

  Theorem creach_start_order_all : forall st c, creach P st c -> tr_okS P (st_trace st).
  Proof.
    intros st c H.
    induction H as [|st t rest x k sg H IH Hq Hf Ht|st t rest H IH Hq|st t fr rest sg H IH|st t sg H IH|st c H IH|st g H IH|st H IH].
    - intros a b i k kw E. cbn in E. destruct a as [|y a']; [discriminate E|]. inversion E. destruct a'; discriminate.
    - exact IH.
    - exact IH.
    - destruct (creach_start_all _ _ H) as (_ & ((Bp & Bb) & _ & Bd)).
      rewrite trace_after_step'.
      destruct (step_trace_ostart_all P t fr sg st) as [[i [kw [att (-> & -> & Etr)]]]|[new [Etr Hnew]]].
      + rewrite Etr. intros a b i' k' kw' E. destruct a as [|y a'].
        * cbn [app] in E. inversion E; subst i' k' kw' b.
          destruct rest as [|g r]; [unfold botS in Bb; cbn in Bb; discriminate Bb|].
          pose proof (pairsS_head _ _ _ Bp) as Hadj. unfold adjS in Hadj. cbn [is_retry_frame] in Hadj. apply andb_true_iff in Hadj. destruct Hadj as [_ Hadj].
          destruct g; try discriminate Hadj. apply Nat.eqb_eq in Hadj. exists n. split; [symmetry; exact Hadj|].
          apply (Bd (FExecAfterBody d n) n); [right; left; reflexivity|reflexivity].
        * cbn [app] in E. inversion E as [[Ey E']]. exact (IH a' b i' k' kw' E').
      + rewrite Etr. intros a b i' k' kw' E. destruct (split_in_suffix new (st_trace st) a b (OStart i' k' kw') Hnew eq_refl E) as [a' [_ E']].
        exact (IH a' b i' k' kw' E').
    - exact IH.
    - exact IH.
    - unfold complete_gate. rewrite trace_wake_all. exact IH.
    - rewrite trace_cancel_task. exact IH.
  Qed.
End StartInvAll.

Theorem bodies_start_after_node_start_all_programs P :
  (forall m ev n k, p_mgr_fault P m ev n k = false) ->
  forall st, reachable P st ->
    forall a b i k kw, st_trace st = a ++ OStart i k kw :: b ->
      exists nd, real_index nd = i /\ forall m, m < p_mgrs P -> In (start_ev m nd) b.
Proof. intros Hnf st Hr. exact (creach_start_order_all P Hnf st None (reachable_creach P st Hr)). Qed.
