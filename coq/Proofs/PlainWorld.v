(* Plain DAGs (no switch, no one-of head, bodies that never ask for another iteration): the part of the engine that such a
   program can reach. Every frame of every task is a "plain" frame over the one main DAG, every stored result and every value
   in flight is an ordinary value, nothing is ever hidden. For all schedules. *)
From MLPE Require Import Engine.Run Proofs.ExecLemmas Proofs.Evolve Explore.StateEq Proofs.ProcessedInv.

Definition clean (v : value) : bool := negb (is_rec v) && negb (is_exn v).
Definition clean_sig (sg : signal) : Prop := match sg with SVal v => clean v = true | _ => True end.

Section Plain.
  Variable P : prog.
  Notation G := (b_graph (build (p_decls P) (p_inp P) (p_out P))).
  Notation inp := (b_input (build (p_decls P) (p_inp P) (p_out P))).
  Notation out := (b_output (build (p_decls P) (p_inp P) (p_out P))).

  (* the reduced DAG of the whole run *)
  Definition maind : rdag :=
    {| d_nodes := path_nodes G (filtered_view P false out) inp out; d_src := inp; d_dst := out;
       d_rec := false; d_oneof := false; d_nested := false |}.
  Definition is_main (d : rdag) : bool := rdag_seqb d maind.

  Lemma is_main_eq d : is_main d = true -> d = maind.
  Proof. apply rdag_seqb_sound. Qed.
  Lemma is_main_refl : is_main maind = true.
  Proof.
    unfold is_main, rdag_seqb. destruct maind as [ns s d r o ne]. cbn.
    assert (L : forall l : list key, list_eqb key_seqb l l = true).
    { induction l as [|k l IH]; cbn; [reflexivity|]. rewrite IH, andb_true_r. destruct k; cbn; rewrite ?Nat.eqb_refl; reflexivity. }
    assert (K : forall k : key, key_seqb k k = true) by (destruct k; cbn; rewrite ?Nat.eqb_refl; reflexivity).
    rewrite L, !K. destruct r, o, ne; reflexivity.
  Qed.

  Hypothesis Hsw : forall n, is_switch G n = false.
  Hypothesis Hhd : forall n, is_head G n = false.
  Hypothesis Hbody : forall i kw a v, p_body P i kw a = OVal v -> clean v = true.

  Definition plain_frame (f : frame) : bool :=
    match f with
    | FChartStart | FChartAfterStart | FChartAfterRun | FChartAfterEmitErr _ | FRunWait => true
    | FChartAfterEmitOk v => clean v
    | FEmit _ _ _ _ _ _ => true
    | FSave _ v _ _ => clean v
    | FDagStart d | FDagFinal d | FDagLoop d _ _ => is_main d
    | FNodeStart d _ f => is_main d && negb f
    | FNodeAfterExec d _ => is_main d
    | FNodeAfterSave d _ u => is_main d && u
    | FExecStart d _ f | FExecAfterStart d _ f => is_main d && negb f
    | FExecDup _ => true
    | FExecAfterBody d _ => is_main d
    | FExecAfterErr d e => is_main d && is_Exception e
    | FExecAfterOk d _ v => is_main d && clean v
    | FRetry _ f _ _ => negb f
    | FRetryAfterBody _ _ _ | FRetryAfterEmit _ _ _ | FRetryAfterSleep _ _ _ => true
    | _ => false
    end.
  Definition plain_stack (k : list frame) : bool := forallb plain_frame k.

  Definition plain_store (s : storage) : Prop :=
    forallb (fun kv => clean (snd kv)) (s_results s) = true /\ s_res_hidden s = [] /\ s_proc_hidden s = [].

  Lemma aset_clean k v l :
    clean v = true -> forallb (fun kv : key * value => clean (snd kv)) l = true ->
    forallb (fun kv : key * value => clean (snd kv)) (aset key_eqb k v l) = true.
  Proof.
    intros Hv. induction l as [|[k' v'] r IH]; cbn; [rewrite Hv; reflexivity|].
    intros H. apply andb_true_iff in H. destruct H as [H1 H2]. destruct (key_eqb k k'); cbn; [rewrite Hv, H2; reflexivity|rewrite H1, IH; auto].
  Qed.

  Lemma plain_set_result k v s : clean v = true -> plain_store s -> plain_store (set_result k v s).
  Proof. intros Hv [A [B C]]. unfold plain_store, set_result. cbn. rewrite B. cbn. split; [apply aset_clean; assumption|auto]. Qed.

  Lemma plain_get_result k b s : plain_store s -> clean (get_result k b s) = true.
  Proof.
    intros [A [B C]]. unfold get_result, get_result_opt. rewrite B. cbn [mem]. rewrite andb_false_r.
    induction (s_results s) as [|[k' v'] r IH]; cbn in *; [reflexivity|].
    apply andb_true_iff in A. destruct A as [A1 A2]. destruct (key_eqb k k'); [exact A1|apply IH; exact A2].
  Qed.

  Lemma plain_exists_error k s : plain_store s -> exists_error k s = false.
  Proof.
    intros [A [B C]]. unfold exists_error, get_result_opt. rewrite B. cbn [mem]. rewrite andb_false_r.
    induction (s_results s) as [|[k' v'] r IH]; cbn in *; [reflexivity|].
    apply andb_true_iff in A. destruct A as [A1 A2]. destruct (key_eqb k k'); [|apply IH; exact A2].
    unfold clean in A1. apply andb_true_iff in A1. destruct A1 as [_ A1]. apply negb_true_iff in A1. exact A1.
  Qed.

  Lemma plain_set_processed k s : plain_store s -> plain_store (set_processed k s).
  Proof. intros [A [B C]]. unfold plain_store, set_processed. cbn. rewrite C. auto. Qed.

  Definition plain_TP (x : task frame) : Prop :=
    match t_state x with
    | TReady k sg => plain_stack k = true /\ clean_sig sg
    | TWait _ k => plain_stack k = true
    | TDone _ => True
    end.
  Lemma plain_TP_wake x w k : t_state x = TWait w k -> plain_TP x -> plain_TP (with_ts x (TReady k SGo)).
  Proof. unfold plain_TP. intros E H. rewrite E in H. cbn. auto. Qed.
  Lemma plain_TP_cancel_ready x k sg : t_state x = TReady k sg -> plain_TP x -> plain_TP (with_ts x (TReady k (SThrow XCancelled))).
  Proof. unfold plain_TP. intros E H. rewrite E in H. cbn. destruct H. auto. Qed.
  Lemma plain_TP_cancel_wait x w k : t_state x = TWait w k -> plain_TP x -> plain_TP (with_ts x (TReady k (SThrow XCancelled))).
  Proof. unfold plain_TP. intros E H. rewrite E in H. cbn. auto. Qed.

  Definition plain_state (st : mstate) : Prop := plain_store (st_store st) /\ tasks_ok plain_TP st.

  Lemma plain_dep_error s d n : plain_store s -> dep_error P s d n = None.
  Proof.
    intros H. unfold dep_error.
    assert (E : filter (fun p => exists_error p s) (map (resolve_switch P s) (ready_preds P d n)) = []).
    { induction (map (resolve_switch P s) (ready_preds P d n)) as [|x r IH]; cbn; [reflexivity|]. rewrite (plain_exists_error x s H). exact IH. }
    rewrite E. reflexivity.
  Qed.

  Lemma plain_no_subgraph_error s d : plain_store s -> has_subgraph_error s d = false.
  Proof.
    intros H. unfold has_subgraph_error. induction (d_nodes d) as [|x r IH]; cbn; [reflexivity|]. rewrite (plain_exists_error x s H). exact IH.
  Qed.

  Definition dir_plain (d : directive) : Prop :=
    match d with
    | DSuspend _ k' | DYield k' => plain_stack k' = true
    | DCont k' sg' => plain_stack k' = true /\ clean_sig sg'
    | DRet sg' => clean_sig sg'
    end.

  Lemma clean_not_rec v : clean v = true -> is_rec v = false.
  Proof. unfold clean. intros H. apply andb_true_iff in H. destruct H as [H _]. apply negb_true_iff in H. exact H. Qed.
  Lemma clean_not_exn v : clean v = true -> is_exn v = false.
  Proof. unfold clean. intros H. apply andb_true_iff in H. destruct H as [_ H]. apply negb_true_iff in H. exact H. Qed.

  Lemma decide_return_clean i kw att v :
    retry_decide (nspec_of P i) (p_body P i kw (Nat.pred att)) att = RDReturn v -> clean v = true.
  Proof.
    unfold retry_decide. destruct (p_body P i kw (Nat.pred att)) as [w|c] eqn:E.
    - intros H. inversion H; subst. eapply Hbody. exact E.
    - repeat break_match; discriminate.
  Qed.

  Ltac plain_prep Hf Hs Hst :=
    repeat match goal with
           | H : (_ && _)%bool = true |- _ => apply andb_true_iff in H; destruct H
           | H : is_main ?d = true |- _ => apply is_main_eq in H; subst d
           | H : negb ?f = true |- _ => apply negb_true_iff in H; subst f
           | H : ?u = true |- _ => is_var u; subst u
           end.

  (* what a plain frame leaves on the stack, and the signal it passes on *)
  Lemma plain_step_dir t fr sg st :
    plain_frame fr = true -> clean_sig sg -> plain_store (st_store st) -> dir_plain (snd (step_frame P t fr sg st)).
  Proof.
    intros Hf Hs Hst.
    destruct fr; try discriminate Hf; cbn [plain_frame] in Hf; plain_prep Hf Hs Hst;
      destruct sg; cbn [clean_sig] in Hs;
      try match goal with H : clean ?v = true |- _ => pose proof (clean_not_rec v H) as Hnr; pose proof (clean_not_exn v H) as Hne end;
      cbn [step_frame]; rewrite ?Hnr, ?Hne, ?Hsw, ?Hhd, ?(plain_dep_error _ _ _ Hst), ?(plain_no_subgraph_error _ _ Hst);
      unfold default_or_raise, reduced; cbn [d_oneof d_rec maind andb];
      repeat break_match; cbn [snd dir_plain]; try exact I;
      cbn [plain_stack forallb plain_frame emit_frames clean_sig]; rewrite ?is_main_refl; cbn [andb negb];
      repeat split; try reflexivity; try exact I; try assumption; try (apply plain_get_result; assumption);
      try (rewrite andb_true_r); try assumption; try (eapply decide_return_clean; eassumption).
  Qed.

  (* ---- the storage stays plain ---- *)
  Definition PS (st : mstate) : Prop := plain_store (st_store st).
  Lemma ps_same st st' : same_st st st' -> PS st -> PS st'.
  Proof. intros [S _]. unfold PS. rewrite S. auto. Qed.
  Lemma ps_notify c st : PS st -> PS (notify c st). Proof. apply ps_same, s_notify, same_refl. Qed.
  Lemma ps_notify_keys ks st : PS st -> PS (notify_keys ks st). Proof. apply ps_same, s_notify_keys, same_refl. Qed.
  Lemma ps_set_event n st : PS st -> PS (set_event n st). Proof. apply ps_same, s_set_event, same_refl. Qed.
  Lemma ps_cancel_tasks ts st : PS st -> PS (cancel_tasks ts st). Proof. apply ps_same, s_cancel_tasks, same_refl. Qed.
  Lemma ps_cancel_task t st : PS st -> PS (cancel_task t st). Proof. apply ps_same, s_cancel_task, same_refl. Qed.
  Lemma ps_finally_a n st : PS st -> PS (finally_a n st). Proof. apply ps_same, s_finally_a, same_refl. Qed.
  Lemma ps_finally_b d n st : PS st -> PS (finally_b P d n st). Proof. apply ps_same, s_finally_b, same_refl. Qed.
  Lemma ps_wake_all w sg st : PS st -> PS (wake_all w sg st). Proof. apply ps_same, s_wake_all, same_refl. Qed.
  Lemma ps_emit o st : PS st -> PS (emit_obs o st). Proof. auto. Qed.
  Lemma ps_bump c st : PS st -> PS (bump c st). Proof. auto. Qed.
  Lemma ps_set_adddata k v st : PS st -> PS (set_adddata k v st). Proof. auto. Qed.
  Lemma ps_spawn nm h k st : PS st -> PS (fst (spawn nm h k st)). Proof. auto. Qed.
  Lemma ps_set_result k v st : clean v = true -> PS st -> PS (with_store (set_result k v) st).
  Proof. intros Hv H. unfold PS. cbn. apply plain_set_result; assumption. Qed.
  Lemma ps_set_processed k st : PS st -> PS (with_store (set_processed k) st).
  Proof. intros H. unfold PS. cbn. apply plain_set_processed. exact H. Qed.

  Ltac ps_prims :=
    repeat first
           [ assumption
           | apply ps_notify | apply ps_notify_keys | apply ps_set_event | apply ps_cancel_tasks | apply ps_cancel_task
           | apply ps_finally_a | apply ps_finally_b | apply ps_wake_all | apply ps_emit | apply ps_bump | apply ps_set_adddata
           | apply ps_spawn | apply ps_set_processed | (apply ps_set_result; [assumption|]) ].

  Lemma plain_step_store t fr sg st :
    plain_frame fr = true -> clean_sig sg -> PS st -> PS (fst (step_frame P t fr sg st)).
  Proof.
    intros Hf Hs Hst. pose proof Hst as Hst'. unfold PS in Hst'.
    destruct fr; try discriminate Hf; cbn [plain_frame] in Hf; plain_prep Hf Hs Hst;
      destruct sg; cbn [clean_sig] in Hs;
      try match goal with H : clean ?v = true |- _ => pose proof (clean_not_rec v H) as Hnr; pose proof (clean_not_exn v H) as Hne end;
      cbn [step_frame]; rewrite ?Hnr, ?Hne, ?Hsw, ?Hhd, ?(plain_dep_error _ _ _ Hst'), ?(plain_no_subgraph_error _ _ Hst');
      unfold default_or_raise, reduced; cbn [d_oneof d_rec maind andb];
      repeat break_match; spawn_norm; cbn [fst]; ps_prims.
  Qed.

  (* ---- every task stays plain ---- *)
  Lemma plain_spawned i nm h f : plain_frame f = true -> plain_TP {| t_id := i; t_name := nm; t_state := TReady [f] SGo; t_helper := h |}.
  Proof. intros Hf. unfold plain_TP. cbn. rewrite Hf. auto. Qed.

  Ltac pt_prims :=
    repeat first
           [ assumption
           | apply (ok_notify plain_TP plain_TP_wake) | apply (ok_notify_keys plain_TP plain_TP_wake)
           | apply (ok_set_event plain_TP plain_TP_wake)
           | apply (ok_cancel_tasks plain_TP plain_TP_cancel_ready plain_TP_cancel_wait)
           | apply (ok_cancel_task plain_TP plain_TP_cancel_ready plain_TP_cancel_wait)
           | apply (ok_finally_a plain_TP plain_TP_wake) | apply (ok_finally_b plain_TP plain_TP_wake)
           | apply ok_emit_obs | apply ok_with_store | apply ok_bump | apply ok_set_adddata | apply ok_push_ready
           | apply (ok_wake_all plain_TP plain_TP_wake)
           | (apply ok_spawn; [|apply plain_spawned; cbn [plain_frame]; rewrite ?is_main_refl; reflexivity]) ].

  Lemma plain_step_tasks t fr sg st :
    plain_frame fr = true -> clean_sig sg -> PS st -> tasks_ok plain_TP st -> tasks_ok plain_TP (fst (step_frame P t fr sg st)).
  Proof.
    intros Hf Hs Hst Ht. pose proof Hst as Hst'. unfold PS in Hst'.
    destruct fr; try discriminate Hf; cbn [plain_frame] in Hf; plain_prep Hf Hs Hst;
      destruct sg; cbn [clean_sig] in Hs;
      try match goal with H : clean ?v = true |- _ => pose proof (clean_not_rec v H) as Hnr; pose proof (clean_not_exn v H) as Hne end;
      cbn [step_frame]; rewrite ?Hnr, ?Hne, ?Hsw, ?Hhd, ?(plain_dep_error _ _ _ Hst'), ?(plain_no_subgraph_error _ _ Hst');
      unfold default_or_raise, reduced; cbn [d_oneof d_rec maind andb];
      repeat break_match; spawn_norm; cbn [fst];
      try match goal with H : is_switch _ _ = true |- _ => rewrite Hsw in H; discriminate H end;
      try match goal with H : is_head _ _ = true |- _ => rewrite Hhd in H; discriminate H end;
      fold maind; pt_prims.
  Qed.

  Lemma plain_stack_app a b : plain_stack (a ++ b) = plain_stack a && plain_stack b.
  Proof. unfold plain_stack. apply forallb_app. Qed.

  Lemma exec_plain fuel t k sg st :
    PS st -> tasks_ok plain_TP st -> plain_stack k = true -> clean_sig sg ->
    PS (exec P fuel t k sg st) /\ tasks_ok plain_TP (exec P fuel t k sg st).
  Proof.
    intros H1 H2 H3 H4.
    apply (exec_rule P t (fun k sg s => PS s /\ tasks_ok plain_TP s /\ plain_stack k = true /\ clean_sig sg)
                     (fun s => PS s /\ tasks_ok plain_TP s)); [| |auto].
    - intros sg' s [A [B _]]. split; [exact A|]. apply ok_set_tstate; [exact B|]. intros x _ _. exact I.
    - intros fr rest sg' s [A [B [C D]]]. split.
      { split; [exact A|]. apply ok_abort; [|exact B]. intros x k0 _. exact I. }
      cbn [plain_stack forallb] in C. apply andb_true_iff in C. destruct C as [Cf Cr].
      pose proof (plain_step_dir t fr sg' s Cf D A) as Hd.
      pose proof (plain_step_store t fr sg' s Cf D A) as Hs.
      pose proof (plain_step_tasks t fr sg' s Cf D A B) as Ht.
      destruct (step_frame P t fr sg' s) as [st1 [w k'|k'|k' sg''|sg'']]; cbn [fst snd dir_plain] in *.
      + split; [exact Hs|]. apply ok_suspend; [exact Ht|]. intros x _ _. unfold plain_TP. cbn. rewrite plain_stack_app, Hd. exact Cr.
      + split; [exact Hs|]. apply ok_push_ready. apply ok_set_tstate; [exact Ht|]. intros x _ _. unfold plain_TP. cbn.
        rewrite plain_stack_app, Hd. auto.
      + destruct Hd as [Hk Hsg]. rewrite plain_stack_app, Hk. auto.
      + auto.
  Qed.

  Theorem reachable_plain : forall st, reachable P st -> PS st /\ tasks_ok plain_TP st.
  Proof.
    apply (reachable_inv P (fun st => PS st /\ tasks_ok plain_TP st)).
    - split; [unfold PS, plain_store; cbn; auto|]. unfold tasks_ok, init_state. cbn. constructor; [|constructor]. unfold plain_TP. cbn. auto.
    - intros st _ [A B]. apply (loop_step_rule P (fun s => PS s /\ tasks_ok plain_TP s)); [auto|auto| |].
      + intros. split; [exact A|apply ok_dequeue; exact B].
      + intros t rest x k sg Hq Hf Ht. destruct (find_task_in _ _ _ Hf) as [Hin _].
        unfold tasks_ok in B. rewrite Forall_forall in B. pose proof (B x Hin) as Hx. unfold plain_TP in Hx. rewrite Ht in Hx.
        destruct Hx as [Hk Hsg]. apply exec_plain; [exact A|apply ok_dequeue; unfold tasks_ok; rewrite Forall_forall; exact B|exact Hk|exact Hsg].
    - intros st g _ [A B]. split; [unfold complete_gate; apply ps_wake_all; exact A|apply (complete_gate_tasks_ok plain_TP plain_TP_wake); exact B].
    - intros st _ [A B]. split; [apply ps_cancel_task; exact A|apply (ok_cancel_task plain_TP plain_TP_cancel_ready plain_TP_cancel_wait); exact B].
  Qed.
End Plain.
