(* Plain programs: a proof principle for invariants of the form "every task, in its effective state, satisfies Phi", where Phi may
   depend on monotone facts of the whole state. One lemma per kind of transition of Proofs/Micro.v. *)
From MLPE Require Import Engine.Run Proofs.ExecLemmas Proofs.Evolve Proofs.StackInv Proofs.ReadyInv Proofs.WaitInv Explore.StateEq
     Proofs.ProcessedInv Proofs.PlainWorld Proofs.PlainLaunch Proofs.PlainLive Proofs.Micro Proofs.PlainBase Proofs.PlainCore.

Definition idt := (tid * tname * bool)%type.
Definition TPc (Phi : idt -> tstate frame -> Prop) (c : running) (x : task frame) : Prop := Phi (ident x) (estate c x).
Definition allT (Phi : idt -> tstate frame -> Prop) (st : mstate) (c : running) : Prop := tasks_ok (TPc Phi c) st.

Lemma allT_In (Phi : idt -> tstate frame -> Prop) st c x : allT Phi st c -> In x (st_tasks st) -> Phi (ident x) (estate c x).
Proof. unfold allT, tasks_ok. rewrite Forall_forall. intros H Hx. exact (H x Hx). Qed.

Lemma allT_impl (Phi Psi : idt -> tstate frame -> Prop) st c :
  (forall x, In x (st_tasks st) -> Phi (ident x) (estate c x) -> Psi (ident x) (estate c x)) -> allT Phi st c -> allT Psi st c.
Proof. unfold allT, tasks_ok. rewrite !Forall_forall. intros H H0 x Hx. apply H; [exact Hx|]. exact (H0 x Hx). Qed.

(* the state the running task will be recorded with after a step *)
Definition nstate (rest : list frame) (d : directive) : tstate frame :=
  match d with
  | DSuspend w k' => TWait w (k' ++ rest)
  | DYield k' => TReady (k' ++ rest) SGo
  | DCont k' sg' => match k' ++ rest with [] => TDone sg' | _ => TReady (k' ++ rest) sg' end
  | DRet sg' => match rest with [] => TDone sg' | _ => TReady rest sg' end
  end.

Lemma ident_with_ts (x : task frame) ts : ident (with_ts x ts) = ident x.
Proof. reflexivity. Qed.

Lemma nodup_ids_inj (l : list (task frame)) x y :
  NoDup (map (@t_id frame) l) -> In x l -> In y l -> t_id x = t_id y -> x = y.
Proof.
  induction l as [|z r IH]; [contradiction|]. cbn [map]. intros Hnd Hx Hy E. inversion Hnd as [|a b Hni Hr]; subst.
  destruct Hx as [Hx|Hx]; destruct Hy as [Hy|Hy].
  - congruence.
  - subst z. exfalso. apply Hni. rewrite E. apply in_map. exact Hy.
  - subst z. exfalso. apply Hni. rewrite <- E. apply in_map. exact Hx.
  - apply IH; assumption.
Qed.

Lemma upd_task_Forall2 (Q Q' : task frame -> Prop) t f (l : list (task frame)) :
  NoDup (map (@t_id frame) l) -> Forall Q l ->
  (forall x, find_task t l = Some x -> Q x -> Q' (f x)) -> (forall x, t_id x <> t -> Q x -> Q' x) -> Forall Q' (upd_task t f l).
Proof.
  induction l as [|y r IH]; cbn [upd_task map find_task]; intros Hnd H Hf Ho; [constructor|].
  inversion H; subst. inversion Hnd as [|a b Hni Hr]; subst. destruct (Nat.eqb (t_id y) t) eqn:E.
  - constructor; [apply Hf; [reflexivity|assumption]|]. apply Nat.eqb_eq in E.
    rewrite Forall_forall in *. intros z Hz. apply Ho; [|auto]. intros Ez. apply Hni. rewrite E, <- Ez. apply in_map. exact Hz.
  - constructor; [apply Ho; [apply Nat.eqb_neq; exact E|assumption]|]. apply IH; assumption.
Qed.

Section Inv.
  Variable P : prog.
  Notation G := (b_graph (build (p_decls P) (p_inp P) (p_out P))).
  Hypothesis Hsw : forall n, is_switch G n = false.
  Hypothesis Hhd : forall n, is_head G n = false.
  Hypothesis Hbody : forall i kw a v, p_body P i kw a = OVal v -> clean v = true.

  Definition wake_closed (Phi : idt -> tstate frame -> Prop) : Prop :=
    forall i w k, Phi i (TWait w k) -> Phi i (TReady k SGo).

  Lemma base_nodup st c : base P st c -> NoDup (map (@t_id frame) (st_tasks st)).
  Proof. intros Hb. destruct (evolved_shape _ (b_ev _ _ _ Hb)) as [x0 [r [_ [_ [_ [_ [Hnd _]]]]]]]. exact Hnd. Qed.

  (* ---- starting an iteration: the running task's effective state is the recorded one ---- *)
  Lemma allT_start (Phi : idt -> tstate frame -> Prop) st t x k sg :
    base P st None -> find_task t (st_tasks st) = Some x -> t_state x = TReady k sg ->
    allT Phi st None -> allT Phi (dequeue st) (Some (t, k, sg)).
  Proof.
    intros Hb Hf Ht H. pose proof (base_nodup _ _ Hb) as Hnd.
    destruct (find_task_in _ _ _ Hf) as [Hin Hid].
    pose proof (b_stacks _ _ _ Hb) as Hs. unfold stacks_ok, tasks_ok in Hs. rewrite Forall_forall in Hs.
    destruct (Hs x Hin) as [_ Hx]. rewrite Ht in Hx. destruct Hx as [[Hne _] _].
    unfold allT, tasks_ok in *. cbn [dequeue st_tasks]. rewrite Forall_forall in *. intros y Hy. specialize (H y Hy).
    unfold TPc in *. cbn [estate] in *. destruct (Nat.eqb (t_id y) t) eqn:E; [|exact H].
    apply Nat.eqb_eq in E. assert (y = x) by (apply (nodup_ids_inj _ _ _ Hnd Hy Hin); congruence).
    subst y. rewrite Ht in H. destruct k; [contradiction|exact H].
  Qed.

  Lemma allT_skip (Phi : idt -> tstate frame -> Prop) st : allT Phi st None -> allT Phi (dequeue st) None.
  Proof. intros H. exact H. Qed.

  (* ---- finishing: nothing changes ---- *)
  Lemma allT_done (Phi : idt -> tstate frame -> Prop) st t sg : base P st (Some (t, [], sg)) -> allT Phi st (Some (t, [], sg)) -> allT Phi (set_tstate t (TDone sg) st) None.
  Proof.
    intros Hb H. pose proof (base_nodup _ _ Hb) as Hnd. unfold allT, tasks_ok, set_tstate in *. cbn [st_tasks].
    apply (upd_task_Forall2 _ _ _ _ _ Hnd H).
    - intros y Hy Hty. destruct (find_task_in _ _ _ Hy) as [_ Hid]. unfold TPc in *. cbn [estate] in *.
      rewrite Hid, Nat.eqb_refl in Hty. exact Hty.
    - intros y Hy Hty. unfold TPc in *. cbn [estate] in *. apply Nat.eqb_neq in Hy. rewrite Hy in Hty. exact Hty.
  Qed.

  (* ---- an external completion ---- *)
  Lemma allT_gate (Phi : idt -> tstate frame -> Prop) st g : wake_closed Phi -> allT Phi st None -> allT Phi (complete_gate g st) None.
  Proof.
    intros Hw H. unfold allT in *. apply complete_gate_tasks_ok; [|exact H].
    intros x w k Hx Hp. unfold TPc in *. cbn [estate] in *. rewrite Hx in Hp. rewrite ident_with_ts. cbn. eapply Hw. exact Hp.
  Qed.

  (* ---- the caller cancels the chart task ---- *)
  Lemma allT_cancel_main (Phi : idt -> tstate frame -> Prop) st :
    (forall i k sg, fst (fst i) = main_tid -> Phi i (TReady k sg) -> Phi i (TReady k (SThrow XCancelled))) ->
    (forall i w k, fst (fst i) = main_tid -> Phi i (TWait w k) -> Phi i (TReady k (SThrow XCancelled))) ->
    allT Phi st None -> allT Phi (cancel_task main_tid st) None.
  Proof.
    intros Hr Hw H. unfold allT in *. unfold cancel_task. destruct (find_task main_tid (st_tasks st)) as [x|] eqn:F; [|exact H].
    destruct (find_task_in _ _ _ F) as [_ Hid].
    destruct x as [i nm [k s|w k|r] h]; try exact H.
    - apply ok_set_tstate; [exact H|]. intros y Hy HT. rewrite F in Hy. inversion Hy; subst y. unfold TPc in *. cbn [estate] in *.
      rewrite ident_with_ts. cbn [t_state with_ts] in *. eapply Hr; [exact Hid|exact HT].
    - match goal with |- tasks_ok _ (push_ready _ ?s) => apply (tasks_ok_same _ s); [reflexivity|] end.
      apply ok_set_tstate; [exact H|]. intros y Hy HT. cbn in Hy. rewrite F in Hy. inversion Hy; subst y. unfold TPc in *. cbn [estate] in *.
      rewrite ident_with_ts. cbn [t_state with_ts] in *. eapply Hw; [exact Hid|exact HT].
  Qed.

  Lemma evolves_ids st : evolves (init_state) st -> forall x, In x (st_tasks st) -> t_id x < st_next st.
  Proof.
    intros H x Hx. destruct (ev_tasks _ _ H) as [new [E [F _]]]. pose proof (ev_next _ _ H) as N. cbn in E, F, N.
    apply (in_map ident) in Hx. rewrite E in Hx. destruct Hx as [Hx|Hx].
    - unfold ident in Hx. inversion Hx. lia.
    - rewrite Forall_forall in F. specialize (F _ Hx). cbn in F. unfold tr_id in F. unfold ident in F. cbn in F. lia.
  Qed.

  (* ---- one frame step that does not leave manager.run ---- *)
  Lemma allT_step' (Phi Phi' : idt -> tstate frame -> Prop) st t fr rest sg :
    base P st (Some (t, fr :: rest, sg)) ->
    allT Phi st (Some (t, fr :: rest, sg)) ->
    leaves_run fr sg (snd (step_frame P t fr sg st)) = false ->
    wake_closed Phi ->
    (forall nm, In nm (creates P fr sg st) -> Phi (st_next st, nm, true) (TReady [spawn_frame_of P nm] SGo)) ->
    (forall y, In y (st_tasks (fst (step_frame P t fr sg st))) -> t_id y <> t -> Phi (ident y) (t_state y) -> Phi' (ident y) (t_state y)) ->
    (forall x, In x (st_tasks (fst (step_frame P t fr sg st))) -> t_id x = t ->
               Phi' (ident x) (nstate rest (snd (step_frame P t fr sg st)))) ->
    allT Phi' (fst (after_step t rest (step_frame P t fr sg st))) (snd (after_step t rest (step_frame P t fr sg st))).
  Proof.
    intros Hb H Hlr Hw Hsp Hlift Hrun.
    destruct (b_cur _ _ _ Hb) as [x0 [Hf0 [Hk [Hs [Ho [Hc Hm]]]]]].
    cbn [plain_stack forallb] in Hk. apply andb_true_iff in Hk. destruct Hk as [Kf Kr].
    pose proof (evolves_ids _ (b_ev _ _ _ Hb)) as Hids. destruct (find_task_in _ _ _ Hf0) as [Hin0 Hid0].
    assert (Hlt : t < st_next st) by (rewrite <- Hid0; apply Hids; exact Hin0).
    set (c0 := Some (t, fr :: rest, sg)) in *.
    assert (H1 : tasks_ok (TPc Phi c0) (fst (step_frame P t fr sg st))).
    { assert (TPW : forall x w k, t_state x = TWait w k -> TPc Phi c0 x -> TPc Phi c0 (with_ts x (TReady k SGo))).
      { intros x w k Hx Hp. unfold TPc in *. rewrite ident_with_ts. unfold c0 in *. cbn [estate t_id with_ts] in *.
        destruct (Nat.eqb (t_id x) t); [exact Hp|]. rewrite Hx in Hp. cbn. eapply Hw. exact Hp. }
      assert (SPW : forall nm, In nm (creates P fr sg st) ->
                               TPc Phi c0 {| t_id := st_next st; t_name := nm; t_state := TReady [spawn_frame_of P nm] SGo; t_helper := true |}).
      { intros nm Hnm. unfold TPc, c0. cbn [estate t_id ident t_name t_helper t_state].
        replace (Nat.eqb (st_next st) t) with false by (symmetry; apply Nat.eqb_neq; lia). apply Hsp. exact Hnm. }
      exact (plain_step_tasks_nc P Hsw Hhd (TPc Phi c0) TPW t fr sg st Kf Hs (b_ps _ _ _ Hb) Hlr SPW H). }
    pose proof (ev_step_frame P t fr sg st) as Hev.
    assert (Hnd1 : NoDup (map (@t_id frame) (st_tasks (fst (step_frame P t fr sg st))))).
    { destruct (evolved_shape _ (evolves_trans _ _ _ (b_ev _ _ _ Hb) Hev)) as [xa [ra [_ [_ [_ [_ [Hnd _]]]]]]]. exact Hnd. }
    assert (H1in : Forall (fun y => In y (st_tasks (fst (step_frame P t fr sg st))) /\ TPc Phi c0 y) (st_tasks (fst (step_frame P t fr sg st)))).
    { unfold tasks_ok in H1. rewrite Forall_forall in *. intros y Hy. split; [exact Hy|apply H1; exact Hy]. }
    destruct (step_frame P t fr sg st) as [st1 [w k'|k'|k' sg'|sg']]; cbn [after_step fst snd nstate] in *.
    - unfold allT, tasks_ok, suspend, set_waiters, set_tstate in *. cbn [st_tasks].
      apply (upd_task_Forall2 _ _ _ _ _ Hnd1 H1in).
      + intros y Hy _. destruct (find_task_in _ _ _ Hy) as [Hiy Hidy]. unfold TPc. cbn [estate]. apply (Hrun y Hiy Hidy).
      + intros y Hy [Hiy Hp]. unfold TPc, c0 in *. cbn [estate] in *. pose proof Hy as Hy'. apply Nat.eqb_neq in Hy. rewrite Hy in Hp. apply Hlift; assumption.
    - unfold allT, tasks_ok, push_ready, set_tstate in *. cbn [st_tasks].
      apply (upd_task_Forall2 _ _ _ _ _ Hnd1 H1in).
      + intros y Hy _. destruct (find_task_in _ _ _ Hy) as [Hiy Hidy]. unfold TPc. cbn [estate]. apply (Hrun y Hiy Hidy).
      + intros y Hy [Hiy Hp]. unfold TPc, c0 in *. cbn [estate] in *. pose proof Hy as Hy'. apply Nat.eqb_neq in Hy. rewrite Hy in Hp. apply Hlift; assumption.
    - unfold allT, tasks_ok in *. rewrite Forall_forall in *. intros y Hy. specialize (H1 y Hy). unfold TPc, c0 in *. cbn [estate] in *.
      destruct (Nat.eqb (t_id y) t) eqn:E; [apply Nat.eqb_eq in E; apply (Hrun y Hy E)|apply Nat.eqb_neq in E; apply Hlift; assumption].
    - unfold allT, tasks_ok in *. rewrite Forall_forall in *. intros y Hy. specialize (H1 y Hy). unfold TPc, c0 in *. cbn [estate] in *.
      destruct (Nat.eqb (t_id y) t) eqn:E; [apply Nat.eqb_eq in E; apply (Hrun y Hy E)|apply Nat.eqb_neq in E; apply Hlift; assumption].
  Qed.

  Lemma allT_step (Phi Phi' : idt -> tstate frame -> Prop) st t fr rest sg :
    base P st (Some (t, fr :: rest, sg)) ->
    allT Phi st (Some (t, fr :: rest, sg)) ->
    leaves_run fr sg (snd (step_frame P t fr sg st)) = false ->
    wake_closed Phi ->
    (forall nm, In nm (creates P fr sg st) -> Phi (st_next st, nm, true) (TReady [spawn_frame_of P nm] SGo)) ->
    (forall y ts, In y (st_tasks (fst (step_frame P t fr sg st))) -> t_id y <> t -> Phi (ident y) ts -> Phi' (ident y) ts) ->
    (forall x, In x (st_tasks (fst (step_frame P t fr sg st))) -> t_id x = t ->
               Phi' (ident x) (nstate rest (snd (step_frame P t fr sg st)))) ->
    allT Phi' (fst (after_step t rest (step_frame P t fr sg st))) (snd (after_step t rest (step_frame P t fr sg st))).
  Proof.
    intros Hb H Hlr Hw Hsp Hlift Hrun. apply (allT_step' Phi Phi'); try assumption.
    intros y Hy Hne. apply Hlift; assumption.
  Qed.
End Inv.

(* ---- the two guards: manager.run has returned / the chart task is done; both are stable ------------------------------------ *)
Lemma over_evolves a b : evolves a b -> over a = true -> over b = true.
Proof. intros [_ _ [new E] _] H. unfold over in *. rewrite E, existsb_app, H. apply orb_true_r. Qed.

Definition md_TP (x : task frame) : Prop := t_id x = main_tid -> exists r, t_state x = TDone r.

Lemma main_done_iff st : evolves (init_state) st -> (main_done st = true <-> tasks_ok md_TP st).
Proof.
  intros He. destruct (evolved_shape st He) as [x [rest [T [Hid [_ [Hr _]]]]]].
  unfold main_done, main_state, tasks_ok. rewrite T. cbn [find_task]. rewrite Hid. cbn [Nat.eqb main_tid option_map].
  split.
  - intros H. constructor.
    + intros _. destruct (t_state x); try discriminate H. eauto.
    + eapply Forall_impl; [|exact Hr]. intros y Hy Hc. contradiction.
  - intros H. inversion H as [|a b Hx _]; subst. destruct (Hx Hid) as [r ->]. reflexivity.
Qed.

Section Guard.
  Variable P : prog.

  Lemma md_step t fr sg st : 1 <= st_next st -> tasks_ok md_TP st -> tasks_ok md_TP (fst (step_frame P t fr sg st)).
  Proof.
    intros Hn H. apply (step_frame_tasks_ok P md_TP); try assumption; unfold md_TP.
    - intros x w k Hx Hp Hi. destruct (Hp Hi) as [r Hr]. congruence.
    - intros x k s Hx Hp Hi. destruct (Hp Hi) as [r Hr]. congruence.
    - intros x w k Hx Hp Hi. destruct (Hp Hi) as [r Hr]. congruence.
    - intros i nm f Hi _ Hm. cbn in Hm. unfold main_tid in Hm. lia.
  Qed.

  Definition guard (st : mstate) : Prop := over st = true \/ main_done st = true.

  Lemma ev_after_step t rest fr sg st : evolves st (fst (after_step t rest (step_frame P t fr sg st))).
  Proof.
    pose proof (ev_step_frame P t fr sg st) as H.
    destruct (step_frame P t fr sg st) as [st1 [w k'|k'|k' sg'|sg']]; cbn [after_step fst] in *; try exact H.
    - eapply evolves_trans; [exact H|]. unfold suspend. eapply evolves_trans; [apply ev_set_tstate|apply ev_set_waiters].
    - eapply evolves_trans; [exact H|]. eapply evolves_trans; [apply ev_set_tstate|apply ev_push_ready].
  Qed.

  Lemma md_wake x w k : t_state x = TWait w k -> md_TP x -> md_TP (with_ts x (TReady k SGo)).
  Proof. intros Hx Hp Hi. destruct (Hp Hi) as [r Hr]. congruence. Qed.
  Lemma md_cancel_ready x k s : t_state x = TReady k s -> md_TP x -> md_TP (with_ts x (TReady k (SThrow XCancelled))).
  Proof. intros Hx Hp Hi. destruct (Hp Hi) as [r Hr]. congruence. Qed.
  Lemma md_cancel_wait x w k : t_state x = TWait w k -> md_TP x -> md_TP (with_ts x (TReady k (SThrow XCancelled))).
  Proof. intros Hx Hp Hi. destruct (Hp Hi) as [r Hr]. congruence. Qed.

  Lemma guard_dequeue st : guard st -> guard (dequeue st).
  Proof. intros H. exact H. Qed.

  Lemma guard_done st t sg : evolves (init_state) st -> guard st -> guard (set_tstate t (TDone sg) st).
  Proof.
    intros He [H|H]; [left; exact H|right].
    apply (main_done_iff _ (evolves_trans _ _ _ He (ev_set_tstate t (TDone sg) st))).
    apply ok_set_tstate; [apply (main_done_iff _ He); exact H|]. intros x _ _ _. cbn. eauto.
  Qed.

  Lemma guard_abort st : evolves (init_state) st -> guard (abort P st).
  Proof.
    intros He. right. apply (main_done_iff _ (evolves_trans _ _ _ He (ev_abort P st))).
    unfold tasks_ok, abort. cbn [st_tasks]. rewrite Forall_forall. intros y Hy. apply in_map_iff in Hy. destruct Hy as [x [<- _]].
    intros _. cbn. eauto.
  Qed.

  Lemma guard_gate st g : evolves (init_state) st -> guard st -> guard (complete_gate g st).
  Proof.
    intros He [H|H].
    - left. exact (over_evolves _ _ (ev_action P (AGate g) st) H).
    - right. apply (main_done_iff _ (evolves_trans _ _ _ He (ev_action P (AGate g) st))).
      apply (complete_gate_tasks_ok md_TP md_wake). apply (main_done_iff _ He). exact H.
  Qed.

  Lemma guard_cancel st : evolves (init_state) st -> guard st -> guard (cancel_task main_tid st).
  Proof.
    intros He [H|H].
    - left. exact (over_evolves _ _ (ev_action P ACancel st) H).
    - right. apply (main_done_iff _ (evolves_trans _ _ _ He (ev_action P ACancel st))).
      apply (ok_cancel_task md_TP md_cancel_ready md_cancel_wait). apply (main_done_iff _ He). exact H.
  Qed.
End Guard.

Section GuardStep.
  Variable P : prog.
  Notation G := (b_graph (build (p_decls P) (p_inp P) (p_out P))).
  Hypothesis Hsw : forall n, is_switch G n = false.
  Hypothesis Hhd : forall n, is_head G n = false.
  Hypothesis Hbody : forall i kw a v, p_body P i kw a = OVal v -> clean v = true.

  Lemma guard_step st t fr rest sg :
    base P st (Some (t, fr :: rest, sg)) -> guard st -> guard (fst (after_step t rest (step_frame P t fr sg st))).
  Proof.
    intros Hb [H|H]; [left; exact (over_evolves _ _ (ev_after_step P t rest fr sg st) H)|right].
    pose proof (b_ev _ _ _ Hb) as He.
    apply (main_done_iff _ (evolves_trans _ _ _ He (ev_after_step P t rest fr sg st))).
    pose proof (proj1 (main_done_iff _ He) H) as Hm.
    pose proof (md_step P t fr sg st (base_next _ _ _ Hb) Hm) as Hm1.
    destruct (b_cur _ _ _ Hb) as [x [Hf [_ [_ [_ [_ [_ [k0 [sg0 Hrdy]]]]]]]]].
    assert (Hne : t <> main_tid).
    { intros ->. destruct (find_task_in _ _ _ Hf) as [Hin Hid]. unfold tasks_ok in Hm. rewrite Forall_forall in Hm.
      destruct (Hm x Hin Hid) as [r Hr]. congruence. }
    assert (Hc : forall s ts, tasks_ok md_TP s -> tasks_ok md_TP (set_tstate t ts s)).
    { intros s ts Hs. apply ok_set_tstate; [exact Hs|]. intros y Hy _ Hi. destruct (find_task_in _ _ _ Hy) as [_ Hid]. cbn in Hi. congruence. }
    destruct (step_frame P t fr sg st) as [st1 [w k'|k'|k' sg'|sg']]; cbn [after_step fst] in *; try exact Hm1.
    - unfold suspend. match goal with |- tasks_ok _ (set_waiters _ ?s) => apply (tasks_ok_same _ s); [reflexivity|] end. apply Hc. exact Hm1.
    - apply ok_push_ready. apply Hc. exact Hm1.
  Qed.
End GuardStep.
