(* C13: what a CancelledError thrown into a task does, and what the engine looks like once run() has ended.
   For every program and every schedule. *)
From MLPE Require Import Engine.Run Proofs.ExecLemmas Proofs.Evolve Proofs.StackInv.

(* events an outside observer can see: body and get_default invocations, event callbacks, saves, timers *)
Definition visible (o : obs) : bool :=
  match o with
  | OStart _ _ _ | ODefault _ _ | OEmit _ _ _ _ _ | OSave _ _ | OSleep _ _ => true
  | _ => false
  end.
Definition vis (st : mstate) : list obs := filter visible (st_trace st).

(* nothing visible happens and no task is created *)
Definition quiet (st st' : mstate) : Prop := vis st' = vis st /\ st_next st' = st_next st.

Lemma quiet_refl st : quiet st st. Proof. split; reflexivity. Qed.
Lemma quiet_trans a b c : quiet a b -> quiet b c -> quiet a c.
Proof. intros [A1 A2] [B1 B2]. split; congruence. Qed.
Lemma quiet_same st st' : st_trace st' = st_trace st -> st_next st' = st_next st -> quiet st st'.
Proof. intros T N. unfold quiet, vis. rewrite T, N. split; reflexivity. Qed.

Lemma q_with_store f st : quiet st (with_store f st). Proof. apply quiet_same; reflexivity. Qed.
Lemma q_bump c st : quiet st (bump c st). Proof. apply quiet_same; reflexivity. Qed.
Lemma q_set_adddata k v st : quiet st (set_adddata k v st). Proof. apply quiet_same; reflexivity. Qed.
Lemma q_push_ready t st : quiet st (push_ready t st). Proof. apply quiet_same; reflexivity. Qed.
Lemma q_set_waiters w st : quiet st (set_waiters w st). Proof. apply quiet_same; reflexivity. Qed.
Lemma q_set_tstate t ts st : quiet st (set_tstate t ts st). Proof. apply quiet_same; reflexivity. Qed.
Lemma q_add_event n st : quiet st (add_event n st). Proof. apply quiet_same; reflexivity. Qed.
Lemma q_dequeue st : quiet st (dequeue st). Proof. apply quiet_same; reflexivity. Qed.
Lemma q_emit_ghost o st : visible o = false -> quiet st (emit_obs o st).
Proof. intros H. unfold quiet, vis. cbn. rewrite H. split; reflexivity. Qed.

Definition q_notify := R_notify quiet quiet_trans q_push_ready q_set_waiters q_set_tstate.
Definition q_wake_all := R_wake_all quiet quiet_trans q_push_ready q_set_waiters q_set_tstate.
Definition q_notify_keys := R_notify_keys quiet quiet_trans q_push_ready q_set_waiters q_set_tstate.
Definition q_set_event := R_set_event quiet quiet_trans q_push_ready q_set_waiters q_set_tstate q_add_event.
Definition q_cancel_task := R_cancel_task quiet quiet_trans q_push_ready q_set_waiters q_set_tstate.
Definition q_cancel_tasks := R_cancel_tasks quiet quiet_trans q_push_ready q_set_waiters q_set_tstate.
Definition q_finally_a := R_finally_a quiet quiet_trans q_push_ready q_set_waiters q_set_tstate q_add_event.
Definition q_finally_b P := R_finally_b P quiet quiet_trans q_push_ready q_set_waiters q_set_tstate q_add_event.
Definition q_suspend := R_suspend quiet quiet_trans q_set_waiters q_set_tstate.

Ltac q_prims :=
  repeat first
         [ apply quiet_refl
         | apply q_notify | apply q_notify_keys | apply q_set_event | apply q_cancel_tasks | apply q_cancel_task
         | apply q_finally_a | apply q_finally_b | apply q_wake_all
         | (eapply quiet_trans; [|apply q_with_store]) | (eapply quiet_trans; [|apply q_bump])
         | (eapply quiet_trans; [|apply q_set_adddata]) | (eapply quiet_trans; [|apply q_push_ready])
         | (eapply quiet_trans; [|apply q_emit_ghost; reflexivity]) ].

(* every task other than the one running PipelineChart.run (i.e. every member of _coro_tasks) is finished or has a
   CancelledError pending *)
Definition cancelled_TP (x : task frame) : Prop :=
  t_id x <> main_tid ->
  match t_state x with
  | TDone _ => True
  | TReady _ (SThrow XCancelled) => True
  | _ => False
  end.

Lemma cancelled_wake x w k : t_state x = TWait w k -> cancelled_TP x -> cancelled_TP (with_ts x (TReady k SGo)).
Proof. unfold cancelled_TP. intros E H Hh. cbn in Hh. specialize (H Hh). rewrite E in H. contradiction. Qed.
Lemma cancelled_cancel_ready x k sg : t_state x = TReady k sg -> cancelled_TP x -> cancelled_TP (with_ts x (TReady k (SThrow XCancelled))).
Proof. unfold cancelled_TP. intros _ _ _. cbn. exact I. Qed.
Lemma cancelled_cancel_wait x w k : t_state x = TWait w k -> cancelled_TP x -> cancelled_TP (with_ts x (TReady k (SThrow XCancelled))).
Proof. unfold cancelled_TP. intros _ _ _. cbn. exact I. Qed.

Definition all_cancelled (st : mstate) : Prop := tasks_ok cancelled_TP st.

Ltac c_prims :=
  repeat first
         [ assumption
         | apply (ok_notify cancelled_TP cancelled_wake) | apply (ok_notify_keys cancelled_TP cancelled_wake)
         | apply (ok_set_event cancelled_TP cancelled_wake)
         | apply (ok_cancel_tasks cancelled_TP cancelled_cancel_ready cancelled_cancel_wait)
         | apply (ok_cancel_task cancelled_TP cancelled_cancel_ready cancelled_cancel_wait)
         | apply (ok_finally_a cancelled_TP cancelled_wake) | apply (ok_finally_b cancelled_TP cancelled_wake)
         | apply ok_emit_obs | apply ok_with_store | apply ok_bump | apply ok_set_adddata | apply ok_push_ready
         | apply (ok_wake_all cancelled_TP cancelled_wake) ].

Section Cancel.
  Variable P : prog.

  (* ---- one frame meets a CancelledError ---------------------------------------------------------- *)
  Lemma unwind_step t fr st :
    all_cancelled st ->
    all_cancelled (fst (step_frame P t fr (SThrow XCancelled) st))
    /\ quiet st (fst (step_frame P t fr (SThrow XCancelled) st))
    /\ (snd (step_frame P t fr (SThrow XCancelled) st) = DRet (SThrow XCancelled)
        \/ ((exists d n, fr = FNodeAfterSave d n false) /\ snd (step_frame P t fr (SThrow XCancelled) st) = DRet (SVal VNone))).
  Proof.
    intros H. unfold all_cancelled in *.
    destruct fr; cbn [step_frame is_Exception]; repeat break_match; cbn [fst snd];
      (split; [c_prims|split; [q_prims|first [left; reflexivity|right; split; [eauto|reflexivity]]]]).
  Qed.

  (* after the `return` in the `finally` of _run_node swallowed the CancelledError, a value meets what is below *)
  Lemma after_swallow_step t s n v st :
    all_cancelled st ->
    all_cancelled (fst (step_frame P t (FRecAfterDefault s n) (SVal v) st))
    /\ quiet st (fst (step_frame P t (FRecAfterDefault s n) (SVal v) st))
    /\ exists v', snd (step_frame P t (FRecAfterDefault s n) (SVal v) st) = DRet (SVal v').
  Proof. intros H. cbn [step_frame fst snd]. split; [c_prims|split; [q_prims|eauto]]. Qed.

  Definition is_done_t (t : tid) (st : mstate) : Prop :=
    forall x, find_task t (st_tasks st) = Some x -> exists r, t_state x = TDone r.

  Lemma find_upd_inv t f (l : list (task frame)) y :
    find_task t (upd_task t f l) = Some y -> (forall z, t_id (f z) = t_id z) -> exists x, find_task t l = Some x /\ y = f x.
  Proof.
    intros H Hid. induction l as [|z r IH]; cbn [upd_task find_task] in *; [discriminate|].
    destruct (Nat.eqb (t_id z) t) eqn:E.
    - cbn [find_task] in H. rewrite Hid, E in H. inversion H. eauto.
    - cbn [find_task] in H. rewrite E in H. apply IH. exact H.
  Qed.

  Lemma done_after_set t r st : is_done_t t (set_tstate t (TDone r) st).
  Proof.
    intros y Hy. unfold set_tstate in Hy. cbn [st_tasks] in Hy. apply find_upd_inv in Hy; [|reflexivity].
    destruct Hy as [x [_ ->]]. cbn. eauto.
  Qed.

  Lemma below_node_save d n u rest :
    chainb (FNodeAfterSave d n u :: rest) = true -> rest = [] \/ exists s n', rest = [FRecAfterDefault s n'].
  Proof.
    destruct rest as [|g rest']; [auto|]. cbn [chainb]. intros H. apply andb_true_iff in H. destruct H as [Ha Hc]. right.
    destruct g; try discriminate Ha. destruct rest' as [|h rest'']; [eauto|].
    cbn [chainb] in Hc. apply andb_true_iff in Hc. destruct Hc as [Hb _]. destruct h; discriminate Hb.
  Qed.

  (* ---- a CancelledError thrown into any task with a well-formed stack ends it in that very step, silently ---- *)
  Lemma unwind_exec fuel t k st :
    chainb k = true -> all_cancelled st ->
    all_cancelled (exec P fuel t k (SThrow XCancelled) st)
    /\ quiet st (exec P fuel t k (SThrow XCancelled) st)
    /\ is_done_t t (exec P fuel t k (SThrow XCancelled) st).
  Proof.
    intros Hc H0.
    apply (exec_rule P t
             (fun k sg s => all_cancelled s /\ quiet st s /\ chainb k = true
                            /\ (sg = SThrow XCancelled \/ ((exists v, sg = SVal v) /\ (k = [] \/ exists s' n, k = [FRecAfterDefault s' n]))))
             (fun s => all_cancelled s /\ quiet st s /\ is_done_t t s)).
    - intros sg s [A [B _]]. split; [|split].
      + apply ok_set_tstate; [exact A|]. intros x _ _ _. exact I.
      + eapply quiet_trans; [exact B|apply q_set_tstate].
      + apply done_after_set.
    - intros fr rest sg s [A [B [C D]]]. split.
      { split; [|split].
        - apply ok_abort; [|exact A]. intros x r _ _. exact I.
        - eapply quiet_trans; [exact B|apply quiet_same; reflexivity].
        - intros y Hy. unfold abort in Hy. cbn [st_tasks] in Hy. clear - Hy. induction (st_tasks s) as [|z l IH]; cbn in Hy; [discriminate|].
          destruct (Nat.eqb (t_id z) t); [inversion Hy; cbn; eauto|auto]. }
      destruct D as [->|[[v ->] [E|[s' [n E]]]]]; [| discriminate E |].
      + destruct (unwind_step t fr s A) as [A1 [B1 D1]].
        destruct (step_frame P t fr (SThrow XCancelled) s) as [st1 d]. cbn [fst snd] in *.
        destruct D1 as [->|[[d' [n ->]] ->]].
        * split; [exact A1|]. split; [eapply quiet_trans; eassumption|]. split; [apply (chainb_tail fr); exact C|]. left. reflexivity.
        * split; [exact A1|]. split; [eapply quiet_trans; eassumption|]. split; [apply (chainb_tail _ _ C)|]. right.
          split; [eauto|]. apply (below_node_save d' n false). exact C.
      + inversion E; subst. destruct (after_swallow_step t s' n v s A) as [A1 [B1 [v' D1]]].
        destruct (step_frame P t (FRecAfterDefault s' n) (SVal v) s) as [st1 d]. cbn [fst snd] in *. subst d.
        split; [exact A1|]. split; [eapply quiet_trans; eassumption|]. split; [reflexivity|]. right. split; [eauto|]. left. reflexivity.
    - split; [exact H0|]. split; [apply quiet_refl|]. split; [exact Hc|]. left. reflexivity.
  Qed.

  (* ---- run()'s `finally` cancels every helper task ----------------------------------------------- *)
  Definition cancel1 (y : task frame) : task frame :=
    match t_state y with
    | TDone _ => y
    | TReady k _ | TWait _ k => with_ts y (TReady k (SThrow XCancelled))
    end.

  Lemma map_if_none t (f : task frame -> task frame) (l : list (task frame)) :
    ~ In t (map t_id l) -> map (fun y => if Nat.eqb (t_id y) t then f y else y) l = l.
  Proof.
    induction l as [|z r IH]; cbn [map]; [reflexivity|]. intros Hn. destruct (Nat.eqb (t_id z) t) eqn:E.
    - exfalso. apply Hn. left. apply Nat.eqb_eq. exact E.
    - f_equal. apply IH. intros Hin. apply Hn. right. exact Hin.
  Qed.

  Lemma upd_task_map t f (l : list (task frame)) :
    NoDup (map t_id l) -> upd_task t f l = map (fun y => if Nat.eqb (t_id y) t then f y else y) l.
  Proof.
    induction l as [|y r IH]; cbn [upd_task map]; [reflexivity|]. intros H. inversion H as [|? ? Hn Hd]; subst.
    destruct (Nat.eqb (t_id y) t) eqn:E.
    - f_equal. apply Nat.eqb_eq in E. rewrite map_if_none; [reflexivity|]. rewrite <- E. exact Hn.
    - f_equal. apply IH. exact Hd.
  Qed.

  Lemma cancel_task_tasks t st :
    NoDup (map t_id (st_tasks st)) ->
    st_tasks (cancel_task t st) = map (fun y => if Nat.eqb (t_id y) t then cancel1 y else y) (st_tasks st).
  Proof.
    intros Hd. unfold cancel_task. destruct (find_task t (st_tasks st)) as [x|] eqn:F.
    - destruct (find_task_in _ _ _ F) as [Hin Hid].
      assert (G : forall ts s', st_tasks s' = st_tasks st ->
                                st_tasks (set_tstate t ts s') =
                                map (fun y => if Nat.eqb (t_id y) t then with_ts y ts else y) (st_tasks st)).
      { intros ts s' Es. unfold set_tstate. cbn [st_tasks]. rewrite Es. apply upd_task_map. exact Hd. }
      assert (U : forall y, In y (st_tasks st) -> t_id y = t -> y = x).
      { intros y Hy Ht. clear G. revert F Hd Hy. generalize (st_tasks st). induction l as [|z r IH]; cbn; [discriminate|].
        destruct (Nat.eqb (t_id z) t) eqn:E; intros F Hd' [->|Hy].
        - inversion F. reflexivity.
        - exfalso. inversion Hd' as [|? ? Hn _]; subst. apply Hn. apply Nat.eqb_eq in E. rewrite E, <- Ht. apply in_map. exact Hy.
        - rewrite Ht, Nat.eqb_refl in E. discriminate.
        - inversion Hd'; subst. apply IH; assumption. }
      destruct x as [i nm [k s|w k|r] h]; cbn [t_state].
      + rewrite G by reflexivity. apply map_ext_in. intros y Hy. destruct (Nat.eqb (t_id y) t) eqn:E; [|reflexivity].
        apply Nat.eqb_eq in E. rewrite (U y Hy E). reflexivity.
      + cbn [push_ready st_tasks]. rewrite G by reflexivity. apply map_ext_in. intros y Hy. destruct (Nat.eqb (t_id y) t) eqn:E; [|reflexivity].
        apply Nat.eqb_eq in E. rewrite (U y Hy E). reflexivity.
      + rewrite <- (map_id (st_tasks st)) at 1. apply map_ext_in. intros y Hy. destruct (Nat.eqb (t_id y) t) eqn:E; [|reflexivity].
        apply Nat.eqb_eq in E. rewrite (U y Hy E). reflexivity.
    - rewrite <- (map_id (st_tasks st)) at 1. apply map_ext_in. intros y Hy. destruct (Nat.eqb (t_id y) t) eqn:E; [|reflexivity].
      exfalso. apply Nat.eqb_eq in E. clear - F Hy E. induction (st_tasks st) as [|z r IH]; [contradiction|]. cbn in F.
      destruct (Nat.eqb (t_id z) t) eqn:E'; [discriminate|]. destruct Hy as [->|Hy]; [rewrite E, Nat.eqb_refl in E'; discriminate|auto].
  Qed.

  Lemma cancel1_id y : t_id (cancel1 y) = t_id y.
  Proof. unfold cancel1. destruct (t_state y); reflexivity. Qed.
  Lemma cancel1_idem y : cancel1 (cancel1 y) = cancel1 y.
  Proof. unfold cancel1. destruct y as [i nm [k s|w k|r] h]; reflexivity. Qed.

  Lemma cancel_tasks_tasks ts st :
    NoDup (map t_id (st_tasks st)) ->
    st_tasks (cancel_tasks ts st) = map (fun y => if mem Nat.eqb (t_id y) ts then cancel1 y else y) (st_tasks st).
  Proof.
    unfold cancel_tasks. revert st. induction ts as [|t r IH]; intros st Hd; cbn [fold_left mem].
    - rewrite <- (map_id (st_tasks st)) at 1. reflexivity.
    - rewrite IH.
      + rewrite cancel_task_tasks by exact Hd. rewrite map_map. apply map_ext. intros y.
        destruct (Nat.eqb (t_id y) t) eqn:E.
        * rewrite cancel1_id. destruct (mem Nat.eqb (t_id y) r); [apply cancel1_idem|reflexivity].
        * reflexivity.
      + rewrite cancel_task_tasks by exact Hd. rewrite map_map.
        erewrite map_ext; [exact Hd|]. intros y. cbn. destruct (Nat.eqb (t_id y) t); [apply cancel1_id|reflexivity].
  Qed.

  Lemma helper_tids_mem (st : mstate) y : In y (st_tasks st) -> t_helper y = true -> mem Nat.eqb (t_id y) (helper_tids st) = true.
  Proof.
    intros Hin Hh. apply (mem_true_iff Nat.eqb Nat.eqb_eq). unfold helper_tids. apply in_flat_map. exists y. split; [exact Hin|].
    rewrite Hh. left. reflexivity.
  Qed.

  Lemma cancel_all_helpers st :
    NoDup (map t_id (st_tasks st)) -> stacks_ok st -> all_cancelled (cancel_tasks (helper_tids st) st).
  Proof.
    intros Hd Hs. unfold all_cancelled, tasks_ok. rewrite cancel_tasks_tasks by exact Hd. rewrite Forall_forall. intros y' Hy'.
    apply in_map_iff in Hy'. destruct Hy' as [y [<- Hy]]. unfold stacks_ok, tasks_ok in Hs. rewrite Forall_forall in Hs.
    destruct (Hs y Hy) as [[Hh1 Hh2] _]. intros Hid.
    assert (Hh : t_helper y = true).
    { destruct (t_helper y) eqn:E; [reflexivity|]. exfalso. destruct (mem Nat.eqb (t_id y) (helper_tids st)); [rewrite cancel1_id in Hid|]; auto. }
    rewrite (helper_tids_mem st y Hy Hh). unfold cancel1. destruct (t_state y) eqn:E; cbn; try rewrite E; exact I.
  Qed.

  (* ---- the phases of PipelineChart.run ----------------------------------------------------------- *)
  (* either the chart task is inside manager.run() (stack [FRunWait; FChartAfterRun]) or every helper task is
     finished / cancelled: before run() starts there is no helper, after it ends its `finally` cancelled them all *)
  Definition run_TP (x : task frame) : Prop :=
    t_id x = main_tid ->
    match t_state x with
    | TReady k _ | TWait _ k => k = [FRunWait; FChartAfterRun]
    | TDone _ => False
    end.

  Lemma run_wake x w k : t_state x = TWait w k -> run_TP x -> run_TP (with_ts x (TReady k SGo)).
  Proof. unfold run_TP. intros E H Hi. specialize (H Hi). rewrite E in H. exact H. Qed.
  Lemma run_cancel_ready x k sg : t_state x = TReady k sg -> run_TP x -> run_TP (with_ts x (TReady k (SThrow XCancelled))).
  Proof. unfold run_TP. intros E H Hi. specialize (H Hi). rewrite E in H. exact H. Qed.
  Lemma run_cancel_wait x w k : t_state x = TWait w k -> run_TP x -> run_TP (with_ts x (TReady k (SThrow XCancelled))).
  Proof. unfold run_TP. intros E H Hi. specialize (H Hi). rewrite E in H. exact H. Qed.
  Lemma run_spawn i nm f : 1 <= i -> spawn_frame f = true ->
                           run_TP {| t_id := i; t_name := nm; t_state := TReady [f] SGo; t_helper := true |}.
  Proof. unfold run_TP, main_tid. cbn. intros. lia. Qed.

  Definition phase_ok (st : mstate) : Prop := tasks_ok run_TP st \/ all_cancelled st.

  Lemma all_cancelled_abort st : all_cancelled (abort P st).
  Proof.
    unfold all_cancelled, tasks_ok, abort. cbn [st_tasks]. rewrite Forall_forall. intros y Hy. apply in_map_iff in Hy.
    destruct Hy as [x [<- _]]. intros _. exact I.
  Qed.

  Lemma exec_helper_in_run fuel t k sg st :
    t <> main_tid -> tasks_ok run_TP st -> 1 <= st_next st -> phase_ok (exec P fuel t k sg st).
  Proof.
    intros Ht H0 N0.
    assert (V : forall s x ts, find_task t (st_tasks s) = Some x -> run_TP (with_ts x ts)).
    { intros s x ts Hx Hi. cbn in Hi. destruct (find_task_in _ _ _ Hx) as [_ Hid]. congruence. }
    apply (exec_rule P t (fun _ _ s => tasks_ok run_TP s /\ 1 <= st_next s) phase_ok); [| |auto].
    - intros sg' s [Hs _]. left. apply ok_set_tstate; [exact Hs|]. intros x Hx _. apply (V s). exact Hx.
    - intros fr rest sg' s [Hs Hn]. split; [right; apply all_cancelled_abort|].
      pose proof (step_frame_tasks_ok P run_TP run_wake run_cancel_ready run_cancel_wait run_spawn t fr sg' s Hn Hs) as Hs1.
      pose proof (ev_next _ _ (ev_step_frame P t fr sg' s)) as Hn1.
      destruct (step_frame P t fr sg' s) as [st1 [w k'|k'|k' sg''|sg'']]; cbn [fst] in *.
      + left. apply ok_suspend; [exact Hs1|]. intros x Hx _. apply (V st1). exact Hx.
      + left. apply ok_push_ready. apply ok_set_tstate; [exact Hs1|]. intros x Hx _. apply (V st1). exact Hx.
      + split; [exact Hs1|lia].
      + split; [exact Hs1|lia].
  Qed.

  Definition sig_ok (sg : signal) : Prop := sg = SGo \/ exists e, sg = SThrow e.

  (* what a frame of the chart task does to the helper tasks *)
  Lemma main_step_cancelled fr sg st :
    main_frame fr = true -> all_cancelled st ->
    all_cancelled (fst (step_frame P main_tid fr sg st))
    \/ (fr = FChartAfterStart /\ snd (step_frame P main_tid fr sg st) = DCont [FRunWait; FChartAfterRun] SGo).
  Proof.
    intros Hm H. unfold all_cancelled in *.
    destruct fr; try discriminate Hm; destruct sg; cbn [step_frame]; unfold reduced; repeat break_match; cbn [fst snd];
      first [left; c_prims; fail | right; split; reflexivity].
  Qed.

  Lemma run_wait_step sg st :
    sig_ok sg -> NoDup (map t_id (st_tasks st)) -> stacks_ok st ->
    (step_frame P main_tid FRunWait sg st = (st, DSuspend (WCond CRun) [FRunWait]))
    \/ (all_cancelled (fst (step_frame P main_tid FRunWait sg st))
        /\ exists sg', snd (step_frame P main_tid FRunWait sg st) = DRet sg').
  Proof.
    intros [->|[e ->]] Hd Hs; cbn [step_frame].
    - destruct (run_pred P st); [|left; reflexivity]. right.
      destruct (task_errors st); cbn [fst snd]; (split; [apply cancel_all_helpers; assumption|eauto]).
    - right. cbn [fst snd]. split; [apply cancel_all_helpers; assumption|eauto].
  Qed.

  Lemma run_TP_after_suspend w st :
    evolves (init_state) st -> tasks_ok run_TP (suspend main_tid w [FRunWait; FChartAfterRun] st).
  Proof.
    intros He. destruct (evolved_shape st He) as [x [rest [T [Hid [_ [Hr _]]]]]].
    unfold tasks_ok, suspend, set_waiters, set_tstate. cbn [st_tasks]. rewrite T. cbn [upd_task]. rewrite Hid. cbn.
    constructor.
    - intros _. cbn. reflexivity.
    - eapply Forall_impl; [|exact Hr]. intros y Hy Hc. contradiction.
  Qed.

  Lemma exec_main fuel k sg st :
    evolves (init_state) st -> stacks_ok st -> chainb k = true -> main_stack k = true ->
    ((k = [FRunWait; FChartAfterRun] /\ sig_ok sg) \/ all_cancelled st) ->
    phase_ok (exec P fuel main_tid k sg st).
  Proof.
    intros E0 S0 C0 M0 D0.
    assert (V : forall s x ts, find_task main_tid (st_tasks s) = Some x -> cancelled_TP (with_ts x ts)).
    { intros s x ts Hx Hi. cbn in Hi. destruct (find_task_in _ _ _ Hx) as [_ Hid]. congruence. }
    apply (exec_rule P main_tid
             (fun k sg s => evolves (init_state) s /\ stacks_ok s /\ chainb k = true /\ main_stack k = true
                            /\ ((k = [FRunWait; FChartAfterRun] /\ sig_ok sg) \/ all_cancelled s))
             phase_ok); [| |auto 6].
    - intros sg' s [_ [_ [_ [_ [[Hk _]|Hc]]]]]; [discriminate Hk|]. right.
      apply ok_set_tstate; [exact Hc|]. intros x Hx _. apply (V s). exact Hx.
    - intros fr rest sg' s [He [Hs [Hc [Hm Hd]]]]. split; [right; apply all_cancelled_abort|].
      destruct (evolved_shape s He) as [x0 [rest0 [_ [_ [_ [_ [Hnd Hn]]]]]]].
      pose proof (step_frame_dir_ok P main_tid fr sg' s) as Hdir.
      pose proof (step_frame_tasks_ok P stack_TP stack_TP_wake stack_TP_cancel_ready stack_TP_cancel_wait stack_TP_spawn main_tid fr sg' s Hn Hs) as Hs1.
      pose proof (evolves_trans _ _ _ He (ev_step_frame P main_tid fr sg' s)) as He1.
      assert (Hmf : main_frame fr = true).
      { unfold main_stack in Hm. cbn [forallb] in Hm. apply andb_true_iff in Hm. apply Hm. }
      destruct Hd as [[Hk Hsg]|Hcan].
      + (* inside run(): the frame is FRunWait *)
        inversion Hk; subst fr rest. destruct (run_wait_step sg' s Hsg Hnd Hs) as [Hw|[Hcan [sg'' Hr]]].
        * rewrite Hw. left. apply (run_TP_after_suspend (WCond CRun) s He).
        * destruct (step_frame P main_tid FRunWait sg' s) as [st1 d]. cbn [fst snd] in *. subst d.
          split; [exact He1|]. split; [exact Hs1|]. split; [reflexivity|]. split; [reflexivity|]. right. exact Hcan.
      + destruct (main_step_cancelled fr sg' s Hmf Hcan) as [Hcan1|[Hfr Hdd]].
        * destruct (step_frame P main_tid fr sg' s) as [st1 [w k'|k'|k' sg''|sg'']]; cbn [fst snd dir_ok] in *.
          -- right. apply ok_suspend; [exact Hcan1|]. intros x Hx _. apply (V st1). exact Hx.
          -- right. apply ok_push_ready. apply ok_set_tstate; [exact Hcan1|]. intros x Hx _. apply (V st1). exact Hx.
          -- destruct (seg_ok_app fr rest k' Hc Hm Hdir) as [A B]. auto 6.
          -- split; [exact He1|]. split; [exact Hs1|]. split; [apply (chainb_tail fr); exact Hc|].
             split; [apply (main_stack_tail fr); exact Hm|]. right. exact Hcan1.
        * subst fr. assert (rest = []) by (apply (below_chart FChartAfterStart); [reflexivity|exact Hc]). subst rest.
          destruct (step_frame P main_tid FChartAfterStart sg' s) as [st1 d]. cbn [fst snd] in *. subst d.
          split; [exact He1|]. split; [exact Hs1|]. split; [reflexivity|]. split; [reflexivity|]. left. split; [reflexivity|]. left. reflexivity.
  Qed.

  Lemma stacks_of (st : mstate) x : stacks_ok st -> In x (st_tasks st) -> stack_TP x.
  Proof. unfold stacks_ok, tasks_ok. rewrite Forall_forall. auto. Qed.

  Theorem reachable_phase_ok : forall st, reachable P st -> phase_ok st.
  Proof.
    apply (reachable_inv P phase_ok).
    - right. unfold all_cancelled, tasks_ok, init_state. cbn. constructor; [|constructor]. intros H. exfalso. apply H. reflexivity.
    - intros st Hr H. pose proof (reachable_stacks_ok P st Hr) as Hs. pose proof (ev_reachable P st Hr) as He.
      apply (loop_step_rule P phase_ok); [exact H|auto| |].
      + intros. destruct H as [H|H]; [left|right]; apply ok_dequeue; exact H.
      + intros t rest x k sg Hq Hf Ht. destruct (find_task_in _ _ _ Hf) as [Hin Hid].
        pose proof (stacks_of st x Hs Hin) as [_ Hx]. rewrite Ht in Hx. destruct Hx as [[Hne [Hc Hm]] Hsg].
        destruct (Nat.eq_dec t main_tid) as [->|Hne'].
        * apply exec_main.
          -- eapply evolves_trans; [exact He|apply ev_dequeue].
          -- apply ok_dequeue. exact Hs.
          -- exact Hc.
          -- apply Hm. exact Hid.
          -- destruct H as [H|H].
             ++ left. unfold tasks_ok in H. rewrite Forall_forall in H. specialize (H x Hin Hid). rewrite Ht in H. split; [exact H|].
                destruct Hsg as [ -> | -> ]; [left; reflexivity|right; eauto].
             ++ right. apply ok_dequeue. exact H.
        * destruct H as [H|H].
          -- apply exec_helper_in_run; [exact Hne'|apply ok_dequeue; exact H|]. cbn. exact (reachable_next P st Hr).
          -- right. assert (sg = SThrow XCancelled) as ->.
             { unfold all_cancelled, tasks_ok in H. rewrite Forall_forall in H. specialize (H x Hin). unfold cancelled_TP in H.
               rewrite Hid, Ht in H. specialize (H Hne'). destruct sg as [| | |[]|]; try contradiction. reflexivity. }
             apply unwind_exec; [exact Hc|apply ok_dequeue; exact H].
    - intros st g _ [H|H]; [left; apply (complete_gate_tasks_ok run_TP run_wake)|right; apply (complete_gate_tasks_ok cancelled_TP cancelled_wake)]; exact H.
    - intros st _ [H|H]; [left; apply (ok_cancel_task run_TP run_cancel_ready run_cancel_wait)
                         |right; apply (ok_cancel_task cancelled_TP cancelled_cancel_ready cancelled_cancel_wait)]; exact H.
  Qed.

  (* ---- once PipelineChart.run has ended ------------------------------------------------------------ *)
  Definition done_TP (x : task frame) : Prop :=
    t_id x = main_tid -> match t_state x with TDone _ => True | _ => False end.

  Lemma done_wake x w k : t_state x = TWait w k -> done_TP x -> done_TP (with_ts x (TReady k SGo)).
  Proof. unfold done_TP. intros E H Hi. specialize (H Hi). rewrite E in H. contradiction. Qed.
  Lemma done_cancel_ready x k sg : t_state x = TReady k sg -> done_TP x -> done_TP (with_ts x (TReady k (SThrow XCancelled))).
  Proof. unfold done_TP. intros E H Hi. specialize (H Hi). rewrite E in H. contradiction. Qed.
  Lemma done_cancel_wait x w k : t_state x = TWait w k -> done_TP x -> done_TP (with_ts x (TReady k (SThrow XCancelled))).
  Proof. unfold done_TP. intros E H Hi. specialize (H Hi). rewrite E in H. contradiction. Qed.
  Lemma done_spawn i nm f : 1 <= i -> spawn_frame f = true ->
                            done_TP {| t_id := i; t_name := nm; t_state := TReady [f] SGo; t_helper := true |}.
  Proof. unfold done_TP, main_tid. cbn. intros. lia. Qed.

  Lemma main_done_iff st : reachable P st -> (main_done st = true <-> tasks_ok done_TP st).
  Proof.
    intros Hr. destruct (evolved_shape st (ev_reachable P st Hr)) as [x [rest [T [Hid [_ [Hrest _]]]]]].
    unfold main_done, main_state, tasks_ok. rewrite T. cbn [find_task]. rewrite Hid. cbn. split.
    - intros H. constructor.
      + intros _. destruct (t_state x); try discriminate. exact I.
      + eapply Forall_impl; [|exact Hrest]. intros y Hy Hc. contradiction.
    - intros H. inversion H as [|? ? Hx _]; subst. specialize (Hx Hid). destruct (t_state x); try contradiction. reflexivity.
  Qed.

  Lemma exec_other_keeps_done fuel t k sg st :
    t <> main_tid -> tasks_ok done_TP st -> 1 <= st_next st -> tasks_ok done_TP (exec P fuel t k sg st).
  Proof.
    intros Ht H0 N0.
    assert (V : forall s x ts, find_task t (st_tasks s) = Some x -> done_TP (with_ts x ts)).
    { intros s x ts Hx Hi. cbn in Hi. destruct (find_task_in _ _ _ Hx) as [_ Hid]. congruence. }
    apply (exec_rule P t (fun _ _ s => tasks_ok done_TP s /\ 1 <= st_next s) (tasks_ok done_TP)); [| |auto].
    - intros sg' s [Hs _]. apply ok_set_tstate; [exact Hs|]. intros x Hx _. apply (V s). exact Hx.
    - intros fr rest sg' s [Hs Hn]. split.
      { apply ok_abort; [|exact Hs]. intros x r _ _. exact I. }
      pose proof (step_frame_tasks_ok P done_TP done_wake done_cancel_ready done_cancel_wait done_spawn t fr sg' s Hn Hs) as Hs1.
      pose proof (ev_next _ _ (ev_step_frame P t fr sg' s)) as Hn1.
      destruct (step_frame P t fr sg' s) as [st1 [w k'|k'|k' sg''|sg'']]; cbn [fst] in *.
      + apply ok_suspend; [exact Hs1|]. intros x Hx _. apply (V st1). exact Hx.
      + apply ok_push_ready. apply ok_set_tstate; [exact Hs1|]. intros x Hx _. apply (V st1). exact Hx.
      + split; [exact Hs1|lia].
      + split; [exact Hs1|lia].
  Qed.

  Lemma after_done_all_cancelled st : reachable P st -> main_done st = true -> all_cancelled st.
  Proof.
    intros Hr Hd. destruct (reachable_phase_ok st Hr) as [H|H]; [|exact H]. exfalso.
    apply (main_done_iff st Hr) in Hd. destruct (evolved_shape st (ev_reachable P st Hr)) as [x [rest [T [Hid _]]]].
    unfold tasks_ok in H, Hd. rewrite T in H, Hd. inversion H as [|? ? Hx _]; subst. inversion Hd as [|? ? Hx' _]; subst.
    specialize (Hx Hid). specialize (Hx' Hid). destruct (t_state x); contradiction.
  Qed.

  Lemma step_after_done st :
    reachable P st -> main_done st = true -> quiet st (loop_step P st) /\ main_done (loop_step P st) = true.
  Proof.
    intros Hr Hd. pose proof (after_done_all_cancelled st Hr Hd) as Hc. pose proof (reachable_stacks_ok P st Hr) as Hs.
    pose proof (proj1 (main_done_iff st Hr) Hd) as Hdn.
    assert (Hr' : reachable P (loop_step P st)) by exact (reach_step P st AStep Hr).
    rewrite (main_done_iff _ Hr').
    apply (loop_step_rule P (fun _ => True) (fun s => quiet st s /\ tasks_ok done_TP s)); [exact I| | |].
    - intros _. split; [apply quiet_refl|exact Hdn].
    - intros. split; [apply q_dequeue|apply ok_dequeue; exact Hdn].
    - intros t rest x k sg Hq Hf Ht. destruct (find_task_in _ _ _ Hf) as [Hin Hid].
      pose proof (stacks_of st x Hs Hin) as [_ Hx]. rewrite Ht in Hx. destruct Hx as [[_ [Hch _]] _].
      assert (Hne : t <> main_tid).
      { intros ->. unfold tasks_ok in Hdn. rewrite Forall_forall in Hdn. specialize (Hdn x Hin Hid). rewrite Ht in Hdn. exact Hdn. }
      assert (sg = SThrow XCancelled) as ->.
      { unfold all_cancelled, tasks_ok in Hc. rewrite Forall_forall in Hc. specialize (Hc x Hin). unfold cancelled_TP in Hc.
        rewrite Hid, Ht in Hc. specialize (Hc Hne). destruct sg as [| | |[]|]; try contradiction. reflexivity. }
      split.
      + eapply quiet_trans; [apply q_dequeue|]. apply unwind_exec; [exact Hch|apply ok_dequeue; exact Hc].
      + apply exec_other_keeps_done; [exact Hne|apply ok_dequeue; exact Hdn|]. cbn. exact (reachable_next P st Hr).
  Qed.

  Lemma action_after_done a st :
    reachable P st -> main_done st = true -> quiet st (apply_action P a st) /\ main_done (apply_action P a st) = true.
  Proof.
    intros Hr Hd. destruct a as [| |g|]; cbn [apply_action].
    - apply step_after_done; assumption.
    - unfold quiesce_fuel. generalize 4096. intros fuel. revert st Hr Hd. induction fuel as [|f IH]; intros st Hr Hd; cbn [quiesce].
      + split; [apply quiet_refl|exact Hd].
      + destruct (st_ready st) eqn:E; [split; [apply quiet_refl|exact Hd]|].
        destruct (step_after_done st Hr Hd) as [Q1 D1].
        destruct (IH (loop_step P st) (reach_step P st AStep Hr) D1) as [Q2 D2].
        split; [eapply quiet_trans; eassumption|exact D2].
    - split; [apply q_wake_all, quiet_refl|].
      rewrite (main_done_iff _ (reach_step P st (AGate g) Hr)). apply (complete_gate_tasks_ok done_TP done_wake).
      apply (main_done_iff st Hr). exact Hd.
    - split; [apply q_cancel_task, quiet_refl|].
      rewrite (main_done_iff _ (reach_step P st ACancel Hr)). apply (ok_cancel_task done_TP done_cancel_ready done_cancel_wait).
      apply (main_done_iff st Hr). exact Hd.
  Qed.

  (* C13 (ii): after PipelineChart.run has returned or raised, whatever the loop does next (any further steps, late
     completions of executor work, timers, callbacks), no node body, get_default, event callback, save or timer is started
     and no task is created *)
  Theorem silent_after_run sched st :
    reachable P st -> main_done st = true ->
    quiet st (fold_left (fun s a => apply_action P a s) sched st)
    /\ main_done (fold_left (fun s a => apply_action P a s) sched st) = true.
  Proof.
    revert st. induction sched as [|a r IH]; intros st Hr Hd; cbn [fold_left].
    - split; [apply quiet_refl|exact Hd].
    - destruct (action_after_done a st Hr Hd) as [Q1 D1].
      destruct (IH (apply_action P a st) (reach_step P st a Hr) D1) as [Q2 D2].
      split; [eapply quiet_trans; eassumption|exact D2].
  Qed.
End Cancel.
