(* ALL programs, every schedule incl. cancellation, event managers that do not raise: on_pipeline_complete comes after everything
   else (C14).  Once the chart task has left manager.run() (or failed before entering it) every helper task is finished or is
   unwinding a CancelledError, and such a task adds nothing to the history; so from the first on_pipeline_complete callback on,
   the history grows by on_pipeline_complete callbacks only. *)
From MLPE Require Import Engine.Run Proofs.ExecLemmas Proofs.Evolve Proofs.StackInv Proofs.CancelProofs Proofs.Micro Proofs.PlainLive Proofs.PlainCore
     Proofs.PlainInv Proofs.PlainExec Proofs.PlainPipe Proofs.PlainQuiet Proofs.PipeAll.

Section StacksAtConfigurations.
  Variable P : prog.

  Definition cur_chain (c : running) : Prop :=
    match c with Some (t, k, _) => k = [] \/ (chainb k = true /\ (t = main_tid -> main_stack k = true)) | None => True end.

  Theorem creach_stacks : forall st c, creach P st c -> stacks_ok st /\ cur_chain c.
  Proof.
    intros st c H. pose proof (creach_evolves P st c H) as Hev0.
    induction H as [|st t rest x k sg H IH Hq Hf Ht|st t rest H IH Hq|st t fr rest sg H IH|st t sg H IH|st c H IH|st g H IH|st H IH].
    - split; [|exact I]. unfold stacks_ok, tasks_ok, init_state. cbn. constructor; [|constructor]. unfold stack_TP, main_tid. cbn.
      split; [split; reflexivity|]. split; [|auto]. split; [discriminate|]. split; reflexivity.
    - destruct (IH (creach_evolves P _ _ H)) as [A _]. split; [apply ok_dequeue; exact A|].
      destruct (find_task_in _ _ _ Hf) as [Hin Hid]. unfold stacks_ok, tasks_ok in A. rewrite Forall_forall in A. destruct (A x Hin) as [_ Hx].
      rewrite Ht in Hx. destruct Hx as [[A1 [A2 A3]] _]. right. split; [exact A2|]. intros E. apply A3. rewrite Hid. exact E.
    - destruct (IH (creach_evolves P _ _ H)) as [A _]. split; [apply ok_dequeue; exact A|exact I].
    - pose proof (creach_evolves P _ _ H) as Hev. destruct (IH Hev) as [Hs Hc]. cbn [cur_chain] in Hc.
      destruct Hc as [Hc|[Hch Hmain]]; [discriminate Hc|].
      pose proof (ev_next _ _ Hev) as Hn. cbn in Hn.
      pose proof (step_frame_dir_ok P t fr sg st) as Hd.
      pose proof (step_frame_tasks_ok P stack_TP stack_TP_wake stack_TP_cancel_ready stack_TP_cancel_wait stack_TP_spawn t fr sg st Hn Hs) as Hs1.
      assert (Hseg : forall k', seg_ok fr k' -> (k' ++ rest) <> [] /\ chainb (k' ++ rest) = true /\ (t = main_tid -> main_stack (k' ++ rest) = true)).
      { intros k' [Hne' [Hk [Hl Hmk]]]. split; [destruct k'; [contradiction|discriminate]|]. split.
        - apply (chainb_app fr); assumption.
        - intros Ht. specialize (Hmain Ht). unfold main_stack in *. rewrite forallb_app. cbn [forallb] in Hmain.
          apply andb_true_iff in Hmain. destruct Hmain as [Hf Hr]. rewrite (Hmk Hf), Hr. reflexivity. }
      destruct (step_frame P t fr sg st) as [st1 [w k'|k'|k' sg''|sg'']]; cbn [after_step fst snd dir_ok cur_chain] in *.
      + destruct (Hseg k' Hd) as [A [B C]]. split; [|exact I]. apply ok_suspend; [exact Hs1|].
        intros x Hx [Hx1 _]. split; [exact Hx1|]. cbn. destruct (find_task_in _ _ _ Hx) as [_ Hid]. rewrite Hid. auto.
      + destruct (Hseg k' Hd) as [A [B C]]. split; [|exact I]. apply ok_push_ready. apply ok_set_tstate; [exact Hs1|].
        intros x Hx [Hx1 _]. split; [exact Hx1|]. cbn. destruct (find_task_in _ _ _ Hx) as [_ Hid]. rewrite Hid. auto.
      + destruct (Hseg k' Hd) as [A [B C]]. split; [exact Hs1|]. right. auto.
      + split; [exact Hs1|]. destruct rest as [|g r]; [left; reflexivity|right]. split; [apply (chainb_tail fr); exact Hch|].
        intros Ht. specialize (Hmain Ht). unfold main_stack in *. cbn [forallb] in Hmain. apply andb_true_iff in Hmain. apply Hmain.
    - destruct (IH (creach_evolves P _ _ H)) as [A _]. split; [|exact I]. apply ok_set_tstate; [exact A|]. intros x _ [Hx _]. split; [exact Hx|exact I].
    - destruct (IH (creach_evolves P _ _ H)) as [A _]. split; [|exact I]. apply ok_abort; [|exact A]. intros x r [Hx _]. split; [exact Hx|exact I].
    - destruct (IH (creach_evolves P _ _ H)) as [A _]. split; [|exact I]. apply (complete_gate_tasks_ok stack_TP stack_TP_wake). exact A.
    - destruct (IH (creach_evolves P _ _ H)) as [A _]. split; [|exact I]. apply (ok_cancel_task stack_TP stack_TP_cancel_ready stack_TP_cancel_wait). exact A.
  Qed.

  (* a helper frame that meets a CancelledError adds nothing to the history *)
  Lemma unwind_trace t fr st : hpf fr = true -> st_trace (fst (step_frame P t fr (SThrow XCancelled) st)) = st_trace st.
  Proof.
    intros Hf. destruct fr; try discriminate Hf; cbn [step_frame is_Exception]; repeat break_match; cbn [fst]; unfold finally_a; autorewrite with core; reflexivity.
  Qed.
  Lemma swallow_trace t s n v st : st_trace (fst (step_frame P t (FRecAfterDefault s n) (SVal v) st)) = st_trace st.
  Proof. reflexivity. Qed.
End StacksAtConfigurations.

Definition TPk' (k0 : option (list frame)) (x : task frame) : Prop := t_id x = main_tid -> stack_of (t_state x) = k0.
Lemma TPk'_wake k0 x w k : t_state x = TWait w k -> TPk' k0 x -> TPk' k0 (with_ts x (TReady k SGo)).
Proof. unfold TPk'. intros E H Hn. cbn in *. rewrite <- (H Hn), E. reflexivity. Qed.
Lemma TPk'_cancel_ready k0 x k sg : t_state x = TReady k sg -> TPk' k0 x -> TPk' k0 (with_ts x (TReady k (SThrow XCancelled))).
Proof. unfold TPk'. intros E H Hn. cbn in *. rewrite <- (H Hn), E. reflexivity. Qed.
Lemma TPk'_cancel_wait k0 x w k : t_state x = TWait w k -> TPk' k0 x -> TPk' k0 (with_ts x (TReady k (SThrow XCancelled))).
Proof. unfold TPk'. intros E H Hn. cbn in *. rewrite <- (H Hn), E. reflexivity. Qed.
Lemma TPk'_spawn k0 i nm f : 1 <= i -> spawn_frame f = true -> TPk' k0 {| t_id := i; t_name := nm; t_state := TReady [f] SGo; t_helper := true |}.
Proof. unfold TPk', main_tid. cbn. intros. lia. Qed.

(* a helper task that is unwinding a CancelledError: the error is pending, or the `return` in a `finally` has swallowed it and
   the value meets the last frame (or nothing) *)
Definition unwinding (k : list frame) (sg : signal) : Prop :=
  sg = SThrow XCancelled \/ ((exists v, sg = SVal v) /\ (k = [] \/ exists s n, k = [FRecAfterDefault s n])).
Definition quietG (st : mstate) (c : running) : Prop :=
  all_cancelled st /\ match c with Some (t, k, sg) => t <> main_tid -> unwinding k sg | None => True end.

Section QuietAll.
  Variable P : prog.
  Notation M := (p_mgrs P).
  Hypothesis Hnf : forall m ev n k, p_mgr_fault P m ev n k = false.

  Ltac shape H :=
    repeat (cbn [mk] in H; try contradiction;
            match type of H with context [match ?x with _ => _ end] => destruct x end); cbn [mk] in H; try contradiction.

  Lemma main_step_phaseG js jc pay t fr rest sg st :
    main_ok P js jc pay (TReady (fr :: rest) sg) -> handled fr sg = true ->
    (ph_ts (nstate rest (snd (step_frame P t fr sg st))) = 0 -> ph_k (fr :: rest) = 0 /\ st_next (fst (step_frame P t fr sg st)) = st_next st) /\
    (ph_ts (nstate rest (snd (step_frame P t fr sg st))) = 2 ->
       (ph_k (fr :: rest) <> 1 /\ st_next (fst (step_frame P t fr sg st)) = st_next st
        /\ (forall TP : task frame -> Prop, (forall x w k, t_state x = TWait w k -> TP x -> TP (with_ts x (TReady k SGo))) ->
                       tasks_ok TP st -> tasks_ok TP (fst (step_frame P t fr sg st)))) \/
       (fr = FRunWait /\ leaves_run fr sg (snd (step_frame P t fr sg st)) = true)).
  Proof.
    intros [Hnr H] Hh. cbn [main_ok] in *. shape H;
      destruct sg as [|v0| |e0|e0]; try discriminate Hh; try (exfalso; exact (Hnr e0 eq_refl));
      try match goal with r : bool |- context [FEmit _ _ _ _ _ ?r] => destruct r end;
      cbn [step_frame]; rewrite ?Hnf; unfold reduced; repeat break_match; spawn_norm;
      cbn [fst snd nstate app ph_ts ph_k early_k past_k leaves_run emit_frames];
      (split; intros Hx; try discriminate Hx;
       first [ split; reflexivity
             | left; split; [intros Hc; discriminate Hc|split; [reflexivity|intros TP Hw HT; repeat first [assumption | apply ok_emit_obs | apply ok_bump]]]
             | right; split; reflexivity ]).
  Qed.

  Lemma only_main_cancelled' st : evolves (init_state) st -> st_next st = 1 -> all_cancelled st.
  Proof.
    intros He Hn. unfold all_cancelled, tasks_ok. rewrite Forall_forall. intros x Hx Hid. exfalso.
    pose proof (evolves_ids st He x Hx) as Hlt. unfold main_tid in Hid. lia.
  Qed.

  Lemma find_main' st : evolves (init_state) st -> exists xm, find_task main_tid (st_tasks st) = Some xm /\ In xm (st_tasks st) /\ t_id xm = main_tid.
  Proof.
    intros He. destruct (evolved_shape st He) as [x [rest [T [Hid _]]]]. exists x.
    assert (F : find_task main_tid (st_tasks st) = Some x) by (rewrite T; cbn [find_task]; rewrite Hid; reflexivity).
    split; [exact F|]. destruct (find_task_in _ _ _ F) as [Hin _]. split; [exact Hin|exact Hid].
  Qed.

  Lemma main_stack_preserved' st st' :
    evolves (init_state) st ->
    (forall k0, tasks_ok (TPk' k0) st -> tasks_ok (TPk' k0) st') ->
    forall ts', main_state st' = Some ts' -> exists ts, main_state st = Some ts /\ stack_of ts' = stack_of ts.
  Proof.
    intros He Hpres ts' Hm'. destruct (find_main' st He) as [xm [F [Hin Hid]]].
    exists (t_state xm). split; [unfold main_state; rewrite F; reflexivity|].
    assert (HK : tasks_ok (TPk' (stack_of (t_state xm))) st).
    { unfold tasks_ok. rewrite Forall_forall. intros y Hy Hiy.
      destruct (evolved_shape st He) as [x0 [r0 [_ [_ [_ [_ [Hnd _]]]]]]].
      rewrite (nodup_ids_inj _ y xm Hnd Hy Hin); [reflexivity|congruence]. }
    specialize (Hpres _ HK). unfold main_state in Hm'. destruct (find_task main_tid (st_tasks st')) as [x'|] eqn:F'; [|discriminate Hm'].
    cbn in Hm'. inversion Hm'; subst ts'. destruct (find_task_in _ _ _ F') as [Hin' Hid'].
    unfold tasks_ok in Hpres. rewrite Forall_forall in Hpres. exact (Hpres x' Hin' Hid').
  Qed.

  Definition QG (st : mstate) (c : running) : Prop :=
    forall ts, main_eff st c = Some ts -> (ph_ts ts = 0 -> st_next st = 1) /\ (ph_ts ts = 2 -> quietG st c).

  Lemma cancelled_sig' st x k sg : all_cancelled st -> In x (st_tasks st) -> t_id x <> main_tid -> t_state x = TReady k sg -> sg = SThrow XCancelled.
  Proof.
    intros Ha Hin Hid Hs. unfold all_cancelled, tasks_ok in Ha. rewrite Forall_forall in Ha. specialize (Ha x Hin Hid). rewrite Hs in Ha.
    destruct sg; try contradiction. destruct e; try contradiction. reflexivity.
  Qed.

  Theorem creach_quietG : forall st c, creach P st c -> QG st c.
  Proof.
    intros st c H. pose proof (creach_evolves P st c H) as Hev0.
    induction H as [|st t rest x k sg H IH Hq Hf Ht|st t rest H IH Hq|st t fr rest sg H IH|st t sg H IH|st c H IH|st g H IH|st H IH].
    - intros ts Hm. cbn in Hm. inversion Hm; subst ts. split; [intros _; reflexivity|intros Hx; discriminate Hx].
    - pose proof (creach_evolves P _ _ H) as Hev. specialize (IH Hev). intros ts Hm. cbn [main_eff] in Hm.
      destruct (find_task_in _ _ _ Hf) as [Hin Hid].
      destruct (Nat.eqb_spec t main_tid) as [->|Hne].
      + destruct (creach_stacks P _ _ H) as [Hs _]. unfold stacks_ok, tasks_ok in Hs. rewrite Forall_forall in Hs.
        destruct (Hs x Hin) as [_ Hx]. rewrite Ht in Hx. destruct Hx as [[Hk _] _].
        assert (Hts : ts = TReady k sg) by (destruct k; [contradiction|cbn in Hm; inversion Hm; reflexivity]). subst ts.
        destruct (IH (TReady k sg)) as [A0 A2]; [cbn [main_eff]; unfold main_state; rewrite Hf; cbn; rewrite Ht; reflexivity|].
        split; [exact A0|]. intros Hp. destruct (A2 Hp) as [Q1 _]. split; [exact Q1|intros Hc; contradiction].
      + destruct (IH ts Hm) as [A0 A2]. split; [exact A0|]. intros Hp. destruct (A2 Hp) as [Q1 _]. split; [exact Q1|].
        intros _. left. rewrite <- Hid in Hne. exact (cancelled_sig' st x k sg Q1 Hin Hne Ht).
    - exact (IH (creach_evolves P _ _ H)).
    - (* one frame step *)
      pose proof (creach_evolves P _ _ H) as Hev. specialize (IH Hev).
      pose proof (ev_next _ _ Hev) as Hn1. cbn in Hn1.
      pose proof (ev_step_frame P t fr sg st) as Hevs. pose proof (evolves_trans _ _ _ Hev Hevs) as Hev1.
      destruct (creach_stacks P _ _ H) as [Hstk Hcur]. cbn [cur_chain] in Hcur. destruct Hcur as [Hcur|[Hch _]]; [discriminate Hcur|].
      destruct (creach_pipeG P Hnf _ _ H) as [js [jc [pay [_ [_ HT]]]]].
      destruct (Nat.eqb_spec t main_tid) as [->|Hne].
      + (* the chart task *)
        destruct HT as [HM Hty]. cbn [cstate typed_ts] in HM, Hty.
        destruct (IH (TReady (fr :: rest) sg)) as [A0 A2]; [cbn [main_eff cstate]; rewrite Nat.eqb_refl; reflexivity|]. cbn [ph_ts] in A0, A2.
        destruct (main_step_phaseG js jc pay main_tid fr rest sg st HM Hty) as [B0 B2].
        assert (Hts : main_eff (fst (after_step main_tid rest (step_frame P main_tid fr sg st))) (snd (after_step main_tid rest (step_frame P main_tid fr sg st)))
                      = Some (nstate rest (snd (step_frame P main_tid fr sg st)))).
        { destruct (find_main' _ Hev1) as [x' [Hf' _]].
          destruct (step_frame P main_tid fr sg st) as [st1 [w k'|k'|k' sg'|sg']]; cbn [after_step fst snd nstate main_eff cstate] in *.
          - unfold suspend. exact (main_state_set (TWait w (k' ++ rest)) st1 x' Hf').
          - exact (main_state_set (TReady (k' ++ rest) SGo) st1 x' Hf').
          - rewrite Nat.eqb_refl. reflexivity.
          - rewrite Nat.eqb_refl. reflexivity. }
        intros ts Hm. rewrite Hts in Hm. inversion Hm; subst ts. rewrite next_after_step'. split.
        * intros Hp. destruct (B0 Hp) as [Hp0 Hc]. rewrite Hc. exact (A0 Hp0).
        * intros Hp.
          assert (Hall : all_cancelled (fst (step_frame P main_tid fr sg st))).
          { destruct (B2 Hp) as [[Hp1 [Hc Hpres]]|[-> Hl]].
            - destruct (ph_cases (fr :: rest)) as [E|[E|E]]; [|contradiction|].
              + apply only_main_cancelled'; [exact Hev1|]. rewrite Hc. exact (A0 E).
              + destruct (A2 E) as [Q1 _]. exact (Hpres cancelled_TP cancelled_wake Q1).
            - destruct (evolved_shape _ Hev) as [xa [ra [_ [_ [_ [_ [Hnd _]]]]]]].
              apply run_leave_cancelled; [exact Hnd|exact Hstk|exact Hl]. }
          destruct (step_frame P main_tid fr sg st) as [st1 [w k'|k'|k' sg'|sg']]; cbn [after_step fst snd quietG] in *.
          -- split; [|exact I]. apply ok_suspend; [exact Hall|]. intros y Hy _ Hc. cbn in Hc. destruct (find_task_in _ _ _ Hy) as [_ Hiy]. contradiction.
          -- split; [|exact I]. apply ok_push_ready. apply ok_set_tstate; [exact Hall|]. intros y Hy _ Hc. cbn in Hc. destruct (find_task_in _ _ _ Hy) as [_ Hiy]. contradiction.
          -- split; [exact Hall|intros Hc; contradiction].
          -- split; [exact Hall|intros Hc; contradiction].
      + (* a helper task *)
        destruct HT as [_ Hk]. cbn [forallb] in Hk. apply andb_true_iff in Hk. destruct Hk as [Kf _].
        assert (Hsame : main_state (fst (after_step t rest (step_frame P t fr sg st))) = main_state (fst (step_frame P t fr sg st))).
        { destruct (step_frame P t fr sg st) as [st1 [w k'|k'|k' sg'|sg']]; cbn [after_step fst]; try reflexivity.
          - unfold suspend. exact (main_state_set_other t _ st1 Hne).
          - exact (main_state_set_other t _ st1 Hne). }
        assert (Heff : main_eff (fst (after_step t rest (step_frame P t fr sg st))) (snd (after_step t rest (step_frame P t fr sg st)))
                       = main_state (fst (step_frame P t fr sg st))).
        { rewrite <- Hsame. destruct (step_frame P t fr sg st) as [st1 [w k'|k'|k' sg'|sg']]; cbn [after_step fst snd main_eff]; try reflexivity;
            (apply Nat.eqb_neq in Hne; rewrite Hne; reflexivity). }
        intros ts' Hm'. rewrite Heff in Hm'.
        destruct (main_stack_preserved' st (fst (step_frame P t fr sg st)) Hev) with (ts' := ts') as [ts [Hm Hst]]; [|exact Hm'|].
        { intros k0 HK. exact (step_frame_tasks_ok P (TPk' k0) (TPk'_wake k0) (TPk'_cancel_ready k0) (TPk'_cancel_wait k0) (TPk'_spawn k0) t fr sg st Hn1 HK). }
        destruct (IH ts) as [A0 A2]; [cbn [main_eff]; apply Nat.eqb_neq in Hne; rewrite Hne; exact Hm|].
        rewrite ph_ts_stack, Hst, <- ph_ts_stack. split.
        * intros Hp. exfalso. pose proof (creach_cur_id P _ _ H) as Hlt. cbn in Hlt. rewrite (A0 Hp) in Hlt. unfold main_tid in Hne. lia.
        * intros Hp. destruct (A2 Hp) as [Q1 Q2]. cbn in Q2. destruct (Q2 Hne) as [Esg|[[v Esg] [Ek|[s [n Ek]]]]]; subst sg.
          -- destruct (unwind_step P t fr st Q1) as [Q1' [_ Hd]].
             destruct (step_frame P t fr (SThrow XCancelled) st) as [st1 d]. cbn [fst snd] in *.
             destruct Hd as [->|[[d' [n ->]] ->]]; cbn [after_step fst snd quietG].
             ++ split; [exact Q1'|intros _; left; reflexivity].
             ++ split; [exact Q1'|intros _; right]. split; [eauto|]. exact (below_node_save d' n false rest Hch).
          -- discriminate Ek.
          -- inversion Ek; subst fr rest. destruct (after_swallow_step P t s n v st Q1) as [Q1' [_ [v' Hd]]].
             destruct (step_frame P t (FRecAfterDefault s n) (SVal v) st) as [st1 d]. cbn [fst snd] in *. subst d. cbn [after_step fst snd quietG].
             split; [exact Q1'|intros _; right]. split; [eauto|left; reflexivity].
    - (* the task finishes *)
      pose proof (creach_evolves P _ _ H) as Hev. specialize (IH Hev). intros ts Hm. cbn [main_eff] in Hm.
      destruct (Nat.eqb_spec t main_tid) as [->|Hne].
      + destruct (find_main' st Hev) as [xm [F _]]. rewrite (main_state_set (TDone sg) st xm F) in Hm. inversion Hm; subst ts.
        destruct (IH (TDone sg)) as [_ A2]; [cbn [main_eff cstate]; rewrite Nat.eqb_refl; reflexivity|].
        split; [intros Hx; discriminate Hx|]. intros _. destruct (A2 eq_refl) as [Q1 _]. split; [|exact I].
        apply ok_set_tstate; [exact Q1|]. intros y Hy _ Hc. cbn in Hc. destruct (find_task_in _ _ _ Hy) as [_ Hiy]. contradiction.
      + rewrite (main_state_set_other t (TDone sg) st Hne) in Hm.
        destruct (IH ts) as [A0 A2]; [cbn [main_eff]; apply Nat.eqb_neq in Hne; rewrite Hne; exact Hm|].
        split; [exact A0|]. intros Hp. destruct (A2 Hp) as [Q1 _]. split; [|exact I]. apply ok_set_tstate; [exact Q1|]. intros y _ _ _. exact I.
    - (* abort *)
      intros ts Hm. cbn [main_eff] in Hm.
      assert (Hd : exists r, ts = TDone r).
      { unfold main_state in Hm. destruct (find_task main_tid (st_tasks (abort P st))) as [y|] eqn:F; [|discriminate Hm]. cbn in Hm. inversion Hm; subst ts.
        destruct (find_task_in _ _ _ F) as [Hin _]. unfold abort in Hin. cbn [st_tasks] in Hin. apply in_map_iff in Hin. destruct Hin as [z [<- _]]. cbn. eauto. }
      destruct Hd as [r ->]. split; [intros Hx; discriminate Hx|]. intros _. split; [apply all_cancelled_abort|exact I].
    - (* an external completion *)
      pose proof (creach_evolves P _ _ H) as Hev. specialize (IH Hev).
      intros ts' Hm'. cbn [main_eff] in Hm'.
      destruct (main_stack_preserved' st (complete_gate g st) Hev) with (ts' := ts') as [ts [Hm Hst]]; [|exact Hm'|].
      { intros k0 HK. apply (complete_gate_tasks_ok (TPk' k0) (TPk'_wake k0)). exact HK. }
      destruct (IH ts Hm) as [A0 A2]. rewrite ph_ts_stack, Hst, <- ph_ts_stack. unfold complete_gate. rewrite next_wake_all. split; [exact A0|].
      intros Hp. destruct (A2 Hp) as [Q1 _]. split; [|exact I]. apply (complete_gate_tasks_ok cancelled_TP cancelled_wake). exact Q1.
    - (* the caller cancels *)
      pose proof (creach_evolves P _ _ H) as Hev. specialize (IH Hev).
      intros ts' Hm'. cbn [main_eff] in Hm'.
      destruct (main_stack_preserved' st (cancel_task main_tid st) Hev) with (ts' := ts') as [ts [Hm Hst]]; [|exact Hm'|].
      { intros k0 HK. apply (ok_cancel_task (TPk' k0) (TPk'_cancel_ready k0) (TPk'_cancel_wait k0)). exact HK. }
      destruct (IH ts Hm) as [A0 A2]. rewrite ph_ts_stack, Hst, <- ph_ts_stack. rewrite next_cancel_task. split; [exact A0|].
      intros Hp. destruct (A2 Hp) as [Q1 _]. split; [|exact I]. apply (ok_cancel_task cancelled_TP cancelled_cancel_ready cancelled_cancel_wait). exact Q1.
  Qed.
End QuietAll.

Section LastAll.
  Variable P : prog.
  Hypothesis Hnf : forall m ev n k, p_mgr_fault P m ev n k = false.

  Theorem creach_lastG : forall st c, creach P st c -> last_ok (st_trace st).
  Proof.
    intros st c H.
    induction H as [|st t rest x k sg H IH Hq Hf Ht|st t rest H IH Hq|st t fr rest sg H IH|st t sg H IH|st c H IH|st g H IH|st H IH].
    - intros a o b E Ho. cbn in E. destruct a as [|y a']; [inversion E; subst; discriminate Ho|]. inversion E. destruct a'; discriminate.
    - exact IH.
    - exact IH.
    - pose proof (creach_evolves P _ _ H) as Hev.
      destruct (creach_pipeG P Hnf _ _ H) as [js [jc [pay [(_ & S2 & _) [_ HT]]]]].
      rewrite trace_after_step'.
      destruct (Nat.eqb_spec t main_tid) as [->|Hne].
      + destruct HT as [HM Hty]. cbn [cstate typed_ts] in HM, Hty.
        destruct (main_step_pc P Hnf js jc pay main_tid fr rest sg st HM Hty) as [new [Etr Hd]]. rewrite Etr. apply last_ok_app; [exact IH|].
        destruct Hd as [Hd|[-> Hd]]; [left; exact Hd|right; split; [exact (seen0_nopc P _ S2)|exact Hd]].
      + destruct HT as [HT Hk]. cbn [forallb] in Hk. apply andb_true_iff in Hk. destruct Hk as [Kf _].
        destruct (haspc (st_trace st)) eqn:Ehp.
        * (* a callback has been made: the helper is unwinding a CancelledError and adds nothing *)
          assert (Hjc : jc <> 0) by (intros ->; rewrite (seen0_nopc P _ S2) in Ehp; discriminate Ehp).
          destruct (find_main' st Hev) as [xm [Fm [Hinm Hidm]]].
          unfold tasks_ok in HT. rewrite Forall_forall in HT. destruct (HT xm Hinm Hidm) as [Hok _].
          pose proof (main_ok_jc_ph P js jc pay _ Hok Hjc) as Hph.
          destruct (creach_quietG P Hnf _ _ H (t_state xm)) as [_ A2].
          { cbn [main_eff]. apply Nat.eqb_neq in Hne. rewrite Hne. unfold main_state. rewrite Fm. reflexivity. }
          destruct (A2 Hph) as [_ Q2]. cbn in Q2. destruct (Q2 Hne) as [Esg|[[v Esg] [Ek|[s [n Ek]]]]]; subst sg.
          -- rewrite (unwind_trace P t fr st Kf). exact IH.
          -- discriminate Ek.
          -- inversion Ek; subst fr rest. rewrite swallow_trace. exact IH.
        * destruct (step_npq P t fr sg st Kf) as [new [Etr Hnew]]. rewrite Etr. apply last_ok_app; [exact IH|].
          right. split; [exact Ehp|]. rewrite forallb_forall in *. intros o Ho'. specialize (Hnew o Ho'). destruct o; try reflexivity. destruct ev; try reflexivity. discriminate Hnew.
    - exact IH.
    - exact IH.
    - unfold complete_gate. rewrite trace_wake_all. exact IH.
    - rewrite trace_cancel_task. exact IH.
  Qed.
End LastAll.

Theorem pipeline_complete_comes_last_all_programs P :
  (forall m ev n k, p_mgr_fault P m ev n k = false) ->
  forall st, reachable P st ->
    forall a o b, st_trace st = a ++ o :: b -> is_pc_any o = true -> forallb is_pc_any a = true.
Proof. intros Hnf st Hr. exact (creach_lastG P Hnf st None (reachable_creach P st Hr)). Qed.
