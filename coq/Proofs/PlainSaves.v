(* Plain programs, every schedule, while manager.run is pending: what is handed to the artifact store.
   - a node is handed to the store at most once;
   - what is handed over is the node's stored result -- the value its consumers receive -- and that result is final;
   - every node that has a result has been handed to the store (when a store is configured), in the same loop step. *)
From MLPE Require Import Engine.Run Proofs.ExecLemmas Proofs.Evolve Proofs.StackInv Proofs.ReadyInv Proofs.WaitInv Explore.StateEq
     Proofs.ProcessedInv Proofs.PlainWorld Proofs.PlainLaunch Proofs.PlainLive Proofs.Micro Proofs.PlainBase Proofs.PlainCore Proofs.PlainInv
     Proofs.PlainRoles Proofs.PlainExec Proofs.PlainArgs Proofs.AssocLemmas.

Definition is_save_of (m : key) (o : obs) : bool := match o with OSave n _ => key_eqb n m | _ => false end.
Definition count_saves (m : key) (tr : list obs) : nat := length (filter (is_save_of m) tr).
Definition pending_save (f : frame) : option (key * value) := match f with FSave n v false _ => Some (n, v) | _ => None end.

Lemma get_result_set_same q v s : get_result q true (set_result q v s) = v.
Proof. unfold get_result, get_result_opt, set_result. cbn. rewrite (alookup_aset_same key_eqb key_eqb_spec). reflexivity. Qed.

Section SaveSteps.
  Variable P : prog.
  Notation G := (b_graph (build (p_decls P) (p_inp P) (p_out P))).
  Hypothesis Hsw : forall n, is_switch G n = false.
  Hypothesis Hhd : forall n, is_head G n = false.
  Hypothesis Hbody : forall i kw a v, p_body P i kw a = OVal v -> clean v = true.

  Ltac plain_prep8 :=
    repeat match goal with
           | H : (_ && _)%bool = true |- _ => apply andb_true_iff in H; destruct H
           | H : is_main P ?d = true |- _ => apply is_main_eq in H; subst d
           | H : negb ?f = true |- _ => apply negb_true_iff in H; subst f
           | H : ?u = true |- _ => is_var u; subst u
           end.

  (* the trace grows by a save only at the frame that calls the store *)
  Lemma plain_step_osave t fr sg st :
    plain_frame P fr = true -> clean_sig sg -> PS st ->
    (exists n v k, fr = FSave n v false k /\ sg = SGo /\ p_store P <> StNone /\
                   st_trace (fst (step_frame P t fr sg st)) = OSave n v :: st_trace st) \/
    (forall m, count_saves m (st_trace (fst (step_frame P t fr sg st))) = count_saves m (st_trace st)) /\
    (forall n v, In (OSave n v) (st_trace (fst (step_frame P t fr sg st))) -> In (OSave n v) (st_trace st)).
  Proof.
    intros Hf Hs Hst. pose proof Hst as Hst'. unfold PS in Hst'.
    destruct fr; try discriminate Hf; cbn [plain_frame] in Hf; plain_prep8;
      destruct sg; cbn [clean_sig] in Hs;
      try match goal with H : clean ?v = true |- _ => pose proof (clean_not_rec v H) as Hnr; pose proof (clean_not_exn v H) as Hne end;
      cbn [step_frame]; rewrite ?Hnr, ?Hne, ?Hsw, ?Hhd, ?(plain_dep_error P _ _ _ Hst'), ?(plain_no_subgraph_error _ _ Hst');
      unfold default_or_raise, reduced; cbn [d_oneof d_rec maind andb];
      repeat break_match; spawn_norm; cbn [fst];
      autorewrite with core; cbn [st_trace emit_obs bump with_store spawn fst set_adddata];
      autorewrite with core;
      first [ right; split; [intros ?; reflexivity|intros ? ? Hin; exact Hin]
            | right; split; [intros ?; unfold count_saves; cbn [filter is_save_of]; reflexivity
                            |intros ? ? Hin; repeat (destruct Hin as [Hin|Hin]; [discriminate Hin|]); exact Hin]
            | left; do 3 eexists; repeat split; try reflexivity; congruence ].
  Qed.

  (* the frame that is about to call the store is pushed only where _run_node has just stored the result *)
  Lemma plain_step_pending_save t fr sg st f n v :
    plain_frame P fr = true -> clean_sig sg -> PS st ->
    In f (dir_frames (snd (step_frame P t fr sg st))) -> pending_save f = Some (n, v) ->
    exists d0, fr = FNodeAfterExec d0 n /\ sg = SVal v.
  Proof.
    intros Hf Hs Hst. pose proof Hst as Hst'. unfold PS in Hst'.
    destruct fr; try discriminate Hf; cbn [plain_frame] in Hf; plain_prep8;
      destruct sg; cbn [clean_sig] in Hs;
      try match goal with H : clean ?v = true |- _ => pose proof (clean_not_rec v H) as Hnr; pose proof (clean_not_exn v H) as Hne end;
      cbn [step_frame]; rewrite ?Hnr, ?Hne, ?Hsw, ?Hhd, ?(plain_dep_error P _ _ _ Hst'), ?(plain_no_subgraph_error _ _ Hst');
      unfold default_or_raise, reduced; cbn [d_oneof d_rec maind andb];
      repeat break_match; cbn [snd dir_frames emit_frames]; intros Hin Hr;
      repeat (destruct Hin as [Hin|Hin]; [subst f; cbn [pending_save] in Hr; try discriminate Hr; inversion Hr; subst; eauto|]); try contradiction.
  Qed.
End SaveSteps.

Lemma count_saves_zero m tr : (forall v, ~ In (OSave m v) tr) -> count_saves m tr = 0.
Proof.
  unfold count_saves. induction tr as [|o r IH]; intros H; [reflexivity|]. cbn [filter].
  destruct (is_save_of m o) eqn:E.
  - exfalso. destruct o; try discriminate E. cbn in E. apply key_eqb_spec in E. subst n. apply (H v). left. reflexivity.
  - apply IH. intros v Hin. apply (H v). right. exact Hin.
Qed.
Lemma count_saves_cons m o tr : count_saves m (o :: tr) = (if is_save_of m o then 1 else 0) + count_saves m tr.
Proof. unfold count_saves. cbn [filter]. destruct (is_save_of m o); reflexivity. Qed.

Definition no_pending (k : list frame) : bool := forallb (fun f => match pending_save f with None => true | Some _ => false end) k.

Section SaveInv.
  Variable P : prog.
  Notation G := (b_graph (build (p_decls P) (p_inp P) (p_out P))).
  Hypothesis Hsw : forall n, is_switch G n = false.
  Hypothesis Hhd : forall n, is_head G n = false.
  Hypothesis Hbody : forall i kw a v, p_body P i kw a = OVal v -> clean v = true.
  Notation order := (p_order P (maind P)).
  Hypothesis Hnd : NoDup order.

  Definition PhiS (st : mstate) (i : idt) (ts : tstate frame) : Prop :=
    forall m, snd (fst i) = TNNode m ->
      (forall f n v, In f (estack ts) -> pending_save f = Some (n, v) ->
         n = m /\ get_result m true (st_store st) = v /\ exists_result m (st_store st) = true /\ count_saves m (st_trace st) = 0) /\
      no_pending (tl (estack ts)) = true /\
      (exists_result m (st_store st) = true -> p_store P <> StNone ->
         count_saves m (st_trace st) = 1 \/ exists f r, estack ts = f :: r /\ pending_save f = Some (m, get_result m true (st_store st))) /\
      (forall f r s nv, ts = TReady (f :: r) s -> pending_save f = Some nv -> s = SGo).

  Definition globS (st : mstate) : Prop :=
    (forall n v, In (OSave n v) (st_trace st) -> exists_result n (st_store st) = true /\ get_result n true (st_store st) = v) /\
    (forall m, count_saves m (st_trace st) <= 1).

  Definition savesI (st : mstate) (c : running) : Prop := guard st \/ (globS st /\ allT (PhiS st) st c).

  Lemma PhiS_wake st : wake_closed (PhiS st).
  Proof.
    intros i w k H m Hm. destruct (H m Hm) as (A & B & C & D). cbn [estack] in *. split; [|split; [|split]].
    - intros f n v Hf Hp. exact (A f n v Hf Hp).
    - exact B.
    - exact C.
    - intros f r s nv Hs _. inversion Hs. reflexivity.
  Qed.
  Lemma PhiS_ext st st' i ts : st_store st' = st_store st -> st_trace st' = st_trace st -> PhiS st i ts -> PhiS st' i ts.
  Proof. unfold PhiS. intros -> ->. auto. Qed.
  Lemma allT_extS st0 st1 st c : st_store st1 = st_store st0 -> st_trace st1 = st_trace st0 -> allT (PhiS st0) st c -> allT (PhiS st1) st c.
  Proof. intros A B. apply allT_impl. intros x _. apply PhiS_ext; assumption. Qed.
  Lemma globS_ext st st' : st_store st' = st_store st -> st_trace st' = st_trace st -> globS st -> globS st'.
  Proof. unfold globS. intros -> ->. auto. Qed.

  (* a pending-save frame is only ever pushed on top *)
  Lemma plain_step_pending_top t fr sg st :
    plain_frame P fr = true -> clean_sig sg -> PS st -> no_pending (tl (dir_frames (snd (step_frame P t fr sg st)))) = true.
  Proof.
    intros Hf Hs Hst. pose proof Hst as Hst'. unfold PS in Hst'.
    destruct fr; try discriminate Hf; cbn [plain_frame] in Hf;
      repeat match goal with
             | H : (_ && _)%bool = true |- _ => apply andb_true_iff in H; destruct H
             | H : is_main P ?d = true |- _ => apply is_main_eq in H; subst d
             | H : negb ?f = true |- _ => apply negb_true_iff in H; subst f
             | H : ?u = true |- _ => is_var u; subst u
             end;
      destruct sg; cbn [clean_sig] in Hs;
      try match goal with H : clean ?v = true |- _ => pose proof (clean_not_rec v H) as Hnr; pose proof (clean_not_exn v H) as Hne end;
      cbn [step_frame]; rewrite ?Hnr, ?Hne, ?Hsw, ?Hhd, ?(plain_dep_error P _ _ _ Hst'), ?(plain_no_subgraph_error _ _ Hst');
      unfold default_or_raise, reduced; cbn [d_oneof d_rec maind andb];
      repeat break_match; cbn [snd dir_frames tl no_pending forallb pending_save emit_frames andb]; reflexivity.
  Qed.

  Lemma owner_fsave m n v b k : owner (TNNode m) (FSave n v b k) = true -> n = m.
  Proof. cbn. intros H. apply key_eqb_spec in H. exact H. Qed.

  Lemma savesA_step st t fr rest sg :
    base P st (Some (t, fr :: rest, sg)) ->
    globR st -> allT (PhiR P st) st (Some (t, fr :: rest, sg)) ->
    NoDup (node_names (fst (step_frame P t fr sg st))) ->
    globA P st -> allT (PhiA P st) st (Some (t, fr :: rest, sg)) ->
    globS st -> allT (PhiS st) st (Some (t, fr :: rest, sg)) ->
    leaves_run fr sg (snd (step_frame P t fr sg st)) = false ->
    globS (fst (step_frame P t fr sg st)) /\
    allT (PhiS (fst (step_frame P t fr sg st)))
         (fst (after_step t rest (step_frame P t fr sg st))) (snd (after_step t rest (step_frame P t fr sg st))).
  Proof.
    intros Hb HG HA Hnd1 (_ & A1 & _) HAa (S1 & S2) HS Hlr. destruct HG as (G1 & G2 & G3).
    destruct (b_cur _ _ _ Hb) as [x0 [Hf0 [Hk [Hs [Ho [Hc _]]]]]].
    cbn [plain_stack forallb] in Hk, Ho. apply andb_true_iff in Hk. destruct Hk as [Kf Kr]. apply andb_true_iff in Ho. destruct Ho as [Of Or].
    pose proof (b_ps _ _ _ Hb) as Hps. pose proof Hps as Hps'. unfold PS in Hps'. destruct Hps' as [_ [Hrh _]].
    destruct (plain_step_summary P t fr sg st Kf Hs Hps) as (Hst & _ & _).
    destruct (find_task_in _ _ _ Hf0) as [Hin0 Hid0].
    pose proof (allT_In _ _ _ x0 HA Hin0) as Hx0. unfold PhiR in Hx0. cbn [estate] in Hx0. rewrite Hid0, Nat.eqb_refl in Hx0.
    destruct Hx0 as (_ & _ & _ & X4 & _). cbn [ident fst snd] in X4.
    pose proof (allT_In _ _ _ x0 HAa Hin0) as Hz0. unfold PhiA in Hz0. cbn [estate ident fst snd] in Hz0. rewrite Hid0, Nat.eqb_refl in Hz0.
    pose proof (allT_In _ _ _ x0 HS Hin0) as Hw0. unfold PhiS in Hw0. cbn [estate ident fst snd] in Hw0. rewrite Hid0, Nat.eqb_refl in Hw0.
    (* the node whose result this step stores has none yet *)
    assert (Hfresh : forall d n v, fr = FNodeAfterExec d n -> sg = SVal v -> exists_result n (st_store st) = false).
    { intros d n v -> ->. destruct (exists_result n (st_store st)) eqn:Hp; [|reflexivity]. exfalso.
      pose proof (owner_frame_key _ _ _ Of eq_refl) as Enm. destruct (Hz0 n Enm) as (_ & B & _). destruct (B Hp) as [Hs'|[r Hr]]; [|discriminate Hr].
      rewrite Enm in Or. rewrite (knode_bottom n (FNodeAfterExec d n) rest eq_refl Or Hc) in Hs'. cbn in Hs'. discriminate Hs'. }
    assert (F1 : forall p, exists_result p (st_store st) = true ->
                           get_result p true (st_store (fst (step_frame P t fr sg st))) = get_result p true (st_store st)).
    { intros p Hp. rewrite Hst. unfold step_store. destruct fr; try reflexivity; destruct sg; try reflexivity.
      - destruct (key_eqb p n) eqn:Epn; [|apply get_result_set_other; intros ->; rewrite key_eqb_refl in Epn; discriminate Epn].
        exfalso. apply key_eqb_spec in Epn. subst p. rewrite (Hfresh d n v eq_refl eq_refl) in Hp. discriminate Hp.
      - destruct (exists_processed n (st_store st)); reflexivity. }
    assert (F2 : forall p, exists_result p (st_store st) = true -> exists_result p (st_store (fst (step_frame P t fr sg st))) = true).
    { intros p Hp. rewrite Hst. apply step_store_res_mono; assumption. }
    (* a result that appears in this step is stored by this step *)
    assert (F3 : forall p, exists_result p (st_store (fst (step_frame P t fr sg st))) = true -> exists_result p (st_store st) = false ->
                           exists d v, fr = FNodeAfterExec d p /\ sg = SVal v).
    { intros p Hp Hn. rewrite Hst in Hp. unfold step_store in Hp. destruct fr; try congruence; destruct sg; try congruence.
      - rewrite (result_set _ _ _ _ Hrh), Hn, orb_false_r in Hp. apply key_eqb_spec in Hp. subst p. eauto.
      - destruct (exists_processed n (st_store st)); [congruence|]. rewrite result_set_processed in Hp. congruence. }
    destruct (plain_step_osave P t fr sg st Kf Hs Hps) as [[n [v [k (Efr & Esg & Hstore & Etr)]]]|[Tc Tin]].
    - (* the store is called for n *)
      subst fr sg.
      assert (Enm : exists m, t_name x0 = TNNode m) by (destruct (t_name x0); try discriminate Of; eauto).
      destruct Enm as [m Enm]. rewrite Enm in Of, Or. pose proof (owner_fsave _ _ _ _ _ Of) as En. subst n.
      destruct (Hw0 m Enm) as (W1 & W2 & W3 & W4). destruct (W1 _ m v (or_introl eq_refl) eq_refl) as (_ & Wv & Wr & Wc).
      assert (Hst0 : st_store (fst (step_frame P t (FSave m v false k) SGo st)) = st_store st) by (rewrite Hst; reflexivity).
      split.
      + split.
        * intros n v' Hin. rewrite Etr in Hin. rewrite Hst0. destruct Hin as [Hin|Hin]; [inversion Hin; subst; auto|apply S1; exact Hin].
        * intros m'. rewrite Etr, count_saves_cons. cbn [is_save_of]. destruct (key_eqb m m') eqn:E.
          -- apply key_eqb_spec in E. subst m'. rewrite Wc. lia.
          -- specialize (S2 m'). lia.
      + apply (allT_step P Hsw Hhd (PhiS st)); try assumption.
        * apply PhiS_wake.
        * intros nm Hnm. cbn [creates] in Hnm. contradiction.
        * intros y ts Hy Hne Hyp m' Em'. destruct (Hyp m' Em') as (B1 & B2 & B3 & B4).
          assert (Hmm : m' <> m).
          { intros ->. pose proof (ev_step_frame P t (FSave m v false k) SGo st) as Hev'.
            destruct (evolves_find _ _ _ _ Hev' Hf0) as [x' [Hf' [Hnm' [_ Hid']]]]. destruct (find_task_in _ _ _ Hf') as [Hin' _].
            apply (node_names_unique _ y x' m Hnd1 Hy Hin'); [rewrite Hid', Hid0; exact Hne|exact Em'|rewrite Hnm'; exact Enm]. }
          assert (Hcnt : count_saves m' (st_trace (fst (step_frame P t (FSave m v false k) SGo st))) = count_saves m' (st_trace st)).
          { rewrite Etr, count_saves_cons. cbn [is_save_of]. destruct (key_eqb m m') eqn:E; [apply key_eqb_spec in E; congruence|reflexivity]. }
          rewrite Hst0, Hcnt. split; [exact B1|]. split; [exact B2|]. split; [exact B3|exact B4].
        * intros x Hx Hid. rewrite (run_ident P st t _ SGo x0 x (b_ev _ _ _ Hb) Hf0 Hx Hid). intros m' Em'. cbn [ident fst snd] in Em'.
          rewrite Enm in Em'. inversion Em'; subst m'. clear Em'.
          assert (Hd : snd (step_frame P t (FSave m v false k) SGo st) = DSuspend (WGate (GSave m (ctr_get (CSave m) st))) [FSave m v true (ctr_get (CSave m) st)]
                       \/ snd (step_frame P t (FSave m v false k) SGo st) = DCont [FSave m v true (ctr_get (CSave m) st)] SGo).
          { cbn [step_frame]. destruct (p_store P); [contradiction| |]; destruct (p_store_gated P); cbn [snd]; auto. }
          assert (Hcnt : count_saves m (st_trace (fst (step_frame P t (FSave m v false k) SGo st))) = 1).
          { rewrite Etr, count_saves_cons. cbn [is_save_of]. rewrite key_eqb_refl, Wc. reflexivity. }
          cbn [estack tl] in W2.
          rewrite estack_nstate. split; [|split; [|split]].
          -- intros f n v' Hf Hp. exfalso. apply in_app_or in Hf. destruct Hf as [Hf|Hf].
             ++ destruct Hd as [Hd|Hd]; rewrite Hd in Hf; cbn [dir_frames] in Hf; destruct Hf as [<-|[]]; discriminate Hp.
             ++ unfold no_pending in W2. rewrite forallb_forall in W2. specialize (W2 f Hf). rewrite Hp in W2. discriminate W2.
          -- destruct Hd as [Hd|Hd]; rewrite Hd; cbn [dir_frames app tl]; exact W2.
          -- intros _ _. left. exact Hcnt.
          -- intros f r s nv Hn Hp. destruct Hd as [Hd|Hd]; rewrite Hd in Hn; cbn [nstate app] in Hn; [discriminate Hn|]. inversion Hn; subst. discriminate Hp.
    - (* no store call in this step *)
      split.
      + split.
        * intros n v Hin. specialize (Tin n v Hin). destruct (S1 n v Tin) as [Hr Hv]. split; [apply F2; exact Hr|rewrite (F1 n Hr); exact Hv].
        * intros m. rewrite Tc. apply S2.
      + apply (allT_step P Hsw Hhd (PhiS st)); try assumption.
        * apply PhiS_wake.
        * (* spawned tasks *)
          intros nm Hnm m Em. cbn [fst snd] in Em.
          destruct (creates_shape P fr sg st nm Hnm) as [[-> ->]|[d [n [r [l0 [-> [-> ->]]]]]]]; [discriminate Em|]. inversion Em; subst m. clear Em.
          unfold spawn_frame_of. cbn [estack tl no_pending forallb]. split; [|split; [reflexivity|split]].
          -- intros f n0 v [<-|[]] Hp. discriminate Hp.
          -- intros Hr _. exfalso.
             destruct (X4 (owner_dag_loop _ _ _ _ Of)) as [r0 [Hr0 Hor]].
             assert (r0 = n :: r) by (destruct rest; [cbn in Hr0; inversion Hr0; reflexivity|discriminate Hr0]). subst r0.
             pose proof Hnd as Hnd'. rewrite Hor in Hnd'. apply NoDup_remove_2 in Hnd'. apply Hnd'. apply in_or_app. left. apply A1. exact Hr.
          -- intros f r1 s nv Hn Hp. inversion Hn; subst. discriminate Hp.
        * (* the other tasks *)
          intros y ts Hy Hne Hyp m' Em'. destruct (Hyp m' Em') as (B1 & B2 & B3 & B4). rewrite Tc.
          split; [|split; [exact B2|split; [|exact B4]]].
          -- intros f n v Hf Hp. destruct (B1 f n v Hf Hp) as (E1 & E2 & E3 & E4). repeat split; auto. rewrite (F1 m' E3). exact E2.
          -- intros Hr Hsto. destruct (exists_result m' (st_store st)) eqn:Er.
             ++ rewrite (F1 m' Er). apply B3; [reflexivity|exact Hsto].
             ++ exfalso. destruct (F3 m' Hr Er) as [d [v [-> ->]]].
                pose proof (owner_frame_key _ _ _ Of eq_refl) as Enm.
                pose proof (ev_step_frame P t (FNodeAfterExec d m') (SVal v) st) as Hev'.
                destruct (evolves_find _ _ _ _ Hev' Hf0) as [x' [Hf' [Hnm' [_ Hid']]]]. destruct (find_task_in _ _ _ Hf') as [Hin' _].
                apply (node_names_unique _ y x' m' Hnd1 Hy Hin'); [rewrite Hid', Hid0; exact Hne|exact Em'|rewrite Hnm'; exact Enm].
        * (* the running task *)
          intros x Hx Hid. rewrite (run_ident P st t fr sg x0 x (b_ev _ _ _ Hb) Hf0 Hx Hid). intros m Em. cbn [ident fst snd] in Em.
          destruct (Hw0 m Em) as (W1 & W2 & W3 & W4). rewrite Em in Of, Or. cbn [estack tl] in W2.
          pose proof (plain_step_pending_top t fr sg st Kf Hs Hps) as Htop.
          rewrite estack_nstate, Tc. split; [|split; [|split]].
          -- (* a pending-save frame in the new stack is the one just pushed after storing the result *)
             intros f n v Hf Hp. apply in_app_or in Hf. destruct Hf as [Hf|Hf].
             ++ destruct (plain_step_pending_save P t fr sg st f n v Kf Hs Hps Hf Hp) as [d0 [-> ->]].
                pose proof (owner_frame_key _ _ _ Of eq_refl) as En. inversion En; subst n.
                rewrite Hst. cbn [step_store]. rewrite get_result_set_same, (result_set _ _ _ _ Hrh), key_eqb_refl. repeat split; try reflexivity.
                apply count_saves_zero. intros v' Hin. destruct (S1 m v' Hin) as [Hr _]. rewrite (Hfresh d0 m v eq_refl eq_refl) in Hr. discriminate Hr.
             ++ exfalso. unfold no_pending in W2. rewrite forallb_forall in W2. specialize (W2 f Hf). rewrite Hp in W2. discriminate W2.
          -- destruct (dir_frames (snd (step_frame P t fr sg st))) as [|f1 k'']; cbn [app tl].
             ++ destruct rest as [|g r]; [reflexivity|]. cbn [tl]. unfold no_pending in *. cbn [forallb] in W2. apply andb_true_iff in W2. apply W2.
             ++ cbn [tl] in Htop. unfold no_pending in *. rewrite forallb_app, Htop, W2. reflexivity.
          -- intros Hr Hsto. destruct (exists_result m (st_store st)) eqn:Er.
             ++ destruct (W3 eq_refl Hsto) as [Hc1|[f [r [Est Hp]]]]; [left; exact Hc1|]. exfalso.
                cbn [estack] in Est. inversion Est; subst f r.
                pose proof (W4 _ _ _ _ eq_refl Hp) as Esg. subst sg. destruct fr; try discriminate Hp. destruct resumed; try discriminate Hp.
                (* the frame that calls the store, with a store configured, resumed with SGo: this is the other branch of the case split *)
                assert (Hc1 : count_saves n (st_trace (fst (step_frame P t (FSave n v false k) SGo st))) = S (count_saves n (st_trace st))).
                { cbn [step_frame]. destruct (p_store P); [contradiction| |]; destruct (p_store_gated P); cbn [fst]; unfold count_saves; cbn [st_trace bump emit_obs filter is_save_of]; rewrite key_eqb_refl; reflexivity. }
                rewrite Tc in Hc1. lia.
             ++ right. destruct (F3 m Hr Er) as [d [v [-> ->]]]. cbn [plain_frame] in Kf. apply is_main_eq in Kf. subst d. cbn [clean_sig] in Hs.
                assert (Hd : snd (step_frame P t (FNodeAfterExec (maind P) m) (SVal v) st) = DCont [FSave m v false 0; FNodeAfterSave (maind P) m true] SGo).
                { cbn [step_frame]. rewrite (clean_not_rec _ Hs), (clean_not_exn _ Hs). reflexivity. }
                rewrite Hd, Hst. cbn [dir_frames app step_store]. do 2 eexists. split; [reflexivity|].
                cbn [pending_save]. rewrite get_result_set_same. reflexivity.
          -- intros f r s nv Hn Hp.
             assert (Hstk : dir_frames (snd (step_frame P t fr sg st)) ++ rest = f :: r) by (rewrite <- estack_nstate, Hn; reflexivity).
             destruct (dir_frames (snd (step_frame P t fr sg st))) as [|f1 k''] eqn:Ed.
             ++ cbn [app] in Hstk. subst rest. exfalso. unfold no_pending in W2. cbn [forallb] in W2. rewrite Hp in W2. discriminate W2.
             ++ cbn [app] in Hstk. inversion Hstk; subst f1. destruct nv as [n v].
                destruct (plain_step_pending_save P t fr sg st f n v Kf Hs Hps ltac:(rewrite Ed; left; reflexivity) Hp) as [d0 [-> ->]].
                cbn [plain_frame] in Kf. apply is_main_eq in Kf. subst d0. cbn [clean_sig] in Hs.
                cbn [step_frame] in Hn. rewrite (clean_not_rec _ Hs), (clean_not_exn _ Hs) in Hn. cbn [snd nstate app] in Hn. inversion Hn. reflexivity.
  Qed.

  (* ---- a frame about to call the store is never at rest: it exists only inside the loop step that pushed it ---- *)
  Definition np_TP (x : task frame) : Prop := no_pending (estack (t_state x)) = true.
  Definition np_cur (c : running) : Prop := match c with Some (_, k, _) => no_pending (tl k) = true | None => True end.

  Lemma plain_step_pending_rest t fr sg st :
    plain_frame P fr = true -> clean_sig sg -> PS st ->
    forall k', (exists w, snd (step_frame P t fr sg st) = DSuspend w k') \/ snd (step_frame P t fr sg st) = DYield k' -> no_pending k' = true.
  Proof.
    intros Hf Hs Hst. pose proof Hst as Hst'. unfold PS in Hst'.
    destruct fr; try discriminate Hf; cbn [plain_frame] in Hf;
      repeat match goal with
             | H : (_ && _)%bool = true |- _ => apply andb_true_iff in H; destruct H
             | H : is_main P ?d = true |- _ => apply is_main_eq in H; subst d
             | H : negb ?f = true |- _ => apply negb_true_iff in H; subst f
             | H : ?u = true |- _ => is_var u; subst u
             end;
      destruct sg; cbn [clean_sig] in Hs;
      try match goal with H : clean ?v = true |- _ => pose proof (clean_not_rec v H) as Hnr; pose proof (clean_not_exn v H) as Hne end;
      cbn [step_frame]; rewrite ?Hnr, ?Hne, ?Hsw, ?Hhd, ?(plain_dep_error P _ _ _ Hst'), ?(plain_no_subgraph_error _ _ Hst');
      unfold default_or_raise, reduced; cbn [d_oneof d_rec maind andb];
      repeat break_match; cbn [snd]; intros k' [[w H]|H]; try discriminate H; inversion H; subst; reflexivity.
  Qed.

  Lemma np_wake x w k : t_state x = TWait w k -> np_TP x -> np_TP (with_ts x (TReady k SGo)).
  Proof. unfold np_TP. intros E H. rewrite E in H. exact H. Qed.
  Lemma np_cancel_ready x k sg : t_state x = TReady k sg -> np_TP x -> np_TP (with_ts x (TReady k (SThrow XCancelled))).
  Proof. unfold np_TP. intros E H. rewrite E in H. exact H. Qed.
  Lemma np_cancel_wait x w k : t_state x = TWait w k -> np_TP x -> np_TP (with_ts x (TReady k (SThrow XCancelled))).
  Proof. unfold np_TP. intros E H. rewrite E in H. exact H. Qed.

  Lemma no_pending_app a b : no_pending (a ++ b) = no_pending a && no_pending b.
  Proof. unfold no_pending. apply forallb_app. Qed.
  Lemma no_pending_tl k : no_pending k = true -> no_pending (tl k) = true.
  Proof. destruct k as [|f r]; [auto|]. unfold no_pending. cbn [forallb tl]. intros H. apply andb_true_iff in H. apply H. Qed.

  Theorem creach_nopending : forall st c, creach P st c -> tasks_ok np_TP st /\ np_cur c.
  Proof.
    intros st c H. pose proof (creach_base P Hsw Hhd Hbody st c H) as Hb0.
    induction H as [|st t rest x k sg H IH Hq Hf Ht|st t rest H IH Hq|st t fr rest sg H IH|st t sg H IH|st c H IH|st g H IH|st H IH].
    - split; [|exact I]. unfold tasks_ok, init_state. cbn. constructor; [reflexivity|constructor].
    - destruct (IH (creach_base P Hsw Hhd Hbody _ _ H)) as [A _]. split; [apply ok_dequeue; exact A|].
      destruct (find_task_in _ _ _ Hf) as [Hin _]. unfold tasks_ok in A. rewrite Forall_forall in A. specialize (A x Hin). unfold np_TP in A. rewrite Ht in A.
      cbn [np_cur estack] in *. apply no_pending_tl. exact A.
    - destruct (IH (creach_base P Hsw Hhd Hbody _ _ H)) as [A _]. split; [apply ok_dequeue; exact A|exact I].
    - pose proof (creach_base P Hsw Hhd Hbody _ _ H) as Hb. destruct (IH Hb) as [A B]. cbn [np_cur tl] in B.
      destruct (b_cur _ _ _ Hb) as [x0 [Hf0 [Hk [Hs _]]]]. cbn [plain_stack forallb] in Hk. apply andb_true_iff in Hk. destruct Hk as [Kf Kr].
      pose proof (plain_step_pending_top t fr sg st Kf Hs (b_ps _ _ _ Hb)) as Htop.
      pose proof (plain_step_pending_rest t fr sg st Kf Hs (b_ps _ _ _ Hb)) as Hrest.
      assert (A1 : tasks_ok np_TP (fst (step_frame P t fr sg st))).
      { apply (plain_step_tasks_gen P Hsw Hhd np_TP np_wake np_cancel_ready np_cancel_wait); try assumption; [| |exact (b_ps _ _ _ Hb)]; intros; reflexivity. }
      destruct (step_frame P t fr sg st) as [st1 [w k'|k'|k' sg'|sg']]; cbn [after_step fst snd np_cur dir_frames] in *.
      + split; [|exact I]. apply ok_suspend; [exact A1|]. intros y _ _. unfold np_TP. cbn. rewrite no_pending_app, (Hrest k' (or_introl (ex_intro _ w eq_refl))), B. reflexivity.
      + split; [|exact I]. apply ok_push_ready. apply ok_set_tstate; [exact A1|]. intros y _ _. unfold np_TP. cbn. rewrite no_pending_app, (Hrest k' (or_intror eq_refl)), B. reflexivity.
      + split; [exact A1|]. destruct k' as [|f1 k'']; cbn [app tl]; [apply no_pending_tl; exact B|]. cbn [tl] in Htop. rewrite no_pending_app, Htop, B. reflexivity.
      + split; [exact A1|]. apply no_pending_tl. exact B.
    - destruct (IH (creach_base P Hsw Hhd Hbody _ _ H)) as [A _]. split; [|exact I]. apply ok_set_tstate; [exact A|]. intros y _ _. reflexivity.
    - destruct (IH (creach_base P Hsw Hhd Hbody _ _ H)) as [A _]. split; [|exact I]. apply ok_abort; [|exact A]. intros y k0 _. reflexivity.
    - destruct (IH (creach_base P Hsw Hhd Hbody _ _ H)) as [A _]. split; [|exact I]. apply (complete_gate_tasks_ok np_TP np_wake). exact A.
    - destruct (IH (creach_base P Hsw Hhd Hbody _ _ H)) as [A _]. split; [|exact I]. apply (ok_cancel_task np_TP np_cancel_ready np_cancel_wait). exact A.
  Qed.

  Theorem creach_saves : forall st c, creach P st c -> savesI st c.
  Proof.
    intros st c H. pose proof (creach_base P Hsw Hhd Hbody st c H) as Hb0.
    induction H as [|st t rest x k sg H IH Hq Hf Ht|st t rest H IH Hq|st t fr rest sg H IH|st t sg H IH|st c H IH|st g H IH|st H IH].
    - right. split.
      + split; [intros n v [Hx|[]]; discriminate Hx|intros m; cbn; lia].
      + unfold allT, tasks_ok, init_state. cbn. constructor; [|constructor]. unfold TPc, PhiS. cbn. intros m Hm. discriminate Hm.
    - pose proof (creach_base P Hsw Hhd Hbody _ _ H) as Hb. destruct (IH Hb) as [Hg|[GS HS]]; [left; exact Hg|right].
      split; [exact GS|]. apply (allT_extS st); [reflexivity|reflexivity|]. eapply (allT_start P); eassumption.
    - pose proof (creach_base P Hsw Hhd Hbody _ _ H) as Hb. destruct (IH Hb) as [Hg|[GS HS]]; [left; exact Hg|right]. split; [exact GS|exact HS].
    - pose proof (creach_base P Hsw Hhd Hbody _ _ H) as Hb.
      pose proof (cr_step P st t fr rest sg H) as Hcr'.
      destruct (creach_roles P Hsw Hhd Hbody Hnd _ _ Hcr') as [Hg'|[HG' HA']]; [left; exact Hg'|].
      destruct (creach_roles P Hsw Hhd Hbody Hnd _ _ H) as [Hg|[HG HA]]; [left; apply (guard_step P); assumption|].
      destruct (creach_args P Hsw Hhd Hbody Hnd _ _ H) as [Hg|[GA HAa]]; [left; apply (guard_step P); assumption|].
      destruct (IH Hb) as [Hg|[GS HS]]; [left; apply (guard_step P); assumption|].
      destruct (b_cur _ _ _ Hb) as [x0 [Hf0 [Hk [Hs _]]]]. cbn [plain_stack forallb] in Hk. apply andb_true_iff in Hk. destruct Hk as [Kf _].
      destruct (leaves_run fr sg (snd (step_frame P t fr sg st))) eqn:Hlr.
      + left. left. rewrite over_after_step, (plain_step_over P t fr sg st Kf Hs (b_ps _ _ _ Hb)), Hlr. apply orb_true_r.
      + right.
        pose proof (roles_nodup P Hnd _ _ HG' HA') as Hnd1. unfold node_names in Hnd1. rewrite names_after_step in Hnd1. fold (node_names (fst (step_frame P t fr sg st))) in Hnd1.
        destruct (savesA_step st t fr rest sg Hb HG HA Hnd1 GA HAa GS HS Hlr) as [GS1 HS1].
        split.
        * apply (globS_ext (fst (step_frame P t fr sg st))); [apply store_after_step|apply trace_after_step|exact GS1].
        * apply (allT_extS (fst (step_frame P t fr sg st))); [apply store_after_step|apply trace_after_step|exact HS1].
    - pose proof (creach_base P Hsw Hhd Hbody _ _ H) as Hb. destruct (IH Hb) as [Hg|[GS HS]]; [left; apply guard_done; [exact (b_ev _ _ _ Hb)|exact Hg]|right].
      split; [apply (globS_ext st); [reflexivity|reflexivity|exact GS]|].
      apply (allT_extS st); [reflexivity|reflexivity|]. apply (allT_done P); assumption.
    - pose proof (creach_base P Hsw Hhd Hbody _ _ H) as Hb. left. apply guard_abort. exact (b_ev _ _ _ Hb).
    - pose proof (creach_base P Hsw Hhd Hbody _ _ H) as Hb. destruct (IH Hb) as [Hg|[GS HS]]; [left; apply (guard_gate P); [exact (b_ev _ _ _ Hb)|exact Hg]|right].
      unfold complete_gate.
      split; [apply (globS_ext st); [apply store_wake_all|apply trace_wake_all|exact GS]|].
      apply (allT_extS st); [apply store_wake_all|apply trace_wake_all|]. apply allT_gate; [apply PhiS_wake|exact HS].
    - pose proof (creach_base P Hsw Hhd Hbody _ _ H) as Hb. destruct (IH Hb) as [Hg|[GS HS]]; [left; apply (guard_cancel P); [exact (b_ev _ _ _ Hb)|exact Hg]|right].
      split; [apply (globS_ext st); [apply store_cancel_task|apply trace_cancel_task|exact GS]|].
      apply (allT_extS st); [apply store_cancel_task|apply trace_cancel_task|].
      apply allT_cancel_main_vac; [|exact (b_ev _ _ _ Hb)|exact HS].
      intros i ts Hi m Hm. rewrite Hi in Hm. discriminate Hm.
  Qed.
End SaveInv.

(* ---- on schedule-reachable states -------------------------------------------------------------------------------------------- *)
Theorem plain_saves P :
  plain_prog P -> NoDup (p_order P (maind P)) ->
  forall st, reachable P st -> over st = false -> main_done st = false ->
    (forall m, count_saves m (st_trace st) <= 1) /\
    (forall n v, In (OSave n v) (st_trace st) -> exists_result n (st_store st) = true /\ get_result n true (st_store st) = v) /\
    (p_store P <> StNone -> forall m, exists_result m (st_store st) = true -> count_saves m (st_trace st) = 1).
Proof.
  intros (Hg & Hb & _) Hnd st Hr Ho Hm. destruct (graph_plain_sound _ Hg) as [Hsw Hhd].
  pose proof (reachable_creach P st Hr) as Hc.
  destruct (creach_saves P Hsw Hhd Hb Hnd st None Hc) as [[Hg'|Hg']|[(S1 & S2) HS]]; [congruence|congruence|].
  destruct (creach_args P Hsw Hhd Hb Hnd st None Hc) as [[Hg'|Hg']|[(_ & A1 & _) _]]; [congruence|congruence|].
  destruct (creach_nopending P Hsw Hhd Hb st None Hc) as [Hnp _].
  split; [exact S2|]. split; [exact S1|].
  intros Hsto m Hr'. pose proof (A1 m Hr') as Hin. apply node_names_in in Hin. unfold names in Hin. apply in_map_iff in Hin. destruct Hin as [x [Hnm Hx]].
  destruct (allT_In _ _ _ x HS Hx m Hnm) as (_ & _ & C & _). cbn [estate] in C. destruct (C Hr' Hsto) as [Hc1|[f [r [Est Hp]]]]; [exact Hc1|]. exfalso.
  unfold tasks_ok in Hnp. rewrite Forall_forall in Hnp. specialize (Hnp x Hx). unfold np_TP in Hnp. rewrite Est in Hnp. unfold no_pending in Hnp. cbn [forallb] in Hnp.
  rewrite Hp in Hnp. discriminate Hnp.
Qed.
