(* Plain programs, every schedule, any number of event managers that do not raise (suspending ones included):
   on_node_start comes first for each node (C14): a body is invoked, for any attempt, only after every manager has been told
   on_node_start for that node. *)
From MLPE Require Import Engine.Run Proofs.ExecLemmas Proofs.Evolve Proofs.StackInv Proofs.ReadyInv Proofs.WaitInv Explore.StateEq
     Proofs.ProcessedInv Proofs.PlainWorld Proofs.PlainLaunch Proofs.PlainLive Proofs.Micro Proofs.PlainBase Proofs.PlainCore Proofs.PlainInv
     Proofs.PlainRoles Proofs.PlainExec Proofs.PlainArgs Proofs.AssocLemmas Proofs.PlainEvents.

Definition start_ev (m : nat) (n : key) : obs := OEmit m EvNodeStart (Some n) None None.

Definition is_retry_frame (f : frame) : option nat :=
  match f with FRetry i _ _ _ | FRetryAfterBody i _ _ | FRetryAfterEmit i _ _ | FRetryAfterSleep i _ _ => Some i | _ => None end.

(* only the emission of on_node_start sits on the frame that continues after it; the retry loop sits on the frame that awaits it *)
Definition adjS (f g : frame) : bool :=
  match g with
  | FExecAfterStart _ n _ => match f with FEmit EvNodeStart (Some n') None None _ _ => key_eqb n' n | _ => false end
  | FEmit _ _ _ _ _ _ => false
  | _ => true
  end &&
  match is_retry_frame f with
  | Some i => match g with FExecAfterBody _ n => Nat.eqb i (real_index n) | _ => false end
  | None => true
  end.
Fixpoint pairsS (k : list frame) : bool :=
  match k with
  | f :: r => match r with g :: _ => adjS f g && pairsS r | [] => true end
  | [] => true
  end.

Lemma pairsS_tail f r : pairsS (f :: r) = true -> pairsS r = true.
Proof. cbn [pairsS]. destruct r as [|g r']; [reflexivity|]. intros H. apply andb_true_iff in H. apply H. Qed.
Lemma pairsS_head f g r : pairsS (f :: g :: r) = true -> adjS f g = true.
Proof. cbn [pairsS]. intros H. apply andb_true_iff in H. apply H. Qed.
Lemma pairsS_app fr rest k' :
  pairsS (fr :: rest) = true -> pairsS k' = true -> (forall g, adjS fr g = true -> adjS (last k' fr) g = true) -> pairsS (k' ++ rest) = true.
Proof.
  intros Hc Hk Hl. destruct k' as [|f k'']; [exact (pairsS_tail _ _ Hc)|].
  revert f Hk Hl. induction k'' as [|g r' IH]; intros f Hk Hl.
  - cbn [app last] in *. destruct rest as [|g0 r0]; [reflexivity|]. cbn [pairsS]. rewrite (Hl g0 (pairsS_head _ _ _ Hc)).
    exact (pairsS_tail _ _ Hc).
  - change ((f :: g :: r') ++ rest) with (f :: (g :: r') ++ rest). cbn [pairsS app]. cbn [pairsS] in Hk. apply andb_true_iff in Hk.
    destruct Hk as [Ha Hk]. rewrite Ha. cbn [andb]. apply IH; [exact Hk|exact Hl].
Qed.

Definition botS (k : list frame) : bool := match is_retry_frame (last k FChartStart) with Some _ => false | None => true end.
Lemma last_default_irrelevant (l : list frame) d d' : l <> [] -> last l d = last l d'.
Proof. induction l as [|x r IH]; [contradiction|]. intros _. destruct r as [|y r']; [reflexivity|]. cbn [last]. apply IH. discriminate. Qed.
Lemma botS_app fr rest k' : botS (fr :: rest) = true -> k' <> [] -> is_retry_frame (last k' fr) = is_retry_frame fr -> botS (k' ++ rest) = true.
Proof.
  intros Hb Hne Hl. unfold botS in *. destruct rest as [|g r].
  - rewrite app_nil_r. rewrite (last_default_irrelevant k' FChartStart fr Hne), Hl. exact Hb.
  - rewrite (last_app_ne k' (g :: r) FChartStart) by discriminate. exact Hb.
Qed.
Lemma botS_tail f r : botS (f :: r) = true -> botS r = true.
Proof. unfold botS. destruct r as [|g r']; [reflexivity|]. auto. Qed.

Definition is_after_body (f : frame) : option key := match f with FExecAfterBody _ n => Some n | _ => None end.

Section StartSteps.
  Variable P : prog.
  Notation G := (b_graph (build (p_decls P) (p_inp P) (p_out P))).
  Hypothesis Hsw : forall n, is_switch G n = false.
  Hypothesis Hhd : forall n, is_head G n = false.
  Hypothesis Hbody : forall i kw a v, p_body P i kw a = OVal v -> clean v = true.
  Hypothesis Hnf : forall m ev n k, p_mgr_fault P m ev n k = false.

  (* every manager has been told that n starts *)
  Definition told (tr : list obs) (n : key) : Prop := forall m, m < p_mgrs P -> In (start_ev m n) tr.

  Definition topS (tr : list obs) (f : frame) (sg : option signal) : Prop :=
    match f with
    | FEmit EvNodeStart (Some n) None None mgr r => forall m, m < mgr + (if r then 1 else 0) -> m < p_mgrs P -> In (start_ev m n) tr
    | FExecAfterStart _ n _ => (exists v, sg = Some (SVal v)) -> told tr n
    | _ => True
    end.
  Definition topCS (tr : list obs) (k : list frame) (sg : option signal) : Prop :=
    match k with f :: _ => topS tr f sg | [] => True end.
  Definition belowS (tr : list obs) (g : frame) : Prop :=
    match g with FExecAfterStart _ n _ => told tr n | _ => True end.
  Definition deep (tr : list obs) (k : list frame) : Prop := forall f n, In f k -> is_after_body f = Some n -> told tr n.

  Lemma told_mono new tr n : told tr n -> told (new ++ tr) n.
  Proof. intros H m Hm. apply in_or_app. right. exact (H m Hm). Qed.
  Lemma topS_mono new tr f sg : topS tr f sg -> topS (new ++ tr) f sg.
  Proof.
    destruct f; cbn [topS]; try (intros; exact I).
    - destruct ev; try (intros; exact I). destruct n as [n|]; try (intros; exact I). destruct err; try (intros; exact I).
      destruct res; try (intros; exact I). intros H m Hm Hp. apply in_or_app. right. exact (H m Hm Hp).
    - intros H Hs. apply told_mono. exact (H Hs).
  Qed.
  Lemma topCS_mono new tr k sg : topCS tr k sg -> topCS (new ++ tr) k sg.
  Proof. destruct k; [auto|apply topS_mono]. Qed.
  Lemma deep_mono new tr k : deep tr k -> deep (new ++ tr) k.
  Proof. intros H f n Hf Hn. apply told_mono. exact (H f n Hf Hn). Qed.

  Definition top_afterS (tr : list obs) (fr : frame) (d : directive) : Prop :=
    match d with
    | DSuspend _ k' => topCS tr k' None
    | DYield k' => topCS tr k' (Some SGo)
    | DCont k' s' => topCS tr k' (Some s')
    | DRet s' => forall v, s' = SVal v -> forall g, adjS fr g = true -> belowS tr g
    end.

  Ltac plain_prep14 :=
    repeat match goal with
           | H : (_ && _)%bool = true |- _ => apply andb_true_iff in H; destruct H
           | H : is_main P ?d = true |- _ => apply is_main_eq in H; subst d
           | H : negb ?f = true |- _ => apply negb_true_iff in H; subst f
           | H : ?u = true |- _ => is_var u; subst u
           end.

  Lemma plain_step_pairsS t fr sg st :
    plain_frame P fr = true -> clean_sig sg -> PS st ->
    pairsS (dir_frames (snd (step_frame P t fr sg st))) = true /\
    (forall g, adjS fr g = true -> adjS (last (dir_frames (snd (step_frame P t fr sg st))) fr) g = true) /\
    dir_ne (snd (step_frame P t fr sg st)) = true /\
    is_retry_frame (last (dir_frames (snd (step_frame P t fr sg st))) fr) = is_retry_frame fr.
  Proof.
    intros Hf Hs Hst. pose proof Hst as Hst'. unfold PS in Hst'.
    destruct fr; try discriminate Hf; cbn [plain_frame] in Hf; plain_prep14;
      destruct sg; cbn [clean_sig] in Hs;
      try match goal with H : clean ?v = true |- _ => pose proof (clean_not_rec v H) as Hnr; pose proof (clean_not_exn v H) as Hne end;
      cbn [step_frame]; rewrite ?Hnr, ?Hne, ?Hsw, ?Hhd, ?(plain_dep_error P _ _ _ Hst'), ?(plain_no_subgraph_error _ _ Hst');
      unfold default_or_raise, reduced; cbn [d_oneof d_rec maind andb];
      repeat break_match; unfold emit_frames; cbn [snd dir_frames dir_ne pairsS last]; unfold adjS; cbn [is_retry_frame andb real_index]; rewrite ?key_eqb_refl, ?Nat.eqb_refl; cbn [andb];
      (split; [reflexivity|split; [intros g Hg; destruct g; cbn [is_retry_frame andb] in *; try reflexivity; try discriminate Hg; exact Hg|split; reflexivity]]).
  Qed.

  Lemma plain_step_topS t fr sg st :
    plain_frame P fr = true -> clean_sig sg -> PS st ->
    topS (st_trace st) fr (Some sg) ->
    top_afterS (st_trace (fst (step_frame P t fr sg st))) fr (snd (step_frame P t fr sg st)).
  Proof.
    intros Hf Hs Hst. pose proof Hst as Hst'. unfold PS in Hst'.
    destruct fr; try discriminate Hf; cbn [plain_frame] in Hf; plain_prep14;
      destruct sg; cbn [clean_sig] in Hs;
      try match goal with H : clean ?v = true |- _ => pose proof (clean_not_rec v H) as Hnr; pose proof (clean_not_exn v H) as Hne end;
      cbn [step_frame]; rewrite ?Hnr, ?Hne, ?Hsw, ?Hhd, ?Hnf, ?(plain_dep_error P _ _ _ Hst'), ?(plain_no_subgraph_error _ _ Hst');
      unfold default_or_raise, reduced; cbn [d_oneof d_rec maind andb];
      repeat break_match; spawn_norm; cbn [fst snd];
      autorewrite with core; cbn [st_trace emit_obs bump with_store spawn fst set_adddata];
      autorewrite with core; unfold emit_frames; cbn [top_afterS topCS topS]; intros Htop;
      try exact I;
      try (intros ? Hv; discriminate Hv).
    all: try (intros m Hm; exfalso; lia).
    all: try (intros v' _ g Hg; destruct g; unfold adjS in Hg; cbn [belowS is_retry_frame andb] in *; try exact I; try discriminate Hg).
    all: repeat match goal with
                | |- context [match ?e with EvPipelineStart => _ | _ => _ end] => destruct e
                | H : context [match ?e with EvPipelineStart => _ | _ => _ end] |- _ => destruct e
                | |- context [match ?o with Some _ => _ | None => _ end] => destruct o
                | H : context [match ?o with Some _ => _ | None => _ end] |- _ => destruct o
                end; try exact I; try discriminate.
    all: try (intros m Hm Hp; first [apply Htop; lia | destruct (Nat.eq_dec m mgr) as [->|Hne]; [left; reflexivity|right; apply Htop; lia]]).
    all: try match goal with Hg : (key_eqb _ _ && true)%bool = true |- _ => rewrite andb_true_r in Hg; apply key_eqb_spec in Hg; subst end.
    all: try (intros m Hm; apply Htop; [|exact Hm]; match goal with Hq : (_ <=? _) = true |- _ => apply Nat.leb_le in Hq; lia end).
    all: try (apply Htop; eauto).
  Qed.

  (* the frame that awaits the retry loop is pushed only by the frame that continues after on_node_start, with its value *)
  Lemma plain_step_after_body t fr sg st f n :
    plain_frame P fr = true -> clean_sig sg -> PS st ->
    In f (dir_frames (snd (step_frame P t fr sg st))) -> is_after_body f = Some n ->
    exists d0 f0 v, fr = FExecAfterStart d0 n f0 /\ sg = SVal v.
  Proof.
    intros Hf Hs Hst. pose proof Hst as Hst'. unfold PS in Hst'.
    destruct fr; try discriminate Hf; cbn [plain_frame] in Hf; plain_prep14;
      destruct sg; cbn [clean_sig] in Hs;
      try match goal with H : clean ?v = true |- _ => pose proof (clean_not_rec v H) as Hnr; pose proof (clean_not_exn v H) as Hne end;
      cbn [step_frame]; rewrite ?Hnr, ?Hne, ?Hsw, ?Hhd, ?(plain_dep_error P _ _ _ Hst'), ?(plain_no_subgraph_error _ _ Hst');
      unfold default_or_raise, reduced; cbn [d_oneof d_rec maind andb];
      repeat break_match; unfold emit_frames; cbn [snd dir_frames]; intros Hin Hr;
      repeat (destruct Hin as [Hin|Hin]; [subst f; cbn [is_after_body] in Hr; try discriminate Hr; inversion Hr; subst; eauto|]); try contradiction.
  Qed.
End StartSteps.

Section StartInv.
  Variable P : prog.
  Notation G := (b_graph (build (p_decls P) (p_inp P) (p_out P))).
  Hypothesis Hsw : forall n, is_switch G n = false.
  Hypothesis Hhd : forall n, is_head G n = false.
  Hypothesis Hbody : forall i kw a v, p_body P i kw a = OVal v -> clean v = true.
  Hypothesis Hnf : forall m ev n k, p_mgr_fault P m ev n k = false.

  Definition stk_ok (tr : list obs) (k : list frame) (sg : option signal) : Prop := (pairsS k = true /\ botS k = true) /\ topCS P tr k sg /\ deep P tr k.
  Definition TPs (tr : list obs) (x : task frame) : Prop :=
    match t_state x with
    | TReady k sg => stk_ok tr k (Some sg)
    | TWait _ k => stk_ok tr k None
    | TDone _ => True
    end.
  Definition cur_s (tr : list obs) (c : running) : Prop := match c with Some (_, k, sg) => stk_ok tr k (Some sg) | None => True end.

  Lemma topCS_nonval tr k s s' : (forall v, s' <> Some (SVal v)) -> topCS P tr k s -> topCS P tr k s'.
  Proof.
    intros Hn. destruct k as [|f r]; [auto|]. cbn [topCS]. destruct f; cbn [topS]; auto.
    intros _ [v9 Hv]. exfalso. exact (Hn v9 Hv).
  Qed.
  Lemma stk_nonval tr k s s' : (forall v, s' <> Some (SVal v)) -> stk_ok tr k s -> stk_ok tr k s'.
  Proof. intros Hn (A & B & C). split; [exact A|]. split; [exact (topCS_nonval tr k s s' Hn B)|exact C]. Qed.
  Lemma stk_mono new tr k s : stk_ok tr k s -> stk_ok (new ++ tr) k s.
  Proof. intros (A & B & C). split; [exact A|]. split; [apply topCS_mono; exact B|apply deep_mono; exact C]. Qed.

  Lemma TPs_wake tr x w k : t_state x = TWait w k -> TPs tr x -> TPs tr (with_ts x (TReady k SGo)).
  Proof. unfold TPs. intros E H. rewrite E in H. cbn. eapply stk_nonval; [|exact H]. intros v Hv. discriminate Hv. Qed.
  Lemma TPs_cancel_ready tr x k sg : t_state x = TReady k sg -> TPs tr x -> TPs tr (with_ts x (TReady k (SThrow XCancelled))).
  Proof. unfold TPs. intros E H. rewrite E in H. cbn. eapply stk_nonval; [|exact H]. intros v Hv. discriminate Hv. Qed.
  Lemma TPs_cancel_wait tr x w k : t_state x = TWait w k -> TPs tr x -> TPs tr (with_ts x (TReady k (SThrow XCancelled))).
  Proof. unfold TPs. intros E H. rewrite E in H. cbn. eapply stk_nonval; [|exact H]. intros v Hv. discriminate Hv. Qed.
  Lemma tasks_TPs_mono new tr st : tasks_ok (TPs tr) st -> tasks_ok (TPs (new ++ tr)) st.
  Proof. unfold tasks_ok. apply Forall_impl. intros x. unfold TPs. destruct (t_state x); auto; apply stk_mono. Qed.
  Lemma tasks_TPs_same tr (a b : mstate) : st_tasks a = st_tasks b -> tasks_ok (TPs tr) b -> tasks_ok (TPs tr) a.
  Proof. unfold tasks_ok. intros ->. auto. Qed.

  Lemma stk_single tr f : is_after_body f = None -> is_retry_frame f = None -> (forall sg, topS P tr f sg) -> forall sg, stk_ok tr [f] sg.
  Proof.
    intros Hf Hr Ht sg. split; [split; [reflexivity|unfold botS; cbn [last]; rewrite Hr; reflexivity]|]. split; [exact (Ht sg)|]. intros g n [<-|[]] Hn. rewrite Hf in Hn. discriminate Hn.
  Qed.

  Theorem creach_start : forall st c, creach P st c -> tasks_ok (TPs (st_trace st)) st /\ cur_s (st_trace st) c.
  Proof.
    intros st c H. pose proof (creach_base P Hsw Hhd Hbody st c H) as Hb0.
    induction H as [|st t rest x k sg H IH Hq Hf Ht|st t rest H IH Hq|st t fr rest sg H IH|st t sg H IH|st c H IH|st g H IH|st H IH].
    - split; [|exact I]. unfold tasks_ok, init_state. cbn. constructor; [|constructor]. unfold TPs. cbn. apply stk_single; [reflexivity|reflexivity|intros; exact I].
    - destruct (IH (creach_base P Hsw Hhd Hbody _ _ H)) as (A & _). split.
      + apply (tasks_TPs_same _ _ st); [reflexivity|exact A].
      + destruct (find_task_in _ _ _ Hf) as [Hin _]. unfold tasks_ok in A. rewrite Forall_forall in A. specialize (A x Hin). unfold TPs in A. rewrite Ht in A. exact A.
    - destruct (IH (creach_base P Hsw Hhd Hbody _ _ H)) as (A & _). split; [|exact I]. apply (tasks_TPs_same _ _ st); [reflexivity|exact A].
    - pose proof (creach_base P Hsw Hhd Hbody _ _ H) as Hb. destruct (IH Hb) as (A & ((Bp & Bb) & Bt & Bd)).
      destruct (b_cur _ _ _ Hb) as [x0 [Hf0 [Hk [Hs _]]]]. cbn [plain_stack forallb] in Hk. apply andb_true_iff in Hk. destruct Hk as [Kf Kr].
      pose proof (b_ps _ _ _ Hb) as Hps.
      destruct (plain_step_pairsS P t fr sg st Kf Hs Hps) as (Hp1 & Hp2 & Hp3 & Hp4).
      cbn [topCS] in Bt.
      pose proof (plain_step_topS P Hnf t fr sg st Kf Hs Hps Bt) as Htop.
      destruct (ev_trace _ _ (ev_step_frame P t fr sg st)) as [new Etr].
      assert (A1 : tasks_ok (TPs (st_trace (fst (step_frame P t fr sg st)))) (fst (step_frame P t fr sg st))).
      { apply (plain_step_tasks_gen P Hsw Hhd (TPs _) (TPs_wake _) (TPs_cancel_ready _) (TPs_cancel_wait _)); try assumption.
        - intros i. unfold TPs. cbn. apply stk_single; [reflexivity|reflexivity|intros; exact I].
        - intros i n. unfold TPs. cbn. apply stk_single; [reflexivity|reflexivity|intros; exact I].
        - rewrite Etr. apply tasks_TPs_mono. exact A. }
      assert (Hpk : pairsS (dir_frames (snd (step_frame P t fr sg st)) ++ rest) = true) by (apply (pairsS_app fr); assumption).
      assert (Hbk : dir_frames (snd (step_frame P t fr sg st)) <> [] -> botS (dir_frames (snd (step_frame P t fr sg st)) ++ rest) = true) by (intros Hne; apply (botS_app fr); assumption).
      assert (Hdeep : deep P (st_trace (fst (step_frame P t fr sg st))) (dir_frames (snd (step_frame P t fr sg st)) ++ rest)).
      { intros f n Hin Hn. apply in_app_or in Hin. destruct Hin as [Hin|Hin].
        - destruct (plain_step_after_body P t fr sg st f n Kf Hs Hps Hin Hn) as [d0 [f0 [v [-> ->]]]].
          rewrite Etr. apply told_mono. cbn [topS] in Bt. apply Bt. eauto.
        - rewrite Etr. apply told_mono. apply (Bd f n); [right; exact Hin|exact Hn]. }
      rewrite !trace_after_step.
      split.
      + destruct (step_frame P t fr sg st) as [st1 [w k'|k'|k' sg'|sg']]; cbn [after_step fst snd dir_frames dir_ne top_afterS] in *.
        * apply ok_suspend; [exact A1|]. intros y _ _. unfold TPs. cbn. destruct k' as [|f1 k'']; [discriminate Hp3|]. split; [split; [exact Hpk|apply Hbk; discriminate]|]. split; [exact Htop|exact Hdeep].
        * apply ok_push_ready. apply ok_set_tstate; [exact A1|]. intros y _ _. unfold TPs. cbn. destruct k' as [|f1 k'']; [discriminate Hp3|]. split; [split; [exact Hpk|apply Hbk; discriminate]|]. split; [exact Htop|exact Hdeep].
        * exact A1.
        * exact A1.
      + destruct (step_frame P t fr sg st) as [st1 [w k'|k'|k' sg'|sg']]; cbn [after_step fst snd dir_frames dir_ne top_afterS cur_s] in *; try exact I.
        * destruct k' as [|f1 k'']; [discriminate Hp3|]. split; [split; [exact Hpk|apply Hbk; discriminate]|]. split; [exact Htop|exact Hdeep].
        * split; [split; [exact (pairsS_tail _ _ Bp)|exact (botS_tail _ _ Bb)]|]. split; [|exact Hdeep]. destruct rest as [|g r]; [exact I|]. cbn [topCS].
          pose proof (pairsS_head _ _ _ Bp) as Hadj.
          destruct g; cbn [topS]; try exact I; try (unfold adjS in Hadj; cbn [andb] in Hadj; discriminate Hadj).
          all: intros [v0 Hv0]; inversion Hv0; subst sg'; exact (Htop v0 eq_refl _ Hadj).
    - destruct (IH (creach_base P Hsw Hhd Hbody _ _ H)) as (A & _). split; [|exact I]. apply ok_set_tstate; [exact A|]. intros y _ _. exact I.
    - destruct (IH (creach_base P Hsw Hhd Hbody _ _ H)) as (A & _). split; [|exact I]. apply ok_abort; [|exact A]. intros y k0 _. exact I.
    - destruct (IH (creach_base P Hsw Hhd Hbody _ _ H)) as (A & _). unfold complete_gate. rewrite trace_wake_all. split; [|exact I].
      apply (complete_gate_tasks_ok (TPs _) (TPs_wake _)). exact A.
    - destruct (IH (creach_base P Hsw Hhd Hbody _ _ H)) as (A & _). rewrite trace_cancel_task. split; [|exact I].
      apply (ok_cancel_task (TPs _) (TPs_cancel_ready _) (TPs_cancel_wait _)). exact A.
  Qed.

  (* ---- in the history: a body invocation comes after every manager's on_node_start for that node ---- *)
  Definition tr_okS (tr : list obs) : Prop :=
    forall a b i k kw, tr = a ++ OStart i k kw :: b -> exists nd, real_index nd = i /\ told P b nd.

  Theorem creach_start_order : forall st c, creach P st c -> tr_okS (st_trace st).
  Proof.
    intros st c H. pose proof (creach_base P Hsw Hhd Hbody st c H) as Hb0.
    induction H as [|st t rest x k sg H IH Hq Hf Ht|st t rest H IH Hq|st t fr rest sg H IH|st t sg H IH|st c H IH|st g H IH|st H IH].
    - intros a b i k kw E. cbn in E. destruct a as [|y a']; [discriminate E|]. inversion E. destruct a'; discriminate.
    - exact (IH (creach_base P Hsw Hhd Hbody _ _ H)).
    - exact (IH (creach_base P Hsw Hhd Hbody _ _ H)).
    - pose proof (creach_base P Hsw Hhd Hbody _ _ H) as Hb. specialize (IH Hb).
      destruct (creach_start _ _ H) as (_ & ((Bp & Bb) & _ & Bd)).
      destruct (b_cur _ _ _ Hb) as [x0 [Hf0 [Hk [Hs _]]]]. cbn [plain_stack forallb] in Hk. apply andb_true_iff in Hk. destruct Hk as [Kf Kr].
      pose proof (b_ps _ _ _ Hb) as Hps. rewrite trace_after_step.
      destruct (plain_step_trace_ostart P t fr sg st Kf Hs Hps) as [[i [kw [att (-> & -> & Etr)]]]|[new [Etr Hnew]]].
      + rewrite Etr. intros a b i' k' kw' E. destruct a as [|y a'].
        * cbn [app] in E. inversion E; subst i' k' kw' b.
          destruct rest as [|g r]; [unfold botS in Bb; cbn in Bb; discriminate Bb|].
          pose proof (pairsS_head _ _ _ Bp) as Hadj. unfold adjS in Hadj. cbn [is_retry_frame] in Hadj. apply andb_true_iff in Hadj. destruct Hadj as [_ Hadj].
          destruct g; try discriminate Hadj. apply Nat.eqb_eq in Hadj. exists n. split; [symmetry; exact Hadj|].
          apply (Bd (FExecAfterBody d n) n); [right; left; reflexivity|reflexivity].
        * cbn [app] in E. inversion E as [[Ey E']]. exact (IH a' b i' k' kw' E').
      + rewrite Etr. intros a b i' k' kw' E. destruct (split_in_suffix new (st_trace st) a b (OStart i' k' kw') Hnew eq_refl E) as [a' [_ E']].
        exact (IH a' b i' k' kw' E').
    - exact (IH (creach_base P Hsw Hhd Hbody _ _ H)).
    - exact (IH (creach_base P Hsw Hhd Hbody _ _ H)).
    - unfold complete_gate. rewrite trace_wake_all. exact (IH (creach_base P Hsw Hhd Hbody _ _ H)).
    - rewrite trace_cancel_task. exact (IH (creach_base P Hsw Hhd Hbody _ _ H)).
  Qed.
End StartInv.

Theorem plain_bodies_start_after_node_start P :
  plain_prog P -> (forall m ev n k, p_mgr_fault P m ev n k = false) ->
  forall st, reachable P st ->
    forall a b i k kw, st_trace st = a ++ OStart i k kw :: b ->
      exists nd, real_index nd = i /\ forall m, m < p_mgrs P -> In (start_ev m nd) b.
Proof.
  intros (Hg & Hb & _) Hnf st Hr. destruct (graph_plain_sound _ Hg) as [Hsw Hhd].
  exact (creach_start_order P Hsw Hhd Hb Hnf st None (reachable_creach P st Hr)).
Qed.
