From Coq Require Import String Ascii.
From MLPE Require Import Base.Graph gen.Tables Pure.FsStore Pure.Viewer Proofs.FsStoreProofs.
Local Open Scope list_scope.

Lemma prefixb_app p s : prefixb p (p ++ s) = true.
Proof. induction p as [|x p IH]; simpl; [reflexivity|]. rewrite Nat.eqb_refl. exact IH. Qed.

Lemma prefixb_trans_app m p s : prefixb m p = true -> prefixb m (p ++ s) = true.
Proof.
  revert p; induction m as [|x m IH]; intros p H; simpl; [reflexivity|].
  destruct p as [|y p]; simpl in *; [discriminate|]. apply andb_true_iff in H. destruct H as [-> H]. simpl. apply IH. exact H.
Qed.

(* if m is not a prefix of p and p is not a prefix of m, m is not a prefix of any extension of p *)
Lemma prefixb_incomparable m p s : prefixb m p = false -> prefixb p m = false -> prefixb m (p ++ s) = false.
Proof.
  revert p; induction m as [|x m IH]; intros p H1 H2; simpl in *; [discriminate|].
  destruct p as [|y p]; simpl in *; [discriminate|].
  destruct (Nat.eqb x y) eqn:E; simpl in *; [|reflexivity].
  apply Nat.eqb_eq in E. subst y. rewrite Nat.eqb_refl in H2. simpl in H2. apply IH; assumption.
Qed.

(* the member found for an id starting with [pre]: every earlier member is incomparable with [pre], the member
   itself is a prefix of [pre]  -- decided on the regenerated table *)
Fixpoint finds (pre ty : str) (members : list str) : bool :=
  match members with
  | [] => false
  | m :: r => if str_eqb m ty then prefixb m pre
              else negb (prefixb m pre) && negb (prefixb pre m) && finds pre ty r
  end.

Lemma finds_correct pre ty members s :
  finds pre ty members = true -> find (fun m => prefixb m (pre ++ s)) members = Some ty.
Proof.
  induction members as [|m r IH]; simpl; [discriminate|].
  destruct (str_eqb m ty) eqn:E.
  - intros H. rewrite (prefixb_trans_app m pre s H). apply str_eqb_spec in E. subst. reflexivity.
  - intros H. rewrite !andb_true_iff, !negb_true_iff in H. destruct H as [[H1 H2] H3].
    rewrite (prefixb_incomparable m pre s H1 H2). apply IH. exact H3.
Qed.

Theorem by_prefix_switch s : by_prefix (switch_prefix ++ s) = Some (codes "switch"%string).
Proof. apply finds_correct. vm_compute. reflexivity. Qed.

Theorem by_prefix_oneof s : by_prefix (oneof_prefix ++ s) = Some (codes "input_one_of"%string).
Proof. apply finds_correct. vm_compute. reflexivity. Qed.

(* ---- the description is a faithful projection ----------------------------------------------------------- *)
Section Gen.
  Variable g : graph.
  Variable node_map : list nat.
  Variable info : nat -> ninfo.
  Let cfg := generate g node_map info.

  Theorem one_entry_per_node : map vn_id (vc_nodes cfg) = node_keys g.
  Proof.
    unfold cfg, generate. simpl. rewrite map_map. rewrite <- (map_id (node_keys g)) at 2.
    apply map_ext. intros k. unfold gen_node. destruct k; simpl; try reflexivity. destruct (mem Nat.eqb i node_map); reflexivity.
  Qed.

  Theorem one_edge_per_dependency : map (fun e => (ve_source e, ve_target e)) (vc_edges cfg) = map fst (g_edges g).
  Proof.
    unfold cfg, generate. simpl. rewrite map_map. apply map_ext. intros [[u v] a]. reflexivity.
  Qed.

  Theorem edge_endpoints_exist :
    (forall e, In e (g_edges g) -> has_node g (fst (fst e)) = true /\ has_node g (snd (fst e)) = true) ->
    forall e, In e (vc_edges cfg) ->
              In (ve_source e) (map vn_id (vc_nodes cfg)) /\ In (ve_target e) (map vn_id (vc_nodes cfg)).
  Proof.
    intros H e He. rewrite one_entry_per_node. unfold cfg, generate in He. simpl in He. apply in_map_iff in He.
    destruct He as [x [<- Hx]]. simpl. destruct (H x Hx) as [A B]. unfold has_node in *.
    split; apply (mem_true_iff key_eqb key_eqb_spec); assumption.
  Qed.

  Theorem entries_describe_nodes :
    forall n, In n (vc_nodes cfg) ->
              match vn_id n with
              | KN i => if mem Nat.eqb i node_map
                        then vn_virtual n = false
                             /\ vn_data n = Some (ni_name (info i), ni_verbose (info i), ni_doc (info i))
                             /\ vn_type n = match ni_type (info i) with Some t => VTDeclared t | None => VTNone end
                        else vn_virtual n = true
              | KSw _ _ => vn_virtual n = true /\ vn_type n = VTSwitch /\ vn_data n = None
              | KOo _ _ => vn_virtual n = true /\ vn_type n = VTOneOf /\ vn_data n = None
              end.
  Proof.
    intros n Hn. unfold cfg, generate in Hn. simpl in Hn. apply in_map_iff in Hn. destruct Hn as [k [<- _]].
    destruct k as [i| |]; simpl; [|repeat split|repeat split].
    destruct (mem Nat.eqb i node_map) eqn:E; simpl; [rewrite E; repeat split|rewrite E; reflexivity].
  Qed.

  (* the type table covers every type that occurs *)
  Lemma types_fold_covers ns : forall acc t,
    (In t acc \/ exists n, In n ns /\ vn_type n = t) -> t <> VTNone ->
    In t (fold_left (fun acc n => match vn_type n with
                                  | VTNone => acc
                                  | t => if mem vtype_eqb t acc then acc else acc ++ [t]
                                  end) ns acc).
  Proof.
    assert (Hspec : forall a b, vtype_eqb a b = true <-> a = b).
    { intros [] []; simpl; try (split; [discriminate|congruence]); try tauto.
      rewrite Nat.eqb_eq. split; congruence. }
    induction ns as [|n r IH]; intros acc t H Hne; simpl.
    - destruct H as [H|[n [[] _]]]. exact H.
    - apply IH; [|exact Hne]. destruct H as [H|[n0 [[<-|Hin] Ht]]].
      + left. destruct (vn_type n); try exact H; destruct (mem vtype_eqb _ acc); try exact H; apply in_or_app; left; exact H.
      + left. rewrite Ht. destruct t; try contradiction;
          (destruct (mem vtype_eqb _ acc) eqn:E; [apply (mem_true_iff vtype_eqb Hspec); exact E|apply in_or_app; right; left; reflexivity]).
      + right. exists n0. split; assumption.
  Qed.

  Theorem type_table_covers :
    forall n, In n (vc_nodes cfg) -> vn_type n <> VTNone -> In (vn_type n) (vc_types cfg).
  Proof.
    intros n Hn Hne. unfold cfg, generate. simpl. apply types_fold_covers; [|exact Hne].
    right. exists n. split; [exact Hn|reflexivity].
  Qed.
End Gen.
