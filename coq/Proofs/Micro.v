(* Configuration-level reachability, for every program: the states *inside* one event-loop iteration, frame step by frame
   step. A configuration is a state together with the task that is running (its id, the rest of its stack and the signal it
   is resumed with) or None between two iterations. Every state reachable by a schedule is a None-configuration here, so an
   invariant proved by induction over `creach` (where earlier invariants are available at every intermediate point) holds of
   every reachable state. *)
From MLPE Require Import Engine.Run Proofs.ExecLemmas.

Definition running := option (tid * list frame * signal).

Section Micro.
  Variable P : prog.

  Definition after_step (t : tid) (rest : list frame) (r : mstate * directive) : mstate * running :=
    match r with
    | (st1, DSuspend w k') => (suspend t w (k' ++ rest) st1, None)
    | (st1, DYield k') => (push_ready t (set_tstate t (TReady (k' ++ rest) SGo) st1), None)
    | (st1, DCont k' sg') => (st1, Some (t, k' ++ rest, sg'))
    | (st1, DRet sg') => (st1, Some (t, rest, sg'))
    end.

  Inductive creach : mstate -> running -> Prop :=
  | cr_init : creach (init_state) None
  | cr_start st t rest x k sg :
      creach st None -> st_ready st = t :: rest -> find_task t (st_tasks st) = Some x -> t_state x = TReady k sg ->
      creach (dequeue st) (Some (t, k, sg))
  | cr_skip st t rest :
      creach st None -> st_ready st = t :: rest -> creach (dequeue st) None
  | cr_step st t fr rest sg :
      creach st (Some (t, fr :: rest, sg)) ->
      creach (fst (after_step t rest (step_frame P t fr sg st))) (snd (after_step t rest (step_frame P t fr sg st)))
  | cr_done st t sg : creach st (Some (t, [], sg)) -> creach (set_tstate t (TDone sg) st) None
  | cr_abort st c : creach st (Some c) -> creach (abort P st) None
  | cr_gate st g : creach st None -> creach (complete_gate g st) None
  | cr_cancel st : creach st None -> creach (cancel_task main_tid st) None.

  Lemma creach_exec fuel : forall t k sg st, creach st (Some (t, k, sg)) -> creach (exec P fuel t k sg st) None.
  Proof.
    induction fuel as [|f IH]; intros t k sg st H.
    - destruct k as [|fr rest]; cbn [exec]; [apply cr_done; exact H|]. eapply cr_abort. exact H.
    - destruct k as [|fr rest]; cbn [exec]; [apply cr_done; exact H|].
      pose proof (cr_step st t fr rest sg H) as Hs.
      destruct (step_frame P t fr sg st) as [st1 [w k'|k'|k' sg'|sg']]; cbn [after_step fst snd] in Hs; try exact Hs; apply IH; exact Hs.
  Qed.

  Lemma creach_loop_step st : creach st None -> creach (loop_step P st) None.
  Proof.
    intros H. rewrite loop_step_unfold. destruct (st_ready st) as [|t rest] eqn:E; [exact H|].
    destruct (find_task t (st_tasks st)) as [x|] eqn:F; [|eapply cr_skip; eassumption].
    destruct (t_state x) as [k sg|w k|r] eqn:T; try (eapply cr_skip; eassumption).
    apply creach_exec. eapply cr_start; eassumption.
  Qed.

  Theorem reachable_creach st : reachable P st -> creach st None.
  Proof.
    intros H. induction H as [|st a H IH]; [apply cr_init|].
    destruct a as [| |g|]; cbn [apply_action].
    - apply creach_loop_step. exact IH.
    - unfold quiesce_fuel. generalize 4096. intros fuel. revert st H IH. induction fuel as [|f IHf]; intros st H IH; cbn [quiesce]; [exact IH|].
      destruct (st_ready st) eqn:E; [exact IH|]. apply IHf; [apply reach_step with (a := AStep); exact H|apply creach_loop_step; exact IH].
    - apply cr_gate. exact IH.
    - apply cr_cancel. exact IH.
  Qed.
End Micro.
