(* ALL programs, every schedule: every body invocation belongs to an execution of its node that has begun (C04): in the history,
   a body invocation of node n is preceded by the marking of n as processed (the ghost event OProcessed emitted where
   _execute_node sets the mark). *)
From MLPE Require Import Engine.Run Proofs.ExecLemmas Proofs.Evolve Proofs.StackInv Proofs.Micro Proofs.PlainLive Proofs.PlainCore Proofs.PlainInv
     Proofs.PlainEvents Proofs.PlainNodeStart Proofs.PipeAll Proofs.NodeStartAll.

Definition exec_of (f : frame) : option key :=
  match f with FExecAfterStart _ n _ | FExecAfterBody _ n => Some n | _ => None end.

Section ProcAll.
  Variable P : prog.

  Definition begun (tr : list obs) (k : list frame) : Prop := forall f n, In f k -> exec_of f = Some n -> In (OProcessed n) tr.

  Lemma step_exec_origin t fr sg st f n :
    In f (dir_frames (snd (step_frame P t fr sg st))) -> exec_of f = Some n ->
    exec_of fr = Some n \/ In (OProcessed n) (st_trace (fst (step_frame P t fr sg st))).
  Proof.
    destruct fr; destruct sg; cbn [step_frame]; unfold default_or_raise, reduced; repeat break_match; spawn_norm;
      unfold emit_frames; cbn [snd fst dir_frames]; intros Hin Hs;
      repeat (destruct Hin as [Hin|Hin]; [subst f; cbn [exec_of] in Hs; try discriminate Hs; inversion Hs; subst;
                                          first [left; reflexivity | right; cbn [st_trace emit_obs with_store]; left; reflexivity]|]); try contradiction.
  Qed.

  Definition bg_TP (tr : list obs) (x : task frame) : Prop := begun tr (estack (t_state x)).
  Lemma bg_wake tr x w k : t_state x = TWait w k -> bg_TP tr x -> bg_TP tr (with_ts x (TReady k SGo)).
  Proof. unfold bg_TP. intros E H. rewrite E in H. exact H. Qed.
  Lemma bg_cancel_ready tr x k sg : t_state x = TReady k sg -> bg_TP tr x -> bg_TP tr (with_ts x (TReady k (SThrow XCancelled))).
  Proof. unfold bg_TP. intros E H. rewrite E in H. exact H. Qed.
  Lemma bg_cancel_wait tr x w k : t_state x = TWait w k -> bg_TP tr x -> bg_TP tr (with_ts x (TReady k (SThrow XCancelled))).
  Proof. unfold bg_TP. intros E H. rewrite E in H. exact H. Qed.
  Lemma bg_spawn tr i nm f : 1 <= i -> spawn_frame f = true -> bg_TP tr {| t_id := i; t_name := nm; t_state := TReady [f] SGo; t_helper := true |}.
  Proof. unfold bg_TP, begun. cbn. intros _ Hf g n [<-|[]] Hs. destruct f; try discriminate Hf; discriminate Hs. Qed.
  Lemma begun_mono new tr k : begun tr k -> begun (new ++ tr) k.
  Proof. intros H f n Hf Hs. apply in_or_app. right. exact (H f n Hf Hs). Qed.

  (* the shape facts of Proofs/NodeStartAll.v alone (no assumption on the managers) *)
  Definition shp (k : list frame) : Prop := pairsS k = true /\ botS k = true.
  Definition sh_TP (x : task frame) : Prop := shp (estack (t_state x)).
  Lemma sh_wake x w k : t_state x = TWait w k -> sh_TP x -> sh_TP (with_ts x (TReady k SGo)).
  Proof. unfold sh_TP. intros E H. rewrite E in H. exact H. Qed.
  Lemma sh_cancel_ready x k sg : t_state x = TReady k sg -> sh_TP x -> sh_TP (with_ts x (TReady k (SThrow XCancelled))).
  Proof. unfold sh_TP. intros E H. rewrite E in H. exact H. Qed.
  Lemma sh_cancel_wait x w k : t_state x = TWait w k -> sh_TP x -> sh_TP (with_ts x (TReady k (SThrow XCancelled))).
  Proof. unfold sh_TP. intros E H. rewrite E in H. exact H. Qed.
  Lemma sh_spawn i nm f : 1 <= i -> spawn_frame f = true -> sh_TP {| t_id := i; t_name := nm; t_state := TReady [f] SGo; t_helper := true |}.
  Proof. unfold sh_TP, shp. cbn. intros _ Hf. destruct f; try discriminate Hf; split; reflexivity. Qed.

  Theorem creach_shape : forall st c, creach P st c -> tasks_ok sh_TP st /\ (match c with Some (_, k, _) => shp k | None => True end).
  Proof.
    intros st c H. pose proof (creach_evolves P st c H) as Hev0.
    induction H as [|st t rest x k sg H IH Hq Hf Ht|st t rest H IH Hq|st t fr rest sg H IH|st t sg H IH|st c H IH|st g H IH|st H IH].
    - split; [|exact I]. unfold tasks_ok, init_state. cbn. constructor; [|constructor]. split; reflexivity.
    - destruct (IH (creach_evolves P _ _ H)) as (A & _). split; [apply ok_dequeue; exact A|].
      destruct (find_task_in _ _ _ Hf) as [Hin _]. unfold tasks_ok in A. rewrite Forall_forall in A. specialize (A x Hin). unfold sh_TP in A. rewrite Ht in A. exact A.
    - destruct (IH (creach_evolves P _ _ H)) as (A & _). split; [apply ok_dequeue; exact A|exact I].
    - pose proof (creach_evolves P _ _ H) as Hev. destruct (IH Hev) as (A & (Bp & Bb)).
      pose proof (ev_next _ _ Hev) as Hn1. cbn in Hn1.
      destruct (step_pairsS_all P t fr sg st) as (Hp1 & Hp2 & Hp3 & Hp4).
      pose proof (step_frame_tasks_ok P sh_TP sh_wake sh_cancel_ready sh_cancel_wait sh_spawn t fr sg st Hn1 A) as A1.
      assert (Hpk : pairsS (dir_frames (snd (step_frame P t fr sg st)) ++ rest) = true) by (apply (pairsS_app fr); assumption).
      assert (Hbk : dir_frames (snd (step_frame P t fr sg st)) <> [] -> botS (dir_frames (snd (step_frame P t fr sg st)) ++ rest) = true) by (intros Hne; apply (botS_app fr); assumption).
      destruct (step_frame P t fr sg st) as [st1 [w k'|k'|k' sg'|sg']]; cbn [after_step fst snd dir_frames dir_ne] in *.
      + split; [|exact I]. apply ok_suspend; [exact A1|]. intros y _ _. unfold sh_TP. cbn. destruct k' as [|f1 k'']; [discriminate Hp3|]. split; [exact Hpk|apply Hbk; discriminate].
      + split; [|exact I]. apply ok_push_ready. apply ok_set_tstate; [exact A1|]. intros y _ _. unfold sh_TP. cbn. destruct k' as [|f1 k'']; [discriminate Hp3|]. split; [exact Hpk|apply Hbk; discriminate].
      + split; [exact A1|]. destruct k' as [|f1 k'']; [discriminate Hp3|]. split; [exact Hpk|apply Hbk; discriminate].
      + split; [exact A1|]. split; [exact (pairsS_tail _ _ Bp)|exact (botS_tail _ _ Bb)].
    - destruct (IH (creach_evolves P _ _ H)) as (A & _). split; [|exact I]. apply ok_set_tstate; [exact A|]. intros y _ _. split; reflexivity.
    - destruct (IH (creach_evolves P _ _ H)) as (A & _). split; [|exact I]. apply ok_abort; [|exact A]. intros y k0 _. split; reflexivity.
    - destruct (IH (creach_evolves P _ _ H)) as (A & _). split; [|exact I]. apply (complete_gate_tasks_ok sh_TP sh_wake). exact A.
    - destruct (IH (creach_evolves P _ _ H)) as (A & _). split; [|exact I]. apply (ok_cancel_task sh_TP sh_cancel_ready sh_cancel_wait). exact A.
  Qed.

  Definition body_after_mark (tr : list obs) : Prop :=
    forall a b i k kw, tr = a ++ OStart i k kw :: b -> exists n, real_index n = i /\ In (OProcessed n) b.

  Theorem creach_body_after_mark : forall st c, creach P st c ->
    tasks_ok (bg_TP (st_trace st)) st /\ (match c with Some (_, k, _) => begun (st_trace st) k | None => True end)
    /\ body_after_mark (st_trace st).
  Proof.
    intros st c H. pose proof (creach_evolves P st c H) as Hev0.
    induction H as [|st t rest x k sg H IH Hq Hf Ht|st t rest H IH Hq|st t fr rest sg H IH|st t sg H IH|st c H IH|st g H IH|st H IH].
    - split; [|split; [exact I|]].
      + unfold tasks_ok, init_state. cbn. constructor; [|constructor]. intros f n [<-|[]] Hs. discriminate Hs.
      + intros a b i k kw E. cbn in E. destruct a as [|y a']; [discriminate E|]. inversion E. destruct a'; discriminate.
    - destruct (IH (creach_evolves P _ _ H)) as (A & _ & C). split; [apply ok_dequeue; exact A|]. split; [|exact C].
      destruct (find_task_in _ _ _ Hf) as [Hin _]. unfold tasks_ok in A. rewrite Forall_forall in A. specialize (A x Hin). unfold bg_TP in A. rewrite Ht in A. exact A.
    - destruct (IH (creach_evolves P _ _ H)) as (A & _ & C). split; [apply ok_dequeue; exact A|]. split; [exact I|exact C].
    - pose proof (creach_evolves P _ _ H) as Hev. destruct (IH Hev) as (A & B & C).
      pose proof (ev_next _ _ Hev) as Hn1. cbn in Hn1.
      destruct (ev_trace _ _ (ev_step_frame P t fr sg st)) as [new Etr].
      destruct (creach_shape _ _ H) as (_ & (Bp & Bb)).
      assert (A1 : tasks_ok (bg_TP (st_trace (fst (step_frame P t fr sg st)))) (fst (step_frame P t fr sg st))).
      { apply (step_frame_tasks_ok P (bg_TP _) (bg_wake _) (bg_cancel_ready _) (bg_cancel_wait _) (bg_spawn _)); [exact Hn1|].
        rewrite Etr. unfold tasks_ok in *. eapply Forall_impl; [|exact A]. intros x Hx. apply begun_mono. exact Hx. }
      assert (Hkk : begun (st_trace (fst (step_frame P t fr sg st))) (dir_frames (snd (step_frame P t fr sg st)) ++ rest)).
      { intros f n Hin Hs. apply in_app_or in Hin. destruct Hin as [Hin|Hin].
        - destruct (step_exec_origin t fr sg st f n Hin Hs) as [Hfr|Hin']; [|exact Hin'].
          rewrite Etr. apply in_or_app. right. apply (B fr n); [left; reflexivity|exact Hfr].
        - rewrite Etr. apply in_or_app. right. apply (B f n); [right; exact Hin|exact Hs]. }
      assert (C1 : body_after_mark (st_trace (fst (step_frame P t fr sg st)))).
      { destruct (step_trace_ostart_all P t fr sg st) as [[i [kw [att (-> & -> & Etr')]]]|[new' [Etr' Hnew]]].
        - rewrite Etr'. intros a b i' k' kw' E. destruct a as [|y a'].
          + cbn [app] in E. inversion E; subst i' k' kw' b.
            destruct rest as [|g r]; [unfold botS in Bb; cbn in Bb; discriminate Bb|].
            pose proof (pairsS_head _ _ _ Bp) as Hadj. unfold adjS in Hadj. cbn [is_retry_frame] in Hadj. apply andb_true_iff in Hadj. destruct Hadj as [_ Hadj].
            destruct g; try discriminate Hadj. apply Nat.eqb_eq in Hadj. exists n. split; [symmetry; exact Hadj|].
            apply (B (FExecAfterBody d n) n); [right; left; reflexivity|reflexivity].
          + cbn [app] in E. inversion E as [[Ey E']]. exact (C a' b i' k' kw' E').
        - rewrite Etr'. intros a b i' k' kw' E. destruct (split_in_suffix new' (st_trace st) a b (OStart i' k' kw') Hnew eq_refl E) as [a' [_ E']].
          exact (C a' b i' k' kw' E'). }
      rewrite trace_after_step'.
      destruct (step_frame P t fr sg st) as [st1 [w k'|k'|k' sg'|sg']]; cbn [after_step fst snd dir_frames] in *.
      + split; [|split; [exact I|exact C1]]. apply ok_suspend; [exact A1|]. intros y _ _. unfold bg_TP. cbn. exact Hkk.
      + split; [|split; [exact I|exact C1]]. apply ok_push_ready. apply ok_set_tstate; [exact A1|]. intros y _ _. unfold bg_TP. cbn. exact Hkk.
      + split; [exact A1|]. split; [exact Hkk|exact C1].
      + split; [exact A1|]. split; [|exact C1]. intros f n Hin Hs. apply (Hkk f n); [exact Hin|exact Hs].
    - destruct (IH (creach_evolves P _ _ H)) as (A & _ & C). split; [|split; [exact I|exact C]]. apply ok_set_tstate; [exact A|]. intros y _ _ f n [].
    - destruct (IH (creach_evolves P _ _ H)) as (A & _ & C). split; [|split; [exact I|exact C]]. apply ok_abort; [|exact A]. intros y k0 _ f n [].
    - destruct (IH (creach_evolves P _ _ H)) as (A & _ & C). unfold complete_gate. rewrite trace_wake_all. split; [|split; [exact I|exact C]].
      apply (complete_gate_tasks_ok (bg_TP _) (bg_wake _)). exact A.
    - destruct (IH (creach_evolves P _ _ H)) as (A & _ & C). rewrite trace_cancel_task. split; [|split; [exact I|exact C]].
      apply (ok_cancel_task (bg_TP _) (bg_cancel_ready _) (bg_cancel_wait _)). exact A.
  Qed.
End ProcAll.

Theorem every_body_invocation_belongs_to_a_begun_execution P :
  forall st, reachable P st -> forall a b i k kw, st_trace st = a ++ OStart i k kw :: b -> exists n, real_index n = i /\ In (OProcessed n) b.
Proof. intros st Hr. destruct (creach_body_after_mark P st None (reachable_creach P st Hr)) as (_ & _ & C). exact C. Qed.
